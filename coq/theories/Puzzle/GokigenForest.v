(* C11 Tier 1 - gokigen, graph side: the rule vocabulary's "no closed loop" test
   (PuzzleBase.edges_acyclic: #selected edges + #components = #vertices) coincides with the
   specification of property C09 (Acyclic.forest: every selected edge is a bridge), for every
   well-formed multigraph and every edge selection.  Proof: a union-find run over the edge list
   whose representative is the least vertex of the class; each selected edge that joins two
   classes removes exactly one representative, an edge inside a class removes none. *)
From Coq Require Import ZArith List Bool Arith Lia.
From Cspuz Require Import Graph.GraphModel Graph.ReachProofs Graph.Acyclic Graph.AcyclicGraphFacts
     Graph.AcyclicUnionFind Puzzle.PuzzleBase.
Import ListNotations.
Local Open Scope nat_scope.

(* ---------------------------------------------------------------- counting *)

Lemma gkf_count_cons {A} (f : A -> bool) a l : count f (a :: l) = (if f a then 1 else 0) + count f l.
Proof. unfold count. simpl. destruct (f a); reflexivity. Qed.

Lemma gkf_count_ext_in {A} (f g : A -> bool) l : (forall x, In x l -> f x = g x) -> count f l = count g l.
Proof.
  induction l as [|a r IH]; intros H; [reflexivity|]. rewrite !gkf_count_cons.
  rewrite (H a (or_introl eq_refl)), IH by (intros; apply H; right; assumption). reflexivity.
Qed.

Lemma gkf_count_remove (f : nat -> bool) M l :
  NoDup l -> In M l -> f M = true ->
  count (fun v => f v && negb (Nat.eqb v M)) l + 1 = count f l.
Proof.
  induction l as [|a r IH]; intros Hnd Hin HM; [destruct Hin|].
  rewrite !gkf_count_cons. inversion Hnd as [|? ? Hna Hnd']; subst.
  destruct Hin as [->|Hin].
  - rewrite HM, Nat.eqb_refl. simpl.
    rewrite (gkf_count_ext_in (fun v => f v && negb (Nat.eqb v M)) f r).
    + lia.
    + intros x Hx. destruct (Nat.eqb_spec x M) as [->|_]; [contradiction|]. apply andb_true_r.
  - specialize (IH Hnd' Hin HM).
    destruct (Nat.eqb_spec a M) as [->|_]; [contradiction|]. rewrite andb_true_r. lia.
Qed.

Lemma gkf_count_id n : count (fun v => Nat.eqb v v) (seq 0 n) = n.
Proof.
  generalize 0. induction n as [|n IH]; intros s; [reflexivity|].
  simpl seq. rewrite gkf_count_cons, Nat.eqb_refl, IH. reflexivity.
Qed.

(* ---------------------------------------------------------------- union-find with least representatives *)

Definition ufm_union (uf : nat -> nat) (a b : nat) : nat -> nat :=
  fun v => if Nat.eqb (uf v) (uf a) || Nat.eqb (uf v) (uf b) then Nat.min (uf a) (uf b) else uf v.

(* final classes and the number of selected edges that joined two classes *)
Fixpoint ufm_run (uf : nat -> nat) (k : nat) (es : list (nat * nat)) (A : nat -> bool) : (nat -> nat) * nat :=
  match es with
  | [] => (uf, 0)
  | (a, b) :: r =>
      if A k then
        if Nat.eqb (uf a) (uf b) then ufm_run uf (S k) r A
        else let '(uf', j) := ufm_run (ufm_union uf a b) (S k) r A in (uf', S j)
      else ufm_run uf (S k) r A
  end.

Section Forest.
  Variable g : graph.
  Variable A : nat -> bool.
  Hypothesis Hwf : wf_graph g = true.

  Definition fixc (uf : nat -> nat) : nat := count (fun v => Nat.eqb (uf v) v) (seq 0 (nv g)).

  Definition ufm_ok (uf : nat -> nat) (k : nat) : Prop :=
    uf_inv g A uf k /\ (forall v, uf v <= v) /\ (forall v, uf (uf v) = uf v).

  Lemma ufm_inv_union uf k a b :
    nth_error (edges g) k = Some (a, b) -> A k = true -> uf_inv g A uf k -> uf_inv g A (ufm_union uf a b) (S k).
  Proof.
    intros HK Hk Hinv u v. unfold ufm_union.
    assert (Hab : joined g (below A (S k)) a b).
    { eapply joined_edge; eauto. unfold below. rewrite Hk. simpl. apply Nat.ltb_lt. lia. }
    assert (Hup : forall x y, uf x = uf y -> joined g (below A (S k)) x y).
    { intros x y E. apply (joined_mono g (below A k)); [apply below_mono|]. apply Hinv. exact E. }
    assert (Hin : forall x, Nat.eqb (uf x) (uf a) || Nat.eqb (uf x) (uf b) = true -> joined g (below A (S k)) x a).
    { intros x Hx. apply orb_true_iff in Hx. destruct Hx as [Hx|Hx]; apply Nat.eqb_eq in Hx.
      - apply Hup. exact Hx.
      - apply (AcyclicGraphFacts.reach_trans _ _ _ _ b); [apply Hup; exact Hx|].
        apply AcyclicGraphFacts.reach_sym. exact Hab. }
    split.
    - intros E.
      destruct (Nat.eqb (uf u) (uf a) || Nat.eqb (uf u) (uf b)) eqn:Eu,
               (Nat.eqb (uf v) (uf a) || Nat.eqb (uf v) (uf b)) eqn:Ev.
      + apply (AcyclicGraphFacts.reach_trans _ _ _ _ a); [apply Hin; exact Eu|].
        apply AcyclicGraphFacts.reach_sym. apply Hin. exact Ev.
      + exfalso. apply orb_false_iff in Ev. destruct Ev as [E1 E2].
        apply Nat.eqb_neq in E1. apply Nat.eqb_neq in E2. lia.
      + exfalso. apply orb_false_iff in Eu. destruct Eu as [E1 E2].
        apply Nat.eqb_neq in E1. apply Nat.eqb_neq in E2. lia.
      + apply Hup. exact E.
    - intros Hj.
      destruct (add_edge_reach g (below A k) _ k a b u v HK (below_S_cases A k) Hj) as [H1|[[H1 H2]|[H1 H2]]].
      + apply Hinv in H1. rewrite H1. reflexivity.
      + apply Hinv in H1. apply Hinv in H2. rewrite H1, <- H2, !Nat.eqb_refl, orb_true_r. reflexivity.
      + apply Hinv in H1. apply Hinv in H2. rewrite H1, <- H2, !Nat.eqb_refl, orb_true_r. reflexivity.
  Qed.

  (* a selected edge inside a class changes nothing *)
  Lemma ufm_inv_cycle uf k a b :
    nth_error (edges g) k = Some (a, b) -> uf a = uf b -> uf_inv g A uf k -> uf_inv g A uf (S k).
  Proof.
    intros HK E Hinv u v. rewrite (Hinv u v).
    assert (Hab : joined g (below A k) a b) by (apply Hinv; exact E).
    split; [apply joined_mono; apply below_mono|].
    intros Hj.
    destruct (add_edge_reach g (below A k) _ k a b u v HK (below_S_cases A k) Hj) as [H1|[[H1 H2]|[H1 H2]]].
    - exact H1.
    - apply (AcyclicGraphFacts.reach_trans _ _ _ _ a); [exact H1|].
      apply (AcyclicGraphFacts.reach_trans _ _ _ _ b); [exact Hab|exact H2].
    - apply (AcyclicGraphFacts.reach_trans _ _ _ _ b); [exact H1|].
      apply (AcyclicGraphFacts.reach_trans _ _ _ _ a); [apply AcyclicGraphFacts.reach_sym; exact Hab|exact H2].
  Qed.

  Lemma ufm_union_le uf a b : (forall v, uf v <= v) -> forall v, ufm_union uf a b v <= v.
  Proof.
    intros Hle v. unfold ufm_union.
    destruct (Nat.eqb_spec (uf v) (uf a)), (Nat.eqb_spec (uf v) (uf b)); simpl; pose proof (Hle v); lia.
  Qed.

  Lemma ufm_union_idem uf a b : (forall v, uf (uf v) = uf v) -> forall v,
    ufm_union uf a b (ufm_union uf a b v) = ufm_union uf a b v.
  Proof.
    intros Hid v. unfold ufm_union.
    set (m := Nat.min (uf a) (uf b)).
    assert (Hm : uf m = m).
    { unfold m. destruct (Nat.min_dec (uf a) (uf b)) as [E|E]; rewrite E; apply Hid. }
    assert (Hmab : Nat.eqb (uf m) (uf a) || Nat.eqb (uf m) (uf b) = true).
    { rewrite Hm. unfold m. destruct (Nat.min_dec (uf a) (uf b)) as [E|E]; rewrite E, Nat.eqb_refl;
        [reflexivity|apply orb_true_r]. }
    destruct (Nat.eqb (uf v) (uf a) || Nat.eqb (uf v) (uf b)) eqn:Ev.
    - rewrite Hmab. reflexivity.
    - rewrite Hid, Ev. reflexivity.
  Qed.

  Lemma ufm_union_fix uf a b v :
    (forall v, uf (uf v) = uf v) -> uf a <> uf b ->
    Nat.eqb (ufm_union uf a b v) v = Nat.eqb (uf v) v && negb (Nat.eqb v (Nat.max (uf a) (uf b))).
  Proof.
    intros Hid Hne. unfold ufm_union.
    pose proof (Hid a) as Hua. pose proof (Hid b) as Hub.
    assert (Hv1 : v = uf a -> uf v = uf a) by (intros ->; exact Hua).
    assert (Hv2 : v = uf b -> uf v = uf b) by (intros ->; exact Hub).
    destruct (Nat.eqb_spec (uf v) (uf a)), (Nat.eqb_spec (uf v) (uf b)); simpl;
      destruct (Nat.eqb_spec (Nat.min (uf a) (uf b)) v), (Nat.eqb_spec (uf v) v),
               (Nat.eqb_spec v (Nat.max (uf a) (uf b))); simpl; try reflexivity; exfalso; lia.
  Qed.

  Lemma ufm_fixc_union uf a b :
    (forall v, uf v <= v) -> (forall v, uf (uf v) = uf v) -> a < nv g -> b < nv g -> uf a <> uf b ->
    fixc (ufm_union uf a b) + 1 = fixc uf.
  Proof.
    intros Hle Hid Ha Hb Hne. unfold fixc.
    rewrite (gkf_count_ext_in _ (fun v => Nat.eqb (uf v) v && negb (Nat.eqb v (Nat.max (uf a) (uf b)))))
      by (intros v _; apply ufm_union_fix; assumption).
    apply (gkf_count_remove (fun v => Nat.eqb (uf v) v)).
    - apply seq_NoDup.
    - apply in_seq. pose proof (Hle a). pose proof (Hle b). lia.
    - apply Nat.eqb_eq. destruct (Nat.max_dec (uf a) (uf b)) as [E|E]; rewrite E; apply Hid.
  Qed.

  Definition joining_from (k0 : nat) : Prop :=
    forall K a b, k0 <= K -> nth_error (edges g) K = Some (a, b) -> A K = true -> ~ joined g (below A K) a b.

  Lemma ufm_run_spec : forall es pre uf uf' j,
    edges g = pre ++ es -> ufm_ok uf (length pre) ->
    ufm_run uf (length pre) es A = (uf', j) ->
    ufm_ok uf' (length (edges g)) /\ fixc uf' + j = fixc uf /\
    j <= count A (seq (length pre) (length es)) /\
    (j = count A (seq (length pre) (length es)) <-> joining_from (length pre)).
  Proof.
    induction es as [|[a b] r IH]; intros pre uf uf' j Hsplit Hok Hrun.
    - simpl in Hrun. inversion Hrun; subst uf' j. clear Hrun.
      assert (Hl : length (edges g) = length pre) by (rewrite Hsplit, app_nil_r; reflexivity).
      rewrite Hl. split; [exact Hok|]. split; [lia|]. split; [simpl; lia|].
      split; [|reflexivity]. intros _ K x y HK Hn. exfalso.
      assert (K < length (edges g)) by (apply nth_error_Some; congruence). lia.
    - assert (Hk : nth_error (edges g) (length pre) = Some (a, b)).
      { rewrite Hsplit, nth_error_app2, Nat.sub_diag by lia. reflexivity. }
      assert (Hsplit' : edges g = (pre ++ [(a, b)]) ++ r) by (rewrite <- app_assoc; exact Hsplit).
      assert (Hlen : length (pre ++ [(a, b)]) = S (length pre)) by (rewrite app_length; simpl; lia).
      destruct (wf_graph_nth g _ a b Hwf Hk) as [Ha Hb].
      destruct Hok as [Hinv [Hle Hid]].
      cbn [length seq]. rewrite gkf_count_cons.
      cbn [ufm_run] in Hrun.
      destruct (A (length pre)) eqn:HA.
      + destruct (Nat.eqb_spec (uf a) (uf b)) as [E|E].
        * assert (Hok' : ufm_ok uf (S (length pre))).
          { split; [|split; assumption]. eapply ufm_inv_cycle; eauto. }
          rewrite <- Hlen in Hok', Hrun.
          destruct (IH _ _ _ _ Hsplit' Hok' Hrun) as [H1 [H2 [H3 H4]]]. rewrite Hlen in H3, H4.
          split; [exact H1|]. split; [exact H2|]. split; [lia|].
          split; [intros; exfalso; lia|].
          intros Hj. exfalso. apply (Hj (length pre) a b (le_n _) Hk HA). apply Hinv. exact E.
        * destruct (ufm_run (ufm_union uf a b) (S (length pre)) r A) as [uf1 j1] eqn:Hrun1.
          inversion Hrun; subst uf' j. clear Hrun.
          assert (Hok' : ufm_ok (ufm_union uf a b) (S (length pre))).
          { split; [eapply ufm_inv_union; eauto|].
            split; [apply ufm_union_le; exact Hle|apply ufm_union_idem; exact Hid]. }
          rewrite <- Hlen in Hok', Hrun1.
          destruct (IH _ _ _ _ Hsplit' Hok' Hrun1) as [H1 [H2 [H3 H4]]]. rewrite Hlen in H3, H4.
          pose proof (ufm_fixc_union uf a b Hle Hid Ha Hb E) as Hfx.
          split; [exact H1|]. split; [lia|]. split; [lia|].
          split.
          -- intros Hj K x y HK Hn HAK.
             destruct (Nat.eq_dec K (length pre)) as [->|Hne].
             ++ rewrite Hk in Hn. inversion Hn; subst. intros Hjn. apply E. apply Hinv. exact Hjn.
             ++ apply H4; auto; lia.
          -- intros Hj. assert (j1 = count A (seq (S (length pre)) (length r))); [|lia].
             apply H4. intros K x y HK. apply Hj. lia.
      + assert (Hok' : ufm_ok uf (S (length pre))).
        { split; [|split; assumption]. apply uf_inv_skip; assumption. }
        rewrite <- Hlen in Hok', Hrun.
        destruct (IH _ _ _ _ Hsplit' Hok' Hrun) as [H1 [H2 [H3 H4]]]. rewrite Hlen in H3, H4.
        split; [exact H1|]. split; [exact H2|]. split; [lia|].
        simpl. rewrite H4. split; intros Hj K x y HK Hn HAK.
        * destruct (Nat.eq_dec K (length pre)) as [->|Hne]; [congruence|apply Hj; auto; lia].
        * apply Hj; auto. lia.
  Qed.

  (* walks only use edges that exist *)
  Lemma joined_below_all u v : joined g A u v <-> joined g (below A (length (edges g))) u v.
  Proof.
    split.
    - unfold joined. induction 1 as [x Hx|x y z Hxy IHr Hz Hok]; [apply reach_refl; exact Hx|].
      eapply reach_step; [exact IHr| |exact Hok].
      apply in_nbrs in Hz. destruct Hz as [k [Hin Hk]]. apply in_nbrs. exists k. split; [exact Hin|].
      unfold below. rewrite Hk. apply in_incident in Hin.
      assert (k < length (edges g)) by (apply nth_error_Some; destruct Hin; congruence).
      apply Nat.ltb_lt in H. rewrite H. reflexivity.
    - apply joined_mono. intros k Hk. unfold below in Hk. apply andb_true_iff in Hk. tauto.
  Qed.

  (* the fixed points of a least-representative union-find are the vertices PuzzleBase.n_components counts *)
  Lemma fixc_components uf :
    ufm_ok uf (length (edges g)) -> fixc uf = n_components g A.
  Proof.
    intros [Hinv [Hle Hid]]. unfold fixc, n_components. apply gkf_count_ext_in.
    intros v Hv. apply in_seq in Hv.
    destruct (component_head g (fun _ => true) A v eq_refl) as [t Ht].
    assert (Hspec : forall u, In u (component g (fun _ => true) A v) <-> uf v = uf u).
    { intros u. rewrite (component_spec g _ _ v u Hwf) by lia.
      rewrite (Hinv v u). exact (joined_below_all v u). }
    rewrite Ht in *.
    apply Bool.eq_iff_eq_true. rewrite Nat.eqb_eq, forallb_forall. split.
    - intros E u Hu. apply Hspec in Hu. apply Nat.leb_le. rewrite <- E, Hu. apply Hle.
    - intros Hall. assert (Hin : In (uf v) (v :: t)) by (apply Hspec; symmetry; apply Hid).
      specialize (Hall _ Hin). apply Nat.leb_le in Hall. pose proof (Hle v). lia.
  Qed.

  Theorem edges_acyclic_forest : edges_acyclic g A = true <-> forest g A.
  Proof.
    destruct (ufm_run (fun v => v) 0 (edges g) A) as [uf' j] eqn:Hrun.
    assert (Hok0 : ufm_ok (fun v => v) (length (@nil (nat * nat)))).
    { split; [apply uf_inv_init|]. split; [intros; apply le_n|reflexivity]. }
    destruct (ufm_run_spec (edges g) [] (fun v => v) uf' j eq_refl Hok0 Hrun) as [H1 [H2 [H3 H4]]].
    cbn [length] in H3, H4.
    assert (Hn : fixc (fun v => v) = nv g) by apply gkf_count_id.
    rewrite (fixc_components uf' H1) in H2.
    unfold edges_acyclic. rewrite Nat.eqb_eq.
    assert (Hpf : joining_from 0 <-> forest g A).
    { split.
      - intros Hj. apply prefix_forest. intros K a b Hn' Ha. apply Hj; auto. lia.
      - intros Hf K a b _ Hn' Ha. apply (forest_prefix g A Hf K a b Hn' Ha). }
    rewrite <- Hpf, <- H4. lia.
  Qed.
End Forest.
