(* C09 soundness: a rank assignment passing the certificate checker exists only
   when every active edge is a bridge of the active-edge subgraph. *)
From Coq Require Import ZArith List Bool Arith Lia.
From Cspuz Require Import Graph.GraphModel Graph.Acyclic Graph.AcyclicGraphFacts.
Import ListNotations.

Section Sound.
  Variable g : graph.
  Variable A : nat -> bool.
  Variable r : nat -> Z.
  Hypothesis Hwf : wf_graph g = true.
  Hypothesis Hlf : loop_free g = true.
  Hypothesis Hcert : cert_acyclic g A r = true.

  Definition lowA (v : nat) (x : nat * nat) : bool :=
    let '(j, e) := x in Z.ltb (r j) (r v) && A e.

  Lemma cert_at v : v < nv g -> cert_vertex g A r v = true.
  Proof.
    intros Hv. unfold cert_acyclic in Hcert. rewrite forallb_forall in Hcert.
    apply Hcert. apply in_seq. lia.
  Qed.

  Lemma cert_ne_lt v w k : In (w, k) (incident g v) -> v < w -> r v <> r w.
  Proof.
    intros Hin Hlt. destruct (incident_lt _ _ _ _ Hwf Hin) as [Hv _].
    pose proof (cert_at v Hv) as C. unfold cert_vertex in C. apply andb_true_iff in C.
    destruct C as [C _]. rewrite forallb_forall in C. specialize (C _ Hin). simpl in C.
    apply Nat.ltb_lt in Hlt. rewrite Hlt in C. simpl in C.
    apply negb_true_iff in C. apply Z.eqb_neq in C. exact C.
  Qed.

  Lemma cert_ne v w k : In (w, k) (incident g v) -> r v <> r w.
  Proof.
    intros Hin. pose proof (incident_neq _ _ _ _ Hlf Hin) as Hne.
    destruct (Nat.lt_ge_cases v w) as [H|H].
    - eapply cert_ne_lt; eauto.
    - assert (w < v) by lia. apply incident_sym in Hin.
      intros E. symmetry in E. revert E. eapply cert_ne_lt; eauto.
  Qed.

  Lemma cert_one v x y :
    In x (incident g v) -> In y (incident g v) -> lowA v x = true -> lowA v y = true -> x = y.
  Proof.
    intros Hx Hy Px Py.
    destruct x as [w1 k1], y as [w2 k2].
    destruct (Nat.eq_dec w1 w2) as [->|Hw]; [destruct (Nat.eq_dec k1 k2) as [->|Hk]; [reflexivity|]|].
    all: exfalso.
    all: destruct (incident_lt _ _ _ _ Hwf Hx) as [Hv _].
    all: pose proof (cert_at v Hv) as C; unfold cert_vertex in C; apply andb_true_iff in C.
    all: destruct C as [_ C]; apply Nat.leb_le in C.
    all: rewrite (count_b_map (lowA v)) in C || (unfold lowA in *).
    all: assert (H2 : 2 <= length (filter (lowA v) (incident g v)))
           by (eapply (filter_two (lowA v) _ _ _ Hx Hy); auto; congruence).
    all: lia.
  Qed.

  Section Edge.
    Variables (e lo hi : nat).
    Hypothesis Hin : In (lo, e) (incident g hi).
    Hypothesis Hact : A e = true.
    Hypothesis Hrank : (r lo < r hi)%Z.

    Inductive desc : nat -> Prop :=
    | desc_root : desc hi
    | desc_step v w k : desc w -> In (w, k) (incident g v) -> A k = true -> k <> e ->
                        (r w < r v)%Z -> desc v.

    Lemma desc_rank v : desc v -> (r hi <= r v)%Z.
    Proof. induction 1; lia. Qed.

    Lemma desc_closed v w k :
      desc v -> In (w, k) (incident g v) -> without A e k = true -> desc w.
    Proof.
      intros Hd Hvw Hk. unfold without in Hk. apply andb_true_iff in Hk. destruct Hk as [Ak Hke].
      apply negb_true_iff in Hke. apply Nat.eqb_neq in Hke.
      pose proof (cert_ne _ _ _ Hvw) as Hne.
      destruct (Z.lt_ge_cases (r v) (r w)) as [Hlt|Hge].
      - eapply desc_step; eauto. apply incident_sym. exact Hvw.
      - assert (Hlt : (r w < r v)%Z) by lia.
        assert (Pw : lowA v (w, k) = true).
        { simpl. apply andb_true_iff. split; [apply Z.ltb_lt; exact Hlt|exact Ak]. }
        inversion Hd as [Heq|v' w0 k0 Hd0 Hin0 Ak0 Hk0 Hlt0 Heq]; subst.
        + assert (Pl : lowA hi (lo, e) = true).
          { simpl. apply andb_true_iff. split; [apply Z.ltb_lt; exact Hrank|exact Hact]. }
          pose proof (cert_one _ _ _ Hin Hvw Pl Pw) as E. inversion E. congruence.
        + assert (P0 : lowA v (w0, k0) = true).
          { simpl. apply andb_true_iff. split; [apply Z.ltb_lt; exact Hlt0|exact Ak0]. }
          pose proof (cert_one _ _ _ Hin0 Hvw P0 Pw) as E. inversion E. subst. exact Hd0.
    Qed.

    Lemma reach_desc u v : joined g (without A e) u v -> (desc u <-> desc v).
    Proof.
      unfold joined. induction 1 as [v _|u v w Huv IH Hw _]; [tauto|].
      apply in_nbrs in Hw. destruct Hw as [k [Hk1 Hk2]].
      rewrite IH. split; intros Hd.
      - eapply desc_closed; eauto.
      - eapply desc_closed; eauto. apply incident_sym. exact Hk1.
    Qed.

    Lemma not_joined_lo_hi : ~ joined g (without A e) lo hi /\ ~ joined g (without A e) hi lo.
    Proof.
      split; intros H; apply reach_desc in H.
      - assert (Hd : desc lo) by (apply H; constructor). apply desc_rank in Hd. lia.
      - assert (Hd : desc lo) by (apply H; constructor). apply desc_rank in Hd. lia.
    Qed.
  End Edge.

  Theorem cert_forest : forest g A.
  Proof.
    intros e a b Hnth Hact Hj.
    assert (Hab : In (b, e) (incident g a)) by (apply in_incident; auto).
    assert (Hba : In (a, e) (incident g b)) by (apply in_incident; auto).
    pose proof (cert_ne _ _ _ Hab) as Hne.
    destruct (Z.lt_ge_cases (r a) (r b)) as [Hlt|Hge].
    - destruct (not_joined_lo_hi e a b Hba Hact Hlt) as [H _]. exact (H Hj).
    - assert (Hlt : (r b < r a)%Z) by lia.
      destruct (not_joined_lo_hi e b a Hab Hact Hlt) as [_ H]. exact (H Hj).
  Qed.
End Sound.
