"""Problem generators for C16 (puzzle URL codecs).  All randomness comes from the rng passed in.

Every generator yields (h, w, problem) in the problem format of the cspuz module, biased
to the boundaries of the text format: values 15/16/255/256/4095, empty runs around the
one-character limits (20 for g-z, 26 for a-z, 2 for slitherlink's packed form), 1xN / Nx1
/ non-square boards, all-empty and all-clue boards.
"""
import c15gen as G

BOUND = [1, 2, 9, 10, 15, 16, 17, 99, 254, 255, 256, 257, 1000, 4094, 4095]

SIZES_QUICK = [(1, 1), (1, 2), (2, 1), (1, 5), (5, 1), (2, 3), (3, 2), (3, 3), (4, 5), (5, 4), (1, 45), (45, 1),
               (2, 25), (25, 2), (6, 6), (7, 10), (10, 7), (9, 9), (3, 30), (17, 16)]
SIZES_MORE = [(1, 3), (3, 1), (2, 2), (1, 21), (21, 1), (1, 22), (1, 41), (1, 42), (4, 4), (2, 11), (11, 2), (12, 12),
              (16, 17), (8, 5), (5, 8), (1, 80), (20, 20), (30, 3), (13, 7)]


def sizes(rng, thorough, extra_random=6):
    out = list(SIZES_QUICK) + (SIZES_MORE if thorough else rng.sample(SIZES_MORE, 5))
    for _ in range(extra_random * (4 if thorough else 1)):
        out.append((rng.randint(1, 12), rng.randint(1, 12)))
    return out


def cell_grid(rng, h, w, empty, clue, density):
    return [[(clue(rng) if rng.random() < density else empty) for _ in range(w)] for _ in range(h)]


def grid_variants(rng, h, w, empty, clue):
    """several fillings of one board: empty, full, sparse (long runs), medium, a clue only in the
    last / first cell, clues at run-length boundaries of the flattened board"""
    n = h * w
    yield cell_grid(rng, h, w, empty, clue, 0.0)
    yield cell_grid(rng, h, w, empty, clue, 1.0)
    yield cell_grid(rng, h, w, empty, clue, 0.08)
    yield cell_grid(rng, h, w, empty, clue, rng.choice([0.3, 0.5, 0.8]))
    for pos in ([n - 1, 0] + [p for p in (19, 20, 21, 22, 26, 27, 40, 41, 42) if p < n]):
        if rng.random() < 0.6 or pos in (n - 1, 20, 21):
            g = cell_grid(rng, h, w, empty, clue, 0.0)
            g[pos // w][pos % w] = clue(rng)
            if rng.random() < 0.5 and pos + 2 < n:
                q = rng.randint(pos + 1, n - 1)
                g[q // w][q % w] = clue(rng)
            yield g


def _pick(vals):
    return lambda rng: rng.choice(vals)


CLUES = {
    # module -> (empty value, clue generator)
    "nurikabe": (0, _pick([-1, -1] + BOUND + [1, 2, 3, 4, 5])),
    "sudoku": (0, _pick(BOUND + [1, 2, 3, 4, 5, 6, 7, 8, 9])),
    "nurimisaki": (-1, _pick([0, 0] + BOUND + [2, 3, 4, 5])),
    "masyu": (0, _pick([1, 2])),
    "slitherlink": (-1, _pick([0, 1, 2, 3, 4])),
}


def yajilin_clue(rng):
    if rng.random() < 0.12:
        return "??"
    return rng.choice("^v<>") + str(rng.choice([0, 0, 1, 1, 2, 3, 4, 5] + BOUND))


def grid_problems(rng, module, thorough):
    if module == "yajilin":
        empty, clue = "..", yajilin_clue
    else:
        empty, clue = CLUES[module]
    for (h, w) in sizes(rng, thorough):
        if h * w > 200 and module in ("masyu",) and not thorough:
            pass
        for g in grid_variants(rng, h, w, empty, clue):
            yield h, w, g


# ---------------------------------------------------------------- rooms

def room_partitions(rng, thorough):
    """(h, w, rooms) with rooms in canonical order"""
    for (h, w) in [(1, 1), (1, 2), (2, 1), (1, 3), (2, 2), (1, 4), (3, 1)] + ([(2, 3), (3, 2), (1, 6)] if thorough else []):
        for part in G.all_partitions(h, w):
            yield h, w, part
    for (h, w) in sizes(rng, thorough, extra_random=10):
        if h * w > 450:
            continue
        yield h, w, G.random_partition(rng, h, w)
        if rng.random() < 0.4:
            yield h, w, G.components(h, w, G.edges(h, w))       # one room
        if rng.random() < 0.4:
            yield h, w, G.components(h, w, [])                  # every cell its own room


def heyawake_clues(rng, rooms):
    mode = rng.random()
    if mode < 0.2:
        return [-1 for _ in rooms]
    if mode < 0.4:
        return [rng.choice([0, 1, 2, 3] + BOUND) for _ in rooms]
    return [(-1 if rng.random() < 0.6 else rng.choice([0, 1, 2, 3, 4, 5] + BOUND)) for _ in rooms]


def rect_partition(rng, y0, x0, y1, x1, depth=0):
    """split [y0,y1) x [x0,x1) into rectangles"""
    hh, ww = y1 - y0, x1 - x0
    if hh * ww <= 1 or depth > 5 or rng.random() < 0.25:
        return [(y0, x0, y1, x1)]
    if (hh > 1 and rng.random() < 0.5) or ww == 1:
        m = rng.randint(y0 + 1, y1 - 1)
        return rect_partition(rng, y0, x0, m, x1, depth + 1) + rect_partition(rng, m, x0, y1, x1, depth + 1)
    m = rng.randint(x0 + 1, x1 - 1)
    return rect_partition(rng, y0, x0, y1, m, depth + 1) + rect_partition(rng, y0, m, y1, x1, depth + 1)


def block_id_of(h, w, rooms):
    g = [[-1] * w for _ in range(h)]
    for i, r in enumerate(rooms):
        for (y, x) in r:
            g[y][x] = i
    return g


# ---------------------------------------------------------------- compass

def compass_value(rng):
    return rng.choice([-1, -1, -1, 0, 1, 2, 3, 4, 5, 6] + BOUND)


def compass_problems(rng, thorough):
    for (h, w) in sizes(rng, thorough):
        n = h * w
        for density in (0.0, 0.05, 0.3, 1.0):
            if density == 1.0 and n > 60:
                continue
            cells = [(y, x) for y in range(h) for x in range(w) if rng.random() < density]
            yield h, w, [(y, x, compass_value(rng), compass_value(rng), compass_value(rng), compass_value(rng)) for (y, x) in cells]
        # a single clue in the last cell / after a run of exactly 20, 21 cells
        for pos in [n - 1] + [p for p in (20, 21, 40, 41) if p < n]:
            yield h, w, [(pos // w, pos % w, compass_value(rng), compass_value(rng), compass_value(rng), compass_value(rng))]


# ---------------------------------------------------------------- aquarium

def aquarium_problems(rng, thorough):
    for (h, w, rooms) in room_partitions(rng, thorough):
        blocks = [list(r) for r in rooms]
        if len(blocks) >= 3 and rng.random() < 0.3:          # a block need not be connected
            a = blocks.pop(rng.randrange(len(blocks)))
            blocks[rng.randrange(len(blocks))] += a
        blocks = G.shuffled_rooms(rng, blocks)
        vals = [-1, -1, 0, 1, 2, 3, 4, 5, 9, 10, 15, 16, 17, 100, 255]
        mode = rng.random()
        if mode < 0.15:
            rows, cols = [-1] * h, [-1] * w
        elif mode < 0.3:
            rows, cols = [rng.choice(vals[2:]) for _ in range(h)], [rng.choice(vals[2:]) for _ in range(w)]
        else:
            rows, cols = [rng.choice(vals) for _ in range(h)], [rng.choice(vals) for _ in range(w)]
        yield h, w, blocks, rows, cols


# ---------------------------------------------------------------- malformed

def mutate_text(rng, s):
    """one small edit of a URL / body"""
    alphabet = "0123456789abcdefghijklmnopqrstuvwxyz-+./?_ G\n\xb2"
    if not s:
        return rng.choice(alphabet)
    i = rng.randrange(len(s))
    r = rng.random()
    if r < 0.35:
        return s[:i] + rng.choice(alphabet) + s[i + 1:]
    if r < 0.6:
        return s[:i] + s[i + 1:]
    if r < 0.85:
        return s[:i] + rng.choice(alphabet) + s[i:]
    return s[:i]


def url_variants(rng, url, name, h, w, body, other_names):
    pre = url[: len(url) - len("%s/%d/%d/%s" % (name, w, h, body))]
    out = [url,
           url.replace("https://", "http://", 1),
           url.replace("/p?", "/p.html?", 1),
           "http://pzv.jp/p.html?%s/%d/%d/%s" % (name, w, h, body),
           "%s%s/%d/%d/%s" % (pre, name, h, w, body),                  # sizes swapped
           "%s%s/%d/%d/%s" % (pre, name, w + 1, h, body),
           "%s%s/%d/%d/%s" % (pre, name, w, h + 1, body),
           "%s%s/%d/%d/%s" % (pre, name, w, h, body[:-1]),
           "%s%s/%d/%d/%s" % (pre, name, w, h, body + rng.choice("0g.z-/")),
           "%s%s/%d/%d/%s\nxyz" % (pre, name, w, h, body),
           "%s%s/0%d/%d/%s" % (pre, name, w, h, body),
           "%s%s/%d/%d" % (pre, name, w, h),
           "%s%s/%d/%d/" % (pre, name, w, h),
           "%s%s/%d/x/%s" % (pre, name, w, body),
           "%s/%d/%d/%s" % (pre, w, h, body),
           "see " + url,
           body,
           ""]
    for nm in other_names:
        out.append("%s%s/%d/%d/%s" % (pre, nm, w, h, body))
    for _ in range(3):
        out.append("%s%s/%d/%d/%s" % (pre, name, w, h, mutate_text(rng, body)))
    out.append(mutate_text(rng, url))
    return out


# ================================================================ hardening round (input classes 2, 5)

# lengths of runs of empty cells around every multiple of the one-character limits:
# 20 (marker g), 26 (marker a), 36 (marker 0/1), 2*20, 2*26, 3*20, 2*36, 3*26, 5*20
RUNS = [19, 20, 21, 22, 25, 26, 27, 35, 36, 37, 40, 41, 42, 52, 53, 60, 61, 72, 73, 74, 78, 79, 100, 101]
RUNS_CORE = [20, 21, 36, 37, 40, 41, 72, 73]
# boards with one side >= 36 (two-digit base-36 / width-vs-height confusions) and one side > 256
BIG_SIDES = [(1, 36), (36, 1), (2, 37), (37, 2), (3, 40), (38, 3), (1, 73), (73, 1), (1, 300), (300, 1)]
BIG_SIDES_MORE = [(36, 36), (4, 72), (72, 4), (1, 257), (257, 2), (5, 61)]
# values the text format cannot carry
OOB_HIGH = [4096, 4097, 65535, 65536, 10 ** 6, 2 ** 31]


def run_list(rng, thorough, extra=6):
    return list(RUNS) if thorough else RUNS_CORE + rng.sample([k for k in RUNS if k not in RUNS_CORE], extra)


def layout(cells, w, empty, tail=None):
    """row-major layout of `cells` on a board w wide, padded with empties (and `tail` in the last cell)"""
    n = len(cells)
    h = max(1, -(-n // w))
    flat = list(cells) + [empty] * (h * w - n)
    if tail is not None and h * w > n:
        flat[-1] = tail
    return h, w, [flat[i * w:(i + 1) * w] for i in range(h)]


def run_grids(rng, empty, clue, thorough):
    """clue, k empties, clue -- and k empties first / last -- on 1xN, Nx1 and on boards 7 / 36 / 37 wide"""
    for k in run_list(rng, thorough):
        mid = [clue(rng)] + [empty] * k + [clue(rng)]
        yield layout(mid, k + 2, empty)                                   # 1 x (k+2)
        yield layout(mid, rng.choice([7, 36, 37]), empty, rng.choice([None, clue(rng)]))
        ends = [empty] * k + [clue(rng)] + [empty] * rng.choice([k, 20, 21, 1])
        yield layout(ends, rng.choice([len(ends), 36, 37, 5]), empty)
        if rng.random() < 0.4:
            yield layout(mid, 1, empty)                                   # (k+2) x 1
        if rng.random() < 0.4:
            yield layout([empty] * k, k, empty)                           # all empty, exactly k cells
        if rng.random() < 0.4:
            two = [clue(rng)] + [empty] * k + [clue(rng)] + [empty] * rng.choice(RUNS_CORE) + [clue(rng)]
            yield layout(two, rng.choice([len(two), 36, 37]), empty)


def big_side_grids(rng, empty, clue, thorough):
    for (h, w) in BIG_SIDES + (BIG_SIDES_MORE if thorough else []):
        yield h, w, cell_grid(rng, h, w, empty, clue, 0.04)
        yield h, w, cell_grid(rng, h, w, empty, clue, rng.choice([0.3, 0.6]))
        if h * w <= 120 or thorough:
            yield h, w, cell_grid(rng, h, w, empty, clue, 1.0)
        g = cell_grid(rng, h, w, empty, clue, 0.0)
        g[-1][-1] = clue(rng)
        yield h, w, g


OOB_CELLS = {
    "nurikabe": OOB_HIGH + [-2, -7],
    "sudoku": OOB_HIGH + [-1, -2],
    "nurimisaki": OOB_HIGH + [-2, -9],
    "masyu": [3, 4, 36, 4096, -1],
    "slitherlink": [5, 6, 36, 4096, -2],
    "yajilin": ["^4096", ">4097", "v65536", "<1000000", "^-1", ">-7"],
}


def oob_grids(rng, module, empty, clue):
    """boards of the module's shape with ONE cell holding a value the text format cannot carry"""
    for v in OOB_CELLS[module]:
        for (h, w) in [(1, 1), (2, 3), rng.choice([(3, 3), (1, 22), (5, 4)])]:
            g = cell_grid(rng, h, w, empty, clue, rng.choice([0.0, 0.5]))
            g[rng.randrange(h)][rng.randrange(w)] = v
            yield h, w, g


def in_format(module, g):
    """is every cell a value of the module's problem format that the URL format can carry?"""
    for row in g:
        for v in row:
            if module == "yajilin":
                if v in ("..", "??"):
                    continue
                if not (isinstance(v, str) and len(v) >= 2 and v[0] in "^v<>" and v[1:].isdigit() and int(v[1:]) <= 4095):
                    return False
                continue
            if not isinstance(v, int) or isinstance(v, bool):
                return False
            lo, hi = {"nurikabe": (-1, 4095), "sudoku": (0, 4095), "nurimisaki": (-1, 4095), "masyu": (0, 2), "slitherlink": (-1, 4)}[module]
            if not lo <= v <= hi:
                return False
    return True


def grid_problems_hard(rng, module, thorough):
    if module == "yajilin":
        empty, clue = "..", yajilin_clue
    else:
        empty, clue = CLUES[module]
    for t in run_grids(rng, empty, clue, thorough):
        yield t
    for t in big_side_grids(rng, empty, clue, thorough):
        yield t
    for t in oob_grids(rng, module, empty, clue):
        yield t


def big_side_partitions(rng, thorough):
    for (h, w) in BIG_SIDES + (BIG_SIDES_MORE if thorough else []):
        yield h, w, G.random_partition(rng, h, w)
    for (h, w) in [(1, 37), (36, 2)]:
        yield h, w, G.components(h, w, [])                      # every cell its own room
        yield h, w, G.components(h, w, G.edges(h, w))           # one room


def dominoes(n):
    return 2, n, [[(0, x), (1, x)] for x in range(n)]


def heyawake_run_cases(rng, thorough):
    """(h, w, rooms, clues): many rooms, clue list with runs of -1 of the critical lengths"""
    val = lambda: rng.choice([0, 1, 2] + BOUND)  # noqa
    for k in run_list(rng, thorough, extra=4):
        h, w, rooms = dominoes(k + 2)
        yield h, w, rooms, [val()] + [-1] * k + [val()]
        kk = rng.choice(RUNS_CORE)
        h, w, rooms = dominoes(k + 1 + kk)
        yield h, w, rooms, [-1] * k + [val()] + [-1] * kk
        if rng.random() < 0.5:
            n = k + 2
            yield 1, n, [[(0, x)] for x in range(n)], [val()] + [-1] * k + [val()]
        if rng.random() < 0.3:
            h, w, rooms = dominoes(k)
            yield h, w, rooms, [-1] * k


def heyawake_oob_cases(rng):
    for v in OOB_HIGH + [-2, -5]:
        h, w = rng.choice([(1, 1), (2, 3), (3, 4)])
        rooms = G.random_partition(rng, h, w)
        clues = [rng.choice([-1, 0, 1, 2]) for _ in rooms]
        clues[rng.randrange(len(clues))] = v
        yield h, w, rooms, clues


def compass_run_problems(rng, thorough):
    cv = compass_value
    clue = lambda p, w: (p // w, p % w, cv(rng), cv(rng), cv(rng), cv(rng))  # noqa
    for k in run_list(rng, thorough):
        for w in (k + 2, rng.choice([36, 37, 7])):
            h = -(-(k + 2) // w)
            yield h, w, [clue(0, w), clue(k + 1, w)]              # run of k between two clues (+ trailing run)
        kk = rng.choice(RUNS_CORE)
        n = k + 1 + kk
        w = rng.choice([n, 36, 37])
        h = -(-n // w)
        yield h, w, [clue(k, w)]                                  # leading run k, trailing run >= kk
        if rng.random() < 0.3:
            yield 1, k, []                                        # no clue at all on exactly k cells
    for (h, w) in BIG_SIDES + (BIG_SIDES_MORE if thorough else []):
        n = h * w
        cells = sorted(rng.sample(range(n), min(n, rng.choice([1, 2, 5]))))
        yield h, w, [clue(p, w) for p in cells] + ([] if n - 1 in cells else [clue(n - 1, w)])


def compass_oob_problems(rng):
    for v in OOB_HIGH:
        h, w = rng.choice([(1, 1), (2, 3), (3, 3)])
        c = [rng.randrange(h), rng.randrange(w), compass_value(rng), compass_value(rng), compass_value(rng), compass_value(rng)]
        c[rng.randint(2, 5)] = v
        yield h, w, [tuple(c)]


def aquarium_run_problems(rng, thorough):
    """clue list cols + rows with a run of k blanks: boards 2 x k and k x 2"""
    vals = [0, 1, 2, 5, 9, 15, 16, 17, 100, 255, 256, 4095]
    for k in run_list(rng, thorough, extra=4):
        if k < 3:
            continue
        blocks = G.shuffled_rooms(rng, G.random_partition(rng, 2, k))
        yield 2, k, blocks, [-1, rng.choice(vals)], [rng.choice(vals)] + [-1] * (k - 1)
        blocks = G.shuffled_rooms(rng, G.random_partition(rng, k, 2))
        yield k, 2, blocks, [-1] * (k - 1) + [rng.choice(vals)], [rng.choice(vals), -1]
        if rng.random() < 0.4:
            yield 2, k - 2, G.random_partition(rng, 2, k - 2), [-1, -1], [-1] * (k - 2)   # all blank: exactly k
    for (h, w) in [(1, 36), (36, 1), (37, 2), (1, 300)]:
        yield h, w, G.random_partition(rng, h, w), [rng.choice([-1, -1, 3] + vals) for _ in range(h)], [rng.choice([-1, -1, 2] + vals) for _ in range(w)]


def aquarium_oob_problems(rng):
    for v in OOB_HIGH:
        h, w = rng.choice([(1, 1), (2, 3), (3, 3)])
        rows, cols = [rng.choice([-1, 1, 2]) for _ in range(h)], [rng.choice([-1, 0, 3]) for _ in range(w)]
        (rows if rng.random() < 0.5 else cols)[0] = v
        yield h, w, G.random_partition(rng, h, w), rows, cols


def legacy_arrays(rng, thorough):
    """(rows or flat list, empty value, marker) for util.encode_array against the combinators"""
    vals = [0, 1, 9, 10, 15, 16, 17, 255, 256, 1000, 4095]
    for k in run_list(rng, thorough):
        for empty in (-1, rng.choice([None, 0, 5000, "."])):
            marker = rng.choice(["g", "g", "h", "k", "z", "a", "1", "0"])
            pool = [v for v in vals if v != empty]
            cells = [rng.choice(pool)] + [empty] * k + [rng.choice(pool)] + [empty] * rng.choice([0, 1, k])
            yield [cells], empty, marker
            w = rng.choice([2, 5, 7, 36, 37])
            _, _, rows = layout(cells, w, empty)
            yield rows, empty, marker
    for _ in range(120 if thorough else 40):
        h, w = rng.randint(1, 9), rng.randint(1, 12)
        empty = rng.choice([-1, -1, None, 0, 5000])
        pool = [v for v in vals if v != empty]
        dens = rng.choice([0.0, 0.1, 0.5, 1.0])
        yield [[(rng.choice(pool) if rng.random() < dens else empty) for _ in range(w)] for _ in range(h)], empty, rng.choice(["g", "g", "j", "z", "a"])
