From Coq Require Import ZArith List.
From Cspuz Require Import Lib.PyErr Core.Expr Core.Program Backend.Z3Call Gen.Z3Table Backend.Z3 Backend.Z3Oracle
  Backend.Z3Proofs Backend.Z3ConstsProofs Backend.Z3SolveProofs Backend.Z3OracleProofs
  Backend.Z3Check Gen.Z3SolveTable Backend.Z3Verdict Backend.Z3VerdictProofs.

(* every well-typed tree (bool- or int-valued, any nesting, n-ary forms, Python literals as
   operands, *_CONSTANT nodes, constant-only alldifferent) converts without an exception and
   without falling through to None, and the z3 meaning of the result equals the ordinary
   meaning of the tree under every assignment *)
Theorem conv_correct : forall vs e b, wt b e = true -> refs_ok vs e = true ->
  exists r, conv vs e = Ok r /\
    match r with PyB _ => b = true | PyI _ => b = false | PyN => False | ZT _ => True end /\
    forall en, zres_eval en r = eval no_graph en e.
Proof. exact conv_sem. Qed.
Print Assumptions conv_correct.

(* the constants of a converted tree are declared variables of the right sort, so every
   query Z3Backend.solve makes carries both bounds for each integer constant it mentions *)
Theorem queries_are_bounded : forall vs cs rs ts, wf_cons vs cs ->
  mapM (conv vs) cs = Ok rs -> mapM top_cast rs = Ok ts -> boundedb (bound_terms vs ++ ts) = true.
Proof. exact queries_are_bounded_lemma. Qed.
Print Assumptions queries_are_bounded.

(* find_answer: verdict <-> satisfiable; the sol values are in bounds, of the variables'
   types and satisfy every constraint -- for ANY solver meeting the two hypotheses *)
Theorem find_answer_correct : forall oracle, oracle_sound_on oracle -> oracle_complete_on oracle ->
  forall st, wf_state st ->
  exists r, find_answer oracle st = Ok r /\
    (r <> None <-> satisfiable no_graph st) /\
    (forall s, r = Some s -> model_of no_graph (env_of_sol s) st /\ sol_typed (vars st) s).
Proof. exact Z3SolveProofs.find_answer_correct. Qed.
Print Assumptions find_answer_correct.

(* the same after every prefix of an incremental session *)
Theorem session_correct : forall oracle, oracle_sound_on oracle -> oracle_complete_on oracle ->
  forall ops s, wf_state (s_st s) -> wf_ops (s_st s) ops ->
  Forall (fun so => outcome_ok (fst so) (snd so)) (trace oracle s ops).
Proof. exact Z3SolveProofs.session_correct. Qed.
Print Assumptions session_correct.

(* the hypotheses are satisfiable: the executable brute-force oracle meets both *)
Theorem oracle_hypotheses_satisfiable : oracle_sound_on bf_oracle /\ oracle_complete_on bf_oracle.
Proof. exact (conj bf_oracle_sound bf_oracle_complete). Qed.
Print Assumptions oracle_hypotheses_satisfiable.

(* z3 may answer "unknown" (time / resource limit set on the solver or globally): whatever it
   does then, a find_answer that returns has the right verdict and leaves a genuine model --
   with the verdict test of Z3Backend.solve as read from the source on this run
   (Gen/Z3SolveTable.v).  Nothing is assumed about the unknown answers. *)
Theorem find_answer_never_wrong : forall o3, verdict_sound_on o3 ->
  forall st, wf_state st -> forall r, find_answer3 o3 st = Ok r ->
    (r <> None <-> satisfiable no_graph st) /\
    (forall s, r = Some s -> model_of no_graph (env_of_sol s) st /\ sol_typed (vars st) s).
Proof. exact find_answer3_never_wrong. Qed.
Print Assumptions find_answer_never_wrong.

(* and it does return when the solver answers every bounded query *)
Theorem find_answer_decides : forall o3, verdict_sound_on o3 -> answers_bounded o3 ->
  forall st, wf_state st ->
  exists r, find_answer3 o3 st = Ok r /\
    (r <> None <-> satisfiable no_graph st) /\
    (forall s, r = Some s -> model_of no_graph (env_of_sol s) st /\ sol_typed (vars st) s).
Proof. exact find_answer3_decides. Qed.
Print Assumptions find_answer_decides.

(* these hypotheses are satisfiable too *)
Theorem verdict_hypotheses_satisfiable :
  verdict_sound_on (lift_oracle bf_oracle) /\ answers_bounded (lift_oracle bf_oracle) /\ verdict_sound_on gives_up.
Proof. exact (conj lift_bf_sound (conj lift_bf_answers gives_up_sound)). Qed.
Print Assumptions verdict_hypotheses_satisfiable.
