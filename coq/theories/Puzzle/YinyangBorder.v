(* C11 Tier 1 - yinyang, the planarity part (2): on an h x w grid (h, w >= 2) coloured black / white such that the
   black cells are orthogonally connected and the white cells are orthogonally connected, four border cells met in
   this order by the border walk (left column downwards, bottom row rightwards, right column upwards, top row
   leftwards) are not coloured alternately (yy_border_alternation).
   Uses the crossing parity G of YinyangPlanar.v for a black orthogonal path between two black border cells s, t:
   on a white border cell p it has the closed form
       G(p) = [pos s < pos p] + [pos t < pos p] + k(s) + k(t)          (pos = index in the border walk)
   so two white border cells joined by a white path lie on the same side of {s, t}. *)
From Coq Require Import ZArith List Bool Arith Lia.
From Cspuz Require Import Graph.GraphModel Graph.ReachProofs Graph.Avc Graph.AvcProofs
  Graph.NotAdj Graph.NotAdjForest Graph.NotAdjDiag Graph.NotAdjPlanarGrid Graph.NotAdjPlanarB
  Puzzle.YinyangPlanar.
Import ListNotations.
Local Open Scope nat_scope.

Ltac bsolve2 := repeat (match goal with
  | |- context [Nat.eqb ?a ?b] => destruct (Nat.eqb_spec a b)
  | |- context [Nat.ltb ?a ?b] => destruct (Nat.ltb_spec a b)
  | |- context [Nat.leb ?a ?b] => destruct (Nat.leb_spec a b)
  end; try lia; cbn [xorb andb orb negb]; try reflexivity); try lia.

(* the parity E of a walk with ends e1, e2 at a border cell (y, x) off the walk is ebd e1 + ebd e2 *)
Definition ebd (h w ye xe y x : nat) : bool :=
  if x =? 0 then false else if S y =? h then false else if S x =? w then (ye <=? y) else (ye =? 0) && (xe <? x).

(* index of the border cell (y, x) in the border walk *)
Definition bpos (h w y x : nat) : nat :=
  if x =? 0 then y else if S y =? h then (h - 1) + x
  else if S x =? w then (h - 1) + (w - 1) + (h - 1 - y) else 2 * (h - 1) + (w - 1) + (w - 1 - x).

Definition is_border (h w y x : nat) : Prop := y = 0 \/ x = 0 \/ S y = h \/ S x = w.

Lemma gbd_pos h w ye xe y x :
  2 <= h -> 2 <= w -> ye < h -> xe < w -> y < h -> x < w ->
  is_border h w ye xe -> is_border h w y x -> ~ (ye = y /\ xe = x) ->
  xorb (ebd h w ye xe y x) (ce' h w ye xe y x) =
  xorb (xorb (bpos h w ye xe <? bpos h w y x) (negb (x =? 0) && negb (S y =? h))) (xe =? 0).
Proof.
  intros Hh Hw Hye Hxe Hy Hx Be Bp Ne. unfold is_border in *. unfold ebd, ce', bpos. bsolve2.
Qed.

Section Border.
  Variables h w : nat.
  Variable blk : nat -> bool.
  Let n := h * w.
  Let G := grid_graph h w.
  Notation c := (cell w).
  Notation cy := (cell_y w).
  Notation cx := (cell_x w).
  Hypothesis Hh : 2 <= h.
  Hypothesis Hw : 2 <= w.

  Section Walk.
    Variable l : list nat.
    Hypothesis Hl : steps_ok (Qk h w blk) l.
    Hypothesis Hne : l <> [].
    Let s := hd 0 l.
    Let t := last l 0.

    Lemma yC_eq y x : yC h w l y x = xorb (ce h w s y x) (ce h w t y x).
    Proof.
      unfold yC. fold s t. destruct (Nat.eqb_spec s t) as [E|E]; [|reflexivity].
      rewrite E. destruct (ce h w t y x); reflexivity.
    Qed.

    Lemma yE_border y x : y < h -> x < w -> is_border h w y x -> blk (c y x) = false ->
      yE w l y x = xorb (ebd h w (cy s) (cx s) y x) (ebd h w (cy t) (cx t) y x).
    Proof.
      intros Hy Hx Bp Wp. unfold yE, ebd.
      destruct (Nat.eqb_spec x 0) as [Ex|Ex].
      { subst x. apply (cnt_false (Qk h w blk)); [exact Hl|]. intros a b _. unfold Pe. apply pe_left. }
      destruct (Nat.eqb_spec (S y) h) as [Ey|Ey].
      { apply (cnt_false (Qk h w blk)); [exact Hl|]. intros a b [Ha [Hb _]]. unfold Pe.
        destruct (cell_coords h w a Ha) as [Hya _]. destruct (cell_coords h w b Hb) as [Hyb _].
        apply (pe_bottom h); assumption. }
      destruct (Nat.eqb_spec (S x) w) as [Exw|Exw].
      { unfold s, t. rewrite <- (cnt_cross (fun a => cy a <=? y) l Hne).
        apply (cnt_ext (Qk h w blk)); [exact Hl|]. intros a b [Ha [Hb [K [Aa Ab]]]]. unfold Pe.
        destruct (cell_coords h w a Ha) as [_ [Hxa _]]. destruct (cell_coords h w b Hb) as [_ [Hxb _]].
        apply (pe_right w); try assumption.
        - apply (off_cell h w blk a y x Ha Aa Wp).
        - apply (off_cell h w blk b y x Hb Ab Wp). }
      assert (Ey0 : y = 0) by (unfold is_border in Bp; lia). subst y.
      unfold s, t. rewrite <- (cnt_cross (fun a => (cy a =? 0) && (cx a <? x)) l Hne).
      apply (cnt_ext (Qk h w blk)); [exact Hl|]. intros a b [Ha [Hb [K [Aa Ab]]]]. unfold Pe.
      apply pe_top; [exact K| |].
      - apply (off_cell h w blk a 0 x Ha Aa Wp).
      - apply (off_cell h w blk b 0 x Hb Ab Wp).
    Qed.

    Hypothesis Hs : s < n.
    Hypothesis Ht : t < n.
    Hypothesis Bs : is_border h w (cy s) (cx s).
    Hypothesis Bt : is_border h w (cy t) (cx t).
    Hypothesis As : blk s = true.
    Hypothesis At : blk t = true.

    (* G at a white border cell *)
    Lemma yG_border y x : y < h -> x < w -> is_border h w y x -> blk (c y x) = false ->
      yG h w l y x =
      xorb (xorb (bpos h w (cy s) (cx s) <? bpos h w y x) (bpos h w (cy t) (cx t) <? bpos h w y x))
           (xorb (cx s =? 0) (cx t =? 0)).
    Proof.
      intros Hy Hx Bp Wp. unfold yG. rewrite (yE_border y x Hy Hx Bp Wp), yC_eq. unfold ce.
      destruct (cell_coords h w s Hs) as [Hys [Hxs _]]. destruct (cell_coords h w t Ht) as [Hyt [Hxt _]].
      pose proof (gbd_pos h w (cy s) (cx s) y x Hh Hw Hys Hxs Hy Hx Bs Bp (off_cell h w blk s y x Hs As Wp)) as E1.
      pose proof (gbd_pos h w (cy t) (cx t) y x Hh Hw Hyt Hxt Hy Hx Bt Bp (off_cell h w blk t y x Ht At Wp)) as E2.
      destruct (ebd h w (cy s) (cx s) y x), (ebd h w (cy t) (cx t) y x),
        (ce' h w (cy s) (cx s) y x), (ce' h w (cy t) (cx t) y x),
        (bpos h w (cy s) (cx s) <? bpos h w y x), (bpos h w (cy t) (cx t) <? bpos h w y x),
        (negb (x =? 0) && negb (S y =? h)), (cx s =? 0), (cx t =? 0); simpl in *; congruence.
    Qed.
  End Walk.

  Hypothesis HcB : connected G blk.
  Hypothesis HcW : connected G (inactive blk).

  (* two white border cells lie on the same side of two black border cells *)
  Theorem yy_border_sides ys xs yt xt yp xp yq xq :
    ys < h -> xs < w -> yt < h -> xt < w -> yp < h -> xp < w -> yq < h -> xq < w ->
    is_border h w ys xs -> is_border h w yt xt -> is_border h w yp xp -> is_border h w yq xq ->
    blk (c ys xs) = true -> blk (c yt xt) = true -> blk (c yp xp) = false -> blk (c yq xq) = false ->
    xorb (bpos h w ys xs <? bpos h w yp xp) (bpos h w yt xt <? bpos h w yp xp) =
    xorb (bpos h w ys xs <? bpos h w yq xq) (bpos h w yt xt <? bpos h w yq xq).
  Proof.
    intros Hys Hxs Hyt Hxt Hyp Hxp Hyq Hxq Bs Bt Bp Bq As At Wp Wq.
    assert (Hsn : c ys xs < n) by (apply cell_lt; assumption).
    assert (Htn : c yt xt < n) by (apply cell_lt; assumption).
    assert (Hr : reach G blk all_edges_ok (c yt xt) (c ys xs)) by (apply HcB; assumption).
    destruct (reach_list h w blk _ _ Hr Htn) as [l [Hne [Hhd [Hlast [_ Hst]]]]].
    assert (Hl : steps_ok (Qk h w blk) l) by (apply (steps_ok_impl _ _ _ (Qo_Qk h w blk) Hst)).
    assert (Hends : hd 0 l = last l 0 \/
                    (hd 0 l < n /\ last l 0 < n /\ blk (hd 0 l) = true /\ blk (last l 0) = true /\
                     on_border h w (hd 0 l) = true /\ on_border h w (last l 0) = true)).
    { right. rewrite Hhd, Hlast. repeat split; try assumption.
      - apply (on_border_cell h w ys xs Hys Hxs). exact Bs.
      - apply (on_border_cell h w yt xt Hyt Hxt). exact Bt. }
    pose proof (y_white_same h w blk l Hl Hne Hends HcW (c yp xp) (c yq xq)
                  ltac:(apply cell_lt; assumption) ltac:(apply cell_lt; assumption) Wp Wq) as HS.
    rewrite (yGi_cell h w l yp xp Hxp), (yGi_cell h w l yq xq Hxq) in HS.
    assert (Bs' : is_border h w (cy (hd 0 l)) (cx (hd 0 l)))
      by (rewrite Hhd, (cy_cell w ys xs Hxs), (cx_cell w ys xs Hxs); exact Bs).
    assert (Bt' : is_border h w (cy (last l 0)) (cx (last l 0)))
      by (rewrite Hlast, (cy_cell w yt xt Hxt), (cx_cell w yt xt Hxt); exact Bt).
    rewrite (yG_border l Hl Hne ltac:(rewrite Hhd; exact Hsn) ltac:(rewrite Hlast; exact Htn) Bs' Bt'
               ltac:(rewrite Hhd; exact As) ltac:(rewrite Hlast; exact At) yp xp Hyp Hxp Bp Wp) in HS.
    rewrite (yG_border l Hl Hne ltac:(rewrite Hhd; exact Hsn) ltac:(rewrite Hlast; exact Htn) Bs' Bt'
               ltac:(rewrite Hhd; exact As) ltac:(rewrite Hlast; exact At) yq xq Hyq Hxq Bq Wq) in HS.
    rewrite Hhd, Hlast, !(cy_cell w ys xs Hxs), !(cx_cell w ys xs Hxs), !(cy_cell w yt xt Hxt), !(cx_cell w yt xt Hxt) in HS.
    destruct (bpos h w ys xs <? bpos h w yp xp), (bpos h w yt xt <? bpos h w yp xp),
      (bpos h w ys xs <? bpos h w yq xq), (bpos h w yt xt <? bpos h w yq xq), (xs =? 0), (xt =? 0);
      simpl in *; congruence.
  Qed.
End Border.

(* colour-symmetric form: four border cells met in this order by the border walk are not coloured alternately *)
Theorem yy_border_alternation h w blk ya xa yb xb yc xc yd xd :
  2 <= h -> 2 <= w ->
  connected (grid_graph h w) blk -> connected (grid_graph h w) (inactive blk) ->
  ya < h -> xa < w -> yb < h -> xb < w -> yc < h -> xc < w -> yd < h -> xd < w ->
  is_border h w ya xa -> is_border h w yb xb -> is_border h w yc xc -> is_border h w yd xd ->
  bpos h w ya xa < bpos h w yb xb -> bpos h w yb xb < bpos h w yc xc -> bpos h w yc xc < bpos h w yd xd ->
  blk (cell w ya xa) <> blk (cell w yb xb) -> blk (cell w yb xb) <> blk (cell w yc xc) ->
  blk (cell w yc xc) <> blk (cell w yd xd) -> False.
Proof.
  intros Hh Hw HcB HcW Hya Hxa Hyb Hxb Hyc Hxc Hyd Hxd Ba Bb Bc Bd L1 L2 L3 N1 N2 N3.
  destruct (blk (cell w ya xa)) eqn:Ea; destruct (blk (cell w yb xb)) eqn:Eb; try congruence;
    destruct (blk (cell w yc xc)) eqn:Ec; try congruence; destruct (blk (cell w yd xd)) eqn:Ed; try congruence.
  - (* black, white, black, white *)
    pose proof (yy_border_sides h w blk Hh Hw HcB HcW ya xa yc xc yb xb yd xd
                  Hya Hxa Hyc Hxc Hyb Hxb Hyd Hxd Ba Bc Bb Bd Ea Ec Eb Ed) as H.
    revert H. bsolve2.
  - (* white, black, white, black *)
    pose proof (yy_border_sides h w blk Hh Hw HcB HcW yb xb yd xd yc xc ya xa
                  Hyb Hxb Hyd Hxd Hyc Hxc Hya Hxa Bb Bd Bc Ba Eb Ed Ec Ea) as H.
    revert H. bsolve2.
Qed.
