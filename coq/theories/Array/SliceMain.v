(* C13 — main theorem: model of Array2D indexing = nested-list specification *)
From Coq Require Import ZArith List Bool Lia ZifyBool.
From Cspuz Require Import Lib.PyErr Array.Slice Array.SliceProofs.
Import ListNotations.
Open Scope Z_scope.

Section Main.
  Context {A : Type}.
  Variables (h w : Z) (rows : list (list A)).
  Hypothesis Hrect : rect h w rows.

  Let data := concat rows.

  Lemma h_nonneg : 0 <= h.
  Proof. destruct Hrect as (Hh & _ & _). unfold py_len in Hh. lia. Qed.
  Lemma w_nonneg : 0 <= w.
  Proof. destruct Hrect as (_ & Hw & _). exact Hw. Qed.

  (* what parse_range + range_size compute, against [select] *)
  Inductive axis_view (len : Z) (k : key) : Prop :=
    | AV_err e : parse_range len k = Err e -> select len k = Err e -> axis_view len k
    | AV_single p : 0 <= p < len -> parse_range len k = Ok (true, p, p + 1, 1) ->
                    select len k = Ok (Single p) -> axis_view len k
    | AV_many s e st : st <> 0 -> parse_range len k = Ok (false, s, e, st) ->
                       select len k = Ok (Many (py_range s e st)) ->
                       (forall j, 0 <= j < rlen s e st -> 0 <= s + st * j < len) ->
                       axis_view len k.

  Ltac solve_ax :=
    cbn [parse_range select];
    repeat match goal with
           | |- context [?a <? ?b] => destruct (Z.ltb_spec a b); try lia
           | |- context [?a <=? ?b] => destruct (Z.leb_spec a b); try lia
           end;
    cbn [andb orb]; try reflexivity; try (f_equal; f_equal; lia).

  Lemma axis_view_total len k : 0 <= len -> axis_view len k.
  Proof.
    intros Hlen. destruct k as [i|a b c].
    - destruct (Z.ltb_spec i 0) as [Hi|Hi].
      + destruct (Z.ltb_spec i (- len)) as [H1|H1].
        * apply (AV_err _ _ IndexError); solve_ax.
        * apply (AV_single _ _ (i + len)); [lia| |]; solve_ax.
      + destruct (Z.leb_spec len i) as [H2|H2].
        * apply (AV_err _ _ IndexError); solve_ax.
        * apply (AV_single _ _ i); [lia| |]; solve_ax.
    - cbn [parse_range select].
      destruct (slice_indices len a b c) as [[[s e] st]|er] eqn:E.
      + apply (AV_many _ _ s e st); [eapply slice_indices_step; exact E| | |].
        * cbn [parse_range]. rewrite E. reflexivity.
        * cbn [select]. rewrite E. reflexivity.
        * intros j Hj. eapply slice_indices_in_range; eauto.
      + apply (AV_err _ _ er).
        * cbn [parse_range]. rewrite E. reflexivity.
        * cbn [select]. rewrite E. reflexivity.
  Qed.

  (* the gather loop against the nested comprehension *)
  Lemma gather_eq (ys yst : Z) (ny : nat) (xs xst : Z) (nx : nat) (xsz : Z) :
    xsz = Z.of_nat nx ->
    (forall j, 0 <= j < Z.of_nat ny -> 0 <= ys + yst * j < h) ->
    (forall j, 0 <= j < Z.of_nat nx -> 0 <= xs + xst * j < w) ->
    mapM (fun i => py_index data ((ys + yst * (i / xsz)) * w + (xs + xst * (i mod xsz))))
         (zseq 0 (ny * nx)) =
    rmap (@concat A)
         (mapM (fun y => mapM (cell rows y) (map (fun k => xs + xst * k) (zseq 0 nx)))
               (map (fun k => ys + yst * k) (zseq 0 ny))).
  Proof.
    intros -> Hy Hx.
    pose (g := fun y' x' => py_index data ((ys + yst * y') * w + (xs + xst * x'))).
    transitivity (mapM (fun i => g (i / Z.of_nat nx) (i mod Z.of_nat nx)) (zseq (0 * Z.of_nat nx) (ny * nx))).
    { reflexivity. }
    rewrite (mapM_product g nx ny 0) by lia.
    f_equal. rewrite mapM_map. apply mapM_ext. intros y' Hy'. apply zseq_In in Hy'.
    rewrite mapM_map. apply mapM_ext. intros x' Hx'. apply zseq_In in Hx'.
    unfold g, data. apply (flat_cell h w rows); [exact Hrect|apply Hy; lia|apply Hx; lia].
  Qed.

  Lemma rmap_concat_singletons {B C} (f : B -> res C) (l : list B) :
    rmap (@concat C) (mapM (fun y => bind (f y) (fun a => Ok [a])) l) = mapM f l.
  Proof.
    induction l as [|x xs IH]; [reflexivity|]. cbn [mapM].
    destruct (f x) as [a|e]; cbn [bind]; [|reflexivity].
    rewrite <- IH. destruct (mapM _ xs); reflexivity.
  Qed.

  Lemma range_size_single p : range_size p (p + 1) 1 = Ok 1.
  Proof.
    unfold range_size. cbn. destruct (Z.leb_spec (p + 1) p); [lia|].
    f_equal. replace (p + 1 - p + 1 - 1) with 1 by lia. reflexivity.
  Qed.

  Lemma rlen_to_nat s e st : st <> 0 -> Z.of_nat (Z.to_nat (rlen s e st)) = rlen s e st.
  Proof. intros H. pose proof (rlen_nonneg s e st H). lia. Qed.

  Theorem getitem_pair_eq_spec ky kx :
    getitem_pair h w data ky kx = spec_pair h w rows ky kx.
  Proof.
    unfold getitem_pair, spec_pair.
    destruct (axis_view_total h ky h_nonneg) as [ey Hpy Hsy | p Hp Hpy Hsy | s e st Hst Hpy Hsy Hin];
      rewrite Hpy, Hsy; cbn [bind]; [reflexivity| |].
    - (* y fixed *)
      destruct (axis_view_total w kx w_nonneg) as [ex Hpx Hsx | q Hq Hpx Hsx | s e st Hst Hpx Hsx Hin];
        rewrite Hpx, Hsx; cbn [bind]; [reflexivity| |].
      + rewrite !range_size_single. cbn [bind andb].
        unfold data. rewrite (flat_cell h w rows p q Hrect Hp Hq). reflexivity.
      + rewrite range_size_single, (range_size_rlen s e st Hst). cbn [bind andb orb negb].
        rewrite py_range_spec by exact Hst.
        set (nx := Z.to_nat (rlen s e st)).
        replace (Z.to_nat (1 * rlen s e st)) with (1 * nx)%nat by (subst nx; lia).
        rewrite (gather_eq p 1 1 s st nx (rlen s e st)).
        * cbn [zseq map mapM]. replace (p + 1 * 0) with p by lia.
          destruct (mapM (cell rows p) _) as [l|er]; cbn [bind rmap concat]; [|reflexivity].
          rewrite app_nil_r. reflexivity.
        * subst nx. symmetry. apply rlen_to_nat; assumption.
        * intros j Hj. lia.
        * intros j Hj. apply Hin. rewrite <- (rlen_to_nat s e st Hst). fold nx. lia.
    - (* y slice *)
      destruct (axis_view_total w kx w_nonneg) as [ex Hpx Hsx | q Hq Hpx Hsx | s' e' st' Hst' Hpx Hsx Hin'];
        rewrite Hpx, Hsx; cbn [bind]; [reflexivity| |].
      + rewrite (range_size_rlen s e st Hst), range_size_single. cbn [bind andb orb negb].
        rewrite py_range_spec by exact Hst.
        set (ny := Z.to_nat (rlen s e st)).
        replace (Z.to_nat (rlen s e st * 1)) with (ny * 1)%nat by (subst ny; lia).
        rewrite (gather_eq s st ny q 1 1%nat 1).
        * cbn [zseq map]. replace (q + 1 * 0) with q by lia.
          change (fun y => mapM (cell rows y) [q]) with
                 (fun y => bind (cell rows y q) (fun a => bind (Ok []) (fun ys => Ok (a :: ys)))).
          cbn [bind]. rewrite rmap_concat_singletons. reflexivity.
        * reflexivity.
        * intros j Hj. apply Hin. rewrite <- (rlen_to_nat s e st Hst). fold ny. lia.
        * intros j Hj. change (Z.of_nat 1) with 1 in Hj. replace j with 0 by lia. lia.
      + rewrite (range_size_rlen s e st Hst), (range_size_rlen s' e' st' Hst'). cbn [bind andb orb negb].
        rewrite !py_range_spec by assumption.
        set (ny := Z.to_nat (rlen s e st)). set (nx := Z.to_nat (rlen s' e' st')).
        replace (Z.to_nat (rlen s e st * rlen s' e' st')) with (ny * nx)%nat
          by (subst ny nx; pose proof (rlen_nonneg s e st Hst); pose proof (rlen_nonneg s' e' st' Hst'); nia).
        rewrite (gather_eq s st ny s' st' nx (rlen s' e' st')).
        * unfold py_len. rewrite !map_length, !zseq_length.
          rewrite <- (rlen_to_nat s e st Hst), <- (rlen_to_nat s' e' st' Hst'). fold ny nx.
          destruct (mapM _ _) as [ll|er]; reflexivity.
        * subst nx. symmetry. apply rlen_to_nat; assumption.
        * intros j Hj. apply Hin. rewrite <- (rlen_to_nat s e st Hst). fold ny. lia.
        * intros j Hj. apply Hin'. rewrite <- (rlen_to_nat s' e' st' Hst'). fold nx. lia.
  Qed.

  Lemma py_index_norm {B} (l : list B) i : - py_len l <= i < py_len l ->
    py_index l (if i <? 0 then i + py_len l else i) = py_index l i.
  Proof.
    intros Hi. destruct (Z.ltb_spec i 0) as [Hn|Hn]; [|reflexivity].
    unfold py_index. cbv zeta.
    repeat match goal with
           | |- context [?a <? ?b] => destruct (Z.ltb_spec a b); try lia
           end.
    reflexivity.
  Qed.

  Lemma cell_norm y x : - h <= y < h -> - w <= x < w ->
    cell rows (if y <? 0 then y + h else y) (if x <? 0 then x + w else x) = cell rows y x.
  Proof.
    intros Hy Hx. destruct Hrect as (Hh & Hw & HF). unfold cell.
    rewrite <- Hh. rewrite py_index_norm by lia.
    destruct (py_index rows y) as [r|e] eqn:E; cbn [bind]; [|reflexivity].
    assert (Hr : py_len r = w).
    { rewrite Forall_forall in HF. apply HF. unfold py_index in E.
      destruct ((_ <? 0) || (_ <=? _)); [discriminate|].
      destruct (nth_error rows _) eqn:E2; [|discriminate]. inversion E; subst.
      eapply nth_error_In; exact E2. }
    rewrite <- Hr. apply py_index_norm. lia.
  Qed.

  Theorem getitem2_eq_spec (k : key2) :
    getitem2 h w data k = spec_getitem2 h w rows k.
  Proof.
    destruct k as [k|ky kx|l]; cbn [getitem2 spec_getitem2].
    - apply getitem_pair_eq_spec.
    - apply getitem_pair_eq_spec.
    - f_equal. apply mapM_ext. intros [y x] _.
      rewrite getitem_pair_eq_spec. unfold spec_pair. cbn [select].
      destruct (Z.ltb_spec y (- h)); cbn [orb bind]; [reflexivity|].
      destruct (Z.leb_spec h y); cbn [orb bind]; [reflexivity|].
      destruct (Z.ltb_spec x (- w)); cbn [orb bind]; [reflexivity|].
      destruct (Z.leb_spec w x); cbn [orb bind]; [reflexivity|].
      rewrite cell_norm by lia.
      destruct (cell rows y x); reflexivity.
  Qed.
End Main.
