(* C07: exactness of division_connected_variable_groups for group_size = None *)
From Coq Require Import ZArith List Bool Arith Lia.
From Cspuz Require Import Lib.PyErr Core.Expr Core.Program Core.Build
  Graph.GraphModel Graph.ReachProofs Graph.VarGroups Graph.VarGroupsSound Graph.VarGroupsComplete
  Graph.VarGroupsEval Graph.VarGroupsMain.
Import ListNotations.
Open Scope nat_scope.

(* ------------------------------------------------------------------------ *)
(* vocabulary of the theorem statements                                      *)

(* constraints / declarations added by a call *)
Definition new_cons (st st' : state) : list expr := skipn (length (cons st)) (cons st').
Definition new_in_bounds (st st' : state) (en : env) : bool :=
  in_bounds_from en (next_id st) (skipn (next_id st) (vars st')).

(* an assignment that extends [en] to the variables declared by the call, respects
   their domains and satisfies the constraints posted by the call *)
Definition extends_sat (gsem : op -> list (option value) -> option bool)
           (st st' : state) (en en' : env) : Prop :=
  agree_below (next_id st) en en' /\ new_in_bounds st st' en' = true /\
  forallb (holds gsem en') (new_cons st st') = true.

(* value of the i-th returned id *)
Definition ids_val (gsem : op -> list (option value) -> option bool) (en : env) (ids : list expr)
  : nat -> Z :=
  fun v => match eval gsem en (at_ ids v) with Some (VI z) => z | _ => 0%Z end.

(* ------------------------------------------------------------------------ *)
(* domains                                                                   *)

Lemma in_bounds_from_app en l1 : forall i l2,
  in_bounds_from en i (l1 ++ l2) = in_bounds_from en i l1 && in_bounds_from en (i + length l1) l2.
Proof.
  induction l1 as [|d l1 IH]; intros i l2; simpl.
  - rewrite Nat.add_0_r. reflexivity.
  - destruct d; rewrite IH; replace (S i + length l1) with (i + S (length l1)) by lia;
      rewrite ?andb_assoc; reflexivity.
Qed.

Lemma in_bounds_from_repeat_bool en n : forall i, in_bounds_from en i (repeat DBool n) = true.
Proof. induction n as [|n IH]; intros i; simpl; [reflexivity|apply IH]. Qed.

Lemma in_bounds_from_repeat_int en lo hi n : forall i,
  in_bounds_from en i (repeat (DInt lo hi) n) = in_range lo hi (fun j => ei en (i + j)) n.
Proof.
  unfold in_range. induction n as [|n IH]; intros i; simpl; [reflexivity|].
  rewrite IH, Nat.add_0_r. f_equal. rewrite <- seq_shift, forallb_map'.
  apply forallb_ext_in. intros j _. replace (S i + j) with (i + S j) by lia. reflexivity.
Qed.

Lemma skipn_app_len {A} (l1 l2 : list A) : skipn (length l1) (l1 ++ l2) = l2.
Proof. induction l1; simpl; auto. Qed.

Lemma main_state_bounds st g en :
  new_in_bounds st (main_state st g) en = cert_ranges g (cert_of_env (next_id st) (nv g) en).
Proof.
  unfold new_in_bounds, main_state. rewrite ensure_add_decls_vars. unfold next_id at 2.
  rewrite skipn_app_len. unfold main_decls.
  rewrite !in_bounds_from_app, !in_bounds_from_repeat_bool, !in_bounds_from_repeat_int, !repeat_length.
  rewrite !andb_true_r. unfold cert_ranges, cert_of_env. simpl. reflexivity.
Qed.

Lemma main_state_new_cons st g : new_cons st (main_state st g) = main_cons g (next_id st).
Proof. unfold new_cons, main_state. rewrite ensure_add_decls_cons. apply skipn_app_len. Qed.

Lemma main_gid_val gsem st g en v :
  v < nv g -> ids_val gsem en (main_gid st g) v = c_gid (cert_of_env (next_id st) (nv g) en) v.
Proof. intros Hv. unfold ids_val, main_gid. rewrite at_ivars by exact Hv. reflexivity. Qed.

(* ------------------------------------------------------------------------ *)
(* from a certificate to an assignment                                       *)

Local Arguments Nat.mul : simpl never.

Definition env_of_cert (k n : nat) (en : env) (c : vg_cert) : env :=
  {| eb := fun i => if i <? k + 2 * n then eb en i
                    else if i <? k + 3 * n then c_root c (i - (k + 2 * n))
                    else c_act c (i - (k + 3 * n));
     ei := fun i => if i <? k then ei en i
                    else if i <? k + n then c_gid c (i - k)
                    else c_rank c (i - (k + n)) |}.

Lemma env_of_cert_agree k n en c : agree_below k en (env_of_cert k n en c).
Proof.
  intros i Hi. simpl. destruct (Nat.ltb_spec i (k + 2 * n)); [|lia].
  destruct (Nat.ltb_spec i k); [|lia]. split; reflexivity.
Qed.

Lemma env_of_cert_back k n en c :
  let c' := cert_of_env k n (env_of_cert k n en c) in
  (forall i, i < n -> c_gid c' i = c_gid c i /\ c_rank c' i = c_rank c i /\ c_root c' i = c_root c i)
  /\ (forall e, c_act c' e = c_act c e).
Proof.
  simpl. split.
  - intros i Hi. repeat split.
    + destruct (Nat.ltb_spec (k + i) k); [lia|]. destruct (Nat.ltb_spec (k + i) (k + n)); [|lia].
      f_equal. lia.
    + destruct (Nat.ltb_spec (k + n + i) k); [lia|]. destruct (Nat.ltb_spec (k + n + i) (k + n)); [lia|].
      f_equal. lia.
    + destruct (Nat.ltb_spec (k + 2 * n + i) (k + 2 * n)); [lia|].
      destruct (Nat.ltb_spec (k + 2 * n + i) (k + 3 * n)); [|lia].
      f_equal. lia.
  - intros e. destruct (Nat.ltb_spec (k + 3 * n + e) (k + 2 * n)); [lia|].
    destruct (Nat.ltb_spec (k + 3 * n + e) (k + 3 * n)); [lia|].
    f_equal. lia.
Qed.

(* ------------------------------------------------------------------------ *)
(* the theorem                                                               *)

Theorem vargroups_exact_nosize_main gsem st g blk en :
  wf_graph g = true -> 1 <= nv g ->
  ((exists en', extends_sat gsem st (main_state st g) en en' /\
                ids_realise (nv g) (ids_val gsem en' (main_gid st g)) blk)
   <-> realisable g blk (fun _ => None)).
Proof.
  intros Hwf Hn. split.
  - intros [en' [[_ [Hb Hc]] Hids]].
    rewrite main_state_bounds in Hb. rewrite main_state_new_cons, (eval_main gsem g Hwf) in Hc.
    split; [|intros v s _ H; discriminate].
    apply (cert_sound_nosize g _ Hwf Hc Hb).
    intros u v Hu Hv. rewrite <- !(main_gid_val gsem st g en') by assumption. apply Hids; assumption.
  - intros [Hconn _].
    set (c := the_cert g blk).
    set (en' := env_of_cert (next_id st) (nv g) en c).
    destruct (env_of_cert_back (next_id st) (nv g) en c) as [Hv He]. cbv zeta in Hv, He. fold en' in Hv, He.
    exists en'. split; [split; [apply env_of_cert_agree|split]|].
    + rewrite main_state_bounds.
      rewrite (cert_ranges_ext g _ c) by (intros i Hi; destruct (Hv i Hi) as [H1 [H2 _]]; split; assumption).
      apply the_cert_ranges; assumption.
    + rewrite main_state_new_cons, (eval_main gsem g Hwf).
      rewrite (cert_main_ext g _ c Hwf Hv (fun e _ => He e)).
      apply the_cert_main; assumption.
    + intros u v Hu Hv'. rewrite !(main_gid_val gsem st g en') by assumption.
      destruct (Hv u Hu) as [H1 _]. destruct (Hv v Hv') as [H2 _]. rewrite H1, H2.
      apply (the_cert_ids g blk); assumption.
Qed.

(* stated on the model function itself *)
Theorem vargroups_exact_nosize_proved :
  forall gsem st g st' ids blk en,
    wf_graph g = true -> 1 <= nv g ->
    post_vargroups st g G1None = Ok (st', ids) ->
    ((exists en', extends_sat gsem st st' en en' /\ ids_realise (nv g) (ids_val gsem en' ids) blk)
     <-> realisable g blk (fun _ => None)).
Proof.
  intros gsem st g st' ids blk en Hwf Hn Hp.
  rewrite post_vargroups_absent in Hp by (assumption || reflexivity).
  inversion Hp; subst. apply vargroups_exact_nosize_main; assumption.
Qed.

(* the hypotheses are satisfiable, and the function does succeed *)
Lemma post_vargroups_nosize_ok st g :
  1 <= nv g -> exists st' ids, post_vargroups st g G1None = Ok (st', ids).
Proof. intros Hn. eexists _, _. apply post_vargroups_absent; [exact Hn|reflexivity]. Qed.

Lemma post_vargroups_zero st g gs : nv g = 0 -> post_vargroups st g gs = Err ValueError.
Proof. intros H. unfold post_vargroups. rewrite H. reflexivity. Qed.
