(* List facts used by the C18 proofs: boolean membership, filters as
   permutations, keep_idx (the list comprehension of _copy_with_update). *)
From Coq Require Import ZArith List Bool Arith Permutation Lia.
From Cspuz Require Import Lib.PyErr Generator.Segmentation.
Import ListNotations.

Lemma cell_eqb_eq : forall a b, cell_eqb a b = true <-> a = b.
Proof.
  intros [a1 a2] [b1 b2]; unfold cell_eqb; simpl.
  rewrite andb_true_iff, !Z.eqb_eq. split; [intros [-> ->]; reflexivity | intros H; inversion H; auto].
Qed.

Lemma cell_eqb_refl : forall a, cell_eqb a a = true.
Proof. intros; apply cell_eqb_eq; reflexivity. Qed.

Lemma cell_eqb_neq : forall a b, cell_eqb a b = false <-> a <> b.
Proof.
  intros a b; split; intros H.
  - intros E; apply cell_eqb_eq in E; congruence.
  - destruct (cell_eqb a b) eqn:E; [apply cell_eqb_eq in E; contradiction | reflexivity].
Qed.

Lemma memc_In : forall c l, memc c l = true <-> In c l.
Proof.
  intros c l; unfold memc; rewrite existsb_exists; split.
  - intros [x [Hx E]]; apply cell_eqb_eq in E; subst; exact Hx.
  - intros H; exists c; split; [exact H | apply cell_eqb_refl].
Qed.

Lemma memc_false : forall c l, memc c l = false <-> ~ In c l.
Proof.
  intros c l; split; intros H.
  - intros E; apply memc_In in E; congruence.
  - destruct (memc c l) eqn:E; [apply memc_In in E; contradiction | reflexivity].
Qed.

Lemma memn_In : forall n l, memn n l = true <-> In n l.
Proof.
  intros n l; unfold memn; rewrite existsb_exists; split.
  - intros [x [Hx E]]; apply Nat.eqb_eq in E; subst; exact Hx.
  - intros H; exists n; split; [exact H | apply Nat.eqb_refl].
Qed.

(* ---------------------------------------------------------------- filters *)

Lemma filter_split_perm {A} (p : A -> bool) (l : list A) :
  Permutation l (filter p l ++ filter (fun x => negb (p x)) l).
Proof.
  induction l as [|a l IH]; simpl; [constructor|].
  destruct (p a); simpl.
  - constructor; exact IH.
  - apply Permutation_cons_app; exact IH.
Qed.

Lemma filter_length_le {A} (p : A -> bool) (l : list A) : length (filter p l) <= length l.
Proof. induction l as [|a l IH]; simpl; [lia|]. destruct (p a); simpl; lia. Qed.

Lemma filter_length_full {A} (p : A -> bool) (l : list A) :
  length (filter p l) = length l -> forall x, In x l -> p x = true.
Proof.
  induction l as [|a l IH]; simpl; intros H x Hx; [contradiction|].
  destruct (p a) eqn:E; simpl in H.
  - destruct Hx as [<-|Hx]; [exact E | apply IH; [lia | exact Hx]].
  - pose proof (filter_length_le p l); lia.
Qed.

Lemma remove_cell_perm : forall c B, NoDup B -> In c B -> Permutation B (c :: remove_cell c B).
Proof.
  intros c B; unfold remove_cell; induction B as [|a B IH]; simpl; intros ND Hin; [contradiction|].
  inversion ND as [|? ? Hna ND']; subst.
  destruct (cell_eqb a c) eqn:E; simpl.
  - apply cell_eqb_eq in E; subst a. constructor.
    (* c not in B: the filter keeps everything *)
    clear IH Hin ND. induction B as [|b B IHB]; simpl; [constructor|].
    inversion ND' as [|? ? Hnb NDB]; subst.
    destruct (cell_eqb b c) eqn:Eb; simpl.
    + apply cell_eqb_eq in Eb; subst; exfalso; apply Hna; left; reflexivity.
    + constructor; apply IHB; [intros H; apply Hna; right; exact H | exact NDB].
  - destruct Hin as [->|Hin]; [rewrite cell_eqb_refl in E; discriminate|].
    eapply perm_trans; [apply perm_skip; apply IH; assumption | apply perm_swap].
Qed.

Lemma remove_cell_In : forall c B v, In v (remove_cell c B) <-> In v B /\ v <> c.
Proof.
  intros c B v; unfold remove_cell; rewrite filter_In, negb_true_iff, cell_eqb_neq; tauto.
Qed.

Lemma dedup_NoDup_id : forall l, NoDup l -> dedup l = l.
Proof.
  induction l as [|a l IH]; simpl; intros ND; [reflexivity|].
  inversion ND; subst.
  destruct (memc a l) eqn:E; [apply memc_In in E; contradiction | f_equal; auto].
Qed.

Lemma Permutation_concat {A} (l l' : list (list A)) :
  Permutation l l' -> Permutation (concat l) (concat l').
Proof.
  induction 1; simpl.
  - constructor.
  - apply Permutation_app_head; assumption.
  - rewrite !app_assoc; apply Permutation_app_tail; apply Permutation_app_comm.
  - eapply perm_trans; eassumption.
Qed.

Lemma NoDup_app_both {A} (l l' : list A) : NoDup (l ++ l') -> NoDup l /\ NoDup l'.
Proof.
  induction l as [|a l IH]; simpl; intros H; [split; [constructor | exact H]|].
  inversion H as [|? ? Hn H']; subst. destruct (IH H') as [H1 H2]. split; [|exact H2].
  constructor; [intros Hin; apply Hn; apply in_or_app; left; exact Hin | exact H1].
Qed.

Lemma NoDup_concat_block {A} (bs : list (list A)) b : NoDup (concat bs) -> In b bs -> NoDup b.
Proof.
  induction bs as [|a bs IH]; simpl; intros ND Hin; [contradiction|].
  destruct Hin as [->|Hin].
  - apply NoDup_app_both in ND; tauto.
  - apply IH; [apply NoDup_app_both in ND; tauto | exact Hin].
Qed.

(* ---------------------------------------------------------------- keep_idx *)

Lemma in_combine_seq {A} (l : list A) d : forall k i b,
  In (i, b) (combine (seq k (length l)) l) <-> (k <= i < k + length l /\ nth (i - k) l d = b).
Proof.
  induction l as [|a l IH]; simpl; intros k i b.
  - split; [contradiction | lia].
  - rewrite IH; split.
    + intros [E | [Hr Hn]].
      * inversion E; subst; split; [lia | rewrite Nat.sub_diag; reflexivity].
      * split; [lia|]. replace (i - k) with (S (i - S k)) by lia. exact Hn.
    + intros [Hr Hn]. destruct (Nat.eq_dec i k) as [->|Hne].
      * left; rewrite Nat.sub_diag in Hn; subst; reflexivity.
      * right; split; [lia|]. replace (i - k) with (S (i - S k)) in Hn by lia. exact Hn.
Qed.

Lemma map_fst_combine_seq {A} (l : list A) : forall k, map fst (combine (seq k (length l)) l) = seq k (length l).
Proof. induction l as [|a l IH]; simpl; intros k; [reflexivity | f_equal; apply IH]. Qed.

Lemma map_snd_combine_seq {A} (l : list A) : forall k, map snd (combine (seq k (length l)) l) = l.
Proof. induction l as [|a l IH]; simpl; intros k; [reflexivity | f_equal; apply IH]. Qed.

Lemma keep_idx_In : forall excl bs b, In b (keep_idx excl bs) -> In b bs.
Proof.
  intros excl bs b H; unfold keep_idx in H.
  apply in_map_iff in H; destruct H as [[i b'] [E H]]; simpl in E; subst b'.
  apply filter_In in H; destruct H as [H _]. apply in_combine_r in H; exact H.
Qed.

Lemma keep_idx_perm : forall excl bs,
  NoDup excl -> (forall i, In i excl -> i < length bs) ->
  Permutation bs (map (blk bs) excl ++ keep_idx excl bs).
Proof.
  intros excl bs ND Hr. unfold keep_idx.
  set (IL := combine (seq 0 (length bs)) bs).
  set (p := fun q : nat * block => memn (fst q) excl).
  assert (HIL : Permutation IL (filter p IL ++ filter (fun q => negb (p q)) IL)) by apply filter_split_perm.
  assert (Hb : map snd IL = bs) by apply map_snd_combine_seq.
  rewrite <- Hb at 1.
  eapply perm_trans; [apply Permutation_map; exact HIL|].
  rewrite map_app. apply Permutation_app_tail.
  (* the removed part *)
  assert (Hrem : Permutation (filter p IL) (map (fun i => (i, blk bs i)) excl)).
  { apply NoDup_Permutation.
    - apply NoDup_filter. apply (NoDup_map_inv fst). unfold IL; rewrite map_fst_combine_seq. apply seq_NoDup.
    - apply FinFun.Injective_map_NoDup; [|exact ND]. intros x y E; inversion E; reflexivity.
    - intros [i b]; rewrite filter_In, in_map_iff; unfold p, IL; simpl. rewrite memn_In.
      rewrite (in_combine_seq bs [] 0 i b). rewrite Nat.sub_0_r. split.
      + intros [[_ Hn] Hi]. exists i; split; [unfold blk; rewrite Hn; reflexivity | exact Hi].
      + intros [j [E Hj]]. injection E as Ei Eb. subst i b. split; [split; [specialize (Hr _ Hj); lia | reflexivity] | exact Hj]. }
  eapply perm_trans; [apply Permutation_map; exact Hrem|].
  rewrite map_map; simpl. apply Permutation_refl.
Qed.

Lemma keep_idx_length : forall excl bs,
  NoDup excl -> (forall i, In i excl -> i < length bs) ->
  length bs = length excl + length (keep_idx excl bs).
Proof.
  intros excl bs ND Hr. pose proof (Permutation_length (keep_idx_perm excl bs ND Hr)) as H.
  rewrite app_length, map_length in H. exact H.
Qed.

Lemma keep_idx_concat : forall excl bs,
  NoDup excl -> (forall i, In i excl -> i < length bs) ->
  Permutation (concat bs) (concat (map (blk bs) excl) ++ concat (keep_idx excl bs)).
Proof.
  intros excl bs ND Hr. rewrite <- concat_app. apply Permutation_concat. apply keep_idx_perm; assumption.
Qed.

(* ---------------------------------------------------------------- block_id *)

Lemma block_id_from_spec : forall bs k c i,
  block_id_from k bs c = Some i -> k <= i < k + length bs /\ In c (nth (i - k) bs []).
Proof.
  induction bs as [|b bs IH]; simpl; intros k c i H; [discriminate|].
  destruct (block_id_from (S k) bs c) eqn:E.
  - inversion H; subst. apply IH in E. destruct E as [Hr Hin]. split; [lia|].
    replace (i - k) with (S (i - S k)) by lia. exact Hin.
  - destruct (memc c b) eqn:Em; [|discriminate]. inversion H; subst.
    split; [lia|]. rewrite Nat.sub_diag. apply memc_In; exact Em.
Qed.

Lemma block_id_spec : forall bs c i, block_id bs c = Some i -> i < length bs /\ In c (blk bs i).
Proof.
  intros bs c i H; unfold block_id in H. apply block_id_from_spec in H.
  rewrite Nat.sub_0_r in H. destruct H; split; [lia | assumption].
Qed.

(* ---------------------------------------------------------------- sorted set of pairs *)

Lemma ins_pair_In : forall p l x, In x (ins_pair p l) -> x = p \/ In x l.
Proof.
  intros p l; induction l as [|q r IH]; simpl; intros x H.
  - destruct H as [<-|[]]; left; reflexivity.
  - destruct (pair_ltb p q).
    + destruct H as [<-|H]; [left; reflexivity | right; exact H].
    + destruct (pair_eqb p q); [right; exact H|].
      destruct H as [<-|H]; [right; left; reflexivity|].
      apply IH in H; destruct H; [left; assumption | right; right; assumption].
Qed.

Lemma sort_pairs_In : forall l x, In x (sort_pairs l) -> In x l.
Proof.
  induction l as [|a l IH]; simpl; intros x H; [contradiction|].
  apply ins_pair_In in H; destruct H as [->|H]; [left; reflexivity | right; apply IH; exact H].
Qed.
