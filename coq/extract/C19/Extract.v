Require Extraction.
Require Import ExtrOcamlBasic.
From Coq Require Import ZArith List.
Require Import Cspuz.Lib.PyErr Cspuz.Generator.XorShift Cspuz.Generator.Builder Cspuz.Generator.Anneal.
Extraction "model.ml" Z.add Nat.add pyerr_code seed_state next words randint choice shuffle random_num
  b_initial b_candidates b_copy_with_update variables initial_of get with_update neighbours generate.
