"""Problem generators for C16 (puzzle URL codecs).  All randomness comes from the rng passed in.

Every generator yields (h, w, problem) in the problem format of the cspuz module, biased
to the boundaries of the text format: values 15/16/255/256/4095, empty runs around the
one-character limits (20 for g-z, 26 for a-z, 2 for slitherlink's packed form), 1xN / Nx1
/ non-square boards, all-empty and all-clue boards.
"""
import c15gen as G

BOUND = [1, 2, 9, 10, 15, 16, 17, 99, 254, 255, 256, 257, 1000, 4094, 4095]

SIZES_QUICK = [(1, 1), (1, 2), (2, 1), (1, 5), (5, 1), (2, 3), (3, 2), (3, 3), (4, 5), (5, 4), (1, 45), (45, 1),
               (2, 25), (25, 2), (6, 6), (7, 10), (10, 7), (9, 9), (3, 30), (17, 16)]
SIZES_MORE = [(1, 3), (3, 1), (2, 2), (1, 21), (21, 1), (1, 22), (1, 41), (1, 42), (4, 4), (2, 11), (11, 2), (12, 12),
              (16, 17), (8, 5), (5, 8), (1, 80), (20, 20), (30, 3), (13, 7)]


def sizes(rng, thorough, extra_random=6):
    out = list(SIZES_QUICK) + (SIZES_MORE if thorough else rng.sample(SIZES_MORE, 5))
    for _ in range(extra_random * (4 if thorough else 1)):
        out.append((rng.randint(1, 12), rng.randint(1, 12)))
    return out


def cell_grid(rng, h, w, empty, clue, density):
    return [[(clue(rng) if rng.random() < density else empty) for _ in range(w)] for _ in range(h)]


def grid_variants(rng, h, w, empty, clue):
    """several fillings of one board: empty, full, sparse (long runs), medium, a clue only in the
    last / first cell, clues at run-length boundaries of the flattened board"""
    n = h * w
    yield cell_grid(rng, h, w, empty, clue, 0.0)
    yield cell_grid(rng, h, w, empty, clue, 1.0)
    yield cell_grid(rng, h, w, empty, clue, 0.08)
    yield cell_grid(rng, h, w, empty, clue, rng.choice([0.3, 0.5, 0.8]))
    for pos in ([n - 1, 0] + [p for p in (19, 20, 21, 22, 26, 27, 40, 41, 42) if p < n]):
        if rng.random() < 0.6 or pos in (n - 1, 20, 21):
            g = cell_grid(rng, h, w, empty, clue, 0.0)
            g[pos // w][pos % w] = clue(rng)
            if rng.random() < 0.5 and pos + 2 < n:
                q = rng.randint(pos + 1, n - 1)
                g[q // w][q % w] = clue(rng)
            yield g


def _pick(vals):
    return lambda rng: rng.choice(vals)


CLUES = {
    # module -> (empty value, clue generator)
    "nurikabe": (0, _pick([-1, -1] + BOUND + [1, 2, 3, 4, 5])),
    "sudoku": (0, _pick(BOUND + [1, 2, 3, 4, 5, 6, 7, 8, 9])),
    "nurimisaki": (-1, _pick([0, 0] + BOUND + [2, 3, 4, 5])),
    "masyu": (0, _pick([1, 2])),
    "slitherlink": (-1, _pick([0, 1, 2, 3, 4])),
}


def yajilin_clue(rng):
    if rng.random() < 0.12:
        return "??"
    return rng.choice("^v<>") + str(rng.choice([0, 0, 1, 1, 2, 3, 4, 5] + BOUND))


def grid_problems(rng, module, thorough):
    if module == "yajilin":
        empty, clue = "..", yajilin_clue
    else:
        empty, clue = CLUES[module]
    for (h, w) in sizes(rng, thorough):
        if h * w > 200 and module in ("masyu",) and not thorough:
            pass
        for g in grid_variants(rng, h, w, empty, clue):
            yield h, w, g


# ---------------------------------------------------------------- rooms

def room_partitions(rng, thorough):
    """(h, w, rooms) with rooms in canonical order"""
    for (h, w) in [(1, 1), (1, 2), (2, 1), (1, 3), (2, 2), (1, 4), (3, 1)] + ([(2, 3), (3, 2), (1, 6)] if thorough else []):
        for part in G.all_partitions(h, w):
            yield h, w, part
    for (h, w) in sizes(rng, thorough, extra_random=10):
        if h * w > 450:
            continue
        yield h, w, G.random_partition(rng, h, w)
        if rng.random() < 0.4:
            yield h, w, G.components(h, w, G.edges(h, w))       # one room
        if rng.random() < 0.4:
            yield h, w, G.components(h, w, [])                  # every cell its own room


def heyawake_clues(rng, rooms):
    mode = rng.random()
    if mode < 0.2:
        return [-1 for _ in rooms]
    if mode < 0.4:
        return [rng.choice([0, 1, 2, 3] + BOUND) for _ in rooms]
    return [(-1 if rng.random() < 0.6 else rng.choice([0, 1, 2, 3, 4, 5] + BOUND)) for _ in rooms]


def rect_partition(rng, y0, x0, y1, x1, depth=0):
    """split [y0,y1) x [x0,x1) into rectangles"""
    hh, ww = y1 - y0, x1 - x0
    if hh * ww <= 1 or depth > 5 or rng.random() < 0.25:
        return [(y0, x0, y1, x1)]
    if (hh > 1 and rng.random() < 0.5) or ww == 1:
        m = rng.randint(y0 + 1, y1 - 1)
        return rect_partition(rng, y0, x0, m, x1, depth + 1) + rect_partition(rng, m, x0, y1, x1, depth + 1)
    m = rng.randint(x0 + 1, x1 - 1)
    return rect_partition(rng, y0, x0, y1, m, depth + 1) + rect_partition(rng, y0, m, y1, x1, depth + 1)


def block_id_of(h, w, rooms):
    g = [[-1] * w for _ in range(h)]
    for i, r in enumerate(rooms):
        for (y, x) in r:
            g[y][x] = i
    return g


# ---------------------------------------------------------------- compass

def compass_value(rng):
    return rng.choice([-1, -1, -1, 0, 1, 2, 3, 4, 5, 6] + BOUND)


def compass_problems(rng, thorough):
    for (h, w) in sizes(rng, thorough):
        n = h * w
        for density in (0.0, 0.05, 0.3, 1.0):
            if density == 1.0 and n > 60:
                continue
            cells = [(y, x) for y in range(h) for x in range(w) if rng.random() < density]
            yield h, w, [(y, x, compass_value(rng), compass_value(rng), compass_value(rng), compass_value(rng)) for (y, x) in cells]
        # a single clue in the last cell / after a run of exactly 20, 21 cells
        for pos in [n - 1] + [p for p in (20, 21, 40, 41) if p < n]:
            yield h, w, [(pos // w, pos % w, compass_value(rng), compass_value(rng), compass_value(rng), compass_value(rng))]


# ---------------------------------------------------------------- aquarium

def aquarium_problems(rng, thorough):
    for (h, w, rooms) in room_partitions(rng, thorough):
        blocks = [list(r) for r in rooms]
        if len(blocks) >= 3 and rng.random() < 0.3:          # a block need not be connected
            a = blocks.pop(rng.randrange(len(blocks)))
            blocks[rng.randrange(len(blocks))] += a
        blocks = G.shuffled_rooms(rng, blocks)
        vals = [-1, -1, 0, 1, 2, 3, 4, 5, 9, 10, 15, 16, 17, 100, 255]
        mode = rng.random()
        if mode < 0.15:
            rows, cols = [-1] * h, [-1] * w
        elif mode < 0.3:
            rows, cols = [rng.choice(vals[2:]) for _ in range(h)], [rng.choice(vals[2:]) for _ in range(w)]
        else:
            rows, cols = [rng.choice(vals) for _ in range(h)], [rng.choice(vals) for _ in range(w)]
        yield h, w, blocks, rows, cols


# ---------------------------------------------------------------- malformed

def mutate_text(rng, s):
    """one small edit of a URL / body"""
    alphabet = "0123456789abcdefghijklmnopqrstuvwxyz-+./?_ G\n\xb2"
    if not s:
        return rng.choice(alphabet)
    i = rng.randrange(len(s))
    r = rng.random()
    if r < 0.35:
        return s[:i] + rng.choice(alphabet) + s[i + 1:]
    if r < 0.6:
        return s[:i] + s[i + 1:]
    if r < 0.85:
        return s[:i] + rng.choice(alphabet) + s[i:]
    return s[:i]


def url_variants(rng, url, name, h, w, body, other_names):
    pre = url[: len(url) - len("%s/%d/%d/%s" % (name, w, h, body))]
    out = [url,
           url.replace("https://", "http://", 1),
           url.replace("/p?", "/p.html?", 1),
           "http://pzv.jp/p.html?%s/%d/%d/%s" % (name, w, h, body),
           "%s%s/%d/%d/%s" % (pre, name, h, w, body),                  # sizes swapped
           "%s%s/%d/%d/%s" % (pre, name, w + 1, h, body),
           "%s%s/%d/%d/%s" % (pre, name, w, h + 1, body),
           "%s%s/%d/%d/%s" % (pre, name, w, h, body[:-1]),
           "%s%s/%d/%d/%s" % (pre, name, w, h, body + rng.choice("0g.z-/")),
           "%s%s/%d/%d/%s\nxyz" % (pre, name, w, h, body),
           "%s%s/0%d/%d/%s" % (pre, name, w, h, body),
           "%s%s/%d/%d" % (pre, name, w, h),
           "%s%s/%d/%d/" % (pre, name, w, h),
           "%s%s/%d/x/%s" % (pre, name, w, body),
           "%s/%d/%d/%s" % (pre, w, h, body),
           "see " + url,
           body,
           ""]
    for nm in other_names:
        out.append("%s%s/%d/%d/%s" % (pre, nm, w, h, body))
    for _ in range(3):
        out.append("%s%s/%d/%d/%s" % (pre, name, w, h, mutate_text(rng, body)))
    out.append(mutate_text(rng, url))
    return out
