(* C09: active_edges_acyclic admits exactly the forests. *)
From Coq Require Import ZArith List Bool Arith Lia.
From Cspuz Require Import Lib.PyErr Core.Expr Core.Program Core.Build
  Graph.GraphModel Graph.Acyclic Graph.AcyclicGraphFacts Graph.AcyclicSound
  Graph.AcyclicComplete Graph.AcyclicProgram.
Import ListNotations.
Local Open Scope nat_scope.

Lemma cert_vertex_ext g A r r' i : (forall j, r j = r' j) -> cert_vertex g A r i = cert_vertex g A r' i.
Proof.
  intros H. unfold cert_vertex. f_equal.
  - apply forallb_ext_eq. intros [j e]. rewrite !H. reflexivity.
  - f_equal. f_equal. apply map_ext. intros [j e]. rewrite !H. reflexivity.
Qed.

Lemma cert_acyclic_ext g A r r' : (forall j, r j = r' j) -> cert_acyclic g A r = cert_acyclic g A r'.
Proof. intros H. unfold cert_acyclic. apply forallb_ext_eq. intros i. apply cert_vertex_ext. exact H. Qed.

(* level S on its own: a certificate exists exactly for forests *)
Theorem acyclic_cert : forall g A, wf_graph g = true -> loop_free g = true ->
  ((exists r, ranks_in_range g r = true /\ cert_acyclic g A r = true) <-> forest g A).
Proof.
  intros g A Hwf Hlf. split.
  - intros [r [_ Hc]]. eapply cert_forest; eauto.
  - intros Hf. apply forest_cert; auto.
Qed.

Section Exact.
  Variable gsem : op -> list (option value) -> option bool.
  Variable st : state.
  Variable flags : list expr.
  Variable g : graph.
  Variable A : nat -> bool.
  Variable en : env.
  Hypothesis Hwf : wf_graph g = true.
  Hypothesis Hlf : loop_free g = true.
  Hypothesis Hn : 1 <= nv g.
  Hypothesis Hfl : flags_denote gsem (next_id st) en flags (length (edges g)) A.

  Let k0 := next_id st.

  Lemma flags_ok : forall e, e < length (edges g) ->
    exists f, nth_error flags e = Some f /\ is_bool_expr_like f = true.
  Proof. intros e He. destruct (Hfl e He) as [f [H1 [H2 _]]]. exists f. auto. Qed.

  Lemma flags_eval en' : agree_below k0 en en' ->
    forall e, e < length (edges g) -> eval gsem en' (fl flags e) = Some (VB (A e)).
  Proof.
    intros Hag e He. destruct (Hfl e He) as [f [H1 [_ H3]]].
    unfold fl. rewrite (nth_error_nth _ _ _ H1). apply H3. exact Hag.
  Qed.

  Definition extended (r0 : nat -> Z) : env :=
    {| eb := eb en; ei := fun i => if Nat.ltb i k0 then ei en i else r0 (i - k0) |}.

  Lemma extended_agree r0 : agree_below k0 en (extended r0).
  Proof.
    intros i Hi. simpl. split; [reflexivity|]. apply Nat.ltb_lt in Hi. rewrite Hi. reflexivity.
  Qed.

  Lemma extended_rank r0 j : ei (extended r0) (k0 + j) = r0 j.
  Proof.
    simpl. assert (E : Nat.ltb (k0 + j) k0 = false) by (apply Nat.ltb_ge; lia). rewrite E.
    f_equal. lia.
  Qed.

  Theorem exact_for_posted_state :
    post_acyclic st flags g = Ok (posted_state st flags g) /\
    ((exists en', agree_below (next_id st) en en' /\
                  in_bounds_from en' (next_id st) (new_vars g) = true /\
                  forallb (holds gsem en') (new_cons st flags g) = true)
     <-> forest g A).
  Proof.
    split; [apply post_acyclic_closed; auto; apply flags_ok|].
    split.
    - intros [en' [Hag [_ Hsat]]].
      rewrite (new_cons_eval gsem st flags g A en' (flags_eval en' Hag)) in Hsat.
      eapply cert_forest; eauto.
    - intros Hf. destruct (forest_cert g A Hwf Hlf Hf) as [r0 [Hr Hc]].
      exists (extended r0). split; [apply extended_agree|]. split.
      + unfold new_vars. rewrite in_bounds_repeat. rewrite <- Hr. unfold ranks_in_range.
        apply forallb_ext_eq. intros i. fold k0. rewrite extended_rank. reflexivity.
      + rewrite (new_cons_eval gsem st flags g A (extended r0) (flags_eval _ (extended_agree r0))).
        rewrite <- Hc. apply cert_acyclic_ext. intros j. fold k0. apply extended_rank.
  Qed.
End Exact.

(* the statement in self-contained form *)
Theorem acyclic_exact : forall gsem st flags g A en,
  wf_graph g = true -> loop_free g = true -> 1 <= nv g ->
  flags_denote gsem (next_id st) en flags (length (edges g)) A ->
  exists st' newv newc,
    post_acyclic st flags g = Ok st' /\
    vars st' = vars st ++ newv /\ keys st' = keys st ++ repeat false (length newv) /\
    cons st' = cons st ++ newc /\
    ((exists en', agree_below (next_id st) en en' /\
                  in_bounds_from en' (next_id st) newv = true /\
                  forallb (holds gsem en') newc = true)
     <-> forest g A).
Proof.
  intros gsem st flags g A en Hwf Hlf Hn Hfl.
  destruct (exact_for_posted_state gsem st flags g A en Hwf Hlf Hn Hfl) as [Hp Hiff].
  exists (posted_state st flags g), (new_vars g), (new_cons st flags g).
  split; [exact Hp|]. split; [reflexivity|]. split; [|split; [reflexivity|exact Hiff]].
  simpl. unfold new_vars. rewrite repeat_length. reflexivity.
Qed.
