(* C11 rule specification - Nurimisaki.
   Published rules (puzz.link, "Nurimisaki"):
     1. Shade some cells; all unshaded cells form one orthogonally connected area.
     2. A cell with a circle is a "cape": it is unshaded and exactly one of its
        orthogonal neighbours is unshaded. An unshaded cell without a circle is
        not a cape.
     3. A number in a circle is the number of unshaded cells in the straight
        line running from the circle (the circle's cell included) until a shaded
        cell or the edge.
     4. No 2x2 block of cells is entirely shaded or entirely unshaded.

   problem = [[h; w]; grid]   per cell: negative = no circle, 0 = circle without number, n >= 1 = circle with n
   answer  = h*w cells row-major, 1 = unshaded (white) *)
From Coq Require Import ZArith List Bool Arith.
From Cspuz Require Import Graph.GraphModel Puzzle.PuzzleBase.
Import ListNotations.

Definition rules_nurimisaki (pb : problem) (ans : answer) : bool :=
  let h := dim pb 0 in let w := dim pb 1 in
  let grid := sec pb 1 in
  let white := fun '(y, x) => isb (at2 ans w y x) in
  let dirs := [((-1)%Z, 0%Z); (1%Z, 0%Z); (0%Z, (-1)%Z); (0%Z, 1%Z)] in
  Nat.eqb (length ans) (h * w) && forallb is01 ans &&
  cells_connected h w (fun v => isb (getz ans v)) &&
  negb (has_2x2 h w (fun y x => white (y, x))) && negb (has_2x2 h w (fun y x => negb (white (y, x)))) &&
  forallb (fun '(y, x) =>
     let c := at2 grid w y x in
     let cape := white (y, x) && Nat.eqb (count white (nbr4 h w y x)) 1 in
     if (c <? 0)%Z then negb cape
     else cape &&
          ((c =? 0)%Z ||
           (* the line leaves the cape towards its only unshaded neighbour *)
           existsb (fun '(dy, dx) =>
              let run := take_while white (ray h w y x dy dx) in
              negb (Nat.eqb (length run) 0) && (Z.of_nat (S (length run)) =? c)%Z) dirs)) (cells h w).

Definition answers_nurimisaki (pb : problem) : list answer :=
  all_answers (bool_doms (dim pb 0 * dim pb 1)).
