(* C04 runner: I/O only.
   graph :=  n m a1 b1 ... am bm
   P <cfgprim 0|1> <acyclic 0|1> <ugp N|0|1> (G <graph> | NOG) (S | A1 | A2 h w) ST <state> L [ acts ]
                                           -> posted state | E <code>
   SPEC <acyclic> <graph> B bits...        -> spec_avc_b (0/1)
   W <graph> B bits...                     -> ranks | roots   (the certificate of the proof)
   C <acyclic> <graph> B bits... R ranks... T roots...  -> cert_avc ranks_in_range_b  (0/1 0/1)
   H <state-less> E <expr> B bits...       -> holds gsem_avc under eb := bits (ints 0)  (0/1) *)
open Model
open Zutil

let ni s = nat_of_int (int_of_string s)

let rec take_pairs k toks = if k = 0 then ([], toks) else
  match toks with
  | a :: b :: r -> let (ps, r') = take_pairs (k - 1) r in ((ni a, ni b) :: ps, r')
  | _ -> failwith "pairs"

let parse_graph toks = match toks with
  | n :: m :: r -> let (es, r') = take_pairs (int_of_string m) r in ({ nv = ni n; edges = es }, r')
  | _ -> failwith "graph"

let rec take_until stop toks = match toks with
  | [] -> ([], [])
  | t :: r when t = stop -> ([], r)
  | t :: r -> let (a, b) = take_until stop r in (t :: a, b)

let pattern bits = let arr = Array.of_list (List.map (fun t -> t = "1") bits) in
  fun k -> let i = int_of_nat k in i < Array.length arr && arr.(i)

let b01 b = if b then "1" else "0"
let flag s = (s = "1")
let err e = "E " ^ string_of_int (int_of_nat (pyerr_code e))

let handle toks = match toks with
  | "P" :: cfg :: acy :: ugp :: r ->
      let ugp = (match ugp with "N" -> None | s -> Some (flag s)) in
      let (g, r) = (match r with
        | "G" :: r -> let (g, r) = parse_graph r in (Some g, r)
        | "NOG" :: r -> (None, r)
        | _ -> failwith "graph form") in
      let (mk, r) = (match r with
        | "S" :: r -> ((fun l -> ASeq l), r)
        | "A1" :: r -> ((fun l -> AArr1 l), r)
        | "A2" :: h :: w :: r -> ((fun l -> AArr2 (ni h, ni w, l)), r)
        | _ -> failwith "arg form") in
      (match r with
       | "ST" :: r ->
           let (st, r) = Exprio.parse_state r in
           (match r with
            | "L" :: r ->
                let (acts, _) = Exprio.parse_expr_list r in
                (match active_vertices_connected (flag cfg) st (mk acts) g (flag acy) ugp with
                 | Ok st' -> Exprio.show_state st'
                 | Err e -> err e)
            | _ -> failwith "L")
       | _ -> failwith "ST")
  | "SPEC" :: acy :: r ->
      let (g, r) = parse_graph r in
      (match r with
       | "B" :: bits -> b01 (spec_avc_b (flag acy) g (pattern bits))
       | _ -> failwith "B")
  | "W" :: r ->
      let (g, r) = parse_graph r in
      (match r with
       | "B" :: bits ->
           let a = pattern bits in
           let n = int_of_nat g.nv in
           zs (List.init n (fun i -> avc_rank g a (nat_of_int i))) ^ " | " ^
           String.concat " " (List.init n (fun i -> b01 (avc_root g a (nat_of_int i))))
       | _ -> failwith "B")
  | "C" :: acy :: r ->
      let (g, r) = parse_graph r in
      (match r with
       | "B" :: r ->
           let (bits, r) = take_until "R" r in
           let (ranks, roots) = take_until "T" r in
           let a = pattern bits in
           let arr = Array.of_list (List.map (fun t -> z_of_int (int_of_string t)) ranks) in
           let rk v = let i = int_of_nat v in if i < Array.length arr then arr.(i) else z_of_int 0 in
           b01 (cert_avc g (flag acy) a rk (pattern roots)) ^ " " ^ b01 (ranks_in_range_b g rk)
       | _ -> failwith "B")
  | "H" :: "E" :: r ->
      let (e, r) = Exprio.parse_expr r in
      (match r with
       | "B" :: bits ->
           let en = { eb = pattern bits; ei = (fun _ -> z_of_int 0) } in
           b01 (holds gsem_avc en e)
       | _ -> failwith "B")
  | _ -> "EXN bad request"

let () = main_loop handle
