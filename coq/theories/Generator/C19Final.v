(* C19 — statements assembled for Props/C19.v (combinations of the lemmas of
   XorShiftProofs / BuilderProofs / AnnealProofs), the still unproved full statement
   about shuffle, and non-vacuity examples. *)
From Coq Require Import ZArith List Bool Lia Permutation.
From Cspuz Require Import Lib.PyErr Generator.XorShift Generator.XorShiftProofs Generator.Builder
  Generator.BuilderProofs Generator.Anneal Generator.AnnealProofs Generator.ShuffleBij.
Import ListNotations.
Open Scope Z_scope.

(* ------------------------------------------------------------------ PRNG *)

Lemma xorshift_range_all seed k :
  wf (after k (seed_state seed)) /\ 0 <= word_at k (seed_state seed) < M32.
Proof.
  pose proof (after_wf k _ (seed_wf seed)) as H. split; [exact H|].
  unfold word_at. apply next_word; exact H.
Qed.

Lemma randint_total_range a b s :
  match randint a b s with
  | Done v _ => a <= v <= b
  | Raise e => e = ValueError /\ (b < a \/ M32 < b - a + 1)
  | Diverge => True
  end.
Proof.
  destruct (randint a b s) as [v s'|e|] eqn:E; [eapply randint_range; eauto|apply randint_raises with (s := s); exact E|exact I].
Qed.

(* randint never raises on a valid domain *)
Lemma randint_valid_no_raise a b s e : a <= b -> b - a + 1 <= M32 -> randint a b s <> Raise e.
Proof. intros H1 H2 E. apply randint_raises in E. lia. Qed.

(* shuffle: the result is a permutation of the argument, obtained as shuffle_with js from the
   draws js it makes, draw k lying in [0, k + 1]; and (Generator/ShuffleBij.v) the map from
   admissible draw vectors to permutations of a duplicate-free list is a bijection. *)
Lemma shuffle_permutation (A : Type) (l l' : list A) s s' :
  shuffle l s = Done l' s' ->
  Permutation l l' /\
  exists js, length js = (length l - 1)%nat /\ l' = shuffle_with js 1 l /\
             forall k j, nth_error js k = Some j -> (j <= S k)%nat.
Proof. intros H. split; [eapply shuffle_perm; eauto|eapply shuffle_draws; eauto]. Qed.

(* ------------------------------------------------------------------ builder level *)

Lemma array_neighbour_local c g s us s' l :
  b_candidates (BArray c) (VGrid g) s = Done us s' -> In (UCells l) us ->
  grid_local c g (apply_cells g l) /\ (length l <= 4)%nat /\
  forall y x, (forall v, ~ In (y, x, v) l) -> cell (apply_cells g l) y x = cell g y x.
Proof.
  cbn [b_candidates]. intros H Hin.
  destruct (array_candidates_spec _ _ _ _ _ H _ Hin) as (l0 & E & Hl). inversion E; subst l0.
  split; [apply array_upd_local; exact Hl|]. split; [eapply array_upd_length; eauto|].
  intros y x Hn. rewrite cell_apply_cells.
  destruct (cell g y x) as [a|]; cbn [option_map]; [rewrite last_write_notin by exact Hn|]; reflexivity.
Qed.

Lemma symmetry_kept c g s us s' l :
  a_symmetry c = true -> full c g -> sym_inv c g ->
  b_candidates (BArray c) (VGrid g) s = Done us s' -> In (UCells l) us ->
  sym_inv c (apply_cells g l) /\ full c (apply_cells g l).
Proof.
  cbn [b_candidates]. intros Hsym Hfull Hinv H Hin.
  destruct (array_candidates_spec _ _ _ _ _ H _ Hin) as (l0 & E & Hl). inversion E; subst l0.
  split; [apply symmetry_kept_upd; assumption|apply full_apply; assumption].
Qed.

Lemma adjacency_kept c g s us s' l :
  (forall dy dx, In (dy, dx) (a_disallow c) -> In (- dy, - dx) (a_disallow c)) ->
  ~ In (0, 0) (a_disallow c) ->
  full c g -> (a_symmetry c = true -> sym_inv c g) -> adj_inv c g ->
  set_candidates c g s = Done us s' -> In (UCells l) us ->
  adj_inv c (apply_cells g l).
Proof.
  intros Dsym D0 Hfull Hsy Hadj H Hin. unfold set_candidates in H.
  destruct (concat_mapR_in _ _ _ _ _ _ H Hin) as ([y x] & sa & sb & us1 & Hyx & Hf & Hin1).
  apply in_cells_of in Hyx.
  destruct (set_candidates_cell_spec _ _ _ _ _ _ _ Hf _ Hin1) as (l0 & E & Hl). inversion E; subst l0.
  eapply adjacency_kept_upd; eauto.
Qed.

(* disallow_adjacent=True satisfies the two side conditions *)
Lemma four_ok : (forall dy dx, In (dy, dx) FOUR -> In (- dy, - dx) FOUR) /\ ~ In (0, 0) FOUR.
Proof.
  split.
  - intros dy dx H. cbn in H. destruct H as [E|[E|[E|[E|[]]]]]; inversion E; subst; cbn; auto.
  - cbn. intros [E|[E|[E|[E|[]]]]]; inversion E.
Qed.

(* ------------------------------------------------------------------ whole runs over a builder pattern *)

Section Runs.
  Variables A W : Type.
  Variable solver : prob -> W -> option A * W.
  Variable uniqueness : A -> W -> bool * W.
  Variable score : A -> W -> Z * W.
  Variable pretest : option (prob -> W -> bool * W).
  Variable clue_penalty : option (prob -> W -> Z * W).
  Variable accept : nat -> Z -> Z -> Z -> bool.
  Variable pt : pat.

  Notation gen := (generate prob A W solver uniqueness score pretest clue_penalty accept (neighbours pt) (initial_of pt)).
  Notation reach := (reachable prob (neighbours pt) (initial_of pt)).

  Lemma reachable_shape p : reach p -> shape pt p.
  Proof.
    induction 1 as [|cur s ns s' q Hr IH Hn Hq]; [apply shape_initial|].
    eapply nb_shape; [|exact IH]. eapply neighbours_nb; eauto.
  Qed.

  (* every problem handed to the solver during generate_problem(builder_pattern=pt) is the
     initial problem or differs from a problem reached earlier by exactly one builder
     update; the returned problem in particular, and it was accepted *)
  Lemma generate_local max_steps solve_initial w0 s0 r e :
    gen max_steps solve_initial w0 s0 = Finished r e ->
    (forall p, r = Some p ->
        accepted prob A W solver uniqueness pretest p (e_world e) /\
        (exists tr, e_trace e = tr ++ [EvSolve p true]) /\
        exists cur, reach cur /\ shape pt cur /\ nb pt cur p) /\
    (forall q, solved_in prob (e_trace e) q ->
        q = initial_of pt \/ exists cur, reach cur /\ shape pt cur /\ nb pt cur q).
  Proof.
    intros H. apply generate_sound in H. destruct H as [H1 H2].
    assert (Hoff : forall q, offered prob (neighbours pt) (initial_of pt) q ->
                             exists cur, reach cur /\ shape pt cur /\ nb pt cur q).
    { intros q (cur & s & ns & s' & Hr & Hn & Hq). exists cur.
      pose proof (reachable_shape cur Hr) as Hs. repeat split; auto. eapply neighbours_nb; eauto. }
    split.
    - intros p Hp. destruct (H1 p Hp) as (Ho & Ha & Ht). auto.
    - intros q Hq. destruct (H2 q Hq) as [-> | Ho]; [left; reflexivity|right; auto].
  Qed.
End Runs.

(* ------------------------------------------------------------------ non-vacuity *)

Definition ex_cfg : acfg := mkacfg 3 3 [0; 1; 2] 0 FOUR true None false.

Example ex_initial_invariants :
  full ex_cfg (array_initial ex_cfg) /\ sym_inv ex_cfg (array_initial ex_cfg) /\ adj_inv ex_cfg (array_initial ex_cfg).
Proof.
  assert (Hc : forall y x, in_grid ex_cfg y x -> cell (array_initial ex_cfg) y x = Some 0).
  { intros y x [Hy Hx]. cbn in Hy, Hx.
    assert (Ey : y = 0 \/ y = 1 \/ y = 2) by lia. assert (Ex : x = 0 \/ x = 1 \/ x = 2) by lia.
    destruct Ey as [-> | [-> | ->]], Ex as [-> | [-> | ->]]; reflexivity. }
  assert (Hn : forall y x, in_grid ex_cfg y x -> ~ ndv ex_cfg (array_initial ex_cfg) y x).
  { intros y x Hin (v & Hv & Hd). rewrite (Hc y x Hin) in Hv. inversion Hv; subst. apply Hd; reflexivity. }
  split; [|split].
  - intros y x Hin. exists 0. apply Hc; exact Hin.
  - intros y x Hin. pose proof (mirror_in_grid ex_cfg y x Hin) as Hin'. split; intros H; exfalso; [exact (Hn _ _ Hin H) | exact (Hn _ _ Hin' H)].
  - intros y x dy dx Hin _ _ H. exfalso; exact (Hn _ _ Hin H).
Qed.

(* the initial 3x3 grid has candidates, and the first one sets a cell and its mirror image *)
Example ex_candidates :
  exists us s', b_candidates (BArray ex_cfg) (VGrid (array_initial ex_cfg)) (seed_state 0) = Done us s' /\
                length us = 18%nat /\ In (UCells [(0, 0, 1); (2, 2, 1)]) us.
Proof. vm_compute. eexists; eexists. split; [reflexivity|]. split; [reflexivity|]. left; reflexivity. Qed.

(* a run that returns a problem: solver always satisfiable with answer = the atom, uniqueness
   accepts the answer 2 *)
Definition ex_solver (p : prob) (w : nat) : option Z * nat :=
  (match p with VAtom z => Some z | _ => None end, S w).
Definition ex_uniq (a : Z) (w : nat) : bool * nat := (a =? 2, w).
Definition ex_score (a : Z) (w : nat) : Z * nat := (a, w).

Example ex_generate_returns :
  exists e, generate prob Z nat ex_solver ex_uniq ex_score None None (fun _ _ _ _ => true)
              (neighbours (PB (BChoice [0; 1; 2] 0))) (initial_of (PB (BChoice [0; 1; 2] 0)))
              (Some 5%nat) false O (seed_state 0) = Finished (Some (VAtom 2)) e.
Proof. vm_compute. eexists. reflexivity. Qed.

Example ex_randint_5_9 : exists s', randint 5 9 (seed_state 0) = Done 6 s'.
Proof. vm_compute. eexists. reflexivity. Qed.
