(* Vocabulary of the C03 statements: which trees are well typed for the text
   backends, how a cspuz assignment is seen from the Sugar side (by name), what
   the solver is expected to have declared.  Definitions only. *)
From Coq Require Import ZArith List Bool String Ascii.
From Cspuz Require Import Lib.PyErr Core.Expr Core.Program Backend.SugarText Backend.Sugar Backend.SugarReply.
Import ListNotations.
Open Scope string_scope.

Definition is_none (e : expr) : bool := match e with PyNone => true | _ => false end.

(* the trees cspuz's constructors build (Core.Expr.wt), plus the two native graph
   operators (operands: any well-typed tree, literal, or None), with Op.SUB
   restricted to two or more operands as in expr.py / array.py *)
Fixpoint wts (want_bool : bool) (e : expr) : bool :=
  match e with
  | PyBool _ => want_bool
  | PyInt _ => negb want_bool
  | PyNone => false
  | BVar _ => want_bool
  | IVar _ _ _ => negb want_bool
  | BNode o args =>
      want_bool &&
      match o with
      | BOOL_CONSTANT => match args with [PyBool _] => true | _ => false end
      | EQ | NE | LE | LT | GE | GT => Nat.eqb (List.length args) 2 && forallb (wts false) args
      | NOT => Nat.eqb (List.length args) 1 && forallb (wts true) args
      | AND | OR => forallb (wts true) args
      | IFF | XOR | IMP => Nat.eqb (List.length args) 2 && forallb (wts true) args
      | ALLDIFF => forallb (wts false) args
      | G_AVC | G_DIV => forallb (fun a => wts true a || wts false a || is_none a) args
      | _ => false
      end
  | INode o args =>
      negb want_bool &&
      match o with
      | INT_CONSTANT => match args with [PyInt _] => true | _ => false end
      | NEG => Nat.eqb (List.length args) 1 && forallb (wts false) args
      | ADD => Nat.leb 1 (List.length args) && forallb (wts false) args
      | SUB => Nat.leb 2 (List.length args) && forallb (wts false) args
      | IF => match args with [c; t; f] => wts true c && wts false t && wts false f | _ => false end
      | _ => false
      end
  end.
Definition okarg (e : expr) : bool := wts true e || wts false e || is_none e.

(* operand counts for which Sugar's reading of a printed operator name is the
   cspuz operator: "-" is negation with one operand, subtraction with more *)
Definition arity_ok (o : op) (n : nat) : bool :=
  match o with
  | NEG => Nat.eqb n 1
  | SUB => Nat.leb 2 n
  | ADD => Nat.leb 1 n
  | _ => true
  end.
Definition eval_node (gsem : op -> list (option value) -> option bool) (o : op) (vs : list (option value)) :=
  if is_int_op o then eval_iop o vs else eval_bop gsem o vs.

(* a cspuz assignment seen by name: "b<id>" / "i<id>" *)
Definition name_env (en : env) (s : string) : option value :=
  match s with
  | String c d =>
      match int_atom d with
      | Some z =>
          if (z <? 0)%Z then None
          else if Ascii.eqb c "b" then Some (VB (eb en (Z.to_nat z)))
          else if Ascii.eqb c "i" then Some (VI (ei en (Z.to_nat z)))
          else None
      | None => None
      end
  | "" => None
  end.

(* what the Sugar side should see declared for a cspuz variable *)
Definition sdecl_of (v : bvar) : sdecl :=
  match v with
  | VBool _ => SDBool (var_name v)
  | VInt _ lo hi => SDInt (var_name v) lo hi
  end.
Definition is_int_var (v : bvar) : bool := match v with VInt _ _ _ => true | _ => false end.
Definition int_names (vs : list bvar) : list string := map var_name (filter is_int_var vs).
Definition bool_names (vs : list bvar) : list string := map var_name (filter (fun v => negb (is_int_var v)) vs).

(* names of the registered keys, in declaration order *)
Fixpoint names_of_keys (vs : list bvar) (ks : list bool) : list string :=
  match vs, ks with
  | v :: r, k :: kr => if k then var_name v :: names_of_keys r kr else names_of_keys r kr
  | _, _ => []
  end.

(* a Sugar assignment gives every declared variable a value of its type *)
Definition typed_on (vs : list bvar) (rho : string -> option value) : Prop :=
  forall v, In v vs ->
    match v with
    | VBool _ => exists b, rho (var_name v) = Some (VB b)
    | VInt _ _ _ => exists z, rho (var_name v) = Some (VI z)
    end.
