(* Proofs about Codec/Legacy.v: compass.parse_puzz_link_url reads back what
   compass.to_puzz_link_url writes (run-length coded empty cells, four numbers per clue
   in the one / two / three hex digit forms), for all board sizes. *)
From Coq Require Import ZArith List Ascii Bool NArith Lia.
From Cspuz Require Import Lib.PyErr Codec.Comb Codec.CombWf Codec.CombBasics Codec.CombLeaf Codec.Legacy
  Codec.Url Codec.UrlProofs.
Import ListNotations.
Local Open Scope Z_scope.

(* ------------------------------------------------------------------ characters *)
Lemma ord_chr z : 0 <= z < 256 -> ord (chr z) = z.
Proof.
  intros H. unfold ord, chr. rewrite N_ascii_embedding; [lia|].
  apply N2Z.inj_lt. rewrite Z2N.id by lia. simpl. lia.
Qed.

Lemma base36_index i : 0 <= i < 36 -> py_index BASE36 i = Ok (base36_char i).
Proof.
  intros Hi.
  assert (H : forallb (fun i => match py_index BASE36 i with Ok c => ascii_eqb c (base36_char i) | Err _ => false end)
                      digits36 = true) by (vm_compute; reflexivity).
  rewrite forallb_forall in H. specialize (H i).
  assert (Hin : In i digits36).
  { unfold digits36. replace i with (Z.of_nat (Z.to_nat i)) by lia. apply in_map. apply in_seq. lia. }
  specialize (H Hin). destruct (py_index BASE36 i); try discriminate. apply ascii_eqb_eq in H. subst. reflexivity.
Qed.

Lemma ord_base36_letter d : 10 <= d < 36 -> ord (base36_char d) = 87 + d.
Proof.
  intros H. unfold base36_char. destruct (Z.ltb_spec d 10); [lia|]. apply ord_chr. lia.
Qed.

(* what is known about a hexadecimal digit character *)
Lemma clean16_facts ch : cleanb 16 ch = true ->
  ord ch < 103 /\ ascii_eqb ch "-"%char = false /\ ascii_eqb ch "+"%char = false /\ ascii_eqb ch "."%char = false.
Proof.
  revert ch.
  assert (H : forall ch, (negb (cleanb 16 ch) ||
     ((ord ch <? 103) && negb (ascii_eqb ch "-"%char) && negb (ascii_eqb ch "+"%char) && negb (ascii_eqb ch "."%char))) = true).
  { apply forall_chars. vm_compute. reflexivity. }
  intros ch Hc. specialize (H ch). rewrite Hc in H. simpl in H.
  repeat (apply andb_true_iff in H as [H ?]).
  apply Z.ltb_lt in H. apply negb_true_iff in H0, H1, H2. auto.
Qed.

(* ------------------------------------------------------------------ one number of a clue *)
Definition vnum (v : Z) : Prop := v = -1 \/ 0 <= v <= 4095.

Definition enc_num (v : Z) : str :=
  if v =? -1 then ["."%char]
  else if v <=? 15 then to_base 16 v
  else if v <=? 255 then "-"%char :: to_base 16 v
  else "+"%char :: to_base 16 v.

Lemma to_base16_nonneg v : 0 <= v -> to_base16 v = to_base 16 v.
Proof. intros H. unfold to_base16. destruct (Z.ltb_spec v 0); [lia|reflexivity]. Qed.

Lemma encode_clue_num v : vnum v -> encode_int_or_str (clue_num v) = Ok (enc_num v).
Proof.
  intros [->|Hv]; [reflexivity|].
  unfold clue_num, enc_num. destruct (Z.eqb_spec v (-1)); [lia|]. simpl.
  rewrite to_base16_nonneg by lia.
  destruct (Z.leb_spec v 15); [reflexivity|].
  destruct (Z.leb_spec v 255); [reflexivity|].
  destruct (Z.leb_spec v 4095); [reflexivity|lia].
Qed.

(* compass_num reads one encoded number and leaves the rest *)
Lemma compass_num_raw_enc v rest : vnum v ->
  compass_num_raw (enc_num v ++ rest) = Ok (v, rest) /\
  exists c t, enc_num v = c :: t /\ ord c < 103.
Proof.
  intros [->|Hv].
  - split; [reflexivity|]. exists "."%char, []. split; [reflexivity|]. vm_compute. reflexivity.
  - unfold enc_num. destruct (Z.eqb_spec v (-1)); [lia|].
    destruct (to_base_spec 16 v) as (Hne & Hc & _); [lia|lia|].
    pose proof (py_int_to_base 16 v ltac:(lia) ltac:(lia)) as Hint.
    pose proof (hex_len v Hv) as Hlen. unfold hex_len_of in Hlen.
    destruct (Z.leb_spec v 15).
    + destruct (Z.ltb_spec v 16); [|lia].
      destruct (to_base 16 v) as [|c [|c2 t]] eqn:E; try discriminate. clear Hlen.
      simpl in Hc. rewrite andb_true_r in Hc. destruct (clean16_facts c Hc) as (Ho & Hm & Hp & Hd).
      split.
      * simpl. rewrite Hm, Hp, Hd. rewrite Hint. reflexivity.
      * exists c, []. auto.
    + destruct (Z.leb_spec v 255).
      * destruct (Z.ltb_spec v 16); [lia|]. destruct (Z.ltb_spec v 256); [|lia].
        split.
        -- change (("-"%char :: to_base 16 v) ++ rest) with ("-"%char :: (to_base 16 v ++ rest)).
           unfold compass_num_raw. change (ascii_eqb "-"%char "-"%char) with true. cbv iota.
           rewrite <- Hlen. rewrite firstn_app_exact, skipn_app_exact. rewrite Hint. reflexivity.
        -- exists "-"%char, (to_base 16 v). split; [reflexivity|]. vm_compute. reflexivity.
      * destruct (Z.ltb_spec v 16); [lia|]. destruct (Z.ltb_spec v 256); [lia|].
        split.
        -- change (("+"%char :: to_base 16 v) ++ rest) with ("+"%char :: (to_base 16 v ++ rest)).
           unfold compass_num_raw. change (ascii_eqb "+"%char "-"%char) with false.
           change (ascii_eqb "+"%char "+"%char) with true. cbv iota.
           rewrite <- Hlen. rewrite firstn_app_exact, skipn_app_exact. rewrite Hint. reflexivity.
        -- exists "+"%char, (to_base 16 v). split; [reflexivity|]. vm_compute. reflexivity.
Qed.

Lemma compass_num_enc v rest : vnum v ->
  compass_num (enc_num v ++ rest) = Ok (v, rest) /\
  exists c t, enc_num v = c :: t /\ ord c < 103.
Proof.
  intros Hv. destruct (compass_num_raw_enc v rest Hv) as [E H]. split; [|exact H].
  unfold compass_num. rewrite E. cbn [bind]. destruct (Z.ltb_spec v (-1)); [|reflexivity].
  destruct Hv; lia.
Qed.

(* ------------------------------------------------------------------ the cell stream *)
(* a cell: no clue, or the four numbers in the order of the tuple (up, down, left, right) *)
Definition cellv := option (Z * Z * Z * Z).

Definition cpv (c : cellv) : pv :=
  match c with
  | None => VNone
  | Some (u, d, l, r) => VTup [clue_num u; clue_num d; clue_num l; clue_num r]
  end.

Definition cell_ok (c : cellv) : Prop :=
  match c with None => True | Some (u, d, l, r) => vnum u /\ vnum d /\ vnum l /\ vnum r end.

Definition enc_flush (cnt : Z) : str := if 0 <? cnt then [base36_char (cnt + 15)] else [].

Definition enc_clue (q : Z * Z * Z * Z) : str :=
  let '(u, d, l, r) := q in enc_num u ++ enc_num d ++ enc_num l ++ enc_num r.

Fixpoint enc_cells (l : list cellv) (cnt : Z) : str :=
  match l with
  | [] => enc_flush cnt
  | None :: t => if 20 <=? cnt then "z"%char :: enc_cells t 1 else enc_cells t (cnt + 1)
  | Some q :: t => enc_flush cnt ++ enc_clue q ++ enc_cells t 0
  end.

Lemma ea_flush_enc cnt : 0 <= cnt <= 20 -> ea_flush 16 cnt = Ok (enc_flush cnt).
Proof.
  intros H. unfold ea_flush, enc_flush. destruct (Z.ltb_spec 0 cnt); [|reflexivity].
  rewrite base36_index by lia. simpl. f_equal. f_equal. f_equal. lia.
Qed.

(* encode_array on the flattened board is the specification stream *)
Lemma ea_loop_enc l : Forall cell_ok l -> forall cnt, 0 <= cnt <= 20 ->
  ea_loop 16 VNone (map cpv l) cnt = Ok (enc_cells l cnt).
Proof.
  induction 1 as [|c l Hc Hl IH]; intros cnt Hcnt; simpl.
  - apply ea_flush_enc. exact Hcnt.
  - destruct c as [[[[u d] lf] r]|]; simpl.
    + rewrite ea_flush_enc by exact Hcnt. simpl.
      destruct Hc as (Hu & Hd & Hlf & Hr).
      rewrite (encode_clue_num u Hu), (encode_clue_num d Hd), (encode_clue_num lf Hlf), (encode_clue_num r Hr).
      simpl. rewrite IH by lia. simpl. rewrite app_nil_r. repeat rewrite <- app_assoc. reflexivity.
    + replace (cnt + 1 - 1 + 16) with (cnt + 16) by lia.
      destruct (Z.leb_spec 36 (cnt + 16)); destruct (Z.leb_spec 20 cnt); try lia.
      * rewrite IH by lia. reflexivity.
      * apply IH. lia.
Qed.

(* the clues of a cell stream starting at cell number p, as parse_puzz_link_url lists them *)
Fixpoint read_cells (width : Z) (l : list cellv) (p : Z) : list clue :=
  match l with
  | [] => []
  | None :: t => read_cells width t (p + 1)
  | Some (u, d, lf, r) :: t => (p / width, p mod width, (u, lf, d, r)) :: read_cells width t (p + 1)
  end.

Definition has_clue (l : list cellv) : bool := existsb (fun c => match c with Some _ => true | None => false end) l.

Lemma parse_flush fuel height width cnt s p : 0 <= cnt <= 20 ->
  compass_parse_loop (S fuel) height width (enc_flush cnt ++ s) p =
  if 0 <? cnt then compass_parse_loop fuel height width s (p + cnt) else compass_parse_loop (S fuel) height width s p.
Proof.
  intros H. unfold enc_flush. destruct (Z.ltb_spec 0 cnt); [|reflexivity].
  simpl app. cbn [compass_parse_loop]. rewrite ord_base36_letter by lia.
  unfold ord_g, ord_f. destruct (Z.leb_spec 103 (87 + (cnt + 15))); [|lia].
  f_equal. lia.
Qed.

Lemma parse_clue fuel height width q s p : cell_ok (Some q) -> 0 < width -> p < height * width ->
  compass_parse_loop (S fuel) height width (enc_clue q ++ s) p =
  match compass_parse_loop fuel height width s (p + 1) with
  | Ok rest => Ok (match q with (u, d, lf, r) => (p / width, p mod width, (u, lf, d, r)) end :: rest)
  | Err e => Err e
  end.
Proof.
  destruct q as [[[u d] lf] r]. intros (Hu & Hd & Hlf & Hr) Hw Hp. unfold enc_clue.
  repeat rewrite <- app_assoc.
  destruct (compass_num_enc u (enc_num d ++ enc_num lf ++ enc_num r ++ s) Hu) as (E0 & c & t & Ec & Ho).
  destruct (compass_num_enc d (enc_num lf ++ enc_num r ++ s) Hd) as (E1 & _).
  destruct (compass_num_enc lf (enc_num r ++ s) Hlf) as (E2 & _).
  destruct (compass_num_enc r s Hr) as (E3 & _).
  cbn [compass_parse_loop].
  remember (enc_num u ++ enc_num d ++ enc_num lf ++ enc_num r ++ s) as full eqn:Ef.
  assert (Hhd : exists t', full = c :: t') by (subst full; rewrite Ec; eexists; reflexivity).
  destruct Hhd as (t' & Efull). rewrite Efull.
  unfold ord_g. destruct (Z.leb_spec 103 (ord c)); [lia|].
  rewrite <- Efull. rewrite E0. simpl. rewrite E1. simpl. rewrite E2. simpl. rewrite E3. simpl.
  destruct (Z.leb_spec width 0); [lia|]. destruct (Z.leb_spec (height * width) p); [lia|]. simpl.
  destruct (compass_parse_loop fuel height width s (p + 1)); reflexivity.
Qed.

(* length of the text bounds the number of loop iterations; all cells lie inside the board *)
Lemma parse_cells height width l : Forall cell_ok l -> (has_clue l = true -> 0 < width) ->
  forall cnt p fuel, 0 <= cnt <= 20 -> p + cnt + Z.of_nat (length l) <= height * width ->
  (length (enc_cells l cnt) < fuel)%nat ->
  compass_parse_loop fuel height width (enc_cells l cnt) p = Ok (read_cells width l (p + cnt)).
Proof.
  induction 1 as [|c l Hc Hl IH]; intros Hw cnt p fuel Hcnt Hin Hfuel.
  - simpl in *. destruct fuel as [|fuel]; [lia|].
    rewrite <- (app_nil_r (enc_flush cnt)). rewrite parse_flush by exact Hcnt.
    unfold enc_flush in Hfuel. destruct (Z.ltb_spec 0 cnt).
    + destruct fuel; [simpl in Hfuel; lia|]. reflexivity.
    + reflexivity.
  - destruct c as [q|].
    + assert (Hw0 : 0 < width) by (apply Hw; reflexivity).
      assert (Hw' : has_clue l = true -> 0 < width) by (intros _; exact Hw0).
      simpl enc_cells in *. simpl length in Hin. destruct fuel as [|fuel]; [lia|].
      rewrite parse_flush by exact Hcnt. rewrite app_length in Hfuel.
      assert (Hq : (1 <= length (enc_clue q))%nat).
      { destruct q as [[[u d] lf] r]. destruct Hc as (Hu & _).
        destruct (compass_num_enc u [] Hu) as (_ & c & t & Ec & _).
        unfold enc_clue. rewrite Ec. simpl. lia. }
      destruct (Z.ltb_spec 0 cnt).
      * unfold enc_flush in Hfuel. destruct (Z.ltb_spec 0 cnt); [|lia]. simpl length in Hfuel.
        destruct fuel as [|fuel]; [lia|].
        rewrite parse_clue by (try assumption; lia). rewrite app_length in Hfuel.
        rewrite (IH Hw' 0 (p + cnt + 1) fuel) by lia.
        simpl. destruct q as [[[u d] lf] r]. rewrite ?Z.add_0_r. reflexivity.
      * assert (cnt = 0) by lia. subst cnt.
        rewrite parse_clue by (try assumption; lia). rewrite app_length in Hfuel.
        unfold enc_flush in Hfuel. simpl in Hfuel.
        rewrite (IH Hw' 0 (p + 1) fuel) by lia.
        simpl. destruct q as [[[u d] lf] r]. rewrite ?Z.add_0_r. reflexivity.
    + assert (Hw' : has_clue l = true -> 0 < width) by (intros E; apply Hw; simpl; exact E).
      simpl enc_cells in *. simpl length in Hin. destruct (Z.leb_spec 20 cnt).
      * assert (cnt = 20) by lia. subst cnt.
        destruct fuel as [|fuel]; [simpl in Hfuel; lia|].
        cbn [compass_parse_loop]. unfold ord_g, ord_f.
        change (ord "z"%char) with 122. destruct (Z.leb_spec 103 122); [|lia].
        simpl length in Hfuel.
        rewrite (IH Hw' 1 (p + (122 - 102)) fuel) by lia.
        simpl. replace (p + (122 - 102) + 1) with (p + 20 + 1) by lia. reflexivity.
      * rewrite (IH Hw' (cnt + 1) p fuel) by lia. simpl. replace (p + (cnt + 1)) with (p + cnt + 1) by lia. reflexivity.
Qed.

(* ------------------------------------------------------------------ the text has no slash *)
Lemma clean36_no_slash ch : cleanb 36 ch = true -> is_slash ch = false.
Proof.
  revert ch.
  assert (H : forall ch, (negb (cleanb 36 ch) || negb (is_slash ch)) = true).
  { apply forall_chars. vm_compute. reflexivity. }
  intros ch Hc. specialize (H ch). rewrite Hc in H. simpl in H. apply negb_true_iff in H. exact H.
Qed.

Lemma cleanb_weaken b ch : b <= 36 -> cleanb b ch = true -> cleanb 36 ch = true.
Proof.
  unfold cleanb. intros Hb. destruct (digit_val ch); [|discriminate]. intros H.
  apply andb_true_iff in H as [H1 H2]. apply Z.ltb_lt in H1. rewrite H2, andb_true_r. apply Z.ltb_lt. lia.
Qed.

Definition no_slash (s : str) : Prop := Forall (fun c => is_slash c = false) s.

Lemma to_base16_no_slash v : 0 <= v -> no_slash (to_base 16 v).
Proof.
  intros Hv. destruct (to_base_spec 16 v) as (_ & Hc & _); [lia|lia|].
  rewrite forallb_forall in Hc. apply Forall_forall. intros c Hin.
  apply clean36_no_slash. apply (cleanb_weaken 16); [lia|]. apply Hc. exact Hin.
Qed.

Lemma enc_num_no_slash v : vnum v -> no_slash (enc_num v).
Proof.
  intros [->|Hv]; [repeat constructor|]. unfold enc_num.
  destruct (v =? -1); [repeat constructor|].
  destruct (v <=? 15); [apply to_base16_no_slash; lia|].
  destruct (v <=? 255); constructor; try reflexivity; apply to_base16_no_slash; lia.
Qed.

Lemma enc_flush_no_slash cnt : 0 <= cnt <= 20 -> no_slash (enc_flush cnt).
Proof.
  intros H. unfold enc_flush. destruct (0 <? cnt); [|constructor].
  constructor; [|constructor]. apply clean36_no_slash. apply cleanb_base36_char; lia.
Qed.

Lemma enc_cells_no_slash l : Forall cell_ok l -> forall cnt, 0 <= cnt <= 20 -> no_slash (enc_cells l cnt).
Proof.
  induction 1 as [|c l Hc Hl IH]; intros cnt Hcnt; simpl.
  - apply enc_flush_no_slash. exact Hcnt.
  - destruct c as [[[[u d] lf] r]|].
    + destruct Hc as (Hu & Hd & Hlf & Hr). unfold no_slash.
      apply Forall_app; split; [apply enc_flush_no_slash; exact Hcnt|].
      apply Forall_app; split; [|apply IH; lia].
      unfold enc_clue. repeat (apply Forall_app; split); apply enc_num_no_slash; assumption.
    + destruct (Z.leb_spec 20 cnt).
      * constructor; [reflexivity|]. apply IH. lia.
      * apply IH. lia.
Qed.

(* ------------------------------------------------------------------ url.split("?", 1)[-1].split("/", 3)[1:] *)
Lemma cut_slash_app a r : no_slash a -> cut_slash (a ++ "/"%char :: r) = Some (a, r).
Proof.
  induction 1 as [|c a Hc Ha IH]; simpl; [reflexivity|]. rewrite Hc, IH. reflexivity.
Qed.

Lemma str_int_no_slash n : 0 <= n -> no_slash (py_str_int n).
Proof.
  intros Hn. unfold py_str_int. destruct (Z.ltb_spec n 0); [lia|].
  destruct (to_base_spec 10 n) as (_ & Hc & _); [lia|lia|].
  rewrite forallb_forall in Hc. apply Forall_forall. intros c Hin.
  apply clean36_no_slash. apply (cleanb_weaken 10); [lia|]. apply Hc. exact Hin.
Qed.

Lemma compass_url_fields h w body : 0 <= h -> 0 <= w ->
  exists r1, cut_slash (after_question (compass_prefix ++ py_str_int w ++ slash ++ py_str_int h ++ slash ++ body)) = Some (["c"; "o"; "m"; "p"; "a"; "s"; "s"]%char, r1) /\
             cut_slash r1 = Some (py_str_int w, py_str_int h ++ slash ++ body) /\
             cut_slash (py_str_int h ++ slash ++ body) = Some (py_str_int h, body).
Proof.
  intros Hh Hw. exists (py_str_int w ++ slash ++ py_str_int h ++ slash ++ body). unfold slash. split; [|split].
  - change (after_question (compass_prefix ++ py_str_int w ++ ["/"%char] ++ py_str_int h ++ ["/"%char] ++ body))
      with ((["c"; "o"; "m"; "p"; "a"; "s"; "s"]%char) ++ "/"%char :: (py_str_int w ++ ["/"%char] ++ py_str_int h ++ ["/"%char] ++ body)).
    apply cut_slash_app. repeat constructor.
  - apply (cut_slash_app (py_str_int w)). apply str_int_no_slash. exact Hw.
  - apply (cut_slash_app (py_str_int h)). apply str_int_no_slash. exact Hh.
Qed.

(* ------------------------------------------------------------------ placing the clues on the board *)
Lemma set_nth_length {A} (l : list A) i x : length (set_nth l i x) = length l.
Proof. revert i; induction l as [|a l IH]; intros [|i]; simpl; auto. Qed.

Lemma set_nth_app_l {A} (a b : list A) i x : (i < length a)%nat -> set_nth (a ++ b) i x = set_nth a i x ++ b.
Proof.
  revert i; induction a as [|c a IH]; intros i Hi; simpl in *; [lia|].
  destruct i; simpl; [reflexivity|]. rewrite IH by lia. reflexivity.
Qed.

Lemma set_nth_app_r {A} (a b : list A) i x : set_nth (a ++ b) (length a + i) x = a ++ set_nth b i x.
Proof. induction a as [|c a IH]; simpl; [reflexivity|]. rewrite IH. reflexivity. Qed.

Lemma Forall_set_nth {A} (P : A -> Prop) l i x : Forall P l -> P x -> Forall P (set_nth l i x).
Proof.
  intros Hl Hx. revert i; induction Hl as [|a l Ha Hl IH]; intros [|i]; simpl; constructor; auto.
Qed.

Lemma set_nth_map {A B} (f : A -> B) l i x : set_nth (map f l) i (f x) = map f (set_nth l i x).
Proof. revert i; induction l as [|a l IH]; intros [|i]; simpl; auto. rewrite IH. reflexivity. Qed.

Definition rect {A} (H W : nat) (g : list (list A)) : Prop :=
  length g = H /\ Forall (fun r => length r = W) g.

Lemma concat_set_nth {A} W (g : list (list A)) : Forall (fun r => length r = W) g ->
  forall y x v, (y < length g)%nat -> (x < W)%nat ->
  concat (set_nth g y (set_nth (nth y g []) x v)) = set_nth (concat g) (y * W + x) v.
Proof.
  induction 1 as [|r g Hr Hg IH]; intros y x v Hy Hx; simpl in Hy; [lia|].
  destruct y as [|y]; simpl.
  - rewrite set_nth_app_l by lia. reflexivity.
  - rewrite IH by lia. rewrite <- Hr at 2. rewrite <- Nat.add_assoc. rewrite set_nth_app_r. reflexivity.
Qed.

Lemma wrap_index_in {A} (l : list A) i : 0 <= i < Z.of_nat (length l) -> wrap_index l i = Ok (Z.to_nat i).
Proof.
  intros H. unfold wrap_index.
  destruct (Z.leb_spec 0 i); [|lia]. destruct (Z.ltb_spec i (Z.of_nat (length l))); [|lia]. reflexivity.
Qed.

Lemma nth_res_in {A} (l : list A) i d : (i < length l)%nat -> nth_res l i = Ok (nth i l d).
Proof.
  intros H. unfold nth_res. destruct (nth_error l i) eqn:E.
  - rewrite (nth_error_nth _ _ d E). reflexivity.
  - apply nth_error_None in E. lia.
Qed.

Lemma pset_ok H W (g : list (list pv)) y x v : rect H W g ->
  0 <= y < Z.of_nat H -> 0 <= x < Z.of_nat W ->
  exists g', pset g y x v = Ok g' /\ rect H W g' /\
             concat g' = set_nth (concat g) (Z.to_nat y * W + Z.to_nat x) v.
Proof.
  intros [Hlen Hrows] Hy Hx. unfold pset.
  rewrite wrap_index_in by lia. simpl.
  rewrite (nth_res_in g (Z.to_nat y) []) by lia. simpl.
  assert (Hrow : length (nth (Z.to_nat y) g []) = W).
  { rewrite Forall_forall in Hrows. apply Hrows. apply nth_In. lia. }
  rewrite wrap_index_in by lia. simpl.
  eexists. split; [reflexivity|]. split.
  - split; [rewrite set_nth_length; exact Hlen|].
    apply Forall_set_nth; [exact Hrows|]. rewrite set_nth_length. exact Hrow.
  - apply concat_set_nth; auto; lia.
Qed.

Definition cidx (W : nat) (c : clue) : nat := match c with (y, x, _) => (Z.to_nat y * W + Z.to_nat x)%nat end.
Definition ctup (c : clue) : Z * Z * Z * Z := match c with (_, _, (u, l, d, r)) => (u, d, l, r) end.
Definition in_board (H W : nat) (c : clue) : Prop :=
  match c with (y, x, _) => 0 <= y < Z.of_nat H /\ 0 <= x < Z.of_nat W end.

Lemma compass_place_flat H W pos : Forall (in_board H W) pos -> forall g, rect H W g ->
  exists g', compass_place g pos = Ok g' /\ rect H W g' /\
    concat g' = fold_left (fun L c => set_nth L (cidx W c) (cpv (Some (ctup c)))) pos (concat g).
Proof.
  induction 1 as [|c pos Hc Hpos IH]; intros g Hg; simpl.
  - exists g. auto.
  - destruct c as [[y x] [[[u l] d] r]]. destruct Hc as [Hy Hx].
    destruct (pset_ok H W g y x (VTup [clue_num u; clue_num d; clue_num l; clue_num r]) Hg Hy Hx) as (g1 & E1 & Hg1 & Hc1).
    rewrite E1. simpl. destruct (IH g1 Hg1) as (g' & E & Hg' & Hc').
    exists g'. split; [exact E|]. split; [exact Hg'|]. rewrite Hc', Hc1. reflexivity.
Qed.

Lemma concat_repeat {A} (x : A) W H : concat (repeat (repeat x W) H) = repeat x (H * W).
Proof. induction H as [|H IH]; simpl; [reflexivity|]. rewrite IH. rewrite repeat_app. reflexivity. Qed.

Lemma map_repeat' {A B} (f : A -> B) x n : map f (repeat x n) = repeat (f x) n.
Proof. induction n; simpl; [reflexivity|]. rewrite IHn. reflexivity. Qed.

Lemma rect_none_grid h w : rect (Z.to_nat h) (Z.to_nat w) (none_grid h w).
Proof.
  unfold none_grid. split; [apply repeat_length|].
  apply Forall_forall. intros r Hr. apply repeat_spec in Hr. subst. apply repeat_length.
Qed.

(* the board as a list of cells *)
Definition place_cells (W : nat) (pos : list clue) (L : list cellv) : list cellv :=
  fold_left (fun L c => set_nth L (cidx W c) (Some (ctup c))) pos L.

Lemma place_cells_map W pos : forall L,
  fold_left (fun L c => set_nth L (cidx W c) (cpv (Some (ctup c)))) pos (map cpv L) = map cpv (place_cells W pos L).
Proof.
  induction pos as [|c pos IH]; intros L; [reflexivity|].
  unfold place_cells. cbn [fold_left]. rewrite set_nth_map. apply IH.
Qed.

Definition clue_ok (c : clue) : Prop := cell_ok (Some (ctup c)).

Lemma place_cells_ok W pos : Forall clue_ok pos -> forall L, Forall cell_ok L -> Forall cell_ok (place_cells W pos L).
Proof.
  induction 1 as [|c pos Hc Hpos IH]; intros L HL; simpl; [exact HL|].
  apply IH. apply Forall_set_nth; auto.
Qed.

Lemma place_cells_length W pos : forall L, length (place_cells W pos L) = length L.
Proof. induction pos as [|c pos IH]; intros L; simpl; [reflexivity|]. rewrite IH. apply set_nth_length. Qed.

(* ------------------------------------------------------------------ reading the board back *)
Lemma read_all_none w L : (forall i, nth i L None = None) -> forall p, read_cells w L p = [].
Proof.
  induction L as [|a L IH]; intros HN p; simpl; [reflexivity|].
  pose proof (HN 0%nat) as H0. simpl in H0. subst a. apply IH. intros i. apply (HN (S i)).
Qed.

Definition clue_at (w : Z) (p : Z) (q : Z * Z * Z * Z) : clue :=
  match q with (u, d, lf, r) => (p / w, p mod w, (u, lf, d, r)) end.

Lemma read_set_nth w q : forall L i, (i < length L)%nat -> (forall j, (i <= j)%nat -> nth j L None = None) ->
  forall p, read_cells w (set_nth L i (Some q)) p = read_cells w L p ++ [clue_at w (p + Z.of_nat i) q].
Proof.
  induction L as [|a L IH]; intros i Hi HN p; simpl in Hi; [lia|].
  destruct i as [|i]; simpl.
  - pose proof (HN 0%nat (le_n 0)) as H0. simpl in H0. subst a.
    rewrite (read_all_none w L) by (intros j; apply (HN (S j)); lia).
    destruct q as [[[u d] lf] r]. simpl. rewrite Z.add_0_r. reflexivity.
  - assert (E : read_cells w (set_nth L i (Some q)) (p + 1) = read_cells w L (p + 1) ++ [clue_at w (p + 1 + Z.of_nat i) q]).
    { apply IH; [lia|]. intros j Hj. apply (HN (S j)). lia. }
    replace (p + Z.pos (Pos.of_succ_nat i)) with (p + 1 + Z.of_nat i) by lia.
    destruct a as [[[[u d] lf] r]|]; rewrite E; reflexivity.
Qed.

(* clues listed in strictly increasing cell order, starting at cell b or later *)
Fixpoint sorted_from (W : nat) (b : nat) (pos : list clue) : Prop :=
  match pos with
  | [] => True
  | c :: t => (b <= cidx W c)%nat /\ sorted_from W (S (cidx W c)) t
  end.

Lemma nth_set_nth_other {A} (l : list A) i j x d : i <> j -> nth j (set_nth l i x) d = nth j l d.
Proof.
  revert i j; induction l as [|a l IH]; intros [|i] [|j] H; simpl; auto; try congruence.
Qed.

Lemma clue_at_idx H W c : in_board H W c -> (0 < W)%nat ->
  clue_at (Z.of_nat W) (Z.of_nat (cidx W c)) (ctup c) = c.
Proof.
  destruct c as [[y x] [[[u l] d] r]]. intros [Hy Hx] HW. unfold cidx, ctup, clue_at.
  rewrite Nat2Z.inj_add, Nat2Z.inj_mul. rewrite !Z2Nat.id by lia.
  set (w := Z.of_nat W) in *.
  assert (Hd : (y * w + x) / w = y).
  { rewrite Z.div_add_l by lia. rewrite Z.div_small by lia. lia. }
  assert (Hm : (y * w + x) mod w = x).
  { rewrite Z.add_comm. rewrite Z.mod_add by lia. apply Z.mod_small. lia. }
  rewrite Hd, Hm. reflexivity.
Qed.

Lemma read_place H W pos : Forall (in_board H W) pos -> (0 < W)%nat ->
  forall L b, length L = (H * W)%nat -> (forall j, (b <= j)%nat -> nth j L None = None) -> sorted_from W b pos ->
  read_cells (Z.of_nat W) (place_cells W pos L) 0 = read_cells (Z.of_nat W) L 0 ++ pos.
Proof.
  induction 1 as [|c pos Hc Hpos IH]; intros HW L b HL HN Hs; simpl.
  - rewrite app_nil_r. reflexivity.
  - destruct Hs as [Hb Hs].
    assert (Hi : (cidx W c < length L)%nat).
    { rewrite HL. destruct c as [[y x] ?]. destruct Hc as [Hy Hx]. unfold cidx.
      assert (Z.to_nat y < H)%nat by lia. assert (Z.to_nat x < W)%nat by lia. nia. }
    rewrite (IH HW (set_nth L (cidx W c) (Some (ctup c))) (S (cidx W c))); auto.
    + rewrite read_set_nth; auto.
      * rewrite Z.add_0_l. rewrite (clue_at_idx H W c Hc HW). rewrite <- app_assoc. reflexivity.
      * intros j Hj. apply HN. lia.
    + rewrite set_nth_length. exact HL.
    + intros j Hj. rewrite nth_set_nth_other by lia. apply HN. lia.
Qed.

(* ------------------------------------------------------------------ compass round trip *)
Definition compass_clues_ok (h w : Z) (pos : list clue) : Prop :=
  Forall (in_board (Z.to_nat h) (Z.to_nat w)) pos /\ Forall clue_ok pos /\ sorted_from (Z.to_nat w) 0 pos.

Lemma has_clue_nonempty l : has_clue l = true -> l <> [].
Proof. destruct l; [discriminate|discriminate]. Qed.

Theorem compass_roundtrip_proof h w pos : 0 <= h -> 0 <= w -> compass_clues_ok h w pos ->
  exists body, to_puzz_link_url h w pos = Ok (make_url default_prefix ["c"; "o"; "m"; "p"; "a"; "s"; "s"]%char h w body) /\
               parse_puzz_link_url (make_url default_prefix ["c"; "o"; "m"; "p"; "a"; "s"; "s"]%char h w body) = Ok (h, w, pos).
Proof.
  intros Hh Hw (Hin & Hok & Hs).
  set (H := Z.to_nat h) in *. set (W := Z.to_nat w) in *.
  destruct (compass_place_flat H W pos Hin (none_grid h w) (rect_none_grid h w)) as (g & Eg & Hg & Hc).
  unfold none_grid in Hc. fold H W in Hc. rewrite concat_repeat in Hc.
  change (repeat VNone (H * W)) with (repeat (cpv None) (H * W)) in Hc. rewrite <- map_repeat' in Hc.
  rewrite place_cells_map in Hc.
  set (cells := place_cells W pos (repeat None (H * W))) in *.
  assert (Hcells : Forall cell_ok cells).
  { apply place_cells_ok; auto. apply Forall_forall. intros c Hc'. apply repeat_spec in Hc'. subst. exact I. }
  assert (Hbody : compass_body h w pos = Ok (enc_cells cells 0)).
  { unfold compass_body. rewrite Eg. simpl. unfold encode_array.
    change (str_find marker_g BASE36 0) with (@Ok Z 16). simpl.
    assert (Hl : forallb is_list (map VList g) = true).
    { apply forallb_forall. intros v Hv. apply in_map_iff in Hv as (r & <- & _). reflexivity. }
    rewrite Hl. simpl.
    assert (Hsum : forall rows, py_sum_lists (map VList rows) = Ok (concat rows)).
    { induction rows as [|r rows IH]; simpl; [reflexivity|]. rewrite IH. reflexivity. }
    rewrite Hsum. simpl. rewrite Hc. apply ea_loop_enc; [exact Hcells|lia]. }
  exists (enc_cells cells 0). split.
  - unfold to_puzz_link_url. rewrite Hbody. reflexivity.
  - unfold parse_puzz_link_url.
    change (make_url default_prefix ["c"; "o"; "m"; "p"; "a"; "s"; "s"]%char h w (enc_cells cells 0))
      with (compass_prefix ++ py_str_int w ++ slash ++ py_str_int h ++ slash ++ enc_cells cells 0).
    destruct (compass_url_fields h w (enc_cells cells 0) Hh Hw) as (r1 & F1 & F2 & F3).
    rewrite F1, F2, F3.
    destruct (str_nat_digits w Hw) as (_ & _ & Ew). destruct (str_nat_digits h Hh) as (_ & _ & Eh).
    rewrite Ew, Eh. cbn [bind].
    assert (Hlen : length cells = (H * W)%nat).
    { unfold cells. rewrite place_cells_length. apply repeat_length. }
    assert (Hw0 : has_clue cells = true -> 0 < w).
    { intros Hc0. apply has_clue_nonempty in Hc0. destruct (Z.eq_dec w 0) as [->|]; [|lia].
      change (Z.to_nat 0) with 0%nat in W.
      subst W. rewrite Nat.mul_0_r in Hlen. destruct cells; [congruence|discriminate]. }
    rewrite (parse_cells h w cells Hcells Hw0 0 0 (S (length (enc_cells cells 0)))) by (try lia; rewrite Hlen; unfold H, W; nia).
    cbn [bind]. rewrite Z.add_0_l. destruct pos as [|c0 pos'].
    + unfold cells. simpl. rewrite (read_all_none w) by (intros i; apply nth_repeat). reflexivity.
    + assert (HW : (0 < W)%nat).
      { inversion Hin as [|? ? Hc0 _]; subst. destruct c0 as [[y x] ?]. destruct Hc0 as [_ Hx]. lia. }
      replace w with (Z.of_nat W) by (unfold W; lia).
      unfold cells. rewrite (read_place H W (c0 :: pos') Hin HW _ 0%nat); auto.
      * rewrite (read_all_none (Z.of_nat W)) by (intros i; apply nth_repeat). replace (Z.of_nat W) with w by (unfold W; lia). reflexivity.
      * apply repeat_length.
      * intros j _. apply nth_repeat.
Qed.
