(* Python error points: a result monad carrying the exception class Python raises. *)
From Coq Require Import ZArith List.
Import ListNotations.

Inductive pyerr :=
  | IndexError | KeyError | AssertionError | TypeError | ValueError
  | RecursionError | NotImplementedErr | OtherError.

Inductive res (A : Type) := Ok (a : A) | Err (e : pyerr).
Arguments Ok {A} a.
Arguments Err {A} e.

Definition bind {A B} (r : res A) (f : A -> res B) : res B :=
  match r with Ok a => f a | Err e => Err e end.

Definition rmap {A B} (f : A -> B) (r : res A) : res B :=
  match r with Ok a => Ok (f a) | Err e => Err e end.

Declare Scope res_scope.
Delimit Scope res_scope with res.
Notation "'let*' x ':=' c1 'in' c2" := (bind c1 (fun x => c2))
  (at level 61, x pattern, c1 at next level, right associativity) : res_scope.
Notation "'let*' ' x ':=' c1 'in' c2" := (bind c1 (fun x => c2))
  (at level 61, x pattern, c1 at next level, right associativity) : res_scope.

(* mapM over lists, left to right (first error wins, as a Python loop would) *)
Fixpoint mapM {A B} (f : A -> res B) (l : list A) : res (list B) :=
  match l with
  | [] => Ok []
  | x :: xs => bind (f x) (fun y => bind (mapM f xs) (fun ys => Ok (y :: ys)))
  end.

Definition pyerr_code (e : pyerr) : nat :=
  match e with
  | IndexError => 1 | KeyError => 2 | AssertionError => 3 | TypeError => 4
  | ValueError => 5 | RecursionError => 6 | NotImplementedErr => 7 | OtherError => 8
  end.

Lemma mapM_ok_length {A B} (f : A -> res B) l r :
  mapM f l = Ok r -> length r = length l.
Proof.
  revert r; induction l as [|x xs IH]; simpl; intros r H.
  - inversion H; reflexivity.
  - destruct (f x); simpl in H; try discriminate.
    destruct (mapM f xs); simpl in H; try discriminate.
    inversion H; subst; simpl; f_equal; apply IH; reflexivity.
Qed.

Lemma mapM_all_ok {A B} (f : A -> res B) (g : A -> B) l :
  (forall x, In x l -> f x = Ok (g x)) -> mapM f l = Ok (map g l).
Proof.
  induction l as [|x xs IH]; simpl; intros H; [reflexivity|].
  rewrite (H x (or_introl eq_refl)); simpl.
  rewrite IH by (intros y Hy; apply H; right; exact Hy). reflexivity.
Qed.

Lemma mapM_ext {A B} (f g : A -> res B) l :
  (forall x, In x l -> f x = g x) -> mapM f l = mapM g l.
Proof.
  induction l as [|x xs IH]; simpl; intros H; [reflexivity|].
  rewrite (H x (or_introl eq_refl)).
  rewrite IH by (intros y Hy; apply H; right; exact Hy). reflexivity.
Qed.
