(* Reference side of the text protocol, written from the Sugar CSP syntax
   (http://bach.istc.kobe-u.ac.jp/sugar/) and from
   sugar_extension/CspuzSugarInterface.java -- NOT from the Python printer:
   tokenizer, S-expression parser, meaning of Sugar expressions, declarations,
   and a transcription of loadProblem() / the println sequence of run().
   Definitions only (no proofs). *)
From Coq Require Import ZArith List Bool String Ascii DecimalString.
From Cspuz Require Import Core.Expr Backend.SugarText.
Import ListNotations.
Open Scope string_scope.

(* ---- tokenizer: whitespace (codes <= 32) separates, parentheses stand alone,
   every other maximal run of characters is one atom ---- *)
Inductive token := TLP | TRP | TAtom (s : string).
Inductive sexp := SAtom (s : string) | SList (l : list sexp).

Definition is_blank (c : ascii) : bool := Nat.leb (nat_of_ascii c) 32.
Definition emit_atom (cur : string) (l : list token) : list token :=
  match cur with "" => l | _ => TAtom cur :: l end.
Fixpoint lex (cur : string) (s : string) : list token :=
  match s with
  | "" => emit_atom cur []
  | String c r =>
      if is_blank c then emit_atom cur (lex "" r)
      else if Ascii.eqb c "(" then emit_atom cur (TLP :: lex "" r)
      else if Ascii.eqb c ")" then emit_atom cur (TRP :: lex "" r)
      else lex (cur ++ String c "") r
  end.

(* parser: a file is a sequence of expressions.  [cur] holds the items of the
   list being read, most recent first; [stack] the enclosing unfinished lists *)
Fixpoint parse_stack (stack : list (list sexp)) (cur : list sexp) (toks : list token)
  : option (list sexp) :=
  match toks with
  | [] => match stack with [] => Some (List.rev cur) | _ => None end
  | TLP :: r => parse_stack (cur :: stack) [] r
  | TRP :: r => match stack with
                | [] => None
                | top :: st => parse_stack st (SList (List.rev cur) :: top) r
                end
  | TAtom a :: r => parse_stack stack (SAtom a :: cur) r
  end.
Definition sx_parse_all (s : string) : option (list sexp) := parse_stack [] [] (lex "" s).
Definition sx_parse (s : string) : option sexp :=
  match sx_parse_all s with Some [x] => Some x | _ => None end.

(* ---- meaning ---- *)
(* integer atom: -?[0-9]+ *)
Definition int_atom (s : string) : option Z := option_map Z.of_int (NilZero.int_of_string s).

Definition sum_ints (l : list value) : option Z := option_map zsum (as_ints l).

(* Sugar's operators (symbolic and alphabetic spellings).  [vs] are the
   meanings of the operands; the two cspuz graph extensions get theirs from
   [gsem] (their specification) and may have unspecified ( * ) operands. *)
Definition sugar_apply (gsem : op -> list (option value) -> option bool)
           (f : string) (ovs : list (option value)) : option value :=
  if String.eqb f "graph-active-vertices-connected" then option_map VB (gsem G_AVC ovs)
  else if String.eqb f "graph-division" then option_map VB (gsem G_DIV ovs)
  else
  match all_some ovs with
  | None => None
  | Some vs =>
    if String.eqb f "-" || String.eqb f "neg" || String.eqb f "sub" then
      match vs with
      | [VI a] => if String.eqb f "sub" then Some (VI a) else Some (VI (- a))
      | VI a :: r => if String.eqb f "neg" then None else option_map (fun s => VI (a - s)) (sum_ints r)
      | _ => None
      end
    else if String.eqb f "+" || String.eqb f "add" then option_map VI (sum_ints vs)
    else if String.eqb f "=" || String.eqb f "eq" then
      match vs with [VI a; VI b] => Some (VB (a =? b)%Z) | _ => None end
    else if String.eqb f "!=" || String.eqb f "ne" then
      match vs with [VI a; VI b] => Some (VB (negb (a =? b)%Z)) | _ => None end
    else if String.eqb f "<=" || String.eqb f "le" then
      match vs with [VI a; VI b] => Some (VB (a <=? b)%Z) | _ => None end
    else if String.eqb f "<" || String.eqb f "lt" then
      match vs with [VI a; VI b] => Some (VB (a <? b)%Z) | _ => None end
    else if String.eqb f ">=" || String.eqb f "ge" then
      match vs with [VI a; VI b] => Some (VB (b <=? a)%Z) | _ => None end
    else if String.eqb f ">" || String.eqb f "gt" then
      match vs with [VI a; VI b] => Some (VB (b <? a)%Z) | _ => None end
    else if String.eqb f "!" || String.eqb f "not" then
      match vs with [VB a] => Some (VB (negb a)) | _ => None end
    else if String.eqb f "&&" || String.eqb f "and" then
      option_map (fun bs => VB (forallb (fun b => b) bs)) (as_bools vs)
    else if String.eqb f "||" || String.eqb f "or" then
      option_map (fun bs => VB (existsb (fun b => b) bs)) (as_bools vs)
    else if String.eqb f "iff" then
      match vs with [VB a; VB b] => Some (VB (Bool.eqb a b)) | _ => None end
    else if String.eqb f "xor" then
      match vs with [VB a; VB b] => Some (VB (xorb a b)) | _ => None end
    else if String.eqb f "=>" || String.eqb f "imp" then
      match vs with [VB a; VB b] => Some (VB (implb a b)) | _ => None end
    else if String.eqb f "if" then
      match vs with [VB c; VI t; VI e] => Some (VI (if c then t else e)) | _ => None end
    else if String.eqb f "alldifferent" then
      option_map (fun zs => VB (distinct zs)) (as_ints vs)
    else None
  end.

Section Sem.
  Variable gsem : op -> list (option value) -> option bool.
  (* a Sugar assignment: declared name -> value *)
  Variable rho : string -> option value.

  Fixpoint sugar_sem (x : sexp) : option value :=
    match x with
    | SAtom a =>
        if String.eqb a "true" then Some (VB true)
        else if String.eqb a "false" then Some (VB false)
        else match int_atom a with
             | Some z => Some (VI z)
             | None => rho a
             end
    | SList [] => None
    | SList (SAtom f :: args) => sugar_apply gsem f (map sugar_sem args)
    | SList (SList _ :: _) => None
    end.
End Sem.

(* ---- declarations: (int NAME LO HI) / (bool NAME) ---- *)
Inductive sdecl := SDBool (name : string) | SDInt (name : string) (lo hi : Z).
Definition decl_of_sexp (x : sexp) : option sdecl :=
  match x with
  | SList [SAtom k; SAtom name] => if String.eqb k "bool" then Some (SDBool name) else None
  | SList [SAtom k; SAtom name; SAtom lo; SAtom hi] =>
      if String.eqb k "int" then
        match int_atom lo, int_atom hi with
        | Some l, Some h => Some (SDInt name l h)
        | _, _ => None
        end
      else None
  | _ => None
  end.
Definition is_decl (x : sexp) : bool :=
  match x with
  | SList (SAtom k :: _) => String.eqb k "int" || String.eqb k "bool"
  | _ => false
  end.

(* ---- CspuzSugarInterface.loadProblem ---- *)
Record jproblem := {
  j_problem : list sexp;          (* parser.parse() *)
  j_ints : list string;           (* intVars  *)
  j_bools : list string;          (* boolVars *)
  j_keys : option (list string)   (* answerKeys (null = answer finder mode) *)
}.

Definition starts_hash (l : string) : bool :=
  match l with String c _ => Ascii.eqb c "#" | "" => false end.

(* the last line starting with '#' wins (the loop overwrites answerKeys) *)
Fixpoint last_key_line (lines : list string) (acc : option (list string)) : option (list string) :=
  match lines with
  | [] => acc
  | l :: r => if starts_hash l then last_key_line r (Some (split_on ch_sp (drop 1 l)))
              else last_key_line r acc
  end.

(* names declared by (int NAME ...) / (bool NAME ...) sequences, in file order;
   None where the Java casts would throw *)
Fixpoint decl_names (kind : string) (p : list sexp) : option (list string) :=
  match p with
  | [] => Some []
  | SList (SAtom k :: rest) :: r =>
      if String.eqb k kind then
        match rest with
        | SAtom name :: _ => option_map (cons name) (decl_names kind r)
        | _ => None
        end
      else decl_names kind r
  | SList _ :: _ => None
  | SAtom _ :: r => decl_names kind r
  end.

Definition java_load_lines (lines : list string) : option jproblem :=
  let body := join s_nl (filter (fun l => negb (starts_hash l)) lines) in
  match sx_parse_all body with
  | None => None
  | Some p =>
      match decl_names "int" p, decl_names "bool" p with
      | Some is, Some bs =>
          Some {| j_problem := p; j_ints := is; j_bools := bs; j_keys := last_key_line lines None |}
      | _, _ => None
      end
  end.
Definition java_load (text : string) : option jproblem := java_load_lines (split_on ch_nl text).

(* ---- run(): the lines printed, each followed by a line separator ---- *)
(* [unlines] (Backend/SugarText.v): each println appends the line separator *)

Definition show_int (rho : string -> option value) (name : string) : option string :=
  match rho name with Some (VI z) => Some (pz z) | _ => None end.
Definition show_bool (rho : string -> option value) (name : string) : option string :=
  match rho name with Some (VB b) => Some (if b then "true" else "false") | _ => None end.

Fixpoint opt_all {A} (l : list (option A)) : option (list A) :=
  match l with
  | [] => Some []
  | None :: _ => None
  | Some a :: r => option_map (cons a) (opt_all r)
  end.

(* answer finder mode; [sat] = Some assignment when the CSP is satisfiable *)
Definition format_answer (jp : jproblem) (sat : option (string -> option value)) : option string :=
  match sat with
  | None => Some (unlines ["s UNSATISFIABLE"])
  | Some rho =>
      match opt_all (map (fun n => option_map (fun v => "a " ++ n ++ s_tab ++ v) (show_int rho n)) (j_ints jp)),
            opt_all (map (fun n => option_map (fun v => "a " ++ n ++ s_tab ++ v) (show_bool rho n)) (j_bools jp)) with
      | Some li, Some lb => Some (unlines (["s SATISFIABLE"] ++ li ++ lb ++ ["a"]))
      | _, _ => None
      end
  end.

Definition mem_str (s : string) (l : list string) : bool := existsb (String.eqb s) l.

(* deduction mode; [rho] = the first model (answerInt/answerBool), [nr name] =
   notRefuted at loop exit.  Printed: keys that were never refuted. *)
Definition format_deduction (jp : jproblem) (keys : list string)
           (sat : option ((string -> option value) * (string -> bool))) : option string :=
  match sat with
  | None => Some (unlines ["unsat"])
  | Some (rho, nr) =>
      let sel := filter (fun n => mem_str n keys && nr n) in
      match opt_all (map (fun n => option_map (fun v => n ++ " " ++ v) (show_int rho n)) (sel (j_ints jp))),
            opt_all (map (fun n => option_map (fun v => n ++ " " ++ v) (show_bool rho n)) (sel (j_bools jp))) with
      | Some li, Some lb => Some (unlines (["sat"] ++ li ++ lb))
      | _, _ => None
      end
  end.

(* run(): dispatch on answerKeys *)
Definition java_reply (jp : jproblem)
           (sat : option ((string -> option value) * (string -> bool))) : option string :=
  match j_keys jp with
  | None => format_answer jp (option_map fst sat)
  | Some keys => format_deduction jp keys sat
  end.

(* ---- the Sugar-side reading of a whole problem ---- *)
Definition sugar_decls (p : list sexp) : list (option sdecl) :=
  map decl_of_sexp (filter is_decl p).
Definition sugar_constraints (p : list sexp) : list sexp := filter (fun x => negb (is_decl x)) p.
