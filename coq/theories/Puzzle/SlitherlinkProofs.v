(* C11 Tier 1 - slitherlink: for every board shape (height, width >= 0) and every clue layout, the program
   posted by solve_slitherlink (model Slitherlink.v: the single-cycle helper of property C06 on the frame, one
   count constraint per numbered cell) has a model reading as [ans] on the frame exactly when [ans] obeys
   Rules_slitherlink.  The graph side is CycleCompose.cycle_frame_compose. *)
From Coq Require Import ZArith List Bool Arith Lia.
From Cspuz Require Import Lib.PyErr Core.Expr Core.Program Graph.GraphModel Graph.Cycle
     Puzzle.PuzzleBase Puzzle.SatAbs Puzzle.ModelBase Puzzle.ModelLemmas
     Puzzle.CycleFrameBase Puzzle.CycleCompose Puzzle.Rules_slitherlink Puzzle.Slitherlink.
Import ListNotations.
Local Open Scope nat_scope.

Notation b2z := PuzzleBase.b2z.

(* the rule "a number says how many of the four sides of its cell are drawn", as a function of the answer *)
Definition slither_local (h w : nat) (clues : list Z) (ans : answer) : bool :=
  let on := fun k => isb (getz ans k) in
  forallb (fun '(y, x) =>
             let c := at2 clues w y x in
             (c <? 0)%Z ||
             (zcount on [hseg (S h) (S w) y x; hseg (S h) (S w) (S y) x;
                         vseg (S h) (S w) y x; vseg (S h) (S w) y (S x)] =? c)%Z)
          (cells h w).

Lemma hseg_hid h w y x : hseg (S h) (S w) y x = frame_hid h w y x.
Proof. unfold hseg, frame_hid. replace (S w - 1) with w by lia. reflexivity. Qed.
Lemma vseg_vid h w y x : vseg (S h) (S w) y x = frame_vid h w y x.
Proof. unfold vseg, frame_vid. replace (S w - 1) with w by lia. reflexivity. Qed.
Lemma n_lattice_frame h w : n_lattice_edges (S h) (S w) = frame_n h w.
Proof. unfold n_lattice_edges, frame_n. replace (S w - 1) with w by lia. replace (S h - 1) with h by lia. reflexivity. Qed.

Lemma cell_neighbor_ids_lt h w y x k :
  y < h -> x < w -> In k (cell_neighbor_ids h w y x) -> k < frame_n h w.
Proof.
  intros Hy Hx Hin. unfold cell_neighbor_ids, frame_hid, frame_vid, frame_n in *. simpl in Hin.
  destruct Hin as [<-|[<-|[<-|[<-|[]]]]]; nia.
Qed.

Lemma slither_dims h w (rest : list (list Z)) :
  dim ([Z.of_nat h; Z.of_nat w] :: rest) 0 = h /\ dim ([Z.of_nat h; Z.of_nat w] :: rest) 1 = w.
Proof. unfold dim, zn, getz, sec; simpl. rewrite !Nat2Z.id. split; reflexivity. Qed.

(* the clue constraints say exactly slither_local on the reading of the frame variables *)
Lemma slither_clues_core h w clues en :
  slither_local h w clues (map (fun i => b2z (eb en i)) (seq 0 (frame_n h w))) =
  forallb (holds no_graph en) (slitherlink_constraints h w clues).
Proof.
  unfold slither_local, slitherlink_constraints. rewrite forallb_flat_map.
  apply forallb_ext_in. intros [y x] Hc. apply cells_in in Hc. destruct Hc as [Hy Hx].
  unfold slither_clue. destruct (at2 clues w y x <? 0)%Z; [reflexivity|].
  cbn [forallb orb]. rewrite andb_true_r, holds_ct_eq, !hseg_hid, !vseg_vid.
  fold (cell_neighbor_ids h w y x). unfold zcount.
  rewrite (count_ext_in _ (eb en) (cell_neighbor_ids h w y x)); [reflexivity|].
  intros k Hk. rewrite getz_map_seq by (eapply cell_neighbor_ids_lt; eassumption). apply b2z_isb.
Qed.

Theorem slitherlink_exact h w clues st ans :
  solve_slitherlink_model [[Z.of_nat h; Z.of_nat w]; clues] = Ok st ->
  ((exists en, model_of no_graph en st /\ reads st en (seq 0 (S h * w + h * S w)) = ans)
   <-> rules_slitherlink [[Z.of_nat h; Z.of_nat w]; clues] ans = true).
Proof.
  unfold solve_slitherlink_model, rules_slitherlink.
  change (sec [[Z.of_nat h; Z.of_nat w]; clues] 1) with clues.
  change (sec [[Z.of_nat h; Z.of_nat w]; clues] 0) with [Z.of_nat h; Z.of_nat w].
  change (getz [Z.of_nat h; Z.of_nat w] 0) with (Z.of_nat h).
  change (getz [Z.of_nat h; Z.of_nat w] 1) with (Z.of_nat w).
  destruct (slither_dims h w [clues]) as [-> ->].
  replace ((Z.of_nat h <? 0) || (Z.of_nat w <? 0))%Z with false
    by (symmetry; apply orb_false_iff; split; apply Z.ltb_ge; lia).
  destruct (frame_cycle h w) as [[st1 res]|e] eqn:Hcall; [|discriminate].
  destruct (Nat.ltb (length clues) (h * w)); [discriminate|].
  intros Hst. inversion Hst; subst st. clear Hst.
  destruct (cycle_frame_compose no_graph h w (slitherlink_constraints h w clues) (slither_local h w clues)
              st1 res ans Hcall (fun en _ => slither_clues_core h w clues en)) as [_ EX].
  change (S h * w + h * S w) with (frame_n h w). rewrite EX, n_lattice_frame. reflexivity.
Qed.

(* the model accepts every problem with enough clue entries (the premise of slitherlink_exact is satisfiable) *)
Lemma slitherlink_model_total h w clues :
  h * w <= length clues -> exists st, solve_slitherlink_model [[Z.of_nat h; Z.of_nat w]; clues] = Ok st.
Proof.
  intros Hl. unfold solve_slitherlink_model.
  change (sec [[Z.of_nat h; Z.of_nat w]; clues] 1) with clues.
  change (sec [[Z.of_nat h; Z.of_nat w]; clues] 0) with [Z.of_nat h; Z.of_nat w].
  change (getz [Z.of_nat h; Z.of_nat w] 0) with (Z.of_nat h).
  change (getz [Z.of_nat h; Z.of_nat w] 1) with (Z.of_nat w).
  destruct (slither_dims h w [clues]) as [-> ->].
  replace ((Z.of_nat h <? 0) || (Z.of_nat w <? 0))%Z with false
    by (symmetry; apply orb_false_iff; split; apply Z.ltb_ge; lia).
  destruct (frame_cycle_ok h w) as [st1 [rest [Hc _]]]. rewrite Hc.
  replace (Nat.ltb (length clues) (h * w)) with false by (symmetry; apply Nat.ltb_ge; exact Hl).
  eexists. reflexivity.
Qed.

Example slitherlink_model_ok : exists st, solve_slitherlink_model [[1; 1]; [2]]%Z = Ok st.
Proof. apply (slitherlink_model_total 1 1 [2%Z]). simpl. lia. Qed.

(* the unit square: the loop around the only cell is the unique answer for the clue 4, and drawing nothing the
   unique answer for the clue 0 *)
Example slitherlink_rules_unit :
  rules_slitherlink [[1; 1]; [4]]%Z [1; 1; 1; 1]%Z = true /\ rules_slitherlink [[1; 1]; [4]]%Z [0; 0; 0; 0]%Z = false /\
  rules_slitherlink [[1; 1]; [0]]%Z [0; 0; 0; 0]%Z = true /\ rules_slitherlink [[1; 1]; [2]]%Z [1; 1; 0; 0]%Z = false.
Proof. vm_compute. repeat split. Qed.
