Require Extraction.
Require Import ExtrOcamlBasic.
(* Coq's [string] would be extracted as a type named string and shadow OCaml's own in the shared
   zutil.ml; the standard ExtrOcamlString maps ascii -> char, string -> char list *)
Require Import ExtrOcamlString.
From Coq Require Import ZArith List String.
Require Import Cspuz.Lib.PyErr Cspuz.Backend.Config Cspuz.Gen.ConfigTables .
Definition the_tables : Config.tables := ConfigTables.tables.
Extraction "model.ml" Z.add Nat.add pyerr_code the_tables
  strtobool detect_backend config_of_env env_of_list avail_of_list
  backend_by_name get_backend solve_receiver resolve_primitive emits.
