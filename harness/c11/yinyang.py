"""C11 plug-in: yinyang (solve_yinyang(height, width, problem)); 0 empty, 1 white, 2 black."""
import c11lib as L

NAME = "yinyang"
MODULE = "cspuz.puzzle.yinyang"
FUNC = "solve_yinyang"
VALUES = [0, 1, 2]


def call(mod, pb):
    return mod.solve_yinyang(pb["h"], pb["w"], pb["grid"])


def ncand(pb):
    return 2 ** (pb['h'] * pb['w'])


def encode(pb):
    return [[pb["h"], pb["w"]], L.flat(pb["grid"])]


def families(tier, rng):
    th = tier == "thorough"
    for (h, w) in [(1, 1), (1, 2), (2, 1), (1, 3), (3, 1), (2, 2), (1, 4), (4, 1)] + ([(2, 3), (3, 2)] if th else []):
        for g in L.all_grids(h, w, VALUES):
            yield {"h": h, "w": w, "grid": g}
    for (h, w) in [(2, 3), (3, 2), (3, 3), (2, 4), (4, 2), (3, 4), (4, 4), (2, 5)]:
        for _ in range(200 if th else 25):
            yield {"h": h, "w": w, "grid": L.random_grid(rng, h, w, VALUES, 0.7)}


def tier2(tier, rng):
    th = tier == "thorough"
    for (h, w) in [(1, 1), (1, 2), (2, 1)]:
        for g in L.all_grids(h, w, VALUES):
            yield {"h": h, "w": w, "grid": g}
    for g in L.sample(rng, L.all_grids(2, 2, VALUES), 30 if th else 4):
        yield {"h": 2, "w": 2, "grid": g}
