"""C11 plug-in: masyu (solve_masyu(height, width, problem)); 0 none, 1 white circle, 2 black circle."""
import c11lib as L

NAME = "masyu"
MODULE = "cspuz.puzzle.masyu"
FUNC = "solve_masyu"
LOOP = True
VALUES = [0, 1, 2]
TIER1 = ("Masyu", "solve_masyu_model")
TIER1_PRIM = ("MasyuPrim", "solve_masyu_model_prim")


def call(mod, pb):
    return mod.solve_masyu(pb["h"], pb["w"], pb["grid"])


def ncand(pb):
    return 2 ** L.n_loop_edges(pb['h'], pb['w'])


def encode(pb):
    return [[pb["h"], pb["w"]], L.flat(pb["grid"])]


def families(tier, rng):
    th = tier == "thorough"
    for (h, w) in [(1, 1), (1, 2), (2, 1), (2, 2), (1, 3), (3, 1)] + ([(2, 3), (3, 2)] if th else []):
        for g in L.all_grids(h, w, VALUES):
            yield {"h": h, "w": w, "grid": g}
    if not th:
        for (h, w) in [(2, 3), (3, 2)]:
            for g in L.sample(rng, L.all_grids(h, w, VALUES), 60):
                yield {"h": h, "w": w, "grid": g}
    for (h, w) in [(3, 3), (2, 4), (4, 2), (2, 5)] + ([(3, 4), (4, 3)] if th else []):
        for _ in range(150 if th else 25):
            yield {"h": h, "w": w, "grid": L.random_grid(rng, h, w, VALUES, 0.6)}


def tier2(tier, rng):
    for (h, w) in [(1, 1), (1, 2), (2, 1)]:
        for g in L.all_grids(h, w, VALUES):
            yield {"h": h, "w": w, "grid": g}
    for g in L.sample(rng, L.all_grids(2, 2, VALUES), 40 if tier == "thorough" else 6):
        yield {"h": 2, "w": 2, "grid": g}


def tier1_problems(tier, rng):
    """program-capture tie: every circle layout of the boards with <= 4 cells (values 0, 1, 2 and the out-of-alphabet 3 on the
    boards with <= 3 cells), all layouts (thorough) or a sample (quick) of the boards with 5..6 cells (both orientations), random
    layouts on larger and non-square boards (up to 7x7, 1xN, Nx1; dense and sparse, all-white, all-black) with values beyond the
    alphabet (-1, 3, 7: no circle), and malformed problems: height <= 0 or width <= 0 (ValueError), trailing cells / rows
    missing (IndexError)"""
    th = tier == "thorough"
    wide = VALUES + [3]
    for (h, w) in [(1, 1), (1, 2), (2, 1), (1, 3), (3, 1)]:
        for g in L.all_grids(h, w, wide):
            yield {"h": h, "w": w, "grid": g}
    for (h, w) in [(2, 2), (1, 4), (4, 1)]:
        for g in L.all_grids(h, w, VALUES):
            yield {"h": h, "w": w, "grid": g}
    for (h, w) in [(1, 5), (5, 1), (2, 3), (3, 2), (1, 6), (6, 1)]:
        grids = L.all_grids(h, w, VALUES)
        for g in (grids if th else L.sample(rng, grids, 40)):
            yield {"h": h, "w": w, "grid": g}
    far = [-1, 0, 1, 1, 2, 2, 3, 7]
    for (h, w) in [(3, 3), (2, 4), (4, 2), (2, 5), (5, 2), (3, 4), (4, 3), (4, 4), (3, 6), (6, 3), (5, 5), (4, 6),
                   (6, 5), (7, 7), (1, 7), (7, 1), (1, 9), (8, 1), (2, 7), (7, 2)]:
        for p in [0.1, 0.5] * (3 if th else 1):
            yield {"h": h, "w": w, "grid": L.random_grid(rng, h, w, VALUES, p)}
        yield {"h": h, "w": w, "grid": [[rng.choice(far) for _ in range(w)] for _ in range(h)]}
        for v in ([1, 2] if th or h * w <= 16 else [rng.choice([1, 2])]):
            yield {"h": h, "w": w, "grid": [[v] * w for _ in range(h)]}
    # malformed: no row or no column -> ValueError (Array2D.__init__ for the frame of height - 1 x width - 1 cells)
    for (h, w) in [(0, 0), (0, 1), (1, 0), (0, 3), (3, 0), (0, 6), (5, 0), (-1, 0), (0, -1), (-1, 2), (2, -1), (-3, 1),
                   (1, -2), (-2, 0), (0, -4)]:
        yield {"h": h, "w": w, "grid": [[] for _ in range(max(h, 0))]}
    # malformed: trailing cells / rows missing -> IndexError (after the frame and the loop constraints were posted)
    for (h, w) in [(1, 1), (1, 3), (2, 2), (3, 2), (4, 4)]:
        g = L.random_grid(rng, h, w, VALUES, 0.5)
        yield {"h": h, "w": w, "grid": g[:-1] + [g[-1][:-1]]}
        yield {"h": h, "w": w, "grid": g[:-1]}
        yield {"h": h, "w": w, "grid": []}
