(* Body-level and URL-level round trip of yajilin's term
     YAJILIN_COMBINATOR = Grid(OneOf(YajilinClue(), Spaces("..", "a")))
   YajilinClue is a Combinator subclass ([Custom 0], Codec/Yajilin.v) outside C15's [wf]; the
   cell coder is shown here to satisfy the hypotheses of C15's generic Seq loop theorem
   (CombRoundTrip.seq_core) directly: every token it writes is read back whatever follows. *)
From Coq Require Import ZArith List Ascii Bool NArith Lia.
From Cspuz Require Import Lib.PyErr Codec.Comb Codec.CombWf Codec.CombBasics Codec.CombLeaf Codec.CombRoundTrip
  Codec.Legacy Codec.LegacyProofs Codec.Url Codec.UrlProofs Codec.Yajilin Codec.Puzzles Codec.SerChars Codec.PuzzleProofs.
Import ListNotations.
Local Open Scope Z_scope.

(* ------------------------------------------------------------------ the domain *)
(* a yajilin cell: ".." (no clue), "??" (clue without number), or an arrow character followed
   by the decimal text of a number 0..4095 *)
Definition yajilin_cell_ok (v : pv) : Prop :=
  v = VStr s_dotdot \/ v = VStr s_qq \/
  exists c d n, dir_code c = Ok d /\ 0 <= n <= 4095 /\ v = VStr (c :: py_str_int n).

Definition ycell : comb := OneOf [Custom 0%nat; Spaces (VStr s_dotdot) "a"%char].
Definition yterm : comb := Grid ycell None.

(* ------------------------------------------------------------------ direction characters *)
Lemma dir_code_inv c d : dir_code c = Ok d ->
  1 <= d <= 4 /\ dir_char d = c /\ ascii_eqb c "."%char = false /\ ascii_eqb c "?"%char = false.
Proof.
  unfold dir_code.
  destruct (ascii_eqb c "^"%char) eqn:E1; [apply ascii_eqb_eq in E1; subst; intros E; inversion E; subst; repeat split; (lia || reflexivity)|].
  destruct (ascii_eqb c "v"%char) eqn:E2; [apply ascii_eqb_eq in E2; subst; intros E; inversion E; subst; repeat split; (lia || reflexivity)|].
  destruct (ascii_eqb c "<"%char) eqn:E3; [apply ascii_eqb_eq in E3; subst; intros E; inversion E; subst; repeat split; (lia || reflexivity)|].
  destruct (ascii_eqb c ">"%char) eqn:E4; [apply ascii_eqb_eq in E4; subst; intros E; inversion E; subst; repeat split; (lia || reflexivity)|].
  discriminate.
Qed.

Definition dch (d : Z) : ascii := chr (48 + d).

Lemma dir_facts d : 1 <= d <= 4 ->
  py_str_int d = [dch d] /\ py_str_int (d + 5) = [dch (d + 5)] /\
  ascii_eqb (dch d) "-"%char = false /\ in_56789 (dch d) = false /\ in_1234 (dch d) = true /\
  ascii_eqb (dch d) "0"%char = false /\ ord (dch d) - 48 = d /\
  ascii_eqb (dch (d + 5)) "-"%char = false /\ in_56789 (dch (d + 5)) = true /\ chr (ord (dch (d + 5)) - 5) = dch d.
Proof.
  intros H. assert (Hd : d = 1 \/ d = 2 \/ d = 3 \/ d = 4) by lia.
  destruct Hd as [-> | [-> | [-> | ->]]]; vm_compute; repeat split; reflexivity.
Qed.

(* ------------------------------------------------------------------ one clue: text *)
Definition clue_text (d n : Z) : str :=
  if n <? 16 then dch d :: to_base 16 n
  else if n <? 256 then dch (d + 5) :: to_base 16 n
  else "-"%char :: dch d :: to_base 16 n.

Lemma py_str_int_nonneg n : 0 <= n -> py_str_int n = to_base 10 n.
Proof. intros H. unfold py_str_int. destruct (Z.ltb_spec n 0); [lia|reflexivity]. Qed.

(* YajilinClue.serialize on a clue with a number *)
Lemma yajilin_ser_clue l idx c d n :
  nth_error l idx = Some (VStr (c :: py_str_int n)) -> dir_code c = Ok d -> 0 <= n <= 4095 ->
  yajilin_ser (VList l) idx = Ok (Some (1%nat, clue_text d n)).
Proof.
  intros Hn Hd Hr. destruct (dir_code_inv c d Hd) as (Hd14 & _ & Hdot & Hq).
  destruct (dir_facts d Hd14) as (E1 & E2 & _).
  assert (Hlt : (idx < length l)%nat) by (apply nth_error_Some; congruence).
  unfold yajilin_ser. cbn [py_items bind].
  destruct (Nat.leb_spec (length l) idx); [lia|].
  unfold nth_res. rewrite Hn. cbn [bind].
  cbn [pv_eqb str_eqb s_dotdot s_qq]. rewrite Hdot, Hq. cbn [andb].
  rewrite Hd. cbn [bind].
  rewrite py_str_int_nonneg by lia. rewrite py_int_to_base by lia. cbn [bind].
  unfold clue_text. rewrite to_base16_nonneg by lia.
  destruct (Z.leb_spec 0 n); [|lia].
  destruct (Z.ltb_spec n 16); cbn [andb].
  { rewrite E1. reflexivity. }
  destruct (Z.leb_spec 16 n); [|lia]. destruct (Z.ltb_spec n 256); cbn [andb].
  { rewrite E2. reflexivity. }
  destruct (Z.leb_spec 256 n); [|lia]. destruct (Z.ltb_spec n 4096); [|lia]. cbn [andb].
  rewrite E1. reflexivity.
Qed.

(* the common tail of YajilinClue.deserialize on a direction digit and the hex digits of n *)
Lemma finish_clue nr d n : 1 <= d <= 4 -> 0 <= n ->
  yajilin_finish (dch d) (to_base 16 n) nr = Ok (Some (nr, [VStr (dir_char d :: py_str_int n)])) .
Proof.
  intros Hd Hn. destruct (dir_facts d Hd) as (_ & _ & _ & _ & F3 & F4 & F5 & _).
  unfold yajilin_finish. rewrite F4, F3. cbn [negb].
  destruct (to_base_spec 16 n) as (Hne & Hc & _); [lia|lia|].
  assert (Hs : str_eqb (to_base 16 n) ["."%char] = false).
  { destruct (to_base 16 n) as [|h t]; [congruence|]. cbn [forallb] in Hc. apply andb_true_iff in Hc as [Hh _].
    destruct (clean16_facts h Hh) as (_ & _ & _ & Hdot). cbn [str_eqb]. rewrite Hdot. reflexivity. }
  rewrite Hs. rewrite py_int_to_base by lia. cbn [bind].
  destruct (Z.ltb_spec n 0); [lia|]. rewrite F5. reflexivity.
Qed.

(* YajilinClue.deserialize reads a clue token back, whatever follows *)
Lemma yajilin_de_clue d n rest : 1 <= d <= 4 -> 0 <= n <= 4095 ->
  yajilin_de (clue_text d n ++ rest) = Ok (Some (length (clue_text d n), [VStr (dir_char d :: py_str_int n)])).
Proof.
  intros Hd Hn. destruct (dir_facts d Hd) as (_ & _ & F1 & F2 & _ & _ & _ & F6 & F7 & F8).
  pose proof (hex_len n Hn) as Hlen. unfold hex_len_of in Hlen.
  unfold clue_text. destruct (Z.ltb_spec n 16).
  - (* D H *)
    destruct (to_base 16 n) as [|h [|h2 t]] eqn:E; try discriminate.
    cbn [app length]. unfold yajilin_de. rewrite F1, F2. rewrite <- E. apply finish_clue; lia.
  - destruct (Z.ltb_spec n 256).
    + (* D+5 H H *)
      cbn [app length]. rewrite Hlen.
      destruct (to_base 16 n ++ rest) as [|c1 t1] eqn:E.
      { apply (f_equal (@length _)) in E. rewrite app_length, Hlen in E. discriminate. }
      unfold yajilin_de. rewrite F6, F7.
      assert (Hl : Nat.ltb (length (dch (d + 5) :: c1 :: t1)) 3 = false).
      { apply Nat.ltb_ge. apply (f_equal (@length _)) in E. rewrite app_length, Hlen in E. simpl in *. lia. }
      rewrite Hl. rewrite F8. rewrite <- E.
      replace 2%nat with (length (to_base 16 n)) at 1 by exact Hlen. rewrite firstn_app_exact.
      apply finish_clue; lia.
    + (* - D H H H *)
      cbn [app length]. rewrite Hlen.
      unfold yajilin_de. change (ascii_eqb "-"%char "-"%char) with true. cbv iota.
      assert (Hl : Nat.ltb (length ("-"%char :: dch d :: to_base 16 n ++ rest)) 5 = false).
      { apply Nat.ltb_ge. cbn [length]. rewrite app_length, Hlen. lia. }
      rewrite Hl.
      replace 3%nat with (length (to_base 16 n)) at 1 by exact Hlen. rewrite firstn_app_exact.
      apply finish_clue; lia.
Qed.

(* ------------------------------------------------------------------ a run character is not a clue *)
Lemma letter_not_clue v : 10 <= v < 36 ->
  ascii_eqb (base36_char v) "-"%char = false /\ in_56789 (base36_char v) = false /\
  ascii_eqb (base36_char v) "0"%char = false /\ in_1234 (base36_char v) = false.
Proof.
  intros H.
  assert (A : forallb (fun v => let ch := base36_char v in
              negb (ascii_eqb ch "-"%char) && negb (in_56789 ch) && negb (ascii_eqb ch "0"%char) && negb (in_1234 ch))
            (map Z.of_nat (seq 10 26)) = true) by (vm_compute; reflexivity).
  rewrite forallb_forall in A. specialize (A v).
  assert (Hin : In v (map Z.of_nat (seq 10 26))).
  { replace v with (Z.of_nat (Z.to_nat v)) by lia. apply in_map. apply in_seq. lia. }
  specialize (A Hin). cbv zeta in A.
  repeat (apply andb_true_iff in A as [A ?]).
  repeat match goal with H : negb _ = true |- _ => apply negb_true_iff in H end.
  auto.
Qed.

Lemma yajilin_de_letter v rest : 10 <= v < 36 -> yajilin_de (base36_char v :: rest) = Ok None.
Proof.
  intros H. destruct (letter_not_clue v H) as (L1 & L2 & L3 & L4).
  unfold yajilin_de. destruct rest as [|c1 t1]; [reflexivity|].
  rewrite L1, L2. unfold yajilin_finish. rewrite L3, L4. reflexivity.
Qed.

(* ------------------------------------------------------------------ the cell coder *)
Section Cell.
  Variables (h w : Z).
  Let e : env := cu_env yajilin_custom h w.

  Lemma spaces_wf : wf (Spaces (VStr s_dotdot) "a"%char) = true.
  Proof. reflexivity. Qed.

  Lemma ycell_ser_unfold data idx :
    ser e ycell data idx =
    match yajilin_ser data idx with
    | Err e' => Err e'
    | Ok (Some r) => Ok (Some r)
    | Ok None => match spaces_ser (VStr s_dotdot) "a"%char data idx with
                 | Err e' => Err e'
                 | Ok (Some r) => Ok (Some r)
                 | Ok None => Ok None
                 end
    end.
  Proof. reflexivity. Qed.

  Lemma ycell_de_unfold s :
    de e ycell s =
    match yajilin_de s with
    | Err e' => Err e'
    | Ok (Some r) => Ok (Some r)
    | Ok None => match spaces_de (VStr s_dotdot) "a"%char s with
                 | Err e' => Err e'
                 | Ok (Some r) => Ok (Some r)
                 | Ok None => Ok None
                 end
    end.
  Proof. reflexivity. Qed.

  (* what serialize does at a cell of the domain *)
  Lemma ycell_ser_cases d p v : nth_error d p = Some v -> yajilin_cell_ok v ->
    (v = VStr s_dotdot /\ yajilin_ser (VList d) p = Ok None) \/
    (v = VStr s_qq /\ ser e ycell (VList d) p = Ok (Some (1%nat, s_zero_dot))) \/
    (exists c dd n, dir_code c = Ok dd /\ 0 <= n <= 4095 /\ v = VStr (c :: py_str_int n) /\
                    ser e ycell (VList d) p = Ok (Some (1%nat, clue_text dd n))).
  Proof.
    intros Hn Hv.
    assert (Hlt : (p < length d)%nat) by (apply nth_error_Some; congruence).
    destruct Hv as [->|[->|(c & dd & n & Hd & Hr & ->)]].
    - left. split; [reflexivity|]. unfold yajilin_ser. cbn [py_items bind].
      destruct (Nat.leb_spec (length d) p); [lia|]. unfold nth_res. rewrite Hn. reflexivity.
    - right; left. split; [reflexivity|]. rewrite ycell_ser_unfold. unfold yajilin_ser. cbn [py_items bind].
      destruct (Nat.leb_spec (length d) p); [lia|]. unfold nth_res. rewrite Hn. reflexivity.
    - right; right. exists c, dd, n. repeat split; auto; try lia.
      rewrite ycell_ser_unfold. rewrite (yajilin_ser_clue d p c dd n Hn Hd Hr). reflexivity.
  Qed.

  (* round trip of one token, whatever text follows it *)
  Lemma ycell_rt d : Forall yajilin_cell_ok d ->
    forall p k s rest, ser e ycell (VList d) p = Ok (Some (k, s)) ->
    exists items, de e ycell (s ++ rest) = Ok (Some (length s, items))
      /\ firstn k items = firstn k (skipn p d) /\ (k <= length items)%nat
      /\ ((p + k < length d)%nat -> length items = k).
  Proof.
    intros Hall p k s rest Hser.
    destruct (nth_error d p) as [v|] eqn:Hn.
    2:{ exfalso. apply nth_error_None in Hn. rewrite ycell_ser_unfold in Hser.
        unfold yajilin_ser in Hser. cbn [py_items bind] in Hser.
        destruct (Nat.leb_spec (length d) p); [|lia].
        unfold spaces_ser, with_item in Hser. cbn [py_items] in Hser.
        destruct (Nat.eqb_spec p (length d)); [discriminate|].
        unfold nth_res in Hser. assert (Hn' : nth_error d p = None) by (apply nth_error_None; lia).
        rewrite Hn' in Hser. discriminate. }
    assert (Hv : yajilin_cell_ok v). { rewrite Forall_forall in Hall. apply Hall. eapply nth_error_In; eauto. }
    destruct (ycell_ser_cases d p v Hn Hv) as [(Ev & Hy)|[(Ev & Hs)|(c & dd & n & Hd & Hr & Ev & Hs)]].
    - (* a run of empty cells: Spaces *)
      rewrite ycell_ser_unfold, Hy in Hser.
      assert (Hsp : spaces_ser (VStr s_dotdot) "a"%char (VList d) p = Ok (Some (k, s))).
      { destruct (spaces_ser (VStr s_dotdot) "a"%char (VList d) p) as [[r|]|]; try discriminate. exact Hser. }
      destruct (spaces_ser_inv _ _ _ _ _ _ spaces_wf Hsp) as (l & _ & _ & Hk & Hrange & Es).
      change (spaces_offset "a"%char) with 9 in Hrange, Es.
      assert (Hfol : follow_ok (Spaces (VStr s_dotdot) "a"%char) rest) by (destruct rest; [exact I|reflexivity]).
      destruct (spaces_rt e (VStr s_dotdot) "a"%char spaces_wf d p k s rest Hsp I Hfol) as (items & Hde & H1 & H2 & H3).
      exists items. split; [|split; [exact H1|split; [exact H2|intros _; apply H3; exact I]]].
      rewrite ycell_de_unfold. subst s. cbn [app].
      rewrite yajilin_de_letter by lia. cbn [de app length] in Hde. rewrite Hde. reflexivity.
    - (* "??" *)
      rewrite Hs in Hser. inversion Hser; subst k s. exists [v]. subst v.
      split; [reflexivity|]. split; [|split; [simpl; lia|reflexivity]].
      symmetry. apply firstn1_skipn. exact Hn.
    - (* arrow and number *)
      rewrite Hs in Hser. inversion Hser; subst k s.
      destruct (dir_code_inv c dd Hd) as (Hd14 & Hdc & _).
      exists [v]. split; [|split; [|split; [simpl; lia|reflexivity]]].
      + rewrite ycell_de_unfold. rewrite (yajilin_de_clue dd n rest Hd14 Hr). rewrite Hdc, Ev. reflexivity.
      + symmetry. apply firstn1_skipn. exact Hn.
  Qed.

  (* serialization succeeds on every cell of the domain and stays inside the list *)
  Lemma ycell_total d : Forall yajilin_cell_ok d -> forall p, (p < length d)%nat ->
    exists ofs s, ser e ycell (VList d) p = Ok (Some (S ofs, s)) /\ (p + S ofs <= length d)%nat.
  Proof.
    intros Hall p Hp.
    destruct (nth_error d p) as [v|] eqn:Hn; [|apply nth_error_None in Hn; lia].
    assert (Hv : yajilin_cell_ok v). { rewrite Forall_forall in Hall. apply Hall. eapply nth_error_In; eauto. }
    destruct (ycell_ser_cases d p v Hn Hv) as [(Ev & Hy)|[(Ev & Hs)|(c & dd & n & Hd & Hr & Ev & Hs)]].
    - rewrite ycell_ser_unfold, Hy. unfold spaces_ser, with_item. cbn [py_items].
      destruct (Nat.eqb_spec p (length d)); [lia|]. unfold nth_res. rewrite Hn. subst v.
      change (pv_eqb (VStr s_dotdot) (VStr s_dotdot)) with true. cbn [negb].
      change (Z.to_nat (spaces_max "a"%char - 1)) with 25%nat. change (spaces_offset "a"%char) with 9.
      destruct (run_eq_spec (VStr s_dotdot) (skipn (S p) d) 25) as (_ & Hr1 & Hr2).
      rewrite skipn_length in Hr2.
      set (r := run_eq (VStr s_dotdot) (skipn (S p) d) 25) in *.
      rewrite to_base36_small by lia.
      exists r, [base36_char (9 + Z.of_nat (S r))]. split; [reflexivity|lia].
    - exists 0%nat, s_zero_dot. split; [exact Hs|lia].
    - exists 0%nat, (clue_text dd n). split; [exact Hs|lia].
  Qed.
End Cell.

(* ------------------------------------------------------------------ Seq.serialize's loop succeeds when every step does *)
Lemma seq_ser_loop_total serc n d : n = Z.of_nat (length d) ->
  (forall p, (p < length d)%nat -> exists ofs s, serc (VList d) p = Ok (Some (S ofs, s)) /\ (p + S ofs <= length d)%nat) ->
  forall fuel nr ret, (nr <= length d)%nat -> (length d - nr <= fuel)%nat ->
  exists s, seq_ser_loop serc n (VList d) fuel nr ret = Ok (Some s).
Proof.
  intros Hn Hstep. induction fuel as [|fuel IH]; intros nr ret Hnr Hfuel.
  - assert (nr = length d) by lia. subst nr. exists ret. simpl.
    destruct (Z.ltb_spec (Z.of_nat (length d)) n); [lia|]. rewrite Hn, Z.eqb_refl. reflexivity.
  - cbn [seq_ser_loop]. destruct (Z.ltb_spec (Z.of_nat nr) n).
    + destruct (Hstep nr ltac:(lia)) as (ofs & s & E & Hle). rewrite E. apply IH; lia.
    + assert (nr = length d) by lia. subst nr. exists ret. rewrite Hn, Z.eqb_refl. reflexivity.
Qed.

(* ------------------------------------------------------------------ Seq and Grid of yajilin cells *)
Lemma yseq_roundtrip h w cells : Forall yajilin_cell_ok cells ->
  let e := cu_env yajilin_custom h w in
  exists body,
    seq_ser (ser e ycell) (Z.of_nat (length cells)) (VList [VList cells]) 0 = Ok (Some (1%nat, body)) /\
    seq_de (de e ycell) (Z.of_nat (length cells)) body = Ok (Some (length body, [VList cells])).
Proof.
  intros Hall e.
  destruct (seq_ser_loop_total (ser e ycell) (Z.of_nat (length cells)) cells eq_refl (ycell_total h w cells Hall)
              (length cells) 0%nat [] ltac:(lia) ltac:(lia)) as (body & Hloop).
  exists body. split.
  - unfold seq_ser. cbn [py_items length Nat.eqb nth_res nth_error]. rewrite Nat2Z.id. rewrite Hloop. reflexivity.
  - rewrite <- (app_nil_r body) at 1.
    apply (seq_core (ser e ycell) (de e ycell) (fun _ => true) (fun _ => false) true cells (Z.of_nat (length cells)) eq_refl).
    + intros p k s _. destruct s; reflexivity.
    + reflexivity.
    + intros p k s rest E _. apply (ycell_rt h w cells Hall p k s rest E).
    + rewrite Nat2Z.id. exact Hloop.
    + exact I.
Qed.

(* body level: serialize_problem / deserialize_problem with YajilinClue in the environment *)
Theorem yajilin_body_roundtrip_gen h w pb rows :
  grid_shape h w pb rows -> Forall (Forall yajilin_cell_ok) rows ->
  exists body, serialize_problem_cu yajilin_custom yterm pb h w = Ok body /\
               deserialize_problem_cu yajilin_custom yterm body h w = Ok (Some pb).
Proof.
  intros (Hpb & Hh & Hw) Hall.
  assert (Hcells : Forall yajilin_cell_ok (concat rows)) by (apply Forall_concat; exact Hall).
  destruct (yseq_roundtrip h w (concat rows) Hcells) as (body & Hser & Hde). cbv zeta in Hser, Hde.
  pose proof (concat_rows_length w rows Hw) as Hlen. rewrite Hh in Hlen.
  exists body. split.
  - unfold serialize_problem_cu, yterm. cbn [ser]. unfold grid_ser.
    cbn [py_items length Nat.eqb nth_res nth_error grid_dims height width cu_env]. subst pb.
    replace (Z.to_nat h) with (length rows) by lia.
    pose proof (grid_flatten_rows rows []) as Hfl. cbn [app length] in Hfl. rewrite Hfl.
    rewrite <- Hlen. fold ycell. rewrite Hser. reflexivity.
  - unfold deserialize_problem_cu, yterm. cbn [de]. unfold grid_de.
    cbn [grid_dims height width cu_env]. rewrite <- Hlen. fold ycell. rewrite Hde.
    rewrite Z.eqb_refl. replace (Z.to_nat h) with (length rows) by lia.
    rewrite (grid_rows_concat (Z.to_nat w) rows).
    + subst pb. reflexivity.
    + eapply Forall_impl; [|exact Hw]. cbv beta. intros r Hr. lia.
Qed.

(* URL level: serialize_yajilin / deserialize_yajilin (any wrappers around the term that fit together) *)
Theorem yajilin_url_roundtrip_gen sw dw h w pb rows :
  sw_comb sw = yterm -> wrappers_consistent sw dw -> dw_return_size dw = false ->
  1 <= h -> 1 <= w -> grid_shape h w pb rows -> Forall (Forall yajilin_cell_ok) rows ->
  exists body,
    serialize_problem_cu yajilin_custom (sw_comb sw) pb h w = Ok body /\
    deserialize_problem_cu yajilin_custom (sw_comb sw) body h w = Ok (Some pb) /\
    run_ser_problem yajilin_custom sw pb = Ok (make_url default_prefix (sw_puzzle sw) h w body) /\
    run_de yajilin_custom dw (make_url default_prefix (sw_puzzle sw) h w body) = Ok (Some pb).
Proof.
  intros Hc Hcons Hrs Hh Hw Hshape Hall.
  destruct (yajilin_body_roundtrip_gen h w pb rows Hshape Hall) as (body & Hser & Hde).
  exists body. rewrite Hc. split; [exact Hser|]. split; [exact Hde|].
  assert (Hnn : pb <> VNone) by (destruct Hshape as (-> & _); discriminate).
  destruct (url_level_roundtrip_nl yajilin_custom sw dw h w pb pb body Hcons ltac:(lia) ltac:(lia)
              (yajilin_cu_good h w)) as [H1 H2]; try (rewrite Hc); auto.
  split.
  - destruct Hshape as (Hpb & Hlen & Hrows).
    destruct rows as [|r0 rows']; [simpl in Hlen; lia|].
    assert (Hw0 : Z.of_nat (length r0) = w) by (inversion Hrows; assumption).
    rewrite Hpb in H1 |- *. cbn [map] in H1 |- *.
    erewrite run_ser_problem_sized by reflexivity.
    cbn [length] in Hlen |- *. rewrite map_length. rewrite Hlen, Hw0. exact H1.
  - rewrite H2. unfold sized. rewrite Hrs. reflexivity.
Qed.

(* the domain is inhabited and the functions evaluate as stated: a 2 x 3 board with every kind of cell *)
Example yajilin_instance :
  let pb := VList [VList [VStr s_dotdot; VStr s_qq; VStr (lit [94; 48]%nat)];
                   VList [VStr (lit [60; 50; 53; 53]%nat); VStr (lit [118; 52; 48; 57; 53]%nat); VStr s_dotdot]] in
  Forall (Forall yajilin_cell_ok) [[VStr s_dotdot; VStr s_qq; VStr (lit [94; 48]%nat)];
                   [VStr (lit [60; 50; 53; 53]%nat); VStr (lit [118; 52; 48; 57; 53]%nat); VStr s_dotdot]] /\
  serialize_problem_cu yajilin_custom yterm pb 2 3 = Ok (lit [97; 48; 46; 49; 48; 56; 102; 102; 45; 50; 102; 102; 102; 97]%nat).
Proof.
  split; [|vm_compute; reflexivity].
  assert (A : yajilin_cell_ok (VStr s_dotdot)) by (left; reflexivity).
  assert (B : yajilin_cell_ok (VStr s_qq)) by (right; left; reflexivity).
  constructor; [constructor; [exact A|constructor; [exact B|constructor; [|constructor]]]|].
  - right; right. exists "^"%char, 1, 0. repeat split; try lia; reflexivity.
  - constructor; [|constructor]. constructor; [|constructor; [|constructor; [exact A|constructor]]].
    + right; right. exists "<"%char, 3, 255. repeat split; try lia; reflexivity.
    + right; right. exists "v"%char, 2, 4095. repeat split; try lia; reflexivity.
Qed.
