(* C11 Tier 1, native-operator route - yinyang: cspuz/puzzle/yinyang.py::solve_yinyang with
   cspuz.config.use_graph_primitive ON.  The two calls graph.active_vertices_connected(solver, is_black) and
   (solver, ~is_black) each post ONE node GRAPH_ACTIVE_VERTICES_CONNECTED (model Graph/Avc.v::post_avc .. false true; the
   activity flags of the second are the nodes NOT(is_black[y, x])) and declare nothing: the only variables are the grid
   0 .. n-1 (the answer keys).  Everything else is Yinyang.v::yinyang_constraints, unchanged (it mentions the grid only).
   Boards without cells: on this route the helper does not raise (a node over no vertex); the Python then builds the
   border walk `circ`, which reads is_black[y, 0] for every row (IndexError when width = 0 < height) and is_black[-1, x]
   for x = 1 .. width-1 (IndexError when height = 0 and width >= 2); on the boards 0 x 0 and 0 x 1 the walk is empty and
   the program (two nodes over no vertex, 0 <= 2) is posted.
     solve_yinyang_model_prim : the model (tied to the Python by program capture, kind program-native:yinyang)
     yinyang_exact_prim       : the Tier-1 theorem on this route (all boards on which the model is defined, the two
                                boards without cells included), w.r.t. the native semantics gsem_avc
   Proof: AvcPrimCompose2.v::yy_two_avc_prim_compose (C04's avc_primitive twice), the meaning of the later constraints
   (YinyangLemmas.v::yy_local_core) and the planarity theorem YinyangAuxProofs.v::yinyang_aux_implied. *)
From Coq Require Import ZArith List Bool Arith Lia.
From Cspuz Require Import Lib.PyErr Core.Expr Core.Program Graph.GraphModel Graph.Avc
     Puzzle.PuzzleBase Puzzle.SatAbs Puzzle.ModelBase
     Puzzle.Rules_yinyang Puzzle.Yinyang Puzzle.YinyangAux Puzzle.YinyangLemmas Puzzle.YinyangAuxProofs
     Puzzle.AvcPrimCompose2.
Import ListNotations.
Local Open Scope nat_scope.

Notation b2z := PuzzleBase.b2z.

(* the body of Yinyang.v::solve_yinyang_model with use_graph_primitive on in the two helper calls; the border walk
   of a board without cells raises IndexError unless it is empty (height 0, width <= 1) *)
Definition solve_yinyang_model_prim (pb : problem) : res state :=
  let h := dim pb 0 in let w := dim pb 1 in let n := h * w in
  match post_avc (bool_grid_state n []) (map BVar (seq 0 n)) (grid_graph h w) false true with
  | Err e => Err e
  | Ok st1 =>
  match post_avc st1 (map (fun i => BNode NOT [BVar i]) (seq 0 n)) (grid_graph h w) false true with
  | Err e => Err e
  | Ok st2 =>
      if Nat.eqb n 0 && negb (Nat.eqb h 0 && Nat.leb w 1) then Err IndexError
      else if Nat.ltb (length (sec pb 1)) n then Err IndexError
      else Ok (ensure st2 (yinyang_constraints h w (sec pb 1)))
  end end.

(* the later constraints on the two boards without cells on which the program is posted *)
Lemma yy_local_empty gsem w grid en :
  w <= 1 ->
  yy_local 0 w grid (map (fun i => b2z (eb en i)) (seq 0 (0 * w))) =
  forallb (holds gsem en) (yinyang_constraints 0 w grid).
Proof. intros Hw. destruct w as [|[|w]]; [reflexivity|reflexivity|lia]. Qed.

Theorem yinyang_model_exact_prim h w grid st ans :
  solve_yinyang_model_prim [[Z.of_nat h; Z.of_nat w]; grid] = Ok st ->
  ((exists en, model_of gsem_avc en st /\ reads st en (seq 0 (h * w)) = ans)
   <-> rules_yinyang [[Z.of_nat h; Z.of_nat w]; grid] ans && yy_aux h w ans = true).
Proof.
  unfold solve_yinyang_model_prim. destruct (yy_dims h w [grid]) as [-> ->].
  change (sec [[Z.of_nat h; Z.of_nat w]; grid] 1) with grid.
  destruct (post_avc (bool_grid_state (h * w) []) (map BVar (seq 0 (h * w))) (grid_graph h w) false true)
    as [st1|e] eqn:Hp1; [|discriminate].
  destruct (post_avc st1 (map (fun i => BNode NOT [BVar i]) (seq 0 (h * w))) (grid_graph h w) false true)
    as [st2|e] eqn:Hp2; [|discriminate].
  destruct (Nat.eqb (h * w) 0 && negb (Nat.eqb h 0 && Nat.leb w 1)) eqn:Hemp; [discriminate|].
  destruct (Nat.ltb (length grid) (h * w)); [discriminate|].
  intros H. inversion H; subst st; clear H.
  rewrite rules_yinyang_split.
  apply (yy_two_avc_prim_compose h w st1 st2 (yinyang_constraints h w grid) Hp1 Hp2 (yy_local h w grid)).
  intros en. destruct (Nat.eqb_spec (h * w) 0) as [E0|E0].
  - cbn [andb] in Hemp. apply negb_false_iff, andb_true_iff in Hemp. destruct Hemp as [Hh0 Hw1].
    apply Nat.eqb_eq in Hh0. apply Nat.leb_le in Hw1. subst h. apply yy_local_empty. exact Hw1.
  - apply yy_local_core. lia.
Qed.

(* the full exactness statement of property C11 for this module, native-operator route *)
Theorem yinyang_exact_prim h w grid st ans :
  solve_yinyang_model_prim [[Z.of_nat h; Z.of_nat w]; grid] = Ok st ->
  ((exists en, model_of gsem_avc en st /\ reads st en (seq 0 (h * w)) = ans)
   <-> rules_yinyang [[Z.of_nat h; Z.of_nat w]; grid] ans = true).
Proof.
  intros Hs. rewrite (yinyang_model_exact_prim h w grid st ans Hs). split.
  - intros H. apply andb_true_iff in H. apply H.
  - intros Hr. rewrite Hr, (yinyang_aux_implied h w grid ans Hr). reflexivity.
Qed.

(* the hypothesis is satisfiable, also on a board without cells *)
Example yinyang_model_prim_ok :
  exists st, solve_yinyang_model_prim [[Z.of_nat 2; Z.of_nat 3]; [0; 1; 0; 2; 0; 0]%Z] = Ok st.
Proof. vm_compute. eexists. reflexivity. Qed.
Example yinyang_model_prim_empty_ok :
  exists st, solve_yinyang_model_prim [[0; 1]; []]%Z = Ok st.
Proof. vm_compute. eexists. reflexivity. Qed.
