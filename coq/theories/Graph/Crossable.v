(* C10 — model of cspuz/graph.py::active_edges_connected_crossable (and its
   alias active_edges_single_cycle_crossable), of the BoolGridFrame accessors
   the function uses, and the specification of the property ("single
   self-crossing trail"), which does not mention the auxiliary
   3-nodes-per-point graph of the code.  The callee _active_vertices_connected
   is the model of C04 (Graph/Avc.v::post_avc).  No proofs in this file. *)
From Coq Require Import ZArith List Bool Arith.
From Cspuz Require Import Lib.PyErr Core.Expr Core.Program Core.Build Graph.GraphModel Graph.Avc.
Import ListNotations.
Open Scope nat_scope.

(* ------------------------------------------------------------------------ *)
(* BoolGridFrame: height, width, horizontal (shape (h+1, w)), vertical (shape
   (h, w+1)); both arrays row-major, entries are BoolExpr-like trees *)

Record frame := { fh : nat; fw : nat; hor : list expr; ver : list expr }.

Definition frame_shaped (fr : frame) : bool :=
  Nat.eqb (length (hor fr)) ((fh fr + 1) * fw fr) &&
  Nat.eqb (length (ver fr)) (fh fr * (fw fr + 1)).

(* Array2D.__getitem__((y, x)) for in-range ints: data[y * shape[1] + x] *)
Definition hor_at (fr : frame) (y x : nat) : expr := nth (y * fw fr + x) (hor fr) PyNone.
Definition ver_at (fr : frame) (y x : nat) : expr := nth (y * (fw fr + 1) + x) (ver fr) PyNone.

(* BoolGridFrame.vertex_neighbors(y, x), 0 <= y <= h, 0 <= x <= w *)
Definition vertex_neighbors (fr : frame) (y x : nat) : list expr :=
  (if Nat.ltb 0 y then [ver_at fr (y - 1) x] else []) ++
  (if Nat.ltb y (fh fr) then [ver_at fr y x] else []) ++
  (if Nat.ltb 0 x then [hor_at fr y (x - 1)] else []) ++
  (if Nat.ltb x (fw fr) then [hor_at fr y x] else []).

(* BoolGridFrame(solver, h, w) without arrays: horizontal first, then vertical *)
Definition new_frame (st : state) (h w : nat) : state * frame :=
  let '(st1, hz) := bool_array st ((h + 1) * w) in
  let '(st2, vt) := bool_array st1 (h * (w + 1)) in
  (st2, {| fh := h; fw := w; hor := hz; ver := vt |}).

(* ------------------------------------------------------------------------ *)
(* constraints.py::count_true on a flattened list of BoolExpr-like operands
   (Python bools are folded into one trailing constant, every other operand x
   becomes x.cond(1, 0)); total version of Core/Build.v::count_true, which
   raises TypeError on other operands *)

Fixpoint ct_ops (l : list expr) : list expr :=
  match l with
  | [] => []
  | PyBool _ :: r => ct_ops r
  | x :: r => i_cond x (PyInt 1) (PyInt 0) :: ct_ops r
  end.
Fixpoint ct_const (l : list expr) : Z :=
  match l with
  | [] => 0%Z
  | PyBool true :: r => (ct_const r + 1)%Z
  | _ :: r => ct_const r
  end.
Definition count_true_t (l : list expr) : expr :=
  let c := ct_const l in
  match ct_ops l ++ (if (0 <? c)%Z then [PyInt c] else []) with
  | [] => INode INT_CONSTANT [PyInt 0%Z]
  | ops => INode ADD ops
  end.

(* ------------------------------------------------------------------------ *)
(* the auxiliary graph of active_edges_connected_crossable on H x W lattice
   points (H = height + 1, W = width + 1): nodes 3p, 3p+1, 3p+2 for point p =
   y*W + x (plain / horizontal pass / vertical pass), then one node per vertical
   segment, then one node per horizontal segment *)

Definition split_vertical_edges (H W : nat) : list (nat * nat) :=
  flat_map (fun y => flat_map (fun x =>
      let eid := H * W * 3 + y * W + x in
      let v0 := (y * W + x) * 3 in
      let v1 := ((y + 1) * W + x) * 3 in
      [(eid, v0); (eid, v0 + 2); (eid, v1); (eid, v1 + 2)])
    (seq 0 W)) (seq 0 (H - 1)).

Definition split_horizontal_edges (H W : nat) : list (nat * nat) :=
  flat_map (fun y => flat_map (fun x =>
      let eid := H * W * 3 + (H - 1) * W + y * (W - 1) + x in
      let v0 := (y * W + x) * 3 in
      let v1 := (y * W + x + 1) * 3 in
      [(eid, v0); (eid, v0 + 1); (eid, v1); (eid, v1 + 1)])
    (seq 0 (W - 1))) (seq 0 H).

Definition split_graph (H W : nat) : graph :=
  {| nv := H * W * 3 + (H - 1) * W + H * (W - 1);
     edges := split_vertical_edges H W ++ split_horizontal_edges H W |}.

(* a 2D loop "for y in range(a): for x in range(b): out.append(f y x)" *)
Definition loop2 {A} (a b : nat) (f : nat -> nat -> list A) : list A :=
  flat_map (fun y => flat_map (fun x => f y x) (seq 0 b)) (seq 0 a).

(* the constraints posted inside the loop over lattice points, for point (y, x) *)
Definition point_cons (fr : frame) (single_cycle : bool) (passed cross : list expr)
           (y x : nat) : list expr :=
  let H := fh fr + 1 in
  let W := fw fr + 1 in
  let ps := nth (y * W + x) passed PyNone in
  let cr := nth (y * W + x) cross PyNone in
  let d := count_true_t (vertex_neighbors fr y x) in
  (if Nat.eqb y 0 || Nat.eqb y (H - 1) || Nat.eqb x 0 || Nat.eqb x (W - 1)
   then [b_not cr] else []) ++
  [b_imp (b_not ps) (i_eq d (PyInt 0%Z));
   b_imp (b_and ps cr) (i_eq d (PyInt 4%Z))] ++
  (if single_cycle
   then [b_imp (b_and ps (b_not cr)) (i_eq d (PyInt 2%Z))]
   else [b_imp (b_and ps (b_not cr)) (i_ge d (PyInt 1%Z));
         b_imp (b_and ps (b_not cr)) (i_le d (PyInt 2%Z))]).

(* elementwise array operators (array.py::_elementwise on equal shapes) *)
Definition zip_with {A} (f : A -> A -> A) (a b : list A) : list A :=
  map (fun ab => f (fst ab) (snd ab)) (combine a b).

Definition split_actives (fr : frame) (single dh dv : list expr) : list expr :=
  let H := fh fr + 1 in
  let W := fw fr + 1 in
  loop2 H W (fun y x => [nth (y * W + x) single PyNone; nth (y * W + x) dh PyNone;
                         nth (y * W + x) dv PyNone]) ++
  loop2 (H - 1) W (fun y x => [ver_at fr y x]) ++
  loop2 H (W - 1) (fun y x => [hor_at fr y x]).

(* the body of active_edges_connected_crossable for a well-shaped frame whose
   entries are BoolExpr-like; returns the new state and (is_passed, is_cross) *)
Definition post_crossable_body (st : state) (fr : frame) (single_cycle prim : bool)
  : res (state * (list expr * list expr)) :=
  let H := fh fr + 1 in
  let W := fw fr + 1 in
  let '(st1, passed) := bool_array st (H * W) in
  let '(st2, cross) := bool_array st1 (H * W) in
  let st3 := ensure st2 (zip_with b_imp cross passed) in
  let st4 := ensure st3 (loop2 H W (point_cons fr single_cycle passed cross)) in
  let '(st5, single) := bool_array st4 (H * W) in
  let '(st6, dh) := bool_array st5 (H * W) in
  let '(st7, dv) := bool_array st6 (H * W) in
  let st8 := ensure st7 (zip_with b_iff single (zip_with b_and passed (map b_not cross))) in
  let st9 := ensure st8 (zip_with b_iff dh cross) in
  let st10 := ensure st9 (zip_with b_iff dv cross) in
  match post_avc st10 (split_actives fr single dh dv) (split_graph H W) false prim with
  | Err e => Err e
  | Ok st11 => Ok (st11, (passed, cross))
  end.

(* domain of the model: arrays of the shapes BoolGridFrame gives them (other
   shapes: OtherError = outside the model); a non-BoolExpr-like entry makes the
   first count_true over a lattice point touching it raise TypeError *)
Definition post_crossable (st : state) (fr : frame) (single_cycle prim : bool)
  : res (state * (list expr * list expr)) :=
  if negb (frame_shaped fr) then Err OtherError
  else if negb (forallb is_bool_expr_like (hor fr ++ ver fr)) then Err TypeError
  else post_crossable_body st fr single_cycle prim.

(* ------------------------------------------------------------------------ *)
(* Specification.  Unit segments of the lattice of an h x w frame, named by
   their upper / left end; a pattern says which segments are drawn. *)

Inductive seg := Seg (vertical : bool) (y x : nat).

Definition seg_in (h w : nat) (s : seg) : bool :=
  match s with
  | Seg true y x => Nat.ltb y h && Nat.leb x w
  | Seg false y x => Nat.leb y h && Nat.ltb x w
  end.

Definition seg_ends (s : seg) : (nat * nat) * (nat * nat) :=
  match s with
  | Seg true y x => ((y, x), (S y, x))
  | Seg false y x => ((y, x), (y, S x))
  end.

Definition touches (s : seg) (p : nat * nat) : Prop :=
  fst (seg_ends s) = p \/ snd (seg_ends s) = p.

Definition same_dir (s t : seg) : Prop :=
  match s, t with Seg a _ _, Seg b _ _ => a = b end.

(* the (up to four) segments of the frame around the lattice point (y, x) *)
Definition segs_at (h w : nat) (p : nat * nat) : list seg :=
  let '(y, x) := p in
  (if Nat.ltb 0 y then [Seg true (y - 1) x] else []) ++
  (if Nat.ltb y h then [Seg true y x] else []) ++
  (if Nat.ltb 0 x then [Seg false y (x - 1)] else []) ++
  (if Nat.ltb x w then [Seg false y x] else []).

Definition point_in (h w : nat) (p : nat * nat) : Prop := fst p <= h /\ snd p <= w.
Definition interior (h w : nat) (p : nat * nat) : Prop :=
  0 < fst p < h /\ 0 < snd p < w.

Section Spec.
  Variables h w : nat.
  Variable act : seg -> bool.          (* the drawn segments *)

  Definition deg (p : nat * nat) : nat := length (filter act (segs_at h w p)).

  Definition degree_rule (single_cycle : bool) : Prop :=
    forall p, point_in h w p ->
      (deg p = 0 \/ (single_cycle = false /\ deg p = 1) \/ deg p = 2 \/ deg p = 4) /\
      (deg p = 4 -> interior h w p).

  Definition drawn (s : seg) : Prop := seg_in h w s = true /\ act s = true.

  (* two drawn segments continue each other at a common point unless the point
     is a 4-way crossing and they are not collinear *)
  Definition continues (s t : seg) : Prop :=
    exists p, touches s p /\ touches t p /\ (deg p <> 4 \/ same_dir s t).

  Inductive strand : seg -> seg -> Prop :=
  | strand_refl s : drawn s -> strand s s
  | strand_step s t u : strand s t -> drawn u -> continues t u -> strand s u.

  Definition strand_connected : Prop :=
    forall s t, drawn s -> drawn t -> strand s t.

  Definition crossable_spec (single_cycle : bool) : Prop :=
    degree_rule single_cycle /\ strand_connected.

  (* what the two returned arrays must say *)
  Definition visited (p : nat * nat) : bool := Nat.ltb 0 (deg p).
  Definition crossing (p : nat * nat) : bool := Nat.eqb (deg p) 4.
End Spec.

(* the pattern a frame of expressions denotes under an assignment *)
Definition seg_expr (fr : frame) (s : seg) : expr :=
  match s with
  | Seg true y x => ver_at fr y x
  | Seg false y x => hor_at fr y x
  end.

(* (the native graph operator, which a caller's expression might contain, is
   given C04's meaning gsem_avc) *)
Definition seg_pattern (en : env) (fr : frame) (s : seg) : bool :=
  holds gsem_avc en (seg_expr fr s).

(* ------------------------------------------------------------------------ *)
(* vocabulary for the auxiliary graph (used by the proofs) and an executable
   form of the specification (used to validate it against the harness oracle;
   CrossableDecide.v proves it equivalent to crossable_spec) *)

(* NP k p : the k-th copy (0 plain, 1 horizontal pass, 2 vertical pass) of the
   lattice point p;  NS s : the node of segment s *)
Inductive node := NP (k : nat) (p : nat * nat) | NS (s : seg).

Definition dirk (s : seg) : nat := match s with Seg true _ _ => 2 | Seg false _ _ => 1 end.

Definition node_in (h w : nat) (a : node) : Prop :=
  match a with
  | NP k (y, x) => k < 3 /\ y <= h /\ x <= w
  | NS s => seg_in h w s = true
  end.

Definition enc (h w : nat) (a : node) : nat :=
  match a with
  | NP k (y, x) => (y * (w + 1) + x) * 3 + k
  | NS (Seg true y x) => (h + 1) * (w + 1) * 3 + y * (w + 1) + x
  | NS (Seg false y x) => (h + 1) * (w + 1) * 3 + h * (w + 1) + y * w + x
  end.

Definition dec (h w : nat) (u : nat) : node :=
  let n3 := (h + 1) * (w + 1) * 3 in
  if Nat.ltb u n3 then NP (u mod 3) ((u / 3) / (w + 1), (u / 3) mod (w + 1))
  else if Nat.ltb u (n3 + h * (w + 1))
       then NS (Seg true ((u - n3) / (w + 1)) ((u - n3) mod (w + 1)))
       else NS (Seg false ((u - n3 - h * (w + 1)) / w) ((u - n3 - h * (w + 1)) mod w)).

(* which nodes the code activates, in terms of the pattern only *)
Definition nact (h w : nat) (act : seg -> bool) (a : node) : bool :=
  match a with
  | NP 0 p => Nat.ltb 0 (deg h w act p) && negb (Nat.eqb (deg h w act p) 4)
  | NP _ p => Nat.eqb (deg h w act p) 4
  | NS s => act s
  end.

Definition degree_ok_b (h w : nat) (act : seg -> bool) (sc : bool) (p : nat * nat) : bool :=
  let d := deg h w act p in
  (Nat.eqb d 0 || (negb sc && Nat.eqb d 1) || Nat.eqb d 2 || Nat.eqb d 4) &&
  (negb (Nat.eqb d 4) ||
   (Nat.ltb 0 (fst p) && Nat.ltb (fst p) h && Nat.ltb 0 (snd p) && Nat.ltb (snd p) w)).

Definition degree_rule_b (h w : nat) (act : seg -> bool) (sc : bool) : bool :=
  forallb (degree_ok_b h w act sc) (list_prod (seq 0 (h + 1)) (seq 0 (w + 1))).

Definition crossable_spec_b (h w : nat) (act : seg -> bool) (sc : bool) : bool :=
  degree_rule_b h w act sc &&
  connected_b (split_graph (h + 1) (w + 1)) (fun u => nact h w act (dec h w u)).

(* a pattern given by the two bit arrays of a frame *)
Definition act_of_bits (w : nat) (hbits vbits : list bool) (s : seg) : bool :=
  match s with
  | Seg true y x => nth (y * (w + 1) + x) vbits false
  | Seg false y x => nth (y * w + x) hbits false
  end.

(* the values of the two returned arrays, row-major over the lattice points *)
Definition outputs_b (h w : nat) (act : seg -> bool) : list bool * list bool :=
  (map (visited h w act) (list_prod (seq 0 (h + 1)) (seq 0 (w + 1))),
   map (crossing h w act) (list_prod (seq 0 (h + 1)) (seq 0 (w + 1)))).
