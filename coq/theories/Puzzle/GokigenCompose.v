(* C11 Tier 1 - composition with property C09: a solver that declares a boolean answer grid, calls
   graph.active_edges_acyclic (auxiliary rank variables, model Graph/Acyclic.v::post_acyclic) on a graph
   whose edge flags are variables of the grid, their NOT-nodes, AND / OR of two of them or Python constants,
   and then posts further constraints.  Uses C09's closed theorems acyclic_exact (shape of the posted state)
   and acyclic_exact_simple_flags (whole-program exactness). *)
From Coq Require Import ZArith List Bool Arith Lia.
From Cspuz Require Import Lib.PyErr Core.Expr Core.Program Graph.GraphModel
     Graph.Acyclic Graph.AcyclicExact Graph.AcyclicFlags
     Puzzle.PuzzleBase Puzzle.SatAbs Puzzle.ModelBase Puzzle.ModelLemmas Puzzle.CreekProofs.
Import ListNotations.
Local Open Scope nat_scope.

Notation b2z := PuzzleBase.b2z.

Theorem acyclic_grid_compose gsem n flags g (extra : list expr) (P : answer -> Prop) (local : answer -> bool) st1 ans :
  wf_graph g = true -> loop_free g = true -> 1 <= nv g ->
  (forall e, e < length (edges g) -> exists f, nth_error flags e = Some f /\ simple_flag n f) ->
  post_acyclic (bool_grid_state n []) flags g = Ok st1 ->
  (forall en, forest g (pattern_of gsem en flags) <-> P (map (fun i => b2z (eb en i)) (seq 0 n))) ->
  (forall en, local (map (fun i => b2z (eb en i)) (seq 0 n)) = forallb (holds gsem en) extra) ->
  ((exists en, model_of gsem en (ensure st1 extra) /\ reads (ensure st1 extra) en (seq 0 n) = ans)
   <-> (length ans = n /\ forallb is01 ans = true /\ P ans /\ local ans = true)).
Proof.
  set (st0 := bool_grid_state n []).
  intros Hwf Hlf Hnv Hsf Hp Hfor Hloc.
  assert (Hn0 : next_id st0 = n) by (unfold next_id, st0; simpl; apply repeat_length).
  assert (Hsf0 : forall e, e < length (edges g) ->
            exists f, nth_error flags e = Some f /\ simple_flag (next_id st0) f) by (rewrite Hn0; exact Hsf).
  assert (Hcl0 : closed_state st0) by (intros c []).
  assert (Hmod0 : forall en, model_of gsem en st0).
  { intros en. split; [apply in_bounds_bool_grid|reflexivity]. }
  (* the shape of the posted state *)
  assert (Hv : exists newv, vars st1 = repeat DBool n ++ newv).
  { set (en := env_of_answer []).
    destruct (AcyclicExact.acyclic_exact gsem st0 flags g (pattern_of gsem en flags) en Hwf Hlf Hnv)
      as [st' [newv [newc [Hp' [Hvars _]]]]].
    - apply flags_boolean_denote. apply simple_flags_boolean. exact Hsf0.
    - rewrite Hp in Hp'. inversion Hp'; subst st'. exists newv. exact Hvars. }
  destruct Hv as [newv Hv].
  assert (EX : forall en, (exists en', agree_below n en en' /\ model_of gsem en' st1)
                          <-> forest g (pattern_of gsem en flags)).
  { intros en.
    destruct (acyclic_exact_simple_flags gsem st0 flags g en Hwf Hlf Hnv Hsf0 Hcl0 (Hmod0 en)) as [st' [Hp' Hiff]].
    rewrite Hp in Hp'. inversion Hp'; subst st'. rewrite Hn0 in Hiff. exact Hiff. }
  assert (Hsplit : forall en, model_of gsem en (ensure st1 extra) <->
                              (model_of gsem en st1 /\ forallb (holds gsem en) extra = true)).
  { intros en. unfold model_of, in_bounds, satisfies, ensure. simpl. rewrite forallb_app, andb_true_iff. tauto. }
  assert (Hreads : forall en, reads (ensure st1 extra) en (seq 0 n) = map (fun i => b2z (eb en i)) (seq 0 n)).
  { intros en. eapply reads_bool_prefix. simpl. exact Hv. }
  split.
  - intros [en [Hm Hr]]. rewrite Hreads in Hr. subst ans.
    apply Hsplit in Hm. destruct Hm as [Hm1 Hcl].
    split; [rewrite map_length, seq_length; reflexivity|].
    split; [rewrite forallb_map; apply forallb_forall; intros; apply is01_b2z|].
    split.
    + apply Hfor. apply EX. exists en. split; [|exact Hm1]. intros i _. split; reflexivity.
    + rewrite Hloc. exact Hcl.
  - intros [Hlen [H01 [HP Hcl]]].
    set (en0 := env_of_answer ans).
    pose proof (answer_as_reading ans n Hlen H01) as Ha. fold en0 in Ha.
    rewrite <- Ha in HP. apply Hfor in HP. apply EX in HP.
    destruct HP as [en' [Hag Hm1]].
    assert (Hsame : map (fun i => b2z (eb en' i)) (seq 0 n) = ans).
    { rewrite <- Ha. apply map_ext_in. intros i Hi. apply in_seq in Hi.
      destruct (Hag i ltac:(lia)) as [E _]. rewrite E. reflexivity. }
    exists en'. split; [|rewrite Hreads; exact Hsame].
    apply Hsplit. split; [exact Hm1|].
    rewrite <- Hloc, Hsame. exact Hcl.
Qed.
