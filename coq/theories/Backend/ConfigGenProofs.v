(* C20 — the tables generated from /repo's current source (Gen/ConfigTables.v, written by
   harness/c20_translate.py on every run) are the prescribed ones; every decision-table statement
   is transferred to them.  An edited name chain / detection order / default tuple / decision site
   in the Python source changes [ConfigTables.tables] and makes [tables_eq] fail. *)
From Coq Require Import String List.
From Cspuz Require Import Lib.PyErr Backend.Config Backend.ConfigProofs Gen.ConfigTables.

Lemma tables_eq : tables = expected_tables.
Proof. vm_compute. reflexivity. Qed.

Lemma transfer (P : Config.tables -> Prop) : P expected_tables -> P tables.
Proof. rewrite tables_eq. exact (fun H => H). Qed.

Definition detect_order_G := transfer _ detect_order_E.
Definition strtobool_strict_G := transfer _ strtobool_strict_E.
Definition config_of_env_G := transfer _ config_of_env_E.
Definition config_no_env_G := transfer _ config_no_env_E.
Definition default_backend_env_G := transfer _ default_backend_env_E.
Definition primitive_default_G := transfer _ primitive_default_E.
Definition env_override_strict_G := transfer _ env_override_strict_E.
Definition unknown_backend_rejected_G := transfer _ unknown_backend_rejected_E.
Definition call_argument_wins_G := transfer _ call_argument_wins_E.
Definition solve_receiver_G := transfer _ solve_receiver_E.
Definition auto_detected_importable_G := transfer _ auto_detected_importable_E.
Definition primitive_decision_G := transfer _ primitive_decision_E.
Definition acyclic_never_primitive_G := transfer _ acyclic_never_primitive_E.
Definition site_decisions_G := transfer _ site_decisions_E.
