(* C11: the program of solve_star_battle is well formed for every n; composition with C02 (solve_reports). *)
From Coq Require Import ZArith List Bool Arith Lia.
From Cspuz Require Import Lib.PyErr Core.Expr Core.Program Backend.Z3 Backend.Z3Oracle Backend.Z3SolveProofs
     Backend.SolveLoop Backend.SolveZ3Proofs
     Puzzle.PuzzleBase Puzzle.ModelBase Puzzle.ModelLemmas Puzzle.SatAbs Puzzle.SolveCompose Puzzle.WfLemmas
     Puzzle.Rules_norinori Puzzle.Norinori Puzzle.NorinoriWf Puzzle.Putteria Puzzle.PutteriaWf
     Puzzle.Rules_star_battle Puzzle.StarBattle Puzzle.StarBattleProofs.
Import ListNotations.
Local Open Scope nat_scope.

Lemma ok_py_sum_go vs ids : forall acc,
  ok vs false acc = true -> (forall i, In i ids -> ok vs true (BVar i) = true) ->
  ok vs false (fold_left (fun acc i => INode ADD [acc; INode IF [BVar i; PyInt 1; PyInt 0]]) ids acc) = true.
Proof.
  induction ids as [|i r IH]; intros acc Ha Hi; simpl; [exact Ha|].
  apply IH; [|intros j Hj; apply Hi; right; exact Hj].
  autorewrite with okdb. rewrite Ha, (Hi i (or_introl eq_refl)). reflexivity.
Qed.
Lemma ok_py_sum_vars vs ids :
  (forall i, In i ids -> ok vs true (BVar i) = true) -> ok vs false (py_sum_vars ids) = true.
Proof. intros H. unfold py_sum_vars. apply ok_py_sum_go; [reflexivity|exact H]. Qed.

Lemma star_battle_constraints_ok n k region :
  forallb (ok (repeat DBool (n * n)) true) (star_battle_constraints n k region) = true.
Proof.
  unfold star_battle_constraints. rewrite !forallb_app, !forallb_map, !forallb_flat_map.
  repeat (apply andb_true_intro; split).
  - apply forallb_seq. intros i Hi. autorewrite with okdb.
    rewrite !ok_py_sum_vars; [reflexivity| |];
      intros j Hj; apply in_map_iff in Hj; destruct Hj as [x [<- Hx]]; apply in_seq in Hx; apply ok_cell; lia.
  - apply forallb_cells. intros y x Hy Hx. rewrite ok_nand, !ok_cell by lia. reflexivity.
  - apply forallb_cells. intros y x Hy Hx. rewrite ok_nand, !ok_cell by lia. reflexivity.
  - apply forallb_cells. intros y x Hy Hx. rewrite ok_nand, !ok_cell by lia. reflexivity.
  - apply forallb_cells. intros y x Hy Hx. rewrite ok_nand, !ok_cell by lia. reflexivity.
  - apply forallb_In. intros i _. autorewrite with okdb. rewrite ok_region_ct. reflexivity.
Qed.

Lemma star_battle_model_wf pb st : solve_star_battle_model pb = Ok st -> wf_state st /\ wf_keys st.
Proof.
  unfold solve_star_battle_model. intros H. inversion H; subst st; clear H.
  apply wf_bool_grid_state. apply star_battle_constraints_ok.
Qed.

Theorem star_battle_solve_reports : forall oracle, oracle_sound_on oracle -> oracle_complete_on oracle ->
  forall n k region st, (0 <= k)%Z ->
  solve_star_battle_model [[Z.of_nat n; k]; region] = Ok st ->
  solve_reports oracle st (seq 0 (n * n)) (rules_star_battle [[Z.of_nat n; k]; region]).
Proof.
  intros oracle Os Oc n k region st Hk Hst.
  apply (solve_reports_intro oracle no_graph); try assumption.
  - exact (star_battle_model_wf _ _ Hst).
  - unfold solve_star_battle_model in Hst. rewrite dim1_0 in Hst. inversion Hst; subst st. simpl.
    apply repeat_keys.
  - intros ans. exact (star_battle_exact n k region st ans Hk Hst).
Qed.
