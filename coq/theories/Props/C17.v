(* C17 — decoding arbitrary text never crashes and only yields re-encodable problems.

   [safe r]: r is a result (None or a value) or the exception ValueError — never IndexError,
   KeyError, AssertionError, TypeError, RecursionError, nor a loop that does not end (which the
   model reports as OtherError).  The decoders are Codec/Comb.v's [de] / [de_at], Codec/Puzzles.v's
   [deserialize_problem_cu] / [deserialize_url_cu] / [run_de] and Codec/Yajilin.v's
   YajilinClue; the nine puzzle terms and wrapper options come from Gen/Codecs.v, regenerated
   from cspuz/puzzle/*.py on every run.  Side conditions ([dec_ok], [single], [customs_ok],
   [env_nonneg]) are defined in Codec/TotalModel.v.                                          *)
From Coq Require Import ZArith List Ascii Bool.
From Cspuz Require Import Lib.PyErr Codec.Comb Codec.CombWf Codec.Yajilin Codec.Puzzles
  Codec.TotalModel Codec.TotalLeaf Codec.TotalRooms Codec.Total Codec.TotalDims Codec.TotalRedecode Codec.TotalCodecs
  Codec.TotalReencModel Codec.TotalReencLeaf Codec.TotalReenc Codec.TotalReencRooms Codec.TotalReencCodecs Codec.TotalReencYajilin
  Codec.TotalReencUrl Codec.TotalReencWitness Gen.Codecs.
Import ListNotations.
Local Open Scope Z_scope.

(* Combinator.deserialize of every term satisfying the side conditions, on EVERY text *)
Theorem de_total : forall e c, dec_ok c = true -> customs_ok (cust e) c -> env_nonneg e ->
  forall s, safe (de e c s).
Proof. exact de_total_lemma. Qed.
Print Assumptions de_total.

(* ... at every offset 0 <= idx <= len(data) (what the library itself passes: by the second part the
   next offset is again within the text); the reported number of characters read stays within the text *)
Theorem de_at_total : forall e c, dec_ok c = true -> customs_ok (cust e) c -> env_nonneg e ->
  forall data idx, safe (de_at e c data idx) /\
    forall k l, de_at e c data idx = Ok (Some (k, l)) -> (idx + k <= Nat.max idx (length data))%nat.
Proof. exact de_at_total_lemma. Qed.
Print Assumptions de_at_total.

(* the side condition on Seq / Grid bases is needed: C15's wf alone admits a loop that never ends *)
Theorem wf_alone_not_enough :
  wf (Seq (FixStr []) 3) = true /\ de (mk_env 1 1) (Seq (FixStr []) 3) [] = Err OtherError.
Proof. split; vm_compute; reflexivity. Qed.
Print Assumptions wf_alone_not_enough.

(* the Rooms decoder on any board size (also 0 or negative) and any text *)
Theorem rooms_de_total : forall e skip allow s, safe (de e (Rooms skip allow) s).
Proof. intros e skip allow s. destruct (rooms_good e skip allow s) as [H _]. exact H. Qed.
Print Assumptions rooms_de_total.

(* yajilin.YajilinClue behaves like a library combinator *)
Theorem yajilin_clue_total : custom_total yajilin_custom.
Proof. exact yajilin_custom_total. Qed.
Print Assumptions yajilin_clue_total.

(* deserialize_problem: its own assertion (exactly one item) never fails for a single-item term *)
Theorem problem_total : forall cu c h w, dec_ok c = true -> single c = true -> customs_ok cu c -> 0 <= h * w ->
  forall s, safe (deserialize_problem_cu cu c s h w).
Proof. exact problem_total_lemma. Qed.
Print Assumptions problem_total.

(* deserialize_problem_as_url with any options, on EVERY text (URL or not, any declared sizes) *)
Theorem url_de_total : forall cu c al af rs, dec_ok c = true -> single c = true -> customs_ok cu c ->
  forall url, safe (deserialize_url_cu cu c url al af rs).
Proof. exact url_total_lemma. Qed.
Print Assumptions url_de_total.

(* every deserialize_<p> of the puzzle modules, with the term and options read from the source *)
Theorem codecs_total : forall url,
  safe (run_de no_custom deserialize_nurikabe_w url) /\
  safe (run_de no_custom deserialize_masyu_w url) /\
  safe (run_de no_custom deserialize_slitherlink_w url) /\
  safe (run_de no_custom deserialize_sudoku_w url) /\
  safe (run_de no_custom deserialize_nurimisaki_w url) /\
  safe (run_de yajilin_custom deserialize_yajilin_w url) /\
  safe (run_de no_custom deserialize_heyawake_w url) /\
  safe (run_de no_custom deserialize_lits_w url) /\
  safe (run_de no_custom deserialize_norinori_w url).
Proof. exact codecs_total_lemma. Qed.
Print Assumptions codecs_total.

(* ... and whatever they return has the sizes written in the URL (width second, height third field):
   a grid of exactly h rows of w cells, or (h, w, rooms) with every cell of the board in one room *)
Theorem codecs_dims : forall url name wd hd body, url_match url = Some (name, wd, hd, body) ->
  returns_grid (run_de no_custom deserialize_nurikabe_w url) wd hd /\
  returns_grid (run_de no_custom deserialize_masyu_w url) wd hd /\
  returns_grid (run_de no_custom deserialize_slitherlink_w url) wd hd /\
  returns_grid (run_de no_custom deserialize_sudoku_w url) wd hd /\
  returns_grid (run_de no_custom deserialize_nurimisaki_w url) wd hd /\
  returns_grid (run_de yajilin_custom deserialize_yajilin_w url) wd hd /\
  returns_sized_valued_rooms (run_de no_custom deserialize_heyawake_w url) wd hd /\
  returns_sized_rooms (run_de no_custom deserialize_lits_w url) wd hd /\
  returns_sized_rooms (run_de no_custom deserialize_norinori_w url) wd hd.
Proof. exact codecs_dims_lemma. Qed.
Print Assumptions codecs_dims.

(* a decoded Grid has exactly the board's rows and columns *)
Theorem de_dims_grid : forall e c1 s k p, 0 <= height e -> 0 <= width e ->
  de e (Grid c1 None) s = Ok (Some (k, [p])) -> grid_shape (height e) (width e) p.
Proof. exact grid_dims_lemma. Qed.
Print Assumptions de_dims_grid.

(* URL level: the returned sizes are the declared ones (third / second field, in this order)
   and a Grid codec's problem has exactly these dimensions *)
Theorem url_de_dims : forall cu c1 al af rs url name wd hd body v,
  url_match url = Some (name, wd, hd, body) ->
  deserialize_url_cu cu (Grid c1 None) url al af rs = Ok (Some v) ->
  exists w h p, py_int wd 10 = Ok w /\ py_int hd 10 = Ok h /\ grid_shape h w p /\
                v = (if rs then VTup [VInt h; VInt w; p] else p).
Proof. exact url_dims_lemma. Qed.
Print Assumptions url_de_dims.

(* a decoded Rooms value: every cell of the declared board occurs in exactly one room
   ([cells_of h w] lists each cell of the board once, Codec/RoomsGrid.v cells_of_in) *)
Theorem de_dims_rooms : forall e skip allow s k l, de e (Rooms skip allow) s = Ok (Some (k, l)) ->
  exists p, l = [p] /\ rooms_shape (height e) (width e) p.
Proof. exact rooms_dims_lemma. Qed.
Print Assumptions de_dims_rooms.

Theorem url_de_dims_rooms : forall cu skip allow al af rs url name wd hd body v,
  url_match url = Some (name, wd, hd, body) ->
  deserialize_url_cu cu (Rooms skip allow) url al af rs = Ok (Some v) ->
  exists w h p, py_int wd 10 = Ok w /\ py_int hd 10 = Ok h /\ rooms_shape h w p /\
                v = (if rs then VTup [VInt h; VInt w; p] else p).
Proof. exact url_rooms_dims_lemma. Qed.
Print Assumptions url_de_dims_rooms.

Theorem url_de_dims_valued_rooms : forall cu vc skip allow al af rs url name wd hd body v,
  url_match url = Some (name, wd, hd, body) ->
  deserialize_url_cu cu (ValuedRooms vc skip allow) url al af rs = Ok (Some v) ->
  exists w h rooms values, py_int wd 10 = Ok w /\ py_int hd 10 = Ok h /\ rooms_shape h w rooms /\
                v = (if rs then VTup [VInt h; VInt w; VTup [rooms; values]] else VTup [rooms; values]).
Proof. exact url_vrooms_dims_lemma. Qed.
Print Assumptions url_de_dims_valued_rooms.

(* ------------------------------------------------------------------ re-encodability *)
(* The statement as first written: for EVERY well-formed term whatever deserialize_problem returns is
   serialized again and its canonical text decodes to the same value.  It does NOT hold (next theorem);
   it holds under the side condition [reenc_ok] (Codec/TotalReenc.v) - theorem de_reencodable - which all
   puzzle codecs satisfy. *)
Definition de_reencodable_statement : Prop :=
  forall c h w s p, wf c = true -> tupl_single c = true -> dec_ok c = true -> single c = true -> 0 <= h -> 0 <= w ->
    deserialize_problem c s h w = Ok (Some p) ->
    exists t, serialize_problem c p h w = Ok t /\ deserialize_problem c t h w = Ok (Some p).

(* witness (replayed on the Python code): Seq(OneOf(Dict([0], ["."]), IntSpaces(-1, 4, 2)), 3) decodes "a"
   to [0, -1, -1]; serializing that fails (the Dict alternative takes the 0, no alternative takes a -1) *)
Theorem de_reencodable_statement_refuted : ~ de_reencodable_statement.
Proof. exact de_reencodable_unrestricted_false. Qed.
Print Assumptions de_reencodable_statement_refuted.

(* (1) leaves.  Every item a leaf decoder returns lies in the leaf's serialization domain
   ([leaf_dom]; a space of IntSpaces(sp, mi, ms) with ms > 0 is the one exception, see sp_cov) ... *)
Theorem leaf_decode_in_domain : forall e c s n items, wf c = true -> pleafmd c = true ->
  de e c s = Ok (Some (n, items)) -> Forall (item_of c) items.
Proof. exact leaf_de_dom. Qed.
Print Assumptions leaf_decode_in_domain.

(* ... and at a position holding an item v the serializer of Dict / Spaces / DecInt / HexInt / IntSpaces
   raises nothing, returns None exactly when v is outside the domain, and otherwise consumes at
   least one item and stays within the list *)
Theorem leaf_serialize_total : forall e c d p v, wf c = true -> pleaf c = true -> nth_error d p = Some v ->
  (ser e c (VList d) p = Ok None /\ leaf_dom c v = false) \/
  (exists k s, ser e c (VList d) p = Ok (Some (S k, s)) /\ (p + S k <= length d)%nat /\
               (single c = true -> k = 0%nat) /\ leaf_dom c v = true).
Proof. exact leaf_ser_cases. Qed.
Print Assumptions leaf_serialize_total.

(* a leaf, alternatives of leaves, or MultiDigit ([sbase]): decoded items lie in the domain [sdom], and a
   list of such items is serialized at EVERY position (so Seq.serialize's loop runs to the end) *)
Theorem scalar_decode_in_domain : forall e c s n items, wf c = true -> sbase c = true ->
  de e c s = Ok (Some (n, items)) -> Forall (fun v => sdom c v = true) items.
Proof. exact sbase_de_dom. Qed.
Print Assumptions scalar_decode_in_domain.

Theorem scalar_serialize_total : forall e c d p, wf c = true -> sbase c = true ->
  Forall (fun v => sdom c v = true) d -> (p < length d)%nat ->
  exists k s, ser e c (VList d) p = Ok (Some (S k, s)) /\ (p + S k <= length d)%nat.
Proof. exact sbase_ser_total. Qed.
Print Assumptions scalar_serialize_total.

(* (3) Rooms: whatever Rooms.deserialize returns - for ANY border bitmaps, redundant borders included -
   is a canonical partition of the declared board (CombWf.canonical_rooms: every cell in exactly one
   room, no empty room, rooms orthogonally connected, cells row-major, rooms by least cell) *)
Theorem rooms_de_canonical : forall e skip allow s n items, de e (Rooms skip allow) s = Ok (Some (n, items)) ->
  exists rs, items = [rooms_to_pv rs] /\ canonical_rooms (height e) (width e) rs.
Proof. exact TotalReencRooms.rooms_de_canonical. Qed.
Print Assumptions rooms_de_canonical.

(* (2) all terms satisfying the side conditions - OneOf / Tupl / Seq / Grid / Rooms / ValuedRooms by
   induction on the term: the decoded value is serialized (no None, no exception) and the canonical
   text - which may differ from the decoded text - decodes to the same value *)
Theorem de_reencodable : forall c h w s p, 1 <= h -> 1 <= w ->
  wf c = true -> tupl_single c = true -> dec_ok c = true -> single c = true -> reenc_ok c = true ->
  deserialize_problem c s h w = Ok (Some p) ->
  exists t, serialize_problem c p h w = Ok t /\ deserialize_problem c t h w = Ok (Some p).
Proof. exact de_reencodable_lemma. Qed.
Print Assumptions de_reencodable.

(* Combinator.serialize / deserialize form, any environment *)
Theorem de_reencodable_comb : forall e c s n p, env_ok e ->
  wf c = true -> tupl_single c = true -> dec_ok c = true -> single c = true -> reenc_ok c = true ->
  de e c s = Ok (Some (n, [p])) ->
  exists t, ser e c (VList [p]) 0 = Ok (Some (1%nat, t)) /\ de e c t = Ok (Some (length t, [p])).
Proof. intros e c s n p He. exact (de_reencodable_gen e c s n p He (or_introl (rooms_canon_holds e))). Qed.
Print Assumptions de_reencodable_comb.

(* each part of the side condition is needed: terms satisfying everything else whose decoded value is
   not serialized again (AssertionError, TypeError, a loop that never ends) or is serialized to the
   text of another value *)
Theorem reenc_ok_needed :
  (std_ok W_space = true /\ reenc_ok W_space = false /\
   deserialize_problem W_space (tx [97]%nat) 1 1 = Ok (Some (VList [VInt 0; VInt (-1); VInt (-1)])) /\
   serialize_problem W_space (VList [VInt 0; VInt (-1); VInt (-1)]) 1 1 = Err AssertionError) /\
  (std_ok W_md = true /\ reenc_ok W_md = false /\
   deserialize_problem W_md (tx [50; 46]%nat) 1 1 = Ok (Some (VList [VInt 1; VInt 0; VInt 7])) /\
   serialize_problem W_md (VList [VInt 1; VInt 0; VInt 7]) 1 1 = Err AssertionError) /\
  (std_ok W_fix = true /\ reenc_ok W_fix = false /\
   deserialize_problem W_fix (tx [120; 53]%nat) 1 1 = Ok (Some (VList [VInt 5])) /\
   serialize_problem W_fix (VList [VInt 5]) 1 1 = Err OtherError) /\
  (std_ok W_neg = true /\ reenc_ok W_neg = false /\
   deserialize_problem W_neg [] 1 1 = Ok (Some (VList [])) /\
   serialize_problem W_neg (VList []) 1 1 = Err AssertionError) /\
  (std_ok W_gneg = true /\ reenc_ok W_gneg = false /\
   deserialize_problem W_gneg (tx [53]%nat) 1 1 = Ok (Some (VList [])) /\
   serialize_problem W_gneg (VList []) 1 1 = Err AssertionError) /\
  (std_ok W_comp = true /\ reenc_ok W_comp = false /\
   deserialize_problem W_comp (tx [98; 49; 50]%nat) 1 1 = Ok (Some (VTup [VList []; VList [VList [VInt 1; VInt 2]]])) /\
   serialize_problem W_comp (VTup [VList []; VList [VList [VInt 1; VInt 2]]]) 1 1 = Err TypeError) /\
  (std_ok W_val = true /\ reenc_ok W_val = false /\
   deserialize_problem W_val (tx [120]%nat) 1 1 = Ok (Some (VList [VInt 1; VInt 2; VInt 3])) /\
   serialize_problem W_val (VList [VInt 1; VInt 2; VInt 3]) 1 1 = Ok (tx [49; 50]%nat) /\
   deserialize_problem W_val (tx [49; 50]%nat) 1 1 = Ok (Some (VList [VInt 1; VInt 2]))).
Proof.
  exact (conj reenc_needs_space_cover (conj reenc_needs_md_alone (conj reenc_needs_item_base
        (conj reenc_needs_nonneg_count (conj reenc_needs_nonneg_sizes
        (conj reenc_needs_leaf_alternatives reenc_needs_leaf_alternatives_value)))))).
Qed.
Print Assumptions reenc_ok_needed.

(* (3) the puzzle codecs, unconditionally: every problem deserialize_problem returns for nurikabe, masyu,
   slitherlink, sudoku, nurimisaki, heyawake, lits, norinori is serialized again, and the canonical text
   decodes to it *)
Theorem codecs_reencodable : forall c,
  In c [NURIKABE_COMBINATOR; MASYU_COMBINATOR; SLITHERLINK_COMBINATOR; SUDOKU_COMBINATOR; NURIMISAKI_COMBINATOR;
        HEYAWAKE_COMBINATOR; LITS_COMBINATOR; NORINORI_COMBINATOR] ->
  forall s h w p, 1 <= h -> 1 <= w ->
    deserialize_problem c s h w = Ok (Some p) ->
    exists t, serialize_problem c p h w = Ok t /\ deserialize_problem c t h w = Ok (Some p).
Proof. exact codecs_reencodable_lemma. Qed.
Print Assumptions codecs_reencodable.

Theorem grid_codecs_redecode : forall c,
  In c [NURIKABE_COMBINATOR; MASYU_COMBINATOR; SLITHERLINK_COMBINATOR; SUDOKU_COMBINATOR; NURIMISAKI_COMBINATOR] ->
  forall s h w p, 1 <= h -> 1 <= w ->
    deserialize_problem c s h w = Ok (Some p) ->
    exists t, serialize_problem c p h w = Ok t /\ deserialize_problem c t h w = Ok (Some p).
Proof. exact grid_codecs_redecode_lemma'. Qed.
Print Assumptions grid_codecs_redecode.

(* yajilin (YajilinClue, a Combinator subclass): every declared size, zero included *)
Theorem yajilin_reencodable : forall s h w p, 0 <= h -> 0 <= w ->
  deserialize_problem_cu yajilin_custom YAJILIN_COMBINATOR s h w = Ok (Some p) ->
  exists t, serialize_problem_cu yajilin_custom YAJILIN_COMBINATOR p h w = Ok t /\
            deserialize_problem_cu yajilin_custom YAJILIN_COMBINATOR t h w = Ok (Some p).
Proof. exact yajilin_reencodable_lemma. Qed.
Print Assumptions yajilin_reencodable.

(* earlier partial results, kept: HexInt alone; a decoded grid lies in the domain of C15's theorem *)
Theorem de_reencodable_partial_hexint : forall s k l, hexint_de s = Ok (Some (k, l)) ->
  exists z t, l = [VInt z] /\ 0 <= z <= 4095 /\
    hexint_ser (VList [VInt z]) 0 = Ok (Some (1%nat, t)) /\
    forall rest, hexint_de (t ++ rest) = Ok (Some (length t, [VInt z])).
Proof. exact hexint_reencodable_lemma. Qed.
Print Assumptions de_reencodable_partial_hexint.

Theorem de_reencodable_partial_grid : forall c1 s t h w p, 1 <= h -> 1 <= w -> flat c1 = true -> wf (Grid c1 None) = true ->
  deserialize_problem (Grid c1 None) s h w = Ok (Some p) ->
  serialize_problem (Grid c1 None) p h w = Ok t ->
  deserialize_problem (Grid c1 None) t h w = Ok (Some p).
Proof. exact grid_redecode_lemma. Qed.
Print Assumptions de_reencodable_partial_grid.
