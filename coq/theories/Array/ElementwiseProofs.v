(* C12 — proofs about Array/Elementwise.v: _elementwise is pointwise. *)
From Coq Require Import ZArith List Bool Lia.
From Cspuz Require Import Lib.PyErr Core.Expr Core.Build Array.Elementwise Array.ArraySpec.
Import ListNotations.
Open Scope Z_scope.

(* ---------------------------------------------------------------- mapM facts *)

Lemma mapM_nth_error {A B} (f : A -> res B) l r :
  mapM f l = Ok r ->
  forall i x, nth_error l i = Some x -> exists y, f x = Ok y /\ nth_error r i = Some y.
Proof.
  revert r; induction l as [|a l IH]; simpl; intros r H i x Hx.
  - destruct i; discriminate.
  - destruct (f a) as [b|] eqn:Fa; simpl in H; try discriminate.
    destruct (mapM f l) as [bs|] eqn:M; simpl in H; try discriminate.
    inversion H; subst r. destruct i as [|i]; simpl in *.
    + inversion Hx; subst. eauto.
    + eapply IH; eauto.
Qed.

Lemma mapM_err_from {A B} (f : A -> res B) l e :
  mapM f l = Err e -> exists x, In x l /\ f x = Err e.
Proof.
  induction l as [|a l IH]; simpl; intros H; try discriminate.
  destruct (f a) as [b|e'] eqn:Fa; simpl in H.
  - destruct (mapM f l) as [bs|e''] eqn:M; simpl in H; try discriminate.
    inversion H; subst. destruct (IH eq_refl) as [x [Hi Hx]]. exists x; auto.
  - inversion H; subst. exists a; auto.
Qed.

(* ------------------------------------------------- one node = one operator *)

Definition eval_node (o : op) (vs : list (option value)) : option value :=
  if is_bool_op o then eval_bop no_graph o vs else eval_iop o vs.

Lemma eval_mk_node en o args :
  eval no_graph en (mk_node o args) = eval_node o (map (eval no_graph en) args).
Proof. unfold mk_node, eval_node; destruct (is_bool_op o); reflexivity. Qed.

Lemma all_some_all_ints l :
  match all_some l with
  | Some vs => as_ints vs = all_ints l
  | None => all_ints l = None
  end.
Proof.
  induction l as [|[[b|z]|] l IH]; simpl; auto.
  - destruct (all_some l); simpl; auto.
  - destruct (all_some l); simpl.
    + rewrite IH; destruct (all_ints l); reflexivity.
    + rewrite IH; reflexivity.
Qed.

Lemma eval_node_op_sem o vs :
  arity_ok o (length vs) = true -> eval_node o vs = op_sem o vs.
Proof.
  intros Har.
  destruct o; simpl in Har; try discriminate;
  try (destruct vs as [|a [|b [|c vs]]]; simpl in Har; try discriminate;
       destruct a as [[x|x]|]; destruct b as [[y|y]|];
       cbn; rewrite ?andb_true_r, ?orb_false_r, ?Z.add_0_r, ?Z.geb_leb, ?Z.gtb_ltb; reflexivity);
  try (destruct vs as [|a [|b vs]]; simpl in Har; try discriminate;
       destruct a as [[x|x]|]; cbn; reflexivity).
  - (* IF *)
    destruct vs as [|a [|b [|c [|d vs]]]]; simpl in Har; try discriminate.
    destruct a as [[x|x]|]; destruct b as [[y|y]|]; destruct c as [[z|z]|]; cbn; reflexivity.
  - (* ALLDIFF *)
    unfold eval_node; simpl. unfold op_sem.
    pose proof (all_some_all_ints vs) as H.
    destruct (all_some vs); [rewrite H|rewrite H]; reflexivity.
Qed.

(* ------------------------------------------------------------ _elementwise *)

Lemma elem_typecheck_arity o ops :
  elem_typecheck o ops = Some true -> arity_ok o (length ops) = true.
Proof.
  destruct o; simpl; intros H; try discriminate;
  first [ inversion H as [H1]; apply andb_true_iff in H1; destruct H1 as [H1 _]; exact H1
        | reflexivity
        | destruct ops as [|a [|b [|c [|d ops]]]]; try discriminate; reflexivity ].
Qed.

Lemma operand_at_value_at en i ops args :
  mapM (operand_at i) ops = Ok args ->
  map (eval no_graph en) args = map (value_at en i) ops.
Proof.
  revert args; induction ops as [|v ops IH]; simpl; intros args H.
  - inversion H; reflexivity.
  - destruct (operand_at i v) as [e|] eqn:Ov; simpl in H; try discriminate.
    destruct (mapM (operand_at i) ops) as [es|] eqn:M; simpl in H; try discriminate.
    inversion H; subst args; simpl. rewrite (IH es eq_refl). f_equal.
    destruct v as [e'|k s d]; simpl in *.
    + inversion Ov; reflexivity.
    + destruct (nth_error d i); inversion Ov; reflexivity.
Qed.

Lemma nth_error_seq0 n i : (i < n)%nat -> nth_error (seq 0 n) i = Some i.
Proof.
  intros H. rewrite (nth_error_nth' (seq 0 n) O) by (rewrite seq_length; exact H).
  rewrite seq_nth by exact H. reflexivity.
Qed.

Theorem elementwise_spec o sh ops r :
  wf_shape sh -> elementwise o sh ops = Ok r ->
  exists data, r = VA (kind_of_op o) sh data /\ zlen data = shape_size sh /\
    forall i, (i < length data)%nat ->
      exists args, mapM (operand_at i) ops = Ok args /\
        nth_error data i = Some (mk_node o args) /\
        forall en, eval no_graph en (mk_node o args) = op_sem o (map (value_at en i) ops).
Proof.
  intros WF. unfold elementwise.
  destruct (elem_typecheck o ops) as [[|]|] eqn:TC; try discriminate.
  destruct (negb (forallb (shape_ok sh) ops)) eqn:SH; try discriminate.
  match goal with |- context [mapM ?f ?l] => destruct (mapM f l) as [data|] eqn:M end;
    simpl; try discriminate.
  pose proof (mapM_ok_length _ _ _ M) as L. rewrite seq_length in L.
  assert (LZ : zlen data = shape_size sh).
  { unfold zlen. rewrite L. destruct sh as [n|h w]; simpl in *.
    - apply Z2Nat.id; exact WF.
    - apply Z2Nat.id. destruct WF; apply Z.mul_nonneg_nonneg; assumption. }
  assert (PW : forall i, (i < length data)%nat ->
      exists args, mapM (operand_at i) ops = Ok args /\
        nth_error data i = Some (mk_node o args) /\
        forall en, eval no_graph en (mk_node o args) = op_sem o (map (value_at en i) ops)).
  { intros i Hi. rewrite L in Hi.
    destruct (mapM_nth_error _ _ _ M i i (nth_error_seq0 _ _ Hi)) as [y [Fy Ny]].
    destruct (mapM (operand_at i) ops) as [args|] eqn:MA; simpl in Fy; try discriminate.
    inversion Fy; subst y. exists args. split; [reflexivity|]. split; [exact Ny|].
    intros en. rewrite eval_mk_node, eval_node_op_sem.
    - rewrite (operand_at_value_at en i ops args MA). reflexivity.
    - rewrite map_length, (mapM_ok_length _ _ _ MA). apply elem_typecheck_arity; exact TC. }
  destruct sh as [n|h w].
  - intros H; inversion H; subst r. exists data. simpl in LZ. rewrite LZ. auto.
  - destruct (zlen data =? h * w) eqn:E; intros H; inversion H; subst r. exists data. auto.
Qed.
