(* C20 — model of the configuration / backend-selection / encoding-selection logic:
     cspuz/configuration.py   _get_default, _strtobool, _detect_backend, Config.__init__
     cspuz/solver.py          _get_backend_by_name, _get_default_backend, _get_backend,
                              Solver.find_answer / Solver.solve (which class is instantiated)
     cspuz/backend/sugar_like.py, backend/z3.py   (which external entry point a class calls)
     cspuz/graph.py           every use_graph_primitive decision and how the argument is
                              forwarded between the helpers.
   Everything that is a constant table in the Python source (name chains, detection order,
   default-on tuples, accepted boolean spellings, environment variable names, decision sites
   and forwarding calls of graph.py) is a field of [tables]; the translator
   harness/c20_translate.py regenerates Gen/ConfigTables.v from /repo on every run.
   No proofs in this file. *)
From Coq Require Import String Ascii List Bool Arith.
From Cspuz Require Import Lib.PyErr.
Import ListNotations.
Local Open Scope string_scope.
Local Open Scope res_scope.

(* ------------------------------------------------------------------ tables *)

Inductive cfgflag := FlagPrim | FlagDiv.     (* config.use_graph_primitive | config.use_graph_division_primitive *)
Inductive native_op := OpAVC | OpDIV.        (* Op.GRAPH_ACTIVE_VERTICES_CONNECTED | Op.GRAPH_DIVISION *)
Inductive entry := EntrySubprocess (default_path : string) | EntryModule (m : string).
Inductive argsrc := ArgPass | ArgConst (b : bool) | ArgOmitted.   (* what a call passes as use_graph_primitive *)
Inductive acysrc := AcyPass | AcyConst (b : bool).                (* what a call passes as acyclic (omitted = False) *)
Inductive branch := BrTop | BrPrim | BrElse.                      (* outside the guard | guard true | guard false *)
Inductive variant := VAny | VInferred | VExplicit.                (* outside | inside `if graph is None:` | its else *)

Record site := mk_site {        (* "if use_graph_primitive is None: use_graph_primitive = config.<flag>" + its guard *)
  s_fn : string; s_flag : cfgflag; s_not_acyclic : bool }.
Record callrec := mk_call {     (* a call to a function that has a use_graph_primitive parameter *)
  c_caller : string; c_branch : branch; c_variant : variant; c_callee : string;
  c_arg : argsrc; c_acy : acysrc; c_graph : bool (* the call passes a graph *);
  c_guarded : bool (* the call sits under a further, data-dependent condition *) }.
Record emitrec := mk_emit { e_fn : string; e_branch : branch; e_op : native_op }.
Record raiserec := mk_raise { r_fn : string; r_branch : branch; r_exc : string }.

Record tables := mk_tables {
  t_backends : list (string * string);   (* _get_backend_by_name: if/elif chain, name -> class, in order *)
  t_detect : list (string * string);     (* _detect_backend: (module imported, name returned), in order *)
  t_detect_fallback : string;
  t_env_backend : string;                (* "CSPUZ_DEFAULT_BACKEND" *)
  t_backend_default : string;            (* value used when the variable is unset *)
  t_auto : string;                       (* the value that triggers detection *)
  t_env_path : string;
  t_env_prim : string;
  t_env_div : string;
  t_prim_on : list string;               (* backends for which use_graph_primitive defaults to on *)
  t_div_on : list string;
  t_on_str : string;                     (* the default strings handed to _strtobool *)
  t_off_str : string;
  t_true : list string;                  (* _strtobool: accepted spellings after lower() *)
  t_false : list string;
  t_entries : list (string * entry);     (* class -> external entry point *)
  t_sites : list site;
  t_calls : list callrec;
  t_emits : list emitrec;
  t_raises : list raiserec
}.

(* ------------------------------------------------------------------ strings *)

Definition lower_ascii (c : ascii) : ascii :=
  let n := nat_of_ascii c in
  if Nat.leb 65 n && Nat.leb n 90 then ascii_of_nat (n + 32)%nat else c.

(* str.lower() restricted to what matters here: bytes of the UTF-8 form; only A-Z change.
   (No non-ASCII code point lower-cases to a string containing one of the ASCII letters of
   "true"/"false"; the harness re-validates this fact against CPython on every run.) *)
Fixpoint lower (s : string) : string :=
  match s with
  | EmptyString => EmptyString
  | String c r => String (lower_ascii c) (lower r)
  end.

Definition mem (s : string) (l : list string) : bool := existsb (String.eqb s) l.

Fixpoint assoc {A} (k : string) (l : list (string * A)) : option A :=
  match l with
  | [] => None
  | (k', v) :: r => if k =? k' then Some v else assoc k r
  end.

(* ------------------------------------------------------------------ configuration.py *)

Definition strtobool (T : tables) (s : string) : res bool :=
  let s := lower s in
  if mem s T.(t_true) then Ok true
  else if mem s T.(t_false) then Ok false
  else Err ValueError.

Fixpoint detect_from (l : list (string * string)) (fallback : string) (avail : string -> bool) : string :=
  match l with
  | [] => fallback
  | (m, b) :: r => if avail m then b else detect_from r fallback avail
  end.

Definition detect_backend (T : tables) (avail : string -> bool) : string :=
  detect_from T.(t_detect) T.(t_detect_fallback) avail.

Record config := mk_config {
  default_backend : string;
  backend_path : option string;
  use_graph_primitive : bool;
  use_graph_division_primitive : bool
}.

(* _get_default(infer_from_env, key, default): None stands for "default is used" *)
Definition get_default (infer : bool) (env : string -> option string) (key : string) : option string :=
  if infer then env key else None.

Definition or_default (o : option string) (d : string) : string :=
  match o with Some s => s | None => d end.

(* Config.__init__(infer_from_env) under environment [env] and importable modules [avail] *)
Definition config_of_env (T : tables) (infer : bool) (env : string -> option string)
           (avail : string -> bool) : res config :=
  let db0 := or_default (get_default infer env T.(t_env_backend)) T.(t_backend_default) in
  let db := if db0 =? T.(t_auto) then detect_backend T avail else db0 in
  let bp := get_default infer env T.(t_env_path) in
  let pd := if mem db T.(t_prim_on) then T.(t_on_str) else T.(t_off_str) in
  let dd := if mem db T.(t_div_on) then T.(t_on_str) else T.(t_off_str) in
  let* p := strtobool T (or_default (get_default infer env T.(t_env_prim)) pd) in
  let* d := strtobool T (or_default (get_default infer env T.(t_env_div)) dd) in
  Ok (mk_config db bp p d).

(* ------------------------------------------------------------------ solver.py *)

Definition backend_by_name (T : tables) (name : string) : res string :=
  match assoc name T.(t_backends) with
  | Some c => Ok c
  | None => Err ValueError
  end.

Inductive backend_arg := BNone | BName (s : string) | BClass (id : string).
Inductive backend_cls := ClsNamed (qualname : string) | ClsUser (id : string).

Definition get_backend (T : tables) (a : backend_arg) (cfg : config) : res backend_cls :=
  match a with
  | BNone => rmap ClsNamed (backend_by_name T cfg.(default_backend))
  | BName s => rmap ClsNamed (backend_by_name T s)
  | BClass id => Ok (ClsUser id)
  end.

(* the external entry point a solve on that class reaches *)
Inductive entry_call := CallSubprocess (argv0 : string) | CallModule (m : string) | CallUser (id : string).

Definition entry_of (T : tables) (cls : backend_cls) (cfg : config) : res entry_call :=
  match cls with
  | ClsUser id => Ok (CallUser id)
  | ClsNamed q =>
      match assoc q T.(t_entries) with
      | Some (EntrySubprocess d) =>
          Ok (CallSubprocess (match cfg.(backend_path) with
                              | Some p => if p =? "" then d else p      (* config.backend_path or "sugar" *)
                              | None => d
                              end))
      | Some (EntryModule m) => Ok (CallModule m)
      | None => Err OtherError
      end
  end.

(* Solver.find_answer(backend=a) / Solver.solve(backend=a): class instantiated and entry reached *)
Definition solve_receiver (T : tables) (a : backend_arg) (cfg : config) : res (backend_cls * entry_call) :=
  let* cls := get_backend T a cfg in
  let* e := entry_of T cls cfg in
  Ok (cls, e).

(* ------------------------------------------------------------------ graph.py *)

Definition flag_value (cfg : config) (f : cfgflag) : bool :=
  match f with
  | FlagPrim => cfg.(use_graph_primitive)
  | FlagDiv => cfg.(use_graph_division_primitive)
  end.

Definition find_site (T : tables) (fn : string) : option site :=
  find (fun s => s.(s_fn) =? fn) T.(t_sites).

(* value of the local variable use_graph_primitive after the "is None" fallback of [fn] *)
Definition arg_resolved (T : tables) (fn : string) (cfg : config) (arg : option bool) : option bool :=
  match find_site T fn with
  | None => arg
  | Some s => Some (match arg with Some b => b | None => flag_value cfg s.(s_flag) end)
  end.

(* the decision of the site in [fn]: is the primitive branch taken?  None: no decision in [fn] *)
Definition resolve_primitive (T : tables) (fn : string) (cfg : config) (arg : option bool)
           (acyclic : bool) : option bool :=
  match find_site T fn with
  | None => None
  | Some s =>
      let u := match arg with Some b => b | None => flag_value cfg s.(s_flag) end in
      Some (u && (if s.(s_not_acyclic) then negb acyclic else true))
  end.

Definition branch_active (taken : option bool) (b : branch) : bool :=
  match b, taken with
  | BrTop, _ => true
  | BrPrim, Some true => true
  | BrElse, Some false => true
  | _, _ => false
  end.

Definition variant_active (v : variant) (explicit : bool) : bool :=
  match v with VAny => true | VInferred => negb explicit | VExplicit => explicit end.

Definition pyerr_of_name (s : string) : pyerr :=
  if s =? "ValueError" then ValueError
  else if s =? "TypeError" then TypeError
  else if s =? "IndexError" then IndexError
  else if s =? "KeyError" then KeyError
  else if s =? "AssertionError" then AssertionError
  else if s =? "NotImplementedError" then NotImplementedErr
  else OtherError.

(* native operators posted by a call fn(..., [graph,] acyclic=acyclic, use_graph_primitive=arg)
   under cfg; [explicit] says whether a graph is passed (else it is inferred from a 2-D array /
   grid frame); [dd] says whether the data-dependent conditions guarding some calls hold (today
   one: the single-row / single-column test in active_vertices_not_adjacent_and_not_segmenting).
   Each emitting statement is counted once; loops around it are assumed to run at least once. *)
Fixpoint run (T : tables) (fuel : nat) (fn : string) (cfg : config) (arg : option bool)
         (acyclic : bool) (explicit : bool) (dd : bool) : res (list native_op) :=
  match fuel with
  | O => Err RecursionError
  | S f =>
      let taken := resolve_primitive T fn cfg arg acyclic in
      let now := arg_resolved T fn cfg arg in
      match find (fun r => (r.(r_fn) =? fn) && branch_active taken r.(r_branch)) T.(t_raises) with
      | Some r => Err (pyerr_of_name r.(r_exc))
      | None =>
          let here := map e_op (filter (fun e => (e.(e_fn) =? fn) && branch_active taken e.(e_branch)) T.(t_emits)) in
          let calls := filter (fun c => (c.(c_caller) =? fn) && branch_active taken c.(c_branch)
                                        && variant_active c.(c_variant) explicit
                                        && (negb c.(c_guarded) || dd)) T.(t_calls) in
          let* sub := mapM (fun c =>
                              run T f c.(c_callee) cfg
                                  (match c.(c_arg) with ArgPass => now | ArgConst b => Some b | ArgOmitted => None end)
                                  (match c.(c_acy) with AcyPass => acyclic | AcyConst b => b end)
                                  c.(c_graph) dd) calls in
          Ok (here ++ concat sub)%list
      end
  end.

Definition run_fuel : nat := 8.

Definition emits (T : tables) (fn : string) (cfg : config) (arg : option bool) (acyclic explicit dd : bool) :=
  run T run_fuel fn cfg arg acyclic explicit dd.

(* ------------------------------------------------------------------ helpers for the runner *)

Definition env_of_list (l : list (string * string)) : string -> option string := fun k => assoc k l.
Definition avail_of_list (l : list string) : string -> bool := fun m => mem m l.
