"""C11 plug-in: nurimisaki (solve_nurimisaki(height, width, problem)); -1 no circle, 0 circle, n >= 1 circle with n."""
import c11lib as L

NAME = "nurimisaki"
MODULE = "cspuz.puzzle.nurimisaki"
FUNC = "solve_nurimisaki"
TIER1 = ("Nurimisaki", "solve_nurimisaki_model")
TIER1_PRIM = ("NurimisakiPrim", "solve_nurimisaki_model_prim")


def call(mod, pb):
    return mod.solve_nurimisaki(pb["h"], pb["w"], pb["grid"])


def ncand(pb):
    return 2 ** (pb['h'] * pb['w'])


def encode(pb):
    return [[pb["h"], pb["w"]], L.flat(pb["grid"])]


def _values(h, w):
    return [-1, 0] + list(range(1, max(h, w) + 1))


def families(tier, rng):
    th = tier == "thorough"
    for (h, w) in [(1, 1), (1, 2), (2, 1), (1, 3), (3, 1), (2, 2)] + ([(1, 4), (2, 3), (3, 2)] if th else []):
        for g in L.all_grids(h, w, _values(h, w)):
            yield {"h": h, "w": w, "grid": g}
    for (h, w) in [(1, 4), (2, 3), (3, 2), (3, 3), (2, 4), (4, 2), (3, 4), (4, 4)]:
        for _ in range(200 if th else 25):
            yield {"h": h, "w": w, "grid": L.random_grid(rng, h, w, _values(h, w), 0.75)}


def classify(pb, what):
    """stable violation key (not a known finding any more: fixed by f977eba)"""
    if any(v == 1 for row in pb["grid"] for v in row):
        return "nurimisaki:clue-1"
    return None


def tier2(tier, rng):
    th = tier == "thorough"
    for (h, w) in [(1, 1), (1, 2), (2, 1)]:
        for g in L.all_grids(h, w, _values(h, w)):
            yield {"h": h, "w": w, "grid": g}
    for g in L.sample(rng, L.all_grids(2, 2, _values(2, 2)), 30 if th else 4):
        yield {"h": 2, "w": 2, "grid": g}


def tier1_problems(tier, rng):
    """program-capture tie: every grid of the tiniest boards, random grids on small, non-square and larger boards
    with numbers from 1 up to beyond the board size (circles on the rim and in corners), boards without cells"""
    th = tier == "thorough"
    for (h, w) in [(1, 1), (1, 2), (2, 1)]:
        for g in L.all_grids(h, w, _values(h, w) + [max(h, w) + 1]):
            yield {"h": h, "w": w, "grid": g}
    for (h, w) in [(1, 3), (3, 1), (2, 2)]:
        for g in L.sample(rng, L.all_grids(h, w, _values(h, w) + [max(h, w) + 1]), 200 if th else 30):
            yield {"h": h, "w": w, "grid": g}
    for (h, w) in [(2, 3), (3, 2), (3, 3), (2, 5), (5, 2), (4, 4), (3, 6), (6, 5), (1, 7), (7, 1), (8, 8)]:
        for p in [0.3, 0.6, 0.8, 0.9] * (3 if th else 1):
            yield {"h": h, "w": w, "grid": L.random_grid(rng, h, w, _values(h, w) + [max(h, w) + 1], p)}
        yield {"h": h, "w": w, "grid": [[rng.randint(0, max(h, w) + 1) for _ in range(w)] for _ in range(h)]}
    for (h, w) in [(0, 0), (0, 2), (2, 0)]:
        yield {"h": h, "w": w, "grid": [[] for _ in range(h)]}


def big(tier, rng):
    """long single-row / single-column boards, everything unshaded: the two ends are capes; one carries the
    two-digit length of the line, the other a circle without number (or also the length)"""
    th = tier == "thorough"
    for n in (L.LONG if th else L.sample(rng, L.LONG, 3) + [21]):
        for other in (0, n):
            row = [-1] * n
            row[0], row[n - 1] = n, other
            yield {"h": 1, "w": n, "grid": [row], "planted": [[1] * n]}
            yield {"h": n, "w": 1, "grid": [[v] for v in row[::-1]], "planted": [[1] * n]}
