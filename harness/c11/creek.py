"""C11 plug-in: creek (solve_creek(height, width, problem)); problem is (h+1) x (w+1), -1 = no clue."""
import c11lib as L

NAME = "creek"
MODULE = "cspuz.puzzle.creek"
FUNC = "solve_creek"
TIER1 = ("Creek", "solve_creek_model")
TIER1_PRIM = ("CreekPrim", "solve_creek_model_prim")
VALUES = [-1, 0, 1, 2, 3, 4]


def call(mod, pb):
    return mod.solve_creek(pb["h"], pb["w"], pb["grid"])


def ncand(pb):
    return 2 ** (pb['h'] * pb['w'])


def encode(pb):
    return [[pb["h"], pb["w"]], L.flat(pb["grid"])]


def families(tier, rng):
    th = tier == "thorough"
    for g in L.all_grids(2, 2, VALUES):
        yield {"h": 1, "w": 1, "grid": g}
    for (h, w) in [(1, 2), (2, 1)]:
        gs = L.all_grids(h + 1, w + 1, VALUES)
        for g in (gs if th else L.sample(rng, gs, 200)):
            yield {"h": h, "w": w, "grid": g}
    for (h, w) in [(2, 2), (1, 3), (3, 1), (2, 3), (3, 2), (3, 3), (2, 4), (4, 4)]:
        for _ in range(300 if th else 30):
            yield {"h": h, "w": w, "grid": L.random_grid(rng, h + 1, w + 1, VALUES, 0.6)}


def tier2(tier, rng):
    th = tier == "thorough"
    for g in L.sample(rng, L.all_grids(2, 2, VALUES), 100 if th else 10):
        yield {"h": 1, "w": 1, "grid": g}
    for (h, w) in [(1, 2), (2, 1), (2, 2), (1, 3)]:
        for _ in range(20 if th else 3):
            yield {"h": h, "w": w, "grid": L.random_grid(rng, h + 1, w + 1, VALUES, 0.6)}


def tier1_problems(tier, rng):
    """program-capture tie: every clue layout of the 1x1 board, samples on small, non-square and larger boards
    (clues on the rim and in the corners, zero clues), the boards without cells (ValueError)"""
    th = tier == "thorough"
    for g in L.sample(rng, L.all_grids(2, 2, VALUES), 200 if th else 20):
        yield {"h": 1, "w": 1, "grid": g}
    for (h, w) in [(1, 2), (2, 1), (2, 2), (1, 3), (3, 1), (2, 3), (3, 2), (3, 3), (2, 5), (5, 2), (4, 4), (3, 6), (6, 5), (1, 7), (7, 1)]:
        for _ in range(12 if th else 3):
            yield {"h": h, "w": w, "grid": L.random_grid(rng, h + 1, w + 1, VALUES, 0.5)}
        yield {"h": h, "w": w, "grid": L.random_grid(rng, h + 1, w + 1, VALUES[1:], 0.0, default=0)}
    for (h, w) in [(0, 0), (0, 2), (2, 0)]:
        yield {"h": h, "w": w, "grid": [[-1] * (w + 1) for _ in range(h + 1)]}
