(* C11 Tier 1, native-operator route - cspuz/puzzle/slitherlink.py::solve_slitherlink when
   cspuz.config.use_graph_primitive is on (the default with the csugar / enigma_csp / cspuz_core backends):
   graph.active_edges_single_cycle(solver, grid_frame) declares the array is_passed, posts one degree
   constraint per lattice point and ONE native node Op.GRAPH_ACTIVE_VERTICES_CONNECTED over the line graph of
   the frame graph (model Graph/Cycle.v::active_edges_single_cycle with prim = true, property C06; the native
   node means Cycle.gsem_c06).  No rank / root variables are declared; everything else solve_slitherlink posts
   is unchanged (Slitherlink.v::slitherlink_constraints; the clue constraints only mention the frame variables,
   whose ids do not move).
   Error points: as Slitherlink.v::solve_slitherlink_model, except for boards with BOTH dimensions negative: the
   auxiliary-variable route raises ValueError there (int_array(0, 0, -1) inside the graph call) while the native
   route runs through (CyclePrimCompose.frame_cycle_prim_z; the loops over the cells are empty).  Exactly one
   negative dimension: ValueError from Array2D.__init__, as before.
   Theorem slitherlink_exact_prim: same statement as SlitherlinkProofs.slitherlink_exact, for the evaluator
   gsem_c06; the graph side is CyclePrimCompose.cycle_frame_prim_compose. *)
From Coq Require Import ZArith List Bool Arith Lia.
From Cspuz Require Import Lib.PyErr Core.Expr Core.Program Graph.GraphModel Graph.Cycle
     Puzzle.PuzzleBase Puzzle.SatAbs Puzzle.ModelBase Puzzle.ModelLemmas Puzzle.WfLemmas
     Puzzle.CycleFrameBase Puzzle.CycleCompose Puzzle.CyclePrimCompose
     Puzzle.Rules_slitherlink Puzzle.Slitherlink Puzzle.SlitherlinkProofs Puzzle.SlitherlinkWf.
Import ListNotations.
Local Open Scope nat_scope.

Definition solve_slitherlink_model_prim (pb : problem) : res state :=
  let h := dim pb 0 in let w := dim pb 1 in
  match frame_cycle_prim_z (getz (sec pb 0) 0) (getz (sec pb 0) 1) with
  | Ok (st1, _) =>
      if Nat.ltb (length (sec pb 1)) (h * w) then Err IndexError
      else Ok (ensure st1 (slitherlink_constraints h w (sec pb 1)))
  | Err e => Err e
  end.

(* the clue constraints contain no native node: SlitherlinkProofs.slither_clues_core for gsem_c06 *)
Lemma slither_clues_core_prim h w clues en :
  slither_local h w clues (map (fun i => PuzzleBase.b2z (eb en i)) (seq 0 (frame_n h w))) =
  forallb (holds gsem_c06 en) (slitherlink_constraints h w clues).
Proof.
  rewrite (holds_c06_no_graph _ en _ (slitherlink_constraints_ok h w clues)). apply slither_clues_core.
Qed.

Theorem slitherlink_exact_prim h w clues st ans :
  solve_slitherlink_model_prim [[Z.of_nat h; Z.of_nat w]; clues] = Ok st ->
  ((exists en, model_of gsem_c06 en st /\ reads st en (seq 0 (S h * w + h * S w)) = ans)
   <-> rules_slitherlink [[Z.of_nat h; Z.of_nat w]; clues] ans = true).
Proof.
  unfold solve_slitherlink_model_prim, rules_slitherlink.
  change (sec [[Z.of_nat h; Z.of_nat w]; clues] 1) with clues.
  change (sec [[Z.of_nat h; Z.of_nat w]; clues] 0) with [Z.of_nat h; Z.of_nat w].
  change (getz [Z.of_nat h; Z.of_nat w] 0) with (Z.of_nat h).
  change (getz [Z.of_nat h; Z.of_nat w] 1) with (Z.of_nat w).
  destruct (slither_dims h w [clues]) as [-> ->]. rewrite frame_cycle_prim_z_nat.
  destruct (frame_cycle_prim h w) as [[st1 res]|e] eqn:Hcall; [|discriminate].
  destruct (Nat.ltb (length clues) (h * w)); [discriminate|].
  intros Hst. inversion Hst; subst st. clear Hst.
  destruct (cycle_frame_prim_compose h w (slitherlink_constraints h w clues) (slither_local h w clues)
              st1 res ans Hcall (fun en _ => slither_clues_core_prim h w clues en)) as [_ EX].
  change (S h * w + h * S w) with (frame_n h w). rewrite EX, n_lattice_frame. reflexivity.
Qed.

(* the model accepts every problem with enough clue entries (the premise of slitherlink_exact_prim is satisfiable) *)
Lemma slitherlink_model_prim_total h w clues :
  h * w <= length clues -> exists st, solve_slitherlink_model_prim [[Z.of_nat h; Z.of_nat w]; clues] = Ok st.
Proof.
  intros Hl. unfold solve_slitherlink_model_prim.
  change (sec [[Z.of_nat h; Z.of_nat w]; clues] 1) with clues.
  change (sec [[Z.of_nat h; Z.of_nat w]; clues] 0) with [Z.of_nat h; Z.of_nat w].
  change (getz [Z.of_nat h; Z.of_nat w] 0) with (Z.of_nat h).
  change (getz [Z.of_nat h; Z.of_nat w] 1) with (Z.of_nat w).
  destruct (slither_dims h w [clues]) as [-> ->]. rewrite frame_cycle_prim_z_nat.
  destruct (frame_cycle_prim_ok h w) as [st1 [Hc _]]. rewrite Hc.
  replace (Nat.ltb (length clues) (h * w)) with false by (symmetry; apply Nat.ltb_ge; exact Hl).
  eexists. reflexivity.
Qed.

Example slitherlink_model_prim_ok : exists st, solve_slitherlink_model_prim [[1; 1]; [2]]%Z = Ok st.
Proof. apply (slitherlink_model_prim_total 1 1 [2%Z]). simpl. lia. Qed.
