"""C11 plug-in: castle_wall (solve_castle_wall(height, width, arrow, inside));
arrow cells '..' (no clue), '^n' 'vn' '<n' '>n', '??' (clue without arrow); inside True (white) / False (black) / None (gray)."""
import c11lib as L

NAME = "castle_wall"
MODULE = "cspuz.puzzle.castle_wall"
FUNC = "solve_castle_wall"
LOOP = True
KIND = {"^": 1, "v": 2, "<": 3, ">": 4}
TIER1 = ("CastleWall", "solve_castle_wall_model")
TIER1_PRIM = ("CastleWallPrim", "solve_castle_wall_model_prim")


def call(mod, pb):
    inside = [[{0: None, 1: True, 2: False}[v] for v in row] for row in pb["side"]]
    return mod.solve_castle_wall(pb["h"], pb["w"], pb["arrow"], inside)


def ncand(pb):
    return 2 ** L.n_loop_edges(pb["h"], pb["w"])


def encode(pb):
    kind, num = [], []
    for row in pb["arrow"]:
        for c in row:
            if c == "..":
                kind.append(0)
                num.append(0)
            elif c[0] in KIND:
                kind.append(KIND[c[0]])
                num.append(int(c[1:]))
            else:
                kind.append(5)
                num.append(0)
    return [[pb["h"], pb["w"]], kind, num, L.flat(pb["side"])]


def _rand(rng, h, w, p):
    arrow = [[".."] * w for _ in range(h)]
    side = [[0] * w for _ in range(h)]
    for y in range(h):
        for x in range(w):
            if rng.random() < p:
                arrow[y][x] = rng.choice(["??"] + [d + str(rng.randint(0, 2)) for d in "^v<>"])
                side[y][x] = rng.choice([0, 1, 2])
    return {"h": h, "w": w, "arrow": arrow, "side": side}


def _single(h, w):
    for y in range(h):
        for x in range(w):
            for c in ["??"] + [d + str(n) for d in "^v<>" for n in (0, 1, 2)]:
                for s in (0, 1, 2):
                    arrow = [[".."] * w for _ in range(h)]
                    side = [[0] * w for _ in range(h)]
                    arrow[y][x] = c
                    side[y][x] = s
                    yield {"h": h, "w": w, "arrow": arrow, "side": side}


def families(tier, rng):
    th = tier == "thorough"
    for (h, w) in [(1, 1), (1, 2), (2, 1), (2, 2), (1, 3), (2, 3), (3, 2), (3, 3), (2, 4), (4, 2)]:
        one = list(_single(h, w))
        for pb in (one if th or h * w <= 4 else L.sample(rng, one, 40)):
            yield pb
        for _ in range(60 if th else 8):
            yield _rand(rng, h, w, 0.3)
    if th:
        for (h, w) in [(3, 4), (4, 3)]:
            for _ in range(60):
                yield _rand(rng, h, w, 0.25)


def _mk(h, w, cells):
    """cells: {(y, x): (arrow string, side)}"""
    arrow = [[".."] * w for _ in range(h)]
    side = [[0] * w for _ in range(h)]
    for (y, x), (a, sd) in cells.items():
        arrow[y][x] = a
        side[y][x] = sd
    return {"h": h, "w": w, "arrow": arrow, "side": side}


def tier1_problems(tier, rng):
    """program-capture tie: every single-clue layout (all four arrows with the numbers 0..2, the arrowless clue; gray / white /
    black) of the boards with <= 6 cells in both orientations (1x1 .. 1x6, 6x1, 2x2, 2x3, 3x2: the single-row / single-column
    boards included), a sample of the two-clue layouts of those boards, ~50 random larger and non-square boards (up to 7x7,
    1xN, Nx1, 2xN, Nx2) with clue numbers at and beyond the boundaries (0, the line length, above it, negative, two digits),
    boards where every cell is a white / black clue, marks on non-clue cells, and malformed problems: height <= 0 or width <= 0 (ValueError), trailing cells / rows of arrow or inside missing
    (IndexError)"""
    th = tier == "thorough"
    small = [(1, 1), (1, 2), (2, 1), (1, 3), (3, 1), (2, 2), (1, 4), (4, 1), (1, 5), (5, 1), (2, 3), (3, 2), (1, 6), (6, 1)]
    for (h, w) in small:
        yield _mk(h, w, {})
        one = list(_single(h, w))
        for pb in (one if th or h * w <= 4 else L.sample(rng, one, 60)):
            yield pb
        if h * w >= 2:
            clues = ["??"] + [d + str(n) for d in "^v<>" for n in (0, 1, 2)]
            for _ in range(60 if th else 12):
                c1, c2 = rng.sample([(y, x) for y in range(h) for x in range(w)], 2)
                yield _mk(h, w, {c1: (rng.choice(clues), rng.choice([0, 1, 2])), c2: (rng.choice(clues), rng.choice([0, 1, 2]))})
    far = [-2, -1, 0, 0, 1, 1, 2, 3, 4, 5, 6, 7, 9, 10, 12]
    big = [(3, 3), (2, 4), (4, 2), (2, 5), (5, 2), (3, 4), (4, 3), (4, 4), (3, 6), (6, 3), (5, 5), (4, 6), (6, 5), (7, 7),
           (1, 7), (7, 1), (1, 9), (8, 1), (2, 7), (7, 2), (3, 5), (5, 4), (6, 6), (2, 9), (9, 2)]
    for (h, w) in big:
        for p in [0.15, 0.5] * (3 if th else 1):
            cells = {}
            for y in range(h):
                for x in range(w):
                    if rng.random() < p:
                        a = rng.choice(["??", "?x"] + [d + str(rng.choice(far)) for d in "^v<>"] * 2)
                        cells[(y, x)] = (a, rng.choice([0, 1, 2]))
            yield _mk(h, w, cells)
    # every cell a clue: the corners / borders use is_inside[max(0, y - 1), max(0, x - 1)]
    for (h, w) in [(2, 2), (3, 3), (2, 4), (4, 3)]:
        for sd in (1, 2):
            yield _mk(h, w, {(y, x): ("??", sd) for y in range(h) for x in range(w)})
    # white / black marks on cells that are NOT clue cells (outside Rules_castle_wall's encoding, theorem hypothesis cw_wf; the
    # Python posts the is_inside constraint for them all the same, and so does the model)
    for (h, w) in [(1, 1), (1, 3), (2, 2), (3, 3), (3, 4), (5, 2)]:
        for _ in range(6 if th else 2):
            yield _mk(h, w, {(y, x): (rng.choice(["..", "..", "??", ">1"]), rng.choice([0, 1, 2])) for y in range(h) for x in range(w)})
    # malformed: a non-positive dimension -> ValueError (Array2D.__init__ / int_array); both negative is out of scope
    for (h, w) in [(0, 0), (0, 1), (1, 0), (0, 3), (3, 0), (-1, 2), (2, -1), (-1, 0), (0, -3), (-2, 3), (4, -2)]:
        yield {"h": h, "w": w, "arrow": [[".."] * max(w, 0) for _ in range(max(h, 0))],
               "side": [[0] * max(w, 0) for _ in range(max(h, 0))]}
    # malformed: trailing cells / rows missing -> IndexError
    for (h, w) in [(1, 1), (1, 3), (2, 2), (3, 2), (4, 4)]:
        pb = _rand(rng, h, w, 0.4)
        a, s = pb["arrow"], pb["side"]
        yield {"h": h, "w": w, "arrow": a[:-1] + [a[-1][:-1]], "side": s[:-1] + [s[-1][:-1]]}
        yield {"h": h, "w": w, "arrow": a[:-1], "side": s[:-1]}
        yield {"h": h, "w": w, "arrow": a, "side": s[:-1] + [s[-1][:-1]]}
        yield {"h": h, "w": w, "arrow": a, "side": s[:-1]}
        yield {"h": h, "w": w, "arrow": [], "side": []}


def classify(pb, what):
    """stable violation key (not a known finding any more: fixed by 557c2c1)"""
    if "raises" in what and (pb["h"] == 1 or pb["w"] == 1):
        return "castle_wall:raises:single-row-or-column"
    return None


def tier2(tier, rng):
    th = tier == "thorough"
    for (h, w) in [(2, 2), (2, 3)]:
        for pb in L.sample(rng, _single(h, w), 20 if th else 4):
            yield pb
    # single row / single column: no loop fits, white clue cells make the problem unsolvable
    for (h, w) in [(1, 1), (1, 2), (2, 1), (1, 3), (3, 1)]:
        one = [pb for pb in _single(h, w) if pb["side"] != [[0] * w for _ in range(h)]]
        for pb in L.sample(rng, one, 12 if th else 3):
            yield pb


def big(tier, rng):
    """2 x N (and N x 2) boards with a two-digit arrow clue: a black clue '>k' in a corner, the loop is a ring
    around k + 1 columns further along"""
    th = tier == "thorough"
    for n in (L.LONG if th else L.sample(rng, L.LONG, 3) + [13]):
        k = rng.randint(10, n - 2) if n >= 12 else n - 2
        a = rng.randint(1, n - 1 - k)           # the ring covers columns a .. a + k
        arrow = [[".."] * n for _ in range(2)]
        side = [[0] * n for _ in range(2)]
        arrow[0][0] = ">" + str(k)
        side[0][0] = 2
        segs = set()
        for c in range(a, a + k):
            segs.add(((0, c), (0, c + 1)))
            segs.add(((1, c), (1, c + 1)))
        segs.add(((0, a), (1, a)))
        segs.add(((0, a + k), (1, a + k)))
        yield {"h": 2, "w": n, "arrow": arrow, "side": side, "planted": [L.lattice_answer(2, n, segs)]}
        arrow_t = [[{">": "v"}.get(c[0], c[0]) + c[1:] for c in r] for r in L.transpose_grid(arrow)]
        segs_t = {((y1, x1)[::-1], (y2, x2)[::-1]) for ((y1, x1), (y2, x2)) in segs}
        yield {"h": n, "w": 2, "arrow": arrow_t, "side": L.transpose_grid(side), "planted": [L.lattice_answer(n, 2, segs_t)]}
