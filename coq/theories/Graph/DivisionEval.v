(* C05: generic evaluation facts used by Graph/DivisionProofs.v — induction on
   expression trees, stability of eval under agreeing assignments, the variable
   arrays of the Solver model, bounds of appended declarations, the meaning of
   the constructor shorthands and of count_true on lists of BoolExpr nodes. *)
From Coq Require Import ZArith List Bool Arith Lia.
From Cspuz Require Import Lib.PyErr Core.Expr Core.Program Core.Build Graph.GraphModel Graph.Division
  Graph.DivisionCert.
Import ListNotations.
Open Scope nat_scope.

(* ------------------------------------------------------------------------ *)
(* induction on trees                                                        *)

Section ExprInd.
  Variable P : expr -> Prop.
  Hypothesis Hb : forall b, P (PyBool b).
  Hypothesis Hi : forall z, P (PyInt z).
  Hypothesis Hn : P PyNone.
  Hypothesis Hbv : forall i, P (BVar i).
  Hypothesis Hiv : forall i lo hi, P (IVar i lo hi).
  Hypothesis Hbn : forall o args, Forall P args -> P (BNode o args).
  Hypothesis Hin : forall o args, Forall P args -> P (INode o args).

  Fixpoint expr_ind' (e : expr) : P e :=
    match e with
    | PyBool b => Hb b
    | PyInt z => Hi z
    | PyNone => Hn
    | BVar i => Hbv i
    | IVar i lo hi => Hiv i lo hi
    | BNode o args =>
        Hbn o args ((fix go (l : list expr) : Forall P l :=
                       match l with
                       | [] => Forall_nil P
                       | x :: r => Forall_cons x (expr_ind' x) (go r)
                       end) args)
    | INode o args =>
        Hin o args ((fix go (l : list expr) : Forall P l :=
                       match l with
                       | [] => Forall_nil P
                       | x :: r => Forall_cons x (expr_ind' x) (go r)
                       end) args)
    end.
End ExprInd.

Lemma fold_max_le k args :
  fold_right (fun a m => Nat.max (max_id a) m) 0 args <= k -> Forall (fun a => max_id a <= k) args.
Proof.
  induction args as [|a r IH]; simpl; intros H; constructor; [lia|apply IH; lia].
Qed.

Lemma eval_agree gsem k e1 e2 e :
  agree_below k e1 e2 -> max_id e <= k -> eval gsem e1 e = eval gsem e2 e.
Proof.
  intros Ha. induction e using expr_ind'; simpl; intros Hm; try reflexivity.
  - destruct (Ha i) as [H _]; [lia|]. rewrite H. reflexivity.
  - destruct (Ha i) as [_ H]; [lia|]. rewrite H. reflexivity.
  - f_equal. apply fold_max_le in Hm. apply map_ext_in. intros a Hin.
    rewrite Forall_forall in H, Hm. apply H; [exact Hin|apply Hm; exact Hin].
  - f_equal. apply fold_max_le in Hm. apply map_ext_in. intros a Hin.
    rewrite Forall_forall in H, Hm. apply H; [exact Hin|apply Hm; exact Hin].
Qed.

Lemma agree_below_refl k e : agree_below k e e.
Proof. intros i _. split; reflexivity. Qed.

Lemma agree_below_sym k e1 e2 : agree_below k e1 e2 -> agree_below k e2 e1.
Proof. intros H i Hi. destruct (H i Hi). split; congruence. Qed.

Lemma agree_below_trans k e1 e2 e3 :
  agree_below k e1 e2 -> agree_below k e2 e3 -> agree_below k e1 e3.
Proof. intros H1 H2 i Hi. destruct (H1 i Hi), (H2 i Hi). split; congruence. Qed.

Lemma agree_below_le k k' e1 e2 : k <= k' -> agree_below k' e1 e2 -> agree_below k e1 e2.
Proof. intros Hk H i Hi. apply H. lia. Qed.

(* ------------------------------------------------------------------------ *)
(* lists                                                                     *)

Lemma nth_error_seq a n i : i < n -> nth_error (seq a n) i = Some (a + i).
Proof.
  revert a i. induction n as [|n IH]; intros a i Hi; [lia|]. destruct i as [|i]; simpl.
  - f_equal. lia.
  - rewrite IH by lia. f_equal. lia.
Qed.

Lemma nth_res_map_seq {A} (f : nat -> A) n i : i < n -> nth_res (map f (seq 0 n)) i = Ok (f i).
Proof.
  intros Hi. unfold nth_res. rewrite nth_error_map, nth_error_seq by exact Hi. reflexivity.
Qed.

Lemma nth_res_nth {A} (l : list A) i d : i < length l -> nth_res l i = Ok (nth i l d).
Proof.
  intros Hi. unfold nth_res. destruct (nth_error l i) as [a|] eqn:E.
  - rewrite (nth_error_nth _ _ d E). reflexivity.
  - apply nth_error_None in E. lia.
Qed.

Lemma skipn_app_len {A} (l1 l2 : list A) : skipn (length l1) (l1 ++ l2) = l2.
Proof. induction l1; simpl; auto. Qed.

Lemma forallb_concat_map {X} (h : expr -> bool) (f : X -> list expr) (c : X -> bool) l :
  (forall x, In x l -> forallb h (f x) = c x) -> forallb h (concat (map f l)) = forallb c l.
Proof.
  induction l as [|x r IH]; simpl; intros H; [reflexivity|].
  rewrite forallb_app, (H x (or_introl eq_refl)), IH; [reflexivity|].
  intros y Hy. apply H. right; exact Hy.
Qed.

Lemma mapM_ok_all {A B} (f : A -> res B) (Q : A -> B -> Prop) l :
  (forall x, In x l -> exists y, f x = Ok y /\ Q x y) ->
  exists ys, mapM f l = Ok ys /\ Forall2 Q l ys.
Proof.
  induction l as [|x r IH]; simpl; intros H.
  - exists []. split; [reflexivity|constructor].
  - destruct (H x (or_introl eq_refl)) as [y [Hy HQ]].
    destruct IH as [ys [Hys HF]]; [intros z Hz; apply H; right; exact Hz|].
    exists (y :: ys). rewrite Hy; simpl. rewrite Hys; simpl. split; [reflexivity|constructor; assumption].
Qed.

Lemma forallb_concat_F2 {X} (h : expr -> bool) (c : X -> bool) l ys :
  Forall2 (fun x y => forallb h y = c x) l ys -> forallb h (concat ys) = forallb c l.
Proof.
  induction 1 as [|x y l ys Hxy _ IH]; simpl; [reflexivity|].
  rewrite forallb_app, Hxy, IH. reflexivity.
Qed.

Lemma forallb_F2 {X} (h : expr -> bool) (c : X -> bool) l ys :
  Forall2 (fun x y => h y = c x) l ys -> forallb h ys = forallb c l.
Proof.
  induction 1 as [|x y l ys Hxy _ IH]; simpl; [reflexivity|]. rewrite Hxy, IH. reflexivity.
Qed.

Lemma zip_with_map_seq {A B C} (f : A -> B -> C) (h : nat -> A) (l : list B) d : forall a,
  zip_with f (map h (seq a (length l))) l = map (fun v => f (h v) (nth (v - a) l d)) (seq a (length l)).
Proof.
  induction l as [|x r IH]; intros a; simpl; [reflexivity|].
  rewrite Nat.sub_diag. f_equal. rewrite IH. apply map_ext_in. intros v Hv. apply in_seq in Hv.
  replace (v - a) with (S (v - S a)) by lia. reflexivity.
Qed.

(* ------------------------------------------------------------------------ *)
(* variable arrays                                                           *)

Definition add_decls (st : state) (ds : list vdecl) : state :=
  {| vars := vars st ++ ds; keys := keys st ++ repeat false (length ds); cons := cons st |}.

Lemma add_decls_next st ds : next_id (add_decls st ds) = next_id st + length ds.
Proof. unfold next_id, add_decls; simpl. apply app_length. Qed.

Lemma state_eq v1 k1 c1 v2 k2 c2 :
  v1 = v2 -> k1 = k2 -> c1 = c2 ->
  {| vars := v1; keys := k1; cons := c1 |} = {| vars := v2; keys := k2; cons := c2 |}.
Proof. intros; subst; reflexivity. Qed.

Lemma int_vars_spec n : forall st lo hi,
  int_vars st n lo hi =
  (add_decls st (repeat (DInt lo hi) n), map (fun i => IVar (next_id st + i) lo hi) (seq 0 n)).
Proof.
  induction n as [|n IH]; intros st lo hi; simpl.
  - f_equal. destruct st; unfold add_decls; simpl. rewrite !app_nil_r. reflexivity.
  - rewrite IH. f_equal.
    + unfold add_decls; simpl. apply state_eq; try reflexivity; rewrite <- app_assoc; reflexivity.
    + f_equal; [f_equal; lia|]. rewrite <- seq_shift, map_map. apply map_ext. intros i.
      unfold next_id; simpl. rewrite app_length; simpl. f_equal. lia.
Qed.

Lemma bool_vars_spec n : forall st,
  bool_vars st n = (add_decls st (repeat DBool n), map (fun i => BVar (next_id st + i)) (seq 0 n)).
Proof.
  induction n as [|n IH]; intros st; simpl.
  - f_equal. destruct st; unfold add_decls; simpl. rewrite !app_nil_r. reflexivity.
  - rewrite IH. f_equal.
    + unfold add_decls; simpl. apply state_eq; try reflexivity; rewrite <- app_assoc; reflexivity.
    + f_equal; [f_equal; lia|]. rewrite <- seq_shift, map_map. apply map_ext. intros i.
      unfold next_id; simpl. rewrite app_length; simpl. f_equal. lia.
Qed.

(* ------------------------------------------------------------------------ *)
(* bounds of appended declarations                                            *)

Lemma in_bounds_from_app en a : forall i b,
  in_bounds_from en i (a ++ b) = in_bounds_from en i a && in_bounds_from en (i + length a) b.
Proof.
  induction a as [|d a IH]; intros i b; simpl.
  - rewrite Nat.add_0_r. reflexivity.
  - replace (i + S (length a)) with (S i + length a) by lia. destruct d; rewrite IH; [reflexivity|].
    rewrite andb_assoc. reflexivity.
Qed.

Lemma in_bounds_repeat_bool en k : forall i, in_bounds_from en i (repeat DBool k) = true.
Proof. induction k; intros i; simpl; auto. Qed.

Lemma in_bounds_repeat_int en lo hi k : forall i,
  in_bounds_from en i (repeat (DInt lo hi) k) = true <->
  (forall v, v < k -> (lo <= ei en (i + v) <= hi)%Z).
Proof.
  induction k as [|k IH]; intros i; simpl.
  - split; [intros _ v Hv; lia|reflexivity].
  - rewrite !andb_true_iff, IH, Z.leb_le, Z.leb_le. split.
    + intros [[H1 H2] H3] v Hv. destruct v as [|v].
      * rewrite Nat.add_0_r. lia.
      * replace (i + S v) with (S i + v) by lia. apply H3. lia.
    + intros H. split.
      * specialize (H 0). rewrite Nat.add_0_r in H. lia.
      * intros v Hv. replace (S i + v) with (i + S v) by lia. apply H. lia.
Qed.

(* ------------------------------------------------------------------------ *)
(* meaning of the constructor shorthands                                      *)

Section Ev.
  Variable gsem : op -> list (option value) -> option bool.
  Variable en : env.

  Definition evb (e : expr) (b : bool) : Prop := eval gsem en e = Some (VB b).
  Definition evi (e : expr) (z : Z) : Prop := eval gsem en e = Some (VI z).

  Lemma evb_holds e b : evb e b -> holds gsem en e = b.
  Proof. unfold evb, holds. intros ->. destruct b; reflexivity. Qed.

  Lemma evb_bvar i : evb (BVar i) (eb en i).
  Proof. reflexivity. Qed.
  Lemma evi_ivar i lo hi : evi (IVar i lo hi) (ei en i).
  Proof. reflexivity. Qed.
  Lemma evi_int z : evi (PyInt z) z.
  Proof. reflexivity. Qed.
  Lemma evb_bool b : evb (PyBool b) b.
  Proof. reflexivity. Qed.

  Lemma evb_and a b x y : evb a x -> evb b y -> evb (b_and a b) (x && y).
  Proof. unfold evb, b_and. intros Ha Hb. simpl. rewrite Ha, Hb. simpl. rewrite andb_true_r. reflexivity. Qed.
  Lemma evb_imp a b x y : evb a x -> evb b y -> evb (b_imp a b) (implb x y).
  Proof. unfold evb, b_imp. intros Ha Hb. simpl. rewrite Ha, Hb. reflexivity. Qed.
  Lemma evb_iff a b x y : evb a x -> evb b y -> evb (BNode IFF [a; b]) (Bool.eqb x y).
  Proof. unfold evb. intros Ha Hb. simpl. rewrite Ha, Hb. reflexivity. Qed.
  Lemma evb_eq a b x y : evi a x -> evi b y -> evb (i_eq a b) (x =? y)%Z.
  Proof. unfold evb, evi, i_eq. intros Ha Hb. simpl. rewrite Ha, Hb. reflexivity. Qed.
  Lemma evb_ne a b x y : evi a x -> evi b y -> evb (i_ne a b) (negb (x =? y)%Z).
  Proof. unfold evb, evi, i_ne. intros Ha Hb. simpl. rewrite Ha, Hb. reflexivity. Qed.
  Lemma evb_gt a b x y : evi a x -> evi b y -> evb (i_gt a b) (y <? x)%Z.
  Proof. unfold evb, evi, i_gt. intros Ha Hb. simpl. rewrite Ha, Hb. reflexivity. Qed.
  Lemma evb_le a b x y : evi a x -> evi b y -> evb (i_le a b) (x <=? y)%Z.
  Proof. unfold evb, evi, i_le. intros Ha Hb. simpl. rewrite Ha, Hb. reflexivity. Qed.
  Lemma evb_ge a b x y : evi a x -> evi b y -> evb (i_ge a b) (y <=? x)%Z.
  Proof. unfold evb, evi, i_ge. intros Ha Hb. simpl. rewrite Ha, Hb. reflexivity. Qed.
  Lemma evi_cond c t f x : evb c x -> evi (i_cond c (PyInt t) (PyInt f)) (if x then t else f).
  Proof. unfold evb, evi, i_cond. intros Hc. simpl. rewrite Hc. reflexivity. Qed.

  Lemma evb_py_eq a b x y :
    is_int_expr_like a = true -> is_int_expr_like b = true -> evi a x -> evi b y ->
    evb (py_eq a b) (x =? y)%Z.
  Proof.
    unfold evb, evi. intros Ha Hb Ea Eb.
    destruct a; simpl in Ha; try discriminate; destruct b; simpl in Hb; try discriminate;
      unfold py_eq; cbn [eval map]; cbn [eval] in Ea, Eb;
      try (rewrite Ea, Eb; reflexivity);
      try (rewrite Ea; cbn; inversion Eb; reflexivity);
      try (rewrite Eb; cbn; inversion Ea; subst; rewrite Z.eqb_sym; reflexivity);
      try (rewrite Eb, Ea; cbn; rewrite Z.eqb_sym; reflexivity).
    inversion Ea; inversion Eb; reflexivity.
  Qed.

  (* --- count_true on lists of BoolExpr nodes *)

  Definition is_bnode (e : expr) : bool := match e with BVar _ | BNode _ _ => true | _ => false end.
  Definition to_cond (x : expr) : expr := i_cond x (PyInt 1) (PyInt 0).

  Lemma count_true_go_nodes l : forallb is_bnode l = true -> forall ops c,
    count_true_go l ops c = Ok (ops ++ map to_cond l, c).
  Proof.
    induction l as [|x r IH]; simpl; intros H ops c.
    - rewrite app_nil_r. reflexivity.
    - apply andb_true_iff in H. destruct H as [Hx Hr].
      destruct x; simpl in Hx; try discriminate; rewrite IH by exact Hr;
        rewrite <- app_assoc; reflexivity.
  Qed.

  Lemma count_true_nodes l : forallb is_bnode l = true ->
    count_true l = Ok (match l with [] => INode INT_CONSTANT [PyInt 0] | _ => INode ADD (map to_cond l) end).
  Proof.
    intros H. unfold count_true. rewrite (count_true_go_nodes l H). simpl.
    destruct l; reflexivity.
  Qed.

  Lemma all_some_map_eval {X} (hx : X -> expr) (v : X -> value) xs :
    (forall x, In x xs -> eval gsem en (hx x) = Some (v x)) ->
    all_some (map (eval gsem en) (map hx xs)) = Some (map v xs).
  Proof.
    induction xs as [|x r IH]; simpl; intros H; [reflexivity|].
    rewrite (H x (or_introl eq_refl)), IH; [reflexivity|]. intros y Hy. apply H. right; exact Hy.
  Qed.

  Lemma as_ints_map_VI {X} (f : X -> Z) xs : as_ints (map (fun x => VI (f x)) xs) = Some (map f xs).
  Proof. induction xs as [|x r IH]; simpl; [reflexivity|]. rewrite IH. reflexivity. Qed.

  Lemma zsum_countb {X} (p : X -> bool) xs :
    zsum (map (fun x => if p x then 1 else 0)%Z xs) = Z.of_nat (countb p xs).
  Proof.
    unfold countb. induction xs as [|x r IH]; simpl; [reflexivity|].
    unfold zsum in *. simpl. rewrite IH. destruct (p x); simpl length; lia.
  Qed.

  Lemma count_true_map {X} (mk : X -> expr) (p : X -> bool) xs :
    (forall x, In x xs -> is_bnode (mk x) = true /\ evb (mk x) (p x)) ->
    exists ct, count_true (map mk xs) = Ok ct /\ evi ct (Z.of_nat (countb p xs)).
  Proof.
    intros H.
    assert (Hn : forallb is_bnode (map mk xs) = true).
    { apply forallb_forall. intros e He. apply in_map_iff in He. destruct He as [x [<- Hx]]. apply H; exact Hx. }
    rewrite (count_true_nodes _ Hn).
    assert (Hev : all_some (map (eval gsem en) (map to_cond (map mk xs)))
                  = Some (map (fun x => VI (if p x then 1 else 0)%Z) xs)).
    { rewrite (map_map mk to_cond). apply (all_some_map_eval (fun x => to_cond (mk x))). intros x Hx.
      destruct (H x Hx) as [_ Hx']. apply (evi_cond (mk x) 1 0 (p x) Hx'). }
    destruct xs as [|x0 r].
    - eexists. split; reflexivity.
    - cbn [map] in Hev |- *. eexists. split; [reflexivity|].
      unfold evi. cbn [eval]. unfold eval_iop. cbn [map]. rewrite Hev.
      change (VI (if p x0 then 1 else 0)%Z :: map (fun x => VI (if p x then 1 else 0)%Z) r)
        with (map (fun x => VI (if p x then 1 else 0)%Z) (x0 :: r)).
      rewrite (as_ints_map_VI (fun x => if p x then 1 else 0)%Z (x0 :: r)).
      cbn [option_map]. rewrite zsum_countb. reflexivity.
  Qed.
End Ev.
