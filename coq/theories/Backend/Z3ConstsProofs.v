(* C01, part 2: the constants of a converted constraint are declared variables
   of the right sort (for every table entry, by induction over the px syntax),
   hence every query Z3Backend.solve makes is "bounded": each integer constant
   that occurs carries the two asserted bounds. *)
From Coq Require Import ZArith List Bool Lia.
From Cspuz Require Import Lib.PyErr Core.Expr Core.Program Backend.Z3Call Gen.Z3Table Backend.Z3
  Backend.Z3Oracle Backend.ExprFacts.
Import ListNotations.
Open Scope Z_scope.

Lemma bind_ok {A B} (x : res A) (f : A -> res B) r :
  bind x f = Ok r -> exists a, x = Ok a /\ f a = Ok r.
Proof. destruct x; simpl; intros H; [eauto|discriminate]. Qed.

Fixpoint zconsts_ok (vs : list vdecl) (t : zterm) : bool :=
  match t with
  | ZBoolVal _ | ZIntVal _ => true
  | ZBoolConst i => match nth_error vs i with Some DBool => true | _ => false end
  | ZIntConst i => match nth_error vs i with Some (DInt _ _) => true | _ => false end
  | ZNeg a | ZNot a => zconsts_ok vs a
  | ZAdd a b | ZSub a b | ZEq a b | ZLe a b | ZLt a b | ZGe a b | ZGt a b | ZXor a b =>
      zconsts_ok vs a && zconsts_ok vs b
  | ZIte c t f => zconsts_ok vs c && zconsts_ok vs t && zconsts_ok vs f
  | ZAnd l | ZOr l | ZDistinct l => forallb (zconsts_ok vs) l
  end.

Definition zres_ok (vs : list vdecl) (r : zres) : Prop :=
  match r with ZT t => zconsts_ok vs t = true | _ => True end.

Lemma lift_okc vs r t : zres_ok vs r -> lift r = Ok t -> zconsts_ok vs t = true.
Proof. destruct r; simpl; intros K H; inversion H; subst; auto. Qed.

Lemma mapM_lift_okc vs rs : forall ts, Forall (zres_ok vs) rs -> mapM lift rs = Ok ts ->
  forallb (zconsts_ok vs) ts = true.
Proof.
  induction rs as [|r rs IH]; intros ts F H; simpl in H.
  - inversion H; reflexivity.
  - inversion F as [|? ? K F']; subst.
    apply bind_ok in H; destruct H as [t [Et H]]. apply bind_ok in H; destruct H as [ts' [Ets H]].
    inversion H; subst; simpl. rewrite (lift_okc vs r t K Et), (IH ts' F' Ets); reflexivity.
Qed.

Lemma py_bin_okc vs b x y r : zres_ok vs x -> zres_ok vs y -> py_bin b x y = Ok r -> zres_ok vs r.
Proof.
  destruct x, y, b; simpl; intros Kx Ky H; inversion H; subst; simpl; rewrite ?Kx, ?Ky; auto.
Qed.

Lemma py_neg_okc vs x r : zres_ok vs x -> py_neg x = Ok r -> zres_ok vs r.
Proof. destruct x; simpl; intros Kx H; inversion H; subst; simpl; auto. Qed.

Lemma foldl_okc vs b : forall rest r0 r, zres_ok vs r0 -> Forall (zres_ok vs) rest ->
  foldl_res (py_bin b) r0 rest = Ok r -> zres_ok vs r.
Proof.
  induction rest as [|x rest IH]; intros r0 r K0 F H; simpl in H.
  - inversion H; subst; assumption.
  - inversion F as [|? ? Kx F']; subst.
    destruct (py_bin b r0 x) eqn:E; try discriminate.
    refine (IH a r _ F' H). eapply py_bin_okc; [exact K0|exact Kx|exact E].
Qed.

Lemma z_and_okc vs rs r : Forall (zres_ok vs) rs -> z_and rs = Ok r -> zres_ok vs r.
Proof.
  unfold z_and; intros F H; apply bind_ok in H; destruct H as [ts [E H]]; inversion H; subst; simpl.
  eapply mapM_lift_okc; eassumption.
Qed.
Lemma z_or_okc vs rs r : Forall (zres_ok vs) rs -> z_or rs = Ok r -> zres_ok vs r.
Proof.
  unfold z_or; intros F H; apply bind_ok in H; destruct H as [ts [E H]]; inversion H; subst; simpl.
  eapply mapM_lift_okc; eassumption.
Qed.
Lemma z_distinct_okc vs rs r : Forall (zres_ok vs) rs -> z_distinct rs = Ok r -> zres_ok vs r.
Proof.
  unfold z_distinct; intros F H; destruct (existsb is_zt rs); try discriminate.
  apply bind_ok in H; destruct H as [ts [E H]]; inversion H; subst; simpl.
  eapply mapM_lift_okc; eassumption.
Qed.

Lemma run_okc vs : forall p ops r, Forall (zres_ok vs) ops -> run p ops = Ok r -> zres_ok vs r.
Proof.
  induction p; intros ops r F H; simpl in H.
  - destruct (nth_error ops i) eqn:N; inversion H; subst.
    rewrite Forall_forall in F; apply F; eapply nth_error_In; eassumption.
  - apply bind_ok in H; destruct H as [a [Ea H]]. eapply py_neg_okc; [eapply IHp; eassumption|exact H].
  - apply bind_ok in H; destruct H as [a [Ea H]]. apply bind_ok in H; destruct H as [c [Ec H]].
    eapply py_bin_okc; [eapply IHp1; eassumption|eapply IHp2; eassumption|exact H].
  - destruct ops as [|r0 rest]; try discriminate. inversion F; subst. eapply foldl_okc; eassumption.
  - apply bind_ok in H; destruct H as [a [Ea H]]. unfold z_not in H.
    apply bind_ok in H; destruct H as [t [Et H]]; inversion H; subst; simpl.
    eapply lift_okc; [eapply IHp; eassumption|exact Et].
  - eapply z_and_okc; eassumption.
  - eapply z_or_okc; eassumption.
  - apply bind_ok in H; destruct H as [a [Ea H]]. apply bind_ok in H; destruct H as [c [Ec H]].
    eapply z_and_okc; [|exact H]. repeat constructor; [eapply IHp1|eapply IHp2]; eassumption.
  - apply bind_ok in H; destruct H as [a [Ea H]]. apply bind_ok in H; destruct H as [c [Ec H]].
    eapply z_or_okc; [|exact H]. repeat constructor; [eapply IHp1|eapply IHp2]; eassumption.
  - apply bind_ok in H; destruct H as [a [Ea H]]. apply bind_ok in H; destruct H as [c [Ec H]].
    unfold z_xor in H. apply bind_ok in H; destruct H as [x [Ex H]]. apply bind_ok in H; destruct H as [y [Ey H]].
    inversion H; subst; simpl.
    rewrite (lift_okc vs a x (IHp1 _ _ F Ea) Ex), (lift_okc vs c y (IHp2 _ _ F Ec) Ey); reflexivity.
  - apply bind_ok in H; destruct H as [a [Ea H]]. apply bind_ok in H; destruct H as [c [Ec H]].
    apply bind_ok in H; destruct H as [d [Ed H]]. unfold z_if in H.
    apply bind_ok in H; destruct H as [x [Ex H]]. apply bind_ok in H; destruct H as [y [Ey H]].
    apply bind_ok in H; destruct H as [z [Ez H]]. inversion H; subst; simpl.
    rewrite (lift_okc vs a x (IHp1 _ _ F Ea) Ex), (lift_okc vs c y (IHp2 _ _ F Ec) Ey),
      (lift_okc vs d z (IHp3 _ _ F Ed) Ez); reflexivity.
  - eapply z_distinct_okc; eassumption.
  - destruct (forallb is_pyint ops); [eapply IHp1|eapply IHp2]; eassumption.
  - destruct (all_pynum ops); inversion H; subst; exact I.
  - inversion H; subst; exact I.
Qed.

Lemma mapR_okc {A} (f : A -> res zres) vs l :
  Forall (fun a => forall r, f a = Ok r -> zres_ok vs r) l ->
  forall rs, mapR f l = Ok rs -> Forall (zres_ok vs) rs.
Proof.
  induction 1 as [|a l Ha _ IH]; intros rs H; simpl in H.
  - inversion H; constructor.
  - apply bind_ok in H; destruct H as [r [Er H]]. apply bind_ok in H; destruct H as [rs' [Ers H]].
    inversion H; subst; constructor; [apply Ha; exact Er|apply IH; exact Ers].
Qed.

Theorem conv_okc vs : forall e r, conv vs e = Ok r -> zres_ok vs r.
Proof.
  induction e as [c|z| |i|i lo hi|o args IH|o args IH] using expr_nested_ind; intros r H; simpl in H.
  - inversion H; exact I.
  - inversion H; exact I.
  - discriminate.
  - destruct (nth_error vs i) as [[|]|] eqn:N; inversion H; subst; simpl; rewrite N; reflexivity.
  - destruct (nth_error vs i) as [[|]|] eqn:N; inversion H; subst; simpl; rewrite N; reflexivity.
  - apply bind_ok in H; destruct H as [ops [E H]].
    eapply run_okc; [eapply mapR_okc; eassumption|exact H].
  - apply bind_ok in H; destruct H as [ops [E H]].
    eapply run_okc; [eapply mapR_okc; eassumption|exact H].
Qed.

(* ---- an integer constant of a well-formed term is a declared IntVar ------- *)
Section TermInd.
  Variable P : zterm -> Prop.
  Hypothesis H0 : forall b, P (ZBoolVal b).
  Hypothesis H1 : forall z, P (ZIntVal z).
  Hypothesis H2 : forall i, P (ZBoolConst i).
  Hypothesis H3 : forall i, P (ZIntConst i).
  Hypothesis Hun : forall a, P a -> P (ZNeg a) /\ P (ZNot a).
  Hypothesis Hbin : forall a b, P a -> P b ->
    P (ZAdd a b) /\ P (ZSub a b) /\ P (ZEq a b) /\ P (ZLe a b) /\ P (ZLt a b) /\ P (ZGe a b) /\ P (ZGt a b) /\ P (ZXor a b).
  Hypothesis Hite : forall c t f, P c -> P t -> P f -> P (ZIte c t f).
  Hypothesis Hl : forall l, Forall P l -> P (ZAnd l) /\ P (ZOr l) /\ P (ZDistinct l).

  Fixpoint zterm_nested_ind (t : zterm) : P t :=
    let go := fix go (l : list zterm) : Forall P l :=
      match l with [] => Forall_nil P | x :: r => Forall_cons x (zterm_nested_ind x) (go r) end in
    match t with
    | ZBoolVal b => H0 b
    | ZIntVal z => H1 z
    | ZBoolConst i => H2 i
    | ZIntConst i => H3 i
    | ZNeg a => proj1 (Hun a (zterm_nested_ind a))
    | ZNot a => proj2 (Hun a (zterm_nested_ind a))
    | ZAdd a b => proj1 (Hbin a b (zterm_nested_ind a) (zterm_nested_ind b))
    | ZSub a b => proj1 (proj2 (Hbin a b (zterm_nested_ind a) (zterm_nested_ind b)))
    | ZEq a b => proj1 (proj2 (proj2 (Hbin a b (zterm_nested_ind a) (zterm_nested_ind b))))
    | ZLe a b => proj1 (proj2 (proj2 (proj2 (Hbin a b (zterm_nested_ind a) (zterm_nested_ind b)))))
    | ZLt a b => proj1 (proj2 (proj2 (proj2 (proj2 (Hbin a b (zterm_nested_ind a) (zterm_nested_ind b))))))
    | ZGe a b => proj1 (proj2 (proj2 (proj2 (proj2 (proj2 (Hbin a b (zterm_nested_ind a) (zterm_nested_ind b)))))))
    | ZGt a b => proj1 (proj2 (proj2 (proj2 (proj2 (proj2 (proj2 (Hbin a b (zterm_nested_ind a) (zterm_nested_ind b))))))))
    | ZXor a b => proj2 (proj2 (proj2 (proj2 (proj2 (proj2 (proj2 (Hbin a b (zterm_nested_ind a) (zterm_nested_ind b))))))))
    | ZIte c t f => Hite c t f (zterm_nested_ind c) (zterm_nested_ind t) (zterm_nested_ind f)
    | ZAnd l => proj1 (Hl l (go l))
    | ZOr l => proj1 (proj2 (Hl l (go l)))
    | ZDistinct l => proj2 (proj2 (Hl l (go l)))
    end.
End TermInd.

Lemma existsb_forallb_imp {A} (p q : A -> bool) (R : A -> Prop) l :
  Forall (fun a => q a = true -> p a = true -> R a) l ->
  forallb q l = true -> existsb p l = true -> exists a, In a l /\ R a.
Proof.
  induction 1 as [|a l Ha _ IH]; simpl; intros Q E; [discriminate|].
  apply andb_prop in Q; destruct Q as [Qa Q]. apply orb_prop in E; destruct E as [E|E].
  - exists a; split; [left; reflexivity|auto].
  - destruct (IH Q E) as [x [Ix Rx]]; exists x; split; [right; exact Ix|exact Rx].
Qed.

Lemma int_occurs_declared vs i : forall t, zconsts_ok vs t = true -> int_occurs i t = true ->
  exists lo hi, nth_error vs i = Some (DInt lo hi).
Proof.
  apply (zterm_nested_ind (fun t => zconsts_ok vs t = true -> int_occurs i t = true ->
                                    exists lo hi, nth_error vs i = Some (DInt lo hi))); simpl.
  - discriminate.
  - discriminate.
  - discriminate.
  - intros j K O. apply Nat.eqb_eq in O; subst j. destruct (nth_error vs i) as [[|lo hi]|]; try discriminate; eauto.
  - intros a IH; split; auto.
  - intros a b IHa IHb; repeat split; intros K O; apply andb_prop in K; destruct K as [Ka Kb];
      apply orb_prop in O; destruct O as [O|O]; auto.
  - intros c t f IHc IHt IHf K O.
    apply andb_prop in K; destruct K as [K Kf]; apply andb_prop in K; destruct K as [Kc Kt].
    apply orb_prop in O; destruct O as [O|O]; auto. apply orb_prop in O; destruct O as [O|O]; auto.
  - intros l H; repeat split; intros K O;
      destruct (existsb_forallb_imp _ _ (fun _ => exists lo hi, nth_error vs i = Some (DInt lo hi)) l H K O)
        as [x [_ R]]; exact R.
Qed.

(* ---- the bounds are there for every declared IntVar ----------------------- *)
Lemma bound_terms_okc_from vs' : forall k vs, (forall j d, nth_error vs j = Some d -> nth_error vs' (k + j) = Some d) ->
  forallb (zconsts_ok vs') (bound_terms_from k vs) = true.
Proof.
  intros k vs; revert k; induction vs as [|d vs IH]; intros k H; simpl; [reflexivity|].
  assert (Hn : forall j d0, nth_error vs j = Some d0 -> nth_error vs' (S k + j) = Some d0).
  { intros j d0 Hj. replace (S k + j)%nat with (k + S j)%nat by lia. apply H; exact Hj. }
  destruct d as [|lo hi]; simpl.
  - apply IH; exact Hn.
  - pose proof (H O (DInt lo hi) eq_refl) as H0. rewrite Nat.add_0_r in H0. rewrite H0; simpl.
    apply IH; exact Hn.
Qed.

Lemma bound_terms_okc vs : forallb (zconsts_ok vs) (bound_terms vs) = true.
Proof. apply bound_terms_okc_from; intros j d H; exact H. Qed.

Lemma find_lo_bounds rest : forall vs k j lo hi, nth_error vs j = Some (DInt lo hi) ->
  find_lo (k + j) (bound_terms_from k vs ++ rest) <> None.
Proof.
  induction vs as [|d vs IH]; intros k j lo hi N; [destruct j; discriminate|].
  destruct j as [|j]; simpl in N.
  - inversion N; subst; simpl. rewrite Nat.add_0_r, Nat.eqb_refl; discriminate.
  - replace (k + S j)%nat with (S k + j)%nat by lia.
    specialize (IH (S k) j lo hi N).
    assert (Hne : Nat.eqb (S k + j) k = false) by (apply Nat.eqb_neq; lia).
    destruct d as [|lo0 hi0]; cbn [bound_terms_from app find_lo find_hi]; rewrite ?Hne; exact IH.
Qed.

Lemma find_hi_bounds rest : forall vs k j lo hi, nth_error vs j = Some (DInt lo hi) ->
  find_hi (k + j) (bound_terms_from k vs ++ rest) <> None.
Proof.
  induction vs as [|d vs IH]; intros k j lo hi N; [destruct j; discriminate|].
  destruct j as [|j]; simpl in N.
  - inversion N; subst; simpl. rewrite Nat.add_0_r, Nat.eqb_refl; discriminate.
  - replace (k + S j)%nat with (S k + j)%nat by lia.
    specialize (IH (S k) j lo hi N).
    assert (Hne : Nat.eqb (S k + j) k = false) by (apply Nat.eqb_neq; lia).
    destruct d as [|lo0 hi0]; cbn [bound_terms_from app find_lo find_hi]; rewrite ?Hne; exact IH.
Qed.

Theorem queries_bounded vs cs :
  forallb (zconsts_ok vs) cs = true -> boundedb (bound_terms vs ++ cs) = true.
Proof.
  intros K. unfold boundedb. apply forallb_forall. intros i _.
  destruct (existsb (int_occurs i) (bound_terms vs ++ cs)) eqn:O; simpl; [|reflexivity].
  assert (KA : forallb (zconsts_ok vs) (bound_terms vs ++ cs) = true)
    by (rewrite forallb_app, bound_terms_okc, K; reflexivity).
  apply existsb_exists in O; destruct O as [t [It Ot]].
  rewrite forallb_forall in KA.
  destruct (int_occurs_declared vs i t (KA t It) Ot) as [lo [hi N]].
  pose proof (find_lo_bounds cs vs O i lo hi N) as L. pose proof (find_hi_bounds cs vs O i lo hi N) as Hh.
  simpl in L, Hh. unfold bound_terms.
  destruct (find_lo i (bound_terms_from 0 vs ++ cs)); [|contradiction].
  destruct (find_hi i (bound_terms_from 0 vs ++ cs)); [reflexivity|contradiction].
Qed.
