Require Extraction.
Require Import ExtrOcamlBasic.
From Coq Require Import ZArith List.
From Cspuz Require Import Lib.PyErr Core.Expr Core.Program Core.Build Backend.Z3 Backend.Z3Oracle.
Extraction "model.ml" Z.add Nat.add pyerr_code conv find_answer bf_oracle spec_models sol_is_model
  eval no_graph env_of_sol trace sess0 count_true fold_or fold_and alldifferent wt refs_ok.
