(* C17 — decoding arbitrary text never crashes and only yields re-encodable problems.

   [safe r]: r is a result (None or a value) or the exception ValueError — never IndexError,
   KeyError, AssertionError, TypeError, RecursionError, nor a loop that does not end (which the
   model reports as OtherError).  The decoders are Codec/Comb.v's [de] / [de_at], Codec/Puzzles.v's
   [deserialize_problem_cu] / [deserialize_url_cu] / [run_de] and Codec/Yajilin.v's
   YajilinClue; the nine puzzle terms and wrapper options come from Gen/Codecs.v, regenerated
   from cspuz/puzzle/*.py on every run.  Side conditions ([dec_ok], [single], [customs_ok],
   [env_nonneg]) are defined in Codec/TotalModel.v.                                          *)
From Coq Require Import ZArith List Ascii Bool.
From Cspuz Require Import Lib.PyErr Codec.Comb Codec.CombWf Codec.Yajilin Codec.Puzzles
  Codec.TotalModel Codec.TotalLeaf Codec.TotalRooms Codec.Total Codec.TotalDims Codec.TotalRedecode Codec.TotalCodecs Gen.Codecs.
Import ListNotations.
Local Open Scope Z_scope.

(* Combinator.deserialize of every term satisfying the side conditions, on EVERY text *)
Theorem de_total : forall e c, dec_ok c = true -> customs_ok (cust e) c -> env_nonneg e ->
  forall s, safe (de e c s).
Proof. exact de_total_lemma. Qed.
Print Assumptions de_total.

(* ... at every offset 0 <= idx <= len(data) (what the library itself passes: by the second part the
   next offset is again within the text); the reported number of characters read stays within the text *)
Theorem de_at_total : forall e c, dec_ok c = true -> customs_ok (cust e) c -> env_nonneg e ->
  forall data idx, safe (de_at e c data idx) /\
    forall k l, de_at e c data idx = Ok (Some (k, l)) -> (idx + k <= Nat.max idx (length data))%nat.
Proof. exact de_at_total_lemma. Qed.
Print Assumptions de_at_total.

(* the side condition on Seq / Grid bases is needed: C15's wf alone admits a loop that never ends *)
Theorem wf_alone_not_enough :
  wf (Seq (FixStr []) 3) = true /\ de (mk_env 1 1) (Seq (FixStr []) 3) [] = Err OtherError.
Proof. split; vm_compute; reflexivity. Qed.
Print Assumptions wf_alone_not_enough.

(* the Rooms decoder on any board size (also 0 or negative) and any text *)
Theorem rooms_de_total : forall e skip allow s, safe (de e (Rooms skip allow) s).
Proof. intros e skip allow s. destruct (rooms_good e skip allow s) as [H _]. exact H. Qed.
Print Assumptions rooms_de_total.

(* yajilin.YajilinClue behaves like a library combinator *)
Theorem yajilin_clue_total : custom_total yajilin_custom.
Proof. exact yajilin_custom_total. Qed.
Print Assumptions yajilin_clue_total.

(* deserialize_problem: its own assertion (exactly one item) never fails for a single-item term *)
Theorem problem_total : forall cu c h w, dec_ok c = true -> single c = true -> customs_ok cu c -> 0 <= h * w ->
  forall s, safe (deserialize_problem_cu cu c s h w).
Proof. exact problem_total_lemma. Qed.
Print Assumptions problem_total.

(* deserialize_problem_as_url with any options, on EVERY text (URL or not, any declared sizes) *)
Theorem url_de_total : forall cu c al af rs, dec_ok c = true -> single c = true -> customs_ok cu c ->
  forall url, safe (deserialize_url_cu cu c url al af rs).
Proof. exact url_total_lemma. Qed.
Print Assumptions url_de_total.

(* every deserialize_<p> of the puzzle modules, with the term and options read from the source *)
Theorem codecs_total : forall url,
  safe (run_de no_custom deserialize_nurikabe_w url) /\
  safe (run_de no_custom deserialize_masyu_w url) /\
  safe (run_de no_custom deserialize_slitherlink_w url) /\
  safe (run_de no_custom deserialize_sudoku_w url) /\
  safe (run_de no_custom deserialize_nurimisaki_w url) /\
  safe (run_de yajilin_custom deserialize_yajilin_w url) /\
  safe (run_de no_custom deserialize_heyawake_w url) /\
  safe (run_de no_custom deserialize_lits_w url) /\
  safe (run_de no_custom deserialize_norinori_w url).
Proof. exact codecs_total_lemma. Qed.
Print Assumptions codecs_total.

(* ... and whatever they return has the sizes written in the URL (width second, height third field):
   a grid of exactly h rows of w cells, or (h, w, rooms) with every cell of the board in one room *)
Theorem codecs_dims : forall url name wd hd body, url_match url = Some (name, wd, hd, body) ->
  returns_grid (run_de no_custom deserialize_nurikabe_w url) wd hd /\
  returns_grid (run_de no_custom deserialize_masyu_w url) wd hd /\
  returns_grid (run_de no_custom deserialize_slitherlink_w url) wd hd /\
  returns_grid (run_de no_custom deserialize_sudoku_w url) wd hd /\
  returns_grid (run_de no_custom deserialize_nurimisaki_w url) wd hd /\
  returns_grid (run_de yajilin_custom deserialize_yajilin_w url) wd hd /\
  returns_sized_valued_rooms (run_de no_custom deserialize_heyawake_w url) wd hd /\
  returns_sized_rooms (run_de no_custom deserialize_lits_w url) wd hd /\
  returns_sized_rooms (run_de no_custom deserialize_norinori_w url) wd hd.
Proof. exact codecs_dims_lemma. Qed.
Print Assumptions codecs_dims.

(* a decoded Grid has exactly the board's rows and columns *)
Theorem de_dims_grid : forall e c1 s k p, 0 <= height e -> 0 <= width e ->
  de e (Grid c1 None) s = Ok (Some (k, [p])) -> grid_shape (height e) (width e) p.
Proof. exact grid_dims_lemma. Qed.
Print Assumptions de_dims_grid.

(* URL level: the returned sizes are the declared ones (third / second field, in this order)
   and a Grid codec's problem has exactly these dimensions *)
Theorem url_de_dims : forall cu c1 al af rs url name wd hd body v,
  url_match url = Some (name, wd, hd, body) ->
  deserialize_url_cu cu (Grid c1 None) url al af rs = Ok (Some v) ->
  exists w h p, py_int wd 10 = Ok w /\ py_int hd 10 = Ok h /\ grid_shape h w p /\
                v = (if rs then VTup [VInt h; VInt w; p] else p).
Proof. exact url_dims_lemma. Qed.
Print Assumptions url_de_dims.

(* a decoded Rooms value: every cell of the declared board occurs in exactly one room
   ([cells_of h w] lists each cell of the board once, Codec/RoomsGrid.v cells_of_in) *)
Theorem de_dims_rooms : forall e skip allow s k l, de e (Rooms skip allow) s = Ok (Some (k, l)) ->
  exists p, l = [p] /\ rooms_shape (height e) (width e) p.
Proof. exact rooms_dims_lemma. Qed.
Print Assumptions de_dims_rooms.

Theorem url_de_dims_rooms : forall cu skip allow al af rs url name wd hd body v,
  url_match url = Some (name, wd, hd, body) ->
  deserialize_url_cu cu (Rooms skip allow) url al af rs = Ok (Some v) ->
  exists w h p, py_int wd 10 = Ok w /\ py_int hd 10 = Ok h /\ rooms_shape h w p /\
                v = (if rs then VTup [VInt h; VInt w; p] else p).
Proof. exact url_rooms_dims_lemma. Qed.
Print Assumptions url_de_dims_rooms.

Theorem url_de_dims_valued_rooms : forall cu vc skip allow al af rs url name wd hd body v,
  url_match url = Some (name, wd, hd, body) ->
  deserialize_url_cu cu (ValuedRooms vc skip allow) url al af rs = Ok (Some v) ->
  exists w h rooms values, py_int wd 10 = Ok w /\ py_int hd 10 = Ok h /\ rooms_shape h w rooms /\
                v = (if rs then VTup [VInt h; VInt w; VTup [rooms; values]] else VTup [rooms; values]).
Proof. exact url_vrooms_dims_lemma. Qed.
Print Assumptions url_de_dims_valued_rooms.

(* re-encodability.  Full statement (NOT proved here; judged on the real code by the fuzz search
   of harness/pC17.py): a value returned for a well-formed term is serialized again and its
   canonical text decodes to the same value. *)
Definition de_reencodable_statement : Prop :=
  forall c h w s p, wf c = true -> tupl_single c = true -> dec_ok c = true -> single c = true -> 0 <= h -> 0 <= w ->
    deserialize_problem c s h w = Ok (Some p) ->
    exists t, serialize_problem c p h w = Ok t /\ deserialize_problem c t h w = Ok (Some p).

(* proved part: the combinator whose decoder used to return unencodable values.  Whatever
   HexInt.deserialize returns lies in 0..4095, HexInt.serialize accepts it, and the canonical
   text decodes to it again whatever follows *)
Theorem de_reencodable_partial_hexint : forall s k l, hexint_de s = Ok (Some (k, l)) ->
  exists z t, l = [VInt z] /\ 0 <= z <= 4095 /\
    hexint_ser (VList [VInt z]) 0 = Ok (Some (1%nat, t)) /\
    forall rest, hexint_de (t ++ rest) = Ok (Some (length t, [VInt z])).
Proof. exact hexint_reencodable_lemma. Qed.
Print Assumptions de_reencodable_partial_hexint.

(* proved part, using C15's problem_roundtrip as a lemma: a decoded grid whose cell combinator is a
   leaf or alternatives of leaves lies in the domain of the round-trip theorem, so IF it serializes,
   the canonical text decodes to it again (that it does serialize is the part left to the search) *)
Theorem de_reencodable_partial_grid : forall c1 s t h w p, 1 <= h -> 1 <= w -> flat c1 = true -> wf (Grid c1 None) = true ->
  deserialize_problem (Grid c1 None) s h w = Ok (Some p) ->
  serialize_problem (Grid c1 None) p h w = Ok t ->
  deserialize_problem (Grid c1 None) t h w = Ok (Some p).
Proof. exact grid_redecode_lemma. Qed.
Print Assumptions de_reencodable_partial_grid.

Theorem grid_codecs_redecode_partial : forall c,
  In c [NURIKABE_COMBINATOR; MASYU_COMBINATOR; SLITHERLINK_COMBINATOR; SUDOKU_COMBINATOR; NURIMISAKI_COMBINATOR] ->
  forall s t h w p, 1 <= h -> 1 <= w ->
    deserialize_problem c s h w = Ok (Some p) -> serialize_problem c p h w = Ok t ->
    deserialize_problem c t h w = Ok (Some p).
Proof. exact grid_codecs_redecode_lemma. Qed.
Print Assumptions grid_codecs_redecode_partial.
