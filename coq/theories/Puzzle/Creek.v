(* C11 Tier 1 - model of cspuz/puzzle/creek.py::solve_creek, all board shapes:
       is_white = solver.bool_array((height, width)); solver.add_answer_key(is_white)
       graph.active_vertices_connected(solver, is_white)
       for y in range(height + 1): for x in range(width + 1):
           if problem[y][x] >= 0:
               ensure(count_true(~is_white[max(y-1, 0):min(y+1, height), max(x-1, 0):min(x+1, width)]) == problem[y][x])
   The call into cspuz.graph is the model of property C04 (Graph/Avc.v::post_avc on the grid graph,
   auxiliary-variable encoding; Props/C04.v::avc_grid states that the BoolArray2D form is this call).
   On a board without cells the helper raises ValueError (int_array(0, 0, -1)).
   The slice of a grid point lists, row-major, the cells touching the point: [touching].
   The problem uses the encoding of Rules_creek.v ([[h; w]; (h+1)*(w+1) point clues]).  No proofs here. *)
From Coq Require Import ZArith List Bool Arith.
From Cspuz Require Import Lib.PyErr Core.Expr Core.Program Graph.GraphModel Graph.Avc
     Puzzle.PuzzleBase Puzzle.ModelBase.
Import ListNotations.
Local Open Scope nat_scope.

(* the cells (py-1 | py, px-1 | px) inside the board, row-major *)
Definition touching (h w py px : nat) : list (nat * nat) :=
  filter (fun '(y, x) => (Nat.eqb (S y) py || Nat.eqb y py) && (Nat.eqb (S x) px || Nat.eqb x px)) (cells h w).

(* count_true over ~v for BoolVars v *)
Definition ct_not_vars (ids : list nat) : expr :=
  match ids with
  | [] => INode INT_CONSTANT [PyInt 0]
  | _ => INode ADD (map (fun i => INode IF [BNode NOT [BVar i]; PyInt 1; PyInt 0]) ids)
  end.

Definition creek_clues (h w : nat) (clue : list Z) : list expr :=
  flat_map (fun '(py, px) =>
      let c := at2 clue (S w) py px in
      if (0 <=? c)%Z then [BNode EQ [ct_not_vars (map (cidx w) (touching h w py px)); PyInt c]] else [])
    (cells (S h) (S w)).

Definition solve_creek_model (pb : problem) : res state :=
  let h := dim pb 0 in let w := dim pb 1 in
  match post_avc (bool_grid_state (h * w) []) (map BVar (seq 0 (h * w))) (grid_graph h w) false false with
  | Ok st1 => Ok (ensure st1 (creek_clues h w (sec pb 1)))
  | Err e => Err e
  end.
