"""C02 — solve() reports exactly the facts common to all solutions."""
import hashlib
import warnings

import c01gen as G
import c01translate
import vlib

PROPS = "Props/C02.v"
RULE = ("C 'scripted': the real Solver.solve is run with a scripted backend class (backend=<class>) that logs every "
        "add_constraint call and answers solve() either live from the program's real model set under an enumeration policy "
        "(first / last / random / fewest-changes / most-changes w.r.t. the previous answer) or from an adversarial list of "
        "arbitrary assignments (repeats, non-models, early UNSAT); the extracted Backend/SolveLoop.v::solve_scripted is run on "
        "the recorded answers (fuel S(#keys) for conformant backends, script length for adversarial ones); verdict, the sol "
        "field of every variable and every posted refuting clause (as trees, harness/exprio.py) are compared.  "
        "C 'solve-z3': real Solver.solve(backend='z3') vs the extracted solve with the brute-force oracle on the answer keys.  "
        "search: Solver.solve(backend='z3') and Solver.solve(backend=<SugarLikeBackend subclass whose solver call returns a "
        "protocol-conformant deduction reply>) vs the facts computed by enumerating the declared domains under the ordinary "
        "meaning of the program as written (all / some / no keys, bool and int keys); the Coq specification common_facts is "
        "cross-checked against the same enumeration.  Non-trivial = distinct (kind, program, keys, policy).")
TRUSTED = [
    "as C01: z3 behind Section hypotheses oracle_sound / oracle_complete; z3py overload semantics; eval = ordinary meaning",
    "the native route's reply parsing (SugarLikeBackend.solve_irrefutably) belongs to C03; here a native reply is an abstract, already parsed, conformant answer",
    "harness/c01translate.py (ast -> Gen/Z3Table.v, fail-closed): C02's z3 route is built on Backend/Z3.v::conv",
]
ASSUMPTIONS = [
    "constraints are well-typed and refer to the Solver's own variables (as C01)",
    "the backend's solve() writes a value of the variable's own type into every sol field (z3: is_true / as_long)",
    "sol fields of variables that are not answer keys are outside the property (they keep whatever the last backend call left)",
]

ERR = {1: "IndexError", 2: "KeyError", 3: "AssertionError", 4: "TypeError", 5: "ValueError",
       6: "RecursionError", 7: "NotImplementedError", 8: "Other"}


def md5(s):
    return hashlib.md5(s.encode()).hexdigest()[:10]


def translate(ctx):
    c01translate.translate()


# ----------------------------------------------------------------- programs

def gen_program(ctx, rng, maxenv=200):
    while True:
        decls = G.gen_decls(rng, 4, empty_p=0.01)
        if G.n_envs(decls) <= maxenv:
            break
    g = G.Gen(rng, decls, count=ctx.count)
    cons = [g.gbool(rng.randint(1, 3)) for _ in range(rng.randint(0, 3))]
    mode = rng.choice(["none", "all", "some", "some", "some"])
    if mode == "none":
        keys = [False] * len(decls)
    elif mode == "all":
        keys = [True] * len(decls)
    else:
        keys = [rng.random() < 0.6 for _ in decls]
    ctx.count("keys:" + mode)
    return decls, cons, keys


class SetupFailed(Exception):
    pass


def setup(decls, cons, keys):
    try:
        return _setup(decls, cons, keys)
    except Exception as ex:      # noqa
        raise SetupFailed(vlib.err_name(ex))


def _setup(decls, cons, keys):
    from cspuz import Solver
    s = Solver()
    vs = G.declare(s, decls)
    s.ensure([G.build(c, vs) for c in cons])
    ks = [v for v, k in zip(vs, keys) if k]
    if ks:
        if len(ks) % 2:
            s.add_answer_key(ks)
        else:
            s.add_answer_key(*ks)
    return s, vs


class LoopBound(Exception):
    """raised by the harness' backends when Solver.solve keeps re-solving beyond any
    bound the property allows (a mutated loop would otherwise never return)."""


_BZ3 = {}


def bounded_z3(bound):
    """the real Z3Backend, except that solve() may be called at most `bound` times."""
    if bound not in _BZ3:
        from cspuz.backend.z3 import Z3Backend

        class BoundedZ3(Z3Backend):
            def solve(self):
                self._n = getattr(self, "_n", 0) + 1
                if self._n > bound:
                    raise LoopBound()
                return Z3Backend.solve(self)
        _BZ3[bound] = BoundedZ3
    return _BZ3[bound]


def run_case(decls, cons, keys, backend):
    """declare + ensure + add_answer_key + solve; -> (result, sols, solver or None)"""
    try:
        s, vs = setup(decls, cons, keys)
    except SetupFailed as ex:
        return ("err", "Other"), [None] * len(decls), None
    r, sols = run_solve(s, vs, backend)
    return r, sols, s


def run_solve(s, vs, backend):
    if backend == "z3":
        backend = bounded_z3(sum(1 for k in s.is_answer_key if k) + 4)
    with warnings.catch_warnings():
        warnings.simplefilter("ignore")
        r = vlib.guarded(lambda: s.solve(backend=backend))
    if r[0] == "err":
        return ("err", r[1] if r[1] in ERR.values() else "Other"), [v.sol for v in vs]
    return r, [v.sol for v in vs]


def result_tok(r, sols):
    if r[0] == "err":
        return "E %d" % [k for k, v in ERR.items() if v == r[1]][0]
    if r[1] is False:
        return "U"
    if r[1] is True:
        return "S " + G.vals_tok(sols)
    return "?%r" % (r[1],)


# ----------------------------------------------------------------- scripted backend

def make_scripted(policy, rng, ms, script, log, given):
    """backend class handed to Solver.solve.  policy 'script': answers from `script`;
    otherwise live: a model (from ms) of everything posted so far, chosen by policy.
    `given` receives the answers actually given (the script to replay in the model)."""
    from cspuz.backend.backend import Backend

    class Scripted(Backend):
        def __init__(self, variables):
            self.variables = variables
            self.adds = 0
            self.posted = []
            self.prev = None
            self.solves = 0

        def add_constraint(self, c):
            if isinstance(c, list):        # the program itself, loaded once by Solver.solve
                log.append(("init", list(c)))
                return
            log.append(("add", c))
            self.posted.append(c)
            self.adds += 1

        def _answer(self):
            if policy == "script":
                return script[self.adds] if self.adds < len(script) else None
            cand = [m for m in ms if all(bool(G.teval(c, m)) for c in self.posted)]
            if not cand:
                return None
            if policy == "first":
                return cand[0]
            if policy == "last":
                return cand[-1]
            if policy == "random":
                return rng.choice(cand)
            dist = lambda m: sum(1 for a, b in zip(m, self.prev or m) if a != b)  # noqa
            if policy == "fewest":
                return min(cand, key=dist)
            return max(cand, key=dist)

        def solve(self):
            self.solves += 1
            if self.solves > (len(script) + 3 if policy == "script" else len(self.variables) + 4):
                raise LoopBound()
            a = self._answer()
            while len(given) <= self.adds:
                given.append(None)
            given[self.adds] = a
            if a is None:
                return False
            self.prev = a
            for v, x in zip(self.variables, a):
                v.sol = x
            return True
    return Scripted


def script_tok(given):
    return " ".join("U" if a is None else G.vals_tok(a) for a in given)


def scripted_case(ctx, rng, m_reqs, cases):
    import exprio
    decls, cons, keys = gen_program(ctx, rng)
    ms = G.models(decls, cons)
    x = rng.random()
    if x < 0.7:
        policy = rng.choice(["first", "last", "random", "fewest", "most"])
        script = None
    else:
        policy = "script"
        script = []
        doms = [[False, True] if d == "b" else list(range(d[1] - 1, d[2] + 2)) for d in decls]
        for _ in range(rng.randint(0, 5)):
            y = rng.random()
            if y < 0.12:
                script.append(None)
            elif y < 0.4 and script and script[-1] is not None:
                script.append(script[-1])                # repeated answer: nothing is demoted
            elif y < 0.7 and ms:
                script.append(rng.choice(ms))
            else:
                script.append(tuple(rng.choice(dm) for dm in doms))
    ctx.count("policy:" + policy)
    log, given = [], []
    cls = make_scripted(policy, rng, ms, script, log, given)
    r, sols, _s = run_case(decls, cons, keys, cls)
    clauses = [c for k, c in log if k == "add"]
    impl = result_tok(r, sols) + " | " + exprio.show_list(clauses)
    fuel = "auto" if policy != "script" else str(len(script) + 2)
    req = "SCRIPT %s %s [%s ] %s" % (fuel, G.decls_tok(decls), "".join(" 1" if k else " 0" for k in keys),
                                      script_tok(given if policy != "script" else script))
    m_reqs.append(req)
    cases.append({"decls": decls, "cons": cons, "keys": keys, "policy": policy, "impl": impl, "req": req,
                  "result": r, "sols": sols, "ms": ms, "init_ok": [k for k, _ in log][:1] == ["init"]})


# ----------------------------------------------------------------- native route (conformant reply)

def make_native(ms, keys, seen):
    """a SugarLikeBackend whose external solver call answers in the deduction-mode
    format with the facts computed by enumeration (a protocol-conformant backend)."""
    from cspuz.backend.sugar_like import SugarLikeBackend
    from cspuz.expr import BoolVar

    class Native(SugarLikeBackend):
        def _call_solver(self, desc):
            seen.append(desc)
            if not ms:
                return "unsat\n"
            f = G.facts(ms, keys)
            lines = ["sat"]
            for v, k, a in zip(self.variables, keys, f):
                if k and a is not None:
                    name = ("b%d" if isinstance(v, BoolVar) else "i%d") % v.id
                    lines.append("%s %s" % (name, ("true" if a else "false") if isinstance(a, bool) else str(a)))
            return "\n".join(lines) + "\n"
    return Native


# ----------------------------------------------------------------- correspondence

def correspond(ctx):
    rng = ctx.rng
    m = ctx.model("C02")
    ctx._c02 = {"z3": [], "scripted": []}

    reqs, cases = [], []
    for it in range(600 if not ctx.thorough else 6000):
        scripted_case(ctx, rng, reqs, cases)
    outs = m.batch(reqs)
    for c, o in zip(cases, outs):
        ctx.corr("scripted", (c["req"], c["policy"]), o, c["impl"])
        if not c["init_ok"]:
            ctx.mismatches.append({"kind": "scripted-init", "input": c["req"], "model": "program loaded first", "impl": "not"})
    ctx._c02["scripted"] = cases

    reqs, cases = [], []
    n = 250 if not ctx.thorough else 3000
    if getattr(ctx, "deep", False):
        n *= 3
    for it in range(n):
        decls, cons, keys = gen_program(ctx, rng)
        r, sols, s = run_case(decls, cons, keys, "z3")
        st = G.state_tok(decls, keys, list(s.constraints)) if s is not None else "setup-failed " + repr((decls, keys))
        ksols = [x if k else None for x, k in zip(sols, keys)]
        reqs.append("SOLVEKEYS " + st)
        reqs.append("FACTS " + st)
        cases.append({"decls": decls, "cons": cons, "keys": keys, "result": r, "sols": sols, "ksols": ksols, "state": st})
    outs = m.batch(reqs)
    for i, c in enumerate(cases):
        ctx.corr("solve-z3", c["state"], outs[2 * i], result_tok(c["result"], c["ksols"]))
        c["coq_facts"] = outs[2 * i + 1]
    ctx._c02["z3"] = cases


# ----------------------------------------------------------------- search

def expected(decls, cons, keys):
    ms = G.models(decls, cons)
    f = G.facts(ms, keys)
    return ("ok", f is not None), f


def solve_fails(decls, cons, keys, backend="z3"):
    if backend == "native":
        ms = G.models(decls, cons)
        backend = make_native(ms, keys, [])
    r, sols, _s = run_case(decls, cons, keys, backend)
    er, f = expected(decls, cons, keys)
    if r != er:
        return "verdict", "solve() -> %s, but the program is %s" % (
            r[1] if r[0] == "ok" else "raises " + r[1], "satisfiable" if er[1] else "unsatisfiable")
    if er[1]:
        for i, k in enumerate(keys):
            if k and sols[i] != f[i] or (k and type(sols[i]) is not type(f[i])):
                return "fact", "answer key #%d: sol = %r, but %s" % (
                    i, sols[i], ("every solution has %r" % (f[i],)) if f[i] is not None else "two solutions differ on it")
    return None


def report(ctx, decls, cons, keys, backend, first):
    cat = first[0]

    def same(d, c):
        x = solve_fails(d, c, keys, backend)
        return x is not None and x[0] == cat
    small = G.shrink(decls, cons, same, budget=120) if cons else cons
    now = solve_fails(decls, small, keys, backend) or first
    try:
        s, vs = setup(decls, small, keys)
        st = G.state_tok(decls, keys, list(s.constraints))
    except SetupFailed:
        st = "setup-failed " + repr((decls, keys, small))
    er, f = expected(decls, small, keys)
    ctx.violation("solve-%s-%s" % (backend, md5(st)), now[1],
                  {"decls": [list(d) if d != "b" else "b" for d in decls], "keys": keys,
                   "program": [G.show_surface(c) for c in small], "surface": repr(small), "state": st,
                   "backend": backend, "expected_facts": f, "category": cat})


def check_case(ctx, decls, cons, keys, backend):
    ctx.prop_case("solve-%s-vs-enumeration" % backend,
                  (G.decls_tok(decls), tuple(G.show_surface(c) for c in cons), tuple(keys)))
    x = solve_fails(decls, cons, keys, backend)
    if x:
        report(ctx, decls, cons, keys, backend, x)


def search(ctx):
    rng = ctx.rng
    data = getattr(ctx, "_c02", None)
    progs = []
    if data and data["z3"]:
        for c in data["z3"]:
            progs.append((c["decls"], c["cons"], c["keys"]))
            # the Coq specification of the facts vs the harness' enumeration
            er, f = expected(c["decls"], c["cons"], c["keys"])
            exp = "U" if f is None else "S " + G.vals_tok(f)
            if c.get("coq_facts") != exp:
                ctx.mismatches.append({"kind": "spec-vs-pyfacts", "input": c["state"], "model": c.get("coq_facts"), "impl": exp})
    else:
        for it in range(150):
            progs.append(gen_program(ctx, rng))
    for (decls, cons, keys) in progs:
        check_case(ctx, decls, cons, keys, "z3")
    for (decls, cons, keys) in progs[: (150 if not ctx.thorough else len(progs))]:
        check_case(ctx, decls, cons, keys, "native")
    # the scripted runs with a conformant live backend are also instances of the property
    if data:
        for c in data["scripted"]:
            if c["policy"] == "script":
                continue
            ctx.prop_case("solve-live-vs-enumeration", (c["req"], c["policy"]))
            er, f = expected(c["decls"], c["cons"], c["keys"])
            ok = c["result"] == er and (f is None or all((not k) or c["sols"][i] == f[i] for i, k in enumerate(c["keys"])))
            if not ok:
                st = c["req"]
                ctx.violation("solve-live-" + md5(st), "solve() with a conformant backend (policy %s) reports %r / %r, expected %r"
                              % (c["policy"], c["result"], c["sols"], f),
                              {"decls": [list(d) if d != "b" else "b" for d in c["decls"]], "keys": c["keys"],
                               "program": [G.show_surface(x) for x in c["cons"]], "surface": repr(c["cons"]),
                               "backend": "live:" + c["policy"], "expected_facts": f, "script": c["req"]})
    if getattr(ctx, "deep", False) and not ctx.violations:
        for it in range(800):
            decls, cons, keys = gen_program(ctx, rng)
            check_case(ctx, decls, cons, keys, "z3")
            if len(ctx.violations) >= 3:
                break


def replay(ctx, rp):
    v = rp.get("violation", {}).get("detail", {})
    print(rp.get("violation", rp))
    if not v or "surface" not in v or v.get("backend") not in ("z3", "native"):
        return 0
    decls = [d if d == "b" else tuple(d) for d in v["decls"]]
    cons = eval(v["surface"], {})      # written by this harness: nested tuples of literals
    x = solve_fails(decls, cons, v["keys"], v["backend"])
    print("now:", x[1] if x else "property holds on this input")
    return 1 if x else 0
