(* C11 Tier 1 - model of cspuz/puzzle/norinori.py::solve_norinori, all board shapes:
       is_black = solver.bool_array((height, width)); solver.add_answer_key(is_black)
       for y, x:  ensure(is_black[y, x].then(count_true(is_black.four_neighbors(y, x)) == 1))
       for block in blocks:  ensure(count_true(is_black[block]) == 2)
   four_neighbors lists up, down, left, right (those inside the board).
   The problem uses the encoding of Rules_norinori.v ([[h; w]; region ids]); block i
   is the list of the cells with region id i in row-major order.  No proofs here. *)
From Coq Require Import ZArith List Bool Arith.
From Cspuz Require Import Lib.PyErr Core.Expr Core.Program Puzzle.PuzzleBase Puzzle.ModelBase
     Puzzle.Rules_norinori.
Import ListNotations.
Local Open Scope nat_scope.

Definition region_cells (h w : nat) (region : list Z) (i : nat) : list (nat * nat) :=
  filter (fun '(y, x) => (at2 region w y x =? Z.of_nat i)%Z) (cells h w).

Definition norinori_constraints (h w : nat) (region : list Z) : list expr :=
  map (fun '(y, x) => BNode IMP [BVar (cidx w (y, x));
                                 BNode EQ [ct_vars (map (cidx w) (nbr4 h w y x)); PyInt 1]]) (cells h w) ++
  map (fun i => BNode EQ [ct_vars (map (cidx w) (region_cells h w region i)); PyInt 2])
      (seq 0 (n_regions region)).

Definition solve_norinori_model (pb : problem) : res state :=
  let h := dim pb 0 in let w := dim pb 1 in
  Ok (bool_grid_state (h * w) (norinori_constraints h w (sec pb 1))).
