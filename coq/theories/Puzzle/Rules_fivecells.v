(* C11 rule specification - Fivecells.
   Published rules (puzz.link, "Fivecells"):
     1. Divide the board into regions of exactly five cells each.
     2. A number in a cell is the number of sides of that cell that are region
        borders; the outline of the board counts as a border.

   problem = [[h; w]; grid]   per cell: < -1 the cell is not part of the board, -1 no number, n >= 0 a number
   answer  = one flag per pair of orthogonally adjacent board cells, 1 = a border
             runs between them; pairs are listed cell by cell in row-major order,
             for each cell first the pair with the cell below, then with the cell to the right *)
From Coq Require Import ZArith List Bool Arith.
From Cspuz Require Import Graph.GraphModel Puzzle.PuzzleBase.
Import ListNotations.

Definition fivecells_graph (h w : nat) (grid : list Z) : graph :=
  let ex := fun y x => (-1 <=? at2 grid w y x)%Z in
  {| nv := h * w;
     edges := flat_map (fun '(y, x) =>
                if ex y x then
                  (if Nat.ltb (S y) h && ex (S y) x then [(y * w + x, S y * w + x)] else []) ++
                  (if Nat.ltb (S x) w && ex y (S x) then [(y * w + x, y * w + S x)] else [])
                else []) (cells h w) |}.

Definition rules_fivecells (pb : problem) (ans : answer) : bool :=
  let h := dim pb 0 in let w := dim pb 1 in
  let grid := sec pb 1 in
  let g := fivecells_graph h w grid in
  let border := fun k => isb (getz ans k) in
  let open := fun k => negb (border k) in
  let exists_ := fun v => (-1 <=? getz grid v)%Z in
  let region := fun v => component g (fun _ => true) open v in
  Nat.eqb (length ans) (length (edges g)) && forallb is01 ans &&
  forallb (fun v => negb (exists_ v) || Nat.eqb (length (region v)) 5) (seq 0 (h * w)) &&
  (* a drawn border separates two different regions *)
  forallb (fun '(k, (u, v)) => negb (border k) || negb (mem v (region u)))
          (combine (seq 0 (length (edges g))) (edges g)) &&
  forallb (fun v =>
     let c := getz grid v in
     (c <? 0)%Z ||
     let inc := incident g v in
     (Z.of_nat (count (fun '(_, k) => border k) inc + (4 - length inc)) =? c)%Z) (seq 0 (h * w)).

Definition answers_fivecells (pb : problem) : list answer :=
  all_answers (bool_doms (length (edges (fivecells_graph (dim pb 0) (dim pb 1) (sec pb 1))))).
