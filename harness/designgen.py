"""regenerate the generated blocks of DESIGN.md (between <!-- GEN:name --> and <!-- /GEN:name -->)"""
import json, os, re, subprocess, glob
ROOT = os.path.dirname(os.path.dirname(os.path.abspath(__file__)))
def findings():
    out = ["| kind | property | repo commit / key | what failed (as exhibited by the check before the fix) |", "|---|---|---|---|"]
    for line in open(os.path.join(ROOT, "KNOWN_FINDINGS.txt")):
        line = line.strip()
        m = re.match(r"fixed:\s+property=(\S+)\s+(\S+)\s+(.*)", line)
        if m:
            out.append("| fixed | %s | %s | %s |" % (m.group(1), m.group(2), m.group(3).replace("|", "/")[:420]))
        m = re.match(r"known:\s+property=(\S+)\s+key=(\S+)\s+(.*)", line)
        if m:
            out.append("| known finding | %s | `%s` | %s |" % (m.group(1), m.group(2), m.group(3).replace("|", "/")[:420]))
    return "\n".join(out)
def seeds():
    rows = ["| seed | property | ./check result (quick) | earlier results | what the change is |", "|---|---|---|---|---|"]
    for d in sorted(glob.glob(os.path.join(ROOT, "seeded", "*"))):
        mp = os.path.join(d, "meta.json")
        if not os.path.exists(mp):
            continue
        m = json.load(open(mp))
        r = m.get("checks", {}).get(m["property"], {})
        v = "caught, concrete failing input" if r.get("caught") and r.get("concrete_input") else ("caught, no-failing-input-found" if r.get("caught") else "MISSED")
        hist = []
        for h in m.get("history", []):
            hr = h.get("checks", {}).get(m["property"], {})
            hist.append("caught+input" if hr.get("caught") and hr.get("concrete_input") else ("caught" if hr.get("caught") else "missed"))
        note = ""
        np_ = os.path.join(d, "notes.md")
        if os.path.exists(np_):
            lines = [l.strip() for l in open(np_).read().split("\n") if l.strip() and not l.startswith("#")]
            note = re.sub(r"\s+", " ", " ".join(lines[:2]))[:200].replace("|", "/")
        rows.append("| %s | %s | %s | %s | %s |" % (m["id"], m["property"], v, ", ".join(hist) or "-", note))
    return "\n".join(rows)
def status():
    import importlib, sys
    sys.path.insert(0, os.path.join(ROOT, "harness"))
    md = importlib.import_module("manifest_data")
    rows = ["| property | theorems closed | quick cases | wall (s) | level note |", "|---|---|---|---|---|"]
    for pid in sorted(md.CLAIMED):
        ev = {}
        try:
            ev = json.load(open(os.path.join(ROOT, "evidence", pid + ".json")))
        except Exception:
            pass
        cov = ev.get("coverage", {})
        rows.append("| %s | %s/%s | %s | %s | %s |" % (pid, cov.get("discharged", "?"), cov.get("obligations", "?"), cov.get("evaluations", "?"), ev.get("wall_s", "?"), md.CLAIMED[pid]["note"][:260].replace("|", "/")))
    return "\n".join(rows)
blocks = {"findings": findings, "seeds": seeds, "status": status}
p = os.path.join(ROOT, "DESIGN.md")
s = open(p).read()
for name, fn in blocks.items():
    a, b = "<!-- GEN:%s -->" % name, "<!-- /GEN:%s -->" % name
    if a in s and b in s:
        i, j = s.index(a) + len(a), s.index(b)
        s = s[:i] + "\n" + fn() + "\n" + s[j:]
open(p, "w").write(s)
print("DESIGN.md regenerated")
