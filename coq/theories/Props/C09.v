From Coq Require Import ZArith List.
From Cspuz Require Import Lib.PyErr Core.Expr Core.Program Graph.GraphModel Graph.Acyclic.
Theorem acyclic_zero_vertices : forall st flags g, nv g = 0%nat -> post_acyclic st flags g = Err ValueError.
Proof. intros st flags g H. unfold post_acyclic. rewrite H. reflexivity. Qed.
Print Assumptions acyclic_zero_vertices.
