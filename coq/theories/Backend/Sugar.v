(* Mirror of cspuz/backend/sugar_like.py: the S-expression printer, the CSP
   description handed to the external solver, and the two reply parsers.
   Definitions only (no proofs). *)
From Coq Require Import ZArith List Bool String Ascii.
From Cspuz Require Import Lib.PyErr Core.Expr Core.Program Backend.SugarText Gen.SugarOps.
Import ListNotations.
Open Scope string_scope.

(* the objects SugarLikeBackend.__init__ accepts: BoolVar(id) / IntVar(id, lo, hi) *)
Inductive bvar := VBool (id : nat) | VInt (id : nat) (lo hi : Z).
Definition var_id (v : bvar) : nat := match v with VBool i => i | VInt i _ _ => i end.

(* Solver.variables: the id of a variable is its position *)
Fixpoint bvars_from (i : nat) (ds : list vdecl) : list bvar :=
  match ds with
  | [] => []
  | DBool :: r => VBool i :: bvars_from (S i) r
  | DInt lo hi :: r => VInt i lo hi :: bvars_from (S i) r
  end.
Definition bvars_of_state (st : state) : list bvar := bvars_from 0 (vars st).

(* OP_TO_OPNAME[e.op]  (table generated from the Python source) *)
Fixpoint assoc_op (o : op) (t : list (op * string)) : option string :=
  match t with
  | [] => None
  | (o', n) :: r => if op_eqb o o' then Some n else assoc_op o r
  end.
(* a Python dict literal keeps the last value of a repeated key *)
Definition opname (o : op) : option string := assoc_op o (rev opname_table).

(* _convert_variable *)
Definition print_var (v : bvar) : string :=
  match v with
  | VBool i => "(bool b" ++ pn i ++ ")"
  | VInt i lo hi => "(int i" ++ pn i ++ " " ++ pz lo ++ " " ++ pz hi ++ ")"
  end.
(* "b{}".format(v.id) / "i{}".format(v.id) *)
Definition var_name (v : bvar) : string :=
  match v with VBool i => "b" ++ pn i | VInt i _ _ => "i" ++ pn i end.

(* truth value of an operand, as `"true" if e.operands[0] else "false"` takes it:
   Expr.__bool__ raises ValueError *)
Definition truthy (e : expr) : res bool :=
  match e with
  | PyBool b => Ok b
  | PyInt z => Ok (negb (Z.eqb z 0))
  | PyNone => Ok false
  | _ => Err ValueError
  end.
(* str(e.operands[0]); the default repr of an Expr object carries an address and
   is not modelled (OtherError marks it, it does not stand for an exception) *)
Definition py_str (e : expr) : res string :=
  match e with
  | PyBool true => Ok "True"
  | PyBool false => Ok "False"
  | PyInt z => Ok (pz z)
  | PyNone => Ok "None"
  | _ => Err OtherError
  end.

Definition bool_text (b : bool) : string := if b then "true" else "false".

(* _convert_expr *)
Fixpoint print_expr (e : expr) : res string :=
  match e with
  | PyNone => Ok "*"
  | PyBool b => Ok (bool_text b)
  | PyInt z => Ok (pz z)
  | BVar i => Ok ("b" ++ pn i)
  | IVar i _ _ => Ok ("i" ++ pn i)
  | BNode o args | INode o args =>
      match o with
      | BOOL_CONSTANT =>
          match args with
          | [] => Err IndexError
          | a :: _ => bind (truthy a) (fun b => Ok (bool_text b))
          end
      | INT_CONSTANT =>
          match args with
          | [] => Err IndexError
          | a :: _ => py_str a
          end
      | _ =>
          match opname o with
          | None => Err KeyError
          | Some n =>
              bind ((fix go (l : list expr) : res (list string) :=
                       match l with
                       | [] => Ok []
                       | x :: r => bind (print_expr x) (fun s => bind (go r) (fun ss => Ok (s :: ss)))
                       end) args)
                   (fun parts => Ok ("(" ++ n ++ " " ++ join " " parts ++ ")"))
          end
      end
  end.

(* SugarLikeBackend.__init__ + add_constraint(list): the converted lines *)
Definition constraint_lines (cs : list expr) : res (list string) := mapM print_expr cs.
Definition var_lines (vs : list bvar) : list string := map print_var vs.

(* the answer-key line of solve_irrefutably: is_answer_key[i] is indexed by position *)
Fixpoint key_names_from (vs : list bvar) (i : nat) (ks : list bool) : res (list string) :=
  match vs with
  | [] => Ok []
  | v :: r =>
      match nth_error ks i with
      | None => Err IndexError
      | Some k =>
          bind (key_names_from r (S i) ks)
               (fun rest => Ok (if k then var_name v :: rest else rest))
      end
  end.
Definition key_names (vs : list bvar) (ks : list bool) : res (list string) := key_names_from vs 0 ks.
Definition key_line (names : list string) : string := "#" ++ join " " names.

(* mode: None = solve() (answer finder), Some keys = solve_irrefutably(keys) *)
Definition description (vs : list bvar) (cs : list expr) (mode : option (list bool)) : res string :=
  bind (constraint_lines cs) (fun cl =>
  match mode with
  | None => Ok (join s_nl (var_lines vs ++ cl))
  | Some ks => bind (key_names vs ks) (fun names => Ok (join s_nl (var_lines vs ++ cl ++ [key_line names])))
  end).

(* ---- reply parsers ---- *)
(* max_var_id + 1 *)
Definition asg_len (vs : list bvar) : nat := fold_right (fun v m => Nat.max (S (var_id v)) m) O vs.

Definition conv_val (s : string) : res value :=
  if String.eqb s "true" then Ok (VB true)
  else if String.eqb s "false" then Ok (VB false)
  else rmap VI (py_int s).

(* var, val = line[2:].strip().split("\t") *)
Definition kv_answer (line : string) : res (string * string) :=
  match split_on ch_tab (strip (drop 2 line)) with
  | [a; b] => Ok (a, b)
  | _ => Err ValueError
  end.
(* var, val = line.split(" ") *)
Definition kv_deduction (line : string) : res (string * string) :=
  match split_on ch_sp line with
  | [a; b] => Ok (a, b)
  | _ => Err ValueError
  end.

Fixpoint assign_loop (kv : string -> res (string * string)) (lines : list string)
         (asg : list (option value)) : res (list (option value)) :=
  match lines with
  | [] => Ok asg
  | line :: r =>
      if Nat.leb (String.length line) 2 then Ok asg
      else
        bind (kv line) (fun '(var, val) =>
        bind (conv_val val) (fun cv =>
        bind (py_int (drop 1 var)) (fun k =>
        bind (py_setitem asg k (Some cv)) (fun asg' =>
        assign_loop kv r asg'))))
  end.

Definition read_sol (vs : list bvar) (asg : list (option value)) : list (option value) :=
  map (fun v => nth (var_id v) asg None) vs.
Definition no_sol (vs : list bvar) : list (option value) := map (fun _ => None) vs.

(* SugarLikeBackend.solve after _call_solver returned [reply] *)
Definition parse_answer (vs : list bvar) (reply : string) : res (bool * list (option value)) :=
  let out := split_on ch_nl reply in
  if contains "UNSATISFIABLE" (hd "" out) then Ok (false, no_sol vs)
  else bind (assign_loop kv_answer (tl out) (repeat None (asg_len vs)))
            (fun asg => Ok (true, read_sol vs asg)).

(* SugarLikeBackend.solve_irrefutably after _call_solver returned [reply] *)
Definition parse_deduction (vs : list bvar) (reply : string) : res (bool * list (option value)) :=
  let out := split_on ch_nl reply in
  if contains "unsat" (hd "" out) then Ok (false, no_sol vs)
  else bind (assign_loop kv_deduction (tl out) (repeat None (asg_len vs)))
            (fun asg => Ok (true, read_sol vs asg)).

(* ---- the five subclasses: they differ only in _call_solver; SugarBackend
   has no native deduction mode ---- *)
Inductive backend_kind := K_sugar | K_sugar_extended | K_csugar | K_enigma_csp | K_cspuz_core.
Definition native_deduction (k : backend_kind) : bool :=
  match k with K_sugar => false | _ => true end.
(* subprocess route (run_subprocess) or in-process extension module *)
Definition uses_subprocess (k : backend_kind) : bool :=
  match k with K_sugar | K_sugar_extended => true | _ => false end.

(* what _call_solver hands the text to *)
Definition entry_point (k : backend_kind) : string :=
  match k with
  | K_sugar | K_sugar_extended => "run_subprocess"
  | K_csugar => "pycsugar.solver"
  | K_enigma_csp => "enigma_csp.solver"
  | K_cspuz_core => "cspuz_core.solver"
  end.

Definition description_k (k : backend_kind) (vs : list bvar) (cs : list expr)
           (mode : option (list bool)) : res string :=
  match mode with
  | Some _ => if native_deduction k then description vs cs mode
              else bind (constraint_lines cs) (fun _ => Err NotImplementedErr)
  | None => description vs cs mode
  end.
