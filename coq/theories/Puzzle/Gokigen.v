(* C11 Tier 1 - model of cspuz/puzzle/gokigen.py::solve_gokigen, all board shapes:
       edge_type = solver.bool_array((height, width)); solver.add_answer_key(edge_type)     # false: /, true: \
       g = graph.Graph((height + 1) * (width + 1)); edge_list = []
       for y in range(height): for x in range(width):
           g.add_edge(y * (width + 1) + x, (y + 1) * (width + 1) + (x + 1)); edge_list.append(edge_type[y, x])
           g.add_edge(y * (width + 1) + (x + 1), (y + 1) * (width + 1) + x); edge_list.append(~edge_type[y, x])
       graph.active_edges_acyclic(solver, edge_list, g)
       for y in range(height + 1): for x in range(width + 1):
           if problem[y][x] >= 0:
               related = [edge_type[y-1, x-1] if 0 < y and 0 < x] + [~edge_type[y-1, x] if 0 < y and x < width]
                       + [~edge_type[y, x-1] if y < height and 0 < x] + [edge_type[y, x] if y < height and x < width]
               solver.ensure(count_true(related) == problem[y][x])
   The call into cspuz.graph is the model of property C09 (Graph/Acyclic.v::post_acyclic) on the graph of the
   lattice points with both diagonals of every cell; the flags are the cell variable and its NOT-node.  The
   lattice has (h + 1) * (w + 1) >= 1 points, so int_array never raises here.
   The problem uses the encoding of Rules_gokigen.v ([[h; w]; clue], clue = the (h + 1) x (w + 1) point grid
   flattened row-major, negative = no clue).  A clue grid with fewer than (h + 1) * (w + 1) entries makes the
   Python raise IndexError at the first missing `problem[y][x]` (every point is read); the model returns
   Err IndexError for the flat list being too short (the plug-in's malformed problems drop trailing rows or
   trailing entries of a row; ragged grids that are too long elsewhere are not representable in the flat
   encoding and are never generated).  No proofs here. *)
From Coq Require Import ZArith List Bool Arith.
From Cspuz Require Import Lib.PyErr Core.Expr Core.Program Graph.GraphModel Graph.Acyclic
     Puzzle.PuzzleBase Puzzle.ModelBase.
Import ListNotations.
Local Open Scope nat_scope.

(* lattice point (y, x) of a board with w columns *)
Definition gk_pt (w y x : nat) : nat := y * S w + x.

(* the two diagonals of cell (y, x): first "\", then "/" *)
Definition gk_back (w : nat) (c : nat * nat) : nat * nat :=
  (gk_pt w (fst c) (snd c), gk_pt w (S (fst c)) (S (snd c))).
Definition gk_slash (w : nat) (c : nat * nat) : nat * nat :=
  (gk_pt w (fst c) (S (snd c)), gk_pt w (S (fst c)) (snd c)).

Definition gk_graph (h w : nat) : graph :=
  {| nv := S h * S w; edges := flat_map (fun c => [gk_back w c; gk_slash w c]) (cells h w) |}.

Definition gk_var (w : nat) (c : nat * nat) : expr := BVar (cidx w c).
Definition gk_nvar (w : nat) (c : nat * nat) : expr := BNode NOT [BVar (cidx w c)].

Definition gk_flags (h w : nat) : list expr :=
  flat_map (fun c => [gk_var w c; gk_nvar w c]) (cells h w).

(* the (at most four) lines that can meet at lattice point (y, x) *)
Definition gk_related (h w y x : nat) : list expr :=
  (if Nat.ltb 0 y && Nat.ltb 0 x then [gk_var w (y - 1, x - 1)] else []) ++
  (if Nat.ltb 0 y && Nat.ltb x w then [gk_nvar w (y - 1, x)] else []) ++
  (if Nat.ltb y h && Nat.ltb 0 x then [gk_nvar w (y, x - 1)] else []) ++
  (if Nat.ltb y h && Nat.ltb x w then [gk_var w (y, x)] else []).

(* constraints.count_true over BoolVars / BoolExprs *)
Definition gk_count (l : list expr) : expr :=
  match l with
  | [] => INode INT_CONSTANT [PyInt 0]
  | _ => INode ADD (map (fun e => INode IF [e; PyInt 1; PyInt 0]) l)
  end.

Definition gk_clue (h w : nat) (clue : list Z) (p : nat * nat) : list expr :=
  let c := at2 clue (S w) (fst p) (snd p) in
  if (c <? 0)%Z then [] else [BNode EQ [gk_count (gk_related h w (fst p) (snd p)); PyInt c]].

Definition gk_clues (h w : nat) (clue : list Z) : list expr :=
  flat_map (gk_clue h w clue) (cells (S h) (S w)).

Definition solve_gokigen_model (pb : problem) : res state :=
  let h := dim pb 0 in let w := dim pb 1 in
  let clue := sec pb 1 in
  match post_acyclic (bool_grid_state (h * w) []) (gk_flags h w) (gk_graph h w) with
  | Ok st1 => if Nat.ltb (length clue) (S h * S w) then Err IndexError
              else Ok (ensure st1 (gk_clues h w clue))
  | Err e => Err e
  end.
