(* C11 Tier 1 - shakashaka, part 3: a white area with a sealed quarter (a white quarter whose neighbour across the
   cell side is not white) is an upright rectangle of empty cells, when the local patterns hold everywhere. *)
From Coq Require Import ZArith List Bool Arith Lia.
From Cspuz Require Import Puzzle.PuzzleBase Puzzle.ShakashakaSem Puzzle.ShakashakaGeo.
Import ListNotations.
Local Open Scope Z_scope.

Section Axis.
  Variable cst : Z -> Z -> nat.
  Variables Hb Wb : Z.
  Hypothesis cst_le : forall y x, (cst y x <= 5)%nat.
  Hypothesis cst_out : forall y x, ~ (0 <= y < Hb /\ 0 <= x < Wb) -> cst y x = 5%nat.
  Hypothesis HL : Lok cst.

  Notation wq := (wq cst).
  Notation white := (white cst).
  Notation qreach := (qreach cst).

  Lemma wq_false y x q : wq y x q = false -> cov (cst y x) q = true.
  Proof. unfold ShakashakaGeo.wq. intros H. apply negb_false_iff in H. exact H. Qed.
  Lemma wq_false_of y x q : cov (cst y x) q = true -> wq y x q = false.
  Proof. unfold ShakashakaGeo.wq. intros H. rewrite H. reflexivity. Qed.
  Lemma is0_of y x : cst y x = 0%nat -> is0 (cst y x) = true.
  Proof. intros H. rewrite H. reflexivity. Qed.
  Lemma is0_to y x : is0 (cst y x) = true -> cst y x = 0%nat.
  Proof. unfold is0. intros H. apply Nat.eqb_eq in H. exact H. Qed.
  Lemma E_board y x : cst y x = 0%nat -> 0 <= y < Hb /\ 0 <= x < Wb.
  Proof.
    intros H. destruct (Z_le_dec 0 y), (Z_lt_dec y Hb), (Z_le_dec 0 x), (Z_lt_dec x Wb); try lia;
      rewrite cst_out in H by lia; discriminate.
  Qed.
  Lemma E_white y x q : cst y x = 0%nat -> (q < 4)%nat -> white (y, x, q).
  Proof. intros H Hq. split; [exact Hq|]. unfold ShakashakaGeo.wq. rewrite H. reflexivity. Qed.

  (* premises of a table instance are discharged from the context *)
  Ltac prem :=
    first [ assumption
          | apply HL; lia
          | apply is0_of; assumption
          | apply wq_false; assumption
          | match goal with H : ShakashakaGeo.wq cst ?y ?x ?q = true |- negb (cov (cst ?y ?x) ?q) = true => exact H end ].
  Ltac use4 T a b c d X :=
    pose proof (all4_spec _ T a b c d (cst_le _ _) (cst_le _ _) (cst_le _ _) (cst_le _ _)) as X; cbv beta in X;
    repeat (match type of X with (if ?p then ?q else true) = true => apply (imp_elim p q) in X; [|prem] end).
  Ltac use6 T a b c d e f X :=
    pose proof (all6_spec _ T a b c d e f (cst_le _ _) (cst_le _ _) (cst_le _ _) (cst_le _ _) (cst_le _ _) (cst_le _ _)) as X;
    cbv beta in X; repeat (match type of X with (if ?p then ?q else true) = true => apply (imp_elim p q) in X; [|prem] end).

  (* ---- the legs of a triangle cell are open *)
  Lemma legs_open y x q :
    (q < 4)%nat -> wq y x q = true -> cst y x <> 0%nat -> wqt cst (partner (y, x, q)) = true.
  Proof.
    intros Hq Hw Hne. unfold ShakashakaGeo.wq in Hw.
    pose proof (cst_le y x) as Hle.
    destruct (cst y x) as [|[|[|[|[|[|s]]]]]] eqn:E; [contradiction| | | | | |lia];
      destruct q as [|[|[|[|q]]]]; try lia; try discriminate; clear Hw; cbn [partner wqt]; unfold ShakashakaGeo.wq.
    - (* 1, E *) assert (B : Nat.eqb (cst y x) 1 = true) by (rewrite E; reflexivity).
      use4 t_leg_1_1 (cst (y - 1) x) (cst y x) (cst y (x + 1)) (cst (y - 1) (x + 1)) X. exact X.
    - (* 1, S *) assert (B : Nat.eqb (cst y x) 1 = true) by (rewrite E; reflexivity).
      use4 t_leg_1_2 (cst y (x - 1)) (cst (y + 1) (x - 1)) (cst (y + 1) x) (cst y x) X. exact X.
    - (* 2, N *) assert (B : Nat.eqb (cst y x) 2 = true) by (rewrite E; reflexivity).
      use4 t_leg_2_0 (cst (y - 1) (x - 1)) (cst y (x - 1)) (cst y x) (cst (y - 1) x) X. exact X.
    - (* 2, E *) assert (B : Nat.eqb (cst y x) 2 = true) by (rewrite E; reflexivity).
      use4 t_leg_2_1 (cst y x) (cst (y + 1) x) (cst (y + 1) (x + 1)) (cst y (x + 1)) X. exact X.
    - (* 3, N *) assert (B : Nat.eqb (cst y x) 3 = true) by (rewrite E; reflexivity).
      use4 t_leg_3_0 (cst (y - 1) x) (cst y x) (cst y (x + 1)) (cst (y - 1) (x + 1)) X. exact X.
    - (* 3, W *) assert (B : Nat.eqb (cst y x) 3 = true) by (rewrite E; reflexivity).
      use4 t_leg_3_3 (cst y (x - 1)) (cst (y + 1) (x - 1)) (cst (y + 1) x) (cst y x) X. exact X.
    - (* 4, S *) assert (B : Nat.eqb (cst y x) 4 = true) by (rewrite E; reflexivity).
      use4 t_leg_4_2 (cst y x) (cst (y + 1) x) (cst (y + 1) (x + 1)) (cst y (x + 1)) X. exact X.
    - (* 4, W *) assert (B : Nat.eqb (cst y x) 4 = true) by (rewrite E; reflexivity).
      use4 t_leg_4_3 (cst (y - 1) (x - 1)) (cst y (x - 1)) (cst y x) (cst (y - 1) x) X. exact X.
  Qed.

  Lemma sealed_empty t : sealed cst t -> cst (fst (fst t)) (snd (fst t)) = 0%nat.
  Proof.
    destruct t as [[y x] q]. intros [[Hq Hw] Hp]. cbn [fst snd].
    destruct (Nat.eq_dec (cst y x) 0) as [E|N]; [exact E|].
    rewrite (legs_open y x q Hq Hw N) in Hp. discriminate.
  Qed.

  (* ---- local steps along the sides of empty cells *)
  Ltac split_concl X := apply andb_true_iff in X; destruct X as [X1 X2]; split; [apply is0_to; exact X1|apply wq_false_of; exact X2].

  Lemma A_up y x : cst y x = 0%nat -> wq y (x - 1) 1 = false -> wq (y - 1) x 2 = true ->
    cst (y - 1) x = 0%nat /\ wq (y - 1) (x - 1) 1 = false.
  Proof.
    intros E C O.
    use6 t_A_up (cst (y - 1) (x - 1)) (cst y (x - 1)) (cst y x) (cst (y - 1) x) (cst (y - 2) (x - 1)) (cst (y - 2) x) X.
    split_concl X.
  Qed.
  Lemma T_left y x : cst y x = 0%nat -> wq (y - 1) x 2 = false -> wq y (x - 1) 1 = true ->
    cst y (x - 1) = 0%nat /\ wq (y - 1) (x - 1) 2 = false.
  Proof.
    intros E C O.
    use6 t_T_left (cst (y - 1) (x - 1)) (cst y (x - 1)) (cst y x) (cst (y - 1) x) (cst (y - 1) (x - 2)) (cst y (x - 2)) X.
    split_concl X.
  Qed.
  Lemma R_up y x : cst y x = 0%nat -> wq y (x + 1) 3 = false -> wq (y - 1) x 2 = true ->
    cst (y - 1) x = 0%nat /\ wq (y - 1) (x + 1) 3 = false.
  Proof.
    intros E C O.
    use6 t_R_up (cst (y - 1) x) (cst y x) (cst y (x + 1)) (cst (y - 1) (x + 1)) (cst (y - 2) x) (cst (y - 2) (x + 1)) X.
    split_concl X.
  Qed.
  Lemma B_left y x : cst y x = 0%nat -> wq (y + 1) x 0 = false -> wq y (x - 1) 1 = true ->
    cst y (x - 1) = 0%nat /\ wq (y + 1) (x - 1) 0 = false.
  Proof.
    intros E C O.
    use6 t_B_left (cst y (x - 1)) (cst (y + 1) (x - 1)) (cst (y + 1) x) (cst y x) (cst y (x - 2)) (cst (y + 1) (x - 2)) X.
    split_concl X.
  Qed.
  Lemma T_right y x : cst y x = 0%nat -> wq (y - 1) x 2 = false -> wq y (x + 1) 3 = true ->
    cst y (x + 1) = 0%nat /\ wq (y - 1) (x + 1) 2 = false.
  Proof.
    intros E C O.
    use6 t_T_right (cst (y - 1) x) (cst y x) (cst y (x + 1)) (cst (y - 1) (x + 1)) (cst y (x + 2)) (cst (y - 1) (x + 2)) X.
    split_concl X.
  Qed.
  Lemma L_down y x : cst y x = 0%nat -> wq y (x - 1) 1 = false -> wq (y + 1) x 0 = true ->
    cst (y + 1) x = 0%nat /\ wq (y + 1) (x - 1) 1 = false.
  Proof.
    intros E C O.
    use6 t_L_down (cst y (x - 1)) (cst (y + 1) (x - 1)) (cst (y + 1) x) (cst y x) (cst (y + 2) (x - 1)) (cst (y + 2) x) X.
    split_concl X.
  Qed.
  Lemma fill_step y x :
    cst y x = 0%nat -> cst y (x + 1) = 0%nat -> cst (y + 1) x = 0%nat ->
    (cst y (x + 2) = 0%nat \/ wq y (x + 2) 3 = false) -> cst (y + 1) (x + 1) = 0%nat.
  Proof.
    intros E1 E2 E3 D.
    assert (D' : is0 (cst y (x + 2)) || cov (cst y (x + 2)) 3 = true).
    { destruct D as [D|D]; [rewrite (is0_of _ _ D); reflexivity|rewrite (wq_false _ _ _ D); apply orb_true_r]. }
    use6 t_fill (cst y x) (cst y (x + 1)) (cst (y + 1) x) (cst (y + 1) (x + 1)) (cst y (x + 2)) (cst (y + 1) (x + 2)) X.
    apply is0_to. exact X.
  Qed.
  Lemma R_down y x : cst y x = 0%nat -> cst (y + 1) x = 0%nat -> wq y (x + 1) 3 = false -> wq (y + 1) (x + 1) 3 = false.
  Proof.
    intros E1 E2 C.
    use4 t_R_down (cst y x) (cst (y + 1) x) (cst (y + 1) (x + 1)) (cst y (x + 1)) X.
    apply wq_false_of. exact X.
  Qed.
  Lemma B_right y x : cst y x = 0%nat -> cst y (x + 1) = 0%nat -> wq (y + 1) x 0 = false -> wq (y + 1) (x + 1) 0 = false.
  Proof.
    intros E1 E2 C.
    use4 t_B_right (cst y x) (cst (y + 1) x) (cst (y + 1) (x + 1)) (cst y (x + 1)) X.
    apply wq_false_of. exact X.
  Qed.

  (* ---- moving between quarters of empty cells *)
  Section Moves.
    Variable s : quarter.

    Lemma cell_conn y x q q' :
      cst y x = 0%nat -> (q < 4)%nat -> (q' < 4)%nat -> qreach s (y, x, q) -> qreach s (y, x, q').
    Proof.
      intros E Hq Hq' H.
      assert (N : forall k, (k < 4)%nat -> qreach s (y, x, k) -> qreach s (y, x, Nat.modulo (k + 1) 4)).
      { intros k Hk Hr. eapply qr_step; [exact Hr|apply adj_next; exact Hk|].
        apply E_white; [exact E|apply Nat.mod_upper_bound; lia]. }
      assert (A : forall k, (k < 4)%nat -> qreach s (y, x, k) -> forall k', (k' < 4)%nat -> qreach s (y, x, k')).
      { intros k Hk Hr.
        pose proof (N k Hk Hr) as R1.
        pose proof (N _ ltac:(apply Nat.mod_upper_bound; lia) R1) as R2.
        pose proof (N _ ltac:(apply Nat.mod_upper_bound; lia) R2) as R3.
        intros k' Hk'.
        do 4 (destruct k as [|k]; [do 4 (destruct k' as [|k']; [first [exact Hr|exact R1|exact R2|exact R3]|]); lia|]). lia. }
      exact (A q Hq H q' Hq').
    Qed.
    Lemma move_up y x : cst y x = 0%nat -> cst (y - 1) x = 0%nat -> qreach s (y, x, 0%nat) -> qreach s (y - 1, x, 0%nat).
    Proof.
      intros E1 E2 H. apply (cell_conn (y - 1) x 2 0 E2 ltac:(lia) ltac:(lia)).
      eapply qr_step; [exact H|apply adj_up|apply E_white; [exact E2|lia]].
    Qed.
    Lemma move_down y x : cst y x = 0%nat -> cst (y + 1) x = 0%nat -> qreach s (y, x, 0%nat) -> qreach s (y + 1, x, 0%nat).
    Proof.
      intros E1 E2 H. eapply qr_step; [apply (cell_conn y x 0 2 E1 ltac:(lia) ltac:(lia) H)|apply adj_down|apply E_white; [exact E2|lia]].
    Qed.
    Lemma move_left y x : cst y x = 0%nat -> cst y (x - 1) = 0%nat -> qreach s (y, x, 0%nat) -> qreach s (y, x - 1, 0%nat).
    Proof.
      intros E1 E2 H. apply (cell_conn y (x - 1) 1 0 E2 ltac:(lia) ltac:(lia)).
      eapply qr_step; [apply (cell_conn y x 0 3 E1 ltac:(lia) ltac:(lia) H)|apply adj_left|apply E_white; [exact E2|lia]].
    Qed.
    Lemma move_right y x : cst y x = 0%nat -> cst y (x + 1) = 0%nat -> qreach s (y, x, 0%nat) -> qreach s (y, x + 1, 0%nat).
    Proof.
      intros E1 E2 H. apply (cell_conn y (x + 1) 3 0 E2 ltac:(lia) ltac:(lia)).
      eapply qr_step; [apply (cell_conn y x 0 1 E1 ltac:(lia) ltac:(lia) H)|apply adj_right|apply E_white; [exact E2|lia]].
    Qed.

    (* ---- walking to the upper left corner *)
    Lemma walk_up_L n : forall y x, y <= Z.of_nat n ->
      cst y x = 0%nat -> wq y (x - 1) 1 = false -> qreach s (y, x, 0%nat) ->
      exists y1, cst y1 x = 0%nat /\ wq y1 (x - 1) 1 = false /\ wq (y1 - 1) x 2 = false /\ qreach s (y1, x, 0%nat).
    Proof.
      induction n as [|n IH]; intros y x Hy E C R.
      - exists y. repeat split; try assumption.
        destruct (E_board y x E) as [Hy0 _]. apply wq_false_of. rewrite cst_out by lia. reflexivity.
      - destruct (wq (y - 1) x 2) eqn:O; [|exists y; repeat split; assumption].
        destruct (A_up y x E C O) as [E' C'].
        destruct (E_board y x E) as [Hy0 _].
        apply (IH (y - 1) x ltac:(lia) E' C'). apply move_up; assumption.
    Qed.
    Lemma walk_left_T n : forall y x, x <= Z.of_nat n ->
      cst y x = 0%nat -> wq (y - 1) x 2 = false -> qreach s (y, x, 0%nat) ->
      exists x1, cst y x1 = 0%nat /\ wq (y - 1) x1 2 = false /\ wq y (x1 - 1) 1 = false /\ qreach s (y, x1, 0%nat).
    Proof.
      induction n as [|n IH]; intros y x Hx E C R.
      - exists x. repeat split; try assumption.
        destruct (E_board y x E) as [_ Hx0]. apply wq_false_of. rewrite cst_out by lia. reflexivity.
      - destruct (wq y (x - 1) 1) eqn:O; [|exists x; repeat split; assumption].
        destruct (T_left y x E C O) as [E' C'].
        apply (IH y (x - 1) ltac:(lia) E' C'). apply move_left; assumption.
    Qed.
    Lemma walk_up_R n : forall y x, y <= Z.of_nat n ->
      cst y x = 0%nat -> wq y (x + 1) 3 = false -> qreach s (y, x, 0%nat) ->
      exists y1, cst y1 x = 0%nat /\ wq (y1 - 1) x 2 = false /\ qreach s (y1, x, 0%nat).
    Proof.
      induction n as [|n IH]; intros y x Hy E C R.
      - exists y. repeat split; try assumption.
        destruct (E_board y x E) as [Hy0 _]. apply wq_false_of. rewrite cst_out by lia. reflexivity.
      - destruct (wq (y - 1) x 2) eqn:O; [|exists y; repeat split; assumption].
        destruct (R_up y x E C O) as [E' C'].
        apply (IH (y - 1) x ltac:(lia) E' C'). apply move_up; assumption.
    Qed.
    Lemma walk_left_B n : forall y x, x <= Z.of_nat n ->
      cst y x = 0%nat -> wq (y + 1) x 0 = false -> qreach s (y, x, 0%nat) ->
      exists x1, cst y x1 = 0%nat /\ wq y (x1 - 1) 1 = false /\ qreach s (y, x1, 0%nat).
    Proof.
      induction n as [|n IH]; intros y x Hx E C R.
      - exists x. repeat split; try assumption.
        destruct (E_board y x E) as [_ Hx0]. apply wq_false_of. rewrite cst_out by lia. reflexivity.
      - destruct (wq y (x - 1) 1) eqn:O; [|exists x; repeat split; assumption].
        destruct (B_left y x E C O) as [E' C'].
        apply (IH y (x - 1) ltac:(lia) E' C'). apply move_left; assumption.
    Qed.

    (* an empty cell of the area with a closed side leads to an upper left corner of the area *)
    Lemma corner_from_L y x :
      cst y x = 0%nat -> wq y (x - 1) 1 = false -> qreach s (y, x, 0%nat) ->
      exists y1 x1, cst y1 x1 = 0%nat /\ wq y1 (x1 - 1) 1 = false /\ wq (y1 - 1) x1 2 = false /\ qreach s (y1, x1, 0%nat).
    Proof.
      intros E C R. destruct (walk_up_L (Z.to_nat y) y x ltac:(lia) E C R) as [y1 H]. exists y1, x. exact H.
    Qed.
    Lemma corner_from_T y x :
      cst y x = 0%nat -> wq (y - 1) x 2 = false -> qreach s (y, x, 0%nat) ->
      exists y1 x1, cst y1 x1 = 0%nat /\ wq y1 (x1 - 1) 1 = false /\ wq (y1 - 1) x1 2 = false /\ qreach s (y1, x1, 0%nat).
    Proof.
      intros E C R. destruct (walk_left_T (Z.to_nat x) y x ltac:(lia) E C R) as [x1 [E1 [C1 [C2 R1]]]].
      exists y, x1. repeat split; assumption.
    Qed.
    Lemma corner_exists y x q :
      (q < 4)%nat -> cst y x = 0%nat -> wqt cst (partner (y, x, q)) = false -> qreach s (y, x, 0%nat) ->
      exists y1 x1, cst y1 x1 = 0%nat /\ wq y1 (x1 - 1) 1 = false /\ wq (y1 - 1) x1 2 = false /\ qreach s (y1, x1, 0%nat).
    Proof.
      intros Hq E C R. destruct q as [|[|[|[|q]]]]; try lia; cbn [partner wqt] in C.
      - apply (corner_from_T y x E C R).
      - destruct (walk_up_R (Z.to_nat y) y x ltac:(lia) E C R) as [y1 [E1 [C1 R1]]].
        apply (corner_from_T y1 x E1 C1 R1).
      - destruct (walk_left_B (Z.to_nat x) y x ltac:(lia) E C R) as [x1 [E1 [C1 R1]]].
        apply (corner_from_L y x1 E1 C1 R1).
      - apply (corner_from_L y x E C R).
    Qed.
  End Moves.

  (* ---- sweeping the rectangle from its upper left corner *)
  Lemma sweep_right n : forall y x, Wb - x <= Z.of_nat n ->
    cst y x = 0%nat -> wq (y - 1) x 2 = false ->
    exists x2, x <= x2 /\ (forall x', x <= x' <= x2 -> cst y x' = 0%nat /\ wq (y - 1) x' 2 = false) /\ wq y (x2 + 1) 3 = false.
  Proof.
    induction n as [|n IH]; intros y x Hn E C.
    - destruct (E_board y x E). lia.
    - destruct (wq y (x + 1) 3) eqn:O.
      + destruct (T_right y x E C O) as [E' C'].
        destruct (IH y (x + 1) ltac:(lia) E' C') as [x2 [L [A B]]].
        exists x2. split; [lia|]. split; [|exact B].
        intros x' Hx'. destruct (Z.eq_dec x' x) as [->|Nx]; [split; assumption|apply A; lia].
      + exists x. split; [lia|]. split; [|exact O].
        intros x' Hx'. replace x' with x by lia. split; assumption.
  Qed.
  Lemma sweep_down n : forall y x, Hb - y <= Z.of_nat n ->
    cst y x = 0%nat -> wq y (x - 1) 1 = false ->
    exists y2, y <= y2 /\ (forall y', y <= y' <= y2 -> cst y' x = 0%nat /\ wq y' (x - 1) 1 = false) /\ wq (y2 + 1) x 0 = false.
  Proof.
    induction n as [|n IH]; intros y x Hn E C.
    - destruct (E_board y x E). lia.
    - destruct (wq (y + 1) x 0) eqn:O.
      + destruct (L_down y x E C O) as [E' C'].
        destruct (IH (y + 1) x ltac:(lia) E' C') as [y2 [L [A B]]].
        exists y2. split; [lia|]. split; [|exact B].
        intros y' Hy'. destruct (Z.eq_dec y' y) as [->|Ny]; [split; assumption|apply A; lia].
      + exists y. split; [lia|]. split; [|exact O].
        intros y' Hy'. replace y' with y by lia. split; assumption.
  Qed.

  Section Box.
    Variables y1 y2 x1 x2 : Z.
    Hypotheses (Hy : y1 <= y2) (Hx : x1 <= x2).
    Hypothesis top : forall x, x1 <= x <= x2 -> cst y1 x = 0%nat /\ wq (y1 - 1) x 2 = false.
    Hypothesis left : forall y, y1 <= y <= y2 -> cst y x1 = 0%nat /\ wq y (x1 - 1) 1 = false.
    Hypothesis top_end : wq y1 (x2 + 1) 3 = false.
    Hypothesis left_end : wq (y2 + 1) x1 0 = false.

    (* all rows are empty and closed on the right *)
    Lemma rows_full n : forall y, y = y1 + Z.of_nat n -> y <= y2 ->
      (forall x, x1 <= x <= x2 -> cst y x = 0%nat) /\ wq y (x2 + 1) 3 = false.
    Proof.
      induction n as [|n IH]; intros y Ey Hy2.
      - replace y with y1 by lia. split; [intros x Hx'; apply (top x Hx')|exact top_end].
      - destruct (IH (y - 1) ltac:(lia) ltac:(lia)) as [F R].
        assert (G : forall m x, x = x1 + Z.of_nat m -> x <= x2 -> cst y x = 0%nat).
        { induction m as [|m IHm]; intros x Ex Hx2.
          - replace x with x1 by lia. apply (left y). lia.
          - pose proof (fill_step (y - 1) (x - 1)) as Fs.
            replace (y - 1 + 1) with y in Fs by lia. replace (x - 1 + 1) with x in Fs by lia.
            replace (x - 1 + 2) with (x + 1) in Fs by lia.
            apply Fs.
            + apply F. lia.
            + apply F. lia.
            + apply IHm; lia.
            + destruct (Z_le_dec (x + 1) x2) as [Lx|Lx]; [left; apply F; lia|].
              right. replace (x + 1) with (x2 + 1) by lia. exact R. }
        assert (G' : forall x, x1 <= x <= x2 -> cst y x = 0%nat).
        { intros x Hx'. apply (G (Z.to_nat (x - x1)) x); lia. }
        split; [exact G'|].
        replace y with (y - 1 + 1) by lia. apply R_down; [apply F; lia| |exact R].
        replace (y - 1 + 1) with y by lia. apply G'. lia.
    Qed.
    Lemma box_empty y x : y1 <= y <= y2 -> x1 <= x <= x2 -> cst y x = 0%nat.
    Proof. intros Hy' Hx'. destruct (rows_full (Z.to_nat (y - y1)) y ltac:(lia) ltac:(lia)) as [F _]. apply F. exact Hx'. Qed.
    Lemma box_right y : y1 <= y <= y2 -> wq y (x2 + 1) 3 = false.
    Proof. intros Hy'. destruct (rows_full (Z.to_nat (y - y1)) y ltac:(lia) ltac:(lia)) as [_ R]. exact R. Qed.
    Lemma box_bottom x : x1 <= x <= x2 -> wq (y2 + 1) x 0 = false.
    Proof.
      intros Hx'.
      assert (G : forall m x, x = x1 + Z.of_nat m -> x <= x2 -> wq (y2 + 1) x 0 = false).
      { induction m as [|m IHm]; intros x0 Ex Hx2.
        - replace x0 with x1 by lia. exact left_end.
        - replace x0 with (x0 - 1 + 1) by lia. apply B_right.
          + apply box_empty; lia.
          + replace (x0 - 1 + 1) with x0 by lia. apply box_empty; lia.
          + apply IHm; lia. }
      apply (G (Z.to_nat (x - x1)) x); lia.
    Qed.

    Definition in_box (t : quarter) : Prop := y1 <= fst (fst t) <= y2 /\ x1 <= snd (fst t) <= x2.

    (* the box is closed under white adjacency *)
    Lemma box_closed t t' : in_box t -> qadj t t' -> white t' -> in_box t'.
    Proof.
      intros [By Bx] A Wt'. unfold in_box.
      destruct A as [y x q Hq|y x q Hq|y x|y x|y x|y x]; cbn [fst snd] in *; try (split; assumption).
      - destruct (Z.eq_dec y y1) as [->|N]; [|lia].
        destruct Wt' as [_ Wt']. destruct (top x Bx) as [_ C]. rewrite C in Wt'. discriminate.
      - destruct (Z.eq_dec y y2) as [->|N]; [|lia].
        destruct Wt' as [_ Wt']. rewrite (box_bottom x Bx) in Wt'. discriminate.
      - destruct (Z.eq_dec x x1) as [->|N]; [|lia].
        destruct Wt' as [_ Wt']. destruct (left y By) as [_ C]. rewrite C in Wt'. discriminate.
      - destruct (Z.eq_dec x x2) as [->|N]; [|lia].
        destruct Wt' as [_ Wt']. rewrite (box_right y By) in Wt'. discriminate.
    Qed.

    (* every quarter of the box is reached from the corner *)
    Lemma box_reached y x q : y1 <= y <= y2 -> x1 <= x <= x2 -> (q < 4)%nat -> qreach (y1, x1, 0%nat) (y, x, q).
    Proof.
      intros Hy' Hx' Hq.
      assert (R0 : qreach (y1, x1, 0%nat) (y1, x1, 0%nat)).
      { apply qr_refl. apply E_white; [apply box_empty; lia|lia]. }
      assert (Row : forall m x0, x0 = x1 + Z.of_nat m -> x0 <= x2 -> qreach (y1, x1, 0%nat) (y1, x0, 0%nat)).
      { induction m as [|m IHm]; intros x0 Ex Hx2.
        - replace x0 with x1 by lia. exact R0.
        - replace x0 with (x0 - 1 + 1) by lia. apply move_right; [apply box_empty; lia| |apply IHm; lia].
          replace (x0 - 1 + 1) with x0 by lia. apply box_empty; lia. }
      assert (Col : forall m y0, y0 = y1 + Z.of_nat m -> y0 <= y2 -> qreach (y1, x1, 0%nat) (y0, x, 0%nat)).
      { induction m as [|m IHm]; intros y0 Ey Hy2.
        - replace y0 with y1 by lia. apply (Row (Z.to_nat (x - x1)) x); lia.
        - replace y0 with (y0 - 1 + 1) by lia. apply move_down; [apply box_empty; lia| |apply IHm; lia].
          replace (y0 - 1 + 1) with y0 by lia. apply box_empty; lia. }
      apply (cell_conn _ y x 0 q (box_empty y x Hy' Hx') ltac:(lia) Hq).
      apply (Col (Z.to_nat (y - y1)) y); lia.
    Qed.
  End Box.

  (* ---- the result *)
  Theorem axis_rect s0 t1 : qreach s0 t1 -> sealed cst t1 -> RectA (qreach s0).
  Proof.
    intros R1 S1.
    pose proof (sealed_empty t1 S1) as E1. destruct t1 as [[y x] q]. cbn [fst snd] in E1.
    destruct S1 as [[Hq Hw] Hp].
    assert (R0 : qreach s0 (y, x, 0%nat)) by (apply (cell_conn s0 y x q 0 E1 Hq ltac:(lia) R1)).
    destruct (corner_exists s0 y x q Hq E1 Hp R0) as [y1 [x1 [Ec [CL [CT Rc]]]]].
    destruct (sweep_right (Z.to_nat (Wb - x1)) y1 x1 ltac:(lia) Ec CT) as [x2 [Hx [Top TopE]]].
    destruct (sweep_down (Z.to_nat (Hb - y1)) y1 x1 ltac:(lia) Ec CL) as [y2 [Hy [Left LeftE]]].
    exists y1, y2, x1, x2. intros y' x' q' Hq'. split.
    - intros R.
      assert (Rc' : qreach (y1, x1, 0%nat) (y', x', q')).
      { apply qreach_trans with s0; [apply qreach_sym; exact Rc|exact R]. }
      apply (qreach_ind_inv cst (in_box y1 y2 x1 x2) (y1, x1, 0%nat)) in Rc'.
      + exact Rc'.
      + unfold in_box. cbn [fst snd]. lia.
      + intros t t' Pt _ A Wt'. apply box_closed with (t := t); assumption.
    - intros [By Bx]. apply qreach_trans with (y1, x1, 0%nat); [exact Rc|].
      apply box_reached with (y2 := y2) (x2 := x2); assumption.
  Qed.
End Axis.
