(* conversions between OCaml ints and the extracted inductive nat / positive / Z *)
open Model

let rec pos_of_int (n : int) : positive =
  if n <= 1 then XH
  else if n land 1 = 0 then XO (pos_of_int (n lsr 1))
  else XI (pos_of_int (n lsr 1))

let rec int_of_pos (p : positive) : int =
  match p with XH -> 1 | XO q -> 2 * int_of_pos q | XI q -> 2 * int_of_pos q + 1

let z_of_int (n : int) : z =
  if n = 0 then Z0 else if n > 0 then Zpos (pos_of_int n) else Zneg (pos_of_int (- n))

let int_of_z (x : z) : int =
  match x with Z0 -> 0 | Zpos p -> int_of_pos p | Zneg p -> - (int_of_pos p)

let rec nat_of_int (n : int) : nat = if n <= 0 then O else S (nat_of_int (n - 1))

let int_of_nat (n : nat) : int =
  let rec go acc = function O -> acc | S m -> go (acc + 1) m in go 0 n

let words (s : string) : string list =
  List.filter (fun w -> w <> "") (String.split_on_char ' ' s)

let zs (l : z list) : string = String.concat " " (List.map (fun x -> string_of_int (int_of_z x)) l)

let main_loop (handle : string list -> string) : unit =
  try
    while true do
      let line = input_line stdin in
      let out = (try handle (words line) with
                 | Stack_overflow -> "EXN stack_overflow"
                 | Not_found -> "EXN not_found"
                 | Failure m -> "EXN failure " ^ m
                 | Invalid_argument m -> "EXN invalid " ^ m) in
      print_string out; print_char '\n'; flush stdout
    done
  with End_of_file -> ()
