"""Additive companion of graphcap.py (hardening round): input classes the first
generation of graph checks under-covered.

  * structured graphs just beyond the exhaustive scope (wheels, K_n, prisms, long
    paths / cycles, cycles with chords, two disjoint cycles, cycles closed by a
    reversed edge),
  * orientation variants of an edge list ((larger, smaller), mixed, shuffled),
  * targeted activity patterns on grids (snakes, spirals, combs, rings, diagonal
    chains, X shapes) and single-cell perturbations of them,
  * graph histories: ONE Graph object that is used, extended with add_edge and used
    again,
  * sequence containers and one-shot iterables for a per-vertex / per-edge argument.

Nothing here imports the Coq side; the oracles stay in graphcap.py.
"""
import collections
import collections.abc
import copy

from cspuz.graph import Graph


# ---------------------------------------------------------------- structured graphs

def path_edges(n):
    return [(i, i + 1) for i in range(n - 1)]


def cycle_edges(n, closing_reversed=True):
    """0-1-...-(n-1)-0; the closing edge is stored as (n-1, 0), i.e. (larger, smaller)"""
    return path_edges(n) + ([(n - 1, 0)] if closing_reversed else [(0, n - 1)])


def complete_edges(n):
    return [(a, b) for a in range(n) for b in range(a + 1, n)]


def wheel_edges(n):
    """hub 0, rim 1..n-1 (n >= 4)"""
    rim = list(range(1, n))
    es = [(0, v) for v in rim]
    for k in range(len(rim)):
        es.append((rim[k], rim[(k + 1) % len(rim)]))
    return es


def prism_edges(k):
    """two k-cycles 0..k-1 and k..2k-1 joined by k rungs"""
    es = []
    for i in range(k):
        es.append((i, (i + 1) % k))
        es.append((k + i, k + (i + 1) % k))
        es.append((i, k + i))
    return es


def cycle_with_chords(n, chords):
    return cycle_edges(n) + list(chords)


def two_cycles(a, b):
    return cycle_edges(a) + [(a + x, a + y) for (x, y) in cycle_edges(b)]


def structured_graphs(thorough=False):
    """(name, n, edges): 5..12 vertices, chosen to stress rank ranges (K_n with acyclic=True needs n distinct
    ranks, a path on n vertices needs depth n // 2) and cycle handling"""
    out = [
        ("K5", 5, complete_edges(5)),
        ("K6", 6, complete_edges(6)),
        ("K7", 7, complete_edges(7)),
        ("W5", 5, wheel_edges(5)),
        ("W7", 7, wheel_edges(7)),
        ("W9", 9, wheel_edges(9)),
        ("P10", 10, path_edges(10)),
        ("C8", 8, cycle_edges(8)),
        ("C8-chords", 8, cycle_with_chords(8, [(0, 4), (6, 2)])),
        ("C10-chords", 10, cycle_with_chords(10, [(5, 0), (2, 7), (3, 8)])),
        ("prism3", 6, prism_edges(3)),
        ("prism4", 8, prism_edges(4)),
        ("C3+C4", 7, two_cycles(3, 4)),
        ("C4+C4+bridge", 8, two_cycles(4, 4) + [(7, 0)]),
        ("K4+pendant-path", 8, complete_edges(4) + [(3, 4), (5, 4), (5, 6), (7, 6)]),
        ("star8", 8, [(0, v) if v % 2 else (v, 0) for v in range(1, 8)]),
        ("K33", 6, [(a, b) for a in range(3) for b in range(3, 6)]),
        ("petersen", 10, [(i, (i + 1) % 5) for i in range(5)] + [(i, i + 5) for i in range(5)]
         + [(5 + i, 5 + (i + 2) % 5) for i in range(5)]),
    ]
    if thorough:
        out += [
            ("P12", 12, path_edges(12)),
            ("C12", 12, cycle_edges(12)),
            ("W10", 10, wheel_edges(10)),
            ("prism5", 10, prism_edges(5)),
            ("C5+C5", 10, two_cycles(5, 5)),
        ]
    return out


def reversed_cycles(max_n=7):
    """cycles whose closing edge (or every edge) is stored (larger, smaller), plus cycles made of two parallel edges"""
    out = [("2-cycle-parallel", 2, [(0, 1), (1, 0)]), ("2-cycle-parallel+pendant", 3, [(1, 0), (0, 1), (2, 1)])]
    for n in range(3, max_n + 1):
        out.append(("C%d-closing-reversed" % n, n, cycle_edges(n)))
        out.append(("C%d-all-reversed" % n, n, [(b, a) for (a, b) in cycle_edges(n, False)]))
        out.append(("C%d-alternating" % n, n, [(a, b) if k % 2 else (b, a) for k, (a, b) in enumerate(cycle_edges(n, False))]))
    return out


# ---------------------------------------------------------------- orientation variants

def reversed_all(edges):
    return [(b, a) for (a, b) in edges]


def larger_first(edges):
    return [(max(a, b), min(a, b)) for (a, b) in edges]


def mixed_orientation(rng, edges):
    es = [(b, a) if rng.random() < 0.5 else (a, b) for (a, b) in edges]
    rng.shuffle(es)
    return es


def orientation_variants(rng, edges):
    """named variants of one undirected multigraph (same graph, different storage)"""
    yield "larger-first", larger_first(edges)
    yield "mixed-shuffled", mixed_orientation(rng, edges)
    yield "reverse-order", list(reversed(edges))


# ---------------------------------------------------------------- grid patterns

def _blank(h, w):
    return [[False] * w for _ in range(h)]


def snake(h, w, vertical=False):
    """boustrophedon path: full rows 0, 2, 4, ... joined alternately at the right / left end"""
    if vertical:
        t = snake(w, h)
        return [[t[x][y] for x in range(w)] for y in range(h)]
    g = _blank(h, w)
    for y in range(0, h, 2):
        for x in range(w):
            g[y][x] = True
        if y + 1 < h and y + 2 < h:
            g[y + 1][w - 1 if (y // 2) % 2 == 0 else 0] = True
    return g


def spiral(h, w):
    """inward spiral: a walker that steps ahead while the next cell is empty and touches no filled cell other
    than the one it comes from (so the result is an induced path), else turns right"""
    g = _blank(h, w)
    y = x = 0
    g[0][0] = True
    dirs = [(0, 1), (1, 0), (0, -1), (-1, 0)]
    d = 0
    turns = 0
    while turns < 2:
        dy, dx = dirs[d]
        ny, nx = y + dy, x + dx
        ok = 0 <= ny < h and 0 <= nx < w and not g[ny][nx]
        if ok:
            filled = 0
            for (ey, ex) in dirs:
                py, px = ny + ey, nx + ex
                if 0 <= py < h and 0 <= px < w and g[py][px]:
                    filled += 1
            ok = filled == 1
        if ok:
            y, x = ny, nx
            g[y][x] = True
            turns = 0
        else:
            d = (d + 1) % 4
            turns += 1
    return g


def comb(h, w):
    """row 0 full, every second column hanging down: a tree with long teeth"""
    g = _blank(h, w)
    for x in range(w):
        g[0][x] = True
    for x in range(0, w, 2):
        for y in range(h):
            g[y][x] = True
    return g


def ring(h, w):
    g = _blank(h, w)
    for y in range(h):
        for x in range(w):
            if y in (0, h - 1) or x in (0, w - 1):
                g[y][x] = True
    return g


def diagonal(h, w):
    g = _blank(h, w)
    for k in range(min(h, w)):
        g[k][k] = True
    return g


def staircase(h, w):
    """diagonal chain made orthogonally connected: a long monotone path"""
    g = _blank(h, w)
    y = x = 0
    g[0][0] = True
    while True:
        if x + 1 < w:
            x += 1
            g[y][x] = True
        if y + 1 < h:
            y += 1
            g[y][x] = True
        if y == h - 1 and x == w - 1:
            break
    return g


def x_shape(h, w):
    g = diagonal(h, w)
    for k in range(min(h, w)):
        g[k][w - 1 - k] = True
    return g


def checker(h, w):
    return [[(y + x) % 2 == 0 for x in range(w)] for y in range(h)]


def flat(g):
    return tuple(c for row in g for c in row)


def grid_patterns(rng, h, w, flips=6):
    """(name, pattern) pairs for an h x w board: the shapes above, their complements, and single-cell
    perturbations (a cut in the middle of a long path, an extra cell that closes a cycle, ...)"""
    shapes = [("snake", snake(h, w)), ("snake-v", snake(h, w, True)), ("spiral", spiral(h, w)), ("comb", comb(h, w)),
              ("ring", ring(h, w)), ("diagonal", diagonal(h, w)), ("staircase", staircase(h, w)),
              ("x", x_shape(h, w)), ("checker", checker(h, w)), ("full", [[True] * w for _ in range(h)]),
              ("empty", _blank(h, w))]
    seen = set()
    for name, g in shapes:
        base = flat(g)
        cands = [(name, base), (name + "-complement", tuple(not b for b in base))]
        on = [i for i, b in enumerate(base) if b]
        if on:
            mid = on[len(on) // 2]
            cands.append((name + "-cut-middle", tuple(b and i != mid for i, b in enumerate(base))))
            cands.append((name + "-cut-end", tuple(b and i != on[-1] for i, b in enumerate(base))))
        for _ in range(flips):
            j = rng.randrange(h * w)
            cands.append((name + "-flip", tuple((not b) if i == j else b for i, b in enumerate(base))))
        for nm, p in cands:
            if p not in seen:
                seen.add(p)
                yield nm, p


# ---------------------------------------------------------------- graph histories

def random_cuts(rng, m, max_phases=3):
    """increasing cut points 0 <= c1 <= ... < m (prefix lengths of the edge list at which the graph is used before
    it is complete); may be empty only if m == 0"""
    if m == 0:
        return [0]
    k = rng.randint(1, max_phases)
    return sorted(rng.randrange(m) for _ in range(k))


class GraphHistory(object):
    """ONE cspuz Graph object that grows: `advance(cut)` adds the edges up to prefix length `cut`."""

    def __init__(self, n, edges):
        self.n = n
        self.edges = list(edges)
        self.pos = 0
        self.graph = Graph(n)

    def advance(self, cut):
        for (a, b) in self.edges[self.pos:cut]:
            self.graph.add_edge(a, b)
        self.pos = max(self.pos, cut)
        return self.graph

    def finish(self):
        return self.advance(len(self.edges))

    def current_edges(self):
        return self.edges[:self.pos]


def graph_snapshot(g):
    return (g.num_vertices, copy.deepcopy(g.edges), copy.deepcopy(g.incident_edges))


# ---------------------------------------------------------------- containers

class UserSeq(collections.abc.Sequence):
    """a minimal user-defined Sequence (only __getitem__ / __len__ are its own)"""

    def __init__(self, items):
        self._items = list(items)

    def __getitem__(self, i):
        return self._items[i]

    def __len__(self):
        return len(self._items)


CONTAINERS = ["list", "tuple", "deque", "userseq", "array1", "array1-gen", "array1-slice"]


def as_container(kind, items):
    """the same per-vertex values in a different Sequence container (all are valid Sequence[BoolExprLike] /
    BoolArray1D arguments).  BoolArray1D forms need BoolExpr entries."""
    from cspuz.array import BoolArray1D
    items = list(items)
    if kind == "list":
        return items
    if kind == "tuple":
        return tuple(items)
    if kind == "deque":
        return collections.deque(items)
    if kind == "userseq":
        return UserSeq(items)
    if kind == "array1":
        return BoolArray1D(items)
    if kind == "array1-gen":
        return BoolArray1D(x for x in items)
    if kind == "array1-slice":
        return BoolArray1D(items + items[:1])[0:len(items)]
    raise ValueError(kind)


ONESHOTS = ["gen", "iter", "map", "reversed", "zip-map"]


def as_oneshot(kind, items):
    """(one-shot iterable, the list it materialises to)"""
    items = list(items)
    if kind == "gen":
        return (x for x in items), items
    if kind == "iter":
        return iter(items), items
    if kind == "map":
        return map(lambda x: x, items), items
    if kind == "reversed":
        return reversed(items), items[::-1]
    if kind == "zip-map":
        return map(lambda t: t[0], zip(items, range(len(items)))), items
    raise ValueError(kind)
