From Coq Require Import ZArith List.
From Cspuz Require Import Lib.PyErr Core.Expr Core.Program Backend.Z3 Backend.Z3Oracle Backend.ExprFacts
  Backend.Z3SolveProofs Backend.Z3OracleProofs Backend.SolveLoop Backend.SolveLoopProofs Backend.SolveZ3Proofs.
Import ListNotations.

(* Solver.solve(backend="z3"): Unsat <-> unsatisfiable; otherwise for every answer key the sol
   field is Some v <-> every model gives the variable v, and None <-> two models differ on it;
   never OutOfFuel -- for ANY solver meeting the two hypotheses, whatever models it picks *)
Theorem solve_exact : forall oracle, oracle_sound_on oracle -> oracle_complete_on oracle ->
  forall st, wf_state st -> wf_keys st ->
  exists r, solve oracle st = Ok r /\
    match r with
    | Unsat => ~ satisfiable no_graph st
    | Sat sol =>
        satisfiable no_graph st /\
        forall j d, nth_error (vars st) j = Some d -> nth_error (keys st) j = Some true ->
          exists a, nth_error sol j = Some a /\
            (forall v, a = Some v <-> (forall en, model_of no_graph en st -> val_of en d j = v)) /\
            (a = None <-> exists e1 e2, model_of no_graph e1 st /\ model_of no_graph e2 st /\
                                        val_of e1 d j <> val_of e2 d j)
    | OutOfFuel => False
    end.
Proof. exact solve_exact_z3. Qed.
Print Assumptions solve_exact.

Theorem solve_no_fuel : forall oracle, oracle_sound_on oracle -> oracle_complete_on oracle ->
  forall st, wf_state st -> wf_keys st -> solve oracle st <> Ok OutOfFuel.
Proof. exact solve_no_fuel_z3. Qed.
Print Assumptions solve_no_fuel.

(* the loop itself, for ANY backend object whose add_constraint / solve are sound and complete
   for what they were given (fuel S(#keys) suffices) *)
Theorem solve_loop_exact : forall (B : Type) (b_add : B -> expr -> res B)
    (b_solve : B -> res (option (list value))) (vs : list vdecl) (ks : list bool) (cs0 : list expr),
  length ks = length vs ->
  forall rep : B -> list expr -> Prop,
  (forall b added e, rep b added -> wf_cons vs [e] ->
     exists b', b_add b e = Ok b' /\ rep b' (added ++ [e])) ->
  (forall b added, rep b added -> wf_cons vs added ->
     exists r, b_solve b = Ok r /\
       match r with
       | Some s => sol_typed vs s /\ is_model vs cs0 (env_of_sol s) /\
                   forallb (holds no_graph (env_of_sol s)) added = true
       | None => forall en, is_model vs cs0 en -> forallb (holds no_graph en) added = false
       end) ->
  forall b0, rep b0 [] ->
  exists r b', solve_with B b_add b_solve vs ks (S (n_keys ks)) b0 = Ok (r, b') /\
    match r with
    | Unsat => forall en, ~ is_model vs cs0 en
    | Sat sol => (exists en, is_model vs cs0 en) /\ exact_on_keys vs ks cs0 sol
    | OutOfFuel => False
    end.
Proof. exact solve_with_exact. Qed.
Print Assumptions solve_loop_exact.

(* route independence: a protocol-conformant reply of a backend with its own deduction mode
   leaves the same sol on every answer key as the refinement loop does *)
Theorem solve_route_independent : forall oracle, oracle_sound_on oracle -> oracle_complete_on oracle ->
  forall st reply r, wf_state st -> wf_keys st -> native_reply_ok st reply -> solve oracle st = Ok r ->
  match sol_of_native reply, r with
  | Unsat, Unsat => True
  | Sat s1, Sat s2 => forall j d, nth_error (vars st) j = Some d -> nth_error (keys st) j = Some true ->
                      nth_error s1 j = nth_error s2 j
  | _, _ => False
  end.
Proof. exact route_independent_z3. Qed.
Print Assumptions solve_route_independent.

(* non-vacuity: the brute-force oracle meets both hypotheses *)
Theorem oracle_hypotheses_satisfiable : oracle_sound_on bf_oracle /\ oracle_complete_on bf_oracle.
Proof. exact (conj bf_oracle_sound bf_oracle_complete). Qed.
Print Assumptions oracle_hypotheses_satisfiable.
