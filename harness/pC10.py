"""C10 — active_edges_connected_crossable admits exactly the single self-crossing trails."""
import itertools

import exprio
import graphcap
import vlib

PROPS = "Props/C10.v"
RULE = ("tie P (program capture): for every frame with (h+1)(w+1) <= 12 (thorough 16; 0-sized and 1xN included) x "
        "single_cycle on/off x use_graph_primitive True/False/None(config) x first-variable offset x edge form "
        "(variables straight from BoolGridFrame, allocated by the model's own new_frame; the same passed as trees; ~v; "
        "v & w; Python True/False; mixed) the real active_edges_connected_crossable / "
        "active_edges_single_cycle_crossable is run on a real Solver and the posted declarations, the constraint trees "
        "in posting order (incl. the whole block posted by _active_vertices_connected, resp. the operand list of the "
        "GRAPH_ACTIVE_VERTICES_CONNECTED node) and the two returned arrays (+ shapes) must equal those of the extracted "
        "post_crossable, token for token; the auxiliary graph (node count, edge list in insertion order) is compared "
        "separately; a malformed stream puts IntExpr / int / None entries in the arrays (TypeError on both sides); "
        "call forms (frames up to 9 points, thorough 12): defaults omitted with the route taken from "
        "config.use_graph_primitive, everything by keyword, use_graph_primitive=None under both configurations (and "
        "the configuration set to the opposite value when the argument is given), the alias with and without its "
        "option; histories: two calls on one Solver and one frame (same options / the opposite options / after "
        "overwriting the arrays returned by the first call), the second call compared with the model started from "
        "the state the first one left, the frame's arrays unchanged after each call; options passed by position must "
        "be a TypeError or post the same program.  "
        "search: for every frame up to 2x2 plus 1x3, 3x1, 0x4 (thorough: 2x3, 3x2, 1x4, 4x1, 1x5, 0x6) and every subset "
        "of segments (frames with more than 12 (thorough 13) segments: every subset obeying the 0/1/2/4 rule + random "
        "others), satisfiability of the really posted non-primitive program (own z3 translation, pattern given as "
        "assumptions) and the values forced on the two returned arrays vs an oracle written from the property text "
        "(segments as pairs of lattice points, union-find of strands); primitive route: the non-graph constraints by "
        "z3, the posted GRAPH_ACTIVE_VERTICES_CONNECTED node evaluated as connectivity of its decoded operands "
        "(refined by connectivity cuts until the model is connected or none is left); "
        "frames just beyond (2x3, 3x2, 2x4, 4x2, 3x3, 3x4, 4x3; thorough + 2x5, 5x2, 4x4, 3x5, 5x3, 2x6): targeted "
        "shapes -- every rectangle, figure-eights at every interior point (unit and frame-sized, both diagonals), the "
        "same minus / plus one segment, bare 4-way points, curls, long open / closed trails through a point twice, "
        "chains of squares, segment-disjoint rectangle pairs (corner contacts, crossings, apart), the whole cycle "
        "space up to 9 cells (a sample beyond) with and without an added path, boustrophedon paths, all lines, dense "
        "weaves, random trails and their one-segment toggles; on 2x3 / 3x2 every pattern obeying the degree rule that "
        "has a 4-way point (quick: a third of them for paths); dense weaves (every interior point 4-way, more "
        "segments than lattice points) on 4x4, 4x6, 6x4, 6x6 (thorough up to 8x6) with a z3 time limit, undecided "
        "cases counted; the empty pattern on every frame 0..5 x 0..5 (thorough 0..6) incl. the alias: both arrays "
        "forced false everywhere; every call form of the tie (alias, defaults omitted, config, keyword frame) and two "
        "calls on one Solver and frame (same options: all four arrays; path constraint then the given one on the "
        "other route: the conjunction) on all patterns of 1x1, 1x2, 2x1, 0x2 and targeted patterns of 2x2, 2x3, 3x2; "
        "the pattern written into the frame's arrays as Python True / False (all segments / every other one) on all "
        "patterns of 0x1, 1x1, 1x2 and targeted ones of 2x2, 2x3; a call that raises, returns other shapes or changes "
        "the frame is a violation; the executable form "
        "of the Coq specification (crossable_spec_b, proved equivalent to crossable_spec) is run against the same "
        "oracle on every pattern of the small frames and the targeted patterns of the larger ones (kind "
        "spec-vs-oracle).  A case is "
        "non-trivial when it is a distinct (frame, options, edge form, call form) capture or a distinct (frame, "
        "options, pattern, variant) decision.")
TRUSTED = [
    "reading of the property (Graph/Crossable.v: seg, segs_at, deg, degree_rule, continues, strand, crossable_spec, "
    "visited, crossing): horizontal[y, x] is the segment (y,x)-(y,x+1), vertical[y, x] the segment (y,x)-(y+1,x) "
    "(the geometry C14 checks); the harness oracle reads the property text independently",
    "meaning of Op.GRAPH_ACTIVE_VERTICES_CONNECTED := connectivity of the active vertices (Graph/Avc.v::gsem_avc; the "
    "external solver is trusted to implement it)",
    "Core/Expr.v eval as the ordinary meaning of the expression trees; z3 (search only)",
    "C04's model Graph/Avc.v::post_avc of _active_vertices_connected and its theorems avc_connected_exact / "
    "avc_primitive / post_avc_succeeds / wt_acts_defined (machine-checked, closed; tied to the source by C04's and "
    "by this check's program capture)",
]
ASSUMPTIONS = [
    "the frame's two arrays have the shapes BoolGridFrame gives them ((h+1, w) and (h, w+1)); other shapes are outside the model (OtherError)",
    "h, w >= 0; the frame's entries are well-typed boolean trees (Core/Expr.v::wt) over variables declared before the call",
    "'the caller's variables are not otherwise constrained' = quantification over an arbitrary assignment of the ids below next_id, extended to the fresh ids",
]

ERR = {1: "IndexError", 2: "KeyError", 3: "AssertionError", 4: "TypeError", 5: "ValueError",
       6: "RecursionError", 7: "NotImplementedError", 8: "Other"}


# ------------------------------------------------------------------ frames

def shapes_upto(max_points):
    out = []
    for H in range(1, max_points + 1):
        for W in range(1, max_points + 1):
            if H * W <= max_points:
                out.append((H - 1, W - 1))
    return out


EDGE_FORMS = ["frame", "tree", "not", "and", "const", "mixed"]
BAD_FORMS = ["bad-int", "bad-none", "bad-intexpr"]


def build_frame(s, h, w, form, rng):
    """returns the frame; `s` already holds the offset variables."""
    from cspuz.array import BoolArray2D
    from cspuz.grid_frame import BoolGridFrame
    if form in ("frame", "tree"):
        return BoolGridFrame(s, h, w)
    nh, nv = (h + 1) * w, h * (w + 1)
    pool = [s.bool_var() for _ in range(max(2, nh + nv))]

    def entry(i):
        f = form
        if f == "mixed":
            f = rng.choice(["var", "not", "and", "const", "or"])
        a, b = pool[i % len(pool)], pool[(i * 7 + 3) % len(pool)]
        if f == "var":
            return a
        if f == "not":
            return ~a
        if f == "and":
            return a & b
        if f == "or":
            return a | ~b
        if f == "const":
            return bool((i * 5 + h + w) % 3 == 0) if form == "const" else rng.random() < 0.5
        raise ValueError(f)
    hz = [entry(i) for i in range(nh)]
    vt = [entry(nh + i) for i in range(nv)]
    return BoolGridFrame(s, h, w, horizontal=BoolArray2D(hz, (h + 1, w)), vertical=BoolArray2D(vt, (h, w + 1)))


def build_bad_frame(s, h, w, form, rng):
    from cspuz.array import BoolArray2D
    from cspuz.grid_frame import BoolGridFrame
    nh, nv = (h + 1) * w, h * (w + 1)
    pool = [s.bool_var() for _ in range(nh + nv)]
    iv = s.int_var(0, 3)
    k = rng.randrange(nh + nv)
    bad = {"bad-int": 5, "bad-none": None, "bad-intexpr": iv}[form]
    ent = [bad if i == k else pool[i] for i in range(nh + nv)]
    return BoolGridFrame(s, h, w, horizontal=BoolArray2D(ent[:nh], (h + 1, w)),
                         vertical=BoolArray2D(ent[nh:], (h, w + 1)))


def call_impl(s, frame, sc, prim, alias):
    from cspuz import graph
    if alias:
        return graph.active_edges_single_cycle_crossable(s, frame, use_graph_primitive=prim)
    return graph.active_edges_connected_crossable(s, frame, single_cycle=sc, use_graph_primitive=prim)


def resolve_prim(prim):
    if prim is None:
        from cspuz.configuration import config
        return bool(config.use_graph_primitive)
    return prim


def norm_result(r, H, W):
    p, q = r
    assert tuple(p.shape) == (H, W) and tuple(q.shape) == (H, W), "shape of the returned arrays"
    return exprio.show_list(p.data), exprio.show_list(q.data)


def parse_model(r):
    if r.startswith("E "):
        return ("err", ERR[int(r.split()[1])])
    if not r.startswith("OK "):
        raise RuntimeError("bad model reply " + r[:200])
    body = r[3:]
    i = body.index(" P [")
    j = body.index(" Q [")
    return ("ok", (body[:i], body[i + 3:j], body[j + 3:]))


# ------------------------------------------------------------------ correspondence (tie P)

def corr_cases(ctx):
    rng = ctx.rng
    shapes = shapes_upto(12 if not ctx.thorough else 16)
    for (h, w) in shapes:
        for sc in (False, True):
            for prim in (False, True, None):
                for form in EDGE_FORMS:
                    offs = [0, 3] if form in ("frame", "not") else [rng.choice([0, 1, 4])]
                    for off in offs:
                        yield h, w, sc, prim, form, off, False
                if sc:
                    yield h, w, True, prim, "frame", 2, True      # the single_cycle alias
    for (h, w) in shapes:
        if (h + 1) * w + h * (w + 1) == 0:
            continue
        for form in BAD_FORMS:
            yield h, w, rng.random() < 0.5, rng.choice([False, True]), form, 0, False


def run_case(m_call, h, w, sc, prim, form, off, alias, rng):
    from cspuz import Solver
    s = Solver()
    for i in range(off):
        if i % 2:
            s.int_var(0, 5)
        else:
            s.bool_var()
    before_frame = exprio.show_state(s)
    if form in BAD_FORMS:
        fr = build_bad_frame(s, h, w, form, rng)
    else:
        fr = build_frame(s, h, w, form, rng)
    st0 = exprio.show_state(s)
    p = resolve_prim(prim)
    if form == "frame":
        req = "F %d %d %d %d %s" % (h, w, sc, p, before_frame)
    else:
        req = "X %d %d %d %d %s H %s V %s" % (h, w, sc, p, st0, exprio.show_list(fr.horizontal.data),
                                              exprio.show_list(fr.vertical.data))
    r = vlib.guarded(lambda: call_impl(s, fr, sc, prim, alias))
    if r[0] == "ok":
        impl = ("ok", (exprio.show_state(s),) + norm_result(r[1], h + 1, w + 1))
    else:
        impl = r
    return req, impl


def correspond(ctx):
    m = ctx.model("C10")
    reqs, impls, keys = [], [], []
    for (h, w, sc, prim, form, off, alias) in corr_cases(ctx):
        req, impl = run_case(None, h, w, sc, prim, form, off, alias, ctx.rng)
        reqs.append(req)
        impls.append(impl)
        keys.append((h, w, sc, prim, form, off, alias))
    for case in call_form_cases(ctx):
        for (req, impl, key) in run_call_form(case, ctx.rng):
            reqs.append(req)
            impls.append(impl)
            keys.append(key)
    outs = m.batch(reqs)
    for k, o, impl in zip(keys, outs, impls):
        ctx.count("form:" + k[4])
        if len(k) > 7:
            ctx.count("call:" + k[7])
        ctx.corr("post_crossable", k, parse_model(o), impl)
    positional_calls(ctx)
    # the auxiliary graph on its own (node count and edge list, insertion order)
    for (h, w) in shapes_upto(12):
        H, W = h + 1, w + 1
        o = m.call("G %d %d" % (H, W))
        impl = impl_split_graph(h, w)
        ctx.corr("split_graph", (H, W), o.strip(), impl)
    spec_vs_oracle(ctx)


# ---- other ways of making the same call (arguments omitted / by keyword / left to the configuration, the
# single-cycle alias) and histories (two calls on one Solver and one frame)

CALL_FORMS = ["omit", "allkw", "config-none", "alias-omit", "alias-allkw", "twice", "twice-mutated", "twice-other"]


def call_form_cases(ctx):
    rng = ctx.rng
    shapes = shapes_upto(9 if not ctx.thorough else 12)
    for (h, w) in shapes:
        for sc in (False, True):
            for cf in CALL_FORMS:
                if cf.startswith("alias") and not sc:
                    continue
                for prim in (False, True):
                    form = "frame" if cf in ("omit", "alias-omit") or rng.random() < 0.5 else rng.choice(EDGE_FORMS[1:])
                    yield h, w, sc, prim, form, rng.choice([0, 1, 2]), cf


def run_call_form(case, rng):
    """[(model request, observed, key)] : one entry per call made"""
    from cspuz import Solver, graph
    from cspuz.configuration import config
    (h, w, sc, prim, form, off, cf) = case
    f = graph.active_edges_connected_crossable
    g = graph.active_edges_single_cycle_crossable
    s = Solver()
    for i in range(off):
        if i % 2:
            s.int_var(0, 5)
        else:
            s.bool_var()
    before_frame = exprio.show_state(s)
    fr = build_frame(s, h, w, form, rng)
    hz0, vt0 = exprio.show_list(fr.horizontal.data), exprio.show_list(fr.vertical.data)

    def request(first, sc_, prim_):
        if first and form == "frame":
            return "F %d %d %d %d %s" % (h, w, sc_, prim_, before_frame)
        return "X %d %d %d %d %s H %s V %s" % (h, w, sc_, prim_, exprio.show_state(s), hz0, vt0)

    def observed(r):
        if r[0] != "ok":
            return r
        if (exprio.show_list(fr.horizontal.data), exprio.show_list(fr.vertical.data)) != (hz0, vt0):
            return ("frame-changed", None)
        return ("ok", (exprio.show_state(s),) + norm_result(r[1], h + 1, w + 1))

    out = []
    old = config.use_graph_primitive
    try:
        if cf in ("omit", "config-none", "alias-omit"):
            config.use_graph_primitive = prim      # the route is left to the configuration
        else:
            config.use_graph_primitive = not prim  # ... and must be ignored when the argument is given
        if cf == "omit":
            calls = [(sc, prim, (lambda: f(s, fr, single_cycle=True)) if sc else (lambda: f(s, fr)))]
        elif cf == "allkw":
            calls = [(sc, prim, lambda: f(use_graph_primitive=prim, single_cycle=sc, is_active_edge=fr, solver=s))]
        elif cf == "config-none":
            calls = [(sc, prim, lambda: f(s, fr, single_cycle=sc, use_graph_primitive=None))]
        elif cf == "alias-omit":
            calls = [(True, prim, lambda: g(s, fr))]
        elif cf == "alias-allkw":
            calls = [(True, prim, lambda: g(use_graph_primitive=prim, is_active_edge=fr, solver=s))]
        elif cf in ("twice", "twice-mutated"):
            calls = [(sc, prim, lambda: f(s, fr, single_cycle=sc, use_graph_primitive=prim))] * 2
        elif cf == "twice-other":
            calls = [(sc, prim, lambda: f(s, fr, single_cycle=sc, use_graph_primitive=prim)),
                     (not sc, not prim, lambda: f(s, fr, single_cycle=not sc, use_graph_primitive=not prim))]
        else:
            raise ValueError(cf)
        for k, (sc_, prim_, thunk) in enumerate(calls):
            req = request(k == 0, sc_, prim_)
            r = vlib.guarded(thunk)
            out.append((req, observed(r), (h, w, sc, prim, form, off, False, "%s#%d" % (cf, k + 1))))
            if r[0] != "ok":
                break
            if cf == "twice-mutated":         # what was returned belongs to the caller
                for a in r[1]:
                    for i in range(len(a.data)):
                        a.data[i] = None
    finally:
        config.use_graph_primitive = old
    return out


def positional_calls(ctx):
    """single_cycle / use_graph_primitive are keyword-only: passing them by position is a TypeError; should that
    ever be allowed, the call must mean the same as the keyword form"""
    from cspuz import Solver, graph
    from cspuz.grid_frame import BoolGridFrame
    for (h, w) in [(0, 0), (1, 1), (1, 2), (2, 2), (2, 3)]:
        for sc in (False, True):
            for prim in (False, True):
                for n in (1, 2):
                    s1, s2 = Solver(), Solver()
                    f1, f2 = BoolGridFrame(s1, h, w), BoolGridFrame(s2, h, w)
                    args = (sc, prim)[:n]
                    kw = {} if n == 2 else {"use_graph_primitive": prim}
                    r = vlib.guarded(lambda: graph.active_edges_connected_crossable(s1, f1, *args, **kw))
                    if r[0] == "err":
                        got = r[1]
                    else:
                        graph.active_edges_connected_crossable(s2, f2, single_cycle=sc, use_graph_primitive=prim)
                        got = "TypeError" if exprio.show_state(s1) == exprio.show_state(s2) else "another program"
                    ctx.corr("positional-options", (h, w, sc, prim, n), "TypeError", got)


def impl_split_graph(h, w):
    """the graph handed to _active_vertices_connected, read from the primitive node"""
    from cspuz import Solver
    from cspuz.grid_frame import BoolGridFrame
    from cspuz.expr import Op
    s = Solver()
    fr = BoolGridFrame(s, h, w)
    call_impl(s, fr, False, True, False)
    node = [c for c in s.constraints if not isinstance(c, bool) and c.op == Op.GRAPH_ACTIVE_VERTICES_CONNECTED]
    if len(node) != 1:
        return "no single primitive node"
    ops = node[0].operands
    n, mm = ops[0], ops[1]
    es = ops[2 + n:]
    if len(es) != 2 * mm:
        return "bad operand count"
    return ("%d :" % n) + "".join(" %d" % v for v in es)


# ------------------------------------------------------------------ the oracle (from the property text)

def lattice_segments(h, w):
    """every unit segment of the h x w frame as (frozenset of its two end points, 'h'|'v')"""
    segs = []
    for y in range(h + 1):
        for x in range(w + 1):
            if x + 1 <= w:
                segs.append((frozenset({(y, x), (y, x + 1)}), "h"))
            if y + 1 <= h:
                segs.append((frozenset({(y, x), (y + 1, x)}), "v"))
    return segs


def oracle(h, w, drawn, single_cycle):
    """drawn: list of (segment, direction).  Returns (ok, visited dict, crossing dict)."""
    pts = [(y, x) for y in range(h + 1) for x in range(w + 1)]
    parent = {s: s for (s, _) in drawn}

    def find(a):
        while parent[a] != a:
            parent[a] = parent[parent[a]]
            a = parent[a]
        return a

    def union(a, b):
        parent[find(a)] = find(b)
    ok = True
    visited, crossing = {}, {}
    allowed = (0, 2, 4) if single_cycle else (0, 1, 2, 4)
    for p in pts:
        here = [(s, d) for (s, d) in drawn if p in s]
        k = len(here)
        visited[p] = k > 0
        crossing[p] = k == 4
        if k not in allowed:
            ok = False
        if k == 4 and not (0 < p[0] < h and 0 < p[1] < w):
            ok = False
        if k == 4:
            for d in "hv":
                same = [s for (s, dd) in here if dd == d]
                for a in same[1:]:
                    union(same[0], a)
        else:
            for (a, _) in here[1:]:
                union(here[0][0], a)
    if len({find(s) for (s, _) in drawn}) > 1:
        ok = False
    return ok, visited, crossing


def frame_var_of(fr, seg):
    (s, d) = seg
    (y, x) = min(s)
    return fr.horizontal[y, x] if d == "h" else fr.vertical[y, x]


# ------------------------------------------------------------------ own z3 translation of a posted program

def z3_program(variables, constraints):
    import z3
    from cspuz.expr import BoolVar, IntVar, Op, Expr
    zv = {}
    zs = z3.Solver()
    for v in variables:
        if isinstance(v, BoolVar):
            zv[v.id] = z3.Bool("b%d" % v.id)
        else:
            zv[v.id] = z3.Int("i%d" % v.id)
            zs.add(v.lo <= zv[v.id], zv[v.id] <= v.hi)

    def conv(e):
        if isinstance(e, bool):
            return z3.BoolVal(e)
        if isinstance(e, int):
            return z3.IntVal(e)
        if isinstance(e, (BoolVar, IntVar)):
            return zv[e.id]
        if not isinstance(e, Expr):
            raise TypeError("operand %r" % (e,))
        o = e.op
        if o in (Op.BOOL_CONSTANT, Op.INT_CONSTANT):
            return conv(e.operands[0])
        a = [conv(x) for x in e.operands]
        if o == Op.NEG:
            return -a[0]
        if o == Op.ADD:
            return z3.Sum(a) if len(a) > 1 else a[0]
        if o == Op.SUB:
            r = a[0]
            for x in a[1:]:
                r = r - x
            return r
        if o == Op.EQ:
            return a[0] == a[1]
        if o == Op.NE:
            return a[0] != a[1]
        if o == Op.LE:
            return a[0] <= a[1]
        if o == Op.LT:
            return a[0] < a[1]
        if o == Op.GE:
            return a[0] >= a[1]
        if o == Op.GT:
            return a[0] > a[1]
        if o == Op.NOT:
            return z3.Not(a[0])
        if o == Op.AND:
            return z3.And(a)
        if o == Op.OR:
            return z3.Or(a)
        if o == Op.IFF:
            return a[0] == a[1]
        if o == Op.XOR:
            return z3.Xor(a[0], a[1])
        if o == Op.IMP:
            return z3.Implies(a[0], a[1])
        if o == Op.IF:
            return z3.If(a[0], a[1], a[2])
        if o == Op.ALLDIFF:
            return z3.Distinct(a)
        raise ValueError("operator %s" % o)
    for c in constraints:
        zs.add(conv(c))
    return zs, zv


class Undecided(RuntimeError):
    """the harness could not decide a posted program within its bounds (reported as a harness error, never
    silently dropped)"""


class Session:
    """decide the posted program for fixed values of the frame's variables.

    The pattern is passed to z3 as assumptions (no push/pop on the common path).  A posted
    GRAPH_ACTIVE_VERTICES_CONNECTED node is evaluated on the model; when it fails, a connectivity cut that every
    connected set of active vertices satisfies is added (inside a push/pop scope) and the plain part is solved
    again, so the decision does not depend on how many assignments the plain part alone would admit."""

    CUT_LIMIT = 400

    def __init__(self, solver, timeout_ms=None):
        from cspuz.expr import Op
        self.timeout_ms = timeout_ms
        self.graph_nodes = [c for c in solver.constraints
                            if not isinstance(c, bool) and c.op == Op.GRAPH_ACTIVE_VERTICES_CONNECTED]
        gids = {id(c) for c in self.graph_nodes}
        plain = [c for c in solver.constraints if id(c) not in gids]
        self.zs, self.zv = z3_program(solver.variables, plain)
        if timeout_ms:
            self.zs.set("timeout", int(timeout_ms))
        self.solver = solver
        self._decoded = [self._decode(node) for node in self.graph_nodes]

    def _decode(self, node):
        import z3
        from cspuz.expr import BoolVar
        ops = node.operands
        n, mm = ops[0], ops[1]
        acts = []
        for a in ops[2:2 + n]:
            if isinstance(a, bool):
                acts.append(z3.BoolVal(a))
            elif isinstance(a, BoolVar):
                acts.append(self.zv[a.id])
            else:
                raise TypeError("primitive operand is not a variable")
        flat = ops[2 + n:]
        if len(flat) != 2 * mm:
            raise ValueError("primitive operand count")
        edges = [(flat[2 * i], flat[2 * i + 1]) for i in range(mm)]
        adj = [set() for _ in range(n)]
        for a, b in edges:
            if not (0 <= a < n and 0 <= b < n):
                raise ValueError("primitive edge end point")
            adj[a].add(b)
            adj[b].add(a)
        return n, edges, acts, adj

    def _lits(self, fixed):
        import z3
        return [self.zv[v.id] if val else z3.Not(self.zv[v.id]) for v, val in fixed]

    def _model(self):
        import z3
        from cspuz.expr import BoolVar
        m = self.zs.model()
        out = {}
        for v in self.solver.variables:
            val = m.eval(self.zv[v.id], model_completion=True)
            out[v.id] = z3.is_true(val) if isinstance(v, BoolVar) else val.as_long()
        return out

    def _graph_cut(self):
        """None when every primitive node holds in the current z3 model, else a formula implied by the failing
        node and false in the model"""
        import z3
        m = self.zs.model()
        for (n, edges, acts, adj) in self._decoded:
            on = [z3.is_true(m.eval(a, model_completion=True)) for a in acts]
            if graphcap.is_connected(n, edges, on):
                continue
            start = on.index(True)
            comp, todo = {start}, [start]
            while todo:
                u = todo.pop()
                for t in adj[u]:
                    if on[t] and t not in comp:
                        comp.add(t)
                        todo.append(t)
            border = set()
            for u in comp:
                border |= adj[u] - comp
            rest = [t for t in range(n) if t not in comp and t not in border]
            return z3.Or([z3.Not(acts[u]) for u in sorted(comp)] + [acts[u] for u in sorted(border)]
                         + [z3.And([z3.Not(acts[t]) for t in rest])])
        return None

    def _check(self, lits):
        import z3
        r = self.zs.check(*lits)
        if r == z3.unknown:
            raise Undecided("z3 gave up (%s)" % self.zs.reason_unknown())
        return r == z3.sat

    def _solve(self, lits):
        """(sat, model) of plain part + primitive nodes under the assumption literals"""
        if not self._check(lits):
            return False, None
        cut = self._graph_cut() if self.graph_nodes else None
        if cut is None:
            return True, self._model()
        self.zs.push()
        try:
            for _ in range(self.CUT_LIMIT):
                self.zs.add(cut)
                if not self._check(lits):
                    return False, None
                cut = self._graph_cut()
                if cut is None:
                    return True, self._model()
            raise Undecided("more than %d connectivity cuts" % self.CUT_LIMIT)
        finally:
            self.zs.pop()

    def decide(self, fixed, aux_vars=None):
        """fixed: [(BoolVar, bool)].  Returns (sat, model or None)."""
        return self._solve(self._lits(fixed))

    def other_values(self, fixed, expected):
        """is there a solution in which some (var, value) of `expected` differs?  Returns a model or None."""
        import z3
        diff = z3.Or([self.zv[v.id] != val for v, val in expected])
        return self._solve(self._lits(fixed) + [diff])[1]


# ------------------------------------------------------------------ targeted patterns (frames beyond the exhaustive scope)

def _sg(p, q):
    return frozenset({p, q})


def rect_segments(y0, x0, y1, x1):
    out = set()
    for x in range(x0, x1):
        out.add(_sg((y0, x), (y0, x + 1)))
        out.add(_sg((y1, x), (y1, x + 1)))
    for y in range(y0, y1):
        out.add(_sg((y, x0), (y + 1, x0)))
        out.add(_sg((y, x1), (y + 1, x1)))
    return out


def walk_segments(points):
    return {_sg(a, b) for a, b in zip(points, points[1:])}


def line_points(p, q):
    """lattice points of the straight axis-parallel line from p to q (both included)"""
    (y0, x0), (y1, x1) = p, q
    if y0 == y1:
        step = 1 if x1 >= x0 else -1
        return [(y0, x) for x in range(x0, x1 + step, step)]
    assert x0 == x1
    step = 1 if y1 >= y0 else -1
    return [(y, x0) for y in range(y0, y1 + step, step)]


def poly_segments(corners):
    pts = [corners[0]]
    for c in corners[1:]:
        pts += line_points(pts[-1], c)[1:]
    return walk_segments(pts)


def random_trail(rng, h, w, max_len):
    """a random walk that never reuses a segment, goes straight through a point it has already passed straight
    (interior only) and stops where it could only produce a 3-way point: mostly single self-crossing trails"""
    used = set()
    deg = {}
    p = (rng.randint(0, h), rng.randint(0, w))
    start = p
    prev = None
    for _ in range(max_len):
        (y, x) = p
        nb = [(y + dy, x + dx) for dy, dx in ((0, 1), (1, 0), (0, -1), (-1, 0)) if 0 <= y + dy <= h and 0 <= x + dx <= w]
        nb = [q for q in nb if _sg(p, q) not in used]
        if not nb:
            break
        k = deg.get(p, 0)            # segments at p, the one we arrived by included
        if prev is not None and k == 3:
            ahead = (2 * y - prev[0], 2 * x - prev[1])
            if ahead in nb and rng.random() < 0.9:
                q = ahead
            else:
                break
        elif prev is not None and k >= 2:
            break                     # closed up (k == 2) or already a crossing
        else:
            ahead = None if prev is None else (2 * y - prev[0], 2 * x - prev[1])
            if ahead in nb and rng.random() < 0.55:
                q = ahead
            else:
                q = rng.choice(nb)
        used.add(_sg(p, q))
        deg[p] = deg.get(p, 0) + 1
        deg[q] = deg.get(q, 0) + 1
        prev, p = p, q
        if p == start and deg[p] == 2 and rng.random() < 0.7:
            break
    return used


def weave_patterns(h, w, rng):
    """dense trails: every interior line of the frame drawn from border to border (all interior points 4-way), the
    line ends joined in consecutive pairs along the border (two ways); then the same with one connector opened,
    and with one further segment removed.  On even x even frames the closed ones are single strands with far more
    segments than the frame has lattice points (the rank range of the non-primitive encoding)."""
    if h < 2 or w < 2:
        return
    cyc = ([(0, x) for x in range(0, w)] + [(y, w) for y in range(0, h)] + [(h, x) for x in range(w, 0, -1)]
           + [(y, 0) for y in range(h, 0, -1)])
    corners = {(0, 0), (0, w), (h, 0), (h, w)}
    idx = [i for i, p in enumerate(cyc) if p not in corners]
    n = len(idx)
    lines = set()
    for y in range(1, h):
        lines |= walk_segments(line_points((y, 0), (y, w)))
    for x in range(1, w):
        lines |= walk_segments(line_points((0, x), (h, x)))
    for off in (0, 1):
        conns = []
        for k in range(off, n + off - 1, 2):
            a, b = idx[k % n], idx[(k + 1) % n]
            c, i = set(), a
            while i != b:
                j = (i + 1) % len(cyc)
                c.add(_sg(cyc[i], cyc[j]))
                i = j
            conns.append(c)
        full = set(lines)
        for c in conns:
            full |= c
        yield "weave-closed", full
        for c in rng.sample(conns, min(3, len(conns))):
            yield "weave-open", full - c
            rest = sorted(full - c, key=sorted)
            yield "weave-open-minus-1", (full - c) - {rng.choice(rest)}
        yield "weave-minus-1", full - {rng.choice(sorted(full, key=sorted))}
        if len(conns) >= 2:
            c1, c2 = rng.sample(conns, 2)
            yield "weave-two-open", full - c1 - c2


def targeted_patterns(h, w, rng, n_random=60, pair_cap=160, cycle_cap=240):
    """[(family, bits)] over lattice_segments(h, w): the shapes the exhaustive frames are too small for.  Nothing
    here says whether a pattern is admissible: the oracle decides."""
    segs = lattice_segments(h, w)
    index = {sg: i for i, (sg, _) in enumerate(segs)}
    out, seen = [], set()

    def add(tag, segset):
        segset = frozenset(segset)
        if not segset <= index.keys() or segset in seen:
            return
        seen.add(segset)
        bits = [False] * len(segs)
        for sg in segset:
            bits[index[sg]] = True
        out.append((tag, tuple(bits)))

    add("empty", ())
    for (sg, _) in segs:
        add("single", {sg})
    interior = [(y, x) for y in range(1, h) for x in range(1, w)]
    rects = [(y0, x0, y1, x1) for y0 in range(h + 1) for y1 in range(y0 + 1, h + 1)
             for x0 in range(w + 1) for x1 in range(x0 + 1, w + 1)]
    rsegs = {r: frozenset(rect_segments(*r)) for r in rects}
    for r in rects:
        add("rect", rsegs[r])
    # figure-eights: two rectangles meeting in one corner at an interior point
    eights = []
    for (y, x) in interior:
        for (a, b) in (((y - 1, x - 1, y, x), (y, x, y + 1, x + 1)), ((y - 1, x, y, x + 1), (y, x - 1, y + 1, x)),
                       ((0, 0, y, x), (y, x, h, w)), ((0, x, y, w), (y, 0, h, x))):
            e = rsegs[a] | rsegs[b]
            eights.append(((y, x), e))
            add("eight", e)
    for (p, e) in eights:
        for sg in sorted(e, key=sorted):
            add("eight-minus-1", e - {sg})
        others = [sg for (sg, _) in segs if sg not in e]
        for sg in rng.sample(others, min(4, len(others))):
            add("eight-plus-1", e | {sg})
    for i, (p, e) in enumerate(eights):
        for (q, f) in eights[i + 1:]:
            if p != q and not (e & f):
                if rng.random() < 0.35:
                    add("two-eights", e | f)
    # the bare 4-way point, its arms closed on one side / on both
    for (y, x) in interior:
        arms = {_sg((y, x), (y, x + 1)), _sg((y, x), (y, x - 1)), _sg((y, x), (y + 1, x)), _sg((y, x), (y - 1, x))}
        add("plus", arms)
        add("plus-long", walk_segments(line_points((y, 0), (y, w))) | walk_segments(line_points((0, x), (h, x))))
        for dy in (-1, 1):
            for dx in (-1, 1):
                sq = rect_segments(min(y, y + dy), min(x, x + dx), max(y, y + dy), max(x, x + dx))
                add("curl", sq | arms)
        # one strand through the point twice, the far ends joined along the border (open, then closed)
        openp = poly_segments([(y, 0), (y, w), (h, w), (h, x), (0, x)])
        add("trail-open", openp)
        add("trail-closed", openp | poly_segments([(0, x), (0, 0), (y, 0)]))
        add("trail-open", poly_segments([(y, w), (y, 0), (0, 0), (0, x), (h, x)]))
    # chains of squares along a diagonal (two and more crossings)
    for (y, x) in interior:
        for d in (1, -1):
            chain = set()
            yy, xx = y - 1, (x - 1 if d == 1 else x)
            while 0 <= yy < h and 0 <= xx < w:
                chain |= rect_segments(yy, xx, yy + 1, xx + 1)
                yy, xx = yy + 1, xx + d
            add("square-chain", chain)
    # pairs of rectangles without a common segment: corner contacts (one strand), proper crossings and disjoint
    # pairs (two strands), nested pairs
    pairs = [(a, b) for i, a in enumerate(rects) for b in rects[i + 1:] if not (rsegs[a] & rsegs[b])]

    def touch(a, b):
        pa = {p for sg in rsegs[a] for p in sg}
        pb = {p for sg in rsegs[b] for p in sg}
        return bool(pa & pb)
    touching = [pr for pr in pairs if touch(*pr)]
    apart = [pr for pr in pairs if not touch(*pr)]
    if len(touching) > pair_cap:
        touching = rng.sample(touching, pair_cap)
    if len(apart) > pair_cap // 4:
        apart = rng.sample(apart, pair_cap // 4)
    for (a, b) in touching:
        add("rect-pair-touching", rsegs[a] | rsegs[b])
    for (a, b) in apart:
        add("rect-pair-apart", rsegs[a] | rsegs[b])
    # long single strands (rank range of the non-primitive encoding): boustrophedon through every point
    snake = []
    for y in range(h + 1):
        row = [(y, x) for x in range(w + 1)]
        snake += row if y % 2 == 0 else row[::-1]
    add("snake", walk_segments(snake))
    snake = []
    for x in range(w + 1):
        col = [(y, x) for y in range(h + 1)]
        snake += col if x % 2 == 0 else col[::-1]
    add("snake", walk_segments(snake))
    # every line of the frame drawn: all interior points 4-way, many strands
    if h >= 1 and w >= 1:
        grid = set()
        for y in range(h + 1):
            grid |= walk_segments(line_points((y, 0), (y, w)))
        for x in range(w + 1):
            grid |= walk_segments(line_points((0, x), (h, x)))
        add("all-lines", grid)
    # the cycle space (every pattern with 0, 2 or 4 segments at each point = a sum mod 2 of unit squares): all of
    # it on frames of up to 9 cells, a sample beyond; the same with a staircase path added mod 2 (two odd points)
    cells = [(y, x) for y in range(h) for x in range(w)]

    def even(chosen):
        e = set()
        for (y, x) in chosen:
            e ^= rect_segments(y, x, y + 1, x + 1)
        return e
    if len(cells) <= 9:
        subsets = [[c for c, b in zip(cells, bs) if b] for bs in itertools.product([False, True], repeat=len(cells))]
    else:
        subsets = []
        for _ in range(cycle_cap):
            dens = rng.choice([0.25, 0.4, 0.5, 0.6, 0.75])
            subsets.append([c for c in cells if rng.random() < dens])
    for chosen in subsets:
        e = even(chosen)
        add("cycle-space", e)
    for chosen in (rng.sample(subsets, min(len(subsets), cycle_cap // 3)) if cells else []):
        a = (rng.randint(0, h), rng.randint(0, w))
        b = (rng.randint(0, h), rng.randint(0, w))
        path = poly_segments([a, (a[0], b[1]), b]) if rng.random() < 0.5 else poly_segments([a, (b[0], a[1]), b])
        add("cycle-space-plus-path", even(chosen) ^ path)
    for (tag, sgs) in weave_patterns(h, w, rng):
        add(tag, sgs)
    # random trails, and the same with one segment toggled
    nseg = len(segs)
    for _ in range(n_random):
        t = random_trail(rng, h, w, rng.randint(2, max(2, nseg)))
        add("random-trail", t)
        if segs and rng.random() < 0.5:
            add("random-trail-toggled", set(t) ^ {rng.choice(segs)[0]})
    return out


def crossing_patterns(h, w):
    """every pattern obeying the 0/1/2/4 rule that has at least one 4-way point"""
    segs = lattice_segments(h, w)
    at = {}
    for i, (sg, _) in enumerate(segs):
        for p in sg:
            at.setdefault(p, []).append(i)
    four = [g for g in at.values() if len(g) == 4]
    for bits in degree_ok_patterns(h, w):
        if any(all(bits[i] for i in g) for g in four):
            yield bits


# ------------------------------------------------------------------ search

def search_frames(ctx):
    quick = [(h, w) for h in range(0, 3) for w in range(0, 3)] + [(1, 3), (3, 1), (0, 4)]
    if ctx.thorough:
        return quick + [(2, 3), (3, 2), (1, 4), (4, 1), (1, 5), (0, 6)]
    return quick


def targeted_frames(ctx):
    quick = [(2, 3), (3, 2), (2, 4), (4, 2), (3, 3), (3, 4), (4, 3)]
    if ctx.thorough:
        return quick + [(2, 5), (5, 2), (4, 4), (3, 5), (5, 3), (2, 6)]
    return quick


def weave_frames(ctx):
    """larger frames on which only the dense weaves (and the empty pattern) are tried"""
    quick = [(4, 4), (4, 6), (6, 4), (6, 6)]
    if ctx.thorough:
        return quick + [(5, 5), (5, 6), (6, 5), (4, 8), (8, 4), (6, 8), (8, 6)]
    return quick


def empty_frames(ctx):
    n = 7 if ctx.thorough else 6
    return [(h, w) for h in range(n) for w in range(n)]


VARIANTS = ["plain", "alias", "omit", "config-none", "positional-frame", "twice", "twice-mixed"]


class _ConfigPrim:
    """config.use_graph_primitive set for the duration of a call that leaves the argument to the configuration"""

    def __init__(self, prim):
        self.prim = prim

    def __enter__(self):
        from cspuz.configuration import config
        self.old = config.use_graph_primitive
        config.use_graph_primitive = self.prim

    def __exit__(self, *a):
        from cspuz.configuration import config
        config.use_graph_primitive = self.old


def do_calls(s, fr, sc, prim, variant):
    """the calls of one variant on one Solver and one frame; returns the list of returned pairs"""
    from cspuz import graph
    f = graph.active_edges_connected_crossable
    if variant == "plain":
        return [f(s, fr, single_cycle=sc, use_graph_primitive=prim)]
    if variant == "alias":
        assert sc
        return [graph.active_edges_single_cycle_crossable(s, fr, use_graph_primitive=prim)]
    if variant == "omit":             # every argument that has a default left out; the route comes from config
        with _ConfigPrim(prim):
            if sc:
                return [f(s, fr, single_cycle=True)]
            return [f(s, fr)]
    if variant == "config-none":
        with _ConfigPrim(prim):
            return [f(solver=s, is_active_edge=fr, use_graph_primitive=None, single_cycle=sc)]
    if variant == "positional-frame":
        return [f(s, is_active_edge=fr, use_graph_primitive=prim, single_cycle=sc)]
    if variant == "twice":
        return [f(s, fr, single_cycle=sc, use_graph_primitive=prim), f(s, fr, single_cycle=sc, use_graph_primitive=prim)]
    if variant == "twice-mixed":      # a path constraint, then the given one on the other route: the conjunction
        return [f(s, fr, single_cycle=False, use_graph_primitive=prim),
                f(s, fr, single_cycle=sc, use_graph_primitive=not prim)]
    raise ValueError(variant)


def _key(h, w, sc, prim, pat, variant):
    if variant == "plain":
        return "crossable:%dx%d:sc%d:prim%d:%s" % (h, w, sc, prim, pat)
    return "crossable[%s]:%dx%d:sc%d:prim%d:%s" % (variant, h, w, sc, prim, pat)


def check_pattern(ctx, sess, fr, h, w, sc, prim, segs, bits, outs, variant="plain", family=None):
    """outs: the returned (is_passed, is_cross) pairs of every call made on this Solver"""
    drawn = [s for s, b in zip(segs, bits) if b]
    exp_ok, vis, crs = oracle(h, w, drawn, sc)
    fixed = []
    for s, b in zip(segs, bits):
        v = frame_var_of(fr, s)
        if isinstance(v, bool):
            assert v == b
        else:
            fixed.append((v, b))
    pat = "".join("1" if b else "0" for b in bits)
    key = _key(h, w, sc, prim, pat, variant)
    detail = {"h": h, "w": w, "single_cycle": sc, "use_graph_primitive": prim, "pattern": pat, "variant": variant,
              "segments": [[sorted(s), d] for (s, d) in segs]}
    if family:
        detail["pattern_family"] = family
    def undecided(ex):
        if sess.timeout_ms:         # a time-limited session (large frames): counted, not an error
            ctx.count("undecided-within-%dms" % sess.timeout_ms)
        else:
            ctx.harness_error("%s: %s" % (key, ex))
    try:
        got, model = sess.decide(fixed)
    except Undecided as ex:
        undecided(ex)
        return
    ctx.prop_case("sat-vs-oracle", (h, w, sc, prim, pat, variant))
    if got != exp_ok:
        d = dict(detail)
        d.update({"expected_satisfiable": exp_ok, "observed_satisfiable": got})
        ctx.violation(key, "satisfiability of active_edges_connected_crossable differs from the trail specification", d)
        return
    if not got:
        return
    expected = []
    where = {}
    for k, (passed, cross) in enumerate(outs):
        for y in range(h + 1):
            for x in range(w + 1):
                expected.append((passed[y, x], vis[(y, x)]))
                where[passed[y, x].id] = "call %d is_passed[%d,%d]" % (k + 1, y, x)
                expected.append((cross[y, x], crs[(y, x)]))
                where[cross[y, x].id] = "call %d is_cross[%d,%d]" % (k + 1, y, x)
    bad = [(where[v.id], val, model[v.id]) for v, val in expected if model[v.id] != val]
    if not bad:
        try:
            other = sess.other_values(fixed, expected)
        except Undecided as ex:
            undecided(ex)
            return
        if other is not None:
            bad = [(where[v.id], val, other[v.id]) for v, val in expected if other[v.id] != val]
    ctx.prop_case("outputs-vs-oracle", (h, w, sc, prim, pat, variant))
    if bad:
        d = dict(detail)
        d.update({"returned_array_values (entry, expected, observed in a solution)": bad})
        ctx.violation(key + ":outputs", "a solution gives the returned arrays other values than visited / 4-way points", d)


def _outputs_ok(outs, h, w):
    from cspuz.array import BoolArray2D
    from cspuz.expr import BoolVar
    for r in outs:
        if not (isinstance(r, tuple) and len(r) == 2):
            return False
        for a in r:
            if not isinstance(a, BoolArray2D) or tuple(a.shape) != (h + 1, w + 1):
                return False
            if not all(isinstance(v, BoolVar) for v in a.data):
                return False
    return True


def search_one(ctx, h, w, sc, prim, patterns=None, variant="plain", const_mode=None, timeout_ms=None):
    """one Solver, one frame of fresh variables, the calls of `variant`, then every pattern by assumptions.
    const_mode "const" / "half": the pattern is given as Python True/False (all / every other segment) in the
    frame's arrays instead -- then a Solver per pattern."""
    from cspuz import Solver
    from cspuz.grid_frame import BoolGridFrame
    segs = lattice_segments(h, w)
    if patterns is None:
        patterns = itertools.product([False, True], repeat=len(segs))
    patterns = [(p if isinstance(p[0] if p else None, str) else (None, p)) for p in patterns]

    def setup(fr_maker):
        s = Solver()
        fr = fr_maker(s)
        before = (exprio.show_list(fr.horizontal.data), exprio.show_list(fr.vertical.data))
        r = vlib.guarded(lambda: do_calls(s, fr, sc, prim, variant))
        what = None
        if r[0] == "err":
            what = "active_edges_connected_crossable raises on a plain frame"
        elif not _outputs_ok(r[1], h, w):
            what = "active_edges_connected_crossable does not return two (height+1, width+1) arrays of variables"
        elif (exprio.show_list(fr.horizontal.data), exprio.show_list(fr.vertical.data)) != before:
            what = "active_edges_connected_crossable changes the frame passed in"
        if what:
            ctx.violation(_key(h, w, sc, prim, "raises", variant if not const_mode else variant + "," + const_mode), what,
                          {"h": h, "w": w, "single_cycle": sc, "use_graph_primitive": prim, "variant": variant,
                           "const_mode": const_mode, "error": r[1] if r[0] == "err" else None})
            return None
        return fr, r[1], Session(s, timeout_ms)

    if const_mode is None:
        st = setup(lambda s: BoolGridFrame(s, h, w))
        if st is None:
            return
        fr, outs, sess = st
        for (fam, bits) in patterns:
            if fam:
                ctx.count("pattern:" + fam)
            check_pattern(ctx, sess, fr, h, w, sc, prim, segs, bits, outs, variant, fam)
        return
    from cspuz.array import BoolArray2D
    nh, nv = (h + 1) * w, h * (w + 1)
    for (fam, bits) in patterns:
        def mk(s):
            hz, vt = [None] * nh, [None] * nv
            for i, ((sg, d), b) in enumerate(zip(segs, bits)):
                (y, x) = min(sg)
                ent = bool(b) if (const_mode == "const" or i % 2 == 0) else s.bool_var()
                if d == "h":
                    hz[y * w + x] = ent
                else:
                    vt[y * (w + 1) + x] = ent
            return BoolGridFrame(s, h, w, horizontal=BoolArray2D(hz, (h + 1, w)), vertical=BoolArray2D(vt, (h, w + 1)))
        st = setup(mk)
        if st is None:
            return
        fr, outs, sess = st
        ctx.count("pattern-as-constants:" + const_mode)
        check_pattern(ctx, sess, fr, h, w, sc, prim, segs, bits, outs, variant + "," + const_mode, fam)


def degree_ok_patterns(h, w):
    """every pattern in which each lattice point meets 0, 1, 2 or 4 drawn segments (there the
    strand condition decides)"""
    segs = lattice_segments(h, w)
    at = {}
    for i, (sg, _) in enumerate(segs):
        for p in sg:
            at.setdefault(p, []).append(i)
    groups = list(at.values())
    for bits in itertools.product([False, True], repeat=len(segs)):
        if all(sum(bits[i] for i in g) != 3 for g in groups):
            yield bits


def sampled_patterns(ctx, h, w, n_random):
    seen = set()
    for bits in degree_ok_patterns(h, w):
        seen.add(bits)
        yield bits
    nseg = (h + 1) * w + h * (w + 1)
    for _ in range(n_random):
        dens = ctx.rng.choice([0.15, 0.3, 0.5, 0.7])
        bits = tuple(ctx.rng.random() < dens for _ in range(nseg))
        if bits not in seen:
            seen.add(bits)
            yield bits


def _spec_requests(h, w, sc, segs, patterns):
    pos = {}
    for i, (sg, d) in enumerate(segs):
        (y, x) = min(sg)
        pos[i] = ("h", y * w + x) if d == "h" else ("v", y * (w + 1) + x)
    nh, nv = (h + 1) * w, h * (w + 1)
    pts = [(y, x) for y in range(h + 1) for x in range(w + 1)]
    reqs, exps = [], []
    for bits in patterns:
        hb, vb = ["0"] * nh, ["0"] * nv
        for i, b in enumerate(bits):
            if b:
                k, j = pos[i]
                (hb if k == "h" else vb)[j] = "1"
        reqs.append("S %d %d %d %s %s" % (h, w, sc, "".join(hb) or "-", "".join(vb) or "-"))
        ok, vis, crs = oracle(h, w, [s for s, b in zip(segs, bits) if b], sc)
        exps.append("%d %s %s" % (ok, "".join("1" if vis[p] else "0" for p in pts),
                                  "".join("1" if crs[p] else "0" for p in pts)))
    return reqs, exps


def spec_vs_oracle(ctx):
    """the trusted Coq specification (its executable form crossable_spec_b, proved equivalent to
    crossable_spec) against the independent oracle, on every pattern of the small frames and on the targeted
    patterns of the larger ones"""
    import random
    m = ctx.model("C10")
    for (h, w) in search_frames(ctx):
        segs = lattice_segments(h, w)
        if len(segs) > (17 if ctx.thorough else 13):
            continue
        for sc in (False, True):
            reqs, exps = _spec_requests(h, w, sc, segs, itertools.product([False, True], repeat=len(segs)))
            outs = m.batch(reqs)
            for r, o, e in zip(reqs, outs, exps):
                ctx.corr("spec-vs-oracle", r, o, e)
    for (h, w) in targeted_frames(ctx):
        segs = lattice_segments(h, w)
        pats = [bits for (_, bits) in targeted_patterns(h, w, random.Random(ctx.rng.randrange(1 << 30)))]
        for sc in (False, True):
            reqs, exps = _spec_requests(h, w, sc, segs, pats)
            outs = m.batch(reqs)
            for r, o, e in zip(reqs, outs, exps):
                ctx.corr("spec-vs-oracle", r, o, e)


class _Recorder:
    """what a search worker reports back (same interface as the parts of vlib.Ctx the search uses)"""

    def __init__(self, seed, thorough, deep):
        import random
        self.rng = random.Random(seed)
        self.thorough, self.deep = thorough, deep
        self.cases, self.viol, self.errors = [], [], []
        self.dist = {}

    def prop_case(self, kind, inp, nontrivial=True):
        self.cases.append((kind, inp))

    def count(self, key, n=1):
        self.dist[key] = self.dist.get(key, 0) + n

    def violation(self, key, what, detail):
        if len(self.viol) < 40:
            self.viol.append((key, what, detail))

    def harness_error(self, what):
        if len(self.errors) < 20:
            self.errors.append(what)


KEEP_FAMILIES = {"empty", "eight", "plus", "plus-long", "curl", "trail-open", "trail-closed", "square-chain", "snake",
                 "all-lines", "two-eights", "weave-closed", "weave-open", "weave-open-minus-1", "weave-minus-1",
                 "weave-two-open"}


def _job_patterns(rec, job):
    h, w, mode = job["h"], job["w"], job["mode"]
    if mode == "full":
        return None
    if mode == "sampled":
        return sampled_patterns(rec, h, w, job["nrand"])
    if mode == "targeted":
        pats = targeted_patterns(h, w, rec.rng, n_random=job.get("nrand", 60))
        take = job.get("take")
        if take and len(pats) > take:       # the named shapes always, a sample of the bulk families
            rest = [i for i, p in enumerate(pats) if p[0] not in KEEP_FAMILIES]
            n_keep = len(pats) - len(rest)
            chosen = set(rec.rng.sample(rest, max(0, min(len(rest), take - n_keep))))
            pats = [p for i, p in enumerate(pats) if p[0] in KEEP_FAMILIES or i in chosen]
        return pats
    if mode == "crossing":
        stride = job.get("stride", 1)
        off = rec.rng.randrange(stride)
        return [bits for i, bits in enumerate(crossing_patterns(h, w)) if i % stride == off]
    if mode == "empty":
        return [("empty", tuple([False] * ((h + 1) * w + h * (w + 1))))]
    if mode == "weave":
        segs = lattice_segments(h, w)
        index = {sg: i for i, (sg, _) in enumerate(segs)}
        out = [("empty", tuple([False] * len(segs)))]
        for (tag, sgs) in weave_patterns(h, w, rec.rng):
            bits = [False] * len(segs)
            for sg in sgs:
                bits[index[sg]] = True
            out.append((tag, tuple(bits)))
        return out
    raise ValueError(mode)


def _search_job(job):
    import traceback
    rec = _Recorder(job["seed"], job["thorough"], job["deep"])
    for (h, w) in job["frames"]:
        j = dict(job)
        j["h"], j["w"] = h, w
        try:
            search_one(rec, h, w, job["sc"], job["prim"], _job_patterns(rec, j), job.get("variant", "plain"),
                       job.get("const_mode"), job.get("timeout_ms"))
        except Exception:
            rec.harness_error("job %r: %s" % ({k: j[k] for k in ("h", "w", "sc", "prim", "mode")},
                                              traceback.format_exc()[-1500:]))
    return rec.cases, rec.viol, rec.dist, rec.errors


def search_jobs(ctx):
    jobs = []
    deep = bool(getattr(ctx, "deep", False))

    def job(frames, sc, prim, mode, weight, **kw):
        j = {"frames": frames, "sc": sc, "prim": prim, "mode": mode, "weight": weight,
             "seed": ctx.rng.randrange(1 << 30), "thorough": ctx.thorough, "deep": deep}
        j.update(kw)
        jobs.append(j)

    both = [(sc, prim) for sc in (False, True) for prim in (False, True)]
    big = ctx.thorough or deep
    # (1) every pattern of the small frames (larger ones: every pattern obeying the degree rule + random others)
    for (h, w) in search_frames(ctx):
        nseg = (h + 1) * w + h * (w + 1)
        for (sc, prim) in both:
            if prim:
                full = nseg <= 12
                nrand = 3000 if big else 500
            else:
                full = nseg <= (13 if ctx.thorough else 12)
                nrand = 5000 if ctx.thorough else 3000
            job([(h, w)], sc, prim, "full" if full else "sampled", 2 ** min(nseg, 14), nrand=nrand)
    # (2) frames just beyond: targeted shapes; on 2x3 / 3x2 also the degree-rule patterns with a 4-way point
    for (h, w) in targeted_frames(ctx):
        nseg = (h + 1) * w + h * (w + 1)
        for (sc, prim) in both:
            job([(h, w)], sc, prim, "targeted", 150 * nseg, nrand=120 if big else 60,
                take=None if (big or nseg <= 17) else 420)
    for (h, w) in [(2, 3), (3, 2)]:
        for (sc, prim) in both:
            job([(h, w)], sc, prim, "crossing", 6000 if sc else 9000, stride=1)
    for (h, w) in weave_frames(ctx):
        for (sc, prim) in both:
            job([(h, w)], sc, prim, "weave", 8000 if not prim else 2000, timeout_ms=10000 if big else 2500)
    # (3) no segment drawn, on every frame size: both arrays forced false everywhere
    for (sc, prim) in both:
        for variant in ("plain", "alias") if sc else ("plain",):
            job(empty_frames(ctx), sc, prim, "empty", 1500, variant=variant)
    # (4) other ways of making the same call; two calls on one Solver and one frame
    for variant in VARIANTS[1:]:
        for (sc, prim) in both:
            if variant == "alias" and not sc:
                continue
            job([(1, 1), (1, 2), (2, 1), (0, 2)], sc, prim, "full", 400, variant=variant)
            job([(2, 2), (2, 3), (3, 2)] + ([(3, 4)] if ctx.thorough else []), sc, prim, "targeted", 1500,
                variant=variant, nrand=20, take=None if big else 110)
    # (5) the pattern written into the frame as Python True / False (all segments, every other segment)
    for cm in ("const", "half"):
        for (sc, prim) in both:
            job([(0, 1), (1, 1), (1, 2)] + ([(2, 1)] if big else []), sc, prim, "full", 500, const_mode=cm)
            job([(2, 2), (2, 3)] + ([(3, 2)] if big else []), sc, prim, "targeted", 1000, const_mode=cm, nrand=10,
                take=150 if big else 32)
    return jobs


def search(ctx):
    import concurrent.futures
    import os
    jobs = search_jobs(ctx)
    order = sorted(range(len(jobs)), key=lambda i: -jobs[i]["weight"])     # biggest first: the pool stays busy
    workers = max(1, min(6, (os.cpu_count() or 2) // 2))
    results = {}
    with concurrent.futures.ProcessPoolExecutor(max_workers=workers) as ex:
        futs = {ex.submit(_search_job, jobs[i]): i for i in order}
        for f in concurrent.futures.as_completed(futs):
            try:
                results[futs[f]] = f.result()
            except Exception as exn:       # a worker that died must not hide what the others found
                results[futs[f]] = ([], [], {}, ["worker for job %r died: %r" % (jobs[futs[f]], exn)])
    errors = []
    for i in range(len(jobs)):           # merge in the deterministic job order
        cases, viol, dist, errs = results[i]
        for (kind, inp) in cases:
            ctx.prop_case(kind, inp)
        for (key, what, detail) in viol:
            ctx.violation(key, what, detail)
        for k, n in dist.items():
            ctx.count(k, n)
        errors += errs
    if errors:
        raise RuntimeError("search harness could not decide %d case(s): %s" % (len(errors), " | ".join(errors[:3])))


def replay(ctx, rp):
    v = rp.get("violation", {}).get("detail", {})
    print(rp)
    if not v or "pattern" not in v:
        return 0
    bits = tuple(c == "1" for c in v["pattern"])
    variant = v.get("variant", "plain")
    cm = v.get("const_mode")
    if "," in variant:
        variant, cm = variant.split(",")
    ctx.harness_error = lambda what: print("undecided:", what)
    search_one(ctx, v["h"], v["w"], v["single_cycle"], v["use_graph_primitive"], [bits], variant, cm)
    for x in ctx.violations:
        print("reproduced:", x["key"], x["what"])
    return 1 if ctx.violations else 0
