(* C11 rule specification - Geradeweg.
   Published rules (puzz.link, "Geradeweg"):
     1. Draw a single loop through the centres of cells, horizontally or vertically;
        it does not cross itself or branch.
     2. The loop passes through every cell with a number.
     3. A number is the length of the straight line segment(s) of the loop
        running through that cell: if the loop goes straight through the cell,
        the whole straight segment has that length; if it turns there, both
        segments leaving the cell have that length.
   Library convention: drawing no line at all also counts as a loop.

   problem = [[h; w]; num]   num: h*w cells row-major, n >= 1 a number, anything else none
   answer  = the segments between cell centres (lattice h w) *)
From Coq Require Import ZArith List Bool Arith.
From Cspuz Require Import Graph.GraphModel Puzzle.PuzzleBase.
Import ListNotations.

Definition rules_geradeweg (pb : problem) (ans : answer) : bool :=
  let h := dim pb 0 in let w := dim pb 1 in
  let num := sec pb 1 in
  let on := fun k => isb (getz ans k) in
  let g := lattice h w in
  let run := fun y x d => run_len (h + w) h w on y x d in
  Nat.eqb (length ans) (n_lattice_edges h w) && forallb is01 ans &&
  single_loop_b g on &&
  forallb (fun '(y, x) =>
     let c := at2 num w y x in
     (c <? 1)%Z ||
     (on_line g on (y * w + x) &&
      (* the straight segment through the cell along each axis on which the loop leaves it *)
      forallb (fun d => let l := run y x d + run y x (opposite d) in
                        Nat.eqb l 0 || (Z.of_nat l =? c)%Z) [0; 2])) (cells h w).

Definition answers_geradeweg (pb : problem) : list answer :=
  all_answers (bool_doms (n_lattice_edges (dim pb 0) (dim pb 1))).
