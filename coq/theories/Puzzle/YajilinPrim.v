(* C11 Tier 1, native-operator route - cspuz/puzzle/yajilin.py::solve_yajilin with cspuz.config.use_graph_primitive on
   (the default of the csugar / enigma_csp / cspuz_core backends): graph.active_edges_single_cycle(solver, grid_frame)
   declares only the height * width is_passed flags and posts, per cell, the degree constraint and ONE native node
   Op.GRAPH_ACTIVE_VERTICES_CONNECTED over the line graph of the frame (model of property C06,
   Graph/Cycle.v::active_edges_single_cycle ... None true; the native node means C06's gsem_c06).  Everything else the
   function does is unchanged (Yajilin.v), but black_cell is declared 2 * height * width ids earlier (the rank and root
   variables of the plain route do not exist): with N = frame_n (height-1) (width-1), P = height * width
       frame 0 .. N-1, is_passed N .. N+P-1, black_cell N+P .. N+2P-1.
   The model reuses the constraint lists of Yajilin.v (yajilin_not_adjacent, yajilin_cells: written with the plain
   route's ids) and moves every id from yj_base = N+3P on down by 2P (CyclePrimCompose2.shift_expr); the capture tie
   (kind program-native:yajilin) compares the result with the program of the real solve_yajilin on that route.
   Same input domain as solve_yajilin_model.  Error behaviour: as on the plain route, except that the 0 x 0 board is
   NOT rejected on this route - without the rank array (int_array(.., 0, -1) raises ValueError on the plain route)
   nothing raises, the frame and the cell grid are empty and the program consists of the native node on the empty
   graph alone (yj_empty_prim); every other board with height < 1 or width < 1 still raises ValueError.

   yajilin_exact_prim: same statement as YajilinProofs.yajilin_exact for this program (answer keys: the frame and the
   black cells at their new ids), from CyclePrimCompose2.cycle_grid_compose_prim and the local lemmas of
   YajilinProofs.v (yj_local_core) / YajilinWf.v (the later constraints contain no native node). *)
From Coq Require Import ZArith List Bool Arith Lia.
From Cspuz Require Import Lib.PyErr Core.Expr Core.Program Core.Build Graph.GraphModel Graph.Cycle Graph.CycleLemmas
     Graph.CycleProofs Graph.CycleFrame
     Puzzle.PuzzleBase Puzzle.SatAbs Puzzle.ModelBase Puzzle.ModelLemmas Puzzle.SolveCompose Puzzle.WfLemmas
     Puzzle.CycleFrameBase Puzzle.CycleCompose Puzzle.YajilinCompose Puzzle.CyclePrimCompose2
     Puzzle.Rules_yajilin Puzzle.Yajilin Puzzle.YajilinProofs Puzzle.YajilinWf.
Import ListNotations.
Local Open Scope nat_scope.

(* the ids of the variables declared after the single-cycle call: 2 * H * W lower than on the plain route *)
Definition yj_shift (H W : nat) : expr -> expr := shift_expr (yj_base H W) (H * W + H * W).

(* the program of the 0 x 0 board: no variable, Op.GRAPH_ACTIVE_VERTICES_CONNECTED on the empty graph *)
Definition yj_empty_prim : state := {| vars := []; keys := []; cons := [BNode G_AVC [PyInt 0; PyInt 0]] |}.

Definition solve_yajilin_model_prim (pb : problem) : res state :=
  let H := dim pb 0 in let W := dim pb 1 in
  if ((getz (sec pb 0) 0 =? 0) && (getz (sec pb 0) 1 =? 0))%Z then Ok yj_empty_prim
  else if ((getz (sec pb 0) 0 <? 1) || (getz (sec pb 0) 1 <? 1))%Z then Err ValueError
  else
  let h := H - 1 in let w := W - 1 in
  let '(sa, hor) := bool_array empty_state (S h * w) in
  let '(sb, ver) := bool_array sa (h * S w) in
  match active_edges_single_cycle sb (AFrame h w hor ver) None true with
  | Err e => Err e
  | Ok (st1, _) =>
      let '(st2, black) := bool_array st1 (H * W) in
      match yj_add_keys (ensure st2 (map (yj_shift H W) (yajilin_not_adjacent H W))) (hor ++ ver) with
      | Err e => Err e
      | Ok st3 =>
      match yj_add_keys st3 black with
      | Err e => Err e
      | Ok st4 =>
          if Nat.ltb (length (sec pb 1)) (H * W) then Err IndexError
          else Ok (ensure st4 (map (yj_shift H W) (yajilin_cells H W (sec pb 1) (sec pb 2))))
      end end
  end.

(* ------------------------------------------------------------------------------------------------------ *)

Lemma yjp_holds_wt gsem en l :
  forallb (wt true) l = true -> forallb (holds gsem en) l = forallb (holds no_graph en) l.
Proof.
  intros F. rewrite forallb_forall in F. apply forallb_ext_in. intros e He.
  unfold holds. rewrite (eval_gsem_irrelevant gsem e true (F e He) en). reflexivity.
Qed.

Lemma yjp_extra_wt h w kind num :
  forallb (wt true) (yajilin_not_adjacent (S h) (S w) ++ yajilin_cells (S h) (S w) kind num) = true.
Proof.
  pose proof (yajilin_not_adjacent_ok h w) as H1. pose proof (yajilin_cells_ok h w kind num) as H2.
  rewrite forallb_ok in H1, H2. apply andb_true_iff in H1. apply andb_true_iff in H2.
  rewrite forallb_app. apply andb_true_iff. split; [apply H1|apply H2].
Qed.

Lemma yajilin_model_prim_shape h w kind num st :
  solve_yajilin_model_prim [[Z.of_nat (S h); Z.of_nat (S w)]; kind; num] = Ok st ->
  exists st0 st1 res,
    vars st0 = repeat DBool (frame_n h w) /\ Program.cons st0 = [] /\
    active_edges_single_cycle st0 (AFrame h w (frame_hor h w) (frame_ver h w)) None true = Ok (st1, res) /\
    vars st = vars st1 ++ repeat DBool (S h * S w) /\
    Program.cons st = Program.cons st1 ++
      map (yj_shift (S h) (S w)) (yajilin_not_adjacent (S h) (S w) ++ yajilin_cells (S h) (S w) kind num).
Proof.
  unfold solve_yajilin_model_prim.
  change (sec [[Z.of_nat (S h); Z.of_nat (S w)]; kind; num] 1) with kind.
  change (sec [[Z.of_nat (S h); Z.of_nat (S w)]; kind; num] 2) with num.
  change (sec [[Z.of_nat (S h); Z.of_nat (S w)]; kind; num] 0) with [Z.of_nat (S h); Z.of_nat (S w)].
  change (getz [Z.of_nat (S h); Z.of_nat (S w)] 0) with (Z.of_nat (S h)).
  change (getz [Z.of_nat (S h); Z.of_nat (S w)] 1) with (Z.of_nat (S w)).
  destruct (yj_dims (S h) (S w) [kind; num]) as [-> ->].
  replace ((Z.of_nat (S h) =? 0) && (Z.of_nat (S w) =? 0))%Z with false
    by (symmetry; apply andb_false_iff; left; apply Z.eqb_neq; lia).
  replace ((Z.of_nat (S h) <? 1) || (Z.of_nat (S w) <? 1))%Z with false
    by (symmetry; apply orb_false_iff; split; apply Z.ltb_ge; lia).
  replace (S h - 1) with h by lia. replace (S w - 1) with w by lia.
  unfold bool_array. rewrite !bool_vars_spec.
  set (sb := {| vars := vars {| vars := vars empty_state ++ repeat DBool (S h * w);
                               keys := keys empty_state ++ repeat false (S h * w);
                               cons := Program.cons empty_state |} ++ repeat DBool (h * S w);
                keys := _; cons := _ |}).
  assert (Hn : next_id {| vars := vars empty_state ++ repeat DBool (S h * w);
                          keys := keys empty_state ++ repeat false (S h * w);
                          cons := Program.cons empty_state |} = S h * w).
  { unfold next_id. simpl. apply repeat_length. }
  rewrite Hn. change (next_id empty_state) with 0.
  fold (frame_hor h w). fold (frame_ver h w).
  destruct (active_edges_single_cycle sb (AFrame h w (frame_hor h w) (frame_ver h w)) None true)
    as [[st1 res]|e] eqn:Hcall; [|discriminate].
  rewrite bool_vars_spec.
  destruct (yj_add_keys _ (frame_hor h w ++ frame_ver h w)) as [st3|e] eqn:E3; [|discriminate].
  destruct (yj_add_keys st3 _) as [st4|e] eqn:E4; [|discriminate].
  destruct (Nat.ltb (length kind) (S h * S w)); [discriminate|].
  intros Hst. inversion Hst; subst st. clear Hst.
  apply yj_add_keys_spec in E3, E4. destruct E3 as [V3 C3], E4 as [V4 C4].
  cbn [vars Program.cons ensure] in *.
  exists sb, st1, res. split; [|split; [reflexivity|split; [exact Hcall|split]]].
  - unfold sb, frame_n. cbn [vars empty_state app]. rewrite repeat_app. reflexivity.
  - rewrite V4, V3. reflexivity.
  - rewrite C4, C3, <- app_assoc, map_app. reflexivity.
Qed.

(* the assignment of the plain route's ids that an assignment of this route's ids stands for *)
Section Back.
  Variables (h w : nat) (en : env).
  Notation en' := (sh_env (yj_base (S h) (S w)) (S h * S w + S h * S w) en).

  Lemma yjp_low i : i < frame_n h w + S h * S w -> eb en' i = eb en i.
  Proof.
    intros Hi. cbn [sh_env eb]. rewrite sh_id_low; [reflexivity|]. rewrite yj_base_eq. unfold grid_base. lia.
  Qed.

  Lemma yjp_reading : key_reading h w (S h * S w) en' = key_reading_prim h w (S h * S w) en.
  Proof.
    unfold key_reading, key_reading_prim, key_ids, key_ids_prim. rewrite !map_app. f_equal.
    - apply map_ext_in. intros i Hi. apply in_seq in Hi. rewrite yjp_low by lia. reflexivity.
    - rewrite (kp_seq_as_map (grid_base h w)), (kp_seq_as_map (grid_base_prim h w)), !map_map.
      apply map_ext_in. intros j _. cbn [sh_env eb]. rewrite sh_id_high by (rewrite yj_base_eq; lia).
      f_equal. f_equal. unfold grid_base, grid_base_prim. lia.
  Qed.

  Lemma yjp_pass :
    (forall y x, y <= h -> x <= w ->
       eb en (frame_pid h w y x) = on_line (lattice (S h) (S w)) (eb en) (y * S w + x)) ->
    forall y x, y <= h -> x <= w ->
       eb en' (frame_pid h w y x) = on_line (lattice (S h) (S w)) (eb en') (y * S w + x).
  Proof.
    intros PASS y x Hy Hx. rewrite yjp_low by (unfold frame_pid; nia). rewrite PASS by assumption.
    apply on_line_ext. intros k Hk.
    change (length (edges (lattice (S h) (S w)))) with (length (lattice_edges (S h) (S w))) in Hk.
    rewrite lattice_edges_length in Hk. symmetry. apply yjp_low. lia.
  Qed.
End Back.

Theorem yajilin_exact_prim H W kind num st ans :
  solve_yajilin_model_prim [[Z.of_nat H; Z.of_nat W]; kind; num] = Ok st ->
  ((exists en, model_of gsem_c06 en st /\
               reads st en (seq 0 (n_lattice_edges H W) ++ seq (n_lattice_edges H W + H * W) (H * W)) = ans)
   <-> rules_yajilin [[Z.of_nat H; Z.of_nat W]; kind; num] ans = true).
Proof.
  destruct H as [|h].
  { destruct W as [|w]; [|intros Hm; discriminate Hm].
    (* the 0 x 0 board: the only reading is the empty one, and it obeys the rules *)
    intros Hm. change (Ok yj_empty_prim = Ok st) in Hm. inversion Hm; subst st. clear Hm.
    rewrite rules_yajilin_split. split.
    - intros [en [_ Hr]]. simpl in Hr. subst ans. reflexivity.
    - intros Hr. destruct ans as [|a r]; [|discriminate Hr].
      exists {| eb := fun _ => false; ei := fun _ => 0%Z |}. split; [split; reflexivity|reflexivity]. }
  destruct W as [|w].
  { intros Hm. unfold solve_yajilin_model_prim in Hm.
    change (getz (sec [[Z.of_nat (S h); Z.of_nat 0]; kind; num] 0) 1) with 0%Z in Hm.
    change (getz (sec [[Z.of_nat (S h); Z.of_nat 0]; kind; num] 0) 0) with (Z.of_nat (S h)) in Hm.
    replace (Z.of_nat (S h) =? 0)%Z with false in Hm by (symmetry; apply Z.eqb_neq; lia).
    change (0 <? 1)%Z with true in Hm. rewrite orb_true_r in Hm. discriminate Hm. }
  intros Hm. destruct (yajilin_model_prim_shape h w kind num st Hm) as [st0 [st1 [res [Hv0 [Hc0 [Hcall [Hv Hc]]]]]]].
  destruct (cycle_grid_compose_prim h w (S h * S w) st0 st1 st res _ Hv0 Hc0 Hcall Hv Hc
              (yj_local (S h) (S w) kind num) ans) as [_ EX].
  { intros en PASS. unfold yj_shift. rewrite forallb_holds_shift.
    rewrite (yjp_holds_wt gsem_c06 _ _ (yjp_extra_wt h w kind num)).
    rewrite <- (yj_local_core h w kind num _ (yjp_pass h w en PASS)), yjp_reading. reflexivity. }
  rewrite rules_yajilin_split, yj_n_lattice_frame.
  exact EX.
Qed.

(* the premise is satisfiable *)
Example yajilin_model_prim_ok : exists st, solve_yajilin_model_prim [[2; 2]; [0; 1; 3; 0]; [0; 1; 0; 0]]%Z = Ok st.
Proof. vm_compute. eexists. reflexivity. Qed.
