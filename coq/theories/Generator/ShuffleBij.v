(* C19 — the Fisher–Yates argument for deterministic_random.shuffle: the map from draw
   vectors (j_1 <= 1, j_2 <= 2, ...) to the permutations of a duplicate-free list is a
   bijection, so uniform draws give a uniform permutation. *)
From Coq Require Import ZArith List Bool Lia Permutation Arith.
From Cspuz Require Import Lib.PyErr Generator.XorShift Generator.XorShiftProofs.
Import ListNotations.

(* ------------------------------------------------------------------ positions *)

Lemma nth_error_ext {A} : forall (l l' : list A), (forall n, nth_error l n = nth_error l' n) -> l = l'.
Proof.
  induction l as [|x t IH]; intros [|y t'] H.
  - reflexivity.
  - specialize (H O). discriminate.
  - specialize (H O). discriminate.
  - pose proof (H O) as H0. cbn in H0. inversion H0; subst. f_equal. apply IH. intros n. exact (H (S n)).
Qed.

Lemma nth_error_set_nth {A} : forall (l : list A) n v k,
  nth_error (set_nth l n v) k =
  if Nat.eqb k n then (match nth_error l n with Some _ => Some v | None => None end) else nth_error l k.
Proof.
  induction l as [|x t IH]; intros n v k; cbn [set_nth].
  - destruct n, k; cbn; try reflexivity. destruct (Nat.eqb k n); reflexivity.
  - destruct n as [|n].
    + destruct k; reflexivity.
    + destruct k as [|k]; [reflexivity|]. cbn [nth_error Nat.eqb]. apply IH.
Qed.

Lemma nth_error_swap {A} (l : list A) i j a b k :
  nth_error l i = Some a -> nth_error l j = Some b ->
  nth_error (swap l i j) k =
  if Nat.eqb k j then Some a else if Nat.eqb k i then Some b else nth_error l k.
Proof.
  intros Hi Hj. unfold swap. rewrite Hi, Hj. rewrite !nth_error_set_nth.
  destruct (Nat.eqb_spec k j) as [->|Nj].
  - destruct (Nat.eqb_spec j i) as [->|Nij].
    + rewrite Hi. reflexivity.
    + rewrite Hj. reflexivity.
  - destruct (Nat.eqb_spec k i) as [->|Ni]; [rewrite Hi|]; reflexivity.
Qed.

(* one step of the shuffle loop *)
Definition step {A} (i j : nat) (l : list A) : list A := if Nat.eqb i j then l else swap l i j.

Lemma step_perm {A} i j (l : list A) : Permutation (step i j l) l.
Proof. unfold step. destruct (Nat.eqb i j); [reflexivity|apply swap_perm]. Qed.

Lemma step_length {A} i j (l : list A) : length (step i j l) = length l.
Proof. apply Permutation_length, step_perm. Qed.

Lemma nth_error_step {A} (l : list A) i j a b k :
  nth_error l i = Some a -> nth_error l j = Some b ->
  nth_error (step i j l) k =
  if Nat.eqb k j then Some a else if Nat.eqb k i then Some b else nth_error l k.
Proof.
  intros Hi Hj. unfold step. destruct (Nat.eqb_spec i j) as [->|N].
  - assert (a = b) by congruence. subst b.
    destruct (Nat.eqb_spec k j) as [->|_]; [exact Hi|reflexivity].
  - apply nth_error_swap; assumption.
Qed.

Lemma step_involutive {A} (l : list A) i j :
  (i < length l)%nat -> (j < length l)%nat -> step i j (step i j l) = l.
Proof.
  intros Hi Hj.
  destruct (nth_error l i) as [a|] eqn:Ei; [|apply nth_error_None in Ei; lia].
  destruct (nth_error l j) as [b|] eqn:Ej; [|apply nth_error_None in Ej; lia].
  apply nth_error_ext. intros k.
  assert (Hi' : nth_error (step i j l) i = Some b).
  { rewrite (nth_error_step l i j a b i Ei Ej). rewrite Nat.eqb_refl.
    destruct (Nat.eqb_spec i j) as [->|_]; congruence. }
  assert (Hj' : nth_error (step i j l) j = Some a).
  { rewrite (nth_error_step l i j a b j Ei Ej). rewrite Nat.eqb_refl. reflexivity. }
  rewrite (nth_error_step _ i j b a k Hi' Hj'), (nth_error_step l i j a b k Ei Ej).
  destruct (Nat.eqb_spec k j) as [->|_]; [symmetry; exact Ej|].
  destruct (Nat.eqb_spec k i) as [->|_]; [symmetry; exact Ei|reflexivity].
Qed.

Lemma shuffle_with_cons {A} j t i (l : list A) : shuffle_with (j :: t) i l = shuffle_with t (S i) (step i j l).
Proof. reflexivity. Qed.

Lemma shuffle_with_app {A} js1 : forall js2 i (l : list A),
  shuffle_with (js1 ++ js2) i l = shuffle_with js2 (i + length js1) (shuffle_with js1 i l).
Proof.
  induction js1 as [|j t IH]; intros js2 i l; cbn [app length].
  - rewrite Nat.add_0_r. reflexivity.
  - rewrite !shuffle_with_cons, IH. f_equal. lia.
Qed.

Lemma shuffle_with_length {A} js i (l : list A) : length (shuffle_with js i l) = length l.
Proof. apply Permutation_length, shuffle_with_perm. Qed.

(* draws bounded by their position: the k-th draw (for index i0 + k) is at most i0 + k *)
Definition bounded (i0 : nat) (js : list nat) : Prop :=
  forall k j, nth_error js k = Some j -> (j <= i0 + k)%nat.

(* positions at or beyond i0 + |js| are not touched *)
Lemma shuffle_with_untouched {A} js : forall i0 (l : list A) p,
  bounded i0 js -> (i0 + length js <= length l)%nat -> (i0 + length js <= p)%nat ->
  nth_error (shuffle_with js i0 l) p = nth_error l p.
Proof.
  induction js as [|j t IH]; intros i0 l p Hb Hlen Hp; [reflexivity|].
  cbn [length] in *. rewrite shuffle_with_cons.
  assert (Hj : (j <= i0)%nat) by (specialize (Hb O j eq_refl); lia).
  rewrite IH.
  - destruct (nth_error l i0) as [a|] eqn:Ei; [|apply nth_error_None in Ei; lia].
    destruct (nth_error l j) as [b|] eqn:Ej; [|apply nth_error_None in Ej; lia].
    rewrite (nth_error_step l i0 j a b p Ei Ej).
    destruct (Nat.eqb_spec p j); [lia|]. destruct (Nat.eqb_spec p i0); [lia|]. reflexivity.
  - intros k j' Hk. specialize (Hb (S k) j' Hk). lia.
  - rewrite step_length. lia.
  - lia.
Qed.

(* ------------------------------------------------------------------ the bijection *)

Section Bij.
  Variable A : Type.
  Variable l : list A.
  Hypothesis Hnd : NoDup l.

  (* a target that is a permutation of l and already agrees with l from position m on is
     reached by exactly one vector of m draws (the process started at index 0) *)
  Lemma reach_unique : forall m, (m <= length l)%nat -> forall l',
    Permutation l l' -> (forall p, (m <= p)%nat -> nth_error l' p = nth_error l p) ->
    exists js, length js = m /\ bounded 0 js /\ shuffle_with js 0 l = l' /\
               forall js', length js' = m -> bounded 0 js' -> shuffle_with js' 0 l = l' -> js' = js.
  Proof.
    induction m as [|m IH]; intros Hm l' Hperm Hag.
    - exists []. split; [reflexivity|]. split; [intros [|k] j H; discriminate|]. split.
      + cbn. apply nth_error_ext. intros n. symmetry. apply Hag. lia.
      + intros js' Hl _ _. destruct js'; [reflexivity|discriminate].
    - pose proof (Permutation_length Hperm) as Hlen.
      assert (Hnd' : NoDup l') by (eapply Permutation_NoDup; eauto).
      destruct (nth_error l m) as [e|] eqn:Ee; [|apply nth_error_None in Ee; lia].
      assert (Hin : In e l') by (eapply Permutation_in; [exact Hperm|eapply nth_error_In; exact Ee]).
      apply In_nth_error in Hin. destruct Hin as (j & Ej).
      assert (Hjlen : (j < length l')%nat) by (apply nth_error_Some; congruence).
      assert (Hjm : (j <= m)%nat).
      { destruct (le_lt_dec j m) as [H|H]; [exact H|]. exfalso.
        assert (Ejl : nth_error l j = Some e) by (rewrite <- Hag by lia; exact Ej).
        assert (j = m).
        { apply (proj1 (NoDup_nth_error l) Hnd); [lia|congruence]. }
        lia. }
      destruct (nth_error l' m) as [c|] eqn:Ec; [|apply nth_error_None in Ec; lia].
      set (l'' := step m j l').
      assert (Hperm'' : Permutation l l'').
      { eapply perm_trans; [exact Hperm|]. apply Permutation_sym, step_perm. }
      assert (Hag'' : forall p, (m <= p)%nat -> nth_error l'' p = nth_error l p).
      { intros p Hp. unfold l''. rewrite (nth_error_step l' m j c e p Ec Ej).
        destruct (Nat.eqb_spec p j) as [->|Npj].
        - assert (j = m) by lia. subst j. congruence.
        - destruct (Nat.eqb_spec p m) as [->|Npm]; [congruence|]. apply Hag. lia. }
      destruct (IH ltac:(lia) l'' Hperm'' Hag'') as (js & Hjl & Hjb & Hjs & Huniq).
      exists (js ++ [j]). split; [rewrite app_length; cbn; lia|]. split; [|split].
      + intros k j0 Hk. destruct (lt_dec k (length js)) as [H|H].
        * rewrite nth_error_app1 in Hk by exact H. apply Hjb; exact Hk.
        * rewrite nth_error_app2 in Hk by lia. destruct (k - length js)%nat as [|q] eqn:Eq; cbn in Hk.
          -- inversion Hk; subst. lia.
          -- destruct q; discriminate.
      + rewrite shuffle_with_app, Hjs, Hjl. cbn [Nat.add]. rewrite shuffle_with_cons. cbn [shuffle_with].
        unfold l''. apply step_involutive; lia.
      + intros js2 Hl2 Hb2 Hs2.
        destruct (exists_last (l := js2)) as (js' & j' & ->); [intros ->; discriminate|].
        rewrite app_length in Hl2. cbn [length] in Hl2.
        assert (Hl' : length js' = m) by lia.
        assert (Hb' : bounded 0 js').
        { intros k j0 Hk. apply (Hb2 k j0). rewrite nth_error_app1; [exact Hk|]. apply nth_error_Some. congruence. }
        assert (Hj'm : (j' <= m)%nat).
        { specialize (Hb2 m j'). rewrite nth_error_app2 in Hb2 by lia. rewrite Hl', Nat.sub_diag in Hb2.
          specialize (Hb2 eq_refl). lia. }
        rewrite shuffle_with_app, Hl' in Hs2. cbn [Nat.add] in Hs2. rewrite shuffle_with_cons in Hs2. cbn [shuffle_with] in Hs2.
        set (x := shuffle_with js' 0 l) in *.
        assert (Hxlen : length x = length l) by apply shuffle_with_length.
        assert (Hxm : nth_error x m = Some e).
        { unfold x. rewrite shuffle_with_untouched; [exact Ee|exact Hb'|lia|lia]. }
        destruct (nth_error x j') as [d|] eqn:Ed; [|apply nth_error_None in Ed; lia].
        assert (Ej' : nth_error l' j' = Some e).
        { rewrite <- Hs2. rewrite (nth_error_step x m j' e d j' Hxm Ed). rewrite Nat.eqb_refl. reflexivity. }
        assert (j' = j).
        { apply (proj1 (NoDup_nth_error l') Hnd'); [apply nth_error_Some; congruence|congruence]. }
        subst j'.
        assert (Hx : x = l'').
        { unfold l''. rewrite <- Hs2. symmetry. apply step_involutive; lia. }
        f_equal. apply Huniq; assumption.
  Qed.
End Bij.

Definition draws_ok (n : nat) (js : list nat) : Prop :=
  length js = (n - 1)%nat /\ forall k j, nth_error js k = Some j -> (j <= S k)%nat.

(* every permutation of a duplicate-free list is produced by exactly one admissible vector
   of draws of shuffle *)
Theorem shuffle_bijective_proved : forall (A : Type) (l l' : list A),
  NoDup l -> Permutation l l' ->
  exists js, draws_ok (length l) js /\ shuffle_with js 1 l = l' /\
             forall js', draws_ok (length l) js' -> shuffle_with js' 1 l = l' -> js' = js.
Proof.
  intros A l l' Hnd Hperm.
  destruct l as [|x t].
  - apply Permutation_nil in Hperm. subst l'. exists []. split; [split; [reflexivity|intros [|k] j H; discriminate]|].
    split; [reflexivity|]. intros js' [Hl _] _. destruct js'; [reflexivity|discriminate].
  - destruct (reach_unique A (x :: t) Hnd (length (x :: t)) (le_n _) l' Hperm) as (js & Hl & Hb & Hs & Hu).
    { intros p Hp. pose proof (Permutation_length Hperm) as Hlen.
      transitivity (@None A); [apply nth_error_None; lia|symmetry; apply nth_error_None; lia]. }
    destruct js as [|j0 js]; [discriminate|].
    assert (j0 = O) by (specialize (Hb O j0 eq_refl); lia). subst j0.
    rewrite shuffle_with_cons in Hs. unfold step in Hs. cbn [Nat.eqb] in Hs.
    exists js. split; [|split].
    + split; [cbn [length] in *; lia|]. intros k j Hk. specialize (Hb (S k) j Hk). lia.
    + exact Hs.
    + intros js' [Hl' Hb'] Hs'.
      assert (E : O :: js' = O :: js).
      { apply Hu.
        - cbn [length] in *. lia.
        - intros [|k] j Hk; cbn [nth_error] in Hk; [inversion Hk; lia|]. specialize (Hb' k j Hk). lia.
        - rewrite shuffle_with_cons. unfold step. cbn [Nat.eqb]. exact Hs'. }
      inversion E; reflexivity.
Qed.
