(* C11 rule specification - Nurikabe.
   Published rules (Nikoli, "Nurikabe"):
     1. Fill in the cells under the following rules.
     2. You cannot fill in cells containing numbers.
     3. A number tells the number of continuous white cells. Each area of white
        cells contains only one number in it and they are separated by black cells.
     4. The black cells are linked to be a continuous wall.
     5. Black cells cannot be linked to be 2x2 square or larger.
   puzz.link additionally allows "?" for a number of unknown value.

   problem = [[h; w]; clues]   clues: h*w cells row-major; n >= 1 a number, -1 a "?", anything else empty
   answer  = h*w cells row-major, 1 = white (unfilled), 0 = black (filled) *)
From Coq Require Import ZArith List Bool Arith.
From Cspuz Require Import Graph.GraphModel Puzzle.PuzzleBase.
Import ListNotations.

Definition nurikabe_is_clue (c : Z) : bool := ((1 <=? c) || (c =? -1))%Z.

Definition rules_nurikabe (pb : problem) (ans : answer) : bool :=
  let h := dim pb 0 in let w := dim pb 1 in
  let clues := sec pb 1 in
  let white := fun v => isb (getz ans v) in
  let black := fun v => negb (white v) in
  let all := seq 0 (h * w) in
  Nat.eqb (length ans) (h * w) && forallb is01 ans &&
  (* 2: numbered cells stay white *)
  forallb (fun v => negb (nurikabe_is_clue (getz clues v)) || white v) all &&
  (* 3: every white area holds exactly one number, and has that many cells *)
  forallb (fun v =>
             black v ||
             let area := group_of h w white v in
             match filter (fun u => nurikabe_is_clue (getz clues u)) area with
             | [u] => let c := getz clues u in (c =? -1)%Z || (Z.of_nat (length area) =? c)%Z
             | _ => false
             end) all &&
  (* 4: one wall *)
  cells_connected h w black &&
  (* 5: no 2x2 black square *)
  negb (has_2x2 h w (fun y x => black (y * w + x))).

Definition answers_nurikabe (pb : problem) : list answer :=
  all_answers (bool_doms (dim pb 0 * dim pb 1)).
