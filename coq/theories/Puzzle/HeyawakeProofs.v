(* C11 Tier 1 - heyawake: for every board shape, every room layout and all room clues, the program posted by
   solve_heyawake (model Heyawake.v) has a model reading as [ans] exactly when [ans] obeys Rules_heyawake.
   Connectivity of the white cells through property C04's theorems (HeyawakeLemmas.avc_grid_compose_gen). *)
From Coq Require Import ZArith List Bool Arith Lia.
From Cspuz Require Import Lib.PyErr Core.Expr Core.Program Graph.GraphModel Graph.Avc
     Puzzle.PuzzleBase Puzzle.SatAbs Puzzle.ModelBase Puzzle.ModelLemmas Puzzle.AkariLemmas Puzzle.Akari
     Puzzle.CreekProofs Puzzle.NurimisakiProofs Puzzle.Rules_norinori Puzzle.Norinori
     Puzzle.Rules_heyawake Puzzle.Heyawake Puzzle.HeyawakeLemmas.
Import ListNotations.
Local Open Scope nat_scope.

Notation b2z := PuzzleBase.b2z.

Lemma nbr4_cases h w y x y' x' :
  In (y', x') (nbr4 h w y x) <->
  ((0 < y /\ y' = y - 1 /\ x' = x) \/ (S y < h /\ y' = S y /\ x' = x) \/
   (0 < x /\ y' = y /\ x' = x - 1) \/ (S x < w /\ y' = y /\ x' = S x)).
Proof.
  unfold nbr4. rewrite !in_app_iff.
  destruct (Nat.ltb_spec 0 y), (Nat.ltb_spec (S y) h), (Nat.ltb_spec 0 x), (Nat.ltb_spec (S x) w); simpl;
    split; intros H'; repeat (destruct H' as [H'|H']); try (inversion H'; subst); try tauto; try lia;
    repeat match goal with H : _ /\ _ |- _ => destruct H end; subst; auto 10; try lia.
Qed.

Lemma forallb_cells_swap (f : nat * nat -> bool) h w :
  forallb f (cells h w) = forallb (fun x => forallb (fun y => f (y, x)) (seq 0 h)) (seq 0 w).
Proof.
  apply eq_true_iff_eq. rewrite !forallb_forall. split.
  - intros H x Hx. apply forallb_forall. intros y Hy. apply H. apply cells_in. apply in_seq in Hx. apply in_seq in Hy. lia.
  - intros H [y x] Hc. apply cells_in in Hc. specialize (H x ltac:(apply in_seq; lia)).
    rewrite forallb_forall in H. apply H. apply in_seq. lia.
Qed.
Lemma forallb_cells_rows (f : nat * nat -> bool) h w :
  forallb f (cells h w) = forallb (fun y => forallb (fun x => f (y, x)) (seq 0 w)) (seq 0 h).
Proof. unfold cells. rewrite forallb_flat_map. apply forallb_ext_in. intros y _. apply forallb_map. Qed.

Section Sem.
  Variable gsem : op -> list (option value) -> option bool.
  Variables (en : env) (h w : nat) (room : list Z).
  Let hold := holds gsem en.
  Let lit (c : nat * nat) : bool := eb en (cidx w c).
  Let info (c : nat * nat) : Z * bool := (room_of room w c, lit c).

  Lemma hold_nand2 a b : hold (nand2 w a b) = negb (lit a && lit b).
  Proof. unfold hold, holds, nand2, bv, lit. simpl. destruct (eb en (cidx w a)), (eb en (cidx w b)); reflexivity. Qed.

  Lemma hold_or_cells cs : hold (BNode OR (map (bv w) cs)) = existsb lit cs.
  Proof.
    assert (Hb : forall e, In e (map (bv w) cs) -> isbool gsem en e).
    { intros e He. apply in_map_iff in He. destruct He as [c [<- _]]. apply isbool_var. }
    unfold hold. rewrite (holds_of_eval gsem en _ _ (eval_or gsem en _ Hb)).
    clear Hb. induction cs as [|c r IH]; simpl; [reflexivity|]. rewrite IH. f_equal. apply hold_var.
  Qed.

  Lemma window_sem : forall l acc r,
    match window room w r l acc with Some cs => existsb lit cs | None => true end =
    win r (map info l) (existsb lit acc).
  Proof.
    induction l as [|c rest IH]; intros acc r; [reflexivity|].
    cbn [window map win]. unfold info at 1. cbn [fst snd].
    destruct (room_of room w c =? r)%Z.
    - rewrite IH, existsb_app. simpl. rewrite orb_false_r. reflexivity.
    - rewrite existsb_app. simpl. rewrite orb_false_r. reflexivity.
  Qed.

  Lemma line_constraints_hold l :
    forallb hold (line_constraints room w l) = tails_forall border_cell (map info l).
  Proof.
    induction l as [|c rest IH]; [reflexivity|].
    cbn [line_constraints map tails_forall]. rewrite forallb_app, IH. f_equal.
    destruct rest as [|c' rest']; [reflexivity|].
    cbn [map border_cell]. unfold info at 1 2. cbn [fst snd].
    destruct (room_of room w c' =? room_of room w c)%Z; [reflexivity|].
    pose proof (window_sem rest' [c; c'] (room_of room w c')) as WS.
    cbn [existsb] in WS. rewrite orb_false_r in WS.
    etransitivity; [|exact WS].
    destruct (window room w (room_of room w c') rest' [c; c']) as [cs|]; [|reflexivity].
    cbn [forallb]. rewrite hold_or_cells. apply andb_true_r.
  Qed.
End Sem.

Lemma dims2h h w (rest : list (list Z)) :
  dim ([Z.of_nat h; Z.of_nat w] :: rest) 0 = h /\ dim ([Z.of_nat h; Z.of_nat w] :: rest) 1 = w.
Proof. unfold dim, zn, getz, sec; simpl. rewrite !Nat2Z.id. split; reflexivity. Qed.

(* the three local parts of the rules *)
Definition hey_nonadj (h w : nat) (ans : answer) : bool :=
  let black := fun y x => isb (at2 ans w y x) in
  forallb (fun '(y, x) => negb (black y x) || forallb (fun '(y', x') => negb (black y' x')) (nbr4 h w y x)) (cells h w).
Definition hey_clues (h w : nat) (room clue : list Z) (ans : answer) : bool :=
  let black := fun y x => isb (at2 ans w y x) in
  forallb (fun i => let c := getz clue i in
     (c <? 0)%Z || (zcount (fun '(y, x) => (at2 room w y x =? Z.of_nat i)%Z && black y x) (cells h w) =? c)%Z)
     (seq 0 (length clue)).
Definition hey_lines (h w : nat) (room : list Z) (ans : answer) : bool :=
  let black := fun y x => isb (at2 ans w y x) in
  let info := fun '(y, x) => (at2 room w y x, black y x) in
  forallb (fun '(y, x) =>
     black y x ||
     (Nat.ltb (borders_in_run (at2 room w y x) (map info (ray h w y x 0 1))) 2 &&
      Nat.ltb (borders_in_run (at2 room w y x) (map info (ray h w y x 1 0))) 2)) (cells h w).

Lemma rules_heyawake_split h w room clue ans :
  rules_heyawake [[Z.of_nat h; Z.of_nat w]; room; clue] ans =
  Nat.eqb (length ans) (h * w) && forallb is01 ans && hey_nonadj h w ans &&
  connected_b (board h w) (fun v => negb (isb (getz ans v))) &&
  (hey_clues h w room clue ans && hey_lines h w room ans).
Proof.
  unfold rules_heyawake, hey_nonadj, hey_clues, hey_lines, cells_connected.
  destruct (dims2h h w [room; clue]) as [-> ->].
  change (sec [[Z.of_nat h; Z.of_nat w]; room; clue] 1) with room.
  change (sec [[Z.of_nat h; Z.of_nat w]; room; clue] 2) with clue.
  match goal with |- ?a && ?b && ?c && ?d && ?e && ?f = _ => destruct a, b, c, d, e, f; reflexivity end.
Qed.

Section Core.
  Variable gsem : op -> list (option value) -> option bool.
  Variables (h w : nat) (room clue : list Z) (en : env).
  Let ans := map (fun i => b2z (eb en i)) (seq 0 (h * w)).
  Let lit (c : nat * nat) : bool := eb en (cidx w c).

  Lemma black_lit y x : y < h -> x < w -> isb (at2 ans w y x) = lit (y, x).
  Proof.
    intros Hy Hx. unfold at2, ans, lit. rewrite getz_map_seq by (apply (cidx_lt h w y x); assumption). apply b2z_isb.
  Qed.

  Lemma hey_nonadj_core : hey_nonadj h w ans = forallb (holds gsem en) (heyawake_not_adjacent h w).
  Proof.
    unfold hey_nonadj, heyawake_not_adjacent. rewrite forallb_app, !forallb_map.
    apply eq_true_iff_eq. rewrite andb_true_iff, !forallb_forall. split.
    - intros H. split; intros [y x] Hc; apply cells_in in Hc; rewrite hold_nand2; apply negb_true_iff;
        apply andb_false_iff.
      + destruct (eb en (cidx w (y, x))) eqn:E; [left|right; reflexivity].
        specialize (H (y, x) ltac:(apply cells_in; lia)). cbn beta iota in H.
        rewrite (black_lit y x) in H by lia. unfold lit in H. rewrite E in H. simpl in H.
        rewrite forallb_forall in H. specialize (H (S y, x) ltac:(apply nbr4_cases; right; left; lia)).
        cbn beta iota in H. rewrite (black_lit (S y) x) in H by lia. apply negb_true_iff in H. exact H.
      + destruct (eb en (cidx w (y, x))) eqn:E; [left|right; reflexivity].
        specialize (H (y, x) ltac:(apply cells_in; lia)). cbn beta iota in H.
        rewrite (black_lit y x) in H by lia. unfold lit in H. rewrite E in H. simpl in H.
        rewrite forallb_forall in H. specialize (H (y, S x) ltac:(apply nbr4_cases; right; right; right; lia)).
        cbn beta iota in H. rewrite (black_lit y (S x)) in H by lia. apply negb_true_iff in H. exact H.
    - intros [HV HH] [y x] Hc. apply cells_in in Hc. destruct Hc as [Hy Hx].
      rewrite (black_lit y x Hy Hx). destruct (lit (y, x)) eqn:E; [|reflexivity]. simpl.
      apply forallb_forall. intros [y' x'] Hn. pose proof (nbr4_in h w y x y' x' Hy Hx Hn) as [Hy' Hx'].
      rewrite (black_lit y' x' Hy' Hx'). apply negb_true_iff.
      apply nbr4_cases in Hn. destruct Hn as [[H0 [-> ->]]|[[H0 [-> ->]]|[[H0 [-> ->]]|[H0 [-> ->]]]]].
      + specialize (HV (y - 1, x) ltac:(apply cells_in; lia)). cbn beta iota in HV. rewrite hold_nand2 in HV.
        replace (S (y - 1)) with y in HV by lia. fold (lit (y, x)) in HV. rewrite E in HV. simpl in HV.
        apply negb_true_iff in HV. exact HV.
      + specialize (HV (y, x) ltac:(apply cells_in; lia)). cbn beta iota in HV. rewrite hold_nand2 in HV.
        fold (lit (y, x)) in HV. rewrite E, andb_true_r in HV. apply negb_true_iff in HV. exact HV.
      + specialize (HH (y, x - 1) ltac:(apply cells_in; lia)). cbn beta iota in HH. rewrite hold_nand2 in HH.
        replace (S (x - 1)) with x in HH by lia. fold (lit (y, x)) in HH. rewrite E in HH. simpl in HH.
        apply negb_true_iff in HH. exact HH.
      + specialize (HH (y, x) ltac:(apply cells_in; lia)). cbn beta iota in HH. rewrite hold_nand2 in HH.
        fold (lit (y, x)) in HH. rewrite E, andb_true_r in HH. apply negb_true_iff in HH. exact HH.
  Qed.

  Lemma hey_clues_core : hey_clues h w room clue ans = forallb (holds gsem en) (heyawake_clues h w room clue).
  Proof.
    unfold hey_clues, heyawake_clues. rewrite forallb_flat_map. apply forallb_ext_in. intros i _.
    destruct (Z.leb_spec 0 (getz clue i)); destruct (Z.ltb_spec (getz clue i) 0); try lia; simpl; [|reflexivity].
    rewrite andb_true_r. unfold holds. cbn [eval map]. rewrite eval_ct_vars_g. cbn.
    unfold zcount, region_cells. rewrite count_map, count_filter.
    rewrite (count_ext_in _ (fun x : nat * nat => (let '(y', x') := x in (at2 room w y' x' =? Z.of_nat i)%Z) && eb en (cidx w x)) (cells h w)).
    - destruct (Z.of_nat (count _ (cells h w)) =? getz clue i)%Z; reflexivity.
    - intros [y x] Hc. apply cells_in in Hc. rewrite (black_lit y x) by lia. reflexivity.
  Qed.

  Lemma hey_lines_core :
    hey_lines h w room ans =
    forallb (holds gsem en) (flat_map (fun x => line_constraints room w (column h x)) (seq 0 w) ++
                             flat_map (fun y => line_constraints room w (row w y)) (seq 0 h)).
  Proof.
    set (info := fun c : nat * nat => (room_of room w c, lit c)).
    rewrite forallb_app, !forallb_flat_map.
    rewrite (forallb_ext_in _ (fun x => tails_forall rule_cell (map info (column h x))) (seq 0 w))
      by (intros x _; rewrite (line_constraints_hold gsem en w room); symmetry; apply line_rule_forms).
    rewrite (forallb_ext_in _ (fun y => tails_forall rule_cell (map info (row w y))) (seq 0 h))
      by (intros y _; rewrite (line_constraints_hold gsem en w room); symmetry; apply line_rule_forms).
    unfold hey_lines.
    set (infoA := fun '(y, x) => (at2 room w y x, isb (at2 ans w y x))).
    assert (Hinfo : forall y x dy dx, map infoA (ray h w y x dy dx) = map info (ray h w y x dy dx)).
    { intros y x dy dx. apply map_ext_in. intros [y' x'] Hr. apply ray_in in Hr. simpl in Hr.
      unfold infoA, info, room_of. simpl. rewrite (black_lit y' x') by tauto. reflexivity. }
    rewrite (forallb_ext_in _ (fun c => rule_cell (info c) (map info (ray h w (fst c) (snd c) 0 1)) &&
                                       rule_cell (info c) (map info (ray h w (fst c) (snd c) 1 0))) (cells h w)).
    2:{ intros [y x] Hc. apply cells_in in Hc. rewrite !Hinfo. unfold rule_cell, info, room_of. cbn [fst snd].
        rewrite (black_lit y x) by tauto. destruct (lit (y, x)); reflexivity. }
    rewrite forallb_and, andb_comm. f_equal.
    - (* downwards: column by column *)
      rewrite forallb_cells_swap. apply forallb_ext_in. intros x Hx. apply in_seq in Hx.
      unfold column. rewrite tails_forall_map, tails_forall_map, tails_forall_seq.
      apply forallb_ext_in. intros y Hy. apply in_seq in Hy. cbn [fst snd].
      rewrite (ray_down h w y x) by lia. rewrite map_map. replace (0 + h - S y) with (h - S y) by lia.
      rewrite map_map. reflexivity.
    - (* to the right: row by row *)
      rewrite forallb_cells_rows. apply forallb_ext_in. intros y Hy. apply in_seq in Hy.
      unfold row. rewrite tails_forall_map, tails_forall_map, tails_forall_seq.
      apply forallb_ext_in. intros x Hx. apply in_seq in Hx. cbn [fst snd].
      rewrite (ray_right h w y x) by lia. rewrite map_map. replace (0 + w - S x) with (w - S x) by lia.
      rewrite map_map. reflexivity.
  Qed.
End Core.

Theorem heyawake_exact h w room clue st ans :
  solve_heyawake_model [[Z.of_nat h; Z.of_nat w]; room; clue] = Ok st ->
  ((exists en, model_of gsem_avc en st /\ reads st en (seq 0 (h * w)) = ans)
   <-> rules_heyawake [[Z.of_nat h; Z.of_nat w]; room; clue] ans = true).
Proof.
  unfold solve_heyawake_model. destruct (dims2h h w [room; clue]) as [-> ->].
  change (sec [[Z.of_nat h; Z.of_nat w]; room; clue] 1) with room.
  change (sec [[Z.of_nat h; Z.of_nat w]; room; clue] 2) with clue.
  set (acts := map (fun i => BNode NOT [BVar i]) (seq 0 (h * w))).
  destruct (post_avc (bool_grid_state (h * w) (heyawake_not_adjacent h w)) acts (grid_graph h w) false false)
    as [st1|e] eqn:Hp; [|discriminate].
  intros H. inversion H; subst st; clear H.
  rewrite rules_heyawake_split.
  apply (avc_grid_compose_gen h w (heyawake_not_adjacent h w) (heyawake_extra h w room clue) acts
           (fun a v => negb (isb (getz a v))) (hey_nonadj h w)
           (fun a => hey_clues h w room clue a && hey_lines h w room a) st1 ans Hp).
  - intros a Ha. unfold acts in Ha. apply in_map_iff in Ha. destruct Ha as [i [<- Hi]]. apply in_seq in Hi. simpl. lia.
  - intros a Ha. unfold heyawake_not_adjacent in Ha. apply in_app_iff in Ha.
    destruct Ha as [Ha|Ha]; apply in_map_iff in Ha; destruct Ha as [[y x] [<- Hc]]; apply cells_in in Hc;
      unfold nand2, bv, cidx; simpl.
    + assert (S y * w + x < h * w) by (apply (cidx_lt h w (S y) x); lia).
      assert (y * w + x < h * w) by (apply (cidx_lt h w y x); lia). simpl in *. lia.
    + assert (y * w + S x < h * w) by (apply (cidx_lt h w y (S x)); lia).
      assert (y * w + x < h * w) by (apply (cidx_lt h w y x); lia). lia.
  - intros en a Ha. unfold acts in Ha. apply in_map_iff in Ha. destruct Ha as [i [<- _]]. eexists. reflexivity.
  - intros en v Hv. unfold pattern, acts.
    rewrite nth_indep with (d' := BNode NOT [BVar 0]) by (rewrite map_length, seq_length; exact Hv).
    rewrite (map_nth (fun i => BNode NOT [BVar i])), seq_nth by exact Hv. simpl Nat.add.
    rewrite getz_map_seq by exact Hv. rewrite b2z_isb.
    unfold holds. simpl. destruct (eb en v); reflexivity.
  - intros en. apply hey_nonadj_core.
  - intros en. unfold heyawake_extra. rewrite forallb_app.
    rewrite (hey_clues_core gsem_avc h w room clue en), (hey_lines_core gsem_avc h w room en). reflexivity.
Qed.

Example heyawake_model_ok :
  exists st, solve_heyawake_model [[2; 3]; [0; 1; 2; 0; 2; 2]; [1; -1; 0]]%Z = Ok st.
Proof. vm_compute. eexists. reflexivity. Qed.
