(* C11: the program of solve_akari is well formed on every board; composition with C02 (solve_reports). *)
From Coq Require Import ZArith List Bool Arith Lia.
From Cspuz Require Import Lib.PyErr Core.Expr Core.Program Backend.Z3 Backend.Z3Oracle Backend.Z3SolveProofs
     Backend.SolveLoop Backend.SolveZ3Proofs
     Puzzle.PuzzleBase Puzzle.ModelBase Puzzle.ModelLemmas Puzzle.SatAbs Puzzle.SolveCompose Puzzle.WfLemmas
     Puzzle.Rules_akari Puzzle.Akari Puzzle.AkariLemmas Puzzle.AkariProofs.
Import ListNotations.
Local Open Scope nat_scope.

Definition inside (h w : nat) (l : list (nat * nat)) : Prop := forall c, In c l -> fst c < h /\ snd c < w.

Lemma ok_ct_inside h w l : inside h w l -> ok (repeat DBool (h * w)) false (ct_vars (map (cidx w) l)) = true.
Proof.
  intros H. apply ok_ct_vars_lt. intros k Hk. apply in_map_iff in Hk. destruct Hk as [[y x] [<- Hc]].
  apply H in Hc. simpl in Hc. apply ok_cell; tauto.
Qed.

Lemma inside_take_while h w f l : inside h w l -> inside h w (take_while f l).
Proof. intros H c Hc. apply H. eapply take_while_incl. exact Hc. Qed.
Lemma inside_filter h w f l : inside h w l -> inside h w (filter f l).
Proof. intros H c Hc. apply H. apply filter_In in Hc. tauto. Qed.
Lemma inside_nbr4 h w y x : y < h -> x < w -> inside h w (nbr4 h w y x).
Proof. intros Hy Hx [y' x'] Hc. simpl. eapply nbr4_in; eauto. Qed.
Lemma inside_ray h w y x dy dx : inside h w (ray h w y x dy dx).
Proof. intros c Hc. eapply ray_in. exact Hc. Qed.

Lemma run_constraints_ok h w grid : forall line prev, inside h w line ->
  forallb (ok (repeat DBool (h * w)) true) (run_constraints grid w prev line) = true.
Proof.
  induction line as [|c r IH]; intros prev Hin; [reflexivity|].
  cbn [run_constraints]. rewrite forallb_app. apply andb_true_intro. split.
  - destruct (akari_white grid w c && negb prev); [|reflexivity].
    autorewrite with okdb. apply ok_ct_inside. apply inside_take_while. exact Hin.
  - apply IH. intros c' Hc'. apply Hin. right. exact Hc'.
Qed.

Lemma inside_column h w x : x < w -> inside h w (column h x).
Proof. intros Hx c Hc. unfold column in Hc. apply in_map_iff in Hc. destruct Hc as [y [<- Hy]]. apply in_seq in Hy. simpl. lia. Qed.
Lemma inside_row h w y : y < h -> inside h w (row w y).
Proof. intros Hy c Hc. unfold row in Hc. apply in_map_iff in Hc. destruct Hc as [x [<- Hx]]. apply in_seq in Hx. simpl. lia. Qed.

Lemma inside_seen h w grid y x : inside h w (akari_seen h w grid y x).
Proof.
  intros c Hc. unfold akari_seen in Hc. apply in_flat_map in Hc. destruct Hc as [[dy dx] [_ Hc]].
  apply take_while_incl in Hc. eapply ray_in. exact Hc.
Qed.

Lemma akari_cell_ok h w grid y x : y < h -> x < w ->
  forallb (ok (repeat DBool (h * w)) true) (akari_cell h w grid (y, x)) = true.
Proof.
  intros Hy Hx. unfold akari_cell. destruct (akari_white grid w (y, x)).
  - autorewrite with okdb. rewrite forallb_map. apply forallb_In. intros [y' x'] Hc.
    destruct Hc as [Hc|Hc]; [inversion Hc; subst; apply ok_cell; assumption|].
    apply inside_seen in Hc. simpl in Hc. apply ok_cell; tauto.
  - cbn [forallb]. rewrite ok_not, ok_cell by assumption. simpl.
    destruct (0 <=? at2 grid w y x)%Z; [|reflexivity].
    autorewrite with okdb. apply ok_ct_inside. apply inside_filter. apply inside_nbr4; assumption.
Qed.

Lemma akari_constraints_ok h w grid :
  forallb (ok (repeat DBool (h * w)) true) (akari_constraints h w grid) = true.
Proof.
  unfold akari_constraints. rewrite !forallb_app, !forallb_flat_map.
  repeat (apply andb_true_intro; split).
  - apply forallb_seq. intros x Hx. apply run_constraints_ok. apply inside_column. lia.
  - apply forallb_seq. intros y Hy. apply run_constraints_ok. apply inside_row. lia.
  - apply forallb_cells. intros y x Hy Hx. apply akari_cell_ok; assumption.
Qed.

Lemma akari_model_wf pb st : solve_akari_model pb = Ok st -> wf_state st /\ wf_keys st.
Proof.
  unfold solve_akari_model. intros H. inversion H; subst st; clear H.
  apply wf_bool_grid_state. apply akari_constraints_ok.
Qed.

Theorem akari_solve_reports : forall oracle, oracle_sound_on oracle -> oracle_complete_on oracle ->
  forall h w grid st,
  solve_akari_model [[Z.of_nat h; Z.of_nat w]; grid] = Ok st ->
  solve_reports oracle st (seq 0 (h * w)) (rules_akari [[Z.of_nat h; Z.of_nat w]; grid]).
Proof.
  intros oracle Os Oc h w grid st Hst.
  apply (solve_reports_intro oracle no_graph); try assumption.
  - exact (akari_model_wf _ _ Hst).
  - unfold solve_akari_model in Hst. rewrite dim2_0, dim2_1 in Hst. inversion Hst; subst st. simpl.
    apply repeat_keys.
  - intros ans. exact (akari_exact h w grid st ans Hst).
Qed.
