(* C07: the graph minus the border edges - its components as a partition *)
From Coq Require Import ZArith List Bool Arith Lia.
From Cspuz Require Import Core.Expr Graph.GraphModel Graph.ReachProofs Graph.VarGroups
  Graph.VarGroupsSound.
Import ListNotations.
Open Scope nat_scope.

(* least element of a list, with a default *)
Lemma fold_min_spec d l :
  let m := fold_right Nat.min d l in
  (m = d \/ In m l) /\ m <= d /\ forall x, In x l -> m <= x.
Proof.
  induction l as [|a l IH]; simpl.
  - split; [left; reflexivity|]. split; [lia|intros x []].
  - destruct IH as [H1 [H2 H3]]. set (m := fold_right Nat.min d l) in *.
    split; [|split].
    + destruct (Nat.min_spec a m) as [[_ ->]|[_ ->]]; [right; left; reflexivity|].
      destruct H1 as [H1|H1]; [left; exact H1|right; right; exact H1].
    + lia.
    + intros x [->|Hx]; [lia|]. specialize (H3 x Hx). lia.
Qed.

Lemma filter_seq_nodup (p : nat -> bool) n : NoDup (filter p (seq 0 n)).
Proof. apply NoDup_filter. apply seq_NoDup. Qed.

Lemma same_elements_length (l1 l2 : list nat) :
  NoDup l1 -> NoDup l2 -> (forall x, In x l1 <-> In x l2) -> length l1 = length l2.
Proof.
  intros H1 H2 H. apply Nat.le_antisymm; apply NoDup_incl_length; try assumption; intros x Hx; apply H; exact Hx.
Qed.

Lemma nbrs_mono_ex g eok eok' v w :
  (forall k a b, nth_error (edges g) k = Some (a, b) -> eok k = true -> eok' k = true) ->
  In w (nbrs g eok v) -> In w (nbrs g eok' v).
Proof.
  intros H. rewrite !nbrs_spec. intros [k [Hk He]]. exists k. split; [|exact He].
  destruct He as [He|He]; eapply H; eassumption.
Qed.

Lemma reach_weaken g vok vok' eok eok' u v :
  (forall x, vok x = true -> vok' x = true) ->
  (forall k a b, nth_error (edges g) k = Some (a, b) -> eok k = true -> eok' k = true) ->
  reach g vok eok u v -> reach g vok' eok' u v.
Proof.
  intros Hv He R. induction R.
  - apply reach_refl. apply Hv; assumption.
  - eapply reach_step; [eassumption| |apply Hv; assumption]. eapply nbrs_mono_ex; eassumption.
Qed.

Section Cut.
  Variable g : graph.
  Variable bd : nat -> bool.
  Hypothesis Hwf : wf_graph g = true.
  Let n := nv g.

  Lemma same_cut_refl v : same_cut g bd v v.
  Proof. apply reach_refl. reflexivity. Qed.
  Lemma same_cut_sym u v : same_cut g bd u v -> same_cut g bd v u.
  Proof. apply reach_sym. Qed.
  Lemma same_cut_trans u v w : same_cut g bd u v -> same_cut g bd v w -> same_cut g bd u w.
  Proof. apply reach_trans. Qed.

  Lemma cut_component_spec v w : v < n -> (In w (cut_component g bd v) <-> same_cut g bd v w).
  Proof. intros Hv. apply component_spec; assumption. Qed.

  Lemma cut_component_is_block v : v < n -> is_cut_block g bd v (cut_component g bd v).
  Proof.
    intros Hv. split; [apply component_nodup|]. intros w. rewrite (cut_component_spec v w Hv).
    split; [|tauto]. intros H. split; [|exact H]. eapply reach_lt; eassumption.
  Qed.

  (* the label "least vertex of my component" *)
  Lemma cut_label_in v : v < n -> same_cut g bd v (cut_label g bd v).
  Proof.
    intros Hv. unfold cut_label. destruct (fold_min_spec v (cut_component g bd v)) as [[H|H] _].
    - rewrite H. apply same_cut_refl.
    - apply cut_component_spec; assumption.
  Qed.

  Lemma cut_label_least v w : v < n -> same_cut g bd v w -> cut_label g bd v <= w.
  Proof.
    intros Hv H. unfold cut_label. destruct (fold_min_spec v (cut_component g bd v)) as [_ [_ H3]].
    apply H3. apply cut_component_spec; assumption.
  Qed.

  Lemma cut_label_iff u v : u < n -> v < n ->
    (cut_label g bd u = cut_label g bd v <-> same_cut g bd u v).
  Proof.
    intros Hu Hv. split.
    - intros H. apply same_cut_trans with (cut_label g bd u); [apply cut_label_in; exact Hu|].
      rewrite H. apply same_cut_sym. apply cut_label_in; exact Hv.
    - intros H. apply Nat.le_antisymm.
      + apply cut_label_least; [exact Hu|]. apply same_cut_trans with v; [exact H|apply cut_label_in; exact Hv].
      + apply cut_label_least; [exact Hv|]. apply same_cut_trans with u; [apply same_cut_sym; exact H|apply cut_label_in; exact Hu].
  Qed.

  Lemma cut_same_block u v : u < n -> v < n ->
    same_block (cut_label g bd) u v = true <-> same_cut g bd u v.
  Proof. intros Hu Hv. unfold same_block. rewrite Nat.eqb_eq. apply cut_label_iff; assumption. Qed.

  (* a walk in the cut graph stays inside the block of its start *)
  Lemma cut_reach_in_block a b : a < n -> same_cut g bd a b ->
    reach g (same_block (cut_label g bd) a) all_edges_ok a b.
  Proof.
    intros Ha R. unfold same_cut in R.
    induction R as [v _|u v w Ruv IH Hn _].
    - apply reach_refl. unfold same_block. apply Nat.eqb_refl.
    - specialize (IH Ha). eapply reach_step; [exact IH| |].
      + eapply nbrs_mono; [|exact Hn]. reflexivity.
      + assert (Hv : v < n) by (eapply reach_lt; eassumption).
        assert (Hw : w < n) by (apply (nbrs_lt g _ v w Hwf Hn)).
        apply cut_same_block; [exact Ha|exact Hw|].
        apply same_cut_trans with v; [exact Ruv|].
        eapply reach_step; [apply reach_refl; reflexivity|exact Hn|reflexivity].
  Qed.

  Lemma cut_blocks_connected v : v < n -> connected g (same_block (cut_label g bd) v).
  Proof.
    intros Hv a b Ha Hb Hva Hvb.
    apply (cut_same_block v a Hv Ha) in Hva. apply (cut_same_block v b Hv Hb) in Hvb.
    assert (Hab : same_cut g bd a b) by (apply same_cut_trans with v; [apply same_cut_sym|]; assumption).
    pose proof (cut_reach_in_block a b Ha Hab) as R.
    eapply reach_ext_lt; [exact Hwf|exact Ha| |exact R].
    intros x Hx. unfold same_block.
    assert (He : cut_label g bd a = cut_label g bd v) by (apply cut_label_iff; [exact Ha|exact Hv|apply same_cut_sym; exact Hva]).
    rewrite He. reflexivity.
  Qed.

  Lemma cut_block_size v : v < n ->
    block_size n (cut_label g bd) v = zn (length (cut_component g bd v)).
  Proof.
    intros Hv. unfold block_size, bcount. f_equal.
    apply same_elements_length; [apply filter_seq_nodup|apply component_nodup|].
    intros w. rewrite filter_In, in_seq, (cut_component_spec v w Hv). split.
    - intros [Hw Hb]. apply (cut_same_block v w Hv); [unfold n; lia|exact Hb].
    - intros R. assert (Hw : w < n) by (eapply reach_lt; eassumption).
      split; [unfold n in Hw; lia|]. apply (cut_same_block v w Hv Hw). exact R.
  Qed.

  (* border_exact gives a realisable partition: the components of the cut graph *)
  Theorem border_exact_realisable sizes :
    border_exact g bd sizes -> realisable g (cut_label g bd) sizes.
  Proof.
    intros [Hs _]. split.
    - intros v Hv. apply cut_blocks_connected; exact Hv.
    - intros v s Hv Hsv. fold n. rewrite (cut_block_size v Hv).
      apply (Hs v s (cut_component g bd v) Hv Hsv). apply cut_component_is_block; exact Hv.
  Qed.
End Cut.
