(* C11 Tier 1 - yinyang: the planarity statement (YinyangAux.v::yinyang_aux_implied_statement) checked by kernel
   computation on every board with both sides >= 2 and at most 16 cells (2x2 .. 2x8, 3x5, 4x4, ..., both
   orientations) and on every board with at most 12 cells (single rows and columns included), every 0/1 grid.
   BOUNDED supporting evidence, independent of the general proof in YinyangPlanar.v. *)
From Coq Require Import ZArith List Bool Arith Lia.
From Cspuz Require Import Graph.GraphModel Puzzle.PuzzleBase Puzzle.Rules_yinyang Puzzle.Yinyang Puzzle.YinyangAux.
Import ListNotations.
Local Open Scope nat_scope.

Fixpoint yy_all_bools (n : nat) : list answer :=
  match n with
  | O => [[]]
  | S k => flat_map (fun a => [0%Z :: a; 1%Z :: a]) (yy_all_bools k)
  end.

Lemma yy_all_bools_in n : forall ans, length ans = n -> forallb is01 ans = true -> In ans (yy_all_bools n).
Proof.
  induction n as [|n IH]; intros ans Hl H01.
  - destruct ans; [left; reflexivity|discriminate].
  - destruct ans as [|z r]; [discriminate|]. simpl in Hl, H01. apply andb_true_iff in H01. destruct H01 as [Hz Hr].
    cbn [yy_all_bools]. apply in_flat_map. exists r. split; [apply IH; [lia|exact Hr]|].
    unfold is01 in Hz. apply orb_true_iff in Hz. destruct Hz as [Hz|Hz]; apply Z.eqb_eq in Hz; subst z; simpl; auto.
Qed.

(* the rule checks, cheapest first; vm_compute is call-by-value, so the conditionals (not &&) matter *)
Definition yy_check (h w : nat) : bool :=
  forallb (fun ans =>
     let black := fun v => isb (getz ans v) in
     if yy_aux h w ans then true
     else if has_2x2 h w (fun y x => black (y * w + x)) then true
     else if has_2x2 h w (fun y x => negb (black (y * w + x))) then true
     else if cells_connected h w black then negb (cells_connected h w (fun v => negb (black v))) else true)
          (yy_all_bools (h * w)).

(* boards with both sides >= lo and at most K cells *)
Definition yy_check_upto (lo K : nat) : bool :=
  forallb (fun h => forallb (fun w => if Nat.leb (h * w) K then yy_check h w else true) (seq lo K)) (seq lo K).

Lemma yy_check_wide_16 : yy_check_upto 2 16 = true.
Proof. vm_compute. reflexivity. Qed.
Lemma yy_check_all_12 : yy_check_upto 1 12 = true.
Proof. vm_compute. reflexivity. Qed.

Lemma yy_rules_shape h w given ans :
  rules_yinyang [[Z.of_nat h; Z.of_nat w]; given] ans = true -> length ans = h * w /\ forallb is01 ans = true.
Proof.
  unfold rules_yinyang.
  assert (D0 : dim [[Z.of_nat h; Z.of_nat w]; given] 0 = h) by (unfold dim, zn, getz, sec; simpl; apply Nat2Z.id).
  assert (D1 : dim [[Z.of_nat h; Z.of_nat w]; given] 1 = w) by (unfold dim, zn, getz, sec; simpl; apply Nat2Z.id).
  rewrite D0, D1. cbv zeta. rewrite !andb_true_iff.
  intros [[[[[[H1 H2] _] _] _] _] _]. apply Nat.eqb_eq in H1. split; assumption.
Qed.

Lemma yy_rules_parts h w given ans :
  rules_yinyang [[Z.of_nat h; Z.of_nat w]; given] ans = true ->
  cells_connected h w (fun v => isb (getz ans v)) = true /\
  cells_connected h w (fun v => negb (isb (getz ans v))) = true /\
  has_2x2 h w (fun y x => isb (getz ans (y * w + x))) = false /\
  has_2x2 h w (fun y x => negb (isb (getz ans (y * w + x)))) = false.
Proof.
  unfold rules_yinyang.
  assert (D0 : dim [[Z.of_nat h; Z.of_nat w]; given] 0 = h) by (unfold dim, zn, getz, sec; simpl; apply Nat2Z.id).
  assert (D1 : dim [[Z.of_nat h; Z.of_nat w]; given] 1 = w) by (unfold dim, zn, getz, sec; simpl; apply Nat2Z.id).
  rewrite D0, D1. cbv zeta. rewrite !andb_true_iff, !negb_true_iff. tauto.
Qed.

Lemma yy_check_use lo K h w given ans :
  yy_check_upto lo K = true -> lo <= h -> lo <= w -> 1 <= lo -> h * w <= K ->
  rules_yinyang [[Z.of_nat h; Z.of_nat w]; given] ans = true -> yy_aux h w ans = true.
Proof.
  intros Hc Hh Hw Hlo Hn Hr. unfold yy_check_upto in Hc. rewrite forallb_forall in Hc.
  specialize (Hc h ltac:(apply in_seq; nia)). rewrite forallb_forall in Hc.
  specialize (Hc w ltac:(apply in_seq; nia)).
  destruct (Nat.leb_spec (h * w) K) as [_|L]; [|lia].
  unfold yy_check in Hc. rewrite forallb_forall in Hc.
  destruct (yy_rules_shape h w given ans Hr) as [Hl H01].
  specialize (Hc ans (yy_all_bools_in (h * w) ans Hl H01)). cbv zeta in Hc.
  destruct (yy_rules_parts h w given ans Hr) as [C1 [C2 [N1 N2]]].
  destruct (yy_aux h w ans); [reflexivity|]. rewrite N1, N2, C1, C2 in Hc. discriminate.
Qed.

(* BOUNDED: the published rules imply the auxiliary constraints on every board with both sides >= 2 and at most
   16 cells ... *)
Theorem yinyang_aux_implied_bounded_16 : forall h w given ans,
  2 <= h -> 2 <= w -> h * w <= 16 ->
  rules_yinyang [[Z.of_nat h; Z.of_nat w]; given] ans = true -> yy_aux h w ans = true.
Proof. intros h w given ans Hh Hw Hn. apply (yy_check_use 2 16); [exact yy_check_wide_16|lia..]. Qed.

(* ... and on every board (single rows and columns included) with at most 12 cells *)
Theorem yinyang_aux_implied_bounded_12 : forall h w given ans,
  1 <= h -> 1 <= w -> h * w <= 12 ->
  rules_yinyang [[Z.of_nat h; Z.of_nat w]; given] ans = true -> yy_aux h w ans = true.
Proof. intros h w given ans Hh Hw Hn. apply (yy_check_use 1 12); [exact yy_check_all_12|lia..]. Qed.
