(* C12 — proofs about Array/Elementwise.v: _elementwise is pointwise. *)
From Coq Require Import ZArith List Bool Lia.
From Cspuz Require Import Lib.PyErr Core.Expr Core.Build Array.Elementwise Array.ArraySpec.
Import ListNotations.
Open Scope Z_scope.

(* ---------------------------------------------------------------- mapM facts *)

Lemma mapM_nth_error {A B} (f : A -> res B) l r :
  mapM f l = Ok r ->
  forall i x, nth_error l i = Some x -> exists y, f x = Ok y /\ nth_error r i = Some y.
Proof.
  revert r; induction l as [|a l IH]; simpl; intros r H i x Hx.
  - destruct i; discriminate.
  - destruct (f a) as [b|] eqn:Fa; simpl in H; try discriminate.
    destruct (mapM f l) as [bs|] eqn:M; simpl in H; try discriminate.
    inversion H; subst r. destruct i as [|i]; simpl in *.
    + inversion Hx; subst. eauto.
    + eapply IH; eauto.
Qed.

Lemma mapM_err_from {A B} (f : A -> res B) l e :
  mapM f l = Err e -> exists x, In x l /\ f x = Err e.
Proof.
  induction l as [|a l IH]; simpl; intros H; try discriminate.
  destruct (f a) as [b|e'] eqn:Fa; simpl in H.
  - destruct (mapM f l) as [bs|e''] eqn:M; simpl in H; try discriminate.
    inversion H; subst. destruct (IH eq_refl) as [x [Hi Hx]]. exists x; auto.
  - inversion H; subst. exists a; auto.
Qed.

(* ------------------------------------------------- one node = one operator *)

Definition eval_node (o : op) (vs : list (option value)) : option value :=
  if is_bool_op o then eval_bop no_graph o vs else eval_iop o vs.

Lemma eval_mk_node en o args :
  eval no_graph en (mk_node o args) = eval_node o (map (eval no_graph en) args).
Proof. unfold mk_node, eval_node; destruct (is_bool_op o); reflexivity. Qed.

Lemma all_some_all_ints l :
  match all_some l with
  | Some vs => as_ints vs = all_ints l
  | None => all_ints l = None
  end.
Proof.
  induction l as [|[[b|z]|] l IH]; simpl; auto.
  - destruct (all_some l); simpl; auto.
  - destruct (all_some l); simpl.
    + rewrite IH; destruct (all_ints l); reflexivity.
    + rewrite IH; reflexivity.
Qed.

Lemma eval_node_op_sem o vs :
  arity_ok o (length vs) = true -> eval_node o vs = op_sem o vs.
Proof.
  intros Har.
  destruct o; simpl in Har; try discriminate;
  try (destruct vs as [|a [|b [|c vs]]]; simpl in Har; try discriminate;
       destruct a as [[x|x]|]; destruct b as [[y|y]|];
       cbn; rewrite ?andb_true_r, ?orb_false_r, ?Z.add_0_r, ?Z.geb_leb, ?Z.gtb_ltb; reflexivity);
  try (destruct vs as [|a [|b vs]]; simpl in Har; try discriminate;
       destruct a as [[x|x]|]; cbn; reflexivity).
  - (* IF *)
    destruct vs as [|a [|b [|c [|d vs]]]]; simpl in Har; try discriminate.
    destruct a as [[x|x]|]; destruct b as [[y|y]|]; destruct c as [[z|z]|]; cbn; reflexivity.
  - (* ALLDIFF *)
    unfold eval_node; simpl. unfold op_sem.
    pose proof (all_some_all_ints vs) as H.
    destruct (all_some vs); [rewrite H|rewrite H]; reflexivity.
Qed.
