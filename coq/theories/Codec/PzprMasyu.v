(* The independent pzpr decoder decodeCircle (Codec/Pzpr.v) reads the text of
   Grid (MultiDigit 3 3) -- masyu's codec -- back as the same cells, for every board. *)
From Coq Require Import ZArith List Ascii Bool NArith Lia.
From Cspuz Require Import Lib.PyErr Codec.Comb Codec.CombWf Codec.CombBasics Codec.CombLeaf Codec.CombRoundTrip
  Codec.Legacy Codec.LegacyProofs Codec.LegacyEq Codec.Pzpr Codec.PzprProofs.
Import ListNotations.
Local Open Scope Z_scope.

(* a masyu cell: 0 nothing, 1 white circle, 2 black circle *)
Definition masyu_cell_ok (v : Z) : Prop := 0 <= v <= 2.

(* MultiDigit.serialize's accumulation for base 3 *)
Fixpoint horner3 (d : nat) (bs : list Z) (acc : Z) : Z :=
  match d with
  | O => acc
  | S d' => match bs with
            | [] => horner3 d' [] (acc * 3)
            | b :: t => horner3 d' t (acc * 3 + b)
            end
  end.

(* the value of the next (at most three) cells, missing cells counting as 0 *)
Definition val3 (l : list Z) : Z := horner3 3 l 0.

Lemma md_loop_tern d : forall bs acc, Forall masyu_cell_ok bs ->
  md_ser_loop 3 d (map VInt bs) acc = Ok (Some (horner3 d bs acc)).
Proof.
  induction d as [|d IH]; intros bs acc Hb; cbn [md_ser_loop horner3]; [reflexivity|].
  destruct bs as [|b t]; cbn [map].
  - apply (IH [] (acc * 3)). constructor.
  - inversion Hb as [|? ? Hb0 Ht]; subst. unfold masyu_cell_ok in Hb0.
    destruct (Z.leb_spec 0 b); [|lia]. destruct (Z.ltb_spec b 3); [|lia]. cbn [andb].
    apply IH. exact Ht.
Qed.

Lemma val3_range l : Forall masyu_cell_ok l -> 0 <= val3 l < 27.
Proof.
  intros Hl. unfold val3.
  destruct l as [|a [|b [|c t]]];
    repeat match goal with
           | H : Forall masyu_cell_ok (_ :: _) |- _ => inversion H; clear H; subst
           end; unfold masyu_cell_ok in *; cbn [horner3]; lia.
Qed.

(* the pure text of the cells *)
Fixpoint ctext (fuel : nat) (l : list Z) : str :=
  match fuel with
  | O => []
  | S f => match l with
           | [] => []
           | _ => base36_char (val3 l) :: ctext f (skipn 3 l)
           end
  end.

(* ------------------------------------------------------------------ the serializer writes ctext *)
Lemma md_ser_tern env F nr : Forall masyu_cell_ok F -> (nr < length F)%nat ->
  ser env (MultiDigit 3 3) (VList (map VInt F)) nr
  = Ok (Some (Nat.min (length F - nr) 3, [base36_char (val3 (skipn nr F))])).
Proof.
  intros Hb Hlt. cbn [ser]. unfold md_ser, with_item. cbn [py_items]. rewrite map_length.
  destruct (Nat.eqb_spec nr (length F)); [lia|].
  unfold nth_res. destruct (nth_error (map VInt F) nr) eqn:En;
    [|apply nth_error_None in En; rewrite map_length in En; lia].
  rewrite skipn_map_int. rewrite md_loop_tern by (apply Forall_skipn; exact Hb).
  fold (val3 (skipn nr F)).
  pose proof (val3_range (skipn nr F) (Forall_skipn masyu_cell_ok nr F Hb)) as Hr.
  rewrite to_base36_small by lia. reflexivity.
Qed.

Lemma ctext_skipn_step fuel F nr : (nr < length F)%nat ->
  ctext (S fuel) (skipn nr F) =
  base36_char (val3 (skipn nr F)) :: ctext fuel (skipn (nr + Nat.min (length F - nr) 3) F).
Proof.
  intros Hlt. cbn [ctext]. destruct (skipn nr F) as [|b t] eqn:E.
  - apply (f_equal (@length Z)) in E. rewrite skipn_length in E. simpl in E. lia.
  - rewrite <- E. f_equal. rewrite skipn_skipn'.
    destruct (Nat.min_spec (length F - nr) 3) as [[Hm ->]|[Hm ->]]; [|reflexivity].
    replace (nr + (length F - nr))%nat with (length F) by lia.
    rewrite skipn_all. rewrite (skipn_all2 F) by lia. reflexivity.
Qed.

Lemma seq_loop_tern env F : Forall masyu_cell_ok F -> forall fuel nr ret,
  (nr <= length F)%nat -> (length F - nr <= fuel)%nat ->
  seq_ser_loop (ser env (MultiDigit 3 3)) (Z.of_nat (length F)) (VList (map VInt F)) fuel nr ret
  = Ok (Some (ret ++ ctext fuel (skipn nr F))).
Proof.
  intros Hb. induction fuel as [|fuel IH]; intros nr ret Hnr Hfuel.
  - assert (nr = length F) by lia. subst nr. cbn [seq_ser_loop ctext].
    destruct (Z.ltb_spec (Z.of_nat (length F)) (Z.of_nat (length F))); [lia|].
    rewrite Z.eqb_refl. rewrite app_nil_r. reflexivity.
  - cbn [seq_ser_loop]. destruct (Z.ltb_spec (Z.of_nat nr) (Z.of_nat (length F))).
    + rewrite md_ser_tern by (auto; lia).
      pose proof (Nat.le_min_l (length F - nr) 3) as Hm1. pose proof (Nat.le_min_r (length F - nr) 3) as Hm2.
      destruct (Nat.min (length F - nr) 3) as [|m] eqn:Em;
        [destruct (Nat.min_spec (length F - nr) 3) as [[? E0]|[? E0]]; rewrite Em in E0; lia|].
      assert (Hrem : (length F - (nr + S m) <= fuel)%nat).
      { destruct (Nat.min_spec (length F - nr) 3) as [[? E0]|[? E0]]; rewrite Em in E0; lia. }
      rewrite IH by lia. rewrite ctext_skipn_step by lia. rewrite Em.
      rewrite <- app_assoc. reflexivity.
    + assert (nr = length F) by lia. subst nr. rewrite Z.eqb_refl.
      rewrite skipn_all. cbn [ctext]. rewrite app_nil_r. reflexivity.
Qed.

Lemma masyu_seq_text env F : Forall masyu_cell_ok F ->
  ser env (Seq (MultiDigit 3 3) (Z.of_nat (length F))) (VList [VList (map VInt F)]) 0
    = Ok (Some (1%nat, ctext (length F) F)).
Proof.
  intros Hb.
  change (ser env (Seq (MultiDigit 3 3) (Z.of_nat (length F))) (VList [VList (map VInt F)]) 0)
    with (seq_ser (ser env (MultiDigit 3 3)) (Z.of_nat (length F)) (VList [VList (map VInt F)]) 0).
  unfold seq_ser. cbn [py_items length Nat.eqb nth_res nth_error].
  rewrite Nat2Z.id. rewrite (seq_loop_tern env F Hb (length F) 0 []) by lia. reflexivity.
Qed.

Lemma concat_rect_length {A} (w : nat) (rows : list (list A)) : Forall (fun r => length r = w) rows ->
  length (concat rows) = (length rows * w)%nat.
Proof.
  induction 1 as [|r rows Hr _ IH]; simpl; [reflexivity|]. rewrite app_length, IH, Hr. reflexivity.
Qed.

Theorem masyu_grid_text rows w : rows <> [] ->
  Forall (fun r => length r = w) rows -> Forall (Forall masyu_cell_ok) rows ->
  serialize_problem (Grid (MultiDigit 3 3%nat) None) (VList (int_rows rows)) (Z.of_nat (length rows)) (Z.of_nat w)
  = Ok (ctext (length (concat rows)) (concat rows)).
Proof.
  intros Hne Hw Hall.
  assert (Hcells : Forall masyu_cell_ok (concat rows)) by (apply Forall_concat; exact Hall).
  pose proof (masyu_seq_text (mk_env (Z.of_nat (length rows)) (Z.of_nat w)) (concat rows) Hcells) as H2.
  unfold serialize_problem. cbn [ser]. unfold grid_ser.
  cbn [py_items length Nat.eqb nth_res nth_error grid_dims height width mk_env].
  rewrite Nat2Z.id.
  pose proof (flatten_int_rows rows 0 [] eq_refl) as Hf. cbn [app] in Hf. rewrite Hf.
  assert (Hlen : Z.of_nat (length rows) * Z.of_nat w = Z.of_nat (length (concat rows))).
  { rewrite (concat_rect_length w rows Hw). lia. }
  rewrite Hlen. cbn [ser] in H2. rewrite H2. reflexivity.
Qed.

(* ------------------------------------------------------------------ decodeCircle reads ctext *)
Lemma digit27_base36 v : 0 <= v < 27 -> digit_in 27 (base36_char v) = Some v.
Proof.
  intros H.
  assert (A : forallb (fun v => match digit_in 27 (base36_char v) with Some u => u =? v | None => false end)
                      (map Z.of_nat (seq 0 27)) = true) by (vm_compute; reflexivity).
  rewrite forallb_forall in A. specialize (A v).
  assert (Hin : In v (map Z.of_nat (seq 0 27))).
  { replace v with (Z.of_nat (Z.to_nat v)) by lia. apply in_map. apply in_seq. lia. }
  specialize (A Hin). destruct (digit_in 27 (base36_char v)); [|discriminate].
  apply Z.eqb_eq in A. subst. reflexivity.
Qed.

Lemma tern_cases a : masyu_cell_ok a -> a = 0 \/ a = 1 \/ a = 2.
Proof. unfold masyu_cell_ok. lia. Qed.

(* the three base-3 digits of a character are the next cells, zero-padded *)
Lemma val3_digits l : Forall masyu_cell_ok l ->
  [(val3 l / 9) mod 3; (val3 l / 3) mod 3; val3 l mod 3] = firstn 3 (l ++ [0; 0; 0]).
Proof.
  intros Hl. unfold val3.
  destruct l as [|a [|b [|c t]]];
    repeat match goal with
           | H : Forall masyu_cell_ok (_ :: _) |- _ => inversion H; clear H; subst
           end;
    repeat match goal with
           | H : masyu_cell_ok ?b |- _ => apply tern_cases in H; destruct H as [H|[H|H]]; subst
           end; vm_compute; reflexivity.
Qed.

Lemma ctext_cons fuel l : l <> [] -> ctext (S fuel) l = base36_char (val3 l) :: ctext fuel (skipn 3 l).
Proof. destruct l; [congruence|reflexivity]. Qed.

Lemma circle_ctext : forall fuel l k, Forall masyu_cell_ok l -> (length l <= fuel)%nat -> (length l <= 3 * k)%nat ->
  exists pad, circle k (ctext fuel l) = Some (l ++ pad, []).
Proof.
  induction fuel as [|fuel IH]; intros l k Hl Hf Hk.
  - destruct l; [|simpl in Hf; lia]. exists []. destruct k; reflexivity.
  - destruct l as [|a t].
    + exists []. destruct k; reflexivity.
    + destruct k as [|k]; [simpl in Hk; lia|].
      rewrite ctext_cons by discriminate.
      cbn [circle]. rewrite digit27_base36 by (apply val3_range; exact Hl).
      destruct (IH (skipn 3 (a :: t)) k) as (pad & E).
      * apply Forall_skipn. exact Hl.
      * rewrite skipn_length. simpl length in *. lia.
      * rewrite skipn_length. simpl length in *. lia.
      * rewrite E. pose proof (val3_digits (a :: t) Hl) as Hd.
        destruct t as [|x1 [|x2 t2]]; cbn [app firstn] in Hd; injection Hd as H0 H1 H2; cbn [skipn app].
        -- exists (0 :: 0 :: pad). rewrite H0, H1, H2. reflexivity.
        -- exists (0 :: pad). rewrite H0, H1, H2. reflexivity.
        -- exists pad. rewrite H0, H1, H2. reflexivity.
Qed.

Lemma decode_circle_ctext l : Forall masyu_cell_ok l ->
  decode_circle (length l) (ctext (length l) l) = Some (l, []).
Proof.
  intros Hl. unfold decode_circle.
  destruct (circle_ctext (length l) l ((length l + 2) / 3) Hl (le_n _)) as (pad & E).
  { pose proof (Nat.div_mod (length l + 2) 3 ltac:(lia)) as Hd.
    pose proof (Nat.mod_upper_bound (length l + 2) 3 ltac:(lia)). lia. }
  rewrite E. unfold pad_to. rewrite <- app_assoc. rewrite firstn_app_exact. reflexivity.
Qed.

(* decodeCircle + the masyu reading of a pzpr board give back the rows *)
Theorem pzpr_masyu_reads rows w : 
  Forall (fun r => length r = w) rows -> Forall (Forall masyu_cell_ok) rows ->
  pzpr_decode_masyu (length rows) w (ctext (length (concat rows)) (concat rows)) = Some (VList (int_rows rows)).
Proof.
  intros Hrect Hall.
  assert (Hcells : Forall masyu_cell_ok (concat rows)) by (apply Forall_concat; exact Hall).
  pose proof (concat_rect_length w rows Hrect) as Hlen.
  unfold pzpr_decode_masyu. rewrite <- Hlen. rewrite (decode_circle_ctext _ Hcells). cbn [whole].
  unfold grid_pv. rewrite rows_of_concat by exact Hrect. reflexivity.
Qed.

(* masyu: the combinator codec's text is read by pzpr's decodeCircle as the same board *)
Theorem masyu_pzpr_reads : forall rows w, rows <> [] -> (0 < w)%nat ->
  Forall (fun r => length r = w) rows -> Forall (Forall masyu_cell_ok) rows ->
  exists body,
    serialize_problem (Grid (MultiDigit 3 3%nat) None) (VList (int_rows rows)) (Z.of_nat (length rows)) (Z.of_nat w) = Ok body /\
    pzpr_decode_masyu (length rows) w body = Some (VList (int_rows rows)).
Proof.
  intros rows w Hne Hw Hrect Hall. exists (ctext (length (concat rows)) (concat rows)). split.
  - apply masyu_grid_text; assumption.
  - apply pzpr_masyu_reads; assumption.
Qed.
