(* C10 — the auxiliary 3-nodes-per-point graph of
   active_edges_connected_crossable versus the strand relation of the
   specification: numbering of the nodes, characterisation of the edge list,
   and  connected (split graph)  <->  strand_connected. *)
From Coq Require Import List Bool Arith Lia.
From Cspuz Require Import Graph.GraphModel Graph.ReachProofs Graph.Crossable.
Import ListNotations.

(* ------------------------------------------------------------------------ *)
(* arithmetic of row-major numbering                                         *)

Lemma rowmajor_inj m y1 x1 y2 x2 :
  x1 < m -> x2 < m -> y1 * m + x1 = y2 * m + x2 -> y1 = y2 /\ x1 = x2.
Proof.
  intros H1 H2 He.
  assert (y1 = y2).
  { destruct (lt_eq_lt_dec y1 y2) as [[Hl|He']|Hl]; [|exact He'|]; exfalso; nia. }
  subst y2. split; [reflexivity|lia].
Qed.

Lemma rowmajor_lt m n y x : y < n -> x < m -> y * m + x < n * m.
Proof. intros; nia. Qed.

Lemma rowmajor_decode m n u : u < n * m -> exists y x, y < n /\ x < m /\ u = y * m + x.
Proof.
  intros Hu. assert (Hm : m <> 0) by (intros ->; lia).
  exists (u / m), (u mod m). split; [|split].
  - apply Nat.div_lt_upper_bound; [exact Hm|lia].
  - apply Nat.mod_upper_bound; exact Hm.
  - rewrite (Nat.div_mod u m Hm) at 1. lia.
Qed.

(* ------------------------------------------------------------------------ *)
(* nodes of the auxiliary graph                                              *)

Lemma split_nv h w :
  nv (split_graph (h + 1) (w + 1)) = (h + 1) * (w + 1) * 3 + h * (w + 1) + (h + 1) * w.
Proof. simpl. rewrite !Nat.add_sub. reflexivity. Qed.

Lemma seg_in_v h w y x : seg_in h w (Seg true y x) = true <-> y < h /\ x <= w.
Proof. simpl. rewrite andb_true_iff, Nat.ltb_lt, Nat.leb_le. tauto. Qed.
Lemma seg_in_h h w y x : seg_in h w (Seg false y x) = true <-> y <= h /\ x < w.
Proof. simpl. rewrite andb_true_iff, Nat.ltb_lt, Nat.leb_le. tauto. Qed.

Lemma enc_lt h w a : node_in h w a -> enc h w a < nv (split_graph (h + 1) (w + 1)).
Proof.
  rewrite split_nv. destruct a as [k [y x]|[[|] y x]]; simpl.
  - intros [Hk [Hy Hx]].
    assert (y * (w + 1) + x < (h + 1) * (w + 1)) by (apply rowmajor_lt; lia). lia.
  - rewrite andb_true_iff, Nat.ltb_lt, Nat.leb_le. intros [Hy Hx].
    assert (y * (w + 1) + x < h * (w + 1)) by (apply rowmajor_lt; lia). lia.
  - rewrite andb_true_iff, Nat.ltb_lt, Nat.leb_le. intros [Hy Hx].
    assert (y * w + x < (h + 1) * w) by (apply rowmajor_lt; lia). lia.
Qed.

Lemma enc_inj h w a b : node_in h w a -> node_in h w b -> enc h w a = enc h w b -> a = b.
Proof.
  destruct a as [k [y x]|[[|] y x]]; destruct b as [k' [y' x']|[[|] y' x']]; simpl;
    rewrite ?andb_true_iff, ?Nat.ltb_lt, ?Nat.leb_le; intros Ha Hb He.
  - destruct Ha as [Hk [Hy Hx]]. destruct Hb as [Hk' [Hy' Hx']].
    assert (y * (w + 1) + x = y' * (w + 1) + x' /\ k = k') as [Hp ->] by lia.
    apply rowmajor_inj in Hp; [|lia|lia]. destruct Hp; subst. reflexivity.
  - exfalso. destruct Ha as [Hk [Hy Hx]].
    assert (y * (w + 1) + x < (h + 1) * (w + 1)) by (apply rowmajor_lt; lia). lia.
  - exfalso. destruct Ha as [Hk [Hy Hx]].
    assert (y * (w + 1) + x < (h + 1) * (w + 1)) by (apply rowmajor_lt; lia). lia.
  - exfalso. destruct Hb as [Hk [Hy Hx]].
    assert (y' * (w + 1) + x' < (h + 1) * (w + 1)) by (apply rowmajor_lt; lia). lia.
  - assert (Hp : y * (w + 1) + x = y' * (w + 1) + x') by lia.
    apply rowmajor_inj in Hp; [|lia|lia]. destruct Hp; subst. reflexivity.
  - exfalso. destruct Ha as [Hy Hx].
    assert (y * (w + 1) + x < h * (w + 1)) by (apply rowmajor_lt; lia). lia.
  - exfalso. destruct Hb as [Hk [Hy Hx]].
    assert (y' * (w + 1) + x' < (h + 1) * (w + 1)) by (apply rowmajor_lt; lia). lia.
  - exfalso. destruct Hb as [Hy Hx].
    assert (y' * (w + 1) + x' < h * (w + 1)) by (apply rowmajor_lt; lia). lia.
  - assert (Hp : y * w + x = y' * w + x') by lia.
    apply rowmajor_inj in Hp; [|lia|lia]. destruct Hp; subst. reflexivity.
Qed.

Lemma enc_surj h w u :
  u < nv (split_graph (h + 1) (w + 1)) -> exists a, node_in h w a /\ enc h w a = u.
Proof.
  rewrite split_nv. intros Hu.
  destruct (lt_dec u ((h + 1) * (w + 1) * 3)) as [H1|H1].
  - assert (Hp : u / 3 < (h + 1) * (w + 1)) by (apply Nat.div_lt_upper_bound; lia).
    destruct (rowmajor_decode (w + 1) (h + 1) (u / 3) Hp) as [y [x [Hy [Hx He]]]].
    exists (NP (u mod 3) (y, x)). split.
    + unfold node_in. split; [apply Nat.mod_upper_bound; lia|lia].
    + unfold enc. rewrite <- He. pose proof (Nat.div_mod u 3). lia.
  - destruct (lt_dec u ((h + 1) * (w + 1) * 3 + h * (w + 1))) as [H2|H2].
    + assert (Hj : u - (h + 1) * (w + 1) * 3 < h * (w + 1)) by lia.
      destruct (rowmajor_decode (w + 1) h _ Hj) as [y [x [Hy [Hx He]]]].
      exists (NS (Seg true y x)). split; [apply seg_in_v; lia|simpl; lia].
    + assert (Hj : u - (h + 1) * (w + 1) * 3 - h * (w + 1) < (h + 1) * w) by lia.
      destruct (rowmajor_decode w (h + 1) _ Hj) as [y [x [Hy [Hx He]]]].
      exists (NS (Seg false y x)). split; [apply seg_in_h; lia|simpl; lia].
Qed.

(* ------------------------------------------------------------------------ *)
(* the edge list joins every segment node to the plain copy and to the matching
   pass-through copy of its two end points, and nothing else *)

Lemma in_loop2 {A} a b (f : nat -> nat -> list A) e :
  In e (loop2 a b f) <-> exists y x, y < a /\ x < b /\ In e (f y x).
Proof.
  unfold loop2. rewrite in_flat_map. split.
  - intros [y [Hy He]]. apply in_flat_map in He. destruct He as [x [Hx He]].
    apply in_seq in Hy. apply in_seq in Hx. exists y, x. repeat split; try lia. exact He.
  - intros [y [x [Hy [Hx He]]]]. exists y. split; [apply in_seq; lia|].
    apply in_flat_map. exists x. split; [apply in_seq; lia|exact He].
Qed.

Ltac edge_case Hs tch kc :=
  split; [exact Hs|]; split; [tch; reflexivity|]; split; [kc; reflexivity|];
  split; unfold enc; lia.

Lemma split_edges_spec h w a b :
  In (a, b) (edges (split_graph (h + 1) (w + 1))) <->
  exists s k p, seg_in h w s = true /\ touches s p /\ (k = 0 \/ k = dirk s) /\
                a = enc h w (NS s) /\ b = enc h w (NP k p).
Proof.
  simpl. rewrite in_app_iff. unfold split_vertical_edges, split_horizontal_edges.
  fold (loop2 (h + 1 - 1) (w + 1) (fun y x =>
         [((h + 1) * (w + 1) * 3 + y * (w + 1) + x, (y * (w + 1) + x) * 3);
          ((h + 1) * (w + 1) * 3 + y * (w + 1) + x, (y * (w + 1) + x) * 3 + 2);
          ((h + 1) * (w + 1) * 3 + y * (w + 1) + x, ((y + 1) * (w + 1) + x) * 3);
          ((h + 1) * (w + 1) * 3 + y * (w + 1) + x, ((y + 1) * (w + 1) + x) * 3 + 2)])).
  fold (loop2 (h + 1) (w + 1 - 1) (fun y x =>
         [((h + 1) * (w + 1) * 3 + (h + 1 - 1) * (w + 1) + y * (w + 1 - 1) + x, (y * (w + 1) + x) * 3);
          ((h + 1) * (w + 1) * 3 + (h + 1 - 1) * (w + 1) + y * (w + 1 - 1) + x, (y * (w + 1) + x) * 3 + 1);
          ((h + 1) * (w + 1) * 3 + (h + 1 - 1) * (w + 1) + y * (w + 1 - 1) + x, (y * (w + 1) + x + 1) * 3);
          ((h + 1) * (w + 1) * 3 + (h + 1 - 1) * (w + 1) + y * (w + 1 - 1) + x, (y * (w + 1) + x + 1) * 3 + 1)])).
  rewrite !in_loop2, !Nat.add_sub. split.
  - intros [[y [x [Hy [Hx He]]]]|[y [x [Hy [Hx He]]]]].
    + assert (Hs : seg_in h w (Seg true y x) = true) by (apply seg_in_v; lia).
      simpl in He. destruct He as [He|[He|[He|[He|[]]]]]; inversion He; subst a b; clear He.
      * exists (Seg true y x), 0, (y, x). edge_case Hs ltac:(left) ltac:(left).
      * exists (Seg true y x), 2, (y, x). edge_case Hs ltac:(left) ltac:(right).
      * exists (Seg true y x), 0, (S y, x). edge_case Hs ltac:(right) ltac:(left).
      * exists (Seg true y x), 2, (S y, x). edge_case Hs ltac:(right) ltac:(right).
    + assert (Hs : seg_in h w (Seg false y x) = true) by (apply seg_in_h; lia).
      simpl in He. destruct He as [He|[He|[He|[He|[]]]]]; inversion He; subst a b; clear He.
      * exists (Seg false y x), 0, (y, x). edge_case Hs ltac:(left) ltac:(left).
      * exists (Seg false y x), 1, (y, x). edge_case Hs ltac:(left) ltac:(right).
      * exists (Seg false y x), 0, (y, S x). edge_case Hs ltac:(right) ltac:(left).
      * exists (Seg false y x), 1, (y, S x). edge_case Hs ltac:(right) ltac:(right).
  - intros [s [k [p [Hs [Ht [Hk [Ha Hb]]]]]]]. destruct s as [[|] y x].
    + left. apply seg_in_v in Hs. exists y, x. split; [lia|]. split; [lia|].
      subst a b. simpl.
      destruct Ht as [Ht|Ht]; simpl in Ht; subst p; destruct Hk as [Hk|Hk]; subst k; simpl.
      * left. f_equal. lia.
      * right; left. reflexivity.
      * right; right; left. f_equal. rewrite (Nat.add_1_r y). lia.
      * right; right; right; left. f_equal. rewrite (Nat.add_1_r y). lia.
    + right. apply seg_in_h in Hs. exists y, x. split; [lia|]. split; [lia|].
      subst a b. simpl.
      destruct Ht as [Ht|Ht]; simpl in Ht; subst p; destruct Hk as [Hk|Hk]; subst k; simpl.
      * left. f_equal. lia.
      * right; left. reflexivity.
      * right; right; left. f_equal. lia.
      * right; right; right; left. f_equal. lia.
Qed.

Lemma touches_in h w s p : seg_in h w s = true -> touches s p -> fst p <= h /\ snd p <= w.
Proof.
  destruct s as [[|] y x]; [rewrite seg_in_v|rewrite seg_in_h];
    intros [Hy Hx] [Ht|Ht]; simpl in Ht; subst p; simpl; lia.
Qed.

Lemma split_wf h w : wf_graph (split_graph (h + 1) (w + 1)) = true.
Proof.
  unfold wf_graph. apply forallb_forall. intros [a b] Hin.
  apply split_edges_spec in Hin. destruct Hin as [s [k [p [Hs [Ht [Hk [Ha Hb]]]]]]].
  apply andb_true_iff. split; apply Nat.ltb_lt; subst a b; apply enc_lt.
  - exact Hs.
  - destruct p as [y x]. pose proof (touches_in h w s (y, x) Hs Ht) as [Hy Hx]. simpl in *.
    split; [|split; assumption]. destruct Hk as [ -> | -> ]; [lia|]. destruct s as [[|] ? ?]; simpl; lia.
Qed.

(* adjacency in the auxiliary graph *)
Lemma split_nbrs h w u v :
  In v (nbrs (split_graph (h + 1) (w + 1)) all_edges_ok u) <->
  exists s k p, seg_in h w s = true /\ touches s p /\ (k = 0 \/ k = dirk s) /\
                ((u = enc h w (NS s) /\ v = enc h w (NP k p)) \/
                 (v = enc h w (NS s) /\ u = enc h w (NP k p))).
Proof.
  rewrite nbrs_spec. split.
  - intros [j [_ [Hj|Hj]]]; apply nth_error_In in Hj; apply split_edges_spec in Hj;
      destruct Hj as [s [k [p [Hs [Ht [Hk [Ha Hb]]]]]]]; exists s, k, p; repeat split; auto.
  - intros [s [k [p [Hs [Ht [Hk Hc]]]]]].
    destruct Hc as [[Hu Hv]|[Hv Hu]].
    + assert (Hin : In (u, v) (edges (split_graph (h + 1) (w + 1)))).
      { apply split_edges_spec. exists s, k, p. repeat split; auto. }
      apply In_nth_error in Hin. destruct Hin as [j Hj]. exists j. split; [reflexivity|left; exact Hj].
    + assert (Hin : In (v, u) (edges (split_graph (h + 1) (w + 1)))).
      { apply split_edges_spec. exists s, k, p. repeat split; auto. }
      apply In_nth_error in Hin. destruct Hin as [j Hj]. exists j. split; [reflexivity|right; exact Hj].
Qed.

(* ------------------------------------------------------------------------ *)
(* the segments around a point                                               *)

Lemma segs_at_spec h w y x s :
  y <= h -> x <= w ->
  (In s (segs_at h w (y, x)) <-> seg_in h w s = true /\ touches s (y, x)).
Proof.
  intros Hy Hx. unfold segs_at. rewrite !in_app_iff. split.
  - intros [Hi|[Hi|[Hi|Hi]]].
    + destruct (Nat.ltb_spec 0 y); [|destruct Hi]. destruct Hi as [ <- | [] ].
      split; [apply seg_in_v; lia|]. right. simpl. f_equal. lia.
    + destruct (Nat.ltb_spec y h); [|destruct Hi]. destruct Hi as [ <- | [] ].
      split; [apply seg_in_v; lia|]. left. reflexivity.
    + destruct (Nat.ltb_spec 0 x); [|destruct Hi]. destruct Hi as [ <- | [] ].
      split; [apply seg_in_h; lia|]. right. simpl. f_equal. lia.
    + destruct (Nat.ltb_spec x w); [|destruct Hi]. destruct Hi as [ <- | [] ].
      split; [apply seg_in_h; lia|]. left. reflexivity.
  - intros [Hs Ht]. destruct s as [[|] y' x'].
    + apply seg_in_v in Hs. destruct Ht as [Ht|Ht]; simpl in Ht; inversion Ht; subst.
      * right; left. destruct (Nat.ltb_spec y h); [left; reflexivity|lia].
      * left. simpl. rewrite Nat.sub_0_r. left; reflexivity.
    + apply seg_in_h in Hs. destruct Ht as [Ht|Ht]; simpl in Ht; inversion Ht; subst.
      * right; right; right. destruct (Nat.ltb_spec x w); [left; reflexivity|lia].
      * right; right; left. simpl. rewrite Nat.sub_0_r. left; reflexivity.
Qed.

Lemma filter_length_le {A} (f : A -> bool) l : length (filter f l) <= length l.
Proof. induction l as [|a l IH]; simpl; [lia|]. destruct (f a); simpl; lia. Qed.

Lemma filter_length_all {A} (f : A -> bool) l :
  length (filter f l) = length l -> forall a, In a l -> f a = true.
Proof.
  induction l as [|b l IH]; simpl; intros Hl a Hin; [destruct Hin|].
  pose proof (filter_length_le f l). destruct (f b) eqn:Hb; simpl in Hl; [|lia].
  destruct Hin as [ <- | Hin ]; [exact Hb|]. apply IH; [lia|exact Hin].
Qed.

Lemma segs_at_length h w p : length (segs_at h w p) <= 4.
Proof.
  destruct p as [y x]. unfold segs_at. rewrite !app_length.
  destruct (Nat.ltb 0 y), (Nat.ltb y h), (Nat.ltb 0 x), (Nat.ltb x w); simpl; lia.
Qed.

Lemma deg_le4 h w act p : deg h w act p <= 4.
Proof.
  unfold deg. pose proof (filter_length_le act (segs_at h w p)). pose proof (segs_at_length h w p). lia.
Qed.

(* a point met by four drawn segments is interior and all four of its segments
   are drawn *)
Lemma deg4_all h w act y x :
  deg h w act (y, x) = 4 ->
  (0 < y < h /\ 0 < x < w) /\
  act (Seg true (y - 1) x) = true /\ act (Seg true y x) = true /\
  act (Seg false y (x - 1)) = true /\ act (Seg false y x) = true.
Proof.
  unfold deg. intros Hd.
  pose proof (filter_length_le act (segs_at h w (y, x))) as Hle.
  pose proof (segs_at_length h w (y, x)) as Hl4.
  assert (Hlen : length (segs_at h w (y, x)) = 4) by lia.
  assert (Hall : forall a, In a (segs_at h w (y, x)) -> act a = true).
  { apply filter_length_all. lia. }
  unfold segs_at in Hlen, Hall. rewrite !app_length in Hlen.
  destruct (Nat.ltb_spec 0 y); destruct (Nat.ltb_spec y h);
    destruct (Nat.ltb_spec 0 x); destruct (Nat.ltb_spec x w); simpl in Hlen; try lia.
  split; [lia|]. repeat split; apply Hall; simpl; auto.
Qed.

Lemma deg4_interior h w act p : deg h w act p = 4 -> interior h w p.
Proof. destruct p as [y x]. intros Hd. apply deg4_all in Hd. unfold interior. simpl. tauto. Qed.

Lemma drawn_deg_pos h w act s p :
  drawn h w act s -> touches s p -> 0 < deg h w act p.
Proof.
  intros [Hs Ha] Ht. destruct p as [y x].
  pose proof (touches_in h w s (y, x) Hs Ht) as [Hy Hx]. simpl in Hy, Hx.
  assert (Hin : In s (filter act (segs_at h w (y, x)))).
  { apply filter_In. split; [|exact Ha]. apply segs_at_spec; auto. }
  unfold deg. destruct (filter act (segs_at h w (y, x))); [destruct Hin|simpl; lia].
Qed.

Lemma deg_pos_drawn h w act y x :
  y <= h -> x <= w -> 0 < deg h w act (y, x) ->
  exists s, drawn h w act s /\ touches s (y, x).
Proof.
  intros Hy Hx Hd. unfold deg in Hd.
  destruct (filter act (segs_at h w (y, x))) as [|s l] eqn:Hf; [simpl in Hd; lia|].
  assert (Hin : In s (filter act (segs_at h w (y, x)))) by (rewrite Hf; left; reflexivity).
  apply filter_In in Hin. destruct Hin as [Hin Ha].
  apply segs_at_spec in Hin; auto. destruct Hin as [Hs Ht].
  exists s. split; [split; assumption|exact Ht].
Qed.

(* ------------------------------------------------------------------------ *)
(* connectivity of the auxiliary graph  <->  one strand                      *)

Section SplitStrand.
  Variables h w : nat.
  Variable act : seg -> bool.
  Let g := split_graph (h + 1) (w + 1).

  Notation nact := (nact h w act).

  Variable vact : nat -> bool.
  Hypothesis vact_enc : forall a, node_in h w a -> vact (enc h w a) = nact a.

  Lemma np_in s k p :
    seg_in h w s = true -> touches s p -> (k = 0 \/ k = dirk s) -> node_in h w (NP k p).
  Proof.
    intros Hs Ht Hk. destruct p as [y x]. pose proof (touches_in h w s (y, x) Hs Ht) as [Hy Hx].
    simpl in *. split; [|split; assumption].
    destruct Hk as [ -> | -> ]; [lia|]. destruct s as [[|] ? ?]; simpl; lia.
  Qed.

  (* an active copy of a point lets every two drawn segments attached to it
     continue each other *)
  Lemma active_copy_continues s t k p :
    seg_in h w s = true -> touches s p -> (k = 0 \/ k = dirk s) ->
    touches t p -> (k = 0 \/ k = dirk t) ->
    nact (NP k p) = true -> continues h w act s t.
  Proof.
    intros Hs Hts Hks Htt Hkt Hn. exists p. split; [exact Hts|]. split; [exact Htt|].
    destruct k as [|k].
    - left. simpl in Hn. apply andb_true_iff in Hn. destruct Hn as [_ Hn].
      apply negb_true_iff in Hn. apply Nat.eqb_neq in Hn. exact Hn.
    - right. destruct Hks as [Hks|Hks]; [discriminate|]. destruct Hkt as [Hkt|Hkt]; [discriminate|].
      destruct s as [[|] ? ?], t as [[|] ? ?]; simpl in *; congruence.
  Qed.

  (* invariant along a walk of the auxiliary graph that starts at segment s *)
  Lemma walk_invariant s :
    drawn h w act s ->
    forall v, reach g vact all_edges_ok (enc h w (NS s)) v ->
    forall a, node_in h w a -> enc h w a = v ->
      match a with
      | NS u => strand h w act s u
      | NP k p => forall u, drawn h w act u -> touches u p -> (k = 0 \/ k = dirk u) ->
                            strand h w act s u
      end.
  Proof.
    intros Hs v Hv.
    assert (Hns : node_in h w (NS s)) by (apply Hs).
    remember (enc h w (NS s)) as u0 eqn:Hu0.
    induction Hv as [v Hv|v0 v1 v2 Hv IH Hn Hv2].
    - intros a Ha He. rewrite Hu0 in He. apply enc_inj in He; [|exact Ha|exact Hns]. subst a.
      apply strand_refl. exact Hs.
    - specialize (IH Hu0). intros a Ha He. apply split_nbrs in Hn.
      destruct Hn as [s' [k [p [Hs' [Ht' [Hk [[Hu Hw]|[Hw Hu]]]]]]]].
      + (* from the segment s' to the copy k of p *)
        assert (a = NP k p).
        { apply (enc_inj h w); [exact Ha|apply (np_in s' k p Hs' Ht' Hk)|congruence]. }
        subst a. intros u Hdu Htu Hku.
        assert (Hss' : strand h w act s s').
        { apply (IH (NS s')); [exact Hs'|symmetry; exact Hu]. }
        eapply strand_step; [exact Hss'|exact Hdu|].
        apply (active_copy_continues s' u k p); auto.
        rewrite <- vact_enc by (apply (np_in s' k p Hs' Ht' Hk)). rewrite <- Hw. exact Hv2.
      + (* from the copy k of p to the segment s' *)
        assert (a = NS s').
        { apply (enc_inj h w); [exact Ha|exact Hs'|congruence]. }
        subst a.
        assert (Hd' : drawn h w act s').
        { split; [exact Hs'|]. change (nact (NS s') = true).
          rewrite <- vact_enc by exact Hs'. rewrite <- Hw. exact Hv2. }
        apply (IH (NP k p)); [apply (np_in s' k p Hs' Ht' Hk)|symmetry; exact Hu| | |]; assumption.
  Qed.

  Lemma split_to_strand : connected g vact -> strand_connected h w act.
  Proof.
    intros Hc s t Hs Ht.
    assert (Hns : node_in h w (NS s)) by (apply Hs).
    assert (Hnt : node_in h w (NS t)) by (apply Ht).
    assert (Hr : reach g vact all_edges_ok (enc h w (NS s)) (enc h w (NS t))).
    { apply Hc; try (apply enc_lt; assumption).
      - rewrite vact_enc by exact Hns. apply Hs.
      - rewrite vact_enc by exact Hnt. apply Ht. }
    apply (walk_invariant s Hs _ Hr (NS t) Hnt eq_refl).
  Qed.

  (* one step of the auxiliary graph, between a segment and a copy of one of its
     end points *)
  Lemma step_seg_copy s k p :
    seg_in h w s = true -> touches s p -> (k = 0 \/ k = dirk s) ->
    In (enc h w (NP k p)) (nbrs g all_edges_ok (enc h w (NS s))) /\
    In (enc h w (NS s)) (nbrs g all_edges_ok (enc h w (NP k p))).
  Proof.
    intros Hs Ht Hk. split; apply split_nbrs; exists s, k, p; repeat split; auto.
  Qed.

  Lemma continues_reach s t :
    drawn h w act s -> drawn h w act t -> continues h w act s t ->
    reach g vact all_edges_ok (enc h w (NS s)) (enc h w (NS t)).
  Proof.
    intros Hs Ht [p [Hps [Hpt Hd]]].
    assert (Hpos : 0 < deg h w act p) by (eapply drawn_deg_pos; eassumption).
    assert (Hvs : vact (enc h w (NS s)) = true) by (rewrite vact_enc by apply Hs; apply Hs).
    assert (Hvt : vact (enc h w (NS t)) = true) by (rewrite vact_enc by apply Ht; apply Ht).
    destruct (Nat.eq_dec (deg h w act p) 4) as [H4|H4].
    - (* a crossing: same direction, through the matching pass copy *)
      destruct Hd as [Hd|Hd]; [contradiction|].
      assert (Hk : dirk s = dirk t).
      { destruct s as [[|] ? ?], t as [[|] ? ?]; simpl in *; congruence. }
      assert (Hn : vact (enc h w (NP (dirk s) p)) = true).
      { rewrite vact_enc by (eapply np_in; [apply Hs|exact Hps|right; reflexivity]).
        destruct s as [[|] ? ?]; simpl; apply Nat.eqb_eq; exact H4. }
      destruct (step_seg_copy s (dirk s) p) as [S1 _]; [apply Hs|exact Hps|right; reflexivity|].
      destruct (step_seg_copy t (dirk s) p) as [_ S2]; [apply Ht|exact Hpt|right; exact Hk|].
      eapply reach_step; [eapply reach_step; [apply reach_refl; exact Hvs|exact S1|exact Hn]|exact S2|exact Hvt].
    - assert (Hn : vact (enc h w (NP 0 p)) = true).
      { rewrite vact_enc by (eapply np_in; [apply Hs|exact Hps|left; reflexivity]).
        simpl. apply andb_true_iff. split; [apply Nat.ltb_lt; exact Hpos|].
        apply negb_true_iff. apply Nat.eqb_neq. exact H4. }
      destruct (step_seg_copy s 0 p) as [S1 _]; [apply Hs|exact Hps|left; reflexivity|].
      destruct (step_seg_copy t 0 p) as [_ S2]; [apply Ht|exact Hpt|left; reflexivity|].
      eapply reach_step; [eapply reach_step; [apply reach_refl; exact Hvs|exact S1|exact Hn]|exact S2|exact Hvt].
  Qed.

  Lemma strand_reach s t :
    strand h w act s t -> reach g vact all_edges_ok (enc h w (NS s)) (enc h w (NS t)).
  Proof.
    induction 1 as [s Hs|s t u Hst IH Hu Hc].
    - apply reach_refl. rewrite vact_enc by apply Hs. apply Hs.
    - apply reach_trans with (enc h w (NS t)); [exact IH|].
      apply continues_reach; [|exact Hu|exact Hc].
      clear IH Hc. induction Hst; assumption.
  Qed.

  (* every active node is, or is next to, a drawn segment *)
  Lemma anchor a :
    node_in h w a -> nact a = true ->
    exists s, drawn h w act s /\ reach g vact all_edges_ok (enc h w a) (enc h w (NS s)).
  Proof.
    intros Ha Hn. assert (Hva : vact (enc h w a) = true) by (rewrite vact_enc by exact Ha; exact Hn).
    destruct a as [k [y x]|s].
    - destruct Ha as [Hk [Hy Hx]].
      assert (Hex : exists s, drawn h w act s /\ touches s (y, x) /\ (k = 0 \/ k = dirk s)).
      { destruct k as [|k].
        - simpl in Hn. apply andb_true_iff in Hn. destruct Hn as [Hn _]. apply Nat.ltb_lt in Hn.
          destruct (deg_pos_drawn h w act y x Hy Hx Hn) as [s [Hs Ht]].
          exists s. repeat split; try apply Hs; auto.
        - assert (Hd : deg h w act (y, x) = 4) by (apply Nat.eqb_eq; exact Hn).
          destruct (deg4_all h w act y x Hd) as [[Hyy Hxx] [A1 [A2 [A3 A4]]]].
          destruct k as [|k].
          + exists (Seg false y x). split; [split; [apply seg_in_h; lia|exact A4]|].
            split; [left; reflexivity|right; reflexivity].
          + assert (k = 0) by lia. subst k.
            exists (Seg true y x). split; [split; [apply seg_in_v; lia|exact A2]|].
            split; [left; reflexivity|right; reflexivity]. }
      destruct Hex as [s [Hs [Ht Hks]]]. exists s. split; [exact Hs|].
      destruct (step_seg_copy s k (y, x)) as [_ S2]; [apply Hs|exact Ht|exact Hks|].
      eapply reach_step; [apply reach_refl; exact Hva|exact S2|].
      rewrite vact_enc by apply Hs. apply Hs.
    - exists s. split; [split; [exact Ha|exact Hn]|apply reach_refl; exact Hva].
  Qed.

  Lemma strand_to_split : strand_connected h w act -> connected g vact.
  Proof.
    intros Hc u v Hu Hv Hau Hav.
    destruct (enc_surj h w u Hu) as [a [Ha Hea]]. destruct (enc_surj h w v Hv) as [b [Hb Heb]].
    subst u v. rewrite vact_enc in Hau, Hav by assumption.
    destruct (anchor a Ha Hau) as [s [Hs Hrs]]. destruct (anchor b Hb Hav) as [t [Ht Hrt]].
    apply reach_trans with (enc h w (NS s)); [exact Hrs|].
    apply reach_trans with (enc h w (NS t)); [|apply reach_sym; exact Hrt].
    apply strand_reach. apply Hc; assumption.
  Qed.

  Theorem split_graph_connected_iff_strand :
    connected g vact <-> strand_connected h w act.
  Proof. split; [apply split_to_strand|apply strand_to_split]. Qed.
End SplitStrand.
