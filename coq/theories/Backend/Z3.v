(* Model of cspuz/backend/z3.py: the fragment of z3py the backend uses
   ([zterm]), what _convert_expr returns ([zres]: a Python literal passed
   through, None, or a z3 term), the conversion itself ([conv], driven by the
   table Gen/Z3Table.v regenerated from the Python source), z3's meaning of the
   terms ([zeval]) and Z3Backend.__init__/add_constraint/solve ([z3_solve]) with
   the SMT solver as a Section variable.  Definitions only. *)
From Coq Require Import ZArith List Bool.
From Cspuz Require Import Lib.PyErr Core.Expr Core.Program Backend.Z3Call Gen.Z3Table.
Import ListNotations.
Open Scope Z_scope.
Open Scope res_scope.

(* ---- z3 terms ------------------------------------------------------------ *)
Inductive zterm :=
  | ZBoolVal (b : bool)               (* BoolVal(b): a Python bool coerced by z3py *)
  | ZIntVal (z : Z)                   (* IntVal(z) *)
  | ZBoolConst (id : nat)             (* z3.Bool("b<id>") *)
  | ZIntConst (id : nat)              (* z3.Int("i<id>") *)
  | ZNeg (a : zterm)
  | ZAdd (a b : zterm)
  | ZSub (a b : zterm)
  | ZEq (a b : zterm)
  | ZLe (a b : zterm) | ZLt (a b : zterm) | ZGe (a b : zterm) | ZGt (a b : zterm)
  | ZNot (a : zterm)
  | ZAnd (l : list zterm)
  | ZOr (l : list zterm)
  | ZXor (a b : zterm)
  | ZIte (c t f : zterm)
  | ZDistinct (l : list zterm).

Inductive zres :=
  | PyB (b : bool)      (* Python bool *)
  | PyI (z : Z)         (* Python int *)
  | PyN                 (* None *)
  | ZT (t : zterm).     (* z3.ExprRef *)

Definition b2z (b : bool) : Z := if b then 1 else 0.

(* ---- z3's meaning of the terms ------------------------------------------- *)
Definition zint2 (f : Z -> Z -> value) (a b : option value) : option value :=
  match a, b with Some (VI x), Some (VI y) => Some (f x y) | _, _ => None end.
Definition zbool2 (f : bool -> bool -> value) (a b : option value) : option value :=
  match a, b with Some (VB x), Some (VB y) => Some (f x y) | _, _ => None end.

(* pairwise distinctness of same-sorted values *)
Fixpoint bmem (x : bool) (l : list bool) : bool :=
  match l with [] => false | y :: r => Bool.eqb x y || bmem x r end.
Fixpoint bdistinct (l : list bool) : bool :=
  match l with [] => true | x :: r => negb (bmem x r) && bdistinct r end.
Definition vdistinct (l : list value) : option bool :=
  match as_ints l with
  | Some zs => Some (distinct zs)
  | None => option_map bdistinct (as_bools l)
  end.

Fixpoint zeval (en : env) (t : zterm) : option value :=
  match t with
  | ZBoolVal b => Some (VB b)
  | ZIntVal z => Some (VI z)
  | ZBoolConst i => Some (VB (eb en i))
  | ZIntConst i => Some (VI (ei en i))
  | ZNeg a => match zeval en a with Some (VI x) => Some (VI (- x)) | _ => None end
  | ZAdd a b => zint2 (fun x y => VI (x + y)) (zeval en a) (zeval en b)
  | ZSub a b => zint2 (fun x y => VI (x - y)) (zeval en a) (zeval en b)
  | ZEq a b =>
      match zeval en a, zeval en b with
      | Some (VI x), Some (VI y) => Some (VB (x =? y))
      | Some (VB x), Some (VB y) => Some (VB (Bool.eqb x y))
      | _, _ => None
      end
  | ZLe a b => zint2 (fun x y => VB (x <=? y)) (zeval en a) (zeval en b)
  | ZLt a b => zint2 (fun x y => VB (x <? y)) (zeval en a) (zeval en b)
  | ZGe a b => zint2 (fun x y => VB (y <=? x)) (zeval en a) (zeval en b)
  | ZGt a b => zint2 (fun x y => VB (y <? x)) (zeval en a) (zeval en b)
  | ZNot a => match zeval en a with Some (VB x) => Some (VB (negb x)) | _ => None end
  | ZAnd l =>
      match all_some (map (zeval en) l) with
      | Some vs => option_map (fun bs => VB (forallb (fun b => b) bs)) (as_bools vs)
      | None => None
      end
  | ZOr l =>
      match all_some (map (zeval en) l) with
      | Some vs => option_map (fun bs => VB (existsb (fun b => b) bs)) (as_bools vs)
      | None => None
      end
  | ZXor a b => zbool2 (fun x y => VB (xorb x y)) (zeval en a) (zeval en b)
  | ZIte c t f =>
      match zeval en c, zeval en t, zeval en f with
      | Some (VB x), Some (VI y), Some (VI z) => Some (VI (if x then y else z))
      | Some (VB x), Some (VB y), Some (VB z) => Some (VB (if x then y else z))
      | _, _, _ => None
      end
  | ZDistinct l =>
      match all_some (map (zeval en) l) with
      | Some vs => option_map VB (vdistinct vs)
      | None => None
      end
  end.

Definition zres_eval (en : env) (r : zres) : option value :=
  match r with
  | PyB b => Some (VB b)
  | PyI z => Some (VI z)
  | PyN => None
  | ZT t => zeval en t
  end.

Definition ztrue (en : env) (t : zterm) : bool :=
  match zeval en t with Some (VB true) => true | _ => false end.

(* ---- z3py's treatment of Python operands --------------------------------- *)
(* _py2expr / BoolSort().cast on an argument of a z3 function or of an
   overloaded operator: bool -> BoolVal, int -> IntVal, None -> Z3Exception *)
Definition lift (r : zres) : res zterm :=
  match r with
  | PyB b => Ok (ZBoolVal b)
  | PyI z => Ok (ZIntVal z)
  | ZT t => Ok t
  | PyN => Err OtherError
  end.

(* value of a Python number (bool is a subclass of int) *)
Definition pynum (r : zres) : option Z :=
  match r with PyB b => Some (b2z b) | PyI z => Some z | _ => None end.

Definition is_zt (r : zres) : bool := match r with ZT _ => true | _ => false end.
Definition is_pyint (r : zres) : bool := match r with PyB _ | PyI _ => true | _ => false end.

(* ExprRef.__op__(a, c) *)
Definition zbin (b : pybin) (a c : zterm) : zterm :=
  match b with
  | PAdd => ZAdd a c | PSub => ZSub a c
  | PEq => ZEq a c | PNe => ZDistinct [a; c]
  | PLe => ZLe a c | PLt => ZLt a c | PGe => ZGe a c | PGt => ZGt a c
  end.

(* [lit <op> c] with a Python literal on the left: int.__op__ answers
   NotImplemented and Python calls the reflected method of the z3 term:
   __radd__/__rsub__ keep the operand order, the comparisons are mirrored *)
Definition zbin_refl (b : pybin) (a c : zterm) : zterm :=
  match b with
  | PAdd => ZAdd a c | PSub => ZSub a c
  | PEq => ZEq c a | PNe => ZDistinct [c; a]
  | PLe => ZGe c a | PLt => ZGt c a | PGe => ZLe c a | PGt => ZLt c a
  end.

(* both operands are Python numbers: the interpreter computes *)
Definition pylit_bin (b : pybin) (x y : Z) : zres :=
  match b with
  | PAdd => PyI (x + y) | PSub => PyI (x - y)
  | PEq => PyB (x =? y) | PNe => PyB (negb (x =? y))
  | PLe => PyB (x <=? y) | PLt => PyB (x <? y) | PGe => PyB (y <=? x) | PGt => PyB (y <? x)
  end.

Definition py_bin (b : pybin) (x y : zres) : res zres :=
  match x, y with
  | ZT a, ZT c => Ok (ZT (zbin b a c))
  | ZT a, PyN =>        (* ExprRef.__eq__/__ne__ test [other is None]; the rest fail in _py2expr *)
      match b with PEq => Ok (PyB false) | PNe => Ok (PyB true) | _ => Err OtherError end
  | PyN, ZT c =>
      match b with PEq => Ok (PyB false) | PNe => Ok (PyB true) | _ => Err OtherError end
  | ZT a, _ => let* c := lift y in Ok (ZT (zbin b a c))
  | _, ZT c => let* a := lift x in Ok (ZT (zbin_refl b a c))
  | PyN, PyN =>
      match b with PEq => Ok (PyB true) | PNe => Ok (PyB false) | _ => Err TypeError end
  | PyN, _ | _, PyN =>
      match b with PEq => Ok (PyB false) | PNe => Ok (PyB true) | _ => Err TypeError end
  | _, _ =>
      match pynum x, pynum y with
      | Some a, Some c => Ok (pylit_bin b a c)
      | _, _ => Err OtherError
      end
  end.

Definition py_neg (x : zres) : res zres :=
  match x with
  | ZT a => Ok (ZT (ZNeg a))
  | PyN => Err TypeError
  | _ => match pynum x with Some a => Ok (PyI (- a)) | None => Err OtherError end
  end.

Fixpoint foldl_res (f : zres -> zres -> res zres) (acc : zres) (l : list zres) : res zres :=
  match l with
  | [] => Ok acc
  | x :: r => match f acc x with Ok a => foldl_res f a r | Err e => Err e end
  end.

Definition z_not (r : zres) : res zres := let* t := lift r in Ok (ZT (ZNot t)).
Definition z_and (rs : list zres) : res zres := let* ts := mapM lift rs in Ok (ZT (ZAnd ts)).
Definition z_or (rs : list zres) : res zres := let* ts := mapM lift rs in Ok (ZT (ZOr ts)).
Definition z_xor (a b : zres) : res zres :=
  let* x := lift a in let* y := lift b in Ok (ZT (ZXor x y)).
Definition z_if (c t f : zres) : res zres :=
  let* x := lift c in let* y := lift t in let* z := lift f in Ok (ZT (ZIte x y z)).
(* z3.Distinct asserts that at least one argument is a z3 expression *)
Definition z_distinct (rs : list zres) : res zres :=
  if existsb is_zt rs then let* ts := mapM lift rs in Ok (ZT (ZDistinct ts)) else Err OtherError.

Fixpoint all_pynum (rs : list zres) : option (list Z) :=
  match rs with
  | [] => Some []
  | r :: rest =>
      match pynum r, all_pynum rest with
      | Some z, Some zs => Some (z :: zs)
      | _, _ => None
      end
  end.

(* interpretation of a table entry on the converted operands; Python evaluates
   sub-expressions and arguments left to right *)
Fixpoint run (p : px) (ops : list zres) {struct p} : res zres :=
  match p with
  | XArg i => match nth_error ops i with Some r => Ok r | None => Err IndexError end
  | XNeg a => let* r := run a ops in py_neg r
  | XBin b x y => let* a := run x ops in let* c := run y ops in py_bin b a c
  | XFoldL b => match ops with [] => Err IndexError | r0 :: rest => foldl_res (py_bin b) r0 rest end
  | XNot a => let* r := run a ops in z_not r
  | XAndArgs => z_and ops
  | XOrArgs => z_or ops
  | XAnd2 a b => let* x := run a ops in let* y := run b ops in z_and [x; y]
  | XOr2 a b => let* x := run a ops in let* y := run b ops in z_or [x; y]
  | XXor a b => let* x := run a ops in let* y := run b ops in z_xor x y
  | XIf c t f => let* x := run c ops in let* y := run t ops in let* z := run f ops in z_if x y z
  | XDistinctArgs => z_distinct ops
  | XAllPyInt t f => if forallb is_pyint ops then run t ops else run f ops
  | XPyDistinct => match all_pynum ops with Some zs => Ok (PyB (distinct zs)) | None => Err OtherError end
  | XNone => Ok PyN
  end.

(* mapM with the function as a section variable, so that the nested recursion of
   [conv] passes Coq's guard check (equal to PyErr.mapM, see Z3Proofs.mapR_mapM) *)
Section MapR.
  Variables (A B : Type) (f : A -> res B).
  Fixpoint mapR (l : list A) : res (list B) :=
    match l with
    | [] => Ok []
    | x :: xs => bind (f x) (fun y => bind (mapR xs) (fun ys => Ok (y :: ys)))
    end.
End MapR.
Arguments mapR {A B} f l.

(* _convert_expr(e, variables_dict); [vs] is the list the backend was built from
   (variables_dict maps position -> Bool("b<pos>") / Int("i<pos>")) *)
Fixpoint conv (vs : list vdecl) (e : expr) {struct e} : res zres :=
  match e with
  | PyBool b => Ok (PyB b)
  | PyInt z => Ok (PyI z)
  | PyNone => Err TypeError
  | BVar i | IVar i _ _ =>
      match nth_error vs i with
      | Some DBool => Ok (ZT (ZBoolConst i))
      | Some (DInt _ _) => Ok (ZT (ZIntConst i))
      | None => Err KeyError
      end
  | BNode o args | INode o args =>
      let* ops := mapR (conv vs) args in run (z3_table o) ops
  end.

(* ---- Z3Backend ----------------------------------------------------------- *)
(* z3 models are partial: model[c] is None for a constant z3 did not assign *)
Record zmodel := { zb : nat -> option bool; zi : nat -> option Z }.

Definition complete (m : zmodel) : env :=
  {| eb := fun i => match zb m i with Some true => true | _ => false end;
     ei := fun i => match zi m i with Some z => z | None => 0 end |}.

(* solver.add(var.lo <= var_z3, var_z3 <= var.hi): the first is the reflected
   comparison  var_z3 >= var.lo *)
Fixpoint bound_terms_from (i : nat) (vs : list vdecl) : list zterm :=
  match vs with
  | [] => []
  | DBool :: r => bound_terms_from (S i) r
  | DInt lo hi :: r =>
      ZGe (ZIntConst i) (ZIntVal lo) :: ZLe (ZIntConst i) (ZIntVal hi) :: bound_terms_from (S i) r
  end.
Definition bound_terms (vs : list vdecl) : list zterm := bound_terms_from O vs.

(* solver.add(converted_constraints): BoolSort().cast of every element *)
Definition top_cast (r : zres) : res zterm :=
  match r with
  | PyB b => Ok (ZBoolVal b)
  | ZT t => Ok t
  | PyI _ | PyN => Err OtherError
  end.

(* var.sol = is_true(model[v])  /  model[v].as_long() *)
Fixpoint readback_from (m : zmodel) (i : nat) (vs : list vdecl) : res (list value) :=
  match vs with
  | [] => Ok []
  | DBool :: r =>
      let b := match zb m i with Some true => true | _ => false end in
      let* rest := readback_from m (S i) r in Ok (VB b :: rest)
  | DInt _ _ :: r =>
      match zi m i with
      | Some z => let* rest := readback_from m (S i) r in Ok (VI z :: rest)
      | None => Err OtherError       (* AttributeError: None has no as_long *)
      end
  end.
Definition readback (m : zmodel) (vs : list vdecl) : res (list value) := readback_from m O vs.

(* an assignment given as the list of values left in the sol fields *)
Definition env_of_sol (s : list value) : env :=
  {| eb := fun i => match nth_error s i with Some (VB b) => b | _ => false end;
     ei := fun i => match nth_error s i with Some (VI z) => z | _ => 0 end |}.

Definition backend := list zres.     (* Z3Backend.converted_constraints *)

Definition z3_add (vs : list vdecl) (b : backend) (e : expr) : res backend :=
  let* r := conv vs e in Ok (b ++ [r]).
Definition z3_add_list (vs : list vdecl) (b : backend) (l : list expr) : res backend :=
  let* rs := mapM (conv vs) l in Ok (b ++ rs).

(* ---- incremental sessions: declare / ensure / find_answer interleaved ---- *)
Inductive sop := SBool | SInt (lo hi : Z) | SEnsure (l : list expr) | SFind.

Record sess := { s_st : state; s_sol : list (option value) }.   (* program + sol fields *)
Definition sess0 : sess := {| s_st := empty_state; s_sol := [] |}.

Section Solve.
  (* the SMT solver: Solver.check() + Solver.model() on the asserted terms *)
  Variable oracle : list zterm -> option zmodel.

  (* Z3Backend.solve: None = returned False; Some s = returned True and wrote s
     into the sol fields *)
  Definition z3_solve (vs : list vdecl) (b : backend) : res (option (list value)) :=
    let* ts := mapM top_cast b in
    match oracle (bound_terms vs ++ ts) with
    | None => Ok None
    | Some m => let* s := readback m vs in Ok (Some s)
    end.

  (* Solver.find_answer(backend="z3"): a fresh backend from the whole program *)
  Definition find_answer (st : state) : res (option (list value)) :=
    let* b := z3_add_list (vars st) [] (cons st) in z3_solve (vars st) b.

  (* outcome of one step: None for a declaration / successful ensure *)
  Definition step (s : sess) (o : sop) : sess * option (res bool) :=
    match o with
    | SBool => ({| s_st := fst (bool_var (s_st s)); s_sol := s_sol s ++ [None] |}, None)
    | SInt lo hi => ({| s_st := fst (int_var (s_st s) lo hi); s_sol := s_sol s ++ [None] |}, None)
    | SEnsure l =>
        let '(st', err) := ensure_list (s_st s) l in
        ({| s_st := st'; s_sol := s_sol s |}, option_map (fun e => Err e) err)
    | SFind =>
        match find_answer (s_st s) with
        | Err e => (s, Some (Err e))
        | Ok None => (s, Some (Ok false))                       (* sol fields keep their old content *)
        | Ok (Some v) => ({| s_st := s_st s; s_sol := map Some v |}, Some (Ok true))
        end
    end.

  (* the session after every step, with the step's outcome *)
  Fixpoint trace (s : sess) (ops : list sop) : list (sess * option (res bool)) :=
    match ops with
    | [] => []
    | o :: r => let '(s', out) := step s o in (s', out) :: trace s' r
    end.
End Solve.
