(* C11 Tier 1 - shakashaka, part 4: a white area without sealed quarters is a rectangle of whole diagonal squares,
   when the local patterns hold everywhere.  First an abstract lemma on sets of grid squares closed under
   "three squares of a 2x2 window force the fourth". *)
From Coq Require Import ZArith List Bool Arith Lia.
From Cspuz Require Import Puzzle.PuzzleBase Puzzle.ShakashakaSem Puzzle.ShakashakaGeo.
Import ListNotations.
Local Open Scope Z_scope.

(* ---- maximal runs of a decidable bounded predicate on Z *)
Section Run.
  Variable P : Z -> Prop.
  Variable N : Z.
  Hypothesis Pdec : forall a, P a \/ ~ P a.
  Hypothesis Pbound : forall a, P a -> - N <= a <= N.

  Lemma run_right n : forall a, N - a <= Z.of_nat n -> P a ->
    exists r, a <= r /\ (forall a', a <= a' <= r -> P a') /\ ~ P (r + 1).
  Proof.
    induction n as [|n IH]; intros a Hn Pa.
    - exists a. split; [lia|]. split; [intros a' H; replace a' with a by lia; exact Pa|].
      intros H. apply Pbound in H. apply Pbound in Pa. lia.
    - destruct (Pdec (a + 1)) as [Y|No].
      + destruct (IH (a + 1) ltac:(lia) Y) as [r [L [A B]]]. exists r. split; [lia|]. split; [|exact B].
        intros a' H. destruct (Z.eq_dec a' a) as [->|Ne]; [exact Pa|apply A; lia].
      + exists a. split; [lia|]. split; [intros a' H; replace a' with a by lia; exact Pa|exact No].
  Qed.
  Lemma run_left n : forall a, N + a <= Z.of_nat n -> P a ->
    exists l, l <= a /\ (forall a', l <= a' <= a -> P a') /\ ~ P (l - 1).
  Proof.
    induction n as [|n IH]; intros a Hn Pa.
    - exists a. split; [lia|]. split; [intros a' H; replace a' with a by lia; exact Pa|].
      intros H. apply Pbound in H. apply Pbound in Pa. lia.
    - destruct (Pdec (a - 1)) as [Y|No].
      + destruct (IH (a - 1) ltac:(lia) Y) as [l [L [A B]]]. exists l. split; [lia|]. split; [|exact B].
        intros a' H. destruct (Z.eq_dec a' a) as [->|Ne]; [exact Pa|apply A; lia].
      + exists a. split; [lia|]. split; [intros a' H; replace a' with a by lia; exact Pa|exact No].
  Qed.
  Lemma run_both a : P a ->
    exists l r, l <= a <= r /\ (forall a', l <= a' <= r -> P a') /\ ~ P (l - 1) /\ ~ P (r + 1).
  Proof.
    intros Pa. pose proof (Pbound a Pa) as Hbd.
    destruct (run_right (Z.to_nat (N - a)) a ltac:(lia) Pa) as [r [L1 [A1 B1]]].
    destruct (run_left (Z.to_nat (N + a)) a ltac:(lia) Pa) as [l [L2 [A2 B2]]].
    exists l, r. split; [lia|]. split; [|split; assumption].
    intros a' H. destruct (Z_le_dec a a'); [apply A1; lia|apply A2; lia].
  Qed.
End Run.

(* ---- connected sets of squares closed under the window rule are boxes *)
Section Poly.
  Variable K : Z -> Z -> Prop.
  Variable N : Z.
  Hypothesis Kdec : forall a b, K a b \/ ~ K a b.
  Hypothesis Kbound : forall a b, K a b -> - N <= a <= N /\ - N <= b <= N.
  Hypothesis c1 : forall a b, K a b -> K (a + 1) b -> K a (b + 1) -> K (a + 1) (b + 1).
  Hypothesis c2 : forall a b, K a b -> K (a + 1) b -> K (a + 1) (b + 1) -> K a (b + 1).
  Hypothesis c3 : forall a b, K a b -> K a (b + 1) -> K (a + 1) (b + 1) -> K (a + 1) b.
  Hypothesis c4 : forall a b, K (a + 1) b -> K a (b + 1) -> K (a + 1) (b + 1) -> K a b.
  Variables a0 b0 : Z.
  Hypothesis K0 : K a0 b0.

  Inductive kr : Z -> Z -> Prop :=
  | kr0 : kr a0 b0
  | kr_step a b a' b' : kr a b -> Z.abs (a' - a) + Z.abs (b' - b) = 1 -> K a' b' -> kr a' b'.
  Hypothesis conn : forall a b, K a b -> kr a b.

  Theorem poly_box : exists a1 a2 b1 b2, forall a b, K a b <-> (a1 <= a <= a2 /\ b1 <= b <= b2).
  Proof.
    destruct (run_both (fun a => K a b0) N (fun a => Kdec a b0) (fun a H => proj1 (Kbound a b0 H)) a0 K0)
      as [l [r [La [Row0 [NL0 NR0]]]]].
    destruct (run_both (fun b => K a0 b) N (fun b => Kdec a0 b) (fun b H => proj2 (Kbound a0 b H)) b0 K0)
      as [d [t [Lb [Col0 [ND0 NT0]]]]].
    cbv beta in *.
    (* extending one full row to the row above / below, given the cell of column a0 *)
    assert (Up : forall b, (forall a, l <= a <= r -> K a b) -> ~ K (l - 1) b -> ~ K (r + 1) b -> K a0 (b + 1) ->
                 (forall a, l <= a <= r -> K a (b + 1)) /\ ~ K (l - 1) (b + 1) /\ ~ K (r + 1) (b + 1)).
    { intros b Row NL NR Ka0.
      assert (Rt : forall m a, a = a0 + Z.of_nat m -> a <= r -> K a (b + 1)).
      { induction m as [|m IHm]; intros a Ea Har; [replace a with a0 by lia; exact Ka0|].
        replace a with (a - 1 + 1) by lia. apply c1; [apply Row; lia|replace (a - 1 + 1) with a by lia; apply Row; lia|apply IHm; lia]. }
      assert (Lt : forall m a, a = a0 - Z.of_nat m -> l <= a -> K a (b + 1)).
      { induction m as [|m IHm]; intros a Ea Hal; [replace a with a0 by lia; exact Ka0|].
        apply c2; [apply Row; lia|apply Row; lia|apply IHm; lia]. }
      assert (All : forall a, l <= a <= r -> K a (b + 1)).
      { intros a Ha. destruct (Z_le_dec a0 a); [apply (Rt (Z.to_nat (a - a0)) a); lia|apply (Lt (Z.to_nat (a0 - a)) a); lia]. }
      split; [exact All|]. split.
      - intros Hk. apply NL. apply c4; [replace (l - 1 + 1) with l by lia; apply Row; lia|exact Hk|replace (l - 1 + 1) with l by lia; apply All; lia].
      - intros Hk. apply NR. apply c3; [apply Row; lia|apply All; lia|exact Hk]. }
    assert (Dn : forall b, (forall a, l <= a <= r -> K a b) -> ~ K (l - 1) b -> ~ K (r + 1) b -> K a0 (b - 1) ->
                 (forall a, l <= a <= r -> K a (b - 1)) /\ ~ K (l - 1) (b - 1) /\ ~ K (r + 1) (b - 1)).
    { intros b Row NL NR Ka0.
      assert (Row' : forall a, l <= a <= r -> K a (b - 1 + 1)) by (intros a Ha; replace (b - 1 + 1) with b by lia; apply Row; exact Ha).
      assert (Rt : forall m a, a = a0 + Z.of_nat m -> a <= r -> K a (b - 1)).
      { induction m as [|m IHm]; intros a Ea Har; [replace a with a0 by lia; exact Ka0|].
        replace a with (a - 1 + 1) by lia. apply c3; [apply IHm; lia|apply Row'; lia|replace (a - 1 + 1) with a by lia; apply Row'; lia]. }
      assert (Lt : forall m a, a = a0 - Z.of_nat m -> l <= a -> K a (b - 1)).
      { induction m as [|m IHm]; intros a Ea Hal; [replace a with a0 by lia; exact Ka0|].
        apply c4; [apply IHm; lia|apply Row'; lia|apply Row'; lia]. }
      assert (All : forall a, l <= a <= r -> K a (b - 1)).
      { intros a Ha. destruct (Z_le_dec a0 a); [apply (Rt (Z.to_nat (a - a0)) a); lia|apply (Lt (Z.to_nat (a0 - a)) a); lia]. }
      split; [exact All|]. split.
      - intros Hk. apply NL. replace b with (b - 1 + 1) by lia.
        apply c2; [exact Hk|replace (l - 1 + 1) with l by lia; apply All; lia|replace (l - 1 + 1) with l by lia; apply Row'; lia].
      - intros Hk. apply NR. replace b with (b - 1 + 1) by lia.
        apply c1; [apply All; lia|exact Hk|apply Row'; lia]. }
    assert (RowsUp : forall n b, b = b0 + Z.of_nat n -> b <= t ->
                 (forall a, l <= a <= r -> K a b) /\ ~ K (l - 1) b /\ ~ K (r + 1) b).
    { induction n as [|n IHn]; intros b Eb Hbt.
      - replace b with b0 by lia. split; [exact Row0|split; assumption].
      - destruct (IHn (b - 1) ltac:(lia) ltac:(lia)) as [R1 [R2 R3]].
        replace b with (b - 1 + 1) by lia. apply Up; try assumption.
        replace (b - 1 + 1) with b by lia. apply Col0. lia. }
    assert (RowsDn : forall n b, b = b0 - Z.of_nat n -> d <= b ->
                 (forall a, l <= a <= r -> K a b) /\ ~ K (l - 1) b /\ ~ K (r + 1) b).
    { induction n as [|n IHn]; intros b Eb Hbd.
      - replace b with b0 by lia. split; [exact Row0|split; assumption].
      - destruct (IHn (b + 1) ltac:(lia) ltac:(lia)) as [R1 [R2 R3]].
        replace b with (b + 1 - 1) by lia. apply Dn; try assumption.
        replace (b + 1 - 1) with b by lia. apply Col0. lia. }
    assert (Rows : forall b, d <= b <= t -> (forall a, l <= a <= r -> K a b) /\ ~ K (l - 1) b /\ ~ K (r + 1) b).
    { intros b Hbb. destruct (Z_le_dec b0 b); [apply (RowsUp (Z.to_nat (b - b0)) b); lia|apply (RowsDn (Z.to_nat (b0 - b)) b); lia]. }
    (* caps *)
    assert (Top : forall a, l <= a <= r -> ~ K a (t + 1)).
    { assert (Rt : forall m a, a = a0 + Z.of_nat m -> a <= r -> ~ K a (t + 1)).
      { induction m as [|m IHm]; intros a Ea Har; [replace a with a0 by lia; exact NT0|].
        intros Hk. apply (IHm (a - 1) ltac:(lia) ltac:(lia)).
        apply c2; [apply Rows; lia|replace (a - 1 + 1) with a by lia; apply Rows; lia|replace (a - 1 + 1) with a by lia; exact Hk]. }
      assert (Lt : forall m a, a = a0 - Z.of_nat m -> l <= a -> ~ K a (t + 1)).
      { induction m as [|m IHm]; intros a Ea Hal; [replace a with a0 by lia; exact NT0|].
        intros Hk. apply (IHm (a + 1) ltac:(lia) ltac:(lia)).
        apply c1; [apply Rows; lia|apply Rows; lia|exact Hk]. }
      intros a Ha. destruct (Z_le_dec a0 a); [apply (Rt (Z.to_nat (a - a0)) a); lia|apply (Lt (Z.to_nat (a0 - a)) a); lia]. }
    assert (Bot : forall a, l <= a <= r -> ~ K a (d - 1)).
    { assert (Rowd : forall a, l <= a <= r -> K a (d - 1 + 1)) by (intros a Ha; replace (d - 1 + 1) with d by lia; apply Rows; lia).
      assert (Rt : forall m a, a = a0 + Z.of_nat m -> a <= r -> ~ K a (d - 1)).
      { induction m as [|m IHm]; intros a Ea Har; [replace a with a0 by lia; exact ND0|].
        intros Hk. apply (IHm (a - 1) ltac:(lia) ltac:(lia)).
        apply c4; [replace (a - 1 + 1) with a by lia; exact Hk|apply Rowd; lia|replace (a - 1 + 1) with a by lia; apply Rowd; lia]. }
      assert (Lt : forall m a, a = a0 - Z.of_nat m -> l <= a -> ~ K a (d - 1)).
      { induction m as [|m IHm]; intros a Ea Hal; [replace a with a0 by lia; exact ND0|].
        intros Hk. apply (IHm (a + 1) ltac:(lia) ltac:(lia)).
        apply c3; [exact Hk|apply Rowd; lia|apply Rowd; lia]. }
      intros a Ha. destruct (Z_le_dec a0 a); [apply (Rt (Z.to_nat (a - a0)) a); lia|apply (Lt (Z.to_nat (a0 - a)) a); lia]. }
    exists l, r, d, t. intros a b. split.
    - intros Hk. apply conn in Hk. induction Hk as [|a b a' b' Hk IH Hs Hk'].
      + lia.
      + destruct IH as [Ia Ib].
        destruct (Z_le_dec l a'), (Z_le_dec a' r), (Z_le_dec d b'), (Z_le_dec b' t); try lia; exfalso.
        * assert (b' = t + 1 /\ a' = a) as [-> ->] by lia. apply (Top a Ia Hk').
        * assert (b' = d - 1 /\ a' = a) as [-> ->] by lia. apply (Bot a Ia Hk').
        * assert (a' = r + 1 /\ b' = b) as [-> ->] by lia. apply (proj2 (proj2 (Rows b Ib)) Hk').
        * assert (a' = l - 1 /\ b' = b) as [-> ->] by lia. apply (proj1 (proj2 (Rows b Ib)) Hk').
    - intros [Ha Hb']. apply Rows; assumption.
  Qed.
End Poly.

(* ---- instantiation: the diagonal squares of an area without sealed quarters *)
Lemma same_diamond (t t' : quarter) :
  (snd t < 4)%nat -> (snd t' < 4)%nat -> da t = da t' -> db t = db t' -> t' = t \/ t' = partner t.
Proof.
  destruct t as [[y x] q], t' as [[y' x'] q']. cbn [snd]. intros Hq Hq'.
  do 4 (destruct q as [|q]; [do 4 (destruct q' as [|q']; [cbn; intros A B; first [left; repeat f_equal; lia|right; repeat f_equal; lia|exfalso; lia]|]); lia|]). lia.
Qed.
Lemma partner_adj t : (snd t < 4)%nat -> qadj t (partner t).
Proof.
  destruct t as [[y x] q]. cbn [snd]. intros Hq.
  destruct q as [|[|[|[|q]]]]; try lia; cbn [partner]; constructor.
Qed.
Lemma partner_lt4 t : (snd t < 4)%nat -> (snd (partner t) < 4)%nat.
Proof. destruct t as [[y x] q]. cbn [snd]. intros Hq. destruct q as [|[|[|[|q]]]]; cbn; lia. Qed.
Lemma partner_diamond t : (snd t < 4)%nat -> da (partner t) = da t /\ db (partner t) = db t.
Proof. destruct t as [[y x] q]. cbn [snd]. intros Hq. destruct q as [|[|[|[|q]]]]; try lia; cbn; lia. Qed.
Lemma qadj_diamond t t' : qadj t t' ->
  (da t' = da t /\ db t' = db t) \/ Z.abs (da t' - da t) + Z.abs (db t' - db t) = 1.
Proof.
  intros H. destruct H as [y x q Hq|y x q Hq|y x|y x|y x|y x]; try (left; cbn; lia);
    right; destruct q as [|[|[|[|q]]]]; try lia; cbn; lia.
Qed.
(* every window of four diamonds is centred on a lattice point or on a cell centre *)
Lemma window_kind a b :
  (exists py px, a = px + py - 1 /\ b = px - py - 1) \/ (exists y x, a = x + y /\ b = x - y - 1).
Proof.
  destruct (Z.even (a + b)) eqn:E.
  - left. apply Z.even_spec in E. destruct E as [k E]. exists (k - b), (b + 1 + k - b + (b - k) + (k - b)).
    split; lia.
  - right. assert (O : Z.odd (a + b) = true) by (rewrite <- Z.negb_even, E; reflexivity).
    apply Z.odd_spec in O. destruct O as [k O]. exists (k - b), (a - (k - b)). split; lia.
Qed.
Lemma three_uncovered s (q1 q2 q3 : nat) :
  (s <= 5)%nat -> (q1 < 4)%nat -> (q2 < 4)%nat -> (q3 < 4)%nat -> q1 <> q2 -> q1 <> q3 -> q2 <> q3 ->
  cov s q1 = false -> cov s q2 = false -> cov s q3 = false -> s = 0%nat.
Proof.
  intros Hs H1 H2 H3 N1 N2 N3.
  destruct s as [|[|[|[|[|[|s]]]]]]; [reflexivity| | | | | |lia];
    (destruct q1 as [|[|[|[|q1]]]]; try lia; destruct q2 as [|[|[|[|q2]]]]; try lia; destruct q3 as [|[|[|[|q3]]]]; try lia;
     cbn; intros; try discriminate; try lia).
Qed.

(* half sectors around a lattice point in terms of the four states *)
Definition h_W (a b : nat) : bool := negb (cov a 2) && negb (cov b 0).
Definition h_S (b c : nat) : bool := negb (cov b 1) && negb (cov c 3).
Definition h_E (c d : nat) : bool := negb (cov c 0) && negb (cov d 2).
Definition h_N (d a : nat) : bool := negb (cov d 3) && negb (cov a 1).
Lemma t_lattice : all4 (fun a b c d =>
  ((h_W a b && h_S b c && h_E c d) || (h_W a b && h_S b c && h_N d a) || (h_W a b && h_E c d && h_N d a) || (h_S b c && h_E c d && h_N d a)) ==>
  vok4 a b c d ==> (h_W a b && h_S b c && h_E c d && h_N d a)) = true.
Proof. vm_compute. reflexivity. Qed.

Section Diag.
  Variable cst : Z -> Z -> nat.
  Variables Hb Wb : Z.
  Hypothesis cst_le : forall y x, (cst y x <= 5)%nat.
  Hypothesis cst_out : forall y x, ~ (0 <= y < Hb /\ 0 <= x < Wb) -> cst y x = 5%nat.
  Hypothesis HL : Lok cst.
  Variable s0 : quarter.
  Hypothesis s0_white : white cst s0.

  Notation wq := (wq cst).
  Notation white := (white cst).
  Notation C := (qreach cst s0).

  Hypothesis Cdec : forall t, C t \/ ~ C t.
  Hypothesis nosealed : forall t, C t -> wqt cst (partner t) = true.

  Definition Kd (a b : Z) : Prop := exists t, C t /\ da t = a /\ db t = b.

  Lemma white_lt4 t : white t -> (snd t < 4)%nat.
  Proof. destruct t as [[y x] q]. intros [H _]. exact H. Qed.
  Lemma C_lt4 t : C t -> (snd t < 4)%nat.
  Proof. intros H. apply white_lt4. apply (qreach_end _ _ _ H). Qed.
  Lemma white_board y x q : white (y, x, q) -> 0 <= y < Hb /\ 0 <= x < Wb.
  Proof.
    intros [_ H]. destruct (Z_le_dec 0 y), (Z_lt_dec y Hb), (Z_le_dec 0 x), (Z_lt_dec x Wb); try lia;
      unfold ShakashakaGeo.wq in H; rewrite cst_out in H by lia; discriminate.
  Qed.

  Lemma C_partner t : C t -> C (partner t).
  Proof.
    intros H. pose proof (C_lt4 t H) as Hq.
    eapply qr_step; [exact H|apply partner_adj; exact Hq|].
    pose proof (nosealed t H) as W. pose proof (partner_lt4 t Hq) as Hq'.
    destruct (partner t) as [[y x] q]. split; [exact Hq'|exact W].
  Qed.
  Lemma K_both a b t : Kd a b -> (snd t < 4)%nat -> da t = a -> db t = b -> C t.
  Proof.
    intros [t0 [H0 [A B]]] Hq At Bt.
    destruct (same_diamond t0 t (C_lt4 t0 H0) Hq ltac:(lia) ltac:(lia)) as [->| ->]; [exact H0|apply C_partner; exact H0].
  Qed.
  Lemma K_of t : C t -> Kd (da t) (db t).
  Proof. intros H. exists t. repeat split. exact H. Qed.

  (* the two quarters of diamond (a, b) *)
  Lemma Kd_dec a b : Kd a b \/ ~ Kd a b.
  Proof.
    destruct (window_kind a b) as [[py [px [Ea Eb]]]|[y [x [Ea Eb]]]].
    - (* west ray diamond of the lattice point *)
      destruct (Cdec (py, px - 1, 0%nat)) as [Y|No].
      + left. exists (py, px - 1, 0%nat). split; [exact Y|cbn; lia].
      + right. intros Hk. apply No. apply (K_both a b); [exact Hk|cbn; lia|cbn; lia|cbn; lia].
    - destruct (Cdec (y, x, 3%nat)) as [Y|No].
      + left. exists (y, x, 3%nat). split; [exact Y|cbn; lia].
      + right. intros Hk. apply No. apply (K_both a b); [exact Hk|cbn; lia|cbn; lia|cbn; lia].
  Qed.
  Lemma Kd_bound a b : Kd a b -> - (Hb + Wb + 2) <= a <= Hb + Wb + 2 /\ - (Hb + Wb + 2) <= b <= Hb + Wb + 2.
  Proof.
    intros [[[y x] q] [H [A B]]]. destruct (white_board y x q (qreach_end _ _ _ H)).
    cbn in A, B. destruct (Nat.eqb q 1 || Nat.eqb q 2), (Nat.eqb q 2 || Nat.eqb q 3); lia.
  Qed.

  (* white neighbours of members are members *)
  Lemma C_adj t t' : C t -> qadj t t' -> white t' -> C t'.
  Proof. intros H A W. eapply qr_step; eassumption. Qed.

  (* windows centred on a lattice point *)
  Lemma window_lattice py px :
    let a := px + py - 1 in let b := px - py - 1 in
    (Kd a b -> Kd (a + 1) b -> Kd a (b + 1) -> Kd (a + 1) (b + 1)) /\
    (Kd a b -> Kd (a + 1) b -> Kd (a + 1) (b + 1) -> Kd a (b + 1)) /\
    (Kd a b -> Kd a (b + 1) -> Kd (a + 1) (b + 1) -> Kd (a + 1) b) /\
    (Kd (a + 1) b -> Kd a (b + 1) -> Kd (a + 1) (b + 1) -> Kd a b).
  Proof.
    intros a b.
    (* the eight quarters around the point *)
    set (u1 := (py - 1, px - 1, 2%nat) : quarter). set (u2 := (py, px - 1, 0%nat) : quarter).
    set (u3 := (py, px - 1, 1%nat) : quarter). set (u4 := (py, px, 3%nat) : quarter).
    set (u5 := (py, px, 0%nat) : quarter). set (u6 := (py - 1, px, 2%nat) : quarter).
    set (u7 := (py - 1, px, 3%nat) : quarter). set (u0 := (py - 1, px - 1, 1%nat) : quarter).
    assert (KW : Kd a b -> C u1 /\ C u2) by (intros Hk; split; apply (K_both a b); try exact Hk; cbn; lia).
    assert (KS : Kd (a + 1) b -> C u3 /\ C u4) by (intros Hk; split; apply (K_both (a + 1) b); try exact Hk; cbn; lia).
    assert (KE : Kd (a + 1) (b + 1) -> C u5 /\ C u6) by (intros Hk; split; apply (K_both (a + 1) (b + 1)); try exact Hk; cbn; lia).
    assert (KN : Kd a (b + 1) -> C u7 /\ C u0) by (intros Hk; split; apply (K_both a (b + 1)); try exact Hk; cbn; lia).
    assert (Wh : forall y x q, C (y, x, q) -> negb (cov (cst y x) q) = true).
    { intros y x q H. apply qreach_end in H. destruct H as [_ H]. exact H. }
    pose proof (all4_spec _ t_lattice (cst (py - 1) (px - 1)) (cst py (px - 1)) (cst py px) (cst (py - 1) px)
                  (cst_le _ _) (cst_le _ _) (cst_le _ _) (cst_le _ _)) as T. cbv beta in T.
    assert (All : (Kd a b /\ Kd (a + 1) b /\ Kd (a + 1) (b + 1)) \/ (Kd a b /\ Kd (a + 1) b /\ Kd a (b + 1)) \/
                  (Kd a b /\ Kd (a + 1) (b + 1) /\ Kd a (b + 1)) \/ (Kd (a + 1) b /\ Kd (a + 1) (b + 1) /\ Kd a (b + 1)) ->
                  Kd a b /\ Kd (a + 1) b /\ Kd (a + 1) (b + 1) /\ Kd a (b + 1)).
    { intros Hyp.
      assert (Prem : (h_W (cst (py - 1) (px - 1)) (cst py (px - 1)) && h_S (cst py (px - 1)) (cst py px) && h_E (cst py px) (cst (py - 1) px)
                      || h_W (cst (py - 1) (px - 1)) (cst py (px - 1)) && h_S (cst py (px - 1)) (cst py px) && h_N (cst (py - 1) px) (cst (py - 1) (px - 1))
                      || h_W (cst (py - 1) (px - 1)) (cst py (px - 1)) && h_E (cst py px) (cst (py - 1) px) && h_N (cst (py - 1) px) (cst (py - 1) (px - 1))
                      || h_S (cst py (px - 1)) (cst py px) && h_E (cst py px) (cst (py - 1) px) && h_N (cst (py - 1) px) (cst (py - 1) (px - 1))) = true).
      { unfold h_W, h_S, h_E, h_N.
        destruct Hyp as [[A [B D]]|[[A [B D]]|[[A [B D]]|[A [B D]]]]];
          repeat match goal with
                 | H : Kd a b |- _ => destruct (KW H) as [? ?]; clear H
                 | H : Kd (a + 1) b |- _ => destruct (KS H) as [? ?]; clear H
                 | H : Kd (a + 1) (b + 1) |- _ => destruct (KE H) as [? ?]; clear H
                 | H : Kd a (b + 1) |- _ => destruct (KN H) as [? ?]; clear H
                 end;
          repeat match goal with H : qreach cst s0 _ |- _ => apply Wh in H; rewrite H; clear H end;
          cbn [andb orb]; rewrite ?orb_true_r; reflexivity. }
      apply (imp_elim _ _ T) in Prem.
      assert (V : vok4 (cst (py - 1) (px - 1)) (cst py (px - 1)) (cst py px) (cst (py - 1) px) = true) by (apply HL; lia).
      apply (imp_elim _ _ Prem) in V. unfold h_W, h_S, h_E, h_N in V.
      apply andb_true_iff in V. destruct V as [V VN]. apply andb_true_iff in V. destruct V as [V VE].
      apply andb_true_iff in V. destruct V as [VW VS].
      apply andb_true_iff in VW. destruct VW as [w1 w2]. apply andb_true_iff in VS. destruct VS as [w3 w4].
      apply andb_true_iff in VE. destruct VE as [w5 w6]. apply andb_true_iff in VN. destruct VN as [w7 w0].
      (* now all eight half sectors are white *)
      assert (W1 : white u1) by (split; [cbn; lia|exact w1]). assert (W2 : white u2) by (split; [cbn; lia|exact w2]).
      assert (W3 : white u3) by (split; [cbn; lia|exact w3]). assert (W4 : white u4) by (split; [cbn; lia|exact w4]).
      assert (W5 : white u5) by (split; [cbn; lia|exact w5]). assert (W6 : white u6) by (split; [cbn; lia|exact w6]).
      assert (W7 : white u7) by (split; [cbn; lia|exact w7]). assert (W0 : white u0) by (split; [cbn; lia|exact w0]).
      (* adjacency around the point *)
      assert (A12 : qadj u1 u2) by (unfold u1, u2; replace py with (py - 1 + 1) at 2 by lia; apply adj_down).
      assert (A23 : qadj u2 u3) by (apply (adj_next py (px - 1) 0); lia).
      assert (A34 : qadj u3 u4) by (unfold u3, u4; replace px with (px - 1 + 1) at 2 by lia; apply adj_right).
      assert (A45 : qadj u4 u5) by (apply (adj_next py px 3); lia).
      assert (A56 : qadj u5 u6) by (apply adj_up).
      assert (A67 : qadj u6 u7) by (apply (adj_next (py - 1) px 2); lia).
      assert (A70 : qadj u7 u0) by (apply adj_left).
      assert (A01 : qadj u0 u1) by (apply (adj_next (py - 1) (px - 1) 1); lia).
      assert (Some1 : C u1 \/ C u5).
      { destruct Hyp as [[A _]|[[A _]|[[A _]|[_ [A _]]]]]; first [left; apply (KW A)|right; apply (KE A)]. }
      assert (Cyc : C u1 -> C u2 /\ C u3 /\ C u4 /\ C u5 /\ C u6 /\ C u7 /\ C u0).
      { intros M1.
        pose proof (C_adj _ _ M1 A12 W2) as M2. pose proof (C_adj _ _ M2 A23 W3) as M3.
        pose proof (C_adj _ _ M3 A34 W4) as M4. pose proof (C_adj _ _ M4 A45 W5) as M5.
        pose proof (C_adj _ _ M5 A56 W6) as M6. pose proof (C_adj _ _ M6 A67 W7) as M7.
        pose proof (C_adj _ _ M7 A70 W0) as M0. tauto. }
      assert (M1 : C u1).
      { destruct Some1 as [M|M5]; [exact M|].
        pose proof (C_adj _ _ M5 A56 W6) as M6. pose proof (C_adj _ _ M6 A67 W7) as M7.
        pose proof (C_adj _ _ M7 A70 W0) as M0. apply (C_adj _ _ M0 A01 W1). }
      destruct (Cyc M1) as [M2 [M3 [M4 [M5 [M6 [M7 M0]]]]]].
      repeat split.
      - exists u1. split; [exact M1|cbn; lia].
      - exists u3. split; [exact M3|cbn; lia].
      - exists u5. split; [exact M5|cbn; lia].
      - exists u7. split; [exact M7|cbn; lia]. }
    repeat split; intros; apply All; tauto.
  Qed.

  (* windows centred on a cell centre *)
  Lemma window_centre y x :
    let a := x + y in let b := x - y - 1 in
    (Kd a b -> Kd (a + 1) b -> Kd a (b + 1) -> Kd (a + 1) (b + 1)) /\
    (Kd a b -> Kd (a + 1) b -> Kd (a + 1) (b + 1) -> Kd a (b + 1)) /\
    (Kd a b -> Kd a (b + 1) -> Kd (a + 1) (b + 1) -> Kd (a + 1) b) /\
    (Kd (a + 1) b -> Kd a (b + 1) -> Kd (a + 1) (b + 1) -> Kd a b).
  Proof.
    intros a b.
    assert (KW : Kd a b -> C (y, x, 3%nat)) by (intros Hk; apply (K_both a b); try exact Hk; cbn; lia).
    assert (KS : Kd (a + 1) b -> C (y, x, 2%nat)) by (intros Hk; apply (K_both (a + 1) b); try exact Hk; cbn; lia).
    assert (KN : Kd a (b + 1) -> C (y, x, 0%nat)) by (intros Hk; apply (K_both a (b + 1)); try exact Hk; cbn; lia).
    assert (KE : Kd (a + 1) (b + 1) -> C (y, x, 1%nat)) by (intros Hk; apply (K_both (a + 1) (b + 1)); try exact Hk; cbn; lia).
    assert (Wh : forall q, C (y, x, q) -> cov (cst y x) q = false).
    { intros q H. apply qreach_end in H. destruct H as [_ H]. unfold ShakashakaGeo.wq in H. apply negb_true_iff in H. exact H. }
    assert (Emp : forall q1 q2 q3 : nat, (q1 < 4)%nat -> (q2 < 4)%nat -> (q3 < 4)%nat -> q1 <> q2 -> q1 <> q3 -> q2 <> q3 ->
              C (y, x, q1) -> C (y, x, q2) -> C (y, x, q3) -> forall q, (q < 4)%nat -> C (y, x, q)).
    { intros q1 q2 q3 H1 H2 H3 N1 N2 N3 M1 M2 M3 q Hq.
      assert (E : cst y x = 0%nat).
      { apply (three_uncovered (cst y x) q1 q2 q3 (cst_le y x) H1 H2 H3 N1 N2 N3 (Wh _ M1) (Wh _ M2) (Wh _ M3)). }
      assert (W : forall k, (k < 4)%nat -> white (y, x, k)).
      { intros k Hk. split; [exact Hk|]. unfold ShakashakaGeo.wq. rewrite E. reflexivity. }
      assert (Nx : forall k, (k < 4)%nat -> C (y, x, k) -> C (y, x, Nat.modulo (k + 1) 4)).
      { intros k Hk M. apply (C_adj _ _ M (adj_next y x k Hk)). apply W. apply Nat.mod_upper_bound. lia. }
      pose proof (Nx q1 H1 M1) as R1.
      pose proof (Nx _ ltac:(apply Nat.mod_upper_bound; lia) R1) as R2.
      pose proof (Nx _ ltac:(apply Nat.mod_upper_bound; lia) R2) as R3.
      do 4 (destruct q1 as [|q1]; [do 4 (destruct q as [|q]; [first [exact M1|exact R1|exact R2|exact R3]|]); lia|]). lia. }
    repeat split; intros A B D.
    - exists (y, x, 1%nat). split; [|cbn; lia]. apply (Emp 3%nat 2%nat 0%nat); try lia; auto.
    - exists (y, x, 0%nat). split; [|cbn; lia]. apply (Emp 3%nat 2%nat 1%nat); try lia; auto.
    - exists (y, x, 2%nat). split; [|cbn; lia]. apply (Emp 3%nat 0%nat 1%nat); try lia; auto.
    - exists (y, x, 3%nat). split; [|cbn; lia]. apply (Emp 2%nat 0%nat 1%nat); try lia; auto.
  Qed.

  Lemma Kd_windows a b :
    (Kd a b -> Kd (a + 1) b -> Kd a (b + 1) -> Kd (a + 1) (b + 1)) /\
    (Kd a b -> Kd (a + 1) b -> Kd (a + 1) (b + 1) -> Kd a (b + 1)) /\
    (Kd a b -> Kd a (b + 1) -> Kd (a + 1) (b + 1) -> Kd (a + 1) b) /\
    (Kd (a + 1) b -> Kd a (b + 1) -> Kd (a + 1) (b + 1) -> Kd a b).
  Proof.
    destruct (window_kind a b) as [[py [px [-> ->]]]|[y [x [-> ->]]]]; [apply window_lattice|apply window_centre].
  Qed.

  Theorem diag_rect : RectD (qreach cst s0).
  Proof.
    assert (K0 : Kd (da s0) (db s0)) by (apply K_of; apply qr_refl; exact s0_white).
    destruct (poly_box Kd (Hb + Wb + 2) Kd_dec Kd_bound
                (fun a b => proj1 (Kd_windows a b)) (fun a b => proj1 (proj2 (Kd_windows a b)))
                (fun a b => proj1 (proj2 (proj2 (Kd_windows a b)))) (fun a b => proj2 (proj2 (proj2 (Kd_windows a b))))
                (da s0) (db s0) K0) as [a1 [a2 [b1 [b2 Box]]]].
    - (* connectivity of the diamonds *)
      intros a b [t [Ht [<- <-]]].
      induction Ht as [|t t' Ht IH A W].
      + apply kr0.
      + destruct (qadj_diamond t t' A) as [[-> ->]|St]; [exact IH|].
        eapply kr_step; [exact IH|exact St|]. apply K_of. eapply qr_step; eassumption.
    - exists a1, a2, b1, b2. intros t Hq. split.
      + intros Ht. apply Box. apply K_of. exact Ht.
      + intros Hbox. apply Box in Hbox. apply (K_both (da t) (db t)); [exact Hbox|exact Hq|reflexivity|reflexivity].
  Qed.
End Diag.
