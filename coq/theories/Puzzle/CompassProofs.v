(* C11 Tier 1 - compass: for every board shape and every layout of compasses and numbers, the program posted by
   solve_compass (model Compass.v: the division grid = the answer keys, the connectivity helper of property C05
   with one group per compass rooted at the compass cell, division[y, x] == i, and the four directional counts)
   has a model whose answer-key variables (the division grid) read as [ans] exactly when [ans] obeys Rules_compass.
   Only the variables of the connectivity encoding (rank, is_root, spanning_forest) are existential.
   Contents:
     A. slices of the board as filtered cell lists;
     B. meaning of the constraints posted after the division_connected call;
     C. composition with C05 when the division variables themselves are the answer keys;
     D. the rules vs. the specification of division_connected + the local constraints;
     E. compass_exact, the answer-key ids, and when the model returns a state. *)
From Coq Require Import ZArith List Bool Arith Lia.
From Cspuz Require Import Lib.PyErr Core.Expr Core.Program Core.Build Graph.GraphModel Graph.ReachProofs Graph.AvcProofs
     Graph.Division Graph.DivisionEval Graph.DivisionProofs Graph.DivisionMain
     Puzzle.PuzzleBase Puzzle.SatAbs Puzzle.ModelBase Puzzle.ModelLemmas Puzzle.CreekProofs
     Puzzle.HeyawakeLemmas Puzzle.DivisionCompose Puzzle.Rules_compass Puzzle.Compass.
Import ListNotations.
Local Open Scope nat_scope.

(* ------------------------------------------------------------------------ *)
(* A. slices                                                                  *)

Lemma cp_filter_flat_map {A B} (p : B -> bool) (g : A -> list B) l :
  filter p (flat_map g l) = flat_map (fun a => filter p (g a)) l.
Proof. induction l as [|a r IH]; simpl; [reflexivity|]. rewrite filter_app, IH. reflexivity. Qed.

Lemma cp_flat_map_if {A B} (p : A -> bool) (g : A -> list B) l :
  flat_map (fun a => if p a then g a else []) l = flat_map g (filter p l).
Proof. induction l as [|a r IH]; simpl; [reflexivity|]. destruct (p a); simpl; rewrite IH; reflexivity. Qed.

Definition cp_in_range (a n x : nat) : bool := Nat.leb a x && Nat.ltb x (a + n).

Lemma cp_in_range_spec a n x : cp_in_range a n x = true <-> a <= x < a + n.
Proof. unfold cp_in_range. rewrite andb_true_iff, Nat.leb_le, Nat.ltb_lt. tauto. Qed.

Lemma cp_filter_seq_range a n m : a + n <= m -> filter (cp_in_range a n) (seq 0 m) = seq a n.
Proof.
  intros H. replace m with (a + (n + (m - a - n))) by lia. rewrite !seq_app, !filter_app. simpl.
  rewrite filter_none, filter_all, filter_none.
  - rewrite app_nil_r. reflexivity.
  - intros x Hx. apply in_seq in Hx. destruct (cp_in_range a n x) eqn:E; [|reflexivity].
    apply cp_in_range_spec in E. lia.
  - intros x Hx. apply in_seq in Hx. apply cp_in_range_spec. lia.
  - intros x Hx. apply in_seq in Hx. destruct (cp_in_range a n x) eqn:E; [|reflexivity].
    apply cp_in_range_spec in E. lia.
Qed.

Definition cp_in_rect (y0 ny x0 nx : nat) (c : nat * nat) : bool :=
  cp_in_range y0 ny (fst c) && cp_in_range x0 nx (snd c).

Lemma cp_rect_filter h w y0 ny x0 nx : y0 + ny <= h -> x0 + nx <= w ->
  filter (cp_in_rect y0 ny x0 nx) (cells h w) = cp_rect y0 ny x0 nx.
Proof.
  intros Hy Hx. unfold cells, cp_rect. rewrite cp_filter_flat_map.
  transitivity (flat_map (fun y => if cp_in_range y0 ny y then map (fun x => (y, x)) (seq x0 nx) else []) (seq 0 h)).
  - apply flat_map_ext. intros y. rewrite <- map_filter_comm. unfold cp_in_rect. cbn [fst snd].
    destruct (cp_in_range y0 ny y); cbn [andb].
    + change (fun a : nat => cp_in_range x0 nx a) with (cp_in_range x0 nx).
      rewrite (cp_filter_seq_range x0 nx w Hx). reflexivity.
    + rewrite filter_none by (intros; reflexivity). reflexivity.
  - rewrite cp_flat_map_if, (cp_filter_seq_range y0 ny h Hy). reflexivity.
Qed.

Lemma cp_count_rect h w y0 ny x0 nx (f : nat * nat -> bool) : y0 + ny <= h -> x0 + nx <= w ->
  count f (cp_rect y0 ny x0 nx) = count (fun c => f c && cp_in_rect y0 ny x0 nx c) (cells h w).
Proof.
  intros Hy Hx. rewrite <- (cp_rect_filter h w y0 ny x0 nx Hy Hx), count_filter.
  apply count_ext_in. intros c _. apply andb_comm.
Qed.

Lemma cp_rect_in y0 ny x0 nx y x :
  In (y, x) (cp_rect y0 ny x0 nx) <-> (y0 <= y < y0 + ny /\ x0 <= x < x0 + nx).
Proof.
  unfold cp_rect. rewrite in_flat_map. split.
  - intros [y' [Hy' Hin]]. apply in_map_iff in Hin. destruct Hin as [x' [E Hx']]. inversion E; subst.
    apply in_seq in Hy'. apply in_seq in Hx'. lia.
  - intros [Hy Hx]. exists y. split; [apply in_seq; lia|]. apply in_map_iff. exists x. split; [reflexivity|apply in_seq; lia].
Qed.

(* ------------------------------------------------------------------------ *)
(* B. meaning of the constraints posted after the division_connected call      *)

(* number of cells of the slice carrying label i *)
Definition cp_cnt (w : nat) (d : nat -> Z) (i : nat) (cs : list (nat * nat)) : Z :=
  Z.of_nat (count (fun c => (d (cidx w c) =? Z.of_nat i)%Z) cs).

Definition cp_ok (w : nat) (d : nat -> Z) (i : nat) (cs : list (nat * nat)) (c : Z) : bool :=
  ((c <? 0) || (cp_cnt w d i cs =? c))%Z.

Definition cp_local_i (h w : nat) (cps : list Z) (d : nat -> Z) (i : nat) : bool :=
  let f := cp_field cps i in
  let y := zn (f 0) in let x := zn (f 1) in
  (d (cidx w (y, x)) =? Z.of_nat i)%Z &&
  cp_ok w d i (cp_rect 0 y 0 w) (f 2) &&
  cp_ok w d i (cp_rect (S y) (h - S y) 0 w) (f 4) &&
  cp_ok w d i (cp_rect 0 h 0 x) (f 3) &&
  cp_ok w d i (cp_rect 0 h (S x) (w - S x)) (f 5).

Definition cp_local (h w : nat) (cps : list Z) (k : nat) (d : nat -> Z) : bool :=
  forallb (cp_local_i h w cps d) (seq 0 k).

Lemma eval_cp_count gsem en k w i cs :
  eval gsem en (cp_count k w i cs) = Some (VI (cp_cnt w (ei en) i cs)).
Proof.
  destruct cs as [|c0 r]; [reflexivity|].
  unfold cp_count, cp_cnt. set (l := c0 :: r). assert (Hne : l <> []) by discriminate. clearbody l.
  cbn [eval]. rewrite map_map.
  rewrite (map_ext _ (fun c => Some (VI (if (ei en (cidx w c) =? Z.of_nat i)%Z then 1 else 0)%Z)))
    by (intros c; unfold cp_div; simpl; destruct (ei en (cidx w c) =? Z.of_nat i)%Z; reflexivity).
  rewrite <- (map_map (fun c => (if (ei en (cidx w c) =? Z.of_nat i)%Z then 1 else 0)%Z) (fun z => Some (VI z))).
  rewrite eval_iop_add_ints by (destruct l; [contradiction|discriminate]).
  f_equal. f_equal. unfold count, zsum. clear.
  induction l as [|a r IH]; [reflexivity|]. cbn [map fold_right filter].
  destruct (ei en (cidx w a) =? Z.of_nat i)%Z; cbn [length]; rewrite IH; lia.
Qed.

Lemma holds_cp_clue gsem en k w i cs c :
  forallb (holds gsem en) (cp_clue k w i cs c) = cp_ok w (ei en) i cs c.
Proof.
  unfold cp_clue, cp_ok. destruct (Z.leb_spec 0 c), (Z.ltb_spec c 0); try lia; [|reflexivity].
  cbn [forallb orb]. rewrite andb_true_r. unfold holds. cbn [eval map]. rewrite eval_cp_count. simpl.
  destruct (cp_cnt w (ei en) i cs =? c)%Z; reflexivity.
Qed.

Lemma cp_constraints_sem h w cps k en l :
  forallb (holds division_gsem en) (flat_map (cp_compass h w cps k) l) =
  forallb (cp_local_i h w cps (ei en)) l.
Proof.
  rewrite forallb_flat_map. apply forallb_ext_in. intros i _.
  unfold cp_compass, cp_local_i. cbn [forallb]. rewrite !forallb_app, !holds_cp_clue, !andb_assoc.
  f_equal. f_equal. f_equal. f_equal.
  unfold holds, cp_div. simpl.
  match goal with |- _ = ?X => destruct X end; reflexivity.
Qed.

(* compasses inside the board *)
Definition cp_inside (h w : nat) (cps : list Z) (k : nat) : Prop :=
  forall i, i < k -> zn (cp_field cps i 0) < h /\ zn (cp_field cps i 1) < w.

Lemma cp_cnt_ext h w d d' i cs :
  (forall v, v < h * w -> d v = d' v) -> (forall y x, In (y, x) cs -> y < h /\ x < w) ->
  cp_cnt w d i cs = cp_cnt w d' i cs.
Proof.
  intros E Hin. unfold cp_cnt. f_equal. apply count_ext_in. intros [y x] Hc.
  destruct (Hin y x Hc) as [Hy Hx]. rewrite E by (apply (cidx_lt h w); assumption). reflexivity.
Qed.

Lemma cp_local_ext h w cps k d d' :
  cp_inside h w cps k -> (forall v, v < h * w -> d v = d' v) -> cp_local h w cps k d = cp_local h w cps k d'.
Proof.
  intros Hin E. unfold cp_local. apply forallb_ext_in. intros i Hi. apply in_seq in Hi.
  destruct (Hin i ltac:(lia)) as [Hy Hx]. unfold cp_local_i, cp_ok.
  rewrite (E (cidx w (zn (cp_field cps i 0), zn (cp_field cps i 1)))) by (apply (cidx_lt h w); assumption).
  rewrite !(cp_cnt_ext h w d d' i) by
    (try exact E; intros y x Hc; apply cp_rect_in in Hc; lia).
  reflexivity.
Qed.

(* ------------------------------------------------------------------------ *)
(* C. composition with C05, the division grid being the answer                *)

Lemma cp_skipn_repeat {A} (a : A) n m : skipn n (repeat a (n + m)) = repeat a m.
Proof. induction n as [|n IH]; simpl; [reflexivity|exact IH]. Qed.

Lemma key_ids_prefix vs n a cs :
  key_ids {| vars := vs; keys := repeat true n ++ repeat false a; cons := cs |} = seq 0 n.
Proof.
  unfold key_ids; simpl. rewrite app_length, !repeat_length, seq_app, filter_app. simpl.
  rewrite filter_all, filter_none; [apply app_nil_r| |].
  - intros i Hi. apply in_seq in Hi. rewrite app_nth2 by (rewrite repeat_length; lia).
    rewrite repeat_length. apply nth_repeat.
  - intros i Hi. apply in_seq in Hi. rewrite app_nth1 by (rewrite repeat_length; lia).
    rewrite (nth_indep _ false true) by (rewrite repeat_length; lia). apply nth_repeat.
Qed.

Section ComposeKeys.
  Variables (h w : nat) (hi : Z) (R : nat) (rs : list grid_root) (aeg : bool).
  Variables (st0 : state) (data : list expr) (st1 : state).
  Hypothesis Hdecl : int_array empty_state (h * w) 0 hi = Ok (st0, data).
  Hypothesis Hcall :
    division_connected st0 (D2 h w data) R None (Some (map grid_root_arg rs)) aeg false = Ok st1.
  Variable extra : list expr.
  Variable local : (nat -> Z) -> bool.
  Hypothesis Hloc : forall en, forallb (holds division_gsem en) extra = local (ei en).
  Hypothesis Hlocal_ext : forall d d', (forall v, v < h * w -> d v = d' v) -> local d = local d'.

  (* the state after `solver.add_answer_key(division)` and the further constraints *)
  Definition division_keys_state : state :=
    {| vars := vars st1;
       keys := repeat true (h * w) ++ skipn (h * w) (keys st1);
       cons := cons st1 ++ extra |}.

  Let n := h * w.
  Let g := grid_graph h w.
  Let roots := Some (map (grid_root_vertex w) rs).

  Let Hpost := compose_post h w R rs aeg st0 data st1 Hcall.
  Let Hd := compose_decl h w hi R rs aeg st0 data st1 Hdecl Hcall.

  Lemma dk_keys : key_ids division_keys_state = seq 0 n.
  Proof.
    unfold division_keys_state. rewrite (post_division_keys _ _ _ _ _ _ _ Hpost).
    destruct Hd as [E0 _]. rewrite E0. unfold add_decls; simpl keys. rewrite repeat_length.
    rewrite <- repeat_app, cp_skipn_repeat. apply key_ids_prefix.
  Qed.

  Lemma dk_reads en : reads division_keys_state en (seq 0 n) = map (ei en) (seq 0 n).
  Proof.
    unfold reads. apply map_ext_in. intros v Hv. apply in_seq in Hv.
    unfold read_var, division_keys_state; simpl.
    destruct (compose_vars h w hi R rs aeg st0 data st1 Hdecl Hcall) as [new [Ev _]]. rewrite Ev.
    rewrite nth_error_app1 by (rewrite repeat_length; fold n; lia).
    rewrite (nth_error_nth' _ (DInt 0 hi)) by (rewrite repeat_length; fold n; lia). rewrite nth_repeat. reflexivity.
  Qed.

  Lemma dk_split en :
    model_of division_gsem en division_keys_state <->
    (model_of division_gsem en st1 /\ forallb (holds division_gsem en) extra = true).
  Proof.
    unfold model_of, in_bounds, satisfies, division_keys_state; simpl.
    rewrite forallb_app, andb_true_iff. tauto.
  Qed.

  Theorem division_keys_compose ans :
    (exists en, model_of division_gsem en division_keys_state /\
                reads division_keys_state en (key_ids division_keys_state) = ans)
    <-> (length ans = n /\ (forall v, v < n -> (0 <= getz ans v <= hi)%Z) /\
         spec_division g R (getz ans) roots aeg /\ local (getz ans) = true).
  Proof.
    rewrite dk_keys.
    pose proof (division_exact_models st0 (SArr data) R g roots aeg false st1) as EX.
    assert (Hwf : wf_graph g = true) by apply grid_wf.
    assert (Hlen : length (seq_data (SArr data)) = nv g)
      by (simpl; apply (compose_data_len h w hi R rs aeg st0 data st1 Hdecl Hcall)).
    pose proof (compose_labels_ok h w hi R rs aeg st0 data st1 Hdecl Hcall) as Hlab.
    pose proof (compose_closed0 h w hi R rs aeg st0 data st1 Hdecl Hcall) as Hcl0.
    pose proof (compose_next0 h w hi R rs aeg st0 data st1 Hdecl Hcall) as Hn0.
    pose proof (compose_label_of h w hi R rs aeg st0 data st1 Hdecl Hcall) as Hlo.
    split.
    - intros [en [Hm Hr]]. rewrite dk_reads in Hr. subst ans.
      apply dk_split in Hm. destruct Hm as [Hm1 Hex].
      assert (Hb : forall v, v < n -> (0 <= ei en v <= hi)%Z).
      { destruct Hm1 as [Hb _]. unfold in_bounds in Hb.
        destruct (compose_vars h w hi R rs aeg st0 data st1 Hdecl Hcall) as [new [Ev _]]. rewrite Ev in Hb.
        rewrite in_bounds_from_app in Hb. apply andb_true_iff in Hb. destruct Hb as [Hb _].
        intros v Hv. apply (proj1 (in_bounds_repeat_int en 0%Z hi n 0) Hb v Hv). }
      split; [rewrite map_length, seq_length; reflexivity|].
      split; [intros v Hv; rewrite getz_map_seq by exact Hv; apply Hb; exact Hv|].
      split.
      + apply (spec_division_ext_below g R (label_of division_gsem en data)); [exact Hwf| |].
        * intros v Hv. rewrite (Hlo en v Hv). symmetry. apply getz_map_seq. exact Hv.
        * apply (EX en Hwf Hlen Hlab Hcl0 (compose_model0 h w hi R rs aeg st0 data st1 Hdecl Hcall en Hb) Hpost).
          exists en. split; [apply agree_below_refl|exact Hm1].
      + rewrite Hloc in Hex. rewrite <- Hex. apply Hlocal_ext.
        intros v Hv. apply getz_map_seq. exact Hv.
    - intros [Hl [Hb [Hspec Hlc]]].
      set (en0 := {| eb := fun _ => false; ei := getz ans |}).
      assert (Hm0 : model_of division_gsem en0 st0)
        by (apply (compose_model0 h w hi R rs aeg st0 data st1 Hdecl Hcall); exact Hb).
      assert (Hspec0 : spec_division g R (label_of division_gsem en0 (seq_data (SArr data))) roots aeg).
      { apply (spec_division_ext_below g R (getz ans)); [exact Hwf| |exact Hspec].
        intros v Hv. simpl. rewrite (Hlo en0 v Hv). reflexivity. }
      apply (EX en0 Hwf Hlen Hlab Hcl0 Hm0 Hpost) in Hspec0.
      destruct Hspec0 as [en1 [Hag Hm1]]. rewrite Hn0 in Hag.
      exists en1. split.
      + apply dk_split. split; [exact Hm1|]. rewrite Hloc, <- Hlc. apply Hlocal_ext.
        intros v Hv. destruct (Hag v Hv) as [_ E]. simpl in E. symmetry. exact E.
      + rewrite dk_reads. transitivity (map (getz ans) (seq 0 (length ans))); [|apply map_getz_seq].
        rewrite Hl. apply map_ext_in. intros v Hv. apply in_seq in Hv.
        destruct (Hag v ltac:(fold n; lia)) as [_ E]. simpl in E. symmetry. exact E.
  Qed.
End ComposeKeys.

(* ------------------------------------------------------------------------ *)
(* D. the rules vs. the specification of the call + the local constraints      *)

(* roots given as a list of cells: the i-th cell carries label k + i *)
Lemma cp_roots_hold_cells h w (d : nat -> Z) : forall (cl : list (nat * nat)) k,
  (forall c, In c cl -> fst c < h /\ snd c < w) ->
  (roots_hold (h * w) d k (map (fun c => grid_root_vertex w (GCell (Z.of_nat (fst c)) (Z.of_nat (snd c)))) cl) = true
   <-> forall i, i < length cl -> d (cidx w (nth i cl (0, 0))) = Z.of_nat (k + i)).
Proof.
  induction cl as [|c cl IH]; intros k Hin.
  - simpl. split; [intros _ i Hi; lia|reflexivity].
  - cbn [map roots_hold].
    destruct (Hin c (or_introl eq_refl)) as [Hy Hx].
    pose proof (grid_root_vertex_cell h w (fst c) (snd c) Hy Hx) as Hv. simpl nv in Hv. rewrite Hv.
    rewrite andb_true_iff, Z.eqb_eq, (IH (S k)) by (intros c' Hc'; apply Hin; right; exact Hc').
    split.
    + intros [H0 Hr] i Hi. destruct i as [|i]; [rewrite Nat.add_0_r; exact H0|].
      simpl in Hi. cbn [nth]. rewrite (Hr i) by lia. f_equal. lia.
    + intros H. split; [specialize (H 0 ltac:(simpl; lia)); rewrite Nat.add_0_r in H; exact H|].
      intros i Hi. specialize (H (S i) ltac:(simpl; lia)). cbn [nth] in H. rewrite H. f_equal. lia.
Qed.

Section Core.
  Variables (h w : nat) (cps : list Z) (ans : answer).

  Definition cp_k : nat := Nat.div (length cps) 6.
  Definition cp_g : graph := grid_graph h w.
  Definition cp_d : nat -> Z := getz ans.
  Definition cp_cell (i : nat) : nat * nat := (zn (cp_field cps i 0), zn (cp_field cps i 1)).
  Definition cp_rs : list grid_root := map (fun i => GCell (cp_field cps i 0) (cp_field cps i 1)) (seq 0 cp_k).
  Definition cp_roots : option (list root_arg) := Some (map (grid_root_vertex w) cp_rs).

  Notation k := cp_k. Notation g := cp_g. Notation d := cp_d.

  (* coordinates are natural numbers inside the board: what the model checks before returning a state *)
  Hypothesis Hnonneg : forall i, i < k -> (0 <= cp_field cps i 0)%Z /\ (0 <= cp_field cps i 1)%Z.
  Hypothesis Hinside : cp_inside h w cps k.

  (* the rule specification, conjunct by conjunct *)
  Definition cp_rule_i (i : nat) : bool :=
    let f := fun j => getz cps (6 * i + j) in
    let cy := zn (f 0) in let cx := zn (f 1) in
    let mine := fun '(y, x) => (at2 ans w y x =? Z.of_nat i)%Z in
    let ok := fun c (p : nat * nat -> bool) =>
                (c <? 0)%Z || (zcount (fun q => mine q && p q) (cells h w) =? c)%Z in
    mine (cy, cx) &&
    cells_connected h w (fun v => (getz ans v =? Z.of_nat i)%Z) &&
    ok (f 2) (fun '(y, _) => Nat.ltb y cy) && ok (f 3) (fun '(_, x) => Nat.ltb x cx) &&
    ok (f 4) (fun '(y, _) => Nat.ltb cy y) && ok (f 5) (fun '(_, x) => Nat.ltb cx x).

  Lemma rules_compass_split :
    rules_compass [[Z.of_nat h; Z.of_nat w]; cps] ans =
    Nat.eqb (length ans) (h * w) && forallb (fun v => ((0 <=? v) && (v <? Z.of_nat k))%Z) ans &&
    forallb cp_rule_i (seq 0 k).
  Proof.
    unfold rules_compass. destruct (dims2c h w [cps]) as [-> ->].
    change (sec [[Z.of_nat h; Z.of_nat w]; cps] 1) with cps. reflexivity.
  Qed.

  Lemma cp_cnt_slice i y0 ny x0 nx (p : nat * nat -> bool) :
    y0 + ny <= h -> x0 + nx <= w ->
    (forall y x, y < h -> x < w -> cp_in_rect y0 ny x0 nx (y, x) = p (y, x)) ->
    cp_cnt w d i (cp_rect y0 ny x0 nx) =
    zcount (fun q => (let '(y, x) := q in (at2 ans w y x =? Z.of_nat i)%Z) && p q) (cells h w).
  Proof.
    intros Hy Hx Hp. unfold cp_cnt, zcount. f_equal.
    rewrite (cp_count_rect h w y0 ny x0 nx _ Hy Hx). apply count_ext_in.
    intros [y x] Hc. apply cells_in in Hc. destruct Hc as [Hyc Hxc].
    rewrite (Hp y x Hyc Hxc). reflexivity.
  Qed.

  Lemma cp_rule_local i : i < k ->
    cp_rule_i i = cp_local_i h w cps d i && connected_b g (class_of d i).
  Proof.
    intros Hi. destruct (Hinside i Hi) as [Hy Hx].
    unfold cp_rule_i, cp_local_i, cp_ok.
    change (getz cps (6 * i + 0)) with (cp_field cps i 0). change (getz cps (6 * i + 1)) with (cp_field cps i 1).
    change (getz cps (6 * i + 2)) with (cp_field cps i 2). change (getz cps (6 * i + 3)) with (cp_field cps i 3).
    change (getz cps (6 * i + 4)) with (cp_field cps i 4). change (getz cps (6 * i + 5)) with (cp_field cps i 5).
    set (cy := zn (cp_field cps i 0)) in *. set (cx := zn (cp_field cps i 1)) in *.
    rewrite (cp_cnt_slice i 0 cy 0 w (fun '(y, _) => Nat.ltb y cy)); [|lia|lia|].
    2:{ intros y x Hyc Hxc. unfold cp_in_rect, cp_in_range. cbn [fst snd].
        destruct (Nat.leb_spec 0 y), (Nat.ltb_spec y (0 + cy)), (Nat.leb_spec 0 x), (Nat.ltb_spec x (0 + w)),
          (Nat.ltb_spec y cy); try lia; reflexivity. }
    rewrite (cp_cnt_slice i (S cy) (h - S cy) 0 w (fun '(y, _) => Nat.ltb cy y)); [|lia|lia|].
    2:{ intros y x Hyc Hxc. unfold cp_in_rect, cp_in_range. cbn [fst snd].
        destruct (Nat.leb_spec (S cy) y), (Nat.ltb_spec y (S cy + (h - S cy))), (Nat.leb_spec 0 x),
          (Nat.ltb_spec x (0 + w)), (Nat.ltb_spec cy y); try lia; reflexivity. }
    rewrite (cp_cnt_slice i 0 h 0 cx (fun '(_, x) => Nat.ltb x cx)); [|lia|lia|].
    2:{ intros y x Hyc Hxc. unfold cp_in_rect, cp_in_range. cbn [fst snd].
        destruct (Nat.leb_spec 0 y), (Nat.ltb_spec y (0 + h)), (Nat.leb_spec 0 x), (Nat.ltb_spec x (0 + cx)),
          (Nat.ltb_spec x cx); try lia; reflexivity. }
    rewrite (cp_cnt_slice i 0 h (S cx) (w - S cx) (fun '(_, x) => Nat.ltb cx x)); [|lia|lia|].
    2:{ intros y x Hyc Hxc. unfold cp_in_rect, cp_in_range. cbn [fst snd].
        destruct (Nat.leb_spec 0 y), (Nat.ltb_spec y (0 + h)), (Nat.leb_spec (S cx) x),
          (Nat.ltb_spec x (S cx + (w - S cx))), (Nat.ltb_spec cx x); try lia; reflexivity. }
    unfold cells_connected, board, cp_g, class_of, cp_d, at2, cidx. cbn [fst snd].
    set (A := (getz ans (cy * w + cx) =? Z.of_nat i)%Z).
    set (C := connected_b (grid_graph h w) (fun v => (getz ans v =? Z.of_nat i)%Z)).
    set (O2 := ((cp_field cps i 2 <? 0)%Z || _)). set (O3 := ((cp_field cps i 3 <? 0)%Z || _)).
    set (O4 := ((cp_field cps i 4 <? 0)%Z || _)). set (O5 := ((cp_field cps i 5 <? 0)%Z || _)).
    destruct A, C, O2, O3, O4, O5; reflexivity.
  Qed.

  Lemma cp_roots_as_cells :
    map (grid_root_vertex w) cp_rs =
    map (fun c => grid_root_vertex w (GCell (Z.of_nat (fst c)) (Z.of_nat (snd c)))) (map cp_cell (seq 0 k)).
  Proof.
    unfold cp_rs. rewrite !map_map. apply map_ext_in. intros i Hi. apply in_seq in Hi.
    destruct (Hnonneg i ltac:(lia)) as [H0 H1]. unfold cp_cell, zn. cbn [fst snd].
    rewrite !Z2Nat.id by assumption. reflexivity.
  Qed.

  Lemma cp_roots_hold_iff :
    opt_roots_b (roots_hold (nv g) d 0) cp_roots = true <->
    (forall i, i < k -> d (cidx w (cp_cell i)) = Z.of_nat i).
  Proof.
    unfold cp_roots. cbn [opt_roots_b]. rewrite cp_roots_as_cells. simpl nv.
    rewrite (cp_roots_hold_cells h w d (map cp_cell (seq 0 k)) 0).
    - rewrite map_length, seq_length. split; intros H i Hi; specialize (H i Hi).
      + rewrite (nth_indep _ (0, 0) (cp_cell 0)) in H by (rewrite map_length, seq_length; exact Hi).
        rewrite map_nth, seq_nth in H by exact Hi. exact H.
      + rewrite (nth_indep _ (0, 0) (cp_cell 0)) by (rewrite map_length, seq_length; exact Hi).
        rewrite map_nth, seq_nth by exact Hi. exact H.
    - intros c Hc. apply in_map_iff in Hc. destruct Hc as [i [<- Hi]]. apply in_seq in Hi.
      apply (Hinside i). lia.
  Qed.

  Lemma cp_local_roots : cp_local h w cps k d = true -> forall i, i < k -> d (cidx w (cp_cell i)) = Z.of_nat i.
  Proof.
    unfold cp_local. rewrite forallb_forall. intros H i Hi. specialize (H i ltac:(apply in_seq; lia)).
    unfold cp_local_i in H. rewrite !andb_true_iff in H. destruct H as [[[[H _] _] _] _].
    apply Z.eqb_eq in H. exact H.
  Qed.

  Theorem cp_rules_iff_division :
    forallb cp_rule_i (seq 0 k) = true <->
    (spec_division g k d cp_roots false /\ cp_local h w cps k d = true).
  Proof.
    assert (Hwf : wf_graph g = true) by apply grid_wf.
    rewrite (forallb_ext_in _ (fun i => cp_local_i h w cps d i && connected_b g (class_of d i)))
      by (intros i Hi; apply in_seq in Hi; apply cp_rule_local; lia).
    rewrite forallb_and, andb_true_iff. fold (cp_local h w cps k d). split.
    - intros [HL HC]. split; [|exact HL].
      pose proof (cp_local_roots HL) as Hr.
      split; [|split].
      + intros i Hi. apply (connected_b_spec g _ Hwf). rewrite forallb_forall in HC. apply HC. apply in_seq. lia.
      + intros _ i Hi. exists (cidx w (cp_cell i)). split; [|apply Hr; exact Hi].
        destruct (Hinside i Hi) as [Hy Hx]. simpl nv. apply (cidx_lt h w); assumption.
      + apply cp_roots_hold_iff. exact Hr.
    - intros [[HC _] HL]. split; [exact HL|].
      apply forallb_forall. intros i Hi. apply in_seq in Hi. apply (connected_b_spec g _ Hwf). apply HC. lia.
  Qed.
End Core.

(* ------------------------------------------------------------------------ *)
(* E. the theorem                                                            *)

Lemma cp_roots_args cps k :
  map (cp_root cps) (seq 0 k) =
  map grid_root_arg (map (fun i => GCell (cp_field cps i 0) (cp_field cps i 1)) (seq 0 k)).
Proof. rewrite map_map. apply map_ext. intros i. reflexivity. Qed.

Lemma cp_checks h w cps k :
  forallb (cp_nonneg cps) (seq 0 k) = true -> forallb (cp_in_board h w cps) (seq 0 k) = true ->
  (forall i, i < k -> (0 <= cp_field cps i 0)%Z /\ (0 <= cp_field cps i 1)%Z) /\ cp_inside h w cps k.
Proof.
  rewrite !forallb_forall. intros Hn Hb.
  assert (H : forall i, i < k -> (0 <= cp_field cps i 0 < Z.of_nat h)%Z /\ (0 <= cp_field cps i 1 < Z.of_nat w)%Z).
  { intros i Hi. specialize (Hn i ltac:(apply in_seq; lia)). specialize (Hb i ltac:(apply in_seq; lia)).
    unfold cp_nonneg in Hn. unfold cp_in_board in Hb. apply andb_true_iff in Hn. apply andb_true_iff in Hb.
    destruct Hn as [N0 N1]. destruct Hb as [B0 B1].
    apply Z.leb_le in N0. apply Z.leb_le in N1. apply Z.ltb_lt in B0. apply Z.ltb_lt in B1. lia. }
  split; intros i Hi; destruct (H i Hi) as [H0 H1]; [lia|]. unfold zn. lia.
Qed.

Theorem compass_exact h w cps st ans :
  solve_compass_model [[Z.of_nat h; Z.of_nat w]; cps] = Ok st ->
  ((exists en, model_of division_gsem en st /\ reads st en (key_ids st) = ans)
   <-> rules_compass [[Z.of_nat h; Z.of_nat w]; cps] ans = true).
Proof.
  unfold solve_compass_model. destruct (dims2c h w [cps]) as [-> ->].
  change (sec [[Z.of_nat h; Z.of_nat w]; cps] 1) with cps.
  destruct (negb (Nat.eqb (Nat.modulo (length cps) 6) 0)); [discriminate|].
  set (k := Nat.div (length cps) 6).
  destruct (forallb (cp_nonneg cps) (seq 0 k)) eqn:Hnn; [|discriminate]. cbn [negb].
  destruct (int_array empty_state (h * w) 0 (Z.of_nat k - 1)) as [[st0 division]|e] eqn:Hdecl; [|discriminate].
  destruct (division_connected st0 (D2 h w division) k None (Some (map (cp_root cps) (seq 0 k))) false false)
    as [st1|e] eqn:Hcall; [|discriminate].
  destruct (forallb (cp_in_board h w cps) (seq 0 k)) eqn:Hib; [|discriminate].
  intros H. inversion H; subst st; clear H.
  destruct (cp_checks h w cps k Hnn Hib) as [Hnonneg Hinside].
  rewrite cp_roots_args in Hcall.
  pose proof (division_keys_compose h w (Z.of_nat k - 1) k _ false st0 division st1 Hdecl Hcall
                (flat_map (cp_compass h w cps k) (seq 0 k)) (cp_local h w cps k)
                (fun en => cp_constraints_sem h w cps k en (seq 0 k))
                (fun d d' => cp_local_ext h w cps k d d' Hinside) ans) as HC.
  unfold division_keys_state in HC. rewrite HC. clear HC.
  rewrite rules_compass_split.
  pose proof (cp_rules_iff_division h w cps ans Hnonneg Hinside) as HR.
  unfold cp_k, cp_g, cp_d, cp_roots, cp_rs in HR. fold k in HR. unfold cp_k. fold k.
  rewrite !andb_true_iff, Nat.eqb_eq, HR. clear HR.
  split.
  - intros [Hl [Hb [Hs HL]]]. split; [split; [exact Hl|]|split; assumption].
    apply forallb_forall. intros v Hv. destruct (In_nth _ _ 0%Z Hv) as [i [Hi E]].
    specialize (Hb i ltac:(lia)). unfold getz in Hb. rewrite E in Hb.
    apply andb_true_iff. split; [apply Z.leb_le|apply Z.ltb_lt]; lia.
  - intros [[Hl Hr] [Hs HL]]. split; [exact Hl|]. split; [|split; assumption].
    intros v Hv. rewrite forallb_forall in Hr.
    specialize (Hr (getz ans v) ltac:(unfold getz; apply nth_In; lia)).
    apply andb_true_iff in Hr. destruct Hr as [H0 H1]. apply Z.leb_le in H0. apply Z.ltb_lt in H1. lia.
Qed.

(* the answer keys are the division variables, declared first *)
Lemma compass_key_ids h w cps st :
  solve_compass_model [[Z.of_nat h; Z.of_nat w]; cps] = Ok st -> key_ids st = seq 0 (h * w).
Proof.
  unfold solve_compass_model. destruct (dims2c h w [cps]) as [-> ->].
  change (sec [[Z.of_nat h; Z.of_nat w]; cps] 1) with cps.
  destruct (negb (Nat.eqb (Nat.modulo (length cps) 6) 0)); [discriminate|].
  set (k := Nat.div (length cps) 6).
  destruct (negb (forallb (cp_nonneg cps) (seq 0 k))); [discriminate|].
  destruct (int_array empty_state (h * w) 0 (Z.of_nat k - 1)) as [[st0 division]|e] eqn:Hdecl; [|discriminate].
  destruct (division_connected st0 (D2 h w division) k None (Some (map (cp_root cps) (seq 0 k))) false false)
    as [st1|e] eqn:Hcall; [|discriminate].
  destruct (forallb (cp_in_board h w cps) (seq 0 k)); [|discriminate].
  intros H. inversion H; subst st; clear H.
  rewrite cp_roots_args in Hcall.
  exact (dk_keys h w _ _ _ false st0 division st1 Hdecl Hcall (flat_map (cp_compass h w cps k) (seq 0 k))).
Qed.

(* the hypothesis of compass_exact is satisfiable *)
Example compass_model_ok :
  exists st, solve_compass_model [[2; 3]; [0; 0; -1; -1; 1; 2; 1; 2; 1; 0; -1; -1]]%Z = Ok st.
Proof. vm_compute. eexists. reflexivity. Qed.

(* it holds exactly for the problems with whole 6-tuples, at least one compass and every compass on a cell of the
   board (otherwise the Python raises, see Compass.v) *)
Theorem compass_model_defined h w cps :
  (exists st, solve_compass_model [[Z.of_nat h; Z.of_nat w]; cps] = Ok st) <->
  (Nat.modulo (length cps) 6 = 0 /\ 0 < Nat.div (length cps) 6 /\
   forall i, i < Nat.div (length cps) 6 ->
             (0 <= cp_field cps i 0 < Z.of_nat h)%Z /\ (0 <= cp_field cps i 1 < Z.of_nat w)%Z).
Proof.
  unfold solve_compass_model. destruct (dims2c h w [cps]) as [-> ->].
  change (sec [[Z.of_nat h; Z.of_nat w]; cps] 1) with cps.
  set (k := Nat.div (length cps) 6).
  destruct (Nat.eqb_spec (Nat.modulo (length cps) 6) 0) as [Em|Nm]; cbn [negb];
    [|split; [intros [st Hst]; discriminate|intros [H _]; contradiction]].
  assert (Hcoord : forall P : Prop,
            (P <-> (0 < k /\ forall i, i < k ->
                      (0 <= cp_field cps i 0 < Z.of_nat h)%Z /\ (0 <= cp_field cps i 1 < Z.of_nat w)%Z)) ->
            (P <-> (Nat.modulo (length cps) 6 = 0 /\ 0 < k /\ forall i, i < k ->
                      (0 <= cp_field cps i 0 < Z.of_nat h)%Z /\ (0 <= cp_field cps i 1 < Z.of_nat w)%Z))) by tauto.
  apply Hcoord. clear Hcoord.
  destruct (forallb (cp_nonneg cps) (seq 0 k)) eqn:Hnn; cbn [negb].
  2:{ split; [intros [st Hst]; discriminate|]. intros [_ H]. exfalso.
      assert (forallb (cp_nonneg cps) (seq 0 k) = true); [|congruence].
      apply forallb_forall. intros i Hi. apply in_seq in Hi. destruct (H i ltac:(lia)) as [H0 H1].
      unfold cp_nonneg. apply andb_true_iff. split; apply Z.leb_le; lia. }
  assert (Hn : forall i, i < k -> (0 <= cp_field cps i 0)%Z /\ (0 <= cp_field cps i 1)%Z).
  { rewrite forallb_forall in Hnn. intros i Hi. specialize (Hnn i ltac:(apply in_seq; lia)).
    unfold cp_nonneg in Hnn. apply andb_true_iff in Hnn. destruct Hnn as [N0 N1].
    apply Z.leb_le in N0. apply Z.leb_le in N1. lia. }
  unfold int_array. destruct (Z.ltb_spec (Z.of_nat k - 1) 0) as [Hk|Hk].
  { split; [intros [st Hst]; discriminate|lia]. }
  rewrite int_vars_spec. rewrite cp_roots_args, division_grid_roots.
  set (st0 := add_decls empty_state (repeat (DInt 0 (Z.of_nat k - 1)) (h * w))).
  set (data := map (fun i => IVar (next_id empty_state + i) 0 (Z.of_nat k - 1)) (seq 0 (h * w))).
  set (rs := map (fun i => GCell (cp_field cps i 0) (cp_field cps i 1)) (seq 0 k)).
  destruct (forallb (cp_in_board h w cps) (seq 0 k)) eqn:Hib.
  - destruct (cp_checks h w cps k Hnn Hib) as [_ Hinside].
    assert (Hall : forall i, i < k ->
              (0 <= cp_field cps i 0 < Z.of_nat h)%Z /\ (0 <= cp_field cps i 1 < Z.of_nat w)%Z).
    { intros i Hi. destruct (Hn i Hi). destruct (Hinside i Hi) as [Hy Hx]. unfold zn in *. lia. }
    split; [intros _; split; [lia|exact Hall]|]. intros _.
    assert (N0 : 0 < h * w).
    { destruct (Hinside 0 ltac:(lia)) as [Hy Hx]. pose proof (grid_cell_lt h w _ _ Hy Hx). lia. }
    destruct (post_division_defined st0 (SArr data) k (grid_graph h w) (map (grid_root_vertex w) rs) false)
      as [st1 Hst1].
    + apply grid_wf.
    + simpl. exact N0.
    + simpl. unfold data. rewrite map_length, seq_length. reflexivity.
    + simpl seq_data. unfold data. apply labels_ok_vars. intros i Hi. apply in_seq in Hi.
      unfold st0, next_id, add_decls; simpl. rewrite repeat_length. lia.
    + unfold rs. rewrite map_map, Forall_map. apply Forall_forall. intros i Hi. apply in_seq in Hi.
      destruct (Hinside i ltac:(lia)) as [Hy Hx]. destruct (Hn i ltac:(lia)) as [H0 H1].
      pose proof (grid_cell_lt h w _ _ Hy Hx) as Hlt. unfold zn in *. simpl. nia.
    + rewrite Hst1. eexists; reflexivity.
  - split.
    + intros [st Hst]. destruct (post_division _ _ _ _ _ _ _); discriminate.
    + intros [_ H]. exfalso. assert (forallb (cp_in_board h w cps) (seq 0 k) = true); [|congruence].
      apply forallb_forall. intros i Hi. apply in_seq in Hi. destruct (H i ltac:(lia)) as [H0 H1].
      unfold cp_in_board. apply andb_true_iff. split; apply Z.ltb_lt; lia.
Qed.
