"""C11 plug-in: aquarium (solve_aquarium(height, width, blocks, clue_row, clue_col))."""
import itertools

import c11lib as L

NAME = "aquarium"
MODULE = "cspuz.puzzle.aquarium"
FUNC = "solve_aquarium"
TIER1 = ("Aquarium", "solve_aquarium_model")


def call(mod, pb):
    blocks = [[tuple(c) for c in b] for b in pb["blocks"]]
    return mod.solve_aquarium(pb["h"], pb["w"], blocks, pb["rows"], pb["cols"])


def ncand(pb):
    return 2 ** (pb['h'] * pb['w'])


def encode(pb):
    return [[pb["h"], pb["w"]], L.flat(L.region_ids(pb["h"], pb["w"], pb["blocks"])), pb["rows"], pb["cols"]]


def _clues(rng, h, w, k):
    """clue vectors: all-free, then k random ones over {-1, 0..w} x {-1, 0..h}"""
    out = [([-1] * h, [-1] * w)]
    for _ in range(k):
        out.append(([rng.choice([-1, -1] + list(range(0, w + 1))) for _ in range(h)],
                    [rng.choice([-1, -1] + list(range(0, h + 1))) for _ in range(w)]))
    return out


def families(tier, rng):
    th = tier == "thorough"
    # tanks whose cells in one row are not contiguous
    for (h, w, blocks) in _NONCONVEX:
        for (rows, cols) in _clues(rng, h, w, 3):
            yield {"h": h, "w": w, "blocks": blocks, "rows": rows, "cols": cols}
    for (h, w) in [(1, 1), (1, 2), (2, 1), (1, 3), (3, 1), (2, 2), (2, 3), (3, 2)]:
        parts = list(L.region_partitions(h, w))
        if h * w <= 2:
            clue_sets = [(list(r), list(c)) for r in itertools.product(range(-1, w + 1), repeat=h)
                         for c in itertools.product(range(-1, h + 1), repeat=w)]
        else:
            clue_sets = None
        for blocks in (parts if th or len(parts) <= 20 else L.sample(rng, parts, 20)):
            for (rows, cols) in (clue_sets or _clues(rng, h, w, 6 if th else 2)):
                yield {"h": h, "w": w, "blocks": blocks, "rows": rows, "cols": cols}
    for (h, w) in [(3, 3), (2, 4), (4, 2)]:
        parts = L.sample(rng, L.region_partitions(h, w, max_size=5), 40 if th else 4)
        for blocks in parts:
            for (rows, cols) in _clues(rng, h, w, 2):
                yield {"h": h, "w": w, "blocks": blocks, "rows": rows, "cols": cols}


def _row_convex(pb):
    """every region's cells in one row are contiguous"""
    for b in pb["blocks"]:
        cells = {tuple(c) for c in b}
        for (y1, x1) in cells:
            for (y2, x2) in cells:
                if y1 == y2 and x1 < x2 and any((y1, x) not in cells for x in range(x1, x2)):
                    return False
    return True


def classify(pb, what):
    """stable violation keys (none of them is a known finding any more: the IndexError for h > w was fixed by
    acb93d7, the water level across non-contiguous row cells by 97459c5)"""
    if "raises" in what:
        return "aquarium:raises:h>w" if pb["h"] > pb["w"] else None
    if not _row_convex(pb):
        return "aquarium:water-level-only-between-adjacent-cells"
    return None


# tanks whose cells in one row are not contiguous: U (arms up), n (arms down), a comb on 2x5, an S-like tank on 3x3
_NONCONVEX = [
    (2, 3, [[[0, 0], [0, 2], [1, 0], [1, 1], [1, 2]], [[0, 1]]]),
    (2, 3, [[[0, 0], [0, 1], [0, 2], [1, 0], [1, 2]], [[1, 1]]]),
    (3, 3, [[[0, 0], [0, 2], [1, 0], [1, 2], [2, 0], [2, 1], [2, 2]], [[0, 1], [1, 1]]]),
    (3, 3, [[[0, 0], [0, 1], [0, 2], [1, 0], [1, 2], [2, 0], [2, 2]], [[1, 1], [2, 1]]]),
    (2, 5, [[[0, 0], [0, 2], [0, 4], [1, 0], [1, 1], [1, 2], [1, 3], [1, 4]], [[0, 1]], [[0, 3]]]),
]


def tier2(tier, rng):
    th = tier == "thorough"
    for (h, w, blocks) in _NONCONVEX[:2] + (_NONCONVEX[2:4] if th else []):
        for (rows, cols) in _clues(rng, h, w, 1):
            yield {"h": h, "w": w, "blocks": blocks, "rows": rows, "cols": cols}
    for (h, w) in [(1, 1), (1, 2), (2, 2), (2, 3)]:
        parts = list(L.region_partitions(h, w))
        for blocks in (parts if th else L.sample(rng, parts, 4)):
            for (rows, cols) in _clues(rng, h, w, 2 if th else 1):
                yield {"h": h, "w": w, "blocks": blocks, "rows": rows, "cols": cols}


def tier1_problems(tier, rng):
    """program-capture tie: every partition of the tiniest boards, the non-convex tanks, random partitions of
    larger and non-square boards; clue vectors with -1 / 0 / maximal entries; a few clue lists that are too short"""
    from c11.norinori import _random_parts
    th = tier == "thorough"
    for (h, w, blocks) in _NONCONVEX:
        for (rows, cols) in _clues(rng, h, w, 2):
            yield {"h": h, "w": w, "blocks": blocks, "rows": rows, "cols": cols}
    for (h, w) in [(1, 1), (1, 2), (2, 1), (1, 3), (3, 1), (2, 2), (2, 3), (3, 2)]:
        parts = list(L.region_partitions(h, w))
        for blocks in (parts if th else L.sample(rng, parts, 12)):
            for (rows, cols) in _clues(rng, h, w, 2):
                yield {"h": h, "w": w, "blocks": blocks, "rows": rows, "cols": cols}
    for (h, w) in [(3, 3), (2, 5), (5, 2), (4, 4), (3, 6), (6, 5), (1, 7), (7, 1), (8, 8)]:
        for blocks in _random_parts(rng, h, w, 12 if th else 3):
            for (rows, cols) in _clues(rng, h, w, 2):
                yield {"h": h, "w": w, "blocks": blocks, "rows": rows, "cols": cols}
    # malformed: a clue list shorter than the board (IndexError in the clue loops)
    yield {"h": 2, "w": 2, "blocks": [[[0, 0], [0, 1], [1, 0], [1, 1]]], "rows": [1], "cols": [-1, -1]}
    yield {"h": 2, "w": 3, "blocks": [[[0, 0], [0, 1], [0, 2], [1, 0], [1, 1], [1, 2]]], "rows": [-1, 2], "cols": [0, 1]}


def big(tier, rng):
    """5x5 / 4x6 / 6x4 boards with 3-4 tanks and 2 x N boards with long tanks (every grid the solver admits, up to the
    cap, is checked against the rules)"""
    th = tier == "thorough"
    for (h, w) in [(5, 5), (4, 6), (6, 4), (2, 21), (2, 24)]:
        for _ in range(10 if th else 3):
            blocks = L.random_rooms(rng, h, w, rng.choice([3, 4]))
            for (rows, cols) in _clues(rng, h, w, 1)[1:]:
                yield {"h": h, "w": w, "blocks": blocks, "rows": rows, "cols": cols}
