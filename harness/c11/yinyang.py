"""C11 plug-in: yinyang (solve_yinyang(height, width, problem)); 0 empty, 1 white, 2 black."""
import c11lib as L

NAME = "yinyang"
MODULE = "cspuz.puzzle.yinyang"
FUNC = "solve_yinyang"
VALUES = [0, 1, 2]
TIER1 = ("Yinyang", "solve_yinyang_model")
TIER1_PRIM = ("YinyangPrim", "solve_yinyang_model_prim")


def call(mod, pb):
    return mod.solve_yinyang(pb["h"], pb["w"], pb["grid"])


def ncand(pb):
    return 2 ** (pb['h'] * pb['w'])


def encode(pb):
    return [[pb["h"], pb["w"]], L.flat(pb["grid"])]


def families(tier, rng):
    th = tier == "thorough"
    for (h, w) in [(1, 1), (1, 2), (2, 1), (1, 3), (3, 1), (2, 2), (1, 4), (4, 1)] + ([(2, 3), (3, 2)] if th else []):
        for g in L.all_grids(h, w, VALUES):
            yield {"h": h, "w": w, "grid": g}
    for (h, w) in [(2, 3), (3, 2), (3, 3), (2, 4), (4, 2), (3, 4), (4, 4), (2, 5)]:
        for _ in range(200 if th else 25):
            yield {"h": h, "w": w, "grid": L.random_grid(rng, h, w, VALUES, 0.7)}


def tier2(tier, rng):
    th = tier == "thorough"
    for (h, w) in [(1, 1), (1, 2), (2, 1)]:
        for g in L.all_grids(h, w, VALUES):
            yield {"h": h, "w": w, "grid": g}
    for g in L.sample(rng, L.all_grids(2, 2, VALUES), 30 if th else 4):
        yield {"h": 2, "w": 2, "grid": g}


T1_VALUES = [0, 1, 2, 3, -1]    # empty, white, black, and two values outside the alphabet (read as empty)


def tier1_problems(tier, rng):
    """program-capture tie: every clue layout of the boards with up to 4 cells (both orientations, 1xN / Nx1 included:
    the border walk visits cells twice there), samples of all layouts of the boards with 5 and 6 cells, random layouts
    on larger and non-square boards (1xN, Nx1, 2xN, Nx2, up to 8x8), all-clue boards, boards without cells (ValueError
    from the connectivity helper) and grids with missing trailing cells (IndexError)"""
    th = tier == "thorough"
    for (h, w) in [(1, 1), (1, 2), (2, 1), (1, 3), (3, 1), (2, 2), (1, 4), (4, 1)]:
        for g in L.all_grids(h, w, VALUES):
            yield {"h": h, "w": w, "grid": g}
    for (h, w) in [(1, 1), (1, 2), (2, 1), (1, 3), (3, 1), (2, 2)]:
        for g in L.sample(rng, L.all_grids(h, w, T1_VALUES), 120 if th else 25):
            yield {"h": h, "w": w, "grid": g}
    for (h, w) in [(1, 5), (5, 1), (2, 3), (3, 2), (1, 6), (6, 1)]:
        for g in L.sample(rng, L.all_grids(h, w, VALUES), 150 if th else 30):
            yield {"h": h, "w": w, "grid": g}
    for (h, w) in [(3, 3), (2, 4), (4, 2), (2, 5), (5, 2), (3, 4), (4, 3), (4, 4), (3, 6), (6, 3), (6, 5), (5, 7), (1, 7), (7, 1),
                   (1, 9), (9, 1), (2, 8), (8, 2), (7, 7), (8, 8)]:
        for p in [0.3, 0.6, 0.8, 0.95] * (3 if th else 1):
            yield {"h": h, "w": w, "grid": L.random_grid(rng, h, w, T1_VALUES, p)}
        yield {"h": h, "w": w, "grid": [[rng.choice([1, 2]) for _ in range(w)] for _ in range(h)]}
    for (h, w) in [(0, 0), (0, 2), (2, 0)]:
        yield {"h": h, "w": w, "grid": [[] for _ in range(h)]}
    for (h, w) in [(1, 1), (2, 2), (2, 3), (3, 2), (4, 4)]:
        g = L.random_grid(rng, h, w, VALUES, 0.5)
        yield {"h": h, "w": w, "grid": g[:-1]}                              # the last row is missing
        yield {"h": h, "w": w, "grid": g[:-1] + [g[-1][:-1]]}               # the last cell is missing
        yield {"h": h, "w": w, "grid": [[1] * w for _ in range(h - 1)] + [[]]}  # an empty last row after all-clue rows
