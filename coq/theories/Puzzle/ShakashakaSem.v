(* C11 Tier 1 - shakashaka, part 1: what the posted program says.
   For an assignment within the declared bounds the constraints of solve_shakashaka_model hold exactly when
     - every black cell carries 0 and every numbered cell sees its number of triangles (the clue part, which is
       literally the third conjunct of rules_shakashaka), and
     - at every lattice point the four cell states around it pass the boolean test [vok] (the local patterns).
   Cell states: 0 empty white cell, 1..4 white cell with that triangle, 5 black cell or outside the board. *)
From Coq Require Import ZArith List Bool Arith Lia.
From Cspuz Require Import Lib.PyErr Core.Expr Core.Program Graph.GraphModel Puzzle.PuzzleBase Puzzle.SatAbs
     Puzzle.ModelBase Puzzle.ModelLemmas Puzzle.Building Puzzle.BuildingProofs Puzzle.Rules_shakashaka Puzzle.Shakashaka.
Import ListNotations.
Local Open Scope nat_scope.

(* ---- the local test on the states of the four sectors (0 upper left, 1 lower left, 2 lower right, 3 upper right) *)
Definition sd (i s : nat) : bool := Nat.eqb s (nth i [4; 2; 1; 3; 2; 4; 3; 1] 9).
Definition vnext (i : nat) : nat * nat :=
  if Nat.even i then (Nat.modulo (i + 3) 8, Nat.modulo (i + 5) 8) else (Nat.modulo (i + 5) 8, Nat.modulo (i + 3) 8).
Definition vok (s : nat -> nat) : bool :=
  forallb (fun i => implb (sd i (s (Nat.div i 2)))
                          (sd (fst (vnext i)) (s (Nat.div (fst (vnext i)) 2)) ||
                           (Nat.eqb (s (Nat.div (fst (vnext i)) 2)) 0 && sd (snd (vnext i)) (s (Nat.div (snd (vnext i)) 2)))))
          (seq 0 8) &&
  negb (Nat.eqb (count (fun k => Nat.eqb (s k) 0 || Nat.eqb (s k) (S k)) (seq 0 4)) 3).

Definition sk_state (w : nat) (wc : nat -> bool) (a : nat -> Z) (oc : option (nat * nat)) : nat :=
  match oc with
  | Some c => if wc (cidx w c) then Z.to_nat (a (cidx w c)) else 5
  | None => 5
  end.
Definition sk_vstate (h w : nat) (wc : nat -> bool) (a : nat -> Z) (y x k : nat) : nat :=
  sk_state w wc a (sk_sector h w y x k).
Definition local_ok (h w : nat) (wc : nat -> bool) (a : nat -> Z) : bool :=
  forallb (fun c => vok (sk_vstate h w wc a (fst c) (snd c))) (cells (S h) (S w)).

(* ---- the clue part (third conjunct of rules_shakashaka) and the rectangle part (fourth conjunct) *)
Definition clue_rule (h w : nat) (grid ans : list Z) : bool :=
  forallb (fun '(y, x) =>
     let v := y * w + x in
     (getz grid v <? -1)%Z ||
     ((getz ans v =? 0)%Z &&
      let c := getz grid v in
      ((c <? 0)%Z || (zcount (fun '(y', x') => negb (at2 ans w y' x' =? 0)%Z) (nbr4 h w y x) =? c)%Z))) (cells h w).
Definition white_quarter (wc : nat -> bool) (ans : list Z) (n : nat) : bool :=
  let v := Nat.div n 4 in wc v && negb (covers (getz ans v) (Nat.modulo n 4)).
Definition rect_rule (h w : nat) (wc : nat -> bool) (ans : list Z) : bool :=
  forallb (fun n => negb (white_quarter wc ans n) ||
                    is_rectangle h w (component (quarter_graph h w) (white_quarter wc ans) all_edges_ok n))
          (seq 0 (4 * (h * w))).
Definition range_rule (ans : list Z) : bool := forallb (fun v => ((0 <=? v) && (v <=? 4))%Z) ans.

Lemma dims2s h w (rest : list (list Z)) :
  dim ([Z.of_nat h; Z.of_nat w] :: rest) 0 = h /\ dim ([Z.of_nat h; Z.of_nat w] :: rest) 1 = w.
Proof. unfold dim, zn, getz, sec; simpl. rewrite !Nat2Z.id. split; reflexivity. Qed.

Lemma rules_shakashaka_unfold h w grid ans :
  rules_shakashaka [[Z.of_nat h; Z.of_nat w]; grid] ans =
  Nat.eqb (length ans) (h * w) && range_rule ans && clue_rule h w grid ans &&
  rect_rule h w (fun v => (getz grid v <? -1)%Z) ans.
Proof.
  unfold rules_shakashaka. destruct (dims2s h w [grid]) as [-> ->].
  change (sec [[Z.of_nat h; Z.of_nat w]; grid] 1) with grid. reflexivity.
Qed.

(* ---- evaluation of the pieces *)
Section Sem.
  Variables (h w : nat) (grid : list Z) (en : env).
  Let val : nat -> Z := ei en.
  Let wc (v : nat) : bool := (getz grid v <? -1)%Z.

  Lemma eval_sk_is k v : eval no_graph en (sk_is k v) = Some (VB (val k =? v)%Z).
  Proof. reflexivity. Qed.

  Lemma eval_py_and a b p q :
    eval no_graph en a = Some (VB p) -> eval no_graph en b = Some (VB q) ->
    eval no_graph en (py_and a b) = Some (VB (p && q)).
  Proof.
    intros Ha Hb.
    assert (G : eval no_graph en (BNode AND [a; b]) = Some (VB (p && q))).
    { cbn [eval map]. rewrite Ha, Hb. simpl. rewrite andb_true_r. reflexivity. }
    destruct a; try exact G; destruct b; try exact G.
    simpl in Ha, Hb. inversion Ha; inversion Hb; subst. reflexivity.
  Qed.
  Lemma eval_py_or a b p q :
    eval no_graph en a = Some (VB p) -> eval no_graph en b = Some (VB q) ->
    eval no_graph en (py_or a b) = Some (VB (p || q)).
  Proof.
    intros Ha Hb.
    assert (G : eval no_graph en (BNode OR [a; b]) = Some (VB (p || q))).
    { cbn [eval map]. rewrite Ha, Hb. simpl. rewrite orb_false_r. reflexivity. }
    destruct a; try exact G; destruct b; try exact G.
    simpl in Ha, Hb. inversion Ha; inversion Hb; subst. reflexivity.
  Qed.

  Lemma holds_imp a b p q :
    eval no_graph en a = Some (VB p) -> eval no_graph en b = Some (VB q) ->
    holds no_graph en (BNode IMP [a; b]) = implb p q.
  Proof. intros Ha Hb. unfold holds. cbn [eval map]. rewrite Ha, Hb. destruct p, q; reflexivity. Qed.

  (* count_true over BoolExprs that evaluate to booleans *)
  Lemma eval_ct_exprs l :
    (forall e, In e l -> exists b, eval no_graph en e = Some (VB b)) ->
    eval no_graph en (ct_exprs l) = Some (VI (Z.of_nat (count (holds no_graph en) l))).
  Proof.
    intros H. destruct l as [|e0 r]; [reflexivity|].
    unfold ct_exprs. set (l := e0 :: r) in *.
    assert (Hne : l <> []) by discriminate. clearbody l.
    cbn [eval]. rewrite map_map.
    rewrite (map_ext_in _ (fun e => Some (VI (if holds no_graph en e then 1 else 0)%Z))).
    2:{ intros e He. destruct (H e He) as [b Hb]. cbn [eval map]. unfold holds. rewrite Hb. destruct b; reflexivity. }
    rewrite <- (map_map (fun e => (if holds no_graph en e then 1 else 0)%Z) (fun z => Some (VI z))).
    rewrite eval_iop_add_ints by (destruct l; [contradiction|discriminate]).
    f_equal. f_equal. clear. unfold count, zsum.
    induction l as [|b r IH]; [reflexivity|]. cbn [map fold_right filter].
    destruct (holds no_graph en b); cbn [length]; rewrite IH; lia.
  Qed.

  Lemma count_flat_map_01 {A B} (P : B -> bool) (f : A -> list B) (g : A -> bool) l :
    (forall k, In k l -> count P (f k) = if g k then 1 else 0) -> count P (flat_map f l) = count g l.
  Proof.
    unfold count. induction l as [|k r IH]; intros H; [reflexivity|].
    cbn [flat_map filter]. rewrite filter_app, app_length, IH by (intros; apply H; right; assumption).
    pose proof (H k (or_introl eq_refl)) as Hk. unfold count in Hk. rewrite Hk.
    destruct (g k); reflexivity.
  Qed.

  (* ---- the clue part *)
  Hypothesis Hrange : forall k, k < h * w -> (0 <= val k <= 4)%Z.

  Let ans := map val (seq 0 (h * w)).

  Lemma ans_at y x : y < h -> x < w -> at2 ans w y x = val (y * w + x).
  Proof. intros Hy Hx. unfold at2, ans. apply getz_map_seq. nia. Qed.

  Lemma sk_cell_holds y x :
    y < h -> x < w ->
    forallb (holds no_graph en) (sk_cell h w grid (y, x)) =
    (let v := y * w + x in
     (getz grid v <? -1)%Z ||
     ((getz ans v =? 0)%Z &&
      let c := getz grid v in
      ((c <? 0)%Z || (zcount (fun '(y', x') => negb (at2 ans w y' x' =? 0)%Z) (nbr4 h w y x) =? c)%Z))).
  Proof.
    intros Hy Hx. unfold sk_cell, sk_white. cbn [fst snd]. unfold at2 at 1. cbv zeta.
    destruct (getz grid (y * w + x) <? -1)%Z; [reflexivity|]. cbn [orb forallb].
    unfold holds at 1. rewrite eval_sk_is. unfold cidx. cbn [fst snd].
    replace (getz ans (y * w + x)) with (val (y * w + x)) by (symmetry; apply (ans_at y x Hy Hx)).
    destruct (val (y * w + x) =? 0)%Z; [|reflexivity]. cbn [andb].
    unfold at2 at 1.
    destruct (Z.leb_spec 0 (getz grid (y * w + x))); destruct (Z.ltb_spec (getz grid (y * w + x)) 0); try lia;
      [|reflexivity].
    cbn [forallb orb]. rewrite andb_true_r.
    unfold holds. cbn [eval map]. rewrite eval_ct_exprs.
    2:{ intros e He. apply in_map_iff in He. destruct He as [p [<- _]]. eexists. reflexivity. }
    cbn [eval_bop all_some].
    match goal with |- context [count (holds no_graph en) ?l] => set (n1 := count (holds no_graph en) l) end.
    assert (E1 : n1 = count (fun '(y', x') => negb (at2 ans w y' x' =? 0)%Z) (nbr4 h w y x)).
    { unfold n1. rewrite count_map. apply count_ext_in. intros [y' x'] Hn.
      destruct (nbr4_in h w y x y' x' Hy Hx Hn) as [Hy' Hx'].
      rewrite (ans_at y' x' Hy' Hx'). unfold holds, sk_var, cidx. cbn [eval map fst snd eval_bop all_some].
      fold (val (y' * w + x')). destruct (val (y' * w + x') =? 0)%Z; reflexivity. }
    rewrite E1. unfold zcount, at2. destruct (Z.of_nat _ =? getz grid (y * w + x))%Z; reflexivity.
  Qed.

  Lemma clue_part_holds :
    forallb (fun c => forallb (holds no_graph en) (sk_cell h w grid c)) (cells h w) = clue_rule h w grid ans.
  Proof.
    unfold clue_rule. apply forallb_ext_in. intros [y x] Hc. apply cells_in in Hc. destruct Hc as [Hy Hx].
    apply sk_cell_holds; assumption.
  Qed.

  (* ---- the vertex part, under the clue part (black cells carry 0) *)
  Hypothesis Hblack : forall k, k < h * w -> wc k = false -> val k = 0%Z.

  Lemma sk_sector_in y x k c : y <= h -> x <= w -> sk_sector h w y x k = Some c -> fst c < h /\ snd c < w.
  Proof.
    intros Hy Hx. unfold sk_sector.
    destruct k as [|[|[|k]]];
      match goal with |- (if ?a && ?b then _ else _) = _ -> _ => destruct a eqn:E1; destruct b eqn:E2 end;
      cbn [andb]; intros H; inversion H; subst; cbn [fst snd];
      rewrite ?Nat.ltb_lt in *; lia.
  Qed.

  Section Vertex.
    Variables (y x : nat).
    Hypotheses (Hy : y <= h) (Hx : x <= w).
    Let st (k : nat) : nat := sk_vstate h w wc val y x k.

    Lemma is_state k c v :
      sk_sector h w y x k = Some c -> v <= 4 -> (wc (cidx w c) = true \/ v <> 0) ->
      (val (cidx w c) =? Z.of_nat v)%Z = Nat.eqb (st k) v.
    Proof.
      intros Hs Hv Hw. unfold st, sk_vstate, sk_state. rewrite Hs.
      destruct (sk_sector_in y x k c Hy Hx Hs) as [H1 H2].
      assert (Hk : cidx w c < h * w) by (unfold cidx; nia).
      destruct (wc (cidx w c)) eqn:W.
      - pose proof (Hrange _ Hk). destruct (Z.eqb_spec (val (cidx w c)) (Z.of_nat v)); destruct (Nat.eqb_spec (Z.to_nat (val (cidx w c))) v); try reflexivity; lia.
      - rewrite (Hblack _ Hk W). destruct Hw as [Hw|Hw]; [discriminate|].
        destruct (Z.eqb_spec 0 (Z.of_nat v)); destruct (Nat.eqb_spec 5 v); try reflexivity; lia.
    Qed.

    Lemma diag_val_nat i : i < 8 -> sk_diag_val i = Z.of_nat (nth i [4; 2; 1; 3; 2; 4; 3; 1] 9) /\
                                      nth i [4; 2; 1; 3; 2; 4; 3; 1] 9 <= 4 /\ nth i [4; 2; 1; 3; 2; 4; 3; 1] 9 <> 0.
    Proof. intros H. do 8 (destruct i as [|i]; [cbn; repeat split; lia|]). lia. Qed.

    Lemma eval_sk_diag i : i < 8 -> eval no_graph en (sk_diag h w y x i) = Some (VB (sd i (st (Nat.div i 2)))).
    Proof.
      intros Hi. unfold sk_diag, sd. destruct (diag_val_nat i Hi) as [E [L N]].
      destruct (sk_sector h w y x (Nat.div i 2)) as [c|] eqn:Hs.
      - rewrite eval_sk_is, E. rewrite (is_state _ c _ Hs L (or_intror N)). reflexivity.
      - unfold st, sk_vstate. rewrite Hs. cbn [sk_state eval].
        destruct (Nat.eqb_spec 5 (nth i [4; 2; 1; 3; 2; 4; 3; 1] 9)); [lia|reflexivity].
    Qed.
    Lemma sk_diag_shape i :
      sk_diag h w y x i = PyBool false \/ exists k v, sk_diag h w y x i = sk_is k v.
    Proof. unfold sk_diag. destruct (sk_sector h w y x (Nat.div i 2)); [right; eauto|left; reflexivity]. Qed.

    Lemma eval_sk_empty k : eval no_graph en (sk_empty h w grid y x k) = Some (VB (Nat.eqb (st k) 0)).
    Proof.
      unfold sk_empty. destruct (sk_sector h w y x k) as [c|] eqn:Hs.
      - unfold sk_white. change (at2 grid w (fst c) (snd c) <? -1)%Z with (wc (cidx w c)).
        destruct (wc (cidx w c)) eqn:W.
        + rewrite eval_sk_is. change 0%Z with (Z.of_nat 0). rewrite (is_state k c 0 Hs ltac:(lia) (or_introl W)). reflexivity.
        + unfold st, sk_vstate, sk_state. rewrite Hs, W. reflexivity.
      - unfold st, sk_vstate, sk_state. rewrite Hs. reflexivity.
    Qed.

    Lemma diag_constraint_holds i :
      i < 8 ->
      forallb (holds no_graph en)
        (match sk_diag h w y x i with
         | PyBool _ => []
         | d => let a := if Nat.even i then Nat.modulo (i + 3) 8 else Nat.modulo (i + 5) 8 in
                let b := if Nat.even i then Nat.modulo (i + 5) 8 else Nat.modulo (i + 3) 8 in
                [BNode IMP [d; py_or (sk_diag h w y x a) (py_and (sk_empty h w grid y x (Nat.div a 2)) (sk_diag h w y x b))]]
         end) =
      implb (sd i (st (Nat.div i 2)))
            (sd (fst (vnext i)) (st (Nat.div (fst (vnext i)) 2)) ||
             (Nat.eqb (st (Nat.div (fst (vnext i)) 2)) 0 && sd (snd (vnext i)) (st (Nat.div (snd (vnext i)) 2)))).
    Proof.
      intros Hi.
      set (a := if Nat.even i then Nat.modulo (i + 3) 8 else Nat.modulo (i + 5) 8).
      set (b := if Nat.even i then Nat.modulo (i + 5) 8 else Nat.modulo (i + 3) 8).
      assert (Ea : fst (vnext i) = a) by (unfold vnext, a; destruct (Nat.even i); reflexivity).
      assert (Eb : snd (vnext i) = b) by (unfold vnext, b; destruct (Nat.even i); reflexivity).
      rewrite Ea, Eb.
      assert (Ha : a < 8) by (unfold a; destruct (Nat.even i); apply Nat.mod_upper_bound; lia).
      assert (Hb : b < 8) by (unfold b; destruct (Nat.even i); apply Nat.mod_upper_bound; lia).
      pose proof (eval_sk_diag i Hi) as Ei.
      pose proof (eval_py_or _ _ _ _ (eval_sk_diag a Ha)
                   (eval_py_and _ _ _ _ (eval_sk_empty (Nat.div a 2)) (eval_sk_diag b Hb))) as EX.
      destruct (sk_diag_shape i) as [S|[k [v S]]].
      - rewrite S in *. cbn [eval] in Ei.
        assert (E1 : sd i (st (Nat.div i 2)) = false) by congruence. rewrite E1. reflexivity.
      - rewrite S in *. unfold sk_is at 1. cbn [forallb]. rewrite andb_true_r.
        fold (sk_var k). fold (sk_is k v). apply holds_imp; assumption.
    Qed.

    Lemma angle_holds k :
      k < 4 ->
      count (holds no_graph en)
        (match sk_sector h w y x k with
         | Some c => if sk_white grid w c
                     then [BNode OR [sk_is (cidx w c) 0; sk_is (cidx w c) (sk_far_val k)]] else []
         | None => []
         end) = if Nat.eqb (st k) 0 || Nat.eqb (st k) (S k) then 1 else 0.
    Proof.
      intros Hk. destruct (sk_sector h w y x k) as [c|] eqn:Hs.
      - unfold sk_white. change (at2 grid w (fst c) (snd c) <? -1)%Z with (wc (cidx w c)).
        destruct (wc (cidx w c)) eqn:W.
        + assert (F : sk_far_val k = Z.of_nat (S k)) by (destruct k as [|[|[|[|k]]]]; try reflexivity; lia).
          unfold count. cbn [filter]. unfold holds. cbn [eval map]. rewrite !eval_sk_is. rewrite F.
          change 0%Z with (Z.of_nat 0).
          rewrite (is_state k c 0 Hs ltac:(lia) (or_introl W)), (is_state k c (S k) Hs ltac:(lia) (or_introl W)).
          cbn. rewrite orb_false_r. destruct (Nat.eqb (st k) 0 || Nat.eqb (st k) (S k)); reflexivity.
        + unfold st, sk_vstate, sk_state. rewrite Hs, W. destruct k as [|[|[|[|k]]]]; try reflexivity; lia.
      - unfold st, sk_vstate, sk_state. rewrite Hs. destruct k as [|[|[|[|k]]]]; try reflexivity; lia.
    Qed.

    Lemma sk_vertex_holds : forallb (holds no_graph en) (sk_vertex h w grid (y, x)) = vok st.
    Proof.
      unfold sk_vertex, vok. rewrite forallb_app, forallb_flat_map. f_equal.
      - apply forallb_ext_in. intros i Hi. apply in_seq in Hi. apply diag_constraint_holds. lia.
      - cbn [forallb]. rewrite andb_true_r. unfold holds. cbn [eval map]. rewrite eval_ct_exprs.
        2:{ intros e He. unfold sk_angles in He. apply in_flat_map in He. destruct He as [k [_ He]].
            destruct (sk_sector h w y x k) as [c|]; [|destruct He].
            destruct (sk_white grid w c); [|destruct He]. destruct He as [<-|[]].
            cbn [eval map]. rewrite !eval_sk_is. cbn. eexists. reflexivity. }
        unfold sk_angles. rewrite (count_flat_map_01 _ _ (fun k => Nat.eqb (st k) 0 || Nat.eqb (st k) (S k))).
        2:{ intros k Hk. apply in_seq in Hk. apply angle_holds. lia. }
        cbn [eval_bop all_some].
        set (n := count (fun k => Nat.eqb (st k) 0 || Nat.eqb (st k) (S k)) (seq 0 4)).
        assert (E : (Z.of_nat n =? 3)%Z = Nat.eqb n 3) by (change 3%Z with (Z.of_nat 3); apply znat_eqb).
        rewrite E. destruct (Nat.eqb n 3); reflexivity.
    Qed.
  End Vertex.

  Lemma vertex_part_holds :
    forallb (fun c => forallb (holds no_graph en) (sk_vertex h w grid c)) (cells (S h) (S w)) = local_ok h w wc val.
  Proof.
    unfold local_ok. apply forallb_ext_in. intros [y x] Hc. apply cells_in in Hc. destruct Hc as [Hy Hx].
    cbn [fst snd]. apply sk_vertex_holds; lia.
  Qed.
End Sem.

(* ---- the program of solve_shakashaka_model under an assignment within bounds *)
Lemma clue_rule_black h w grid ans k :
  clue_rule h w grid ans = true -> k < h * w -> (getz grid k <? -1)%Z = false -> getz ans k = 0%Z.
Proof.
  intros H Hk W. unfold clue_rule in H. rewrite forallb_forall in H.
  assert (Hw : 0 < w) by (destruct w; [lia|lia]).
  specialize (H (Nat.div k w, Nat.modulo k w)).
  assert (E : Nat.div k w * w + Nat.modulo k w = k).
  { pose proof (Nat.div_mod k w ltac:(lia)). lia. }
  cbv beta iota zeta in H. rewrite E, W in H. cbn [orb] in H.
  assert (Hin : In (Nat.div k w, Nat.modulo k w) (cells h w)).
  { apply cells_in. split; [apply Nat.div_lt_upper_bound; lia|apply Nat.mod_upper_bound; lia]. }
  specialize (H Hin). apply andb_true_iff in H. destruct H as [H _]. apply Z.eqb_eq in H. exact H.
Qed.

Lemma satisfies_shakashaka h w grid en :
  (forall k, k < h * w -> (0 <= ei en k <= 4)%Z) ->
  let ans := map (ei en) (seq 0 (h * w)) in
  satisfies no_graph en (int_grid_state (h * w) 0 4 (shakashaka_constraints h w grid)) =
  clue_rule h w grid ans && local_ok h w (fun v => (getz grid v <? -1)%Z) (ei en).
Proof.
  intros Hr ans. unfold satisfies, int_grid_state, shakashaka_constraints. cbn [Program.cons].
  rewrite forallb_app, !forallb_flat_map.
  rewrite (clue_part_holds h w grid en). fold ans.
  destruct (clue_rule h w grid ans) eqn:Hc; [|reflexivity]. cbn [andb].
  apply vertex_part_holds; [exact Hr|].
  intros k Hk W. pose proof (clue_rule_black h w grid ans k Hc Hk W) as H.
  unfold ans in H. rewrite getz_map_seq in H by exact Hk. exact H.
Qed.

(* ---- exactness, up to the geometric core:  local patterns <-> rectangle rule *)
Definition sk_geometry_statement : Prop :=
  forall (h w : nat) (wc : nat -> bool) (ans : list Z),
    length ans = h * w -> range_rule ans = true ->
    (forall k, k < h * w -> wc k = false -> getz ans k = 0%Z) ->
    local_ok h w wc (getz ans) = rect_rule h w wc ans.

Definition shakashaka_exact_statement : Prop :=
  forall h w grid st ans,
    solve_shakashaka_model [[Z.of_nat h; Z.of_nat w]; grid] = Ok st ->
    ((exists en, model_of no_graph en st /\ reads st en (seq 0 (h * w)) = ans)
     <-> rules_shakashaka [[Z.of_nat h; Z.of_nat w]; grid] ans = true).

Lemma local_ok_ext h w wc a b :
  (forall k, k < h * w -> a k = b k) -> local_ok h w wc a = local_ok h w wc b.
Proof.
  intros H. unfold local_ok. apply forallb_ext_in. intros [y x] Hc. apply cells_in in Hc. cbn [fst snd].
  unfold vok.
  assert (E : forall k, sk_vstate h w wc a y x k = sk_vstate h w wc b y x k).
  { intros k. unfold sk_vstate, sk_state. destruct (sk_sector h w y x k) as [c|] eqn:Hs; [|reflexivity].
    destruct (sk_sector_in h w y x k c ltac:(lia) ltac:(lia) Hs) as [H1 H2].
    rewrite H by (unfold cidx; nia). reflexivity. }
  f_equal.
  - apply forallb_ext_in. intros i _. rewrite !E. reflexivity.
  - f_equal. f_equal. apply count_ext_in. intros k _. rewrite E. reflexivity.
Qed.

(* the reduction: everything except the equivalence between the local patterns and the rectangle rule
   (sk_geometry_statement is proved in ShakashakaProofs.v) *)
Theorem shakashaka_reduction : sk_geometry_statement -> shakashaka_exact_statement.
Proof.
  intros Geo h w grid st ans.
  unfold solve_shakashaka_model. destruct (dims2s h w [grid]) as [-> ->].
  change (sec [[Z.of_nat h; Z.of_nat w]; grid] 1) with grid.
  destruct (Nat.ltb (length grid) (h * w)); [discriminate|].
  intros H. inversion H; subst st; clear H.
  set (st := int_grid_state (h * w) 0 4 (shakashaka_constraints h w grid)).
  set (wc := fun v => (getz grid v <? -1)%Z).
  rewrite rules_shakashaka_unfold. fold wc.
  assert (Hdom : forall en, in_bounds en st =
            forallb (fun v => (0 <=? v)%Z && (v <=? 4)%Z) (map (ei en) (seq 0 (h * w)))).
  { intros en. unfold in_bounds, st, int_grid_state. cbn [vars]. rewrite in_bounds_from_repeat_int, forallb_map. reflexivity. }
  assert (Hrng : forall en, in_bounds en st = true -> forall k, k < h * w -> (0 <= ei en k <= 4)%Z).
  { intros en Hb k Hk. rewrite Hdom, forallb_map, forallb_forall in Hb.
    specialize (Hb k ltac:(apply in_seq; lia)). apply andb_true_iff in Hb. destruct Hb as [A B].
    apply Z.leb_le in A. apply Z.leb_le in B. lia. }
  assert (Core : forall en, in_bounds en st = true ->
            let a := map (ei en) (seq 0 (h * w)) in
            satisfies no_graph en st = clue_rule h w grid a && rect_rule h w wc a).
  { intros en Hb a. unfold st. rewrite (satisfies_shakashaka h w grid en (Hrng en Hb)). fold a. fold wc.
    destruct (clue_rule h w grid a) eqn:Hc; [|reflexivity]. cbn [andb].
    rewrite (local_ok_ext h w wc (ei en) (getz a)).
    2:{ intros k Hk. unfold a. rewrite getz_map_seq by exact Hk. reflexivity. }
    apply Geo.
    - unfold a. rewrite map_length, seq_length. reflexivity.
    - rewrite Hdom in Hb. exact Hb.
    - intros k Hk W. apply (clue_rule_black h w grid a k Hc Hk W). }
  split.
  - intros [en [[Hb Hs] Hr]]. unfold st in Hr. rewrite reads_int_grid in Hr. subst ans.
    rewrite map_length, seq_length, Nat.eqb_refl. unfold range_rule. rewrite <- Hdom, Hb. cbn [andb].
    pose proof (Core en Hb) as C. cbv zeta in C. rewrite <- C. exact Hs.
  - intros Hr. rewrite <- !andb_assoc in Hr.
    apply andb_true_iff in Hr. destruct Hr as [Hl Hr]. apply Nat.eqb_eq in Hl.
    apply andb_true_iff in Hr. destruct Hr as [Hd Hr].
    set (en := {| eb := fun _ => false; ei := getz ans |}).
    assert (Ha : map (ei en) (seq 0 (h * w)) = ans) by (rewrite <- Hl; apply map_getz_seq).
    assert (Hb : in_bounds en st = true) by (rewrite Hdom, Ha; exact Hd).
    exists en. split; [split; [exact Hb|]|unfold st; rewrite reads_int_grid; exact Ha].
    pose proof (Core en Hb) as C. cbv zeta in C. rewrite Ha in C. rewrite C. exact Hr.
Qed.
