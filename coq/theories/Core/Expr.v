(* Mirror of cspuz/expr.py: operators and expression trees, object for object.
   A Python literal operand (bool / int / None) is distinct from a *_CONSTANT
   node.  No proofs here. *)
From Coq Require Import ZArith List Bool.
Import ListNotations.
Open Scope Z_scope.

Inductive op :=
  | VAR | BOOL_CONSTANT | INT_CONSTANT | NEG | ADD | SUB
  | EQ | NE | LE | LT | GE | GT
  | NOT | AND | OR | IFF | XOR | IMP | IF | ALLDIFF
  | G_AVC      (* Op.GRAPH_ACTIVE_VERTICES_CONNECTED *)
  | G_DIV.     (* Op.GRAPH_DIVISION *)

Definition op_code (o : op) : nat :=
  match o with
  | VAR => 1 | BOOL_CONSTANT => 2 | INT_CONSTANT => 3 | NEG => 4 | ADD => 5 | SUB => 6
  | EQ => 7 | NE => 8 | LE => 9 | LT => 10 | GE => 11 | GT => 12
  | NOT => 13 | AND => 14 | OR => 15 | IFF => 16 | XOR => 17 | IMP => 18 | IF => 19
  | ALLDIFF => 20 | G_AVC => 21 | G_DIV => 22
  end%nat.

Definition all_ops : list op :=
  [VAR; BOOL_CONSTANT; INT_CONSTANT; NEG; ADD; SUB; EQ; NE; LE; LT; GE; GT;
   NOT; AND; OR; IFF; XOR; IMP; IF; ALLDIFF; G_AVC; G_DIV].

Definition op_eqb (a b : op) : bool := Nat.eqb (op_code a) (op_code b).

(* expr.py::is_bool_op / is_int_op *)
Definition is_bool_op (o : op) : bool :=
  match o with
  | BOOL_CONSTANT | EQ | NE | LE | LT | GE | GT | NOT | AND | OR | IFF | XOR | IMP | ALLDIFF => true
  | _ => false
  end.
Definition is_int_op (o : op) : bool :=
  match o with INT_CONSTANT | NEG | ADD | SUB | IF => true | _ => false end.

Inductive expr :=
  | PyBool (b : bool)                     (* a Python bool operand *)
  | PyInt (z : Z)                         (* a Python int operand *)
  | PyNone                                (* None operand (graph-division holes) *)
  | BVar (id : nat)                       (* class BoolVar *)
  | IVar (id : nat) (lo hi : Z)           (* class IntVar *)
  | BNode (o : op) (args : list expr)     (* class BoolExpr *)
  | INode (o : op) (args : list expr).    (* class IntExpr *)

(* isinstance tests used by the type checks of expr.py *)
Definition is_bool_expr_like (e : expr) : bool :=
  match e with PyBool _ | BVar _ | BNode _ _ => true | _ => false end.
Definition is_int_expr_like (e : expr) : bool :=
  match e with PyInt _ | IVar _ _ _ | INode _ _ => true | _ => false end.

Inductive value := VB (b : bool) | VI (z : Z).

Record env := { eb : nat -> bool; ei : nat -> Z }.

Fixpoint all_some {A} (l : list (option A)) : option (list A) :=
  match l with
  | [] => Some []
  | None :: _ => None
  | Some a :: r => match all_some r with Some r' => Some (a :: r') | None => None end
  end.

Fixpoint as_bools (l : list value) : option (list bool) :=
  match l with
  | [] => Some []
  | VB b :: r => match as_bools r with Some r' => Some (b :: r') | None => None end
  | _ => None
  end.
Fixpoint as_ints (l : list value) : option (list Z) :=
  match l with
  | [] => Some []
  | VI z :: r => match as_ints r with Some r' => Some (z :: r') | None => None end
  | _ => None
  end.

Fixpoint zmem (x : Z) (l : list Z) : bool :=
  match l with [] => false | y :: r => (x =? y) || zmem x r end.
Fixpoint distinct (l : list Z) : bool :=
  match l with [] => true | x :: r => negb (zmem x r) && distinct r end.

Definition zsum (l : list Z) : Z := fold_right Z.add 0 l.
(* n-ary minus is left-associated: a - b - c - ... *)
Definition zsub (l : list Z) : option Z :=
  match l with [] => None | a :: r => Some (a - zsum r) end.

Section Eval.
  (* meaning of the two native graph operators on evaluated operands; supplied
     by Graph/GraphOps.v (their specification), or [no_graph] *)
  Variable gsem : op -> list (option value) -> option bool.

  Definition eval_bop (o : op) (vs : list (option value)) : option value :=
    match o with
    | G_AVC | G_DIV => option_map VB (gsem o vs)
    | _ =>
      match all_some vs with
      | None => None
      | Some vs =>
        match o, vs with
        | BOOL_CONSTANT, [VB b] => Some (VB b)
        | EQ, [VI a; VI b] => Some (VB (a =? b))
        | NE, [VI a; VI b] => Some (VB (negb (a =? b)))
        | LE, [VI a; VI b] => Some (VB (a <=? b))
        | LT, [VI a; VI b] => Some (VB (a <? b))
        | GE, [VI a; VI b] => Some (VB (b <=? a))
        | GT, [VI a; VI b] => Some (VB (b <? a))
        | NOT, [VB a] => Some (VB (negb a))
        | AND, l => option_map (fun bs => VB (forallb (fun b => b) bs)) (as_bools l)
        | OR, l => option_map (fun bs => VB (existsb (fun b => b) bs)) (as_bools l)
        | IFF, [VB a; VB b] => Some (VB (Bool.eqb a b))
        | XOR, [VB a; VB b] => Some (VB (xorb a b))
        | IMP, [VB a; VB b] => Some (VB (implb a b))
        | ALLDIFF, l => option_map (fun zs => VB (distinct zs)) (as_ints l)
        | _, _ => None
        end
      end
    end.

  Definition eval_iop (o : op) (vs : list (option value)) : option value :=
    match all_some vs with
    | None => None
    | Some vs =>
      match o, vs with
      | INT_CONSTANT, [VI z] => Some (VI z)
      | NEG, [VI a] => Some (VI (- a))
      | ADD, (_ :: _) as l => option_map (fun zs => VI (zsum zs)) (as_ints l)
      | SUB, l => match as_ints l with Some zs => option_map VI (zsub zs) | None => None end
      | IF, [VB c; VI t; VI f] => Some (VI (if c then t else f))
      | _, _ => None
      end
    end.

  Fixpoint eval (en : env) (e : expr) : option value :=
    match e with
    | PyBool b => Some (VB b)
    | PyInt z => Some (VI z)
    | PyNone => None
    | BVar i => Some (VB (eb en i))
    | IVar i _ _ => Some (VI (ei en i))
    | BNode o args => eval_bop o (map (eval en) args)
    | INode o args => eval_iop o (map (eval en) args)
    end.

  Definition holds (en : env) (e : expr) : bool :=
    match eval en e with Some (VB true) => true | _ => false end.
End Eval.

Definition no_graph : op -> list (option value) -> option bool := fun _ _ => None.

(* ---- boolean typing predicates: the trees the public constructors can build *)
Fixpoint wt (want_bool : bool) (e : expr) : bool :=
  match e with
  | PyBool _ => want_bool
  | PyInt _ => negb want_bool
  | PyNone => false
  | BVar _ => want_bool
  | IVar _ lo hi => negb want_bool
  | BNode o args =>
      want_bool &&
      match o with
      | BOOL_CONSTANT => match args with [PyBool _] => true | _ => false end
      | EQ | NE | LE | LT | GE | GT => (Nat.eqb (length args) 2) && forallb (wt false) args
      | NOT => (Nat.eqb (length args) 1) && forallb (wt true) args
      | AND | OR => forallb (wt true) args
      | IFF | XOR | IMP => (Nat.eqb (length args) 2) && forallb (wt true) args
      | ALLDIFF => forallb (wt false) args
      | _ => false
      end
  | INode o args =>
      negb want_bool &&
      match o with
      | INT_CONSTANT => match args with [PyInt _] => true | _ => false end
      | NEG => (Nat.eqb (length args) 1) && forallb (wt false) args
      | ADD | SUB => negb (Nat.eqb (length args) 0) && forallb (wt false) args
      | IF => match args with [c; t; f] => wt true c && wt false t && wt false f | _ => false end
      | _ => false
      end
  end.

Definition wt_bool := wt true.
Definition wt_int := wt false.

(* variables occurring in a tree *)
Fixpoint max_id (e : expr) : nat :=
  match e with
  | BVar i => S i
  | IVar i _ _ => S i
  | BNode _ args | INode _ args => fold_right (fun a m => Nat.max (max_id a) m) O args
  | _ => O
  end.

Fixpoint expr_size (e : expr) : nat :=
  match e with
  | BNode _ args | INode _ args => S (fold_right (fun a m => (expr_size a + m)%nat) O args)
  | _ => 1%nat
  end.
