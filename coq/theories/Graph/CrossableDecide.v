(* C10 — the executable form of the specification (Crossable.v::crossable_spec_b,
   run by the harness against its independent oracle) is equivalent to the
   relational specification crossable_spec. *)
From Coq Require Import ZArith List Bool Arith Lia.
From Cspuz Require Import Lib.PyErr Core.Expr Core.Program Core.Build
  Graph.GraphModel Graph.ReachProofs Graph.Avc Graph.Crossable Graph.CrossableGraph
  Graph.CrossableLocal Graph.CrossableProofs.
Import ListNotations.
Local Open Scope nat_scope.

Lemma dec_enc h w a : node_in h w a -> dec h w (enc h w a) = a.
Proof.
  destruct a as [k [y x]|[[|] y x]]; intros Ha.
  - destruct Ha as [Hk [Hy Hx]]. unfold dec, enc.
    assert (Hp : y * (w + 1) + x < (h + 1) * (w + 1)) by (apply rowmajor_lt; lia).
    destruct (Nat.ltb_spec ((y * (w + 1) + x) * 3 + k) ((h + 1) * (w + 1) * 3)); [|lia].
    destruct (divmod_rowmajor 3 (y * (w + 1) + x) k Hk) as [-> ->].
    destruct (divmod_rowmajor (w + 1) y x ltac:(lia)) as [-> ->]. reflexivity.
  - apply seg_in_v in Ha. unfold dec, enc.
    assert (Hp : y * (w + 1) + x < h * (w + 1)) by (apply rowmajor_lt; lia).
    destruct (Nat.ltb_spec ((h + 1) * (w + 1) * 3 + y * (w + 1) + x) ((h + 1) * (w + 1) * 3)); [lia|].
    destruct (Nat.ltb_spec ((h + 1) * (w + 1) * 3 + y * (w + 1) + x)
                           ((h + 1) * (w + 1) * 3 + h * (w + 1))); [|lia].
    replace ((h + 1) * (w + 1) * 3 + y * (w + 1) + x - (h + 1) * (w + 1) * 3)
      with (y * (w + 1) + x) by lia.
    destruct (divmod_rowmajor (w + 1) y x ltac:(lia)) as [-> ->]. reflexivity.
  - apply seg_in_h in Ha. unfold dec, enc.
    destruct (Nat.ltb_spec ((h + 1) * (w + 1) * 3 + h * (w + 1) + y * w + x) ((h + 1) * (w + 1) * 3)); [lia|].
    destruct (Nat.ltb_spec ((h + 1) * (w + 1) * 3 + h * (w + 1) + y * w + x)
                           ((h + 1) * (w + 1) * 3 + h * (w + 1))); [lia|].
    replace ((h + 1) * (w + 1) * 3 + h * (w + 1) + y * w + x - (h + 1) * (w + 1) * 3 - h * (w + 1))
      with (y * w + x) by lia.
    destruct (divmod_rowmajor w y x ltac:(lia)) as [-> ->]. reflexivity.
Qed.

Lemma degree_ok_b_iff h w act sc p :
  degree_ok_b h w act sc p = true <->
  ((deg h w act p = 0 \/ (sc = false /\ deg h w act p = 1) \/ deg h w act p = 2 \/ deg h w act p = 4) /\
   (deg h w act p = 4 -> interior h w p)).
Proof.
  unfold degree_ok_b, interior. destruct p as [y x]. simpl fst; simpl snd.
  set (d := deg h w act (y, x)).
  destruct (Nat.eqb_spec d 0), (Nat.eqb_spec d 1), (Nat.eqb_spec d 2), (Nat.eqb_spec d 4), sc,
    (Nat.ltb_spec 0 y), (Nat.ltb_spec y h), (Nat.ltb_spec 0 x), (Nat.ltb_spec x w); simpl;
    (split;
     [intros Hq; try discriminate Hq;
      (split; [first [left; lia | right; left; split; [reflexivity|lia] | right; right; left; lia
                     | right; right; right; lia]
              |intros; lia])
     |intros [[Hq|[[Hq Hq']|[Hq|Hq]]] Hi]; try reflexivity; try discriminate Hq; exfalso; try lia;
      (assert (d = 4) as E by lia; specialize (Hi E); lia)]).
Qed.

Lemma degree_rule_b_iff h w act sc : degree_rule_b h w act sc = true <-> degree_rule h w act sc.
Proof.
  unfold degree_rule_b, degree_rule, point_in. rewrite forallb_forall. split.
  - intros H [y x] [Hy Hx]. simpl in Hy, Hx. apply degree_ok_b_iff. apply H.
    apply in_prod_iff. split; apply in_seq; lia.
  - intros H [y x] Hin. apply in_prod_iff in Hin. destruct Hin as [Hy Hx].
    apply in_seq in Hy. apply in_seq in Hx. apply degree_ok_b_iff. apply H. simpl. lia.
Qed.

Theorem crossable_spec_b_iff h w act sc :
  crossable_spec_b h w act sc = true <-> crossable_spec h w act sc.
Proof.
  unfold crossable_spec_b, crossable_spec.
  rewrite andb_true_iff, degree_rule_b_iff, (connected_b_spec _ _ (split_wf h w)).
  rewrite (split_graph_connected_iff_strand h w act (fun u => nact h w act (dec h w u))).
  - reflexivity.
  - intros a Ha. rewrite (dec_enc h w a Ha). reflexivity.
Qed.
