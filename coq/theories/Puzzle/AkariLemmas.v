(* C11 Tier 1 - akari: list lemmas (rays as ranges, maximal white runs of a line). *)
From Coq Require Import ZArith List Bool Arith Lia.
From Cspuz Require Import Puzzle.PuzzleBase Puzzle.ModelLemmas.
Import ListNotations.
Local Open Scope nat_scope.

(* ------------------------------------------------------------------ take_while *)
Lemma take_while_ext {A} (f g : A -> bool) l : (forall a, f a = g a) -> take_while f l = take_while g l.
Proof. intros E. induction l as [|a r IH]; simpl; [reflexivity|]. rewrite E, IH. reflexivity. Qed.
Lemma take_while_incl {A} (f : A -> bool) l a : In a (take_while f l) -> In a l.
Proof.
  induction l as [|b r IH]; simpl; [tauto|]. destruct (f b); [|intros []].
  intros [H|H]; [left; exact H|right; apply IH; exact H].
Qed.
Lemma take_while_app_all {A} (f : A -> bool) m r :
  forallb f m = true -> take_while f (m ++ r) = m ++ take_while f r.
Proof.
  induction m as [|a m IH]; simpl; [reflexivity|]. intros H. apply andb_true_iff in H. destruct H as [H1 H2].
  rewrite H1, IH by exact H2. reflexivity.
Qed.
(* a hit inside the longest f-prefix: the list splits around it *)
Lemma existsb_take_while {A} (f g : A -> bool) l :
  existsb g (take_while f l) = true ->
  exists m b q, l = m ++ b :: q /\ forallb f m = true /\ f b = true /\ g b = true.
Proof.
  induction l as [|a r IH]; simpl; [discriminate|].
  destruct (f a) eqn:Fa; [|discriminate]. simpl. destruct (g a) eqn:Ga.
  - intros _. exists [], a, r. repeat split; assumption.
  - simpl. intros H. destruct (IH H) as [m [b [q [E [Hm [Hb Hg]]]]]].
    exists (a :: m), b, q. subst r. repeat split; try assumption. simpl. rewrite Fa. exact Hm.
Qed.
Lemma forallb_rev {A} (f : A -> bool) l : forallb f (rev l) = forallb f l.
Proof.
  apply eq_true_iff_eq. rewrite !forallb_forall. split; intros H x Hx; apply H; [rewrite <- in_rev|rewrite <- in_rev in Hx]; assumption.
Qed.
Lemma existsb_ext_in {A} (f g : A -> bool) l : (forall x, In x l -> f x = g x) -> existsb f l = existsb g l.
Proof.
  induction l as [|a r IH]; simpl; intros H; [reflexivity|].
  rewrite (H a (or_introl eq_refl)), IH; auto.
Qed.
Lemma existsb_count {A} (f : A -> bool) l : existsb f l = negb (Nat.eqb (count f l) 0).
Proof. unfold count. induction l as [|a r IH]; simpl; [reflexivity|]. destruct (f a); simpl; [reflexivity|exact IH]. Qed.

Lemma app_eq_length {A} (p p' q q' : list A) : length p = length p' -> p ++ q = p' ++ q' -> p = p' /\ q = q'.
Proof.
  revert p'. induction p as [|a p IH]; intros [|a' p'] L E; simpl in *; try discriminate.
  - split; [reflexivity|exact E].
  - inversion E; subst. destruct (IH p' ltac:(lia) H1) as [-> ->]. split; reflexivity.
Qed.

(* splitting a range-indexed line at one of its cells *)
Lemma map_seq_split {A} (f : nat -> A) n y :
  y < n -> map f (seq 0 n) = map f (seq 0 y) ++ f y :: map f (seq (S y) (n - S y)).
Proof.
  intros H. replace n with (y + S (n - S y)) at 1 by lia. rewrite seq_app, map_app. simpl. reflexivity.
Qed.
Lemma map_seq_decompose {A} (f : nat -> A) n p b t :
  map f (seq 0 n) = p ++ b :: t ->
  length p < n /\ p = map f (seq 0 (length p)) /\ b = f (length p) /\ t = map f (seq (S (length p)) (n - S (length p))).
Proof.
  intros E.
  assert (L : length p < n).
  { assert (length (map f (seq 0 n)) = length (p ++ b :: t)) by (rewrite E; reflexivity).
    rewrite map_length, seq_length, app_length in H. simpl in H. lia. }
  split; [exact L|]. rewrite (map_seq_split f n (length p) L) in E.
  apply app_eq_length in E; [|rewrite map_length, seq_length; reflexivity].
  destruct E as [E1 E2]. inversion E2. subst. repeat split; auto.
Qed.

(* ------------------------------------------------------------------ rays as ranges *)
Fixpoint up_cells (x : nat) (y : nat) : list (nat * nat) :=
  match y with O => [] | S k => (k, x) :: up_cells x k end.
Fixpoint left_cells (y : nat) (x : nat) : list (nat * nat) :=
  match x with O => [] | S k => (y, k) :: left_cells y k end.

Lemma rev_up_cells x y : rev (up_cells x y) = map (fun y' => (y', x)) (seq 0 y).
Proof.
  induction y as [|k IH]; [reflexivity|]. simpl up_cells. simpl rev. rewrite IH.
  rewrite seq_S, map_app. reflexivity.
Qed.
Lemma rev_left_cells y x : rev (left_cells y x) = map (fun x' => (y, x')) (seq 0 x).
Proof.
  induction x as [|k IH]; [reflexivity|]. simpl left_cells. simpl rev. rewrite IH.
  rewrite seq_S, map_app. reflexivity.
Qed.

Section Rays.
  Variables h w : nat.

  Lemma ray_go_down x : x < w -> forall fuel y, y < h -> h - S y <= fuel ->
    ray_go fuel h w (Z.of_nat y) (Z.of_nat x) 1 0 = map (fun y' => (y', x)) (seq (S y) (h - S y)).
  Proof.
    intros Hx. induction fuel as [|f IH]; intros y Hy Hf.
    - replace (h - S y) with 0 by lia. reflexivity.
    - simpl ray_go.
      destruct (Z.leb_spec 0 (Z.of_nat y + 1)); [|lia].
      destruct (Z.leb_spec 0 (Z.of_nat x + 0)); [|lia].
      destruct (Z.ltb_spec (Z.of_nat x + 0) (Z.of_nat w)); [|lia].
      destruct (Z.ltb_spec (Z.of_nat y + 1) (Z.of_nat h)) as [L|L]; simpl.
      + replace (Z.of_nat y + 1)%Z with (Z.of_nat (S y)) by lia.
        replace (Z.of_nat x + 0)%Z with (Z.of_nat x) by lia.
        unfold zn. rewrite !Nat2Z.id. rewrite IH by lia.
        replace (h - S y) with (S (h - S (S y))) by lia. reflexivity.
      + replace (h - S y) with 0 by lia. reflexivity.
  Qed.
  Lemma ray_go_right y : y < h -> forall fuel x, x < w -> w - S x <= fuel ->
    ray_go fuel h w (Z.of_nat y) (Z.of_nat x) 0 1 = map (fun x' => (y, x')) (seq (S x) (w - S x)).
  Proof.
    intros Hy. induction fuel as [|f IH]; intros x Hx Hf.
    - replace (w - S x) with 0 by lia. reflexivity.
    - simpl ray_go.
      destruct (Z.leb_spec 0 (Z.of_nat y + 0)); [|lia].
      destruct (Z.leb_spec 0 (Z.of_nat x + 1)); [|lia].
      destruct (Z.ltb_spec (Z.of_nat y + 0) (Z.of_nat h)); [|lia].
      destruct (Z.ltb_spec (Z.of_nat x + 1) (Z.of_nat w)) as [L|L]; simpl.
      + replace (Z.of_nat x + 1)%Z with (Z.of_nat (S x)) by lia.
        replace (Z.of_nat y + 0)%Z with (Z.of_nat y) by lia.
        unfold zn. rewrite !Nat2Z.id. rewrite IH by lia.
        replace (w - S x) with (S (w - S (S x))) by lia. reflexivity.
      + replace (w - S x) with 0 by lia. reflexivity.
  Qed.
  Lemma ray_go_up x : x < w -> forall fuel y, y <= h -> y <= fuel ->
    ray_go fuel h w (Z.of_nat y) (Z.of_nat x) (-1) 0 = up_cells x y.
  Proof.
    intros Hx. induction fuel as [|f IH]; intros y Hy Hf.
    - replace y with 0 by lia. reflexivity.
    - simpl ray_go. destruct y as [|k].
      + simpl. reflexivity.
      + destruct (Z.leb_spec 0 (Z.of_nat (S k) + -1)); [|lia].
        destruct (Z.leb_spec 0 (Z.of_nat x + 0)); [|lia].
        destruct (Z.ltb_spec (Z.of_nat x + 0) (Z.of_nat w)); [|lia].
        destruct (Z.ltb_spec (Z.of_nat (S k) + -1) (Z.of_nat h)); [|lia]. simpl andb. cbv iota.
        replace (Z.of_nat (S k) + -1)%Z with (Z.of_nat k) by lia.
        replace (Z.of_nat x + 0)%Z with (Z.of_nat x) by lia.
        unfold zn. rewrite !Nat2Z.id. rewrite IH by lia. reflexivity.
  Qed.
  Lemma ray_go_left y : y < h -> forall fuel x, x <= w -> x <= fuel ->
    ray_go fuel h w (Z.of_nat y) (Z.of_nat x) 0 (-1) = left_cells y x.
  Proof.
    intros Hy. induction fuel as [|f IH]; intros x Hx Hf.
    - replace x with 0 by lia. reflexivity.
    - simpl ray_go. destruct x as [|k].
      + destruct (Z.leb_spec 0 (Z.of_nat y + 0)); [|lia].
        destruct (Z.ltb_spec (Z.of_nat y + 0) (Z.of_nat h)); [|lia]. simpl. reflexivity.
      + destruct (Z.leb_spec 0 (Z.of_nat y + 0)); [|lia].
        destruct (Z.leb_spec 0 (Z.of_nat (S k) + -1)); [|lia].
        destruct (Z.ltb_spec (Z.of_nat y + 0) (Z.of_nat h)); [|lia].
        destruct (Z.ltb_spec (Z.of_nat (S k) + -1) (Z.of_nat w)); [|lia]. simpl andb. cbv iota.
        replace (Z.of_nat (S k) + -1)%Z with (Z.of_nat k) by lia.
        replace (Z.of_nat y + 0)%Z with (Z.of_nat y) by lia.
        unfold zn. rewrite !Nat2Z.id. rewrite IH by lia. reflexivity.
  Qed.

  Variables y x : nat.
  Hypothesis (Hy : y < h) (Hx : x < w).
  Lemma ray_down : ray h w y x 1 0 = map (fun y' => (y', x)) (seq (S y) (h - S y)).
  Proof. apply ray_go_down; [assumption|assumption|lia]. Qed.
  Lemma ray_right : ray h w y x 0 1 = map (fun x' => (y, x')) (seq (S x) (w - S x)).
  Proof. apply ray_go_right; [assumption|assumption|lia]. Qed.
  Lemma ray_up : ray h w y x (-1) 0 = up_cells x y.
  Proof. apply ray_go_up; [assumption|lia|lia]. Qed.
  Lemma ray_left : ray h w y x 0 (-1) = left_cells y x.
  Proof. apply ray_go_left; [assumption|lia|lia]. Qed.

  (* the column / row through (y, x): what is seen upwards (leftwards), reversed, the cell, what is seen downwards *)
  Lemma column_split :
    map (fun y' => (y', x)) (seq 0 h) = rev (ray h w y x (-1) 0) ++ (y, x) :: ray h w y x 1 0.
  Proof. rewrite ray_up, ray_down, rev_up_cells. apply (map_seq_split (fun y' => (y', x))). exact Hy. Qed.
  Lemma row_split :
    map (fun x' => (y, x')) (seq 0 w) = rev (ray h w y x 0 (-1)) ++ (y, x) :: ray h w y x 0 1.
  Proof. rewrite ray_left, ray_right, rev_left_cells. apply (map_seq_split (fun x' => (y, x'))). exact Hx. Qed.
End Rays.

Lemma ray_go_in h w fuel : forall y x dy dx c, In c (ray_go fuel h w y x dy dx) -> fst c < h /\ snd c < w.
Proof.
  induction fuel as [|f IH]; intros y x dy dx c; simpl; [tauto|].
  destruct ((0 <=? y + dy)%Z && (y + dy <? Z.of_nat h)%Z && (0 <=? x + dx)%Z && (x + dx <? Z.of_nat w)%Z) eqn:E; [|intros []].
  intros [<-|H]; [|eapply IH; exact H].
  repeat (apply andb_true_iff in E; destruct E as [E ?]).
  apply Z.leb_le in E. apply Z.ltb_lt in H. apply Z.ltb_lt in H1. apply Z.leb_le in H0.
  unfold zn. simpl. lia.
Qed.
Lemma ray_in h w y x dy dx c : In c (ray h w y x dy dx) -> fst c < h /\ snd c < w.
Proof. apply ray_go_in. Qed.

(* ------------------------------------------------------------------ maximal white runs of a line *)
Section Line.
  Context {A : Type}.
  Variables white lit : A -> bool.

  (* at most one light in the white run starting the list *)
  Definition run1 (l : list A) : bool := Nat.leb (count lit (take_while white l)) 1.
  (* one such test per maximal white run (what the posted run constraints say) *)
  Fixpoint runs_ok (prev : bool) (l : list A) : bool :=
    match l with
    | [] => true
    | a :: r => (if white a && negb prev then run1 l else true) && runs_ok (white a) r
    end.
  (* no lit white cell sees a light further along the line (what the rules say, forward direction) *)
  Fixpoint no_sight (l : list A) : bool :=
    match l with
    | [] => true
    | a :: r => (negb (white a && lit a) || negb (existsb lit (take_while white r))) && no_sight r
    end.

  Lemma runs_ok_start l : runs_ok false l = run1 l && runs_ok true l.
  Proof.
    destruct l as [|a r]; [reflexivity|]. simpl. destruct (white a) eqn:Wa; simpl.
    - reflexivity.
    - unfold run1. simpl. rewrite Wa. reflexivity.
  Qed.

  Lemma no_sight_runs l : no_sight l = run1 l && runs_ok true l.
  Proof.
    induction l as [|a r IH]; [reflexivity|].
    simpl no_sight. rewrite IH. simpl runs_ok. rewrite andb_false_r. unfold run1 at 2. simpl take_while.
    destruct (white a) eqn:Wa.
    - simpl. rewrite existsb_count. unfold run1, count. simpl filter.
      destruct (lit a); simpl; destruct (length (filter lit (take_while white r))) as [|[|k]]; reflexivity.
    - simpl. rewrite runs_ok_start. reflexivity.
  Qed.

  Theorem runs_ok_no_sight l : runs_ok false l = no_sight l.
  Proof. rewrite runs_ok_start, no_sight_runs. reflexivity. Qed.

  (* no_sight in terms of the positions of the line *)
  Lemma no_sight_at p b t :
    no_sight (p ++ b :: t) = true -> white b = true -> lit b = true -> existsb lit (take_while white t) = false.
  Proof.
    induction p as [|a p IH]; simpl; intros H Wb Lb.
    - rewrite Wb, Lb in H. simpl in H. apply andb_true_iff in H. destruct H as [H _].
      apply negb_true_iff in H. exact H.
    - apply andb_true_iff in H. destruct H as [_ H]. apply IH; assumption.
  Qed.
  Lemma no_sight_intro l :
    (forall p b t, l = p ++ b :: t -> white b = true -> lit b = true -> existsb lit (take_while white t) = false) ->
    no_sight l = true.
  Proof.
    induction l as [|a r IH]; intros H; [reflexivity|]. simpl. apply andb_true_iff. split.
    - destruct (white a) eqn:Wa; [|reflexivity]. destruct (lit a) eqn:La; [|reflexivity]. simpl.
      rewrite (H [] a r eq_refl Wa La). reflexivity.
    - apply IH. intros p b t E. apply (H (a :: p) b t). rewrite E. reflexivity.
  Qed.
  (* ... and backwards: a lit white cell is not seen by an earlier lit white cell *)
  Lemma no_sight_back p b t :
    no_sight (p ++ b :: t) = true -> white b = true -> lit b = true ->
    existsb lit (take_while white (rev p)) = false.
  Proof.
    intros H Wb Lb. destruct (existsb lit (take_while white (rev p))) eqn:E; [|reflexivity]. exfalso.
    apply existsb_take_while in E. destruct E as [m [c [q [E [Hm [Wc Lc]]]]]].
    assert (Ep : p = rev q ++ c :: rev m).
    { rewrite <- (rev_involutive p), E. rewrite rev_app_distr. simpl. rewrite <- app_assoc. reflexivity. }
    rewrite Ep, <- app_assoc in H. simpl in H.
    pose proof (no_sight_at (rev q) c (rev m ++ b :: t) H Wc Lc) as N.
    rewrite take_while_app_all in N by (rewrite forallb_rev; exact Hm).
    rewrite existsb_app in N. simpl in N. rewrite Wb in N. simpl in N. rewrite Lb in N.
    rewrite orb_true_r in N. discriminate.
  Qed.
End Line.
