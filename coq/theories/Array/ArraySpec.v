(* C12 — the mathematical meaning the property speaks about, written without
   reference to how the trees are built.  Definitions only. *)
From Coq Require Import ZArith List Bool.
From Cspuz Require Import Lib.PyErr Core.Expr Array.Elementwise.
Import ListNotations.
Open Scope Z_scope.

Definition vbool (v : option value) : option bool :=
  match v with Some (VB b) => Some b | _ => None end.
Definition vint (v : option value) : option Z :=
  match v with Some (VI z) => Some z | _ => None end.

Definition lift_bb (f : bool -> bool -> bool) (a b : option value) : option value :=
  match vbool a, vbool b with Some x, Some y => Some (VB (f x y)) | _, _ => None end.
Definition lift_zb (f : Z -> Z -> bool) (a b : option value) : option value :=
  match vint a, vint b with Some x, Some y => Some (VB (f x y)) | _, _ => None end.
Definition lift_zz (f : Z -> Z -> Z) (a b : option value) : option value :=
  match vint a, vint b with Some x, Some y => Some (VI (f x y)) | _, _ => None end.

Fixpoint all_ints (l : list (option value)) : option (list Z) :=
  match l with
  | [] => Some []
  | v :: r => match vint v, all_ints r with Some z, Some zs => Some (z :: zs) | _, _ => None end
  end.
Fixpoint all_bools (l : list (option value)) : option (list bool) :=
  match l with
  | [] => Some []
  | v :: r => match vbool v, all_bools r with Some z, Some zs => Some (z :: zs) | _, _ => None end
  end.

(* meaning of one operator of cspuz.expr.Op applied to operand values
   (None = some operand has no value of the required sort) *)
Definition op_sem (o : op) (vs : list (option value)) : option value :=
  match o, vs with
  | AND, [a; b] => lift_bb andb a b
  | OR, [a; b] => lift_bb orb a b
  | IFF, [a; b] => lift_bb Bool.eqb a b
  | XOR, [a; b] => lift_bb xorb a b
  | IMP, [a; b] => lift_bb implb a b
  | NOT, [a] => option_map (fun x => VB (negb x)) (vbool a)
  | EQ, [a; b] => lift_zb Z.eqb a b
  | NE, [a; b] => lift_zb (fun x y => negb (Z.eqb x y)) a b
  | LE, [a; b] => lift_zb Z.leb a b
  | LT, [a; b] => lift_zb Z.ltb a b
  | GE, [a; b] => lift_zb Z.geb a b
  | GT, [a; b] => lift_zb Z.gtb a b
  | ADD, [a; b] => lift_zz Z.add a b
  | SUB, [a; b] => lift_zz Z.sub a b
  | NEG, [a] => option_map (fun x => VI (- x)) (vint a)
  | IF, [c; t; f] =>
      match vbool c, vint t, vint f with
      | Some c, Some t, Some f => Some (VI (if c then t else f))
      | _, _, _ => None
      end
  | ALLDIFF, l => option_map (fun zs => VB (distinct zs)) (all_ints l)
  | _, _ => None
  end.

(* the operand counts _elementwise accepts *)
Definition arity_ok (o : op) (n : nat) : bool :=
  match o with
  | AND | OR | IFF | XOR | IMP | EQ | NE | LE | LT | GE | GT | ADD | SUB => Nat.eqb n 2
  | NOT | NEG => Nat.eqb n 1
  | IF => Nat.eqb n 3
  | ALLDIFF => true
  | _ => false
  end.

Definition wf_shape (sh : shape) : Prop :=
  match sh with S1 n => 0 <= n | S2 h w => 0 <= h /\ 0 <= w end.

(* value of operand v at position i (arrays: their i-th item; scalars: themselves) *)
Definition value_at (en : env) (i : nat) (v : pyval) : option value :=
  match v with
  | VE e => eval no_graph en e
  | VA _ _ d => match nth_error d i with Some e => eval no_graph en e | None => None end
  end.

(* ---- Python-level operator forms:  a <op> b  on operands of sort k *)
Definition pyop_sem (o : pyop) (k : kind) (a b : option value) : option value :=
  match o, k with
  | OAnd, KB => lift_bb andb a b
  | OOr, KB => lift_bb orb a b
  | OXor, KB => lift_bb xorb a b
  | OEq, KB => lift_bb Bool.eqb a b
  | ONe, KB => lift_bb (fun x y => negb (Bool.eqb x y)) a b
  | OAdd, KI => lift_zz Z.add a b
  | OSub, KI => lift_zz Z.sub a b
  | OEq, KI => lift_zb Z.eqb a b
  | ONe, KI => lift_zb (fun x y => negb (Z.eqb x y)) a b
  | OLt, KI => lift_zb Z.ltb a b
  | OLe, KI => lift_zb Z.leb a b
  | OGt, KI => lift_zb Z.gtb a b
  | OGe, KI => lift_zb Z.geb a b
  | _, _ => None
  end.

(* the sort an operator form requires of both operands; None: either (== and !=) *)
Definition pyop_operand_kind (o : pyop) : option kind :=
  match o with
  | OAnd | OOr | OXor => Some KB
  | OAdd | OSub | OLt | OLe | OGt | OGe => Some KI
  | OEq | ONe => None
  end.
Definition pyop_result_kind (o : pyop) : kind :=
  match o with OAdd | OSub => KI | _ => KB end.

Definition has_kind (k : kind) (v : pyval) : bool :=
  match k with KB => is_bool_like v | KI => is_int_like v end.

Definition is_arr (v : pyval) : bool := match v with VA _ _ _ => true | VE _ => false end.

(* operands admissible for  a <op> b  at sort k *)
Definition operands_ok (o : pyop) (k : kind) (a b : pyval) : bool :=
  has_kind k a && has_kind k b &&
  match pyop_operand_kind o with Some k' => kind_eqb k k' | None => true end.

(* ---- aggregates *)
Definition count_trues (bs : list bool) : Z := zlen (filter (fun b => b) bs).

(* the window of size kh x kw with top-left corner (y, x): all / some cell true *)
Definition cell_value (en : env) (w : Z) (data : list expr) (y x : Z) : option value :=
  match nth_error data (Z.to_nat (y * w + x)) with Some e => eval no_graph en e | None => None end.

Definition orth_neighbour (h w y x y' x' : Z) : Prop :=
  0 <= y' < h /\ 0 <= x' < w /\
  ((y' = y - 1 /\ x' = x) \/ (y' = y + 1 /\ x' = x) \/ (y' = y /\ x' = x - 1) \/ (y' = y /\ x' = x + 1)).

(* ---- unary forms, then, cond *)
Definition unop_kind (u : pyunop) : kind := match u with UInvert => KB | UNeg => KI end.
Definition unop_sem (u : pyunop) (a : option value) : option value :=
  match u with
  | UInvert => option_map (fun x => VB (negb x)) (vbool a)
  | UNeg => option_map (fun x => VI (- x)) (vint a)
  end.
Definition then_sem (a b : option value) : option value := lift_bb implb a b.
Definition cond_sem (c t f : option value) : option value :=
  match vbool c, vint t, vint f with
  | Some c, Some t, Some f => Some (VI (if c then t else f))
  | _, _, _ => None
  end.

(* shape of the first array among the operands *)
Fixpoint first_shape (l : list pyval) : option shape :=
  match l with
  | [] => None
  | VA _ sh _ :: _ => Some sh
  | VE _ :: r => first_shape r
  end.

(* ---- shapes of the statements in Props/C12.v *)

(* r is an array of sort k and shape sh whose i-th item denotes [sem en i] *)
Definition pointwise_result (r : res pyval) (k : kind) (sh : shape)
           (sem : env -> nat -> option value) : Prop :=
  exists data, r = Ok (VA k sh data) /\ zlen data = shape_size sh /\
    forall i, (i < length data)%nat ->
      exists e, nth_error data i = Some e /\ forall en, eval no_graph en e = sem en i.

(* the classes that define then / cond *)
Definition bool_class (v : pyval) : bool :=
  match method_class (class_of v) with
  | Some CBoolExpr | Some CBoolArray1D | Some CBoolArray2D => true
  | _ => false
  end.

Definition ev := eval no_graph.

(* "the items of l denote the booleans bs / the integers zs under en" *)
Definition denote_bools (en : env) (l : list expr) (bs : list bool) : Prop :=
  map (ev en) l = map (fun b => Some (VB b)) bs.
Definition denote_ints (en : env) (l : list expr) (zs : list Z) : Prop :=
  map (ev en) l = map (fun z => Some (VI z)) zs.

(* the items count_true / fold_or / fold_and, resp. alldifferent, accept *)
Definition bool_item (e : expr) : bool := match e with PyBool _ | BVar _ | BNode _ _ => true | _ => false end.
Definition int_item (e : expr) : bool :=
  match e with PyInt _ | PyBool _ | IVar _ _ _ | INode _ _ => true | _ => false end.
