From Coq Require Import ZArith List.
From Cspuz Require Import Graph.GraphModel Graph.Cycle.
Theorem line_graph_vertices : forall g, nv (line_graph g) = length (edges g).
Proof. intros g; reflexivity. Qed.
Print Assumptions line_graph_vertices.
