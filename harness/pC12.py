"""C12 — array operators and aggregate helpers have pointwise / mathematical meaning."""
import ast
import operator
import os

import vlib
import exprio

PROPS = "Props/C12.v"
RULE = ("translator: every operator / then / cond / fold_* / count_true / alldifferent method body of BoolExpr, IntExpr and the four "
        "array classes is read with `ast` into Gen/DunderTable.v (class, method, body shape with Op and operand order), together with "
        "the isinstance predicates _is_bool_like/_is_int_like/_is_bool_expr_like/_is_int_expr_like, the type-check chain of "
        "_elementwise and the is_bool_op/is_int_op lists, fail-closed; "
        "correspondence: the real operators (through CPython's own binary-operator / rich-comparison protocol), methods, "
        "cspuz.constraints.cond/then, _elementwise, count_true/fold_or/fold_and/alldifferent on nested arguments, conv2d and "
        "four_neighbors(_indices) are run on generated operands and compared with the extracted Coq model: result trees "
        "(arrays as kind + shape + list of trees), the value NotImplemented, or the exception class; "
        "search: every result of a form the property speaks about is evaluated with the extracted `eval` (and an independent "
        "Python evaluator) under random variable assignments against the pointwise / mathematical meaning computed in Python from "
        "the operands' values; ill-typed / ill-shaped uses must raise.  A case is non-trivial when it is a distinct "
        "(form, operator, operand classes, shapes, operand trees) tuple; operands are drawn from literals, None, variables, "
        "composite expressions and arrays of both kinds of every shape up to 3x3 (1-D 0..3, 2-D 0..3 x 0..3, so empty and 1xN included).")
TRUSTED = [
    "reading of the property: equality forms (==, !=) between a boolean-valued and an integer-valued operand are not required to raise "
    "(CPython falls back to identity comparison when both sides return NotImplemented); every other ill-typed use of an operator, then or cond "
    "form, and every shape mismatch between operands of the right kinds, must raise some exception",
    "CPython binary-operator protocol (Objects/abstract.c binary_op1, Objects/typeobject.c SLOT1BINFULL) and rich-comparison protocol "
    "(Objects/object.c do_richcompare) as transcribed in Array/Elementwise.v (py_arith, py_compare); validated on every run against the interpreter",
    "Core/Expr.v `eval` as the ordinary meaning of expression trees; cross-checked on every run against a separate Python evaluator (pC12.pyeval)",
    "harness/pC12.py translator (ast patterns for the method bodies) and serialisation (harness/exprio.py)",
]
ASSUMPTIONS = [
    "operands are Python bool/int literals, None, BoolVar/IntVar, BoolExpr/IntExpr trees, or the four array classes built by their constructors "
    "(shape consistent with data); other Python objects (str, float, user classes) are outside the model",
    "both operands builtin (True & False, 1 + 2) is plain Python and outside the model",
    "flatten_iterator's recursion depth (RecursionError for nestings ~1000 deep) and iterating a str are not modelled",
    "conv2d_sem is stated for window sizes >= 1; four_neighbors_sem for in-bounds cells",
]

ERR = {1: "IndexError", 2: "KeyError", 3: "AssertionError", 4: "TypeError", 5: "ValueError",
       6: "RecursionError", 7: "NotImplemented", 8: "Other"}

BINOPS = {"and": operator.and_, "or": operator.or_, "xor": operator.xor, "add": operator.add, "sub": operator.sub,
          "eq": operator.eq, "ne": operator.ne, "lt": operator.lt, "le": operator.le, "gt": operator.gt, "ge": operator.ge}
EQ_FORMS = ("eq", "ne")
BOOL_FORMS = ("and", "or", "xor")
INT_FORMS = ("add", "sub", "lt", "le", "gt", "ge")


# ------------------------------------------------------------------ cspuz access (imported lazily: /repo may be mutated)

def C():
    import cspuz.array as A
    import cspuz.constraints as K
    import cspuz.expr as E
    return A, K, E


def is_array(v):
    A, _, _ = C()
    return isinstance(v, (A.Array1D, A.Array2D))


def vkind(v):
    """'bool' | 'int' | 'other': what the value denotes."""
    A, _, E = C()
    if isinstance(v, bool):
        return "bool"
    if isinstance(v, int):
        return "int"
    if isinstance(v, (E.BoolExpr, A.BoolArray1D, A.BoolArray2D)):
        return "bool"
    if isinstance(v, (E.IntExpr, A.IntArray1D, A.IntArray2D)):
        return "int"
    return "other"


def vshape(v):
    return tuple(v.shape) if is_array(v) else None


def cls_name(v):
    return type(v).__name__


def is_builtin(v):
    return v is None or isinstance(v, (bool, int))


# ------------------------------------------------------------------ wire format

def tok(v):
    A, _, _ = C()
    if isinstance(v, (A.BoolArray1D, A.IntArray1D)):
        return "A1 %s %d %s" % ("B" if isinstance(v, A.BoolArray1D) else "I", v.shape[0], exprio.show_list(v.data))
    if isinstance(v, (A.BoolArray2D, A.IntArray2D)):
        return "A2 %s %d %d %s" % ("B" if isinstance(v, A.BoolArray2D) else "I", v.shape[0], v.shape[1], exprio.show_list(v.data))
    return exprio.show(v)


def nest_tok(n):
    if isinstance(n, (list, tuple)):
        return "L( " + "".join(nest_tok(x) + " " for x in n) + ")L"
    return tok(n)


def ser_result(r):
    """canonical form of what the implementation returned."""
    A, _, E = C()
    if r is NotImplemented:
        return ("ni",)
    if isinstance(r, list):  # four_neighbor_indices
        return ("ok", "P" + "".join(" %d %d" % (y, x) for (y, x) in r))
    if r is None or isinstance(r, (bool, int, E.Expr)) or is_array(r):
        if is_array(r) and type(r) not in (A.BoolArray1D, A.IntArray1D, A.BoolArray2D, A.IntArray2D):
            return ("ok", "untyped-array " + repr(r.shape))
        try:
            return ("ok", tok(r))
        except TypeError as ex:      # a tree with a non-expression operand (e.g. an array inside a node)
            return ("ok", "unserialisable-tree: %s" % ex.args[0][:60].split(" object at")[0])
    return ("ok", "unknown-object " + type(r).__name__)


def parse_model(reply):
    t = reply.split(" ", 2)
    if t[0] == "E" and len(t) == 2:
        c = int(t[1])
        return ("ni",) if c == 7 else ("err", ERR[c])
    if t[0] == "EXN":
        raise RuntimeError("model runner: " + reply)
    return ("ok", reply)


# ------------------------------------------------------------------ operand pools

NVARS = 40   # variable ids 0..NVARS-1: even ids are bool, odd ids are int


def bvar(i):
    _, _, E = C()
    return E.BoolVar(2 * (i % (NVARS // 2)))


def ivar(i):
    _, _, E = C()
    return E.IntVar(2 * (i % (NVARS // 2)) + 1, -3, 6)


def scalar_pool():
    b0, b1, b2 = bvar(0), bvar(1), bvar(2)
    i0, i1 = ivar(0), ivar(1)
    return [True, False, 0, 1, -3, 7, None, b0, i0, b1 & b2, ~b0, b1 | True, i1 + 2, -i0, b2.cond(i1, 4), i0 < i1]


SHAPES_1D = [0, 1, 2, 3]
SHAPES_2D = [(h, w) for h in range(4) for w in range(4)]


def mk_array(kind, shape, variant, rng=None):
    """variant 0: consecutive variables; 1: variables from another offset; 2: composite / literal items"""
    A, _, _ = C()
    n = shape if isinstance(shape, int) else shape[0] * shape[1]
    if kind == "bool":
        if variant == 0:
            data = [bvar(3 + i) for i in range(n)]
        elif variant == 1:
            data = [bvar(12 + i) for i in range(n)]
        else:
            data = [[bvar(3 + i) & bvar(5 + i), ~bvar(i), True, bvar(i) | bvar(i + 1), False][(i + variant) % 5] for i in range(n)]
        return A.BoolArray1D(data) if isinstance(shape, int) else A.BoolArray2D(data, shape)
    if variant == 0:
        data = [ivar(3 + i) for i in range(n)]
    elif variant == 1:
        data = [ivar(12 + i) for i in range(n)]
    else:
        data = [[ivar(3 + i) + ivar(i), -ivar(i), 5, ivar(i) - 2, bvar(i).cond(ivar(i), 0)][(i + variant) % 5] for i in range(n)]
    return A.IntArray1D(data) if isinstance(shape, int) else A.IntArray2D(data, shape)


def array_pool(variants=(0,)):
    out = []
    for kind in ("bool", "int"):
        for sh in SHAPES_1D + SHAPES_2D:
            for v in variants:
                out.append(mk_array(kind, sh, v))
    return out


# ------------------------------------------------------------------ case generation
# a case is (form, detail...) ; see run_case / model_request

def gen_cases(ctx):
    rng = ctx.rng
    scal = scalar_pool()
    arrs0 = array_pool((0,))
    arrs = array_pool((0, 1, 2) if ctx.thorough else (0, 2))
    cases = []
    ops = list(BINOPS)
    # --- binary operators: scalar x array, array x scalar (all), array x array equal shapes (all kind combinations)
    for o in ops:
        for s in scal:
            for a in arrs0:
                cases.append(("bin", o, s, a))
                cases.append(("bin", o, a, s))
    for sh in SHAPES_1D + SHAPES_2D:
        for ka in ("bool", "int"):
            for kb in ("bool", "int"):
                for (va, vb) in ((0, 1), (2, 0), (1, 2)):
                    a, b = mk_array(ka, sh, va), mk_array(kb, sh, vb)
                    for o in ops:
                        cases.append(("bin", o, a, b))
    for a in arrs0:
        for o in ops:
            cases.append(("bin", o, a, a))                       # same object on both sides
    # --- valid stream: operands of the sort the operator wants, every shape, several operand trees
    good_scal = {"bool": [True, False, bvar(6), bvar(7) & bvar(8), ~bvar(9)],
                 "int": [0, 4, -2, ivar(6), ivar(7) + ivar(8), bvar(6).cond(ivar(9), 1)]}
    for o in ops:
        sorts = ("bool",) if o in BOOL_FORMS else ("int",) if o in INT_FORMS else ("bool", "int")
        for k in sorts:
            for sh in SHAPES_1D + SHAPES_2D:
                for v in ((0, 1, 2) if ctx.thorough else (1, 2)):
                    a = mk_array(k, sh, v)
                    for s in good_scal[k]:
                        cases.append(("bin", o, a, s))
                        cases.append(("bin", o, s, a))
                    cases.append(("bin", o, a, mk_array(k, sh, (v + 1) % 3)))
    for sh in SHAPES_1D + SHAPES_2D:
        for v in (0, 1, 2):
            c, t, f = mk_array("bool", sh, v), mk_array("int", sh, (v + 1) % 3), mk_array("int", sh, (v + 2) % 3)
            for cc in [c] + good_scal["bool"]:
                for tt in [t] + good_scal["int"][:4]:
                    for ff in [f] + good_scal["int"][2:]:
                        if is_array(cc) or is_array(tt) or is_array(ff):
                            cases.append(("cond", cc, tt, ff))
                            if not is_builtin(cc):
                                cases.append(("call", "cond", cc, (tt, ff)))
            for x in [c] + good_scal["bool"]:
                for y in [mk_array("bool", sh, (v + 1) % 3)] + good_scal["bool"]:
                    if is_array(x) or is_array(y):
                        cases.append(("then", x, y))
                        if not is_builtin(x):
                            cases.append(("call", "then", x, (y,)))
    # --- shape mismatches (malformed stream)
    nmis = 1500 if ctx.thorough else 400
    for _ in range(nmis):
        a, b = rng.choice(arrs), rng.choice(arrs)
        cases.append(("bin", rng.choice(ops), a, b))
    # --- scalar x scalar (at least one cspuz object), incl. same object
    for o in ops:
        for s in scal:
            for t in scal:
                if not (is_builtin(s) and is_builtin(t)):
                    cases.append(("bin", o, s, t))
            if not is_builtin(s):
                cases.append(("bin", o, s, s))
    # --- unary
    for v in scal + arrs:
        if not is_builtin(v):
            cases.append(("un", "INV", v))
            cases.append(("un", "NEG", v))
    # --- methods called explicitly
    everything = scal + arrs0
    for self in scal + arrs:
        if is_builtin(self):
            continue
        k = vkind(self)
        if k == "bool":
            for m in ("fold_or", "fold_and", "count_true"):
                cases.append(("call", m, self, ()))
            for y in everything:
                cases.append(("call", "then", self, (y,)))
            for m in ("__and__", "__rand__", "__or__", "__ror__", "__xor__", "__rxor__", "__eq__", "__ne__"):
                for y in rng.sample(everything, 8):
                    cases.append(("call", m, self, (y,)))
            for _ in range(40):
                cases.append(("call", "cond", self, (rng.choice(everything), rng.choice(everything))))
            for y in scal:
                cases.append(("call", "cond", self, (y, 2)))
                cases.append(("call", "cond", self, (ivar(7), y)))
        else:
            if is_array(self):
                cases.append(("call", "alldifferent", self, ()))
            for m in ("__add__", "__radd__", "__sub__", "__rsub__", "__eq__", "__ne__", "__lt__", "__le__", "__gt__", "__ge__"):
                for y in rng.sample(everything, 6):
                    cases.append(("call", m, self, (y,)))
    # --- then / cond with arrays of the same shape, every kind combination
    for sh in SHAPES_1D + SHAPES_2D:
        for kc in ("bool", "int"):
            for kt in ("bool", "int"):
                c, t = mk_array(kc, sh, 0), mk_array(kt, sh, 1)
                cases.append(("then", c, t))
                if kc == "bool":
                    cases.append(("call", "then", c, (t,)))
                for f in (mk_array("int", sh, 2), mk_array("bool", sh, 2), 3, ivar(1), True, bvar(1)):
                    cases.append(("cond", c, t, f))
                    if kc == "bool":
                        cases.append(("call", "cond", c, (t, f)))
                    cases.append(("cond", bvar(9), t, f))
                    cases.append(("cond", bvar(9), f, t))
                    cases.append(("call", "cond", bvar(9) | bvar(8), (t, f)))
                    cases.append(("cond", True, t, f))
                for s in scal:
                    cases.append(("cond", c, s, t))
                    cases.append(("cond", c, t, s))
                    cases.append(("cond", s, t, t))
                    cases.append(("then", c, s))
                    cases.append(("then", s, c))
    # --- cond / then as functions on scalars, and random triples (incl. shape mismatches)
    for x in scal:
        for y in scal:
            cases.append(("then", x, y))
            for z in (1, ivar(2), True, bvar(3), None):
                cases.append(("cond", x, y, z))
                cases.append(("cond", x, z, y))
    for _ in range(4000 if ctx.thorough else 800):
        cases.append(("cond", rng.choice(everything), rng.choice(everything), rng.choice(everything)))
        cases.append(("then", rng.choice(everything), rng.choice(everything)))
    # --- _elementwise called directly: every Op, arities 0..4, every shape argument
    _, _, E = C()
    for o in E.Op:
        for n in range(0, 5):
            for _ in range(6 if ctx.thorough else 3):
                opsl = [rng.choice(everything) for _ in range(n)]
                shp = rng.choice([vshape(x) for x in opsl if is_array(x)] + [(2,), (1, 2)])
                cases.append(("elem", o.name, shp, tuple(opsl)))
    # --- aggregate helpers on nests
    def nest(depth, leaves):
        r = rng.random()
        if depth == 0 or r < 0.35:
            return rng.choice(leaves)
        return [nest(depth - 1, leaves) for _ in range(rng.choice([0, 1, 1, 2, 2, 3]))]
    bool_leaves = [True, False, bvar(0), bvar(1), bvar(2) & bvar(3), ~bvar(4), bvar(5) | False] + \
                  [mk_array("bool", sh, v) for sh in (0, 1, 3, (0, 2), (1, 3), (2, 2), (3, 1)) for v in (0, 2)]
    int_leaves = [0, 1, 5, -2, ivar(0), ivar(1), ivar(2) + 1, -ivar(3), bvar(0).cond(ivar(1), 2)] + \
                 [mk_array("int", sh, v) for sh in (0, 1, 3, (0, 2), (1, 3), (2, 2), (3, 1)) for v in (0, 2)]
    mixed = bool_leaves + int_leaves + [None]
    nh = 1500 if ctx.thorough else 350
    for which in ("CT", "FO", "FA", "AD"):
        good = int_leaves if which == "AD" else bool_leaves
        cases.append(("h", which, ()))
        cases.append(("h", which, ([],)))
        cases.append(("h", which, ([[[]]], ())))
        for _ in range(nh):
            nargs = rng.choice([0, 1, 1, 2, 3])
            bad = rng.random() < 0.2
            cases.append(("h", which, tuple(nest(3, mixed if bad else good) for _ in range(nargs))))
        # constants only
        for _ in range(40):
            lits = [True, False] if which != "AD" else [0, 1, 2, 3]
            cases.append(("h", which, tuple(nest(2, lits) for _ in range(rng.choice([1, 2, 3])))))
    # --- conv2d
    conv_shapes = SHAPES_2D + ([(4, 4), (2, 5), (5, 1)] if ctx.thorough else [(4, 2)])
    for sh in conv_shapes:
        for v in (0, 2):
            a = mk_array("bool", sh, v)
            for kh in range(-1, 6):
                for kw in range(-1, 6):
                    for o in ("and", "or"):
                        cases.append(("conv", a, kh, kw, o))
            cases.append(("conv", a, 1, 1, "xor"))
    # --- four_neighbors / four_neighbor_indices
    for sh in SHAPES_2D + [(1, 5), (5, 1), (4, 3)]:
        for kind in ("bool", "int"):
            a = mk_array(kind, sh, 0)
            for y in range(-2, sh[0] + 2):
                for x in range(-2, sh[1] + 2):
                    for form in ("2", "T"):
                        cases.append(("fni", a, (form, y, x)))
                        cases.append(("fn", a, (form, y, x)))
            cases.append(("fni", a, ("1", 0)))
            cases.append(("fn", a, ("1", 0)))
            cases.append(("fni", a, ("X", 0)))
            cases.append(("fn", a, ("X", 0)))
    return cases


def fn_call_args(form):
    if form[0] == "2":
        return (form[1], form[2])
    if form[0] == "T":
        return ((form[1], form[2]),)
    if form[0] == "1":
        return (form[1],)
    return ((0, 0), form[1])


def as_py_nest(n, depth=0):
    """lists become lists / tuples / generators alternately (all are iterables for flatten_iterator)."""
    if isinstance(n, (list, tuple)):
        items = [as_py_nest(x, depth + 1) for x in n]
        if depth % 3 == 0:
            return items
        if depth % 3 == 1:
            return tuple(items)
        return (x for x in items)
    return n


def model_request(case):
    f = case[0]
    if f == "bin":
        _, o, a, b = case
        return "BIN %s %d %s %s" % (o, 1 if a is b else 0, tok(a), tok(b))
    if f == "un":
        return "UN %s %s" % (case[1], tok(case[2]))
    if f == "call":
        _, m, self, args = case
        return "CALL %s %s%s" % (m, tok(self), "".join(" " + tok(x) for x in args))
    if f == "cond":
        return "COND %s %s %s" % (tok(case[1]), tok(case[2]), tok(case[3]))
    if f == "then":
        return "THEN %s %s" % (tok(case[1]), tok(case[2]))
    if f == "elem":
        _, o, shp, opsl = case
        s = "S1 %d" % shp[0] if len(shp) == 1 else "S2 %d %d" % shp
        return "ELEM %s %s%s" % (o, s, "".join(" " + tok(x) for x in opsl))
    if f == "h":
        return "H %s%s" % (case[1], "".join(" " + nest_tok(n) for n in case[2]))
    if f == "conv":
        _, a, kh, kw, o = case
        return "CONV %d %d %s %d %d %s" % (a.shape[0], a.shape[1], exprio.show_list(a.data), kh, kw, o)
    if f == "fni":
        _, a, form = case
        return "FNI %d %d %s" % (a.shape[0], a.shape[1], " ".join(str(x) for x in form))
    if f == "fn":
        _, a, form = case
        A, _, _ = C()
        return "FN %s %d %d %s %s" % ("B" if isinstance(a, A.BoolArray2D) else "I", a.shape[0], a.shape[1],
                                      exprio.show_list(a.data), " ".join(str(x) for x in form))
    raise ValueError(f)


def impl_thunk(case):
    A, K, E = C()
    f = case[0]
    if f == "bin":
        _, o, a, b = case
        return lambda: BINOPS[o](a, b)
    if f == "un":
        return lambda: (operator.invert if case[1] == "INV" else operator.neg)(case[2])
    if f == "call":
        _, m, self, args = case
        return lambda: getattr(self, m)(*args)
    if f == "cond":
        return lambda: K.cond(case[1], case[2], case[3])
    if f == "then":
        return lambda: K.then(case[1], case[2])
    if f == "elem":
        _, o, shp, opsl = case
        return lambda: A._elementwise(E.Op[o], shp, list(opsl))
    if f == "h":
        fn = {"CT": K.count_true, "FO": K.fold_or, "FA": K.fold_and, "AD": K.alldifferent}[case[1]]
        return lambda: fn(*[as_py_nest(n) for n in case[2]])
    if f == "conv":
        _, a, kh, kw, o = case
        return lambda: a.conv2d(kh, kw, o)
    if f == "fni":
        return lambda: case[1].four_neighbor_indices(*fn_call_args(case[2]))
    if f == "fn":
        return lambda: case[1].four_neighbors(*fn_call_args(case[2]))
    raise ValueError(f)


def run_case_raw(case):
    """run the implementation, return (canonical outcome, raw object or None)."""
    th = impl_thunk(case)
    try:
        r = th()
    except BaseException as ex:  # noqa
        if isinstance(ex, (KeyboardInterrupt, SystemExit)):
            raise
        return ("err", vlib.err_name(ex)), None
    return ser_result(r), r


def case_id(case):
    """short stable description of a case (operand classes / shapes), used for keys and the distribution."""
    def d(v):
        if isinstance(v, (list, tuple)):
            return "[" + ",".join(d(x) for x in v) + "]"
        if is_array(v):
            return "%s%s" % (cls_name(v), "x".join(str(s) for s in v.shape))
        if isinstance(v, (bool, int)) or v is None:
            return repr(v)
        return cls_name(v)
    f = case[0]
    if f == "bin":
        return "%s %s %s" % (d(case[2]), case[1], d(case[3]))
    if f == "un":
        return "%s %s" % (case[1], d(case[2]))
    if f == "call":
        return "%s.%s(%s)" % (d(case[2]), case[1], ",".join(d(x) for x in case[3]))
    if f == "cond":
        return "cond(%s,%s,%s)" % (d(case[1]), d(case[2]), d(case[3]))
    if f == "then":
        return "then(%s,%s)" % (d(case[1]), d(case[2]))
    if f == "elem":
        return "_elementwise(%s,%s,%s)" % (case[1], case[2], d(case[3]))
    if f == "h":
        return "%s(%s)" % ({"CT": "count_true", "FO": "fold_or", "FA": "fold_and", "AD": "alldifferent"}[case[1]],
                           ",".join(d(x) for x in case[2]))
    if f == "conv":
        return "%s.conv2d(%d,%d,%s)" % (d(case[1]), case[2], case[3], case[4])
    return "%s.%s(%s)" % (d(case[1]), "four_neighbor_indices" if f == "fni" else "four_neighbors", case[2])


# ------------------------------------------------------------------ translator (T tie)

MNAMES = {"cond": "m_cond", "then": "m_then", "__invert__": "m_invert", "__and__": "m_and", "__rand__": "m_rand",
          "__or__": "m_or", "__ror__": "m_ror", "__eq__": "m_eq", "__ne__": "m_ne", "__xor__": "m_xor",
          "__rxor__": "m_rxor", "fold_or": "m_fold_or", "fold_and": "m_fold_and", "count_true": "m_count_true",
          "__neg__": "m_neg", "__add__": "m_add", "__radd__": "m_radd", "__sub__": "m_sub", "__rsub__": "m_rsub",
          "__ge__": "m_ge", "__gt__": "m_gt", "__le__": "m_le", "__lt__": "m_lt", "alldifferent": "m_alldifferent"}
# methods of the six classes that are not operators/aggregates (modelled elsewhere or not at all)
IGNORED = {"__init__", "__getitem__", "__len__", "__iter__", "reshape", "flatten", "four_neighbors",
           "four_neighbor_indices", "conv2d", "sol", "is_variable"}
# classes that must not define (and so not override) any operator method
PLAIN = {"BoolVar": {"__init__", "is_variable", "sol"}, "IntVar": {"__init__", "is_variable", "sol"},
         "Expr": {"__init__", "is_variable", "__bool__"},
         "Array1D": {"__init__", "size", "__iter__", "__len__", "__bool__"},
         "Array2D": {"__init__", "_getitem_impl", "__iter__", "__len__", "__bool__"}}
COQ_OPS = {"VAR", "BOOL_CONSTANT", "INT_CONSTANT", "NEG", "ADD", "SUB", "EQ", "NE", "LE", "LT", "GE", "GT", "NOT", "AND",
           "OR", "IFF", "XOR", "IMP", "IF", "ALLDIFF"}


class TranslateError(Exception):
    pass


def _is_overload(fn):
    for d in fn.decorator_list:
        s = ast.unparse(d)
        if s == "overload" or s.endswith(".overload"):
            return True
    return False


def _strip(body):
    body = list(body)
    if body and isinstance(body[0], ast.Expr) and isinstance(getattr(body[0], "value", None), ast.Constant) \
            and isinstance(body[0].value.value, str):
        body = body[1:]
    return body


def _op_of(node, where):
    if isinstance(node, ast.Attribute) and isinstance(node.value, ast.Name) and node.value.id == "Op" and node.attr in COQ_OPS:
        return node.attr
    raise TranslateError("%s: operator argument %s not understood" % (where, ast.unparse(node)))


def _margs(node, params, where, strip_cast=False):
    if not isinstance(node, ast.List):
        raise TranslateError("%s: operand list %s not understood" % (where, ast.unparse(node)))
    out = []
    for e in node.elts:
        if strip_cast and isinstance(e, ast.Call) and isinstance(e.func, ast.Name) and e.func.id == "cast" and len(e.args) == 2:
            e = e.args[1]                      # typing.cast(T, x) is x at run time
        if isinstance(e, ast.Name) and e.id == "self":
            out.append("MSelf")
        elif isinstance(e, ast.Name) and e.id in params:
            out.append("MArg %d" % params.index(e.id))
        else:
            raise TranslateError("%s: operand %s not understood" % (where, ast.unparse(e)))
    return "[" + "; ".join(out) + "]"


def _self_shape(node):
    return isinstance(node, ast.Attribute) and node.attr == "shape" and isinstance(node.value, ast.Name) and node.value.id == "self"


def _self_data(node):
    return isinstance(node, ast.Attribute) and node.attr == "data" and isinstance(node.value, ast.Name) and node.value.id == "self"


def _elementwise_call(node, params, where):
    if isinstance(node, ast.Call) and isinstance(node.func, ast.Name) and node.func.id == "_elementwise" \
            and len(node.args) == 3 and not node.keywords and _self_shape(node.args[1]):
        return _op_of(node.args[0], where), _margs(node.args[2], params, where)
    return None


def _is_ni_guard(stmt, var):
    """if <var> is NotImplemented: raise TypeError(...)"""
    if not (isinstance(stmt, ast.If) and not stmt.orelse and len(stmt.body) == 1):
        return False
    t = stmt.test
    if not (isinstance(t, ast.Compare) and isinstance(t.left, ast.Name) and t.left.id == var and len(t.ops) == 1
            and isinstance(t.ops[0], ast.Is) and isinstance(t.comparators[0], ast.Name) and t.comparators[0].id == "NotImplemented"):
        return False
    r = stmt.body[0]
    return isinstance(r, ast.Raise) and isinstance(r.exc, ast.Call) and isinstance(r.exc.func, ast.Name) and r.exc.func.id == "TypeError"


def _norm(stmts):
    return "\n".join(ast.dump(s, annotate_fields=False) for s in stmts)


# the bodies of BoolExpr.cond / BoolExpr.then, as the model (expr_cond / expr_then) reads them
EXPR_COND_SRC = '''
if _is_int_expr_like(t) and _is_int_expr_like(f):
    res = _make_int_expr(Op.IF, [self, cast(IntExprLike, t), cast(IntExprLike, f)])
    if res is not NotImplemented:
        return res
else:
    from .constraints import cond

    res = cond(self, t, f)  # type: ignore

    if res is not NotImplemented:
        return res

raise TypeError(
    "unsupported argument type(s) for operator 'cond': "
    "'{}' and '{}'".format(type(t).__name__, type(f).__name__)
)
'''
EXPR_THEN_SRC = '''
if _is_bool_expr_like(other):
    res = _make_bool_expr(Op.IMP, [self, cast(BoolExprLike, other)])
    if res is not NotImplemented:
        return res
else:
    from .constraints import then

    res2 = then(self, other)
    if res2 is not NotImplemented:
        return res2

raise TypeError(
    "unsupported argument type(s) for operator `then`: '{}'".format(type(other).__name__)
)
'''


def _strip_raise_message(stmts):
    """the message of a raise TypeError(...) carries no meaning for the model"""
    class T(ast.NodeTransformer):
        def visit_Raise(self, node):
            if isinstance(node.exc, ast.Call) and isinstance(node.exc.func, ast.Name):
                return ast.Raise(exc=ast.Call(func=node.exc.func, args=[], keywords=[]), cause=None)
            return node
    return [T().visit(s) for s in stmts]


def translate_method(cname, fn):
    where = "%s.%s" % (cname, fn.name)
    if fn.args.vararg or fn.args.kwarg or fn.args.kwonlyargs or fn.args.defaults or fn.args.posonlyargs:
        raise TranslateError(where + ": unexpected signature")
    params = [a.arg for a in fn.args.args]
    if not params or params[0] != "self":
        raise TranslateError(where + ": first parameter is not self")
    params = params[1:]
    body = _strip(fn.body)
    if cname == "BoolExpr" and fn.name in ("cond", "then"):
        want = EXPR_COND_SRC if fn.name == "cond" else EXPR_THEN_SRC
        wparams = ["t", "f"] if fn.name == "cond" else ["other"]
        if params != wparams or _norm(_strip_raise_message(body)) != _norm(_strip_raise_message(ast.parse(want).body)):
            raise TranslateError(where + ": body differs from the shape the model (expr_cond / expr_then) was written from")
        return "BExprCond" if fn.name == "cond" else "BExprThen"
    if len(body) == 1 and isinstance(body[0], ast.Return) and body[0].value is not None:
        v = body[0].value
        ew = _elementwise_call(v, params, where)
        if ew:
            return "BElem %s %s" % ew
        if isinstance(v, ast.Call) and isinstance(v.func, ast.Name) and v.func.id in ("_make_bool_expr", "_make_int_expr") \
                and len(v.args) == 2 and not v.keywords:
            return "%s %s %s" % ("BMakeBool" if v.func.id == "_make_bool_expr" else "BMakeInt",
                                 _op_of(v.args[0], where), _margs(v.args[1], params, where))
        if isinstance(v, ast.Call) and isinstance(v.func, ast.Name) and v.func.id == "BoolExpr" and len(v.args) == 2 \
                and not v.keywords and _self_data(v.args[1]):
            return "BNodeData %s" % _op_of(v.args[0], where)
        if isinstance(v, ast.Name) and v.id == "self":
            return "BReturnSelf"
        if isinstance(v, ast.Call) and isinstance(v.func, ast.Attribute) and v.func.attr == "cond" \
                and isinstance(v.func.value, ast.Name) and v.func.value.id == "self" and len(v.args) == 2 and not v.keywords \
                and all(isinstance(a, ast.Constant) and type(a.value) is int for a in v.args):
            return "BSelfCond (%d) (%d)" % (v.args[0].value, v.args[1].value)
    if len(body) == 3 and isinstance(body[0], ast.Assign) and len(body[0].targets) == 1 and isinstance(body[0].targets[0], ast.Name):
        var = body[0].targets[0].id
        ew = _elementwise_call(body[0].value, params, where)
        if ew and _is_ni_guard(body[1], var) and isinstance(body[2], ast.Return) and isinstance(body[2].value, ast.Name) \
                and body[2].value.id == var:
            return "BElemTE %s %s" % ew
    if len(body) == 2 and isinstance(body[0], ast.Import) and [a.name for a in body[0].names] == ["cspuz.constraints"] \
            and isinstance(body[1], ast.Return) and ast.unparse(body[1].value) == "cspuz.constraints.count_true(self.data)":
        return "BCountTrueData"
    raise TranslateError(where + ": body shape not understood: " + ast.unparse(fn)[:200])


def translate_sources():
    rows = []
    seen_classes = set()
    for fname, classes in (("expr.py", ("BoolExpr", "IntExpr")),
                           ("array.py", ("BoolArray1D", "IntArray1D", "BoolArray2D", "IntArray2D"))):
        with open(os.path.join(vlib.REPO, "cspuz", fname)) as f:
            tree = ast.parse(f.read())
        for node in tree.body:
            if not isinstance(node, ast.ClassDef):
                continue
            if node.name in PLAIN:
                seen_classes.add(node.name)
                for st in node.body:
                    if isinstance(st, ast.FunctionDef) and st.name not in PLAIN[node.name]:
                        raise TranslateError("class %s defines %s: the operator protocol model assumes it does not" % (node.name, st.name))
                    if isinstance(st, ast.Assign):
                        raise TranslateError("class %s has a class-level assignment" % node.name)
                continue
            if node.name not in classes:
                continue
            seen_classes.add(node.name)
            bases = [ast.unparse(b) for b in node.bases]
            want_bases = {"BoolExpr": ["Expr"], "IntExpr": ["Expr"], "BoolArray1D": ["Array1D[BoolExpr]"],
                          "IntArray1D": ["Array1D[IntExpr]"], "BoolArray2D": ["Array2D[BoolExpr]"], "IntArray2D": ["Array2D[IntExpr]"]}
            if bases != want_bases[node.name]:
                raise TranslateError("class %s has bases %s" % (node.name, bases))
            names = set()
            for st in node.body:
                if isinstance(st, ast.FunctionDef):
                    if _is_overload(st):
                        continue
                    if st.name in IGNORED:
                        continue
                    if st.name not in MNAMES:
                        raise TranslateError("%s.%s: method not known to the model" % (node.name, st.name))
                    if st.decorator_list:
                        raise TranslateError("%s.%s: decorated" % (node.name, st.name))
                    if st.name in names:
                        raise TranslateError("%s.%s: defined twice" % (node.name, st.name))
                    names.add(st.name)
                    rows.append((node.name, st.name, translate_method(node.name, st)))
                elif isinstance(st, (ast.Assign, ast.AugAssign)):
                    raise TranslateError("class %s has a class-level assignment (method alias?)" % node.name)
                elif isinstance(st, (ast.AnnAssign, ast.Expr, ast.Pass)):
                    if isinstance(st, ast.AnnAssign) and st.value is not None:
                        raise TranslateError("class %s has a class-level assignment" % node.name)
                else:
                    raise TranslateError("class %s: statement %s not understood" % (node.name, type(st).__name__))
    for c in ("BoolExpr", "IntExpr", "BoolArray1D", "IntArray1D", "BoolArray2D", "IntArray2D", "BoolVar", "IntVar", "Expr", "Array1D", "Array2D"):
        if c not in seen_classes:
            raise TranslateError("class %s not found" % c)
    return rows


# ---- the isinstance predicates and the type-check chain of _elementwise

DCLS = {"BoolExpr": "DBoolExpr", "IntExpr": "DIntExpr", "bool": "DBool", "int": "DInt", "BoolArray1D": "DBoolArray1D",
        "BoolArray2D": "DBoolArray2D", "IntArray1D": "DIntArray1D", "IntArray2D": "DIntArray2D"}
LIKE = {"_is_bool_like": "LBoolLike", "_is_int_like": "LIntLike"}


def _find_function(tree, name):
    found = [n for n in tree.body if isinstance(n, ast.FunctionDef) and n.name == name and not _is_overload(n)]
    if len(found) != 1:
        raise TranslateError("function %s: %d definitions" % (name, len(found)))
    return found[0]


def _isinstance_classes(node, argname, where):
    """isinstance(<argname>, C) / isinstance(<argname>, (C1, C2, ...)) -> [dcls]"""
    if not (isinstance(node, ast.Call) and isinstance(node.func, ast.Name) and node.func.id == "isinstance"
            and len(node.args) == 2 and not node.keywords and isinstance(node.args[0], ast.Name) and node.args[0].id == argname):
        raise TranslateError("%s: %s is not an isinstance test of the argument" % (where, ast.unparse(node)))
    c = node.args[1]
    elts = c.elts if isinstance(c, ast.Tuple) else [c]
    out = []
    for e in elts:
        if not (isinstance(e, ast.Name) and e.id in DCLS):
            raise TranslateError("%s: class %s not known to the model" % (where, ast.unparse(e)))
        out.append(DCLS[e.id])
    return out


def translate_like(tree, name):
    fn = _find_function(tree, name)
    where = name
    if len(fn.args.args) != 1 or fn.args.vararg or fn.args.kwarg or fn.args.defaults:
        raise TranslateError(where + ": unexpected signature")
    arg = fn.args.args[0].arg
    body = _strip(fn.body)
    if len(body) != 1 or not isinstance(body[0], ast.Return) or body[0].value is None:
        raise TranslateError(where + ": body is not a single return")
    v = body[0].value
    pos, neg = None, []
    if isinstance(v, ast.BoolOp) and isinstance(v.op, ast.And) and len(v.values) == 2 \
            and isinstance(v.values[1], ast.UnaryOp) and isinstance(v.values[1].op, ast.Not):
        pos = _isinstance_classes(v.values[0], arg, where)
        neg = _isinstance_classes(v.values[1].operand, arg, where)
    else:
        pos = _isinstance_classes(v, arg, where)
    return "{| like_pos := [%s]; like_neg := [%s] |}" % ("; ".join(pos), "; ".join(neg))


def _ops_of_test(t, where):
    """op in [Op.A, ...]  |  op == Op.A"""
    if isinstance(t, ast.Compare) and isinstance(t.left, ast.Name) and t.left.id == "op" and len(t.ops) == 1:
        c = t.comparators[0]
        if isinstance(t.ops[0], ast.In) and isinstance(c, ast.List):
            return [_op_of(e, where) for e in c.elts]
        if isinstance(t.ops[0], ast.Eq):
            return [_op_of(c, where)]
    raise TranslateError("%s: branch condition %s not understood" % (where, ast.unparse(t)))


def _len_ne(t):
    """len(operands) != N -> N"""
    if isinstance(t, ast.Compare) and len(t.ops) == 1 and isinstance(t.ops[0], ast.NotEq) and ast.unparse(t.left) == "len(operands)" \
            and isinstance(t.comparators[0], ast.Constant) and type(t.comparators[0].value) is int:
        return t.comparators[0].value
    return None


def _pred_on_index(t, where):
    """P(operands[i]) -> (P, i)"""
    if isinstance(t, ast.Call) and isinstance(t.func, ast.Name) and t.func.id in LIKE and len(t.args) == 1 and not t.keywords:
        a = t.args[0]
        if isinstance(a, ast.Subscript) and isinstance(a.value, ast.Name) and a.value.id == "operands" \
                and isinstance(a.slice, ast.Constant) and type(a.slice.value) is int:
            return LIKE[t.func.id], a.slice.value
    raise TranslateError("%s: %s is not a predicate on operands[i]" % (where, ast.unparse(t)))


def _all_map(t):
    """all(map(P, operands)) -> P"""
    if isinstance(t, ast.Call) and isinstance(t.func, ast.Name) and t.func.id == "all" and len(t.args) == 1:
        m = t.args[0]
        if isinstance(m, ast.Call) and isinstance(m.func, ast.Name) and m.func.id == "map" and len(m.args) == 2 \
                and isinstance(m.args[0], ast.Name) and m.args[0].id in LIKE and isinstance(m.args[1], ast.Name) and m.args[1].id == "operands":
            return LIKE[m.args[0].id]
    return None


def _reject_test(t, ops, where):
    """the condition under which the branch returns NotImplemented -> a tcrow"""
    opl = "[%s]" % "; ".join(ops)
    n, rest = None, t
    if isinstance(t, ast.BoolOp) and isinstance(t.op, ast.Or) and len(t.values) == 2 and _len_ne(t.values[0]) is not None:
        n, rest = _len_ne(t.values[0]), t.values[1]
    if not (isinstance(rest, ast.UnaryOp) and isinstance(rest.op, ast.Not)):
        raise TranslateError("%s: %s not understood" % (where, ast.unparse(t)))
    inner = rest.operand
    p = _all_map(inner)
    if p is not None:
        return "TCAll %s %s %s" % (opl, "None" if n is None else "(Some %d%%nat)" % n, p)
    parts = inner.values if (isinstance(inner, ast.BoolOp) and isinstance(inner.op, ast.And)) else [inner]
    preds = [_pred_on_index(x, where) for x in parts]
    if n is None or [i for (_, i) in preds] != list(range(n)):
        raise TranslateError("%s: %s does not test operands[0..n-1] in order with the length check" % (where, ast.unparse(t)))
    return "TCEach %s [%s]" % (opl, "; ".join(pn for (pn, _) in preds))


def translate_elementwise_chain(tree):
    fn = _find_function(tree, "_elementwise")
    if [a.arg for a in fn.args.args] != ["op", "shape", "operands"]:
        raise TranslateError("_elementwise: unexpected signature")
    body = _strip(fn.body)
    node = body[0]
    rows = []
    while True:
        if not isinstance(node, ast.If):
            raise TranslateError("_elementwise: type-check chain not found")
        where = "_elementwise branch %d" % len(rows)
        ops = _ops_of_test(node.test, where)
        if len(node.body) != 1 or not isinstance(node.body[0], ast.If) or node.body[0].orelse:
            raise TranslateError(where + ": branch body is not a single if")
        inner = node.body[0]
        if len(inner.body) != 1 or not (isinstance(inner.body[0], ast.Return) and isinstance(inner.body[0].value, ast.Name)
                                        and inner.body[0].value.id == "NotImplemented"):
            raise TranslateError(where + ": branch does not return NotImplemented")
        rows.append(_reject_test(inner.test, ops, where))
        if len(node.orelse) == 1 and isinstance(node.orelse[0], ast.If):
            node = node.orelse[0]
            continue
        if len(node.orelse) == 1 and isinstance(node.orelse[0], ast.Raise) and isinstance(node.orelse[0].exc, ast.Call) \
                and isinstance(node.orelse[0].exc.func, ast.Name) and node.orelse[0].exc.func.id == "ValueError":
            break
        raise TranslateError("_elementwise: the chain does not end with raise ValueError")
    return rows


def translate_op_list(tree, name):
    fn = _find_function(tree, name)
    body = _strip(fn.body)
    if len(body) == 1 and isinstance(body[0], ast.Return):
        t = body[0].value
        if isinstance(t, ast.Compare) and isinstance(t.left, ast.Name) and t.left.id == "op" and len(t.ops) == 1 \
                and isinstance(t.ops[0], ast.In) and isinstance(t.comparators[0], ast.List):
            return [_op_of(e, name) for e in t.comparators[0].elts]
    raise TranslateError(name + ": body not understood")


def translate_tables():
    with open(os.path.join(vlib.REPO, "cspuz", "array.py")) as f:
        atree = ast.parse(f.read())
    with open(os.path.join(vlib.REPO, "cspuz", "expr.py")) as f:
        etree = ast.parse(f.read())
    out = []
    out.append("Definition gen_is_bool_like : likedef := %s." % translate_like(atree, "_is_bool_like"))
    out.append("Definition gen_is_int_like : likedef := %s." % translate_like(atree, "_is_int_like"))
    out.append("Definition gen_is_bool_expr_like : likedef := %s." % translate_like(etree, "_is_bool_expr_like"))
    out.append("Definition gen_is_int_expr_like : likedef := %s." % translate_like(etree, "_is_int_expr_like"))
    out.append("Definition gen_elem_table : list tcrow :=\n  [ %s ]." % ";\n    ".join(translate_elementwise_chain(atree)))
    out.append("Definition gen_bool_ops : list op := [%s]." % "; ".join(translate_op_list(etree, "is_bool_op")))
    out.append("Definition gen_int_ops : list op := [%s]." % "; ".join(translate_op_list(etree, "is_int_op")))
    return "\n".join(out) + "\n"


def render_table(rows):
    lines = ["(* GENERATED by harness/pC12.py::translate from /repo/cspuz/expr.py and array.py — do not edit *)",
             "From Coq Require Import ZArith List.",
             "From Cspuz Require Import Core.Expr Array.Elementwise.",
             "Import ListNotations.",
             "Open Scope Z_scope.",
             "Definition dunder_table : list (mclass * mname * body) :=",
             "  ["]
    lines.append(";\n".join("    (C%s, %s, %s)" % (c, MNAMES[m], b) for (c, m, b) in rows))
    lines.append("  ].")
    return "\n".join(lines) + "\n" + translate_tables()


def translate(ctx):
    rows = translate_sources()
    vlib.write_if_changed(os.path.join(vlib.GEN, "DunderTable.v"), render_table(rows))
    ctx.count("translated-method-rows", len(rows))


# ------------------------------------------------------------------ correspondence (C tie)

def correspond(ctx):
    m = ctx.model("C12")
    cases = gen_cases(ctx)
    reqs = [model_request(c) for c in cases]
    outs = m.batch(reqs)
    ctx._c12 = []
    for case, o in zip(cases, outs):
        mo = parse_model(o)
        io, raw = run_case_raw(case)
        ctx.count("form:" + case[0])
        ctx.count("impl-outcome:" + (io[0] if io[0] != "err" else io[1]))
        ctx.corr(case[0], (case_id(case), model_request(case)), mo, io)
        ctx._c12.append((case, io, raw))


# ------------------------------------------------------------------ search (the property itself)

class Env:
    def __init__(self, rng):
        self.b = [rng.random() < 0.5 for _ in range(NVARS)]
        self.i = [rng.randint(-3, 6) for _ in range(NVARS)]

    def wire(self):
        return "[ %s ] [ %s ]" % (" ".join("1" if x else "0" for x in self.b), " ".join(str(x) for x in self.i))


class IllTyped(Exception):
    pass


def pyeval(e, env):
    """independent evaluator of expression trees (strictly typed: bool vs int)."""
    _, _, E = C()
    if isinstance(e, bool):
        return e
    if isinstance(e, int):
        return e
    if isinstance(e, E.BoolVar):
        return bool(env.b[e.id])
    if isinstance(e, E.IntVar):
        return int(env.i[e.id])
    if not isinstance(e, E.Expr):
        raise IllTyped(repr(e))
    op = e.op.name
    a = [pyeval(x, env) for x in e.operands]

    def want(t, n=None):
        if n is not None and len(a) != n:
            raise IllTyped(op)
        for x in a:
            if type(x) is not t:
                raise IllTyped(op)
    isb = isinstance(e, E.BoolExpr)
    if isb:
        if op == "BOOL_CONSTANT":
            want(bool, 1)
            return a[0]
        if op == "NOT":
            want(bool, 1)
            return not a[0]
        if op == "AND":
            want(bool)
            return all(a)
        if op == "OR":
            want(bool)
            return any(a)
        if op in ("IFF", "XOR", "IMP"):
            want(bool, 2)
            return {"IFF": a[0] == a[1], "XOR": a[0] != a[1], "IMP": (not a[0]) or a[1]}[op]
        if op in ("EQ", "NE", "LE", "LT", "GE", "GT"):
            want(int, 2)
            return {"EQ": a[0] == a[1], "NE": a[0] != a[1], "LE": a[0] <= a[1], "LT": a[0] < a[1],
                    "GE": a[0] >= a[1], "GT": a[0] > a[1]}[op]
        if op == "ALLDIFF":
            want(int)
            return len(set(a)) == len(a)
        raise IllTyped(op)
    if op == "INT_CONSTANT":
        want(int, 1)
        return a[0]
    if op == "NEG":
        want(int, 1)
        return -a[0]
    if op == "ADD":
        want(int)
        if not a:
            raise IllTyped(op)
        return sum(a)
    if op == "SUB":
        want(int)
        if not a:
            raise IllTyped(op)
        return a[0] - sum(a[1:])
    if op == "IF":
        if len(a) != 3 or type(a[0]) is not bool or type(a[1]) is not int or type(a[2]) is not int:
            raise IllTyped(op)
        return a[1] if a[0] else a[2]
    raise IllTyped(op)


def pyeval_wire(e, env):
    try:
        v = pyeval(e, env)
    except IllTyped:
        return "NONE"
    return ("VB 1" if v else "VB 0") if type(v) is bool else "VI %d" % v


def val_wire(v):
    return ("VB 1" if v else "VB 0") if type(v) is bool else "VI %d" % v


def operand_at(v, i, env):
    return pyeval(v.data[i], env) if is_array(v) else pyeval(v, env)


BIN_SEM = {"and": lambda a, b: a and b, "or": lambda a, b: a or b, "xor": lambda a, b: a != b,
           "add": lambda a, b: a + b, "sub": lambda a, b: a - b, "eq": lambda a, b: a == b, "ne": lambda a, b: a != b,
           "lt": lambda a, b: a < b, "le": lambda a, b: a <= b, "gt": lambda a, b: a > b, "ge": lambda a, b: a >= b}
DUNDER_SEM = {"__and__": ("and", 0), "__rand__": ("and", 1), "__or__": ("or", 0), "__ror__": ("or", 1),
              "__xor__": ("xor", 0), "__rxor__": ("xor", 1), "__eq__": ("eq", 0), "__ne__": ("ne", 0),
              "__add__": ("add", 0), "__radd__": ("add", 1), "__sub__": ("sub", 0), "__rsub__": ("sub", 1),
              "__lt__": ("lt", 0), "__le__": ("le", 0), "__gt__": ("gt", 0), "__ge__": ("ge", 0)}


def expectation(case):
    """what the property demands of this case:
         None                        -> the property says nothing
         ("raise",)                  -> must be rejected with an exception
         ("array", kind, shape, fn)  -> array of that kind/shape, element i denotes fn(i, env)
         ("scalar", kind, fn)        -> expression of that kind denoting fn(env)
         ("indices", list)           -> list of index pairs (compared as a set, no duplicates)"""
    f = case[0]

    def kinds_shapes(vals):
        ks = [vkind(v) for v in vals]
        shs = [vshape(v) for v in vals if is_array(v)]
        return ks, shs

    def pointwise(vals, reskind, fn):
        shs = [vshape(v) for v in vals if is_array(v)]
        if shs:
            return ("array", reskind, shs[0], lambda i, env: fn(*[operand_at(v, i, env) for v in vals]))
        return ("scalar", reskind, lambda env: fn(*[pyeval(v, env) for v in vals]))

    def binary(o, a, b):
        ks, shs = kinds_shapes([a, b])
        if "other" in ks:
            return None
        if is_builtin(a) and is_builtin(b):
            return None
        if o in EQ_FORMS:
            if ks[0] != ks[1]:
                return None                      # equality between a bool-valued and an int-valued operand: not constrained
        else:
            need = "bool" if o in BOOL_FORMS else "int"
            if ks != [need, need]:
                return ("raise", "kind")
        if len(shs) == 2 and shs[0] != shs[1]:
            return ("raise", "shape")
        return pointwise([a, b], "int" if o in ("add", "sub") else "bool", BIN_SEM[o])

    if f == "bin":
        return binary(case[1], case[2], case[3])
    if f == "un":
        v = case[2]
        k = vkind(v)
        if k == "other":
            return None
        need = "bool" if case[1] == "INV" else "int"
        if k != need:
            return ("raise",)
        return pointwise([v], need, (lambda a: not a) if need == "bool" else (lambda a: -a))
    if f in ("then", "cond") or (f == "call" and case[1] in ("then", "cond")):
        if f == "call":
            form, vals = case[1], [case[2]] + list(case[3])
        else:
            form, vals = f, list(case[1:])
        ks, shs = kinds_shapes(vals)
        if "other" in ks:
            return None
        need = ["bool", "bool"] if form == "then" else ["bool", "int", "int"]
        if len(vals) != len(need):
            return None
        if ks != need:
            return ("raise",)
        if any(s != shs[0] for s in shs):
            return ("raise",)
        if form == "then":
            return pointwise(vals, "bool", lambda a, b: (not a) or b)
        return pointwise(vals, "int", lambda c, t, e: t if c else e)
    if f == "call":
        m, self, args = case[1], case[2], case[3]
        if m in DUNDER_SEM:
            # a dunder called explicitly: NotImplemented is a legitimate answer (the interpreter then tries the other
            # operand), so such calls are constrained only when they produce a result or hit a shape mismatch
            o, refl = DUNDER_SEM[m]
            a, b = (args[0], self) if refl else (self, args[0])
            exp = binary(o, a, b)
            if exp is None or exp == ("raise", "kind"):
                return None
            return exp
        if m in ("fold_or", "fold_and", "count_true"):
            if vkind(self) != "bool":
                return None
            items = list(self.data) if is_array(self) else [self]
            g = {"fold_or": lambda vs: any(vs), "fold_and": lambda vs: all(vs), "count_true": lambda vs: sum(1 for x in vs if x)}[m]
            return ("scalar", "int" if m == "count_true" else "bool", lambda env: g([pyeval(x, env) for x in items]))
        if m == "alldifferent":
            items = list(self.data)
            return ("scalar", "bool", lambda env: len(set(pyeval(x, env) for x in items)) == len(items))
        return None
    if f == "h":
        items = []

        def fl(n):
            if isinstance(n, (list, tuple)):
                for x in n:
                    fl(x)
            elif is_array(n):
                items.extend(n.data)
            else:
                items.append(n)
        fl(list(case[2]))
        need = "int" if case[1] == "AD" else "bool"
        if any(vkind(x) != need for x in items):
            return None                          # the property speaks about items of the right kind only
        g = {"FO": lambda vs: any(vs), "FA": lambda vs: all(vs), "CT": lambda vs: sum(1 for x in vs if x),
             "AD": lambda vs: len(set(vs)) == len(vs)}[case[1]]
        return ("scalar", "int" if case[1] == "CT" else "bool", lambda env: g([pyeval(x, env) for x in items]))
    if f == "conv":
        _, a, kh, kw, o = case
        if o not in ("and", "or"):
            return ("raise",)
        if kh < 1 or kw < 1:
            return None
        h, w = a.shape
        rh, rw = max(0, h - kh + 1), max(0, w - kw + 1)

        def fn(i, env):
            y, x = divmod(i, rw)
            vs = [pyeval(a.data[(y + dy) * w + (x + dx)], env) for dy in range(kh) for dx in range(kw)]
            return all(vs) if o == "and" else any(vs)
        return ("array", "bool", (rh, rw), fn)
    if f in ("fni", "fn"):
        a, form = case[1], case[2]
        if form[0] in ("1", "X"):
            return ("raise",)
        h, w = a.shape
        y, x = form[1], form[2]
        if not (0 <= y < h and 0 <= x < w):
            return None
        nb = [(y + dy, x + dx) for (dy, dx) in ((-1, 0), (1, 0), (0, -1), (0, 1)) if 0 <= y + dy < h and 0 <= x + dx < w]
        if f == "fni":
            return ("indices", nb)
        return ("cells", vkind(a), nb)
    return None


def search(ctx):
    """the property itself: real results vs the pointwise / mathematical meaning."""
    A, K, E = C()
    rng = ctx.rng
    recs = getattr(ctx, "_c12", None)
    if not recs:
        recs = []
        for case in gen_cases(ctx):
            io, raw = run_case_raw(case)
            recs.append((case, io, raw))
    try:
        model = ctx.model("C12")
    except Exception:
        model = None
    nenv = 4 if (ctx.thorough or getattr(ctx, "deep", False)) else 2
    envs = [Env(rng) for _ in range(nenv)]
    pending = []   # (key, what, detail, env index, tree, expected wire)

    def viol(case, what, detail):
        d = {"case": case_id(case), "request": model_request(case)}
        d.update(detail)
        ctx.violation(case[0] + ":" + case_id(case), what, d)

    for (case, io, raw) in recs:
        try:
            exp = expectation(case)
        except IllTyped:
            continue
        if exp is None:
            continue
        ctx.prop_case("prop-" + case[0], model_request(case))
        if exp[0] == "raise":
            if io == ("ni",) and case[0] == "call" and case[1] in DUNDER_SEM:
                continue
            if io[0] != "err":
                viol(case, "ill-typed or ill-shaped use is not rejected with an exception", {"observed": io})
            continue
        if io == ("ni",) and case[0] == "call" and case[1] in DUNDER_SEM:
            continue
        if io[0] != "ok":
            viol(case, "well-typed use does not produce a result", {"observed": io})
            continue
        if exp[0] == "indices":
            if sorted(raw) != sorted(exp[1]) or len(set(raw)) != len(raw):
                viol(case, "four_neighbor_indices is not the set of in-bounds orthogonal neighbours", {"observed": io, "expected": exp[1]})
            continue
        if exp[0] == "cells":
            want_cls = {"bool": A.BoolArray1D, "int": A.IntArray1D}[exp[1]]
            a = case[1]
            cells = [a.data[y * a.shape[1] + x] for (y, x) in exp[2]]
            if type(raw) is not want_cls or sorted(map(id, raw.data)) != sorted(map(id, cells)):
                viol(case, "four_neighbors is not the in-bounds orthogonal neighbour cells", {"observed": io})
            continue
        if exp[0] == "array":
            _, kind, shp, fn = exp
            want_cls = {("bool", 1): A.BoolArray1D, ("int", 1): A.IntArray1D, ("bool", 2): A.BoolArray2D, ("int", 2): A.IntArray2D}[(kind, len(shp))]
            if type(raw) is not want_cls or tuple(raw.shape) != tuple(shp):
                viol(case, "result is not an array of the operands' shape and the operator's kind", {"observed": io, "expected_shape": list(shp)})
                continue
            size = 1
            for s in shp:
                size *= s
            if len(raw.data) != size:
                viol(case, "result data length differs from the shape", {"observed": io})
                continue
            for i in range(size):
                for ei, env in enumerate(envs):
                    pending.append((case, i, ei, raw.data[i], val_wire(fn(i, env))))
        else:
            _, kind, fn = exp
            okcls = E.BoolExpr if kind == "bool" else E.IntExpr
            if not isinstance(raw, okcls) and not (type(raw) is bool and kind == "bool"):
                viol(case, "result is not an expression of the operator's kind", {"observed": io})
                continue
            for ei, env in enumerate(envs):
                pending.append((case, -1, ei, raw, val_wire(fn(env))))
    # evaluate all result trees: extracted eval and the independent evaluator
    got = None
    if model is not None:
        try:
            got = model.batch(["EVAL %s %s" % (envs[ei].wire(), exprio.show(tree)) for (_, _, ei, tree, _) in pending])
        except Exception as ex:  # noqa
            ctx.note("extracted eval unavailable in search: %r" % (ex,))
    for n, (case, i, ei, tree, want) in enumerate(pending):
        pv = pyeval_wire(tree, envs[ei])
        gv = got[n] if got is not None else pv
        ctx.cases += 1
        if gv != pv:
            ctx.mismatches.append({"kind": "eval-vs-pyeval", "input": exprio.show(tree), "model": gv, "impl": pv})
        if gv != want or pv != want:
            viol(case, "element %d does not denote the pointwise / mathematical meaning" % i if i >= 0 else
                 "result does not denote the mathematical meaning",
                 {"element": i, "tree": exprio.show(tree), "env": envs[ei].wire(), "value": gv, "value_pyeval": pv, "expected": want})


def replay(ctx, rp):
    print(rp)
    v = rp.get("violation", {}).get("detail", {})
    req = v.get("request") if isinstance(v, dict) else None
    if not req:
        return 0
    # re-run the whole search (cases are regenerated deterministically from the seed) and report the same key
    ctx._c12 = None
    search(ctx)
    keys = [x["key"] for x in ctx.violations]
    print("violations now:", keys[:10])
    return 1 if rp["violation"]["key"] in keys else 0
