From Coq Require Import ZArith List.
From Cspuz Require Import Lib.PyErr Core.Expr Core.Program Graph.GraphModel Graph.Cycle Graph.CycleMain.

(* non-primitive _active_edges_single_cycle: on a well-formed graph with at least one vertex the model posts a program *)
Theorem cycle_total : forall st acts g,
  wf_graph g = true -> 1 <= nv g -> length (edges g) <= length acts ->
  (forall e, In e acts -> is_constraint_like e = true) ->
  exists st' passed, post_cycle st acts g false = Ok (st', passed) /\ length passed = nv g.
Proof. exact cycle_total. Qed.
Print Assumptions cycle_total.

(* ... which has a model extending the caller's assignment iff the chosen edges are empty or one simple cycle *)
Theorem cycle_exact : forall gsem st acts g en st' passed,
  wf_graph g = true -> 1 <= nv g -> length (edges g) <= length acts ->
  flags_ok gsem st en acts -> in_bounds en st = true ->
  post_cycle st acts g false = Ok (st', passed) ->
  ((exists en', extends_sat gsem st st' en en') <-> single_cycle g (pattern gsem en acts)).
Proof. exact cycle_exact. Qed.
Print Assumptions cycle_exact.

(* ... and in every such model the returned array marks exactly the visited vertices *)
Theorem cycle_passed : forall gsem st acts g en st' passed en',
  wf_graph g = true -> 1 <= nv g -> length (edges g) <= length acts ->
  flags_ok gsem st en acts ->
  post_cycle st acts g false = Ok (st', passed) ->
  extends_sat gsem st st' en en' ->
  length passed = nv g /\
  forall i, i < nv g ->
    exists p, nth_error passed i = Some p /\ holds gsem en' p = visited g (pattern gsem en acts) i.
Proof. exact cycle_passed. Qed.
Print Assumptions cycle_passed.
