(* C08, planar-separation part, direction B: on an independent pattern of an
   h x w grid, if the inactive cells are connected then the diagonal graph on
   the active cells is a forest and no diagonal walk joins two distinct border
   cells.

   Proof (crossing parity): for a diagonal walk l through active cells let
   E(y, x) be the parity of the number of its steps between rows y and y+1
   whose midpoint lies left of column x.  E does not change between two
   horizontally adjacent cells off the walk, and E(y, x) + E(y+1, x) is the
   parity of the number of steps entering the part of row y+1 left of x, i.e.
   0 for a closed walk.  For a walk between two border cells a correction C
   that only depends on the two ends (it records on which side the walk is
   closed outside the grid) restores the second rule.  Hence G = E + C is
   constant on every connected set of inactive cells, while the two inactive
   cells flanking a diagonal pair that the walk uses an odd number of times get
   different values.  A walk closing a cycle uses the closing pair once; a walk
   between two different cells uses an odd number of times one of the pairs at
   its first cell. *)
From Coq Require Import ZArith List Bool Arith Lia.
From Cspuz Require Import Graph.GraphModel Graph.ReachProofs Graph.Avc Graph.AvcProofs
  Graph.NotAdj Graph.NotAdjForest Graph.NotAdjDiag Graph.NotAdjPlanarGrid Graph.NotAdjPlanarA.
Import ListNotations.
Local Open Scope nat_scope.

(* ------------------------------------------------------------------------ *)
(* parity of the number of steps of a list that satisfy a predicate          *)

Fixpoint cnt (P : nat -> nat -> bool) (l : list nat) : bool :=
  match l with
  | a :: r => match r with b :: _ => xorb (P a b) (cnt P r) | [] => false end
  | [] => false
  end.

Fixpoint steps_ok (Q : nat -> nat -> Prop) (l : list nat) : Prop :=
  match l with
  | a :: r => match r with b :: _ => Q a b /\ steps_ok Q r | [] => True end
  | [] => True
  end.

Lemma cnt_ext Q P P' l :
  steps_ok Q l -> (forall a b, Q a b -> P a b = P' a b) -> cnt P l = cnt P' l.
Proof.
  intros Hs He. induction l as [|a l IH]; [reflexivity|]. destruct l as [|b r]; [reflexivity|].
  destruct Hs as [Hab Hs]. change (xorb (P a b) (cnt P (b :: r)) = xorb (P' a b) (cnt P' (b :: r))).
  rewrite (He a b Hab), (IH Hs). reflexivity.
Qed.

Lemma cnt_xor P P' l : cnt (fun a b => xorb (P a b) (P' a b)) l = xorb (cnt P l) (cnt P' l).
Proof.
  induction l as [|a l IH]; [reflexivity|]. destruct l as [|b r]; [reflexivity|].
  change (xorb (xorb (P a b) (P' a b)) (cnt (fun a b => xorb (P a b) (P' a b)) (b :: r)) =
          xorb (xorb (P a b) (cnt P (b :: r))) (xorb (P' a b) (cnt P' (b :: r)))).
  rewrite IH. destruct (P a b), (P' a b), (cnt P (b :: r)), (cnt P' (b :: r)); reflexivity.
Qed.

Lemma cnt_false Q P l : steps_ok Q l -> (forall a b, Q a b -> P a b = false) -> cnt P l = false.
Proof.
  intros Hs He. induction l as [|a l IH]; [reflexivity|]. destruct l as [|b r]; [reflexivity|].
  destruct Hs as [Hab Hs]. change (xorb (P a b) (cnt P (b :: r)) = false).
  rewrite (He a b Hab), (IH Hs). reflexivity.
Qed.

(* the number of steps crossing the boundary of a set S *)
Lemma cnt_cross (S : nat -> bool) l : l <> [] ->
  cnt (fun a b => xorb (S a) (S b)) l = xorb (S (hd 0 l)) (S (last l 0)).
Proof.
  intros Hne. induction l as [|a l IH]; [congruence|]. destruct l as [|b r].
  - simpl. destruct (S a); reflexivity.
  - change (xorb (xorb (S a) (S b)) (cnt (fun a b => xorb (S a) (S b)) (b :: r)) =
            xorb (S a) (S (last (b :: r) 0))).
    rewrite IH by discriminate. simpl hd. destruct (S a), (S b), (S (last (b :: r) 0)); reflexivity.
Qed.

Lemma cnt_true_ex Q P l : steps_ok Q l -> cnt P l = true -> exists a b, Q a b /\ P a b = true.
Proof.
  intros Hs Hc. induction l as [|a l IH]; [discriminate|]. destruct l as [|b r]; [discriminate|].
  destruct Hs as [Hab Hs]. change (xorb (P a b) (cnt P (b :: r)) = true) in Hc.
  destruct (P a b) eqn:E; [exists a, b; auto|]. rewrite xorb_false_l in Hc. apply IH; [exact Hs|exact Hc].
Qed.

(* xor over a list of indices *)
Definition xfold (f : nat -> bool) (l : list nat) : bool :=
  fold_right (fun o acc => xorb (f o) acc) false l.

Lemma xfold_all_false f l : (forall o, In o l -> f o = false) -> xfold f l = false.
Proof.
  induction l as [|a l IH]; intros H; [reflexivity|]. simpl.
  rewrite (H a (or_introl eq_refl)), IH; [reflexivity|]. intros o Ho. apply H. right. exact Ho.
Qed.

Lemma xfold_true_ex f l : xfold f l = true -> exists o, In o l /\ f o = true.
Proof.
  induction l as [|a l IH]; [discriminate|]. simpl. destruct (f a) eqn:E.
  - intros _. exists a. auto.
  - rewrite xorb_false_l. intros H. destruct (IH H) as [o [Ho Hf]]. exists o. auto.
Qed.

Lemma xfold_eqb_in b l : NoDup l -> In b l -> xfold (fun o => Nat.eqb b o) l = true.
Proof.
  induction l as [|a l IH]; intros Hnd Hin; [destruct Hin|]. inversion Hnd as [|? ? Hna Hnd']; subst. simpl.
  destruct Hin as [->|Hin].
  - rewrite Nat.eqb_refl. rewrite xfold_all_false; [reflexivity|].
    intros o Ho. apply Nat.eqb_neq. intros ->. contradiction.
  - rewrite (IH Hnd' Hin). assert (b <> a) by (intros ->; contradiction).
    apply Nat.eqb_neq in H. rewrite H. reflexivity.
Qed.

Lemma cnt_xfold (F : nat -> nat -> nat -> bool) os l :
  cnt (fun a b => xfold (fun o => F o a b) os) l = xfold (fun o => cnt (F o) l) os.
Proof.
  induction os as [|o os IH]; simpl.
  - apply (cnt_false (fun _ _ => True)); [|reflexivity].
    induction l as [|a l IHl]; [exact I|]. destruct l; [exact I|]. split; [exact I|exact IHl].
  - rewrite <- IH. apply (cnt_xor (F o) (fun a b => xfold (fun o0 => F o0 a b) os)).
Qed.

(* ------------------------------------------------------------------------ *)
(* arithmetic of one diagonal step (ya, xa) -- (yb, xb)                      *)

Ltac bsolve :=
  repeat match goal with
  | |- context [Nat.eqb ?a ?b] => destruct (Nat.eqb_spec a b); cbn [xorb andb orb negb]; try reflexivity
  | |- context [Nat.ltb ?a ?b] => destruct (Nat.ltb_spec a b); cbn [xorb andb orb negb]; try reflexivity
  end; try lia.

(* step between rows y and y+1 with midpoint left of x *)
Definition pe (ya xa yb xb y x : nat) : bool :=
  (((ya =? y) && (yb =? S y)) || ((ya =? S y) && (yb =? y))) && (xa + xb <? 2 * x).

Lemma pe_vertical ya xa yb xb y x :
  (yb = ya + 1 \/ ya = yb + 1) -> (xb = xa + 1 \/ xa = xb + 1) ->
  ~ (ya = S y /\ xa = x) -> ~ (yb = S y /\ xb = x) ->
  xorb (pe ya xa yb xb y x) (pe ya xa yb xb (S y) x) =
  xorb ((ya =? S y) && (xa <? x)) ((yb =? S y) && (xb <? x)).
Proof. intros Hy Hx Ha Hb. unfold pe. destruct Hy as [->| ->], Hx as [->| ->]; bsolve. Qed.

Lemma pe_horizontal ya xa yb xb y x :
  (yb = ya + 1 \/ ya = yb + 1) -> (xb = xa + 1 \/ xa = xb + 1) ->
  ~ (ya = y /\ xa = x) -> ~ (yb = y /\ xb = x) -> ~ (ya = y /\ xa = S x) -> ~ (yb = y /\ xb = S x) ->
  pe ya xa yb xb y x = pe ya xa yb xb y (S x).
Proof. intros Hy Hx Ha Hb Ha' Hb'. unfold pe. destruct Hy as [->| ->], Hx as [->| ->]; bsolve. Qed.

(* the step is the pair (yp, xp) -- (yq, xq), in either direction *)
Definition ispq (yp xp yq xq ya xa yb xb : nat) : bool :=
  ((ya =? yp) && (xa =? xp) && ((yb =? yq) && (xb =? xq))) ||
  ((ya =? yq) && (xa =? xq) && ((yb =? yp) && (xb =? xp))).

Lemma pe_witness_down ya xa yb xb y x :
  (yb = ya + 1 \/ ya = yb + 1) -> (xb = xa + 1 \/ xa = xb + 1) ->
  ~ (ya = y /\ xa = S x) -> ~ (yb = y /\ xb = S x) ->
  xorb (pe ya xa yb xb y (S x)) (pe ya xa yb xb y x) = ispq y x (S y) (S x) ya xa yb xb.
Proof. intros Hy Hx Ha Hb. unfold pe, ispq. destruct Hy as [->| ->], Hx as [->| ->]; bsolve. Qed.

Lemma pe_witness_up ya xa yb xb y x :
  (yb = ya + 1 \/ ya = yb + 1) -> (xb = xa + 1 \/ xa = xb + 1) ->
  ~ (ya = y /\ xa = x) -> ~ (yb = y /\ xb = x) ->
  xorb (pe ya xa yb xb y (S x)) (pe ya xa yb xb y x) = ispq y (S x) (S y) x ya xa yb xb.
Proof. intros Hy Hx Ha Hb. unfold pe, ispq. destruct Hy as [->| ->], Hx as [->| ->]; bsolve. Qed.

(* the correction for a walk end (ye, xe) on the border *)
Definition ce' (h w ye xe y x : nat) : bool :=
  if ye =? 0 then false else if S xe =? w then false else if xe =? 0 then y <? ye
  else (S y =? h) && (xe <? x).

Lemma ce_vertical h w ye xe y x :
  ye < h -> xe < w -> (ye = 0 \/ xe = 0 \/ S ye = h \/ S xe = w) ->
  S y < h -> x < w -> ~ (ye = S y /\ xe = x) ->
  xorb (ce' h w ye xe y x) (ce' h w ye xe (S y) x) = (ye =? S y) && (xe <? x).
Proof. intros H1 H2 H3 H4 H5 H6. unfold ce'. bsolve. Qed.

Lemma ce_horizontal h w ye xe y x :
  ye < h -> xe < w -> (ye = 0 \/ xe = 0 \/ S ye = h \/ S xe = w) ->
  y < h -> S x < w -> (S y < h \/ (~ (ye = y /\ xe = x) /\ ~ (ye = y /\ xe = S x))) ->
  ce' h w ye xe y x = ce' h w ye xe y (S x).
Proof. intros H1 H2 H3 H4 H5 H6. unfold ce'. bsolve. Qed.

(* ------------------------------------------------------------------------ *)

Section DirB.
  Variables h w : nat.
  Variable act : nat -> bool.
  Let n := h * w.
  Let G := grid_graph h w.
  Notation c := (cell w).
  Notation cy := (cell_y w).
  Notation cx := (cell_x w).

  Hypothesis Hind : independent G act.

  (* a step of a diagonal walk through active cells *)
  Definition Qs (a b : nat) : Prop :=
    a < n /\ b < n /\ dadj w a b /\ act a = true /\ act b = true.

  Definition Pe (y x a b : nat) : bool := pe (cy a) (cx a) (cy b) (cx b) y x.
  Definition Srow (y x a : nat) : bool := (cy a =? y) && (cx a <? x).
  Definition isPQ (P Q a b : nat) : bool := ((a =? P) && (b =? Q)) || ((a =? Q) && (b =? P)).

  Lemma eqb_cell a y x : a < n -> x < w -> (a =? c y x) = (cy a =? y) && (cx a =? x).
  Proof.
    intros Ha Hx. destruct (cell_coords h w a Ha) as [Hya [Hxa Ea]].
    destruct (Nat.eqb_spec a (c y x)) as [E|E].
    - rewrite E, (cy_cell w y x Hx), (cx_cell w y x Hx), !Nat.eqb_refl. reflexivity.
    - destruct (Nat.eqb_spec (cy a) y) as [E1|E1]; [|reflexivity].
      destruct (Nat.eqb_spec (cx a) x) as [E2|E2]; [|reflexivity].
      exfalso. apply E. rewrite Ea, E1, E2. reflexivity.
  Qed.

  Lemma isPQ_coords P Q a b yp xp yq xq : a < n -> b < n -> xp < w -> xq < w ->
    P = c yp xp -> Q = c yq xq ->
    isPQ P Q a b = ispq yp xp yq xq (cy a) (cx a) (cy b) (cx b).
  Proof.
    intros Ha Hb Hxp Hxq -> ->. unfold isPQ, ispq.
    rewrite !eqb_cell by assumption. reflexivity.
  Qed.

  Lemma off_cell a y x : a < n -> act a = true -> act (c y x) = false -> ~ (cy a = y /\ cx a = x).
  Proof.
    intros Ha Aa Hc [E1 E2]. destruct (cell_coords h w a Ha) as [_ [_ Ea]].
    rewrite E1, E2 in Ea. rewrite <- Ea in Hc. congruence.
  Qed.

  Definition ce (e y x : nat) : bool := ce' h w (cy e) (cx e) y x.

  Section Walk.
    Variable l : list nat.
    Hypothesis Hl : steps_ok Qs l.
    Hypothesis Hne : l <> [].
    Let s := hd 0 l.
    Let t := last l 0.
    Hypothesis Hends :
      s = t \/ (s < n /\ t < n /\ act s = true /\ act t = true /\
                on_border h w s = true /\ on_border h w t = true).

    Definition E (y x : nat) : bool := cnt (Pe y x) l.
    Definition C (y x : nat) : bool := if s =? t then false else xorb (ce s y x) (ce t y x).
    Definition Gf (y x : nat) : bool := xorb (E y x) (C y x).

    Lemma E_vertical y x : x < w -> act (c (S y) x) = false ->
      xorb (E y x) (E (S y) x) = xorb (Srow (S y) x s) (Srow (S y) x t).
    Proof.
      intros Hx Hc. unfold E. rewrite <- cnt_xor. unfold s, t. rewrite <- (cnt_cross (Srow (S y) x) l Hne).
      apply (cnt_ext Qs); [exact Hl|]. intros a b [Ha [Hb [[Hdy Hdx] [Aa Ab]]]].
      unfold Pe, Srow. apply pe_vertical; try assumption.
      - apply (off_cell a (S y) x Ha Aa Hc).
      - apply (off_cell b (S y) x Hb Ab Hc).
    Qed.

    Lemma E_horizontal y x : act (c y x) = false -> act (c y (S x)) = false -> E y x = E y (S x).
    Proof.
      intros H1 H2. unfold E. apply (cnt_ext Qs); [exact Hl|]. intros a b [Ha [Hb [[Hdy Hdx] [Aa Ab]]]].
      unfold Pe. apply pe_horizontal; try assumption.
      - apply (off_cell a y x Ha Aa H1).
      - apply (off_cell b y x Hb Ab H1).
      - apply (off_cell a y (S x) Ha Aa H2).
      - apply (off_cell b y (S x) Hb Ab H2).
    Qed.

    Lemma E_witness_down y x : S x < w -> act (c y (S x)) = false ->
      xorb (E y (S x)) (E y x) = cnt (isPQ (c y x) (c (S y) (S x))) l.
    Proof.
      intros Hx H1. unfold E. rewrite <- cnt_xor.
      apply (cnt_ext Qs); [exact Hl|]. intros a b [Ha [Hb [[Hdy Hdx] [Aa Ab]]]].
      rewrite (isPQ_coords _ _ a b y x (S y) (S x) Ha Hb ltac:(lia) Hx eq_refl eq_refl).
      unfold Pe. apply pe_witness_down; try assumption.
      - apply (off_cell a y (S x) Ha Aa H1).
      - apply (off_cell b y (S x) Hb Ab H1).
    Qed.

    Lemma E_witness_up y x : S x < w -> act (c y x) = false ->
      xorb (E y (S x)) (E y x) = cnt (isPQ (c y (S x)) (c (S y) x)) l.
    Proof.
      intros Hx H1. unfold E. rewrite <- cnt_xor.
      apply (cnt_ext Qs); [exact Hl|]. intros a b [Ha [Hb [[Hdy Hdx] [Aa Ab]]]].
      rewrite (isPQ_coords _ _ a b y (S x) (S y) x Ha Hb Hx ltac:(lia) eq_refl eq_refl).
      unfold Pe. apply pe_witness_up; try assumption.
      - apply (off_cell a y x Ha Aa H1).
      - apply (off_cell b y x Hb Ab H1).
    Qed.

    (* ---- the correction *)
    Lemma ce_V e y x : e < n -> act e = true -> on_border h w e = true ->
      S y < h -> x < w -> act (c (S y) x) = false ->
      xorb (ce e y x) (ce e (S y) x) = Srow (S y) x e.
    Proof.
      intros He Ae Hb Hy Hx Hc. destruct (cell_coords h w e He) as [Hye [Hxe Ee]].
      rewrite Ee in Hb. apply (on_border_cell h w _ _ Hye Hxe) in Hb.
      unfold ce, Srow. apply ce_vertical; try assumption. apply (off_cell e (S y) x He Ae Hc).
    Qed.

    Lemma ce_H e y x : e < n -> act e = true -> on_border h w e = true ->
      y < h -> S x < w -> (S y < h \/ (act (c y x) = false /\ act (c y (S x)) = false)) ->
      ce e y x = ce e y (S x).
    Proof.
      intros He Ae Hb Hy Hx Hc. destruct (cell_coords h w e He) as [Hye [Hxe Ee]].
      rewrite Ee in Hb. apply (on_border_cell h w _ _ Hye Hxe) in Hb.
      unfold ce. apply ce_horizontal; try assumption.
      destruct Hc as [Hc|[H1 H2]]; [left; exact Hc|right]. split.
      - apply (off_cell e y x He Ae H1).
      - apply (off_cell e y (S x) He Ae H2).
    Qed.

    Lemma C_vertical y x : S y < h -> x < w -> act (c (S y) x) = false ->
      xorb (C y x) (C (S y) x) = xorb (Srow (S y) x s) (Srow (S y) x t).
    Proof.
      intros Hy Hx Hc. unfold C. destruct (Nat.eqb_spec s t) as [Est|Est].
      - rewrite Est. destruct (Srow (S y) x t); reflexivity.
      - destruct Hends as [Hst|[Hs [Ht [As [At [Bs Bt]]]]]]; [contradiction|].
        rewrite <- (ce_V s y x Hs As Bs Hy Hx Hc), <- (ce_V t y x Ht At Bt Hy Hx Hc).
        destruct (ce s y x), (ce t y x), (ce s (S y) x), (ce t (S y) x); reflexivity.
    Qed.

    Lemma C_horizontal y x : y < h -> S x < w ->
      (S y < h \/ (act (c y x) = false /\ act (c y (S x)) = false)) -> C y x = C y (S x).
    Proof.
      intros Hy Hx Hc. unfold C. destruct (Nat.eqb_spec s t) as [Est|Est]; [reflexivity|].
      destruct Hends as [Hst|[Hs [Ht [As [At [Bs Bt]]]]]]; [contradiction|].
      rewrite (ce_H s y x Hs As Bs Hy Hx Hc), (ce_H t y x Ht At Bt Hy Hx Hc). reflexivity.
    Qed.

    (* ---- G is constant along orthogonal steps between inactive cells *)
    Lemma G_horizontal y x : y < h -> S x < w -> act (c y x) = false -> act (c y (S x)) = false ->
      Gf y x = Gf y (S x).
    Proof.
      intros Hy Hx H1 H2. unfold Gf. rewrite (E_horizontal y x H1 H2).
      rewrite (C_horizontal y x Hy Hx (or_intror (conj H1 H2))). reflexivity.
    Qed.

    Lemma G_vertical y x : S y < h -> x < w -> act (c (S y) x) = false -> Gf y x = Gf (S y) x.
    Proof.
      intros Hy Hx Hc. unfold Gf.
      pose proof (E_vertical y x Hx Hc) as HE. pose proof (C_vertical y x Hy Hx Hc) as HC.
      destruct (E y x), (E (S y) x), (C y x), (C (S y) x), (Srow (S y) x s), (Srow (S y) x t);
        simpl in *; congruence.
    Qed.

    Definition Gi (p : nat) : bool := Gf (cy p) (cx p).

    Lemma Gi_cell y x : x < w -> Gi (c y x) = Gf y x.
    Proof. intros Hx. unfold Gi. rewrite (cy_cell w y x Hx), (cx_cell w y x Hx). reflexivity. Qed.

    Lemma Gi_reach u v : reach G (inactive act) all_edges_ok u v -> u < n -> v < n /\ Gi u = Gi v.
    Proof.
      intros Hr Hu. induction Hr as [u Hvu|u v z Hr IH Hz Hwz].
      - split; [exact Hu|reflexivity].
      - destruct (IH Hu) as [Hv HG]. pose proof (reach_vok_end _ _ _ _ _ Hr) as Hwv.
        destruct (cell_coords h w v Hv) as [Hy [Hx Ev]].
        assert (Av : act (c (cy v) (cx v)) = false).
        { rewrite <- Ev. unfold inactive in Hwv. apply negb_true_iff in Hwv. exact Hwv. }
        assert (Az : act z = false) by (unfold inactive in Hwz; apply negb_true_iff in Hwz; exact Hwz).
        rewrite Ev in Hz. apply (grid_nbrs_coords h w _ _ z Hy Hx) in Hz. rewrite HG.
        change (Gi v) with (Gf (cy v) (cx v)).
        destruct Hz as [[H1 ->]|[[H1 ->]|[[x' [H1 ->]]|[y' [H1 ->]]]]].
        + split; [apply cell_lt; lia|]. rewrite (Gi_cell _ _ H1). apply G_horizontal; assumption.
        + split; [apply cell_lt; lia|]. rewrite (Gi_cell _ _ Hx). apply G_vertical; assumption.
        + assert (Hx' : x' < w) by lia.
          split; [apply cell_lt; lia|]. rewrite (Gi_cell _ _ Hx'). rewrite H1 in *. symmetry.
          apply G_horizontal; try assumption.
        + split; [apply cell_lt; lia|]. rewrite (Gi_cell _ _ Hx). rewrite H1 in *. symmetry.
          apply G_vertical; try assumption.
    Qed.

    (* ---- the two inactive cells flanking a diagonal pair *)
    Lemma G_witness_down y x : S y < h -> S x < w ->
      act (c y (S x)) = false -> act (c (S y) x) = false ->
      xorb (Gf y (S x)) (Gf (S y) x) = cnt (isPQ (c y x) (c (S y) (S x))) l.
    Proof.
      intros Hy Hx HA HB. unfold Gf.
      pose proof (E_witness_down y x Hx HA) as H1.
      pose proof (E_vertical y x ltac:(lia) HB) as H2.
      pose proof (C_horizontal y x ltac:(lia) Hx (or_introl Hy)) as H3.
      pose proof (C_vertical y x Hy ltac:(lia) HB) as H4.
      rewrite <- H1, <- H3.
      destruct (E y (S x)), (E y x), (E (S y) x), (C y x), (C (S y) x), (Srow (S y) x s), (Srow (S y) x t);
        simpl in *; congruence.
    Qed.

    Lemma G_witness_up y x : S y < h -> S x < w ->
      act (c y x) = false -> act (c (S y) (S x)) = false ->
      xorb (Gf y x) (Gf (S y) (S x)) = cnt (isPQ (c y (S x)) (c (S y) x)) l.
    Proof.
      intros Hy Hx HA HB. unfold Gf.
      pose proof (E_witness_up y x Hx HA) as H1.
      pose proof (E_vertical y (S x) Hx HB) as H2.
      pose proof (C_horizontal y x ltac:(lia) Hx (or_introl Hy)) as H3.
      pose proof (C_vertical y (S x) Hy Hx HB) as H4.
      rewrite <- H1, H3.
      destruct (E y (S x)), (E y x), (E (S y) (S x)), (C y (S x)), (C (S y) (S x)),
        (Srow (S y) (S x) s), (Srow (S y) (S x) t); simpl in *; congruence.
    Qed.

    (* ---- hence, when the inactive cells are connected, no diagonal pair is
       used an odd number of times *)
    Hypothesis Hconn : connected G (inactive act).

    Lemma white_same A B : A < n -> B < n -> act A = false -> act B = false -> Gi A = Gi B.
    Proof.
      intros HA HB WA WB.
      assert (Hr : reach G (inactive act) all_edges_ok A B).
      { apply Hconn; try assumption; unfold inactive; [rewrite WA|rewrite WB]; reflexivity. }
      apply (Gi_reach A B Hr HA).
    Qed.

    Lemma isPQ_sym P Q a b : isPQ P Q a b = isPQ Q P a b.
    Proof. unfold isPQ. apply orb_comm. Qed.

    Lemma white_of v p : act v = true -> In p (nbrs G all_edges_ok v) -> act p = false.
    Proof.
      intros Av Hp. pose proof (indep_nbr h w act v p Hind Av Hp) as H.
      unfold inactive in H. apply negb_true_iff in H. exact H.
    Qed.

    Lemma no_odd_down y x : S y < h -> S x < w ->
      cnt (isPQ (c y x) (c (S y) (S x))) l = true -> False.
    Proof.
      intros Hy Hx Hc.
      destruct (cnt_true_ex Qs _ l Hl Hc) as [a [b [[Ha [Hb [_ [Aa Ab]]]] Hpq]]].
      assert (AP : act (c y x) = true).
      { unfold isPQ in Hpq. apply orb_true_iff in Hpq.
        destruct Hpq as [H|H]; apply andb_true_iff in H; destruct H as [H1 H2];
          apply Nat.eqb_eq in H1; apply Nat.eqb_eq in H2; congruence. }
      assert (WA : act (c y (S x)) = false).
      { apply (white_of (c y x)); [exact AP|]. apply (nbr_right h w y x); lia. }
      assert (WB : act (c (S y) x) = false).
      { apply (white_of (c y x)); [exact AP|]. apply (nbr_down h w y x); lia. }
      pose proof (G_witness_down y x Hy Hx WA WB) as HG. rewrite Hc in HG.
      pose proof (white_same (c y (S x)) (c (S y) x) ltac:(apply cell_lt; lia) ltac:(apply cell_lt; lia) WA WB) as HS.
      rewrite (Gi_cell y (S x) Hx), (Gi_cell (S y) x ltac:(lia)) in HS. rewrite HS in HG.
      destruct (Gf (S y) x); discriminate.
    Qed.

    Lemma no_odd_up y x : S y < h -> S x < w ->
      cnt (isPQ (c y (S x)) (c (S y) x)) l = true -> False.
    Proof.
      intros Hy Hx Hc.
      destruct (cnt_true_ex Qs _ l Hl Hc) as [a [b [[Ha [Hb [_ [Aa Ab]]]] Hpq]]].
      assert (AP : act (c y (S x)) = true).
      { unfold isPQ in Hpq. apply orb_true_iff in Hpq.
        destruct Hpq as [H|H]; apply andb_true_iff in H; destruct H as [H1 H2];
          apply Nat.eqb_eq in H1; apply Nat.eqb_eq in H2; congruence. }
      assert (WA : act (c y x) = false).
      { apply (white_of (c y (S x))); [exact AP|]. apply (nbr_right h w y x); lia. }
      assert (WB : act (c (S y) (S x)) = false).
      { apply (white_of (c y (S x))); [exact AP|]. apply (nbr_down h w y (S x)); lia. }
      pose proof (G_witness_up y x Hy Hx WA WB) as HG. rewrite Hc in HG.
      pose proof (white_same (c y x) (c (S y) (S x)) ltac:(apply cell_lt; lia) ltac:(apply cell_lt; lia) WA WB) as HS.
      rewrite (Gi_cell y x ltac:(lia)), (Gi_cell (S y) (S x) Hx) in HS. rewrite HS in HG.
      destruct (Gf (S y) (S x)); discriminate.
    Qed.

    Lemma no_odd P Q : P < n -> Q < n -> dadj w P Q -> cnt (isPQ P Q) l = true -> False.
    Proof.
      intros HP HQ Hd Hc.
      destruct (cell_coords h w P HP) as [Hyp [Hxp EP]]. destruct (cell_coords h w Q HQ) as [Hyq [Hxq EQ]].
      assert (Hsw : cnt (isPQ Q P) l = true).
      { rewrite <- Hc. apply (cnt_ext Qs); [exact Hl|]. intros a b _. apply isPQ_sym. }
      destruct Hd as [[Hy|Hy] [Hx|Hx]].
      - apply (no_odd_down (cy P) (cx P)); [lia|lia|].
        replace (S (cy P)) with (cy Q) by lia. replace (S (cx P)) with (cx Q) by lia.
        rewrite <- EP, <- EQ. exact Hc.
      - apply (no_odd_up (cy P) (cx Q)); [lia|lia|].
        replace (S (cy P)) with (cy Q) by lia. replace (S (cx Q)) with (cx P) by lia.
        rewrite <- EP, <- EQ. exact Hc.
      - apply (no_odd_up (cy Q) (cx P)); [lia|lia|].
        replace (S (cy Q)) with (cy P) by lia. replace (S (cx P)) with (cx Q) by lia.
        rewrite <- EP, <- EQ. exact Hsw.
      - apply (no_odd_down (cy Q) (cx Q)); [lia|lia|].
        replace (S (cy Q)) with (cy P) by lia. replace (S (cx Q)) with (cx P) by lia.
        rewrite <- EP, <- EQ. exact Hsw.
    Qed.
  End Walk.

  (* ---- diagonal walks as lists (in reverse order) *)
  Lemma dwalk_list av u v : dwalk h w act av u v ->
    exists l, l <> [] /\ hd 0 l = v /\ last l 0 = u /\
      u < n /\ act u = true /\ v < n /\ act v = true /\
      steps_ok (fun x y => Qs x y /\ forall a b, av = Some (a, b) -> ~ same_pair y x a b) l.
  Proof.
    unfold dwalk. induction 1 as [v Hv Ha|u v x Hw IH Hx Hax Hav].
    - exists [v]. repeat split; try assumption. discriminate.
    - destruct IH as [l [Hne [Hhd [Hlast [Hu [Au [Hv [Av Hs]]]]]]]].
      assert (Hxn : x < n) by apply (diag_nbrs_lt h w v x Hv Hx).
      exists (x :: l). destruct l as [|v' r]; [congruence|]. simpl in Hhd. subst v'.
      split; [discriminate|]. split; [reflexivity|]. split; [exact Hlast|].
      repeat (split; [assumption|]).
      split; [|exact Hs]. split; [|exact Hav].
      split; [exact Hxn|]. split; [exact Hv|]. split; [|auto].
      apply dadj_sym. apply (diag_nbrs_spec h w v x Hv). exact Hx.
  Qed.

  Lemma steps_ok_impl (Q Q' : nat -> nat -> Prop) l :
    (forall a b, Q a b -> Q' a b) -> steps_ok Q l -> steps_ok Q' l.
  Proof.
    intros Hi. induction l as [|a l IH]; [trivial|]. destruct l as [|b r]; [trivial|].
    intros [H1 H2]. split; [apply Hi; exact H1|apply IH; exact H2].
  Qed.

  Lemma xfold_ext f g l : (forall o, In o l -> f o = g o) -> xfold f l = xfold g l.
  Proof.
    induction l as [|a l IH]; intros H; [reflexivity|]. simpl.
    rewrite (H a (or_introl eq_refl)), IH; [reflexivity|]. intros o Ho. apply H. right. exact Ho.
  Qed.

  Hypothesis Hconn : connected G (inactive act).

  Theorem connected_diag_forest : diag_forest h w act.
  Proof.
    intros a b Ha Aa Ab Hb Hw.
    destruct (dwalk_list _ _ _ Hw) as [l [Hne [Hhd [Hlast [_ [_ [Hbn [_ Hs]]]]]]]].
    assert (Hd : dadj w a b) by (apply (diag_nbrs_spec h w a b Ha); exact Hb).
    assert (Hl' : steps_ok Qs (a :: l)).
    { destruct l as [|b' r]; [congruence|]. simpl in Hhd. subst b'. split.
      - repeat split; try assumption; apply Hd.
      - apply (steps_ok_impl _ _ _ (fun x y H => proj1 H) Hs). }
    assert (Hends : hd 0 (a :: l) = last (a :: l) 0).
    { destruct l as [|b' r]; [congruence|]. simpl hd. change (last (a :: b' :: r) 0) with (last (b' :: r) 0).
      symmetry. exact Hlast. }
    apply (no_odd (a :: l) Hl' ltac:(discriminate) (or_introl Hends) Hconn a b Ha Hbn Hd).
    destruct l as [|b' r]; [congruence|]. simpl in Hhd. subst b'.
    change (xorb (isPQ a b a b) (cnt (isPQ a b) (b :: r)) = true).
    assert (E1 : isPQ a b a b = true) by (unfold isPQ; rewrite !Nat.eqb_refl; reflexivity).
    rewrite E1. rewrite (cnt_false _ (isPQ a b) _ Hs); [reflexivity|].
    intros x y [_ Hav]. destruct (isPQ a b x y) eqn:E; [|reflexivity]. exfalso.
    apply (Hav a b eq_refl). unfold isPQ in E. apply orb_true_iff in E. unfold same_pair.
    destruct E as [E|E]; apply andb_true_iff in E; destruct E as [E2 E3];
      apply Nat.eqb_eq in E2; apply Nat.eqb_eq in E3; auto.
  Qed.

  Theorem connected_diag_one_border : diag_one_border h w act.
  Proof.
    intros u v Pu Pv Hw. destruct (Nat.eq_dec u v) as [|Hne']; [assumption|]. exfalso.
    destruct (dwalk_list _ _ _ Hw) as [l [Hne [Hhd [Hlast [Hun [Au [Hvn [Av Hs]]]]]]]].
    assert (Hl : steps_ok Qs l) by (apply (steps_ok_impl _ _ _ (fun x y H => proj1 H) Hs)).
    assert (Hends : hd 0 l = last l 0 \/
                    (hd 0 l < n /\ last l 0 < n /\ act (hd 0 l) = true /\ act (last l 0) = true /\
                     on_border h w (hd 0 l) = true /\ on_border h w (last l 0) = true)).
    { right. rewrite Hhd, Hlast. tauto. }
    pose proof (cnt_cross (fun a => a =? v) l Hne) as Hcross.
    rewrite Hhd, Hlast, Nat.eqb_refl in Hcross.
    assert (Huv : (u =? v) = false) by (apply Nat.eqb_neq; exact Hne').
    rewrite Huv in Hcross. simpl in Hcross.
    assert (Hsplit : cnt (fun a b => xfold (fun o => isPQ v o a b) (diag_nbrs h w v)) l = true).
    { rewrite <- Hcross. apply (cnt_ext Qs); [exact Hl|]. intros a b [Ha [Hb [Hd [Aa Ab]]]].
      assert (Hab : a <> b) by (intros ->; unfold dadj in Hd; lia).
      destruct (Nat.eqb_spec a v) as [Eav|Eav]; destruct (Nat.eqb_spec b v) as [Ebv|Ebv].
      - congruence.
      - subst a. simpl.
        rewrite (xfold_ext _ (fun o => b =? o)).
        + apply xfold_eqb_in; [apply diag_nbrs_nodup|]. apply (diag_nbrs_spec h w v b Hvn). auto.
        + intros o Ho. unfold isPQ. rewrite Nat.eqb_refl. simpl.
          assert (Eb : (b =? v) = false) by (apply Nat.eqb_neq; exact Ebv). rewrite Eb, andb_false_r, orb_false_r.
          reflexivity.
      - subst b. simpl.
        rewrite (xfold_ext _ (fun o => a =? o)).
        + apply xfold_eqb_in; [apply diag_nbrs_nodup|]. apply (diag_nbrs_spec h w v a Hvn).
          split; [exact Ha|apply dadj_sym; exact Hd].
        + intros o Ho. unfold isPQ. rewrite Nat.eqb_refl.
          assert (Ea : (a =? v) = false) by (apply Nat.eqb_neq; exact Eav). rewrite Ea, andb_true_r. reflexivity.
      - simpl. apply xfold_all_false. intros o Ho. unfold isPQ.
        assert (Ea : (a =? v) = false) by (apply Nat.eqb_neq; exact Eav).
        assert (Eb : (b =? v) = false) by (apply Nat.eqb_neq; exact Ebv).
        rewrite Ea, Eb, andb_false_r. reflexivity. }
    rewrite (cnt_xfold (fun o => isPQ v o) (diag_nbrs h w v) l) in Hsplit.
    apply xfold_true_ex in Hsplit. destruct Hsplit as [o [Ho Hc]].
    apply (diag_nbrs_spec h w v o Hvn) in Ho. destruct Ho as [Hon Hd].
    apply (no_odd l Hl Hne Hends Hconn v o Hvn Hon Hd Hc).
  Qed.

  Theorem connected_spec_diag : spec_diag h w act.
  Proof. split; [exact connected_diag_forest|exact connected_diag_one_border]. Qed.
End DirB.

(* direction B: connected inactive cells imply the diagonal forest condition
   (every h and w) *)
Theorem diag_equiv_dirB : forall h w act,
  independent (grid_graph h w) act -> connected (grid_graph h w) (inactive act) -> spec_diag h w act.
Proof. intros h w act Hind Hconn. apply connected_spec_diag; assumption. Qed.
