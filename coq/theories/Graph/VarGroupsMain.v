(* C07: the program posted for group_size = None, its evaluation as the boolean
   certificate, and the exactness theorem. *)
From Coq Require Import ZArith List Bool Arith Lia.
From Cspuz Require Import Lib.PyErr Core.Expr Core.Program Core.Build
  Graph.GraphModel Graph.ReachProofs Graph.VarGroups Graph.VarGroupsSound Graph.VarGroupsComplete
  Graph.VarGroupsEval.
Import ListNotations.
Open Scope nat_scope.

(* ------------------------------------------------------------------------ *)
(* list helpers                                                              *)

Lemma combine_map_same {A B C} (f : A -> B) (h : A -> C) (l : list A) :
  combine (map f l) (map h l) = map (fun x => (f x, h x)) l.
Proof. induction l as [|a l IH]; simpl; [reflexivity|]. rewrite IH. reflexivity. Qed.

Lemma forallb_map' {A B} (p : B -> bool) (h : A -> B) (l : list A) :
  forallb p (map h l) = forallb (fun x => p (h x)) l.
Proof. induction l as [|a l IH]; simpl; [reflexivity|]. rewrite IH. reflexivity. Qed.

Lemma forallb_flat_map {A B} (p : B -> bool) (h : A -> list B) (l : list A) :
  forallb p (flat_map h l) = forallb (fun x => forallb p (h x)) l.
Proof. induction l as [|a l IH]; simpl; [reflexivity|]. rewrite forallb_app, IH. reflexivity. Qed.

Lemma nth_error_lt {A} (l : list A) k x : nth_error l k = Some x -> k < length l.
Proof. intros H. apply nth_error_Some. congruence. Qed.

(* ------------------------------------------------------------------------ *)
(* the hidden variables, read from an assignment                             *)

Definition cert_of_env (k n : nat) (en : env) : vg_cert :=
  {| c_gid := fun i => ei en (k + i);
     c_rank := fun i => ei en (k + n + i);
     c_root := fun i => eb en (k + 2 * n + i);
     c_act := fun e => eb en (k + 3 * n + e) |}.

Definition main_cons (g : graph) (k : nat) : list expr :=
  let n := nv g in let m := length (edges g) in
  let gid := ivars k n 0%Z (zn n - 1)%Z in
  let rank := ivars (k + n) n 0%Z (zn n - 1)%Z in
  let root := bvars (k + 2 * n) n in
  let act := bvars (k + 3 * n) m in
  c_rootrank root rank ++ flat_map (c_vertex g gid rank root act) (seq 0 n) ++ c_edges_eq g act gid.

Definition main_decls (g : graph) : list vdecl :=
  let n := nv g in
  repeat (DInt 0%Z (zn n - 1)%Z) n ++ repeat (DInt 0%Z (zn n - 1)%Z) n
  ++ repeat DBool n ++ repeat DBool (length (edges g)).

Section EvalMain.
  Variable gsem : op -> list (option value) -> option bool.
  Variable g : graph.
  Hypothesis Hwf : wf_graph g = true.
  Variable k : nat.
  Variable en : env.
  Let n := nv g.
  Let m := length (edges g).
  Let c := cert_of_env k n en.
  Let gid := ivars k n 0%Z (zn n - 1)%Z.
  Let rank := ivars (k + n) n 0%Z (zn n - 1)%Z.
  Let root := bvars (k + 2 * n) n.
  Let act := bvars (k + 3 * n) m.
  Notation ev := (eval gsem en).
  Notation hd_ := (holds gsem en).

  Lemma ev_gid i : i < n -> ev (at_ gid i) = Some (VI (c_gid c i)).
  Proof. intros H. unfold gid. rewrite at_ivars by exact H. reflexivity. Qed.
  Lemma ev_rank i : i < n -> ev (at_ rank i) = Some (VI (c_rank c i)).
  Proof. intros H. unfold rank. rewrite at_ivars by exact H. reflexivity. Qed.
  Lemma ev_root i : i < n -> ev (at_ root i) = Some (VB (c_root c i)).
  Proof. intros H. unfold root. rewrite at_bvars by exact H. reflexivity. Qed.
  Lemma ev_act e : e < m -> ev (at_ act e) = Some (VB (c_act c e)).
  Proof. intros H. unfold act. rewrite at_bvars by exact H. reflexivity. Qed.

  Lemma incident_bounds i j e : In (j, e) (incident g i) -> i < n /\ j < n /\ e < m.
  Proof.
    intros Hin. apply incident_spec in Hin. unfold n, m.
    destruct Hin as [H|H]; pose proof (nth_error_lt _ _ _ H);
      apply (wf_graph_edge g e _ _ Hwf) in H; tauto.
  Qed.

  Lemma eval_rootrank :
    forallb hd_ (c_rootrank root rank) =
    forallb (fun i => Bool.eqb (c_root c i) (c_rank c i =? 0)%Z) (seq 0 n).
  Proof.
    unfold c_rootrank, root, rank, bvars, ivars. rewrite combine_map_same, map_map, forallb_map'.
    apply forallb_ext_in. intros i Hi. apply in_seq in Hi.
    apply holds_of_eval. apply ev_b_iff; [reflexivity|]. apply ev_i_eq; reflexivity.
  Qed.

  Lemma eval_vertex i : i < n ->
    forallb hd_ (c_vertex g gid rank root act i) = cert_vertex g c i.
  Proof.
    intros Hi. unfold c_vertex, cert_vertex. rewrite !forallb_app. simpl forallb at 1.
    rewrite andb_true_r. rewrite andb_assoc. f_equal; [f_equal|].
    - apply holds_of_eval. apply ev_b_imp; [apply ev_root; exact Hi|].
      apply ev_i_eq; [apply ev_gid; exact Hi|reflexivity].
    - rewrite forallb_map'. apply forallb_ext_in. intros [j e] Hin.
      destruct (incident_bounds i j e Hin) as [_ [Hj He]].
      apply holds_of_eval. apply ev_b_imp; [apply ev_act; exact He|].
      apply ev_i_ne; apply ev_rank; assumption.
    - simpl forallb. rewrite andb_true_r. apply holds_of_eval.
      replace (if c_root c i then 0%Z else 1%Z) with (if c_root c i then 0%Z else 1%Z) by reflexivity.
      apply ev_i_eq.
      + apply (ev_count_true gsem en
                 (fun '(j, e) => b_and (at_ act e) (i_lt (at_ rank j) (at_ rank i)))
                 (fun '(j, e) => c_act c e && (c_rank c j <? c_rank c i)%Z)).
        intros [j e] Hin. destruct (incident_bounds i j e Hin) as [_ [Hj He]].
        apply ev_b_and; [apply ev_act; exact He|]. apply ev_i_lt; apply ev_rank; assumption.
      + apply ev_i_cond; [apply ev_root; exact Hi|reflexivity|reflexivity].
  Qed.

  Lemma eval_edges_eq (xs : list expr) (f : nat -> Z) :
    (forall i, i < n -> ev (at_ xs i) = Some (VI (f i))) ->
    forallb hd_ (c_edges_eq g act xs) =
    forallb (fun '(k, (u, v)) => implb (c_act c k) (f u =? f v)%Z)
            (combine (seq 0 (length (edges g))) (edges g)).
  Proof.
    intros Hx. unfold c_edges_eq. rewrite forallb_map'. apply forallb_ext_in.
    intros [e [u v]] Hin. apply in_combine_seq in Hin.
    pose proof (nth_error_lt _ _ _ Hin) as He.
    destruct (wf_graph_edge g e u v Hwf Hin) as [Hu Hv].
    apply holds_of_eval. apply ev_b_imp; [apply ev_act; exact He|].
    apply ev_i_eq; apply Hx; assumption.
  Qed.

  Lemma eval_main : forallb hd_ (main_cons g k) = cert_main g c.
  Proof.
    unfold main_cons, cert_main. fold n m gid rank root act.
    rewrite !forallb_app, eval_rootrank, forallb_flat_map. rewrite andb_assoc. f_equal; [f_equal|].
    - apply forallb_ext_in. intros i Hi. apply in_seq in Hi. apply eval_vertex. lia.
    - apply (eval_edges_eq gid (c_gid c)). intros i Hi. apply ev_gid; exact Hi.
  Qed.
End EvalMain.

(* ------------------------------------------------------------------------ *)
(* the certificate only matters on the vertices and edges of the graph       *)

Lemma cert_main_ext g c c' :
  wf_graph g = true ->
  (forall i, i < nv g -> c_gid c i = c_gid c' i /\ c_rank c i = c_rank c' i /\ c_root c i = c_root c' i) ->
  (forall e, e < length (edges g) -> c_act c e = c_act c' e) ->
  cert_main g c = cert_main g c'.
Proof.
  intros Hwf Hv He. unfold cert_main. f_equal; [f_equal|].
  - apply forallb_ext_in. intros i Hi. apply in_seq in Hi.
    destruct (Hv i) as [_ [H1 H2]]; [lia|]. rewrite H1, H2. reflexivity.
  - apply forallb_ext_in. intros i Hi. apply in_seq in Hi.
    destruct (Hv i) as [H0 [H1 H2]]; [lia|]. unfold cert_vertex. rewrite H0, H1, H2.
    f_equal; [f_equal|].
    + apply forallb_ext_in. intros [j e] Hin.
      destruct (incident_bounds g Hwf i j e Hin) as [_ [Hj Hee]].
      destruct (Hv j Hj) as [_ [Hr _]]. rewrite Hr, (He e Hee). reflexivity.
    + f_equal. unfold bcount. f_equal. f_equal. apply filter_ext_in'. intros [j e] Hin.
      destruct (incident_bounds g Hwf i j e Hin) as [_ [Hj Hee]].
      destruct (Hv j Hj) as [_ [Hr _]]. rewrite Hr, (He e Hee). reflexivity.
  - apply forallb_ext_in. intros [e [u v]] Hin. apply in_combine_seq in Hin.
    pose proof (nth_error_lt _ _ _ Hin) as Hee.
    destruct (wf_graph_edge g e u v Hwf Hin) as [Hu Hv'].
    destruct (Hv u Hu) as [H1 _]. destruct (Hv v Hv') as [H2 _]. rewrite H1, H2, (He e Hee). reflexivity.
Qed.

Lemma cert_ranges_ext g c c' :
  (forall i, i < nv g -> c_gid c i = c_gid c' i /\ c_rank c i = c_rank c' i) ->
  cert_ranges g c = cert_ranges g c'.
Proof.
  intros H. unfold cert_ranges, in_range. f_equal; apply forallb_ext_in; intros i Hi;
    apply in_seq in Hi; destruct (H i) as [H1 H2]; try lia; rewrite ?H1, ?H2; reflexivity.
Qed.

(* ------------------------------------------------------------------------ *)
(* the posted program                                                        *)

Lemma ensure_ensure st a b : ensure (ensure st a) b = ensure st (a ++ b).
Proof. unfold ensure; simpl. rewrite app_assoc. reflexivity. Qed.

Lemma ensure_add_decls_vars st ds l : vars (ensure (add_decls st ds) l) = vars st ++ ds.
Proof. reflexivity. Qed.
Lemma ensure_add_decls_cons st ds l : cons (ensure (add_decls st ds) l) = cons st ++ l.
Proof. reflexivity. Qed.

Lemma int_array_ok st n lo hi :
  (lo <= hi)%Z -> int_array st n lo hi = Ok (add_decls st (repeat (DInt lo hi) n), ivars (next_id st) n lo hi).
Proof.
  intros H. unfold int_array. destruct (Z.ltb_spec hi lo); [lia|]. rewrite int_vars_spec. reflexivity.
Qed.

Definition main_state (st : state) (g : graph) : state :=
  ensure (add_decls st (main_decls g)) (main_cons g (next_id st)).
Definition main_gid (st : state) (g : graph) : list expr :=
  ivars (next_id st) (nv g) 0%Z (zn (nv g) - 1)%Z.

Lemma post_vargroups_absent st g gs :
  1 <= nv g -> gs_absent gs = true ->
  post_vargroups st g gs = Ok (main_state st g, main_gid st g).
Proof.
  intros Hn Hab. unfold post_vargroups.
  rewrite int_array_ok by (unfold zn; lia). cbn [bind].
  rewrite int_array_ok by (unfold zn; lia). cbn [bind].
  unfold bool_array. rewrite !bool_vars_spec.
  rewrite !add_decls_app, !next_id_add_decls, !app_length, !repeat_length, !ensure_ensure.
  replace (next_id st + (nv g + nv g)) with (next_id st + 2 * nv g) by lia.
  replace (next_id st + (nv g + nv g + nv g)) with (next_id st + 3 * nv g) by lia.
  rewrite Hab. unfold main_state, main_gid, main_cons, main_decls. rewrite <- ?app_assoc. reflexivity.
Qed.
