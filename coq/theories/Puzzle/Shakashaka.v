(* C11 Tier 1 - model of cspuz/puzzle/shakashaka.py::solve_shakashaka, all board shapes:
       answer = solver.int_array((height, width), 0, 4); solver.add_answer_key(answer)
       for every cell (y, x) with problem[y][x] is not None:
           ensure(answer[y, x] == 0)
           if problem[y][x] >= 0: ensure(count_true(answer.four_neighbors(y, x) != 0) == problem[y][x])
       for every lattice point (y, x), 0 <= y <= height, 0 <= x <= width; the four cells around it are taken in
       the order  upper left, lower left, lower right, upper right  (sector k = 0..3):
           diagonals[2k], diagonals[2k+1] = (answer[cell] == a, answer[cell] == b)   with (a, b) = (4,2) (1,3) (2,4) (3,1)
                                            (False, False) when the cell is outside the board
           is_empty[k]  = answer[cell] == 0 for a white cell inside the board, else False
           is_white_angle gets (answer[cell] == 0) | (answer[cell] == c), c = 1, 2, 3, 4, for a white cell inside the board
           for i in range(8), diagonals[i] is not False:
               (a, b) = ((i+3)%8, (i+5)%8) for even i, ((i+5)%8, (i+3)%8) for odd i
               ensure(diagonals[i].then(diagonals[a] | (is_empty[a // 2] & diagonals[b])))
           ensure(count_true(is_white_angle) != 3)
   Python's False is the operand PyBool false; `&` / `|` on two Python bools are computed by Python, a mixed pair
   builds the AND / OR node with the Python bool as a leaf (py_and / py_or below); count_true of an empty list is
   the INT_CONSTANT 0 node.
   The problem uses the encoding of Rules_shakashaka.v ([[h; w]; grid row-major]; a value < -1 is a white cell
   (Python None; the plug-in writes -2), -1 a black cell without number, n >= 0 a black cell with number n).
   A grid with fewer than h*w entries stands for a nested list with a missing / short last row: the Python raises
   IndexError in the first loop (problem[y][x]).
   No proofs here. *)
From Coq Require Import ZArith List Bool Arith.
From Cspuz Require Import Lib.PyErr Core.Expr Core.Program Puzzle.PuzzleBase Puzzle.ModelBase Puzzle.Building.
Import ListNotations.
Local Open Scope nat_scope.

Definition sk_white (grid : list Z) (w : nat) (c : nat * nat) : bool :=
  (at2 grid w (fst c) (snd c) <? -1)%Z.

Definition sk_var (k : nat) : expr := IVar k 0 4.
(* answer[cell] == v *)
Definition sk_is (k : nat) (v : Z) : expr := BNode EQ [sk_var k; PyInt v].

(* count_true over a list of BoolExpr *)
Definition ct_exprs (l : list expr) : expr :=
  match l with
  | [] => INode INT_CONSTANT [PyInt 0]
  | _ => INode ADD (map (fun e => INode IF [e; PyInt 1; PyInt 0]) l)
  end.

(* the clue part, cell by cell *)
Definition sk_cell (h w : nat) (grid : list Z) (c : nat * nat) : list expr :=
  let '(y, x) := c in
  if sk_white grid w c then []
  else sk_is (cidx w c) 0 ::
       (let n := at2 grid w y x in
        if (0 <=? n)%Z
        then [BNode EQ [ct_exprs (map (fun p => BNode NE [sk_var (cidx w p); PyInt 0]) (nbr4 h w y x)); PyInt n]]
        else []).

(* the cell of sector k at lattice point (y, x): 0 upper left, 1 lower left, 2 lower right, 3 upper right *)
Definition sk_sector (h w y x k : nat) : option (nat * nat) :=
  match k with
  | 0 => if Nat.ltb 0 y && Nat.ltb 0 x then Some (y - 1, x - 1) else None
  | 1 => if Nat.ltb y h && Nat.ltb 0 x then Some (y, x - 1) else None
  | 2 => if Nat.ltb y h && Nat.ltb x w then Some (y, x) else None
  | _ => if Nat.ltb 0 y && Nat.ltb x w then Some (y - 1, x) else None
  end.
(* the answer value of entry i of `diagonals` *)
Definition sk_diag_val (i : nat) : Z := nth i [4; 2; 1; 3; 2; 4; 3; 1]%Z 0%Z.
(* the second value accepted by entry k of `is_white_angle` *)
Definition sk_far_val (k : nat) : Z := nth k [1; 2; 3; 4]%Z 0%Z.

Definition sk_diag (h w y x i : nat) : expr :=
  match sk_sector h w y x (Nat.div i 2) with
  | Some c => sk_is (cidx w c) (sk_diag_val i)
  | None => PyBool false
  end.
Definition sk_empty (h w : nat) (grid : list Z) (y x k : nat) : expr :=
  match sk_sector h w y x k with
  | Some c => if sk_white grid w c then sk_is (cidx w c) 0 else PyBool false
  | None => PyBool false
  end.
Definition sk_angles (h w : nat) (grid : list Z) (y x : nat) : list expr :=
  flat_map (fun k => match sk_sector h w y x k with
                     | Some c => if sk_white grid w c
                                 then [BNode OR [sk_is (cidx w c) 0; sk_is (cidx w c) (sk_far_val k)]] else []
                     | None => []
                     end) (seq 0 4).

(* a & b, a | b where an operand may be a Python bool *)
Definition py_and (a b : expr) : expr :=
  match a, b with PyBool p, PyBool q => PyBool (p && q) | _, _ => BNode AND [a; b] end.
Definition py_or (a b : expr) : expr :=
  match a, b with PyBool p, PyBool q => PyBool (p || q) | _, _ => BNode OR [a; b] end.

Definition sk_vertex (h w : nat) (grid : list Z) (c : nat * nat) : list expr :=
  let '(y, x) := c in
  flat_map (fun i =>
      match sk_diag h w y x i with
      | PyBool _ => []
      | d => let a := if Nat.even i then Nat.modulo (i + 3) 8 else Nat.modulo (i + 5) 8 in
             let b := if Nat.even i then Nat.modulo (i + 5) 8 else Nat.modulo (i + 3) 8 in
             [BNode IMP [d; py_or (sk_diag h w y x a) (py_and (sk_empty h w grid y x (Nat.div a 2)) (sk_diag h w y x b))]]
      end) (seq 0 8) ++
  [BNode NE [ct_exprs (sk_angles h w grid y x); PyInt 3]].

Definition shakashaka_constraints (h w : nat) (grid : list Z) : list expr :=
  flat_map (sk_cell h w grid) (cells h w) ++
  flat_map (sk_vertex h w grid) (cells (S h) (S w)).

Definition solve_shakashaka_model (pb : problem) : res state :=
  let h := dim pb 0 in let w := dim pb 1 in let grid := sec pb 1 in
  if Nat.ltb (length grid) (h * w) then Err IndexError
  else Ok (int_grid_state (h * w) 0 4 (shakashaka_constraints h w grid)).
