(* C12 — proofs about the operator forms  a <op> b, ~a, -a  as CPython
   dispatches them (Array/Elementwise.v: py_binop / py_unop). *)
From Coq Require Import ZArith List Bool Lia.
From Cspuz Require Import Lib.PyErr Core.Expr Core.Build Array.Elementwise Array.ArraySpec
  Array.ElementwiseProofs.
Import ListNotations.
Open Scope Z_scope.

Lemma if_ni_not_ni r alt : r <> Err NotImplementedErr -> if_ni r alt = r.
Proof. destruct r as [v|[]]; simpl; intros H; try reflexivity. exfalso; apply H; reflexivity. Qed.

Lemma if_ni_ni alt : if_ni (Err NotImplementedErr) alt = alt.
Proof. reflexivity. Qed.

Lemma operand_at_err i v e : operand_at i v = Err e -> e = IndexError.
Proof.
  destruct v as [x|k s d]; simpl; intros H; try discriminate.
  destruct (nth_error d i); inversion H; reflexivity.
Qed.

Lemma elementwise_not_ni o sh ops :
  elem_typecheck o ops = Some true -> elementwise o sh ops <> Err NotImplementedErr.
Proof.
  intros TC. unfold elementwise. rewrite TC.
  destruct (negb (forallb (shape_ok sh) ops)); try discriminate.
  match goal with |- context [mapM ?f ?l] => destruct (mapM f l) as [data|e] eqn:M end; simpl.
  - destruct sh; try discriminate. destruct (zlen data =? h * w); discriminate.
  - apply mapM_err_from in M. destruct M as [i [_ Hi]].
    destruct (mapM (operand_at i) ops) as [args|e'] eqn:MA; simpl in Hi; try discriminate.
    inversion Hi; subst e'. apply mapM_err_from in MA. destruct MA as [v [_ Hv]].
    apply operand_at_err in Hv. subst e. discriminate.
Qed.

Lemma shape_eqb_eq a b : shape_eqb a b = true -> a = b.
Proof.
  destruct a, b; simpl; intros H; try discriminate.
  - apply Z.eqb_eq in H; subst; reflexivity.
  - apply andb_true_iff in H; destruct H as [H1 H2].
    apply Z.eqb_eq in H1; apply Z.eqb_eq in H2; subst; reflexivity.
Qed.

Lemma shape_eqb_refl a : shape_eqb a a = true.
Proof. destruct a; simpl; rewrite ?Z.eqb_refl; reflexivity. Qed.

Lemma wf_val_wf_shape k sh d : wf_val (VA k sh d) = true -> wf_shape sh.
Proof.
  destruct sh as [n|h w]; simpl; intros H.
  - apply Z.eqb_eq in H. subst n. unfold zlen; lia.
  - apply andb_true_iff in H; destruct H as [H _]. apply andb_true_iff in H; destruct H as [H1 H2].
    apply Z.leb_le in H1; apply Z.leb_le in H2. auto.
Qed.

Lemma wf_val_length k sh d : wf_val (VA k sh d) = true -> zlen d = shape_size sh.
Proof.
  destruct sh as [n|h w]; simpl; intros H.
  - apply Z.eqb_eq in H. auto.
  - apply andb_true_iff in H; destruct H as [_ H]. apply Z.eqb_eq in H. auto.
Qed.

Lemma mapM_ok_exists {A B} (f : A -> res B) l :
  (forall x, In x l -> exists y, f x = Ok y) -> exists r, mapM f l = Ok r.
Proof.
  induction l as [|a l IH]; simpl; intros H.
  - eexists; reflexivity.
  - destruct (H a (or_introl eq_refl)) as [y Hy]. rewrite Hy; simpl.
    destruct IH as [r Hr]. { intros x Hx; apply H; right; exact Hx. }
    rewrite Hr; simpl. eexists; reflexivity.
Qed.

(* _elementwise succeeds on well-formed operands of the right sorts and shape *)
Lemma elementwise_total o sh ops :
  elem_typecheck o ops = Some true ->
  forallb (shape_ok sh) ops = true -> forallb wf_val ops = true -> wf_shape sh ->
  exists r, elementwise o sh ops = Ok r.
Proof.
  intros TC SH WF WS. unfold elementwise. rewrite TC, SH. simpl.
  assert (M : exists data, mapM (fun i => bind (mapM (operand_at i) ops) (fun args => Ok (mk_node o args)))
                 (seq 0 (Z.to_nat (shape_size sh))) = Ok data).
  { apply mapM_ok_exists. intros i Hi. apply in_seq in Hi.
    assert (MA : exists args, mapM (operand_at i) ops = Ok args).
    { apply mapM_ok_exists. intros v Hv.
      rewrite forallb_forall in SH, WF. specialize (SH v Hv). specialize (WF v Hv).
      destruct v as [e|k s d]; simpl; [eexists; reflexivity|].
      simpl in SH. apply shape_eqb_eq in SH. subst s.
      apply wf_val_length in WF.
      destruct (nth_error d i) eqn:N; [eexists; reflexivity|].
      apply nth_error_None in N. unfold zlen in WF. exfalso. lia. }
    destruct MA as [args MA]. rewrite MA. simpl. eexists; reflexivity. }
  destruct M as [data M]. rewrite M. simpl.
  destruct sh as [n|h w]; [eexists; reflexivity|].
  pose proof (mapM_ok_length _ _ _ M) as L. rewrite seq_length in L.
  assert (E : zlen data = h * w).
  { unfold zlen. rewrite L. simpl. apply Z2Nat.id. destruct WS; apply Z.mul_nonneg_nonneg; assumption. }
  rewrite E, Z.eqb_refl. eexists; reflexivity.
Qed.
Definition node_op (o : pyop) (k : kind) : op :=
  match o, k with
  | OAnd, _ => AND | OOr, _ => OR | OXor, _ => XOR | OAdd, _ => ADD | OSub, _ => SUB
  | OEq, KB => IFF | ONe, KB => XOR | OEq, KI => EQ | ONe, KI => NE
  | OLt, _ => LT | OLe, _ => LE | OGt, _ => GT | OGe, _ => GE
  end.

Lemma proper_subclass_arr x c : proper_subclass x (PArr c) = false.
Proof. destruct x; reflexivity. Qed.

Lemma binop_array_left o same ka sha da b k :
  operands_ok o k (VA ka sha da) b = true ->
  py_binop o same (VA ka sha da) b = elementwise (node_op o k) sha [VA ka sha da; b].
Proof.
  unfold operands_ok. intros H.
  apply andb_true_iff in H; destruct H as [H Hk].
  apply andb_true_iff in H; destruct H as [Ha Hb].
  assert (TC : elem_typecheck (node_op o k) [VA ka sha da; b] = Some true).
  { destruct o, k, ka; simpl in *; try discriminate; rewrite Hb; reflexivity. }
  pose proof (elementwise_not_ni _ sha _ TC) as NN.
  destruct o, k, ka; simpl in Ha, Hk; try discriminate; destruct sha;
  unfold py_binop, py_arith, py_compare, try_method; cbn -[elementwise if_ni] in *;
  rewrite ?proper_subclass_arr;
  rewrite if_ni_not_ni by exact NN; reflexivity.
Qed.

Definition swap_op (o : pyop) : pyop :=
  match o with OLt => OGt | OLe => OGe | OGt => OLt | OGe => OLe | _ => o end.

Lemma scalar_method_array_arg e o k sh d :
  try_method (VE e) (lname o) [VA k sh d] = Err NotImplementedErr.
Proof. destruct e, o; reflexivity. Qed.

Lemma pycls_eqb_scalar_arr e k sh d : pycls_eqb (class_of (VE e)) (class_of (VA k sh d)) = false.
Proof. destruct e, k, sh; reflexivity. Qed.

Lemma is_builtin_arr k sh d : is_builtin (class_of (VA k sh d)) = false.
Proof. destruct k, sh; reflexivity. Qed.

Lemma binop_array_right o same ea kb shb db k :
  operands_ok o k (VE ea) (VA kb shb db) = true ->
  py_binop o same (VE ea) (VA kb shb db) =
    if is_compare o then elementwise (node_op (swap_op o) k) shb [VA kb shb db; VE ea]
    else elementwise (node_op o k) shb [VE ea; VA kb shb db].
Proof.
  unfold operands_ok. intros H.
  apply andb_true_iff in H; destruct H as [H Hk].
  apply andb_true_iff in H; destruct H as [Ha Hb].
  unfold py_binop. rewrite is_builtin_arr, andb_false_r.
  destruct (is_compare o) eqn:IC.
  - assert (TC : elem_typecheck (node_op (swap_op o) k) [VA kb shb db; VE ea] = Some true).
    { destruct o, k, kb; simpl in *; try discriminate; rewrite Ha; reflexivity. }
    pose proof (elementwise_not_ni _ shb _ TC) as NN.
    unfold py_compare. rewrite scalar_method_array_arg.
    replace (proper_subclass (class_of (VA kb shb db)) (class_of (VE ea))) with false
      by (destruct kb, shb; reflexivity).
    rewrite if_ni_ni.
    destruct o, k, kb; simpl in Hb, Hk, IC; try discriminate; destruct shb;
    unfold try_method; cbn -[elementwise if_ni] in *;
    rewrite if_ni_not_ni by exact NN; reflexivity.
  - assert (TC : elem_typecheck (node_op o k) [VE ea; VA kb shb db] = Some true).
    { destruct o, k, kb; simpl in *; try discriminate; rewrite Ha; reflexivity. }
    pose proof (elementwise_not_ni _ shb _ TC) as NN.
    unfold py_arith. rewrite scalar_method_array_arg, pycls_eqb_scalar_arr, if_ni_ni.
    unfold ni_to_typeerror.
    destruct o, k, kb; simpl in Hb, Hk, IC; try discriminate; destruct shb;
    unfold try_method; cbn -[elementwise if_ni] in *;
    rewrite if_ni_not_ni by exact NN; reflexivity.
Qed.

(* ------------------------------------------- meaning of the chosen node *)

Definition op_kind_ok (o : pyop) (k : kind) : bool :=
  match pyop_operand_kind o with Some k' => kind_eqb k k' | None => true end.

Lemma node_op_sem o k x y :
  op_kind_ok o k = true -> op_sem (node_op o k) [x; y] = pyop_sem o k x y.
Proof.
  destruct o, k; simpl; intros H; try discriminate; try reflexivity.
  destruct x as [[[|]|]|], y as [[[|]|]|]; reflexivity.
Qed.

Lemma node_op_sem_swapped o k x y :
  op_kind_ok o k = true -> is_compare o = true ->
  op_sem (node_op (swap_op o) k) [y; x] = pyop_sem o k x y.
Proof.
  destruct o, k; simpl; intros H IC; try discriminate;
  destruct x as [[bx|zx]|], y as [[by_|zy]|]; cbn; try reflexivity;
  try (destruct bx, by_; reflexivity);
  rewrite ?(Z.eqb_sym zy zx), ?Z.gtb_ltb, ?Z.geb_leb, ?Z.ltb_antisym, ?Z.leb_antisym; try reflexivity.
  all: try (rewrite Z.geb_leb, Z.leb_antisym; reflexivity).
  all: try (rewrite Z.gtb_ltb, Z.ltb_antisym; reflexivity).
Qed.

Lemma node_op_kind o k : op_kind_ok o k = true -> kind_of_op (node_op o k) = pyop_result_kind o.
Proof. destruct o, k; simpl; intros H; try discriminate; reflexivity. Qed.

Lemma swap_op_result_kind o : pyop_result_kind (swap_op o) = pyop_result_kind o.
Proof. destruct o; reflexivity. Qed.

Lemma swap_op_kind_ok o k : op_kind_ok (swap_op o) k = op_kind_ok o k.
Proof. destruct o; reflexivity. Qed.

Lemma tc_ok o k a b :
  operands_ok o k a b = true -> elem_typecheck (node_op o k) [a; b] = Some true.
Proof.
  unfold operands_ok. intros H.
  apply andb_true_iff in H; destruct H as [H Hk].
  apply andb_true_iff in H; destruct H as [Ha Hb].
  destruct o, k; simpl in *; try discriminate; rewrite Ha, Hb; reflexivity.
Qed.

Lemma tc_ok_swapped o k a b :
  operands_ok o k a b = true -> elem_typecheck (node_op (swap_op o) k) [b; a] = Some true.
Proof.
  unfold operands_ok. intros H.
  apply andb_true_iff in H; destruct H as [H Hk].
  apply andb_true_iff in H; destruct H as [Ha Hb].
  destruct o, k; simpl in *; try discriminate; rewrite Ha, Hb; reflexivity.
Qed.

Lemma operands_ok_kind o k a b : operands_ok o k a b = true -> op_kind_ok o k = true.
Proof. unfold operands_ok, op_kind_ok. intros H. apply andb_true_iff in H; tauto. Qed.
