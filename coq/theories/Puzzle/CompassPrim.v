(* C11 Tier 1, native-operator route - compass.  solve_compass makes ONE call into cspuz.graph,
       graph.division_connected(solver, division, len(problem), roots=roots)          (allow_empty_group False),
   and _division_connected reads config.use_graph_primitive (NOT config.use_graph_division_primitive).  With that
   flag on (default of the csugar / enigma_csp / cspuz_core backends) the helper posts, for every compass
   i = 0 .. k-1, an indicator array region_i of h*w fresh Boolean variables, region_i[v] <-> (division[v] == i), ONE
   node GRAPH_ACTIVE_VERTICES_CONNECTED over region_i and the grid graph, and count_true(region_i) >= 1; then
   division[y*w+x] == i for the compass cells; no rank / is_root / spanning_forest variables.
   solve_compass_model_prim is Compass.v::solve_compass_model with that flag on; everything else the module posts
   (Compass.v::cp_compass) is unchanged.  The answer keys are the division variables themselves, ids 0 .. h*w-1, as on
   the auxiliary route; the k indicator arrays (ids h*w .. (k+1)*h*w - 1) follow.
   Error points: as on the auxiliary route, except that a board without cells (and at least one compass) raises
   IndexError (at division[r] == i in the helper) where the auxiliary route raises ValueError (rank =
   int_array(0, 0, -1)); either way no state is returned.
   The theorem: compass_exact_prim - same statement as CompassProofs.compass_exact; gsem = division_gsem (the
   specification of the native node, Graph/Division.v).  Proof: the module's local lemmas of CompassProofs.v
   (cp_constraints_sem, cp_local_ext, cp_rules_iff_division) + DivisionPrimCompose.division_keys_compose_prim
   (C05's closed theorem of this route, division_primitive, through division_exact_models). *)
From Coq Require Import ZArith List Bool Arith Lia.
From Cspuz Require Import Lib.PyErr Core.Expr Core.Program Core.Build Graph.GraphModel Graph.ReachProofs Graph.AvcProofs
     Graph.Division Graph.DivisionEval Graph.DivisionProofs Graph.DivisionMain
     Puzzle.PuzzleBase Puzzle.SatAbs Puzzle.ModelBase Puzzle.ModelLemmas Puzzle.CreekProofs
     Puzzle.HeyawakeLemmas Puzzle.DivisionCompose Puzzle.Rules_compass Puzzle.Compass Puzzle.CompassProofs
     Puzzle.DivisionPrimCompose.
Import ListNotations.
Local Open Scope nat_scope.

(* Compass.v::solve_compass_model with config.use_graph_primitive on (last argument of division_connected) *)
Definition solve_compass_model_prim (pb : problem) : res state :=
  let h := dim pb 0 in let w := dim pb 1 in let cps := sec pb 1 in
  let k := Nat.div (length cps) 6 in
  if negb (Nat.eqb (Nat.modulo (length cps) 6) 0) then Err ValueError
  else if negb (forallb (cp_nonneg cps) (seq 0 k)) then Err ValueError
  else
    match int_array empty_state (h * w) 0 (Z.of_nat k - 1) with
    | Err e => Err e
    | Ok (st0, division) =>
        match division_connected st0 (D2 h w division) k None (Some (map (cp_root cps) (seq 0 k))) false true with
        | Err e => Err e
        | Ok st1 =>
            if forallb (cp_in_board h w cps) (seq 0 k) then
              Ok {| vars := vars st1;
                    keys := repeat true (h * w) ++ skipn (h * w) (keys st1);
                    cons := cons st1 ++ flat_map (cp_compass h w cps k) (seq 0 k) |}
            else Err IndexError
        end
    end.

Theorem compass_exact_prim h w cps st ans :
  solve_compass_model_prim [[Z.of_nat h; Z.of_nat w]; cps] = Ok st ->
  ((exists en, model_of division_gsem en st /\ reads st en (key_ids st) = ans)
   <-> rules_compass [[Z.of_nat h; Z.of_nat w]; cps] ans = true).
Proof.
  unfold solve_compass_model_prim. destruct (dims2c h w [cps]) as [-> ->].
  change (sec [[Z.of_nat h; Z.of_nat w]; cps] 1) with cps.
  destruct (negb (Nat.eqb (Nat.modulo (length cps) 6) 0)); [discriminate|].
  set (k := Nat.div (length cps) 6).
  destruct (forallb (cp_nonneg cps) (seq 0 k)) eqn:Hnn; [|discriminate]. cbn [negb].
  destruct (int_array empty_state (h * w) 0 (Z.of_nat k - 1)) as [[st0 division]|e] eqn:Hdecl; [|discriminate].
  destruct (division_connected st0 (D2 h w division) k None (Some (map (cp_root cps) (seq 0 k))) false true)
    as [st1|e] eqn:Hcall; [|discriminate].
  destruct (forallb (cp_in_board h w cps) (seq 0 k)) eqn:Hib; [|discriminate].
  intros H. inversion H; subst st; clear H.
  destruct (cp_checks h w cps k Hnn Hib) as [Hnonneg Hinside].
  rewrite cp_roots_args in Hcall.
  pose proof (division_keys_compose_prim h w (Z.of_nat k - 1) k _ false st0 division st1 Hdecl Hcall
                (flat_map (cp_compass h w cps k) (seq 0 k)) (cp_local h w cps k)
                (fun en => cp_constraints_sem h w cps k en (seq 0 k))
                (fun d d' => cp_local_ext h w cps k d d' Hinside) ans) as HC.
  unfold division_keys_state in HC. rewrite HC. clear HC.
  rewrite rules_compass_split.
  pose proof (cp_rules_iff_division h w cps ans Hnonneg Hinside) as HR.
  unfold cp_k, cp_g, cp_d, cp_roots, cp_rs in HR. fold k in HR. unfold cp_k. fold k.
  rewrite !andb_true_iff, Nat.eqb_eq, HR. clear HR.
  split.
  - intros [Hl [Hb [Hs HL]]]. split; [split; [exact Hl|]|split; assumption].
    apply forallb_forall. intros v Hv. destruct (In_nth _ _ 0%Z Hv) as [i [Hi E]].
    specialize (Hb i ltac:(lia)). unfold getz in Hb. rewrite E in Hb.
    apply andb_true_iff. split; [apply Z.leb_le|apply Z.ltb_lt]; lia.
  - intros [[Hl Hr] [Hs HL]]. split; [exact Hl|]. split; [|split; assumption].
    intros v Hv. rewrite forallb_forall in Hr.
    specialize (Hr (getz ans v) ltac:(unfold getz; apply nth_In; lia)).
    apply andb_true_iff in Hr. destruct Hr as [H0 H1]. apply Z.leb_le in H0. apply Z.ltb_lt in H1. lia.
Qed.

(* the answer keys are the division variables, declared first *)
Lemma compass_key_ids_prim h w cps st :
  solve_compass_model_prim [[Z.of_nat h; Z.of_nat w]; cps] = Ok st -> key_ids st = seq 0 (h * w).
Proof.
  unfold solve_compass_model_prim. destruct (dims2c h w [cps]) as [-> ->].
  change (sec [[Z.of_nat h; Z.of_nat w]; cps] 1) with cps.
  destruct (negb (Nat.eqb (Nat.modulo (length cps) 6) 0)); [discriminate|].
  set (k := Nat.div (length cps) 6).
  destruct (negb (forallb (cp_nonneg cps) (seq 0 k))); [discriminate|].
  destruct (int_array empty_state (h * w) 0 (Z.of_nat k - 1)) as [[st0 division]|e] eqn:Hdecl; [|discriminate].
  destruct (division_connected st0 (D2 h w division) k None (Some (map (cp_root cps) (seq 0 k))) false true)
    as [st1|e] eqn:Hcall; [|discriminate].
  destruct (forallb (cp_in_board h w cps) (seq 0 k)); [|discriminate].
  intros H. inversion H; subst st; clear H.
  rewrite cp_roots_args in Hcall.
  exact (pdk_keys h w _ _ _ false st0 division st1 Hdecl Hcall (flat_map (cp_compass h w cps k) (seq 0 k))).
Qed.

(* the hypothesis of compass_exact_prim is satisfiable *)
Example compass_model_prim_ok :
  exists st, solve_compass_model_prim [[2; 3]; [0; 0; -1; -1; 1; 2; 1; 2; 1; 0; -1; -1]]%Z = Ok st.
Proof. vm_compute. eexists. reflexivity. Qed.

(* a board without cells and one compass: IndexError on this route (ValueError on the auxiliary route) *)
Example compass_model_prim_empty_board :
  solve_compass_model_prim [[0; 3]; [0; 0; -1; -1; -1; -1]]%Z = Err IndexError /\
  solve_compass_model [[0; 3]; [0; 0; -1; -1; -1; -1]]%Z = Err ValueError.
Proof. vm_compute. split; reflexivity. Qed.

(* the hypothesis of compass_exact_prim holds exactly for the problems with whole 6-tuples, at least one compass and
   every compass on a cell of the board, as on the auxiliary route (otherwise the Python raises) *)
Theorem compass_model_prim_defined h w cps :
  (exists st, solve_compass_model_prim [[Z.of_nat h; Z.of_nat w]; cps] = Ok st) <->
  (Nat.modulo (length cps) 6 = 0 /\ 0 < Nat.div (length cps) 6 /\
   forall i, i < Nat.div (length cps) 6 ->
             (0 <= cp_field cps i 0 < Z.of_nat h)%Z /\ (0 <= cp_field cps i 1 < Z.of_nat w)%Z).
Proof.
  unfold solve_compass_model_prim. destruct (dims2c h w [cps]) as [-> ->].
  change (sec [[Z.of_nat h; Z.of_nat w]; cps] 1) with cps.
  set (k := Nat.div (length cps) 6).
  destruct (Nat.eqb_spec (Nat.modulo (length cps) 6) 0) as [Em|Nm]; cbn [negb];
    [|split; [intros [st Hst]; discriminate|intros [H _]; contradiction]].
  assert (Hcoord : forall P : Prop,
            (P <-> (0 < k /\ forall i, i < k ->
                      (0 <= cp_field cps i 0 < Z.of_nat h)%Z /\ (0 <= cp_field cps i 1 < Z.of_nat w)%Z)) ->
            (P <-> (Nat.modulo (length cps) 6 = 0 /\ 0 < k /\ forall i, i < k ->
                      (0 <= cp_field cps i 0 < Z.of_nat h)%Z /\ (0 <= cp_field cps i 1 < Z.of_nat w)%Z))) by tauto.
  apply Hcoord. clear Hcoord.
  destruct (forallb (cp_nonneg cps) (seq 0 k)) eqn:Hnn; cbn [negb].
  2:{ split; [intros [st Hst]; discriminate|]. intros [_ H]. exfalso.
      assert (forallb (cp_nonneg cps) (seq 0 k) = true); [|congruence].
      apply forallb_forall. intros i Hi. apply in_seq in Hi. destruct (H i ltac:(lia)) as [H0 H1].
      unfold cp_nonneg. apply andb_true_iff. split; apply Z.leb_le; lia. }
  assert (Hn : forall i, i < k -> (0 <= cp_field cps i 0)%Z /\ (0 <= cp_field cps i 1)%Z).
  { rewrite forallb_forall in Hnn. intros i Hi. specialize (Hnn i ltac:(apply in_seq; lia)).
    unfold cp_nonneg in Hnn. apply andb_true_iff in Hnn. destruct Hnn as [N0 N1].
    apply Z.leb_le in N0. apply Z.leb_le in N1. lia. }
  unfold int_array. destruct (Z.ltb_spec (Z.of_nat k - 1) 0) as [Hk|Hk].
  { split; [intros [st Hst]; discriminate|lia]. }
  rewrite DivisionEval.int_vars_spec. rewrite cp_roots_args, division_grid_roots.
  set (st0 := add_decls empty_state (repeat (DInt 0 (Z.of_nat k - 1)) (h * w))).
  set (data := map (fun i => IVar (next_id empty_state + i) 0 (Z.of_nat k - 1)) (seq 0 (h * w))).
  set (rs := map (fun i => GCell (cp_field cps i 0) (cp_field cps i 1)) (seq 0 k)).
  destruct (forallb (cp_in_board h w cps) (seq 0 k)) eqn:Hib.
  - destruct (cp_checks h w cps k Hnn Hib) as [_ Hinside].
    assert (Hall : forall i, i < k ->
              (0 <= cp_field cps i 0 < Z.of_nat h)%Z /\ (0 <= cp_field cps i 1 < Z.of_nat w)%Z).
    { intros i Hi. destruct (Hn i Hi). destruct (Hinside i Hi) as [Hy Hx]. unfold zn in *. lia. }
    split; [intros _; split; [lia|exact Hall]|]. intros _.
    destruct (post_division_prim_defined st0 (SArr data) k (grid_graph h w) (map (grid_root_vertex w) rs) false)
      as [st1 Hst1].
    + simpl. unfold data. rewrite map_length, seq_length. reflexivity.
    + unfold rs. rewrite map_map, Forall_map. apply Forall_forall. intros i Hi. apply in_seq in Hi.
      destruct (Hinside i ltac:(lia)) as [Hy Hx]. destruct (Hn i ltac:(lia)) as [H0 H1].
      pose proof (grid_cell_lt h w _ _ Hy Hx) as Hlt. unfold zn in *. simpl. nia.
    + rewrite Hst1. eexists; reflexivity.
  - split.
    + intros [st Hst]. destruct (post_division _ _ _ _ _ _ _); discriminate.
    + intros [_ H]. exfalso. assert (forallb (cp_in_board h w cps) (seq 0 k) = true); [|congruence].
      apply forallb_forall. intros i Hi. apply in_seq in Hi. destruct (H i ltac:(lia)) as [H0 H1].
      unfold cp_in_board. apply andb_true_iff. split; apply Z.ltb_lt; lia.
Qed.
