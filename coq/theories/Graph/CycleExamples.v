(* C06 -- the hypotheses of the theorems are satisfiable: totality of the
   primitive forms and a worked instance (triangle + pendant edge). *)
From Coq Require Import ZArith List Bool Arith Lia.
From Cspuz Require Import Lib.PyErr Core.Expr Core.Program Core.Build
  Graph.GraphModel Graph.ReachProofs Graph.Cycle Graph.CycleLemmas Graph.CycleCert
  Graph.CycleProofs Graph.CycleMain Graph.LineGraph Graph.CyclePrim Graph.CycleSpec.
Import ListNotations.
Open Scope nat_scope.

Theorem cycle_primitive_total st acts g :
  wf_graph g = true -> length acts = length (edges g) ->
  (forall e, In e acts -> is_constraint_like e = true) ->
  exists st' passed, post_cycle st acts g true = Ok (st', passed) /\ length passed = nv g.
Proof.
  intros Hwf Hlen Hcl.
  destruct (post_cycle_prim_shape acts g (next_id st) Hlen Hcl st eq_refl) as [st' [Hp _]].
  exists st', (passedL g (next_id st)). split; [exact Hp|].
  unfold passedL. rewrite map_length, seq_length. reflexivity.
Qed.

Theorem path_total st acts g :
  wf_graph g = true -> length acts = length (edges g) ->
  (forall e, In e acts -> is_constraint_like e = true) ->
  exists st' passed, post_path st acts g true = Ok (st', passed) /\ length passed = nv g.
Proof.
  intros Hwf Hlen Hcl.
  destruct (post_path_shape acts g (next_id st) Hlen Hcl st eq_refl) as [st' [Hp _]].
  exists st', (passedL g (next_id st)). split; [exact Hp|].
  unfold passedL. rewrite map_length, seq_length. reflexivity.
Qed.

(* a triangle 0-1-2 with a pendant edge 2-3; flags are the caller's variables b0..b3 *)
Definition ex_graph : graph := {| nv := 4; edges := [(0, 1); (1, 2); (2, 0); (2, 3)] |}.
Definition ex_state : state := fst (bool_array empty_state 4).
Definition ex_flags : list expr := [BVar 0; BVar 1; BVar 2; b_not (BVar 3)].
Definition ex_env : env := {| eb := fun _ => true; ei := fun _ => 0%Z |}.

Example ex_flags_ok gsem : flags_ok gsem ex_state ex_env ex_flags.
Proof.
  intros e He. simpl in He.
  destruct He as [<-|[<-|[<-|[<-|[]]]]]; (split; [reflexivity|split; [vm_compute; lia|eexists; reflexivity]]).
Qed.

(* the triangle is accepted: the posted program has a model extending ex_env *)
Example ex_triangle_accepted gsem :
  exists st' passed,
    post_cycle ex_state ex_flags ex_graph false = Ok (st', passed) /\
    exists en', extends_sat gsem ex_state st' ex_env en'.
Proof.
  destruct (cycle_total ex_state ex_flags ex_graph eq_refl ltac:(simpl; lia) ltac:(simpl; lia)
              (flags_cl gsem _ _ _ (ex_flags_ok gsem))) as [st' [passed [Hp _]]].
  exists st', passed. split; [exact Hp|].
  apply (cycle_exact gsem ex_state ex_flags ex_graph ex_env st' passed eq_refl ltac:(simpl; lia)
           ltac:(simpl; lia) (ex_flags_ok gsem) eq_refl Hp).
  apply (single_cycle_b_spec ex_graph _ eq_refl). reflexivity.
Qed.

(* ... and with the pendant edge switched on as well it is rejected *)
Example ex_lollipop_rejected gsem st' passed :
  post_cycle ex_state [BVar 0; BVar 1; BVar 2; BVar 3] ex_graph false = Ok (st', passed) ->
  ~ exists en', extends_sat gsem ex_state st' ex_env en'.
Proof.
  intros Hp Hex.
  assert (Hf : flags_ok gsem ex_state ex_env [BVar 0; BVar 1; BVar 2; BVar 3]).
  { intros e He. simpl in He.
    destruct He as [<-|[<-|[<-|[<-|[]]]]]; (split; [reflexivity|split; [vm_compute; lia|eexists; reflexivity]]). }
  apply (cycle_exact gsem ex_state [BVar 0; BVar 1; BVar 2; BVar 3] ex_graph ex_env st' passed eq_refl
           ltac:(simpl; lia) ltac:(simpl; lia) Hf eq_refl Hp) in Hex.
  apply (single_cycle_b_spec ex_graph _ eq_refl) in Hex. discriminate.
Qed.
