(* C11 Tier 1 - nurimaze, graph side: the route between two vertices s, t of a tree (active set W of a loop-free
   graph without parallel edges; "tree" = connected + every induced edge is a bridge, the form of property C04's
   theorem tree_iff_bridges).
     on_route_b W s t c : c is s, c is t, or t is not reachable from s inside W once c is taken out
     route_complete     : the set R = W /\ on_route has the degrees of a path from s to t: one R-neighbour at s and
                          at t, two at every other vertex of R
     route_sound        : every P inside W that contains s and t and has those degrees IS R
   Proof of route_sound: the handshake lemma on the component Q of a vertex of P (Q is a tree, so it has |Q| - 1
   induced edges) shows that Q contains both s and t; so P is connected, no vertex outside P separates s from t
   (R inside P), and a vertex of P outside R would give some vertex of R one P-neighbour too many. *)
From Coq Require Import ZArith List Bool Arith Lia.
From Cspuz Require Import Core.Expr Graph.GraphModel Graph.ReachProofs Graph.Avc Graph.AvcCert Graph.AvcTree
     Puzzle.PuzzleBase.
From Cspuz Require Graph.AcyclicGraphFacts.
Import ListNotations.
Local Open Scope nat_scope.

Module AGF := Cspuz.Graph.AcyclicGraphFacts.

(* ---------------------------------------------------------------- counting in lists without repetition *)
Lemma nmt_count_cons {A} (f : A -> bool) a l : count f (a :: l) = (if f a then 1 else 0) + count f l.
Proof. unfold count. simpl. destruct (f a); reflexivity. Qed.

Lemma nmt_count_zero {A} (f : A -> bool) l : (forall x, In x l -> f x = false) -> count f l = 0.
Proof.
  induction l as [|a r IH]; intros H; [reflexivity|]. rewrite nmt_count_cons, (H a (or_introl eq_refl)), IH; [reflexivity|].
  intros x Hx. apply H. right. exact Hx.
Qed.

Lemma nmt_count_one (f : nat -> bool) l a :
  NoDup l -> In a l -> (forall x, In x l -> (f x = true <-> x = a)) -> count f l = 1.
Proof.
  induction l as [|x r IH]; intros Hnd Hin H; [destruct Hin|]. rewrite nmt_count_cons.
  inversion Hnd as [|? ? Hx Hr]; subst.
  destruct (Nat.eq_dec x a) as [->|Hne].
  - rewrite (proj2 (H a (or_introl eq_refl)) eq_refl). rewrite nmt_count_zero; [reflexivity|].
    intros y Hy. destruct (f y) eqn:E; [|reflexivity]. apply (H y (or_intror Hy)) in E. subst y. contradiction.
  - destruct (f x) eqn:E; [apply (H x (or_introl eq_refl)) in E; contradiction|].
    destruct Hin as [Hin|Hin]; [contradiction|]. rewrite IH; [reflexivity|exact Hr|exact Hin|].
    intros y Hy. apply H. right. exact Hy.
Qed.

Lemma nmt_count_two (f : nat -> bool) l a b :
  NoDup l -> In a l -> In b l -> a <> b -> (forall x, In x l -> (f x = true <-> (x = a \/ x = b))) -> count f l = 2.
Proof.
  induction l as [|x r IH]; intros Hnd Ha Hb Hab H; [destruct Ha|]. rewrite nmt_count_cons.
  inversion Hnd as [|? ? Hx Hr]; subst.
  destruct (Nat.eq_dec x a) as [->|Hna]; [|destruct (Nat.eq_dec x b) as [->|Hnb]].
  - rewrite (proj2 (H a (or_introl eq_refl)) (or_introl eq_refl)).
    destruct Hb as [Hb|Hb]; [contradiction|].
    rewrite (nmt_count_one f r b Hr Hb); [reflexivity|].
    intros y Hy. rewrite (H y (or_intror Hy)). split; [intros [->|E]; [contradiction|exact E]|intros E; right; exact E].
  - rewrite (proj2 (H b (or_introl eq_refl)) (or_intror eq_refl)).
    destruct Ha as [Ha|Ha]; [congruence|].
    rewrite (nmt_count_one f r a Hr Ha); [reflexivity|].
    intros y Hy. rewrite (H y (or_intror Hy)). split; [intros [E| ->]; [exact E|contradiction]|intros E; left; exact E].
  - destruct (f x) eqn:E; [apply (H x (or_introl eq_refl)) in E; destruct E; contradiction|].
    destruct Ha as [Ha|Ha]; [contradiction|]. destruct Hb as [Hb|Hb]; [contradiction|].
    rewrite IH; [reflexivity|exact Hr|exact Ha|exact Hb|exact Hab|].
    intros y Hy. apply H. right. exact Hy.
Qed.

Lemma nmt_count_strict (f p : nat -> bool) l x :
  (forall y, In y l -> f y = true -> p y = true) -> In x l -> p x = true -> f x = false -> count f l < count p l.
Proof.
  induction l as [|a r IH]; intros Hsub Hin Hp Hf; [destruct Hin|]. rewrite !nmt_count_cons.
  assert (Hle : count f r <= count p r).
  { clear -Hsub. induction r as [|b r IH]; [apply Nat.le_refl|]. rewrite !nmt_count_cons.
    assert (IH' : count f r <= count p r).
    { apply IH. intros y [Hy|Hy]; [apply Hsub; left; exact Hy|apply Hsub; right; right; exact Hy]. }
    destruct (f b) eqn:E; [rewrite (Hsub b (or_intror (or_introl eq_refl)) E); lia|destruct (p b); lia]. }
  destruct Hin as [->|Hin].
  - rewrite Hp, Hf. lia.
  - assert (count f r < count p r) by (apply IH; [intros y Hy; apply Hsub; right; exact Hy|exact Hin|exact Hp|exact Hf]).
    destruct (f a) eqn:E; [rewrite (Hsub a (or_introl eq_refl) E); lia|destruct (p a); lia].
Qed.

(* ---------------------------------------------------------------- the graph *)
Section Tree.
  Variable g : graph.
  Hypothesis Hwf : wf_graph g = true.
  Hypothesis Hlf : loop_free g = true.
  Hypothesis Hnd : forall v, NoDup (nbrs g all_edges_ok v).

  Notation alle := all_edges_ok.
  Definition nmt_minus (X : nat -> bool) (c : nat) : nat -> bool := fun v => X v && negb (Nat.eqb v c).
  Definition nmt_adj (a b : nat) : Prop := In b (nbrs g alle a).
  Definition nmt_deg (P : nat -> bool) (v : nat) : nat := count P (nbrs g alle v).

  Lemma nmt_minus_true X c v : nmt_minus X c v = true <-> (X v = true /\ v <> c).
  Proof. unfold nmt_minus. rewrite andb_true_iff, negb_true_iff, Nat.eqb_neq. tauto. Qed.

  Lemma nmt_adj_neq a b : nmt_adj a b -> a <> b.
  Proof.
    intros H. apply nbrs_spec in H. destruct H as [k [_ [H|H]]]; apply (AGF.loop_free_nth _ _ _ _ Hlf) in H; auto.
  Qed.
  Lemma nmt_adj_sym a b : nmt_adj a b -> nmt_adj b a.
  Proof. apply ReachProofs.nbrs_sym. Qed.

  (* a walk that avoids the vertex c does not use an edge at c *)
  Lemma nmt_reach_minus_edge X c k x a b :
    (nth_error (edges g) k = Some (c, x) \/ nth_error (edges g) k = Some (x, c)) ->
    reach g (nmt_minus X c) alle a b -> reach g X (fun j => negb (Nat.eqb j k)) a b.
  Proof.
    intros Hk H. induction H as [v Hv|u v w Huv IH Hn Hw].
    - apply reach_refl. apply nmt_minus_true in Hv. tauto.
    - eapply reach_step; [exact IH| |apply nmt_minus_true in Hw; tauto].
      apply nbrs_spec in Hn. destruct Hn as [k' [_ Hk']]. apply nbrs_spec. exists k'. split; [|exact Hk'].
      apply negb_true_iff, Nat.eqb_neq. intros ->.
      apply ReachProofs.reach_vok_end in Huv. apply nmt_minus_true in Huv. apply nmt_minus_true in Hw.
      destruct Hk as [Hk|Hk], Hk' as [Hk'|Hk']; rewrite Hk in Hk'; inversion Hk'; subst; tauto.
  Qed.

  (* no cycle through c: two different neighbours of c are not joined outside c *)
  Lemma nmt_no_cycle W c a b :
    induced_bridges g W -> W c = true -> nmt_adj c a -> nmt_adj c b -> a <> b ->
    ~ reach g (nmt_minus W c) alle a b.
  Proof.
    intros Hb Hc Ha Hbb Hab Hr.
    pose proof (ReachProofs.reach_vok_start _ _ _ _ _ Hr) as Wa. apply nmt_minus_true in Wa. destruct Wa as [Wa Hac].
    pose proof (ReachProofs.reach_vok_end _ _ _ _ _ Hr) as Wb. apply nmt_minus_true in Wb. destruct Wb as [Wb Hbc].
    pose proof Ha as Ha'. apply nbrs_spec in Ha'. destruct Ha' as [k [_ Hk]].
    assert (Hr' : reach g W (fun j => negb (Nat.eqb j k)) a b) by (apply (nmt_reach_minus_edge W c k a); assumption).
    assert (Hr2 : reach g W (fun j => negb (Nat.eqb j k)) a c).
    { eapply reach_step; [exact Hr'| |exact Hc].
      apply nbrs_spec in Hbb. destruct Hbb as [k' [_ Hk']]. apply nbrs_spec. exists k'. split; [|tauto].
      apply negb_true_iff, Nat.eqb_neq. intros ->.
      destruct Hk as [Hk|Hk], Hk' as [Hk'|Hk']; rewrite Hk in Hk'; inversion Hk'; subst; congruence. }
    destruct Hk as [Hk|Hk].
    - apply (Hb k c a Hk Hc Wa (fun E => Hac (eq_sym E))). apply ReachProofs.reach_sym. exact Hr2.
    - apply (Hb k a c Hk Wa Hc Hac). exact Hr2.
  Qed.

  (* the last time a walk from c to t leaves c *)
  Lemma nmt_last_exit X c t :
    reach g X alle c t -> t <> c -> exists u, nmt_adj c u /\ reach g (nmt_minus X c) alle u t.
  Proof.
    intros H. induction H as [v Hv|u v w Huv IH Hn Hw]; intros Hne; [congruence|].
    destruct (Nat.eq_dec v u) as [->|Hvu].
    - exists w. split; [exact Hn|]. apply reach_refl. apply nmt_minus_true. split; assumption.
    - destruct (IH Hvu) as [x [Hx Hr]]. exists x. split; [exact Hx|].
      eapply reach_step; [exact Hr|exact Hn|]. apply nmt_minus_true. split; assumption.
  Qed.
  Lemma nmt_first_arrival X s c :
    reach g X alle s c -> s <> c -> exists u, nmt_adj c u /\ reach g (nmt_minus X c) alle s u.
  Proof.
    intros H Hne. apply ReachProofs.reach_sym in H. destruct (nmt_last_exit X c s H Hne) as [u [Hu Hr]].
    exists u. split; [exact Hu|]. apply ReachProofs.reach_sym. exact Hr.
  Qed.

  Lemma nmt_avoid_or_hit X u a b :
    reach g X alle a b -> reach g (nmt_minus X u) alle a b \/ reach g X alle a u.
  Proof.
    intros H. induction H as [v Hv|a v w Hav IH Hn Hw].
    - destruct (Nat.eq_dec v u) as [->|Hne]; [right; apply reach_refl; exact Hv|].
      left. apply reach_refl. apply nmt_minus_true. split; assumption.
    - destruct IH as [IH|IH]; [|right; exact IH].
      destruct (Nat.eq_dec w u) as [->|Hne].
      + right. eapply reach_step; [exact Hav|exact Hn|exact Hw].
      + left. eapply reach_step; [exact IH|exact Hn|]. apply nmt_minus_true. split; assumption.
  Qed.

  Lemma nmt_minus_mono X c u v : nmt_minus (nmt_minus X u) c v = true -> nmt_minus X c v = true.
  Proof. rewrite !nmt_minus_true. tauto. Qed.
  Lemma nmt_minus_mono' X c u v : nmt_minus (nmt_minus X c) u v = true -> nmt_minus X u v = true.
  Proof. rewrite !nmt_minus_true. tauto. Qed.
  Lemma nmt_reach_mono (X Y : nat -> bool) a b :
    (forall v, X v = true -> Y v = true) -> reach g X alle a b -> reach g Y alle a b.
  Proof. intros H. apply AGF.reach_mono; [exact H|auto]. Qed.

  (* the neighbour of c towards t is unique *)
  Lemma nmt_toward_unique W c t a b :
    induced_bridges g W -> W c = true -> nmt_adj c a -> nmt_adj c b ->
    reach g (nmt_minus W c) alle a t -> reach g (nmt_minus W c) alle b t -> a = b.
  Proof.
    intros Hb Hc Ha Hbb Hat Hbt. destruct (Nat.eq_dec a b) as [E|Hne]; [exact E|]. exfalso.
    apply (nmt_no_cycle W c a b Hb Hc Ha Hbb Hne).
    eapply ReachProofs.reach_trans; [exact Hat|]. apply ReachProofs.reach_sym. exact Hbt.
  Qed.

  (* ---------------------------------------------------------------- the route *)
  Definition nmt_sep (W : nat -> bool) (s t c : nat) : Prop :=
    c = s \/ c = t \/ ~ reach g (nmt_minus W c) alle s t.
  Definition on_route_b (W : nat -> bool) (s t c : nat) : bool :=
    Nat.eqb c s || Nat.eqb c t || negb (mem t (component g (nmt_minus W c) alle s)).

  Lemma on_route_b_spec W s t c : s < nv g -> (on_route_b W s t c = true <-> nmt_sep W s t c).
  Proof.
    intros Hs. unfold on_route_b, nmt_sep. rewrite !orb_true_iff, !Nat.eqb_eq, negb_true_iff.
    assert (E : mem t (component g (nmt_minus W c) alle s) = false <-> ~ reach g (nmt_minus W c) alle s t).
    { rewrite <- (component_spec g (nmt_minus W c) alle s t Hwf Hs). apply mem_not_In. }
    rewrite E. tauto.
  Qed.

  Lemma nmt_sep_sym W s t c : nmt_sep W s t c -> nmt_sep W t s c.
  Proof.
    unfold nmt_sep. intros [H|[H|H]]; [tauto|tauto|]. right; right. intros Hr. apply H. apply ReachProofs.reach_sym. exact Hr.
  Qed.

  Section Route.
    Variable W : nat -> bool.
    Hypothesis HWn : forall v, W v = true -> v < nv g.
    Hypothesis Hconn : connected g W.
    Hypothesis Hbr : induced_bridges g W.

    Lemma nmt_conn a b : W a = true -> W b = true -> reach g W alle a b.
    Proof. intros Ha Hb. apply Hconn; auto. Qed.

    (* the neighbour a of c towards s, when c separates s from t (or is t), lies on the route *)
    Lemma nmt_toward_sep s t c a :
      W c = true -> c <> s -> (c = t \/ ~ reach g (nmt_minus W c) alle s t) ->
      nmt_adj c a -> reach g (nmt_minus W c) alle a s -> nmt_sep W s t a.
    Proof.
      intros Hc Hcs Hsep Ha Has.
      destruct (Nat.eq_dec a s) as [->|Hne]; [left; reflexivity|].
      right. destruct (Nat.eq_dec a t) as [->|Hnt]; [left; reflexivity|]. right.
      intros Hr.
      destruct (nmt_avoid_or_hit _ c _ _ Hr) as [H|H].
      - (* a walk from s to t avoiding a and c *)
        destruct Hsep as [->|Hsep].
        + apply ReachProofs.reach_vok_end in H. apply nmt_minus_true in H. tauto.
        + apply Hsep. eapply nmt_reach_mono; [|exact H]. intros v. apply nmt_minus_mono.
      - (* a walk from s to c avoiding a: it arrives at c through another neighbour *)
        destruct (nmt_first_arrival _ s c H (fun E => Hcs (eq_sym E))) as [a' [Ha' Hr']].
        pose proof (ReachProofs.reach_vok_end _ _ _ _ _ Hr') as Va. apply nmt_minus_true in Va. destruct Va as [Va _].
        apply nmt_minus_true in Va. destruct Va as [_ Va].
        apply Va. apply (nmt_toward_unique W c s a' a Hbr Hc Ha' Ha); [|exact Has].
        apply ReachProofs.reach_sym. eapply nmt_reach_mono; [|exact Hr']. intros v. apply nmt_minus_mono.
    Qed.

    Definition nmt_R (s t c : nat) : bool := W c && on_route_b W s t c.

    Lemma nmt_R_spec s t c : W s = true -> (nmt_R s t c = true <-> (W c = true /\ nmt_sep W s t c)).
    Proof. intros Hs. unfold nmt_R. rewrite andb_true_iff, (on_route_b_spec W s t c (HWn s Hs)). tauto. Qed.

    Lemma nmt_R_sym s t c : W s = true -> W t = true -> nmt_R s t c = nmt_R t s c.
    Proof.
      intros Hs Ht. destruct (nmt_R s t c) eqn:E1, (nmt_R t s c) eqn:E2; try reflexivity.
      - apply (nmt_R_spec s t c Hs) in E1. destruct E1 as [E1 E1']. apply nmt_sep_sym in E1'.
        rewrite (proj2 (nmt_R_spec t s c Ht) (conj E1 E1')) in E2. discriminate.
      - apply (nmt_R_spec t s c Ht) in E2. destruct E2 as [E2 E2']. apply nmt_sep_sym in E2'.
        rewrite (proj2 (nmt_R_spec s t c Hs) (conj E2 E2')) in E1. discriminate.
    Qed.

    (* a walk avoiding c that starts next to c does not come next to c again elsewhere *)
    Lemma nmt_detour c a x y :
      W c = true -> nmt_adj c a -> nmt_adj c x -> a <> x ->
      reach g (nmt_minus W c) alle a y -> reach g (nmt_minus W x) alle a y.
    Proof.
      intros Hc Ha Hx Hax Hr. destruct (nmt_avoid_or_hit _ x _ _ Hr) as [H|H].
      - eapply nmt_reach_mono; [|exact H]. intros v. apply nmt_minus_mono'.
      - exfalso. exact (nmt_no_cycle W c a x Hbr Hc Ha Hx Hax H).
    Qed.

    Lemma nmt_end_degree s t : W s = true -> W t = true -> s <> t -> nmt_deg (nmt_R s t) s = 1.
    Proof.
      intros Hs Ht Hst.
      destruct (nmt_last_exit W s t (nmt_conn s t Hs Ht) (fun E => Hst (eq_sym E))) as [u0 [Hu0 Hr0]].
      unfold nmt_deg. apply (nmt_count_one _ _ u0 (Hnd s) Hu0). intros x Hx. rewrite (nmt_R_spec s t x Hs). split.
      - intros [Wx Hsep]. destruct (Nat.eq_dec x u0) as [E|Hne]; [exact E|]. exfalso.
        pose proof (nmt_adj_neq s x Hx) as Hsx.
        destruct Hsep as [->|[->|Hsep]]; [congruence| |].
        + apply Hne. apply (nmt_toward_unique W s t t u0 Hbr Hs Hx Hu0); [|exact Hr0].
          apply reach_refl. apply nmt_minus_true. split; [exact Ht|congruence].
        + apply Hsep. apply (reach_step_l g _ _ s u0 t); [apply nmt_minus_true; split; [exact Hs|exact Hsx]|exact Hu0|].
          apply (nmt_detour s u0 x t Hs Hu0 Hx (fun E => Hne (eq_sym E)) Hr0).
      - intros ->. pose proof (ReachProofs.reach_vok_start _ _ _ _ _ Hr0) as Wu. apply nmt_minus_true in Wu.
        split; [tauto|]. apply nmt_sep_sym.
        apply (nmt_toward_sep t s s u0 Hs Hst (or_introl eq_refl) Hu0 Hr0).
    Qed.

    Lemma nmt_mid_degree s t c :
      W s = true -> W t = true -> nmt_R s t c = true -> c <> s -> c <> t -> nmt_deg (nmt_R s t) c = 2.
    Proof.
      intros Hs Ht HR Hcs Hct. apply (nmt_R_spec s t c Hs) in HR. destruct HR as [Hc Hsep].
      assert (Hsep' : ~ reach g (nmt_minus W c) alle s t) by (destruct Hsep as [E|[E|E]]; [congruence|congruence|exact E]).
      destruct (nmt_last_exit W c s (nmt_conn c s Hc Hs) (fun E => Hcs (eq_sym E))) as [a [Ha Has]].
      destruct (nmt_last_exit W c t (nmt_conn c t Hc Ht) (fun E => Hct (eq_sym E))) as [b [Hb Hbt]].
      assert (Hab : a <> b).
      { intros ->. apply Hsep'. eapply ReachProofs.reach_trans; [apply ReachProofs.reach_sym; exact Has|exact Hbt]. }
      pose proof (ReachProofs.reach_vok_start _ _ _ _ _ Has) as Wa. apply nmt_minus_true in Wa.
      pose proof (ReachProofs.reach_vok_start _ _ _ _ _ Hbt) as Wb. apply nmt_minus_true in Wb.
      unfold nmt_deg. apply (nmt_count_two _ _ a b (Hnd c) Ha Hb Hab). intros x Hx. rewrite (nmt_R_spec s t x Hs). split.
      - intros [Wx Hx']. destruct (Nat.eq_dec x a) as [E|Hna]; [left; exact E|].
        destruct (Nat.eq_dec x b) as [E|Hnb]; [right; exact E|]. exfalso.
        pose proof (nmt_adj_neq c x Hx) as Hcx.
        destruct Hx' as [->|[->|Hx']].
        + apply Hna. apply (nmt_toward_unique W c s s a Hbr Hc Hx Ha); [|exact Has].
          apply reach_refl. apply nmt_minus_true. split; [exact Hs|congruence].
        + apply Hnb. apply (nmt_toward_unique W c t t b Hbr Hc Hx Hb); [|exact Hbt].
          apply reach_refl. apply nmt_minus_true. split; [exact Ht|congruence].
        + apply Hx'.
          pose proof (nmt_detour c a x s Hc Ha Hx (fun E => Hna (eq_sym E)) Has) as R1.
          pose proof (nmt_detour c b x t Hc Hb Hx (fun E => Hnb (eq_sym E)) Hbt) as R2.
          eapply ReachProofs.reach_trans; [apply ReachProofs.reach_sym; exact R1|].
          apply (reach_step_l g _ _ a c t); [apply nmt_minus_true; split; [tauto|congruence]|apply nmt_adj_sym; exact Ha|].
          apply (reach_step_l g _ _ c b t); [apply nmt_minus_true; split; [exact Hc|exact Hcx]|exact Hb|exact R2].
      - intros [->| ->].
        + split; [tauto|]. apply (nmt_toward_sep s t c a Hc Hcs (or_intror Hsep') Ha Has).
        + split; [tauto|]. apply nmt_sep_sym.
          apply (nmt_toward_sep t s c b Hc Hct); [right; intros Hr; apply Hsep'; apply ReachProofs.reach_sym; exact Hr|exact Hb|exact Hbt].
    Qed.

    Lemma nmt_end_degree_t s t : W s = true -> W t = true -> s <> t -> nmt_deg (nmt_R s t) t = 1.
    Proof.
      intros Hs Ht Hst.
      assert (E : nmt_deg (nmt_R s t) t = nmt_deg (nmt_R t s) t).
      { unfold nmt_deg, count. f_equal. apply filter_ext. intros z. apply nmt_R_sym; assumption. }
      rewrite E. apply nmt_end_degree; auto.
    Qed.

    (* the first step of a walk from outside R into R *)
    Lemma nmt_first_entry (R P : nat -> bool) c u :
      reach g P alle c u -> R c = false -> R u = true ->
      exists x y, P x = true /\ R x = false /\ P y = true /\ R y = true /\ nmt_adj x y.
    Proof.
      intros H. induction H as [v Hv|c v w Hcv IH Hn Hw]; intros Hc Hu; [congruence|].
      destruct (R v) eqn:Ev; [apply IH; [exact Hc|reflexivity]|].
      exists v, w. repeat split; try assumption. exact (ReachProofs.reach_vok_end _ _ _ _ _ Hcv).
    Qed.

    Lemma nmt_reach_into (P Q : nat -> bool) a v :
      reach g P alle a v -> (forall x, reach g P alle a x -> Q x = true) -> reach g Q alle a v.
    Proof.
      intros H. induction H as [v Hv|a v w Huv IH Hn Hw]; intros HQ.
      - apply reach_refl. apply HQ. apply reach_refl. exact Hv.
      - eapply reach_step; [apply IH; exact HQ|exact Hn|]. apply HQ. eapply reach_step; eassumption.
    Qed.

    (* a set of path cells with a single end cannot exist: the component of the end would have an odd degree sum *)
    Section OneEnd.
      Variables (s : nat) (P : nat -> bool).
      Hypothesis Hs : W s = true.
      Hypothesis HPW : forall c, P c = true -> W c = true.
      Hypothesis HPs : P s = true.
      Hypothesis Hds : nmt_deg P s = 1.
      Hypothesis Hdm : forall c, P c = true -> c <> s -> nmt_deg P c = 2.

      Lemma nmt_one_end : False.
      Proof.
        pose proof (HWn s Hs) as Hrn.
        set (Q := fun v => mem v (component g P alle s)).
        assert (Qspec : forall v, Q v = true <-> reach g P alle s v).
        { intros v. unfold Q. rewrite mem_In. apply component_spec; assumption. }
        assert (QP : forall v, Q v = true -> P v = true).
        { intros v Hv. apply Qspec in Hv. exact (ReachProofs.reach_vok_end _ _ _ _ _ Hv). }
        assert (Hin : forall v, reach g P alle s v -> reach g Q alle s v).
        { intros v H. apply (nmt_reach_into P Q s v H). intros x Hx. apply Qspec. exact Hx. }
        assert (HcQ : connected g Q).
        { intros u v _ _ Hu Hv. apply Qspec in Hu. apply Qspec in Hv.
          eapply ReachProofs.reach_trans; [apply ReachProofs.reach_sym; apply Hin; exact Hu|apply Hin; exact Hv]. }
        assert (HbQ : induced_bridges g Q).
        { intros e a b Hn Qa Qb Hab Hre. apply (Hbr e a b Hn (HPW a (QP a Qa)) (HPW b (QP b Qb)) Hab).
          eapply AGF.reach_mono; [| |exact Hre]; [intros x Hx; apply HPW, QP, Hx|auto]. }
        assert (Htree : tree g Q) by (apply (tree_iff_bridges g Q Hwf); split; assumption).
        destruct Htree as [_ Hcount].
        assert (Hpos : 1 <= n_active g Q).
        { unfold n_active. assert (Hi : In s (filter Q (seq 0 (nv g)))).
          { apply filter_In. split; [apply in_seq; lia|apply Qspec; apply reach_refl; exact HPs]. }
          destruct (filter Q (seq 0 (nv g))); [destruct Hi|simpl; lia]. }
        assert (Hedges : induced_edges g Q + 1 = n_active g Q) by (destruct Hcount; [lia|assumption]).
        pose proof (handshake g (fun i j => Avc.b2z (Q i && Q j)) Hwf) as HS.
        cbv beta in HS.
        assert (HR : zsum (map (fun ab : nat * nat => (Avc.b2z (Q (fst ab) && Q (snd ab)) + Avc.b2z (Q (snd ab) && Q (fst ab)))%Z) (edges g))
                     = (2 * Z.of_nat (induced_edges g Q))%Z).
        { rewrite (zsum_map_ext_in _ (fun ab : nat * nat => (Avc.b2z (Q (fst ab) && Q (snd ab)) + Avc.b2z (Q (fst ab) && Q (snd ab)))%Z))
            by (intros ab _; rewrite (andb_comm (Q (snd ab))); reflexivity).
          rewrite zsum_map_add, (zsum_b2z_count (fun ab : nat * nat => Q (fst ab) && Q (snd ab))).
          rewrite (induced_edges_loop_free g Q Hlf). lia. }
        assert (HL : forall i, In i (seq 0 (nv g)) ->
                  (zsum (map (fun jk : nat * nat => Avc.b2z (Q i && Q (fst jk))) (incident g i)) +
                   (if Nat.eqb s i then Avc.b2z (Q i) else 0)
                   = Avc.b2z (Q i) + Avc.b2z (Q i))%Z).
        { intros i _. destruct (Q i) eqn:Qi.
          - cbn [andb]. rewrite (zsum_b2z_count (fun jk : nat * nat => Q (fst jk))).
            assert (Hc : length (filter (fun jk : nat * nat => Q (fst jk)) (incident g i)) = nmt_deg P i).
            { unfold nmt_deg, nbrs, count.
              assert (Hf : filter (fun '(_, k) => alle k) (incident g i) = incident g i).
              { clear. induction (incident g i) as [|[a k] rest IH]; [reflexivity|]. simpl. rewrite IH. reflexivity. }
              rewrite Hf.
              transitivity (length (filter Q (map fst (incident g i)))).
              - clear. induction (incident g i) as [|[a k] rest IH]; [reflexivity|]. simpl. destruct (Q a); simpl; rewrite IH; reflexivity.
              - f_equal. apply filter_ext_in. intros u Hu.
                assert (Hadj : In u (nbrs g alle i)) by (unfold nbrs; rewrite Hf; exact Hu).
                destruct (P u) eqn:Pu.
                + apply Qspec. eapply reach_step; [apply Qspec; exact Qi|exact Hadj|exact Pu].
                + destruct (Q u) eqn:Qu; [apply QP in Qu; congruence|reflexivity]. }
            rewrite Hc. pose proof (QP i Qi) as Pi. simpl Avc.b2z.
            destruct (Nat.eqb_spec s i) as [<-|Hsi].
            + rewrite Hds. reflexivity.
            + rewrite (Hdm i Pi) by congruence. reflexivity.
          - cbn [andb]. rewrite zsum_map_zero by (intros; reflexivity). destruct (Nat.eqb s i); reflexivity. }
        pose proof (zsum_map_ext_in _ _ _ HL) as HL'. rewrite !zsum_map_add in HL'.
        rewrite (zsum_pick s (fun i => Avc.b2z (Q i))) in HL' by (try apply seq_NoDup; apply in_seq; lia).
        rewrite (zsum_b2z_count Q) in HL'. fold (n_active g Q) in HL'.
        rewrite HS, HR in HL'.
        assert (H2 : (Avc.b2z (Q s) = 2)%Z) by lia.
        destruct (Q s); cbn [Avc.b2z] in H2; lia.
      Qed.
    End OneEnd.

    Section Sound.
      Variables (s t : nat) (P : nat -> bool).
      Hypothesis Hs : W s = true.
      Hypothesis Ht : W t = true.
      Hypothesis Hst : s <> t.
      Hypothesis HPW : forall c, P c = true -> W c = true.
      Hypothesis HPs : P s = true.
      Hypothesis HPt : P t = true.
      Hypothesis Hds : nmt_deg P s = 1.
      Hypothesis Hdt : nmt_deg P t = 1.
      Hypothesis Hdm : forall c, P c = true -> c <> s -> c <> t -> nmt_deg P c = 2.

      (* the component of any vertex of P contains both ends *)
      Lemma nmt_comp_both r : P r = true -> reach g P alle r s /\ reach g P alle r t.
      Proof.
        intros Hr. pose proof (HWn r (HPW r Hr)) as Hrn.
        set (Q := fun v => mem v (component g P alle r)).
        assert (Qspec : forall v, Q v = true <-> reach g P alle r v).
        { intros v. unfold Q. rewrite mem_In. apply component_spec; assumption. }
        assert (QP : forall v, Q v = true -> P v = true).
        { intros v Hv. apply Qspec in Hv. exact (ReachProofs.reach_vok_end _ _ _ _ _ Hv). }
        assert (Hin : forall v, reach g P alle r v -> reach g Q alle r v).
        { intros v H. apply (nmt_reach_into P Q r v H). intros x Hx. apply Qspec. exact Hx. }
        assert (HcQ : connected g Q).
        { intros u v _ _ Hu Hv. apply Qspec in Hu. apply Qspec in Hv.
          eapply ReachProofs.reach_trans; [apply ReachProofs.reach_sym; apply Hin; exact Hu|apply Hin; exact Hv]. }
        assert (HbQ : induced_bridges g Q).
        { intros e a b Hn Qa Qb Hab Hre. apply (Hbr e a b Hn (HPW a (QP a Qa)) (HPW b (QP b Qb)) Hab).
          eapply AGF.reach_mono; [| |exact Hre]; [intros x Hx; apply HPW, QP, Hx|auto]. }
        assert (Htree : tree g Q) by (apply (tree_iff_bridges g Q Hwf); split; assumption).
        destruct Htree as [_ Hcount].
        assert (Hpos : 1 <= n_active g Q).
        { unfold n_active. assert (Hi : In r (filter Q (seq 0 (nv g)))).
          { apply filter_In. split; [apply in_seq; lia|apply Qspec; apply reach_refl; exact Hr]. }
          destruct (filter Q (seq 0 (nv g))); [destruct Hi|simpl; lia]. }
        assert (Hedges : induced_edges g Q + 1 = n_active g Q) by (destruct Hcount; [lia|assumption]).
        (* the handshake lemma on Q *)
        pose proof (handshake g (fun i j => Avc.b2z (Q i && Q j)) Hwf) as HS.
        cbv beta in HS.
        assert (HR : zsum (map (fun ab : nat * nat => (Avc.b2z (Q (fst ab) && Q (snd ab)) + Avc.b2z (Q (snd ab) && Q (fst ab)))%Z) (edges g))
                     = (2 * Z.of_nat (induced_edges g Q))%Z).
        { rewrite (zsum_map_ext_in _ (fun ab : nat * nat => (Avc.b2z (Q (fst ab) && Q (snd ab)) + Avc.b2z (Q (fst ab) && Q (snd ab)))%Z))
            by (intros ab _; rewrite (andb_comm (Q (snd ab))); reflexivity).
          rewrite zsum_map_add, (zsum_b2z_count (fun ab : nat * nat => Q (fst ab) && Q (snd ab))).
          rewrite (induced_edges_loop_free g Q Hlf). lia. }
        assert (HL : forall i, In i (seq 0 (nv g)) ->
                  (zsum (map (fun jk : nat * nat => Avc.b2z (Q i && Q (fst jk))) (incident g i)) +
                   ((if Nat.eqb s i then Avc.b2z (Q i) else 0) + (if Nat.eqb t i then Avc.b2z (Q i) else 0))
                   = Avc.b2z (Q i) + Avc.b2z (Q i))%Z).
        { intros i _. destruct (Q i) eqn:Qi.
          - cbn [andb]. rewrite (zsum_b2z_count (fun jk : nat * nat => Q (fst jk))).
            assert (Hc : length (filter (fun jk : nat * nat => Q (fst jk)) (incident g i)) = nmt_deg P i).
            { unfold nmt_deg, nbrs, count.
              assert (Hf : filter (fun '(_, k) => alle k) (incident g i) = incident g i).
              { clear. induction (incident g i) as [|[a k] rest IH]; [reflexivity|]. simpl. rewrite IH. reflexivity. }
              rewrite Hf.
              transitivity (length (filter Q (map fst (incident g i)))).
              - clear. induction (incident g i) as [|[a k] rest IH]; [reflexivity|]. simpl. destruct (Q a); simpl; rewrite IH; reflexivity.
              - f_equal. apply filter_ext_in. intros u Hu.
                assert (Hadj : In u (nbrs g alle i)) by (unfold nbrs; rewrite Hf; exact Hu).
                destruct (P u) eqn:Pu.
                + apply Qspec. eapply reach_step; [apply Qspec; exact Qi|exact Hadj|exact Pu].
                + destruct (Q u) eqn:Qu; [apply QP in Qu; congruence|reflexivity]. }
            rewrite Hc. pose proof (QP i Qi) as Pi. simpl Avc.b2z.
            destruct (Nat.eqb_spec s i) as [<-|Hsi]; [|destruct (Nat.eqb_spec t i) as [<-|Hti]].
            + destruct (Nat.eqb_spec t s) as [E|_]; [congruence|]. rewrite Hds. reflexivity.
            + rewrite Hdt. reflexivity.
            + rewrite (Hdm i Pi) by congruence. reflexivity.
          - cbn [andb]. rewrite zsum_map_zero by (intros; reflexivity). destruct (Nat.eqb s i), (Nat.eqb t i); reflexivity. }
        pose proof (zsum_map_ext_in _ _ _ HL) as HL'. rewrite !zsum_map_add in HL'.
        rewrite (zsum_pick s (fun i => Avc.b2z (Q i))) in HL' by (try apply seq_NoDup; apply in_seq; pose proof (HWn s Hs); lia).
        rewrite (zsum_pick t (fun i => Avc.b2z (Q i))) in HL' by (try apply seq_NoDup; apply in_seq; pose proof (HWn t Ht); lia).
        rewrite (zsum_b2z_count Q) in HL'. fold (n_active g Q) in HL'.
        rewrite HS, HR in HL'.
        assert (H2 : (Avc.b2z (Q s) + Avc.b2z (Q t) = 2)%Z) by lia.
        assert (Hboth : Q s = true /\ Q t = true) by (destruct (Q s), (Q t); cbn [Avc.b2z] in H2; split; try reflexivity; lia).
        destruct Hboth as [Qs Qt]. split; apply Qspec; assumption.
      Qed.

      Lemma nmt_route_in_P c : nmt_R s t c = true -> P c = true.
      Proof.
        intros HR. destruct (P c) eqn:Pc; [reflexivity|]. exfalso.
        apply (nmt_R_spec s t c Hs) in HR. destruct HR as [Wc [->|[->|Hsep]]]; [congruence|congruence|].
        apply Hsep. destruct (nmt_comp_both s HPs) as [_ Hr].
        eapply nmt_reach_mono; [|exact Hr]. intros v Hv. apply nmt_minus_true. split; [apply HPW; exact Hv|congruence].
      Qed.

      Theorem nmt_route_sound c : P c = nmt_R s t c.
      Proof.
        destruct (nmt_R s t c) eqn:Rc; [apply nmt_route_in_P; exact Rc|].
        destruct (P c) eqn:Pc; [|reflexivity]. exfalso.
        destruct (nmt_comp_both c Pc) as [Hcs _].
        assert (Rs : nmt_R s t s = true) by (apply (nmt_R_spec s t s Hs); split; [exact Hs|left; reflexivity]).
        destruct (nmt_first_entry (nmt_R s t) P c s Hcs Rc Rs) as [x [y [Px [Rx [Py [Ry Hxy]]]]]].
        assert (Hlt : nmt_deg (nmt_R s t) y < nmt_deg P y).
        { unfold nmt_deg. apply (nmt_count_strict _ _ _ x); [intros z _; apply nmt_route_in_P|apply nmt_adj_sym; exact Hxy|exact Px|exact Rx]. }
        destruct (Nat.eq_dec y s) as [->|Hys]; [|destruct (Nat.eq_dec y t) as [->|Hyt]].
        - rewrite (nmt_end_degree s t Hs Ht Hst), Hds in Hlt. lia.
        - assert (E : nmt_deg (nmt_R s t) t = nmt_deg (nmt_R t s) t).
          { unfold nmt_deg, count. f_equal. apply filter_ext. intros z. apply nmt_R_sym; assumption. }
          rewrite E, (nmt_end_degree t s Ht Hs (fun E' => Hst (eq_sym E'))), Hdt in Hlt. lia.
        - rewrite (nmt_mid_degree s t y Hs Ht Ry Hys Hyt), (Hdm y Py Hys Hyt) in Hlt. lia.
      Qed.
    End Sound.
  End Route.
End Tree.
