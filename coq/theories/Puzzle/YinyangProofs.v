(* C11 Tier 1 - yinyang: for every board shape and every clue layout, the program posted by solve_yinyang (model
   Yinyang.v: the connectivity helper of property C04 on the grid and on its negation, the two 2x2 constraints, the
   three auxiliary constraints - no 2x2 checkerboard (two constraints), at most two colour changes along the border
   walk - and the clue constraints) has a model reading as [ans] exactly when [ans] obeys Rules_yinyang.
   The pieces:
     YinyangCompose.v    two calls of the connectivity helper (the second on NOT-nodes) + later constraints
     YinyangLemmas.v     yinyang_model_exact: models <-> rules /\ auxiliary constraints (yy_aux);
                         yinyang_sound, yinyang_complete_modulo_aux, yinyang_exact_if_aux_implied
     YinyangAux.v        yy_aux and the planarity statement yinyang_aux_implied_statement (kept visible)
     YinyangPlanar.v     crossing parity for king-move walks; no checkerboard        (every h, w)
     YinyangBorder.v     no alternately coloured border cells                        (h, w >= 2)
     YinyangAuxProofs.v  yinyang_aux_implied (single rows / columns and boards without cells included)
     YinyangBounded.v    the planarity statement re-checked by kernel computation on all boards up to 16 / 12 cells
                         (bounded, independent evidence; not used below) *)
From Coq Require Import ZArith List Bool Arith Lia.
From Cspuz Require Import Lib.PyErr Core.Expr Core.Program Graph.GraphModel Graph.Avc
     Puzzle.PuzzleBase Puzzle.SatAbs Puzzle.ModelBase
     Puzzle.Rules_yinyang Puzzle.Yinyang Puzzle.YinyangAux Puzzle.YinyangLemmas Puzzle.YinyangAuxProofs.
Import ListNotations.
Local Open Scope nat_scope.

Theorem yinyang_exact h w grid st ans :
  solve_yinyang_model [[Z.of_nat h; Z.of_nat w]; grid] = Ok st ->
  ((exists en, model_of gsem_avc en st /\ reads st en (seq 0 (h * w)) = ans)
   <-> rules_yinyang [[Z.of_nat h; Z.of_nat w]; grid] ans = true).
Proof. exact (yinyang_exact_if_aux_implied yinyang_aux_implied h w grid st ans). Qed.

(* the auxiliary constraints never remove a rule-obeying answer: the program without knowing them and the program
   with them have the same answers (restated on the answer side) *)
Corollary yinyang_aux_redundant h w grid ans :
  rules_yinyang [[Z.of_nat h; Z.of_nat w]; grid] ans && yy_aux h w ans =
  rules_yinyang [[Z.of_nat h; Z.of_nat w]; grid] ans.
Proof.
  destruct (rules_yinyang [[Z.of_nat h; Z.of_nat w]; grid] ans) eqn:E; [|reflexivity].
  rewrite (yinyang_aux_implied h w grid ans E). reflexivity.
Qed.

(* the hypothesis is satisfiable *)
Example yinyang_exact_applies :
  exists st, solve_yinyang_model [[Z.of_nat 2; Z.of_nat 3]; [0; 1; 0; 2; 0; 0]%Z] = Ok st.
Proof. vm_compute. eexists. reflexivity. Qed.
