(* I/O only: requests of harness/pC05.py -> the extracted model of Graph/Division.v *)
open Model
open Zutil

let ios = int_of_string
let nat s = nat_of_int (ios s)
let zz s = z_of_int (ios s)

(* graph: n m a0 b0 a1 b1 ... *)
let parse_graph toks = match toks with
  | n :: m :: r ->
      let m = ios m in
      let rec go k r acc = if k = 0 then (List.rev acc, r) else
        (match r with a :: b :: r' -> go (k - 1) r' ((nat a, nat b) :: acc) | _ -> failwith "graph") in
      let (es, r) = go m r [] in
      ({ nv = nat n; edges = es }, r)
  | _ -> failwith "graph"

let rec take k r acc = if k = 0 then (List.rev acc, r) else
  (match r with x :: r' -> take (k - 1) r' (x :: acc) | [] -> failwith "take")

(* roots: N | R count items ; item: _ | i z | t len z... *)
let parse_roots toks = match toks with
  | "N" :: r -> (None, r)
  | "R" :: c :: r ->
      let rec go k r acc = if k = 0 then (List.rev acc, r) else
        (match r with
         | "_" :: r' -> go (k - 1) r' (RNone :: acc)
         | "i" :: z :: r' -> go (k - 1) r' (RInt (zz z) :: acc)
         | "t" :: l :: r' -> let (xs, r'') = take (ios l) r' [] in go (k - 1) r'' (RTup (List.map zz xs) :: acc)
         | _ -> failwith "root item") in
      let (items, r) = go (ios c) r [] in (Some items, r)
  | _ -> failwith "roots"

let show_res = function
  | Err e -> "E " ^ string_of_int (int_of_nat (pyerr_code e))
  | Ok st -> "OK " ^ Exprio.show_state st

let b s = s = "1"

let env_of (vals : int array) : env =
  let get i = let i = int_of_nat i in if i < Array.length vals then vals.(i) else 0 in
  { eb = (fun i -> get i <> 0); ei = (fun i -> z_of_int (get i)) }

let handle toks = match toks with
  (* P prim aeg R kind <graph> [ labels ] <roots> <state> *)
  | "P" :: prim :: aeg :: r :: kind :: rest ->
      let (g, rest) = parse_graph rest in
      let (labels, rest) = Exprio.parse_expr_list rest in
      let (roots, rest) = parse_roots rest in
      let (st, _) = Exprio.parse_state rest in
      let s = if kind = "A" then SArr labels else SList labels in
      show_res (post_division st s (nat r) g roots (b aeg) (b prim))
  (* W cfgprim aeg R (L|A [labels] | G h w [labels]) (N | G <graph>) <roots> <state> *)
  | "W" :: prim :: aeg :: r :: rest ->
      let (dv, rest) = (match rest with
        | "L" :: rest -> let (l, rest) = Exprio.parse_expr_list rest in (D1 (SList l), rest)
        | "A" :: rest -> let (l, rest) = Exprio.parse_expr_list rest in (D1 (SArr l), rest)
        | "G" :: h :: w :: rest -> let (l, rest) = Exprio.parse_expr_list rest in (D2 (nat h, nat w, l), rest)
        | _ -> failwith "division arg") in
      let (g, rest) = (match rest with
        | "N" :: rest -> (None, rest)
        | "G" :: rest -> let (g, rest) = parse_graph rest in (Some g, rest)
        | _ -> failwith "graph arg") in
      let (roots, rest) = parse_roots rest in
      let (st, _) = Exprio.parse_state rest in
      show_res (division_connected st dv (nat r) g roots (b aeg) (b prim))
  (* S R aeg <graph> <roots> labels... : the executable specification *)
  | "S" :: r :: aeg :: rest ->
      let (g, rest) = parse_graph rest in
      let (roots, rest) = parse_roots rest in
      let labels = Array.of_list (List.map ios rest) in
      let label v = let v = int_of_nat v in z_of_int (if v < Array.length labels then labels.(v) else (-1)) in
      if spec_division_b g (nat r) label roots (b aeg) then "1" else "0"
  (* EV <state> A v0 v1 ... : does the assignment satisfy the program (G_AVC by its specification)? *)
  | "EV" :: rest ->
      let (st, rest) = Exprio.parse_state rest in
      (match rest with
       | "A" :: vals ->
           let en = env_of (Array.of_list (List.map ios vals)) in
           (if in_bounds en st then "1" else "0") ^ " " ^ (if satisfies division_gsem en st then "1" else "0")
       | _ -> failwith "EV")
  (* GG h w : the grid graph *)
  | "GG" :: h :: w :: _ ->
      let g = grid_graph (nat h) (nat w) in
      string_of_int (int_of_nat g.nv) ^ " " ^
      String.concat " " (List.map (fun (a, b) -> string_of_int (int_of_nat a) ^ " " ^ string_of_int (int_of_nat b)) g.edges)
  | _ -> "EXN bad request"

let () = main_loop handle
