(* C12 — model of cspuz/constraints.py::flatten_iterator and the aggregate
   helpers on arbitrarily nested arguments, of BoolArray2D.conv2d and of
   array.py::_four_neighbors / _four_neighbor_indices.  No proofs in this file. *)
From Coq Require Import ZArith List Bool.
From Cspuz Require Import Lib.PyErr Core.Expr Core.Build Array.Slice Array.Elementwise.
Import ListNotations.
Open Scope Z_scope.
Open Scope res_scope.

(* an argument of a helper: a single Python object, or any iterable of such
   (list, tuple, generator, dict keys ...) *)
Inductive nest :=
  | NV (v : pyval)
  | NL (l : list nest).

(* constraints.py::flatten_iterator: arrays have __iter__ (their data, whose
   items have none); scalars, literals and None are yielded as they are *)
Fixpoint flatten_nest (n : nest) : list expr :=
  match n with
  | NV (VE e) => [e]
  | NV (VA _ _ d) => d
  | NL l => flat_map flatten_nest l
  end.

(* helper called with an argument tuple [args] *)
Definition h_count_true (args : list nest) : res expr := count_true (flatten_nest (NL args)).
Definition h_fold_or (args : list nest) : res expr := fold_or (flatten_nest (NL args)).
Definition h_fold_and (args : list nest) : res expr := fold_and (flatten_nest (NL args)).
Definition h_alldifferent (args : list nest) : res expr := alldifferent (flatten_nest (NL args)).

(* ------------------------------------------------------------------ conv2d *)

Inductive convop := ConvAnd | ConvOr | ConvOther.

(* BoolArray2D.conv2d(height, width, op): self[y : y + height, x : x + width] is
   Array2D._getitem_impl of Array/Slice.v *)
Definition conv2d (h w : Z) (data : list expr) (kh kw : Z) (o : convop) : res pyval :=
  match o with
  | ConvOther => Err ValueError
  | _ =>
      let rh := Z.max 0 (h - kh + 1) in
      let rw := Z.max 0 (w - kw + 1) in
      let* rows :=
        mapM (fun y =>
          mapM (fun x =>
            let* comp := getitem_pair h w data (KSlice (Some y) (Some (y + kh)) None)
                                               (KSlice (Some x) (Some (x + kw)) None) in
            match comp with
            | R2 _ _ l => Ok (BNode (match o with ConvAnd => AND | _ => OR end) l)
            | _ => Err OtherError
            end) (zseq 0 (Z.to_nat rw))) (zseq 0 (Z.to_nat rh)) in
      let r := concat rows in
      if zlen r =? rh * rw then Ok (VA KB (S2 rh rw) r) else Err ValueError
  end.

(* ---------------------------------------------------------- four neighbours *)

(* the accepted call shapes of four_neighbors / four_neighbor_indices *)
Inductive fnargs :=
  | FNTwoInts (y x : Z)        (* a.four_neighbors(y, x) *)
  | FNTuple (y x : Z)          (* a.four_neighbors((y, x)) *)
  | FNOneInt (y : Z)           (* a.four_neighbors(y)           -> TypeError *)
  | FNTupleAndInt (x : Z).     (* a.four_neighbors((y, x'), x)  -> TypeError *)

Definition fn_parse (a : fnargs) : res (Z * Z) :=
  match a with
  | FNTwoInts y x | FNTuple y x => Ok (y, x)
  | FNOneInt _ | FNTupleAndInt _ => Err TypeError
  end.

(* array.py::_four_neighbor_indices *)
Definition four_neighbor_indices (h w : Z) (a : fnargs) : res (list (Z * Z)) :=
  let* '(y, x) := fn_parse a in
  Ok ((if 0 <? y then [(y - 1, x)] else []) ++
      (if y <? h - 1 then [(y + 1, x)] else []) ++
      (if 0 <? x then [(y, x - 1)] else []) ++
      (if x <? w - 1 then [(y, x + 1)] else [])).

(* array.py::_four_neighbors: array[y', x'] is Array2D._getitem_impl *)
Definition cell_of (h w : Z) (data : list expr) (p : Z * Z) : res expr :=
  let* r := getitem_pair h w data (KInt (fst p)) (KInt (snd p)) in
  match r with RScalar e => Ok e | _ => Err OtherError end.

Definition four_neighbors (k : kind) (h w : Z) (data : list expr) (a : fnargs) : res pyval :=
  let* idx := four_neighbor_indices h w a in
  let* l := mapM (cell_of h w data) idx in
  Ok (VA k (S1 (zlen l)) l).
