(* C11: the program of solve_magnets is well formed on every problem the model accepts; composition with C02
   (solve_reports). *)
From Coq Require Import ZArith List Bool Arith Lia.
From Cspuz Require Import Lib.PyErr Core.Expr Core.Program Backend.Z3 Backend.Z3Oracle Backend.Z3SolveProofs
     Backend.SolveLoop Backend.SolveZ3Proofs
     Puzzle.PuzzleBase Puzzle.ModelBase Puzzle.ModelLemmas Puzzle.SatAbs Puzzle.SolveCompose Puzzle.WfLemmas
     Puzzle.Rules_magnets Puzzle.Magnets Puzzle.MagnetsProofs.
Import ListNotations.
Local Open Scope nat_scope.

Lemma ok_mag_p h w y x : y < h -> x < w ->
  ok (repeat DBool (2 * (h * w))) true (BVar (mag_p w (y, x))) = true.
Proof. intros Hy Hx. apply ok_bvar_repeat. unfold mag_p, cidx. simpl. nia. Qed.
Lemma ok_mag_m h w y x : y < h -> x < w ->
  ok (repeat DBool (2 * (h * w))) true (BVar (mag_m h w (y, x))) = true.
Proof. intros Hy Hx. apply ok_bvar_repeat. unfold mag_m, cidx. simpl. nia. Qed.

Lemma ok_mag_nand vs i j : ok vs true (mag_nand i j) = ok vs true (BVar i) && ok vs true (BVar j).
Proof. unfold mag_nand. autorewrite with okdb. reflexivity. Qed.

Lemma ok_mag_clue vs c ids :
  (forall i, In i ids -> ok vs true (BVar i) = true) -> forallb (ok vs true) (mag_clue c ids) = true.
Proof.
  intros H. unfold mag_clue. destruct (0 <=? c)%Z; [|reflexivity].
  autorewrite with okdb. rewrite ok_ct_vars_lt by exact H. reflexivity.
Qed.

Lemma magnets_constraints_ok h w tr td rp rm cp cm :
  mag_rim_flag h w tr td = false ->
  forallb (ok (repeat DBool (2 * (h * w))) true) (magnets_constraints h w tr td rp rm cp cm) = true.
Proof.
  intros Hrim. unfold magnets_constraints. rewrite !forallb_app, !forallb_map, !forallb_flat_map.
  repeat (apply andb_true_intro; split).
  - apply forallb_cells. intros y x Hy Hx. rewrite ok_mag_nand, ok_mag_p, ok_mag_m by assumption. reflexivity.
  - apply forallb_In. intros [[y x] [y' x']] Hp.
    destruct (plates_inside _ _ _ _ _ _ Hrim Hp) as [[Hy Hx] [Hy' Hx']]. simpl in Hy, Hx, Hy', Hx'.
    unfold mag_plate. autorewrite with okdb.
    rewrite !ok_mag_p, !ok_mag_m by assumption. reflexivity.
  - apply forallb_cells. intros y x Hy Hx. rewrite ok_mag_nand, !ok_mag_p by lia. reflexivity.
  - apply forallb_cells. intros y x Hy Hx. rewrite ok_mag_nand, !ok_mag_m by lia. reflexivity.
  - apply forallb_cells. intros y x Hy Hx. rewrite ok_mag_nand, !ok_mag_p by lia. reflexivity.
  - apply forallb_cells. intros y x Hy Hx. rewrite ok_mag_nand, !ok_mag_m by lia. reflexivity.
  - apply forallb_seq. intros y Hy. rewrite forallb_app. apply andb_true_intro. split; apply ok_mag_clue;
      intros i Hi; apply in_map_iff in Hi; destruct Hi as [[y' x] [<- Hc]];
      unfold mag_row in Hc; apply in_map_iff in Hc; destruct Hc as [x' [E Hx]]; inversion E; subst;
      apply in_seq in Hx; [apply ok_mag_p|apply ok_mag_m]; lia.
  - apply forallb_seq. intros x Hx. rewrite forallb_app. apply andb_true_intro. split; apply ok_mag_clue;
      intros i Hi; apply in_map_iff in Hi; destruct Hi as [[y x'] [<- Hc]];
      unfold mag_col in Hc; apply in_map_iff in Hc; destruct Hc as [y' [E Hy]]; inversion E; subst;
      apply in_seq in Hy; [apply ok_mag_p|apply ok_mag_m]; lia.
Qed.

Lemma magnets_model_wf h w tr td rp rm cp cm st :
  solve_magnets_model [[Z.of_nat h; Z.of_nat w]; tr; td; rp; rm; cp; cm] = Ok st -> wf_state st /\ wf_keys st.
Proof.
  intros H. apply magnets_model_ok in H. destruct H as [Hrim ->].
  apply wf_bool_grid_state. apply magnets_constraints_ok. exact Hrim.
Qed.

Theorem magnets_solve_reports : forall oracle, oracle_sound_on oracle -> oracle_complete_on oracle ->
  forall h w tr td rp rm cp cm st,
  solve_magnets_model [[Z.of_nat h; Z.of_nat w]; tr; td; rp; rm; cp; cm] = Ok st ->
  solve_reports oracle st (seq 0 (2 * (h * w)))
                (rules_magnets [[Z.of_nat h; Z.of_nat w]; tr; td; rp; rm; cp; cm]).
Proof.
  intros oracle Os Oc h w tr td rp rm cp cm st Hst.
  apply (solve_reports_intro oracle no_graph); try assumption.
  - exact (magnets_model_wf _ _ _ _ _ _ _ _ _ Hst).
  - destruct (magnets_model_ok _ _ _ _ _ _ _ _ _ Hst) as [_ ->]. simpl. apply repeat_keys.
  - intros ans. exact (magnets_exact h w tr td rp rm cp cm st ans Hst).
Qed.
