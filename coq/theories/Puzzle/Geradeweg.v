(* C11 Tier 1 - model of cspuz/puzzle/geradeweg.py::solve_geradeweg(height, width, problem), all board shapes:
       grid_frame = BoolGridFrame(solver, height - 1, width - 1); solver.add_answer_key(grid_frame)
       is_passed = graph.active_edges_single_cycle(solver, grid_frame)
       for y in range(height): for x in range(width):
           if problem[y][x] >= 1:
               ensure(is_passed[y, x])
               ensure(fold_or(([horizontal[y, x - 1]] if x > 0 else []) + ([horizontal[y, x]] if x < width - 1 else []))
                      .then(line_length(reversed(list(horizontal[y, :x]))) + line_length(horizontal[y, x:]) == problem[y][x]))
               ensure(fold_or(([vertical[y - 1, x]] if y > 0 else []) + ([vertical[y, x]] if y < height - 1 else []))
                      .then(line_length(reversed(list(vertical[:y, x]))) + line_length(vertical[y:, x]) == problem[y][x]))
   with  line_length([]) = 0 (a Python int),  line_length([e0, .., en]) = e0.cond(1 + line_length([e1, .., en]), 0),
   line_length([en]) = en.cond(1, 0).
   The frame has (height - 1) x (width - 1) cells, so its points are the cells of the board: horizontal has shape
   (height, width - 1), vertical (height - 1, width); is_passed has shape (height, width).  No auxiliary variable is
   declared by the module itself: the segment lengths are expression trees.  Trees as the operators build them:
   "0 + e" = ADD [0; e], "e + 0" = ADD [e; 0]; on a board of width 1 both horizontal slices of every cell are empty,
   "0 + 0 == c" is then the Python bool False (c >= 1) and fold_or([]) the BOOL_CONSTANT false node, so the
   constraint is IMP [BOOL_CONSTANT false; False]; likewise for the vertical slices on a board of height 1.
   The call into cspuz.graph is the model of property C06 (Graph/Cycle.v::active_edges_single_cycle on the frame,
   auxiliary-variable route, see CycleFrameBase.v).
   The problem uses the encoding of Rules_geradeweg.v ([[height; width]; num], num row-major; a value >= 1 is a
   number, anything else no number).
   Tiny / malformed boards: height <= 0 or width <= 0 is rejected with ValueError (the Python raises ValueError -
   from Array2D.__init__ while the frame of height - 1 / width - 1 cells is declared, or from the cycle helper on
   the empty frame - whenever height <= 0 or width <= 0, unless BOTH dimensions are negative: the shape products
   are then positive again and the Python runs through; boards with both dimensions negative are outside the
   scope of the model and of the plug-in's problems).  Boards with height = 1 or width = 1 are ordinary boards
   (frames without cells; the only loop is the empty one).  A clue list shorter than height * width is
   rejected with IndexError (the Python raises IndexError at the first missing row / cell, after the frame and
   the loop constraints were posted; the plug-in's malformed problems only drop trailing cells / rows, so that the
   flat list has fewer than height * width entries exactly when some problem[y][x] is missing).  No proofs here. *)
From Coq Require Import ZArith List Bool Arith.
From Cspuz Require Import Lib.PyErr Core.Expr Core.Program Graph.GraphModel Graph.Cycle
     Puzzle.PuzzleBase Puzzle.ModelBase Puzzle.CycleFrameBase.
Import ListNotations.
Local Open Scope nat_scope.

(* line_length over a list of frame variables (given by their ids) *)
Fixpoint gw_line_length (ids : list nat) : expr :=
  match ids with
  | [] => PyInt 0
  | i :: r =>
      match r with
      | [] => INode IF [BVar i; PyInt 1; PyInt 0]
      | _ => INode IF [BVar i; INode ADD [PyInt 1; gw_line_length r]; PyInt 0]
      end
  end.

(* constraints.fold_or over BoolVars *)
Definition gw_fold_or (ids : list nat) : expr :=
  match ids with [] => BNode BOOL_CONSTANT [PyBool false] | _ => BNode OR (map BVar ids) end.

(* line_length(a) + line_length(b) == c : a Python bool when both lists are empty *)
Definition gw_sum_eq (a b : list nat) (c : Z) : expr :=
  match a, b with
  | [], [] => PyBool (0 + 0 =? c)%Z
  | _, _ => BNode EQ [INode ADD [gw_line_length a; gw_line_length b]; PyInt c]
  end.

(* fold_or(heads).then(line_length(a) + line_length(b) == c) *)
Definition gw_line (heads a b : list nat) (c : Z) : expr :=
  BNode IMP [gw_fold_or heads; gw_sum_eq a b c].

(* the statements of one cell; h, w are the dimensions of the frame (height - 1, width - 1) *)
Definition gw_clue (h w : nat) (clues : list Z) (cell : nat * nat) : list expr :=
  let '(y, x) := cell in
  let c := at2 clues (S w) y x in
  if (c <? 1)%Z then []
  else
    [ BVar (frame_pid h w y x);
      gw_line ((if 0 <? x then [frame_hid h w y (x - 1)] else []) ++ (if x <? w then [frame_hid h w y x] else []))
              (map (frame_hid h w y) (rev (seq 0 x)))
              (map (frame_hid h w y) (seq x (w - x))) c;
      gw_line ((if 0 <? y then [frame_vid h w (y - 1) x] else []) ++ (if y <? h then [frame_vid h w y x] else []))
              (map (fun y' => frame_vid h w y' x) (rev (seq 0 y)))
              (map (fun y' => frame_vid h w y' x) (seq y (h - y))) c ].

Definition geradeweg_constraints (h w : nat) (clues : list Z) : list expr :=
  flat_map (gw_clue h w clues) (cells (S h) (S w)).

Definition solve_geradeweg_model (pb : problem) : res state :=
  let H := dim pb 0 in let W := dim pb 1 in
  if ((getz (sec pb 0) 0 <? 1) || (getz (sec pb 0) 1 <? 1))%Z then Err ValueError
  else
  match frame_cycle (H - 1) (W - 1) with
  | Ok (st1, _) =>
      if Nat.ltb (length (sec pb 1)) (H * W) then Err IndexError
      else Ok (ensure st1 (geradeweg_constraints (H - 1) (W - 1) (sec pb 1)))
  | Err e => Err e
  end.
