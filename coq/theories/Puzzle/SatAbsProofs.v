(* C11 Tier 2 - correctness of the decision procedure of SatAbs.v. *)
From Coq Require Import ZArith List Bool Arith Lia.
From Cspuz Require Import Core.Expr Core.Program Graph.GraphModel Puzzle.PuzzleBase Puzzle.SatAbs.
Import ListNotations.
Open Scope Z_scope.

Lemma zlist_eqb_eq a b : zlist_eqb a b = true -> a = b.
Proof.
  revert b; induction a as [|x r IH]; destruct b as [|y s]; simpl; try discriminate; auto.
  intros H. apply andb_true_iff in H. destruct H as [H1 H2].
  apply Z.eqb_eq in H1. subst. f_equal. auto.
Qed.

Lemma zlist_eqb_refl a : zlist_eqb a a = true.
Proof. induction a; simpl; auto. rewrite Z.eqb_refl. auto. Qed.

Lemma exists_lazy_eq {A} (f : A -> bool) l : exists_lazy f l = existsb f l.
Proof. induction l; simpl; auto. destruct (f a); auto. Qed.
Lemma forall_lazy_eq {A} (f : A -> bool) l : forall_lazy f l = forallb f l.
Proof. induction l; simpl; auto. destruct (f a); auto. Qed.
Lemma andl_eq (a b : bool) : (a &&& b) = a && b.
Proof. destruct a; reflexivity. Qed.

Lemma search_leaf leaf plan pe :
  search leaf plan pe = true -> exists pe', leaf pe' = true.
Proof.
  revert pe; induction plan as [|[[v dom] cs] r IH]; simpl; intros pe H.
  - eauto.
  - rewrite exists_lazy_eq in H. apply existsb_exists in H. destruct H as [z [_ H]].
    rewrite andl_eq in H. apply andb_true_iff in H. destruct H as [_ H]. eauto.
Qed.

(* soundness: an accepted answer is the reading of a genuine model *)
Theorem sat_abs_sound st kids order ans :
  sat_abs st kids order ans = true ->
  exists en, model_of no_graph en st /\ reads st en kids = ans.
Proof.
  unfold sat_abs, sat_abs_plan. intros H. rewrite !andl_eq in H.
  apply andb_true_iff in H. destruct H as [_ H].
  apply search_leaf in H. destruct H as [pe H].
  unfold leaf_ok in H. rewrite !andl_eq in H.
  apply andb_true_iff in H. destruct H as [H H3].
  apply andb_true_iff in H. destruct H as [H1 H2].
  rewrite forall_lazy_eq in H2.
  exists (env_of pe). split; [split; assumption|]. apply zlist_eqb_eq; assumption.
Qed.
