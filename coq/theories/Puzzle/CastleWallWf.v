(* C11: the program of solve_castle_wall is well formed on every board; composition with C02 (solve_reports). *)
From Coq Require Import ZArith List Bool Arith Lia.
From Cspuz Require Import Lib.PyErr Core.Expr Core.Program Graph.GraphModel Graph.CycleLemmas Graph.Cycle
     Backend.Z3 Backend.Z3Oracle Backend.Z3SolveProofs Backend.SolveLoop Backend.SolveZ3Proofs
     Puzzle.PuzzleBase Puzzle.ModelBase Puzzle.ModelLemmas Puzzle.SatAbs Puzzle.SolveCompose Puzzle.WfLemmas
     Puzzle.CycleFrameBase Puzzle.Rules_castle_wall Puzzle.CastleWall Puzzle.CastleWallProofs.
Import ListNotations.
Local Open Scope nat_scope.

Section C.
  (* fh, fw: dimensions of the frame (height - 1, width - 1) *)
  Variables fh fw : nat.
  Let n := S fh * S fw.
  Let a := frame_n fh fw.
  Let base := a + 3 * n.
  (* the frame, is_passed, rank, is_root, is_inside *)
  Definition cw_vars : list vdecl :=
    (repeat DBool (frame_n fh fw) ++ repeat DBool n ++ repeat (DInt 0 (Z.of_nat n - 1)) n ++ repeat DBool n) ++
    repeat DBool (fh * fw).
  Let vs := cw_vars.

  Lemma ok_cw_frame i : i < a -> ok vs true (BVar i) = true.
  Proof. intros H. unfold vs, cw_vars. rewrite <- !app_assoc. apply (ok_bvar_block []). simpl. fold a. lia. Qed.
  Lemma ok_cw_passed i : a <= i < a + n -> ok vs true (BVar i) = true.
  Proof. intros H. unfold vs, cw_vars. rewrite <- !app_assoc. apply ok_bvar_block. rewrite repeat_length. fold a. lia. Qed.
  Lemma ok_cw_inside i : base <= i < base + fh * fw -> ok vs true (BVar i) = true.
  Proof.
    intros H. unfold vs, cw_vars. rewrite <- (app_nil_r (repeat DBool (fh * fw))). apply ok_bvar_block.
    rewrite !app_length, !repeat_length. fold a. unfold base in H. lia.
  Qed.

  Lemma ok_cw_hid y x : y <= fh -> x < fw -> ok vs true (BVar (frame_hid fh fw y x)) = true.
  Proof. intros Hy Hx. apply ok_cw_frame. unfold a, frame_hid, frame_n. nia. Qed.
  Lemma ok_cw_vid y x : y < fh -> x <= fw -> ok vs true (BVar (frame_vid fh fw y x)) = true.
  Proof. intros Hy Hx. apply ok_cw_frame. unfold a, frame_vid, frame_n. nia. Qed.

  Lemma cw_arrows_ok kind num : forallb (ok vs true) (cw_arrows (S fh) (S fw) kind num) = true.
  Proof.
    unfold cw_arrows. rewrite forallb_flat_map. apply forallb_cells. intros y x Hy Hx.
    unfold cw_arrow. cbv zeta. replace (S fh - 1) with fh by lia. replace (S fw - 1) with fw by lia.
    destruct (_ =? 0)%Z; [reflexivity|]. cbn [forallb]. rewrite ok_not.
    rewrite ok_cw_passed by (unfold frame_pid, a, n; nia). cbn [andb].
    assert (HV : forall l, (forall y', In y' l -> y' < fh) ->
              forallb (ok vs true) [BNode EQ [ct_vars (map (fun y' => frame_vid fh fw y' x) l); PyInt (at2 num (S fw) y x)]] = true).
    { intros l Hl. cbn [forallb]. rewrite ok_eq, ok_pyint, !andb_true_r. apply ok_ct_vars_lt.
      intros i Hi. apply in_map_iff in Hi. destruct Hi as [y' [<- Hy']]. apply ok_cw_vid; [apply Hl; exact Hy'|lia]. }
    assert (HH : forall l, (forall x', In x' l -> x' < fw) ->
              forallb (ok vs true) [BNode EQ [ct_vars (map (fun x' => frame_hid fh fw y x') l); PyInt (at2 num (S fw) y x)]] = true).
    { intros l Hl. cbn [forallb]. rewrite ok_eq, ok_pyint, !andb_true_r. apply ok_ct_vars_lt.
      intros i Hi. apply in_map_iff in Hi. destruct Hi as [x' [<- Hx']]. apply ok_cw_hid; [lia|apply Hl; exact Hx']. }
    destruct (_ =? 1)%Z; [apply HV; intros y' Hy'; apply in_seq in Hy'; lia|].
    destruct (_ =? 2)%Z; [apply HV; intros y' Hy'; apply in_seq in Hy'; lia|].
    destruct (_ =? 3)%Z; [apply HH; intros x' Hx'; apply in_seq in Hx'; lia|].
    destruct (_ =? 4)%Z; [apply HH; intros x' Hx'; apply in_seq in Hx'; lia|reflexivity].
  Qed.

  Lemma cw_inout_ok : forallb (ok vs true) (cw_inout base fh fw) = true.
  Proof.
    unfold cw_inout. rewrite forallb_map. apply forallb_cells. intros y x Hy Hx. unfold cw_inout1.
    destruct y as [|y'].
    - rewrite ok_iff, ok_cw_inside, ok_cw_hid by (unfold cw_iid; nia || lia). reflexivity.
    - rewrite ok_iff, ok_xor, !ok_cw_inside, ok_cw_hid by (unfold cw_iid; nia || lia). reflexivity.
  Qed.

  Lemma cw_sides_ok side : forallb (ok vs true) (cw_sides base (S fh) (S fw) side) = true.
  Proof.
    unfold cw_sides. rewrite forallb_flat_map. apply forallb_cells. intros y x Hy Hx. unfold cw_side1. cbv zeta.
    destruct (_ || _)%bool eqn:E.
    - destruct (_ =? 1)%Z; reflexivity.
    - apply orb_false_iff in E. destruct E as [E1 E2]. apply Nat.eqb_neq in E1, E2.
      replace (S fw - 1) with fw by lia.
      assert (Hv : ok vs true (BVar (cw_iid base fw (y - 1) (x - 1))) = true)
        by (apply ok_cw_inside; unfold cw_iid; nia).
      destruct (_ =? 1)%Z; [cbn [forallb]; rewrite Hv; reflexivity|].
      destruct (_ =? 2)%Z; [cbn [forallb]; rewrite ok_not, Hv; reflexivity|reflexivity].
  Qed.
End C.

Lemma castle_wall_model_shape pb st : solve_castle_wall_model pb = Ok st ->
  (wf_state st /\ wf_keys st) /\
  1 <= dim pb 0 /\ 1 <= dim pb 1 /\
  exists r, keys st = repeat true (frame_n (dim pb 0 - 1) (dim pb 1 - 1)) ++ r.
Proof.
  unfold solve_castle_wall_model. cbv zeta.
  assert (D0 : dim pb 0 = Z.to_nat (getz (sec pb 0) 0)) by reflexivity.
  assert (D1 : dim pb 1 = Z.to_nat (getz (sec pb 0) 1)) by reflexivity.
  destruct (_ || _)%bool eqn:Eg; [discriminate|].
  apply orb_false_iff in Eg. destruct Eg as [G0 G1]. apply Z.leb_gt in G0, G1.
  destruct (dim pb 0) as [|fh] eqn:Eh; [lia|]. destruct (dim pb 1) as [|fw] eqn:Ew; [lia|].
  replace (S fh - 1) with fh by lia. replace (S fw - 1) with fw by lia.
  destruct (frame_cycle fh fw) as [[st1 res]|] eqn:E; [|discriminate].
  destruct (_ || _)%bool; [discriminate|].
  unfold bool_array. rewrite bool_vars_spec.
  intros H. inversion H; subst st; clear H.
  destruct (frame_cycle_wf _ _ _ _ E) as [[W1 K1] [_ [[r Hk] Hv]]].
  cbn [vars keys Program.cons ensure].
  assert (Eb : next_id (ensure st1 (cw_arrows (S fh) (S fw) (sec pb 1) (sec pb 2))) = frame_n fh fw + 3 * (S fh * S fw)).
  { unfold next_id. cbn [vars ensure]. rewrite Hv, !app_length, !repeat_length. lia. }
  rewrite Eb.
  assert (Ev : vars st1 ++ repeat DBool (fh * fw) = cw_vars fh fw) by (rewrite Hv; reflexivity).
  split; [split|split; [lia|split; [lia|]]].
  - unfold wf_state, ensure. cbn [vars Program.cons]. rewrite Ev, <- !app_assoc.
    apply wf_cons_app; [|apply wf_cons_app; [|apply wf_cons_app]].
    + rewrite <- Ev. apply wf_cons_more. exact W1.
    + apply cw_arrows_ok.
    + apply cw_inout_ok.
    + apply cw_sides_ok.
  - unfold wf_keys, ensure. cbn [vars keys]. rewrite !app_length, !repeat_length. unfold wf_keys in K1. lia.
  - unfold ensure. cbn [keys]. exists (r ++ repeat false (fh * fw)). rewrite Hk, <- app_assoc. reflexivity.
Qed.

Lemma castle_wall_model_wf pb st : solve_castle_wall_model pb = Ok st -> wf_state st /\ wf_keys st.
Proof. intros H. exact (proj1 (castle_wall_model_shape pb st H)). Qed.

Theorem castle_wall_solve_reports : forall oracle, oracle_sound_on oracle -> oracle_complete_on oracle ->
  forall h w kind num side st,
  cw_wf h w kind side = true ->
  solve_castle_wall_model [[Z.of_nat h; Z.of_nat w]; kind; num; side] = Ok st ->
  solve_reports oracle st (seq 0 (h * (w - 1) + (h - 1) * w))
    (rules_castle_wall [[Z.of_nat h; Z.of_nat w]; kind; num; side]).
Proof.
  intros oracle Os Oc h w kind num side st Hwf Hst.
  apply (solve_reports_intro oracle no_graph); try assumption.
  - exact (castle_wall_model_wf _ _ Hst).
  - destruct (castle_wall_model_shape _ _ Hst) as [_ [Hh [Hw [r Hk]]]].
    rewrite dim2_0 in Hh, Hk. rewrite dim2_1 in Hw, Hk. rewrite Hk.
    replace (h * (w - 1) + (h - 1) * w) with (frame_n (h - 1) (w - 1))
      by (unfold frame_n; replace (S (h - 1)) with h by lia; replace (S (w - 1)) with w by lia; reflexivity).
    intros i. apply keys_prefix.
  - intros ans. exact (castle_wall_exact h w kind num side st ans Hwf Hst).
Qed.
