(* C11 rule specification - Putteria.
   Published rules (puzz.link, "Putteria"):
     1. Place a number in exactly one cell of every region; the number equals
        the number of cells of that region.
     2. Cells with numbers cannot be adjacent horizontally or vertically.
     3. The same number cannot appear more than once in a row or in a column.

   problem = [[h; w]; region]   region: h*w region ids 0..k-1 row-major
   answer  = h*w cells row-major, 1 = the cell holds its region's number *)
From Coq Require Import ZArith List Bool Arith.
From Cspuz Require Import Puzzle.PuzzleBase Puzzle.Rules_norinori.
Import ListNotations.

Definition rules_putteria (pb : problem) (ans : answer) : bool :=
  let h := dim pb 0 in let w := dim pb 1 in
  let region := sec pb 1 in
  let cs := cells h w in
  let has := fun '(y, x) => isb (at2 ans w y x) in
  let size_of := fun '(y, x) => count (fun '(y', x') => (at2 region w y' x' =? at2 region w y x)%Z) cs in
  Nat.eqb (length ans) (h * w) && forallb is01 ans &&
  forallb (fun i => Nat.eqb (count (fun '(y, x) => (at2 region w y x =? Z.of_nat i)%Z && has (y, x)) cs) 1)
          (seq 0 (n_regions region)) &&
  forallb (fun '(y, x) => negb (has (y, x)) || negb (existsb has (nbr4 h w y x))) cs &&
  forallb (fun '(y, x) => forallb (fun '(y', x') =>
     negb (has (y, x) && has (y', x') && (Nat.eqb y y' || Nat.eqb x x') && negb (Nat.eqb y y' && Nat.eqb x x')) ||
     negb (Nat.eqb (size_of (y, x)) (size_of (y', x')))) cs) cs.

Definition answers_putteria (pb : problem) : list answer :=
  all_answers (bool_doms (dim pb 0 * dim pb 1)).
