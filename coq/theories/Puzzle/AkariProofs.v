(* C11 Tier 1 - akari: for every board shape and every layout of white / black / numbered cells,
   the program posted by solve_akari (model Akari.v) admits exactly the light placements obeying
   Rules_akari. *)
From Coq Require Import ZArith List Bool Arith Lia.
From Cspuz Require Import Lib.PyErr Core.Expr Core.Program Puzzle.PuzzleBase Puzzle.SatAbs
     Puzzle.ModelBase Puzzle.ModelLemmas Puzzle.Rules_akari Puzzle.Akari Puzzle.AkariLemmas.
Import ListNotations.
Local Open Scope nat_scope.

Lemma dims2a h w (rest : list (list Z)) :
  dim ([Z.of_nat h; Z.of_nat w] :: rest) 0 = h /\ dim ([Z.of_nat h; Z.of_nat w] :: rest) 1 = w.
Proof. unfold dim, zn, getz, sec; simpl. rewrite !Nat2Z.id. split; reflexivity. Qed.

(* the rule of one cell, in the vocabulary of the model *)
Definition cell_rule (h w : nat) (grid : list Z) (light : nat * nat -> bool) (c : nat * nat) : bool :=
  let '(y, x) := c in
  if akari_white grid w c then
    (light c || existsb light (akari_seen h w grid y x)) &&
    (negb (light c) || negb (existsb light (akari_seen h w grid y x)))
  else
    negb (light c) &&
    (let n := at2 grid w y x in (n <? 0)%Z || (zcount light (nbr4 h w y x) =? n)%Z).

Lemma rules_akari_unfold h w grid ans :
  rules_akari [[Z.of_nat h; Z.of_nat w]; grid] ans =
  Nat.eqb (length ans) (h * w) && forallb is01 ans &&
  forallb (cell_rule h w grid (fun c => isb (at2 ans w (fst c) (snd c)))) (cells h w).
Proof.
  unfold rules_akari. destruct (dims2a h w [grid]) as [-> ->].
  change (sec [[Z.of_nat h; Z.of_nat w]; grid] 1) with grid.
  f_equal. apply forallb_ext_in. intros [y x] _. unfold cell_rule, akari_seen, dirs4, akari_white. cbn [fst snd flat_map].
  set (wh := fun '(y0, x0) => (at2 grid w y0 x0 <? -1)%Z).
  set (wh' := fun c : nat * nat => (at2 grid w (fst c) (snd c) <? -1)%Z).
  rewrite !(take_while_ext wh wh') by (intros [? ?]; reflexivity).
  set (li := fun '(y0, x0) => isb (at2 ans w y0 x0)).
  set (li' := fun c : nat * nat => isb (at2 ans w (fst c) (snd c))).
  assert (El : forall l, existsb li l = existsb li' l) by (intros l; apply existsb_ext_in; intros [? ?] _; reflexivity).
  assert (Ec : forall l, zcount li l = zcount li' l)
    by (intros l; unfold zcount; f_equal; apply count_ext_in; intros [? ?] _; reflexivity).
  rewrite !El, !Ec. reflexivity.
Qed.

Lemma znat_leb a b : (Z.of_nat a <=? Z.of_nat b)%Z = Nat.leb a b.
Proof. destruct (Nat.leb_spec a b); destruct (Z.leb_spec (Z.of_nat a) (Z.of_nat b)); try reflexivity; lia. Qed.

Section Core.
  Variables (h w : nat) (grid : list Z) (en : env).
  Let white := akari_white grid w.
  Let lit (c : nat * nat) : bool := eb en (cidx w c).

  (* ---- the posted constraints under the assignment *)
  Lemma holds_or_vars ids : holds no_graph en (BNode OR (map BVar ids)) = existsb (eb en) ids.
  Proof.
    unfold holds. cbn [eval]. rewrite map_map. unfold eval_bop.
    assert (Ha : all_some (map (fun x => eval no_graph en (BVar x)) ids) = Some (map (fun x => VB (eb en x)) ids)).
    { induction ids as [|a r IH]; simpl; [reflexivity|]. simpl in IH. rewrite IH. reflexivity. }
    rewrite Ha.
    assert (Hb : as_bools (map (fun x => VB (eb en x)) ids) = Some (map (eb en) ids)).
    { clear. induction ids as [|a r IH]; simpl; [reflexivity|]. rewrite IH. reflexivity. }
    rewrite Hb. simpl.
    assert (Hc : existsb (fun b : bool => b) (map (eb en) ids) = existsb (eb en) ids).
    { clear. induction ids as [|a r IH]; simpl; [reflexivity|]. rewrite IH. reflexivity. }
    rewrite Hc. destruct (existsb (eb en) ids); reflexivity.
  Qed.
  Lemma holds_not_var i : holds no_graph en (BNode NOT [BVar i]) = negb (eb en i).
  Proof. unfold holds. simpl. destruct (eb en i); reflexivity. Qed.
  Lemma holds_ct_le ids c :
    holds no_graph en (BNode LE [ct_vars ids; PyInt c]) = (Z.of_nat (count (eb en) ids) <=? c)%Z.
  Proof.
    unfold holds. cbn [eval map]. rewrite eval_ct_vars. simpl.
    destruct (Z.of_nat (count (eb en) ids) <=? c)%Z; reflexivity.
  Qed.

  Lemma run_constraints_holds prev line :
    forallb (holds no_graph en) (run_constraints grid w prev line) = runs_ok white lit prev line.
  Proof.
    revert prev. induction line as [|c r IH]; intros prev; [reflexivity|].
    cbn [run_constraints runs_ok]. rewrite forallb_app, IH. f_equal. fold white.
    destruct (white c && negb prev); [|reflexivity].
    cbn [forallb]. rewrite holds_ct_le, andb_true_r. unfold run1. rewrite count_map.
    change 1%Z with (Z.of_nat 1). rewrite znat_leb. reflexivity.
  Qed.

  (* ---- the two halves of the cell rules *)
  Definition partA (c : nat * nat) : bool :=
    let '(y, x) := c in
    if white c then lit c || existsb lit (akari_seen h w grid y x)
    else negb (lit c) && (let n := at2 grid w y x in (n <? 0)%Z || (zcount lit (nbr4 h w y x) =? n)%Z).
  Definition partB (c : nat * nat) : bool :=
    let '(y, x) := c in
    if white c then negb (lit c) || negb (existsb lit (akari_seen h w grid y x)) else true.

  Lemma seen_in y x c : In c (akari_seen h w grid y x) -> fst c < h /\ snd c < w.
  Proof.
    unfold akari_seen, dirs4. cbn [flat_map]. rewrite !in_app_iff.
    intros [H|[H|[H|[H|[]]]]]; apply take_while_incl in H; apply ray_in in H; exact H.
  Qed.

  (* program part C = rule part A *)
  Lemma cell_constraints_partA :
    forallb (fun c => forallb (holds no_graph en) (akari_cell h w grid c)) (cells h w) = forallb partA (cells h w).
  Proof.
    assert (Unlit : forall f, (forall c, In c (cells h w) -> f c = true -> white c = false -> lit c = false) ->
              forallb f (cells h w) = true ->
              forall y x, y < h -> x < w -> white (y, x) = false -> lit (y, x) = false).
    { intros f Hf H y x Hy Hx Wc. rewrite forallb_forall in H.
      assert (Hin : In (y, x) (cells h w)) by (apply cells_in; split; assumption).
      apply (Hf _ Hin (H _ Hin) Wc). }
    assert (Step : forall (U : forall y x, y < h -> x < w -> white (y, x) = false -> lit (y, x) = false) c,
              In c (cells h w) -> forallb (holds no_graph en) (akari_cell h w grid c) = partA c).
    { intros U [y x] Hc. apply cells_in in Hc. destruct Hc as [Hy Hx].
      unfold akari_cell, partA. fold white. destruct (white (y, x)) eqn:Wc.
      - cbn [forallb]. rewrite <- (map_map (cidx w) BVar), holds_or_vars, andb_true_r. cbn [map existsb].
        fold (lit (y, x)). f_equal. clear. induction (akari_seen h w grid y x) as [|a r IH]; simpl; [reflexivity|].
        rewrite IH. reflexivity.
      - cbn [forallb]. rewrite holds_not_var. fold (lit (y, x)). f_equal.
        destruct (Z.leb_spec 0 (at2 grid w y x)); destruct (Z.ltb_spec (at2 grid w y x) 0); try lia; simpl; [|reflexivity].
        rewrite holds_ct_eq, andb_true_r. f_equal. unfold zcount. f_equal.
        rewrite count_map, count_filter. apply count_ext_in. intros [y' x'] Hn.
        destruct (nbr4_in h w y x y' x' Hy Hx Hn) as [Hy' Hx']. fold white. fold (lit (y', x')).
        destruct (white (y', x')) eqn:Wn; [reflexivity|]. simpl. symmetry. apply U; assumption. }
    assert (F1 : forall c, In c (cells h w) -> forallb (holds no_graph en) (akari_cell h w grid c) = true ->
                           white c = false -> lit c = false).
    { intros [y x] _ Hf Wc. unfold akari_cell in Hf. fold white in Hf. rewrite Wc in Hf.
      cbn [forallb] in Hf. apply andb_true_iff in Hf. destruct Hf as [Hf _]. rewrite holds_not_var in Hf.
      apply negb_true_iff in Hf. exact Hf. }
    assert (F2 : forall c, In c (cells h w) -> partA c = true -> white c = false -> lit c = false).
    { intros [y x] _ Hf Wc. unfold partA in Hf. rewrite Wc in Hf.
      apply andb_true_iff in Hf. destruct Hf as [Hf _]. apply negb_true_iff in Hf. exact Hf. }
    apply eq_true_iff_eq. split; intros H.
    - pose proof (Unlit _ F1 H) as U.
      rewrite <- H. symmetry. apply forallb_ext_in. intros c Hc. apply Step; [exact U|exact Hc].
    - pose proof (Unlit _ F2 H) as U.
      rewrite <- H. apply forallb_ext_in. intros c Hc. apply Step; [exact U|exact Hc].
  Qed.

  (* run constraints (columns and rows) = rule part B *)
  Lemma runs_partB :
    forallb (fun x => runs_ok white lit false (column h x)) (seq 0 w) &&
    forallb (fun y => runs_ok white lit false (row w y)) (seq 0 h) = forallb partB (cells h w).
  Proof.
    apply eq_true_iff_eq. rewrite andb_true_iff, !forallb_forall. split.
    - intros [HV HH] [y x] Hc. apply cells_in in Hc. destruct Hc as [Hy Hx].
      unfold partB. destruct (white (y, x)) eqn:Wc; [|reflexivity].
      destruct (lit (y, x)) eqn:Lc; [|reflexivity]. simpl. apply negb_true_iff.
      specialize (HV x ltac:(apply in_seq; lia)). specialize (HH y ltac:(apply in_seq; lia)).
      rewrite runs_ok_no_sight in HV, HH. unfold column in HV. unfold row in HH.
      rewrite (column_split h w y x Hy Hx) in HV. rewrite (row_split h w y x Hy Hx) in HH.
      unfold akari_seen, dirs4. cbn [flat_map]. rewrite app_nil_r, !existsb_app. fold white.
      rewrite (no_sight_at white lit _ _ _ HV Wc Lc), (no_sight_at white lit _ _ _ HH Wc Lc).
      pose proof (no_sight_back white lit _ _ _ HV Wc Lc) as B1. rewrite rev_involutive in B1.
      pose proof (no_sight_back white lit _ _ _ HH Wc Lc) as B2. rewrite rev_involutive in B2.
      rewrite B1, B2. reflexivity.
    - intros HB. split.
      + intros x Hx. apply in_seq in Hx. rewrite runs_ok_no_sight. apply no_sight_intro.
        intros p b t E Wb Lb. unfold column in E. apply map_seq_decompose in E.
        destruct E as [Hy [_ [Eb Et]]]. set (y := length p) in *. subst b.
        specialize (HB (y, x) ltac:(apply cells_in; split; lia)). unfold partB in HB.
        rewrite Wb, Lb in HB. simpl in HB. apply negb_true_iff in HB.
        unfold akari_seen, dirs4 in HB. cbn [flat_map] in HB. rewrite !existsb_app in HB.
        apply orb_false_iff in HB. destruct HB as [_ HB]. apply orb_false_iff in HB. destruct HB as [HB _].
        rewrite (ray_down h w y x ltac:(lia) ltac:(lia)) in HB. fold white in HB. rewrite Et. exact HB.
      + intros y Hy. apply in_seq in Hy. rewrite runs_ok_no_sight. apply no_sight_intro.
        intros p b t E Wb Lb. unfold row in E. apply map_seq_decompose in E.
        destruct E as [Hx [_ [Eb Et]]]. set (x := length p) in *. subst b.
        specialize (HB (y, x) ltac:(apply cells_in; split; lia)). unfold partB in HB.
        rewrite Wb, Lb in HB. simpl in HB. apply negb_true_iff in HB.
        unfold akari_seen, dirs4 in HB. cbn [flat_map] in HB. rewrite !existsb_app in HB.
        apply orb_false_iff in HB. destruct HB as [_ HB]. apply orb_false_iff in HB. destruct HB as [_ HB].
        apply orb_false_iff in HB. destruct HB as [_ HB]. apply orb_false_iff in HB. destruct HB as [HB _].
        rewrite (ray_right h w y x ltac:(lia) ltac:(lia)) in HB. fold white in HB. rewrite Et. exact HB.
  Qed.

  Lemma akari_core :
    rules_akari [[Z.of_nat h; Z.of_nat w]; grid] (map (fun i => b2z (eb en i)) (seq 0 (h * w))) =
    satisfies no_graph en (bool_grid_state (h * w) (akari_constraints h w grid)).
  Proof.
    rewrite rules_akari_unfold.
    set (ans := map (fun i => b2z (eb en i)) (seq 0 (h * w))).
    replace (Nat.eqb (length ans) (h * w)) with true
      by (unfold ans; rewrite map_length, seq_length; symmetry; apply Nat.eqb_refl).
    replace (forallb is01 ans) with true
      by (unfold ans; rewrite forallb_map; symmetry; apply forallb_forall; intros; apply is01_b2z).
    simpl andb.
    assert (Hl : forall c, fst c < h -> snd c < w -> isb (at2 ans w (fst c) (snd c)) = lit c).
    { intros [y x] Hy Hx. simpl in *. unfold at2, ans, lit. rewrite getz_map_seq by (apply (cidx_lt h w y x); assumption).
      apply b2z_isb. }
    (* the rules, cell by cell, are partA && partB *)
    assert (Hcell : forall c, In c (cells h w) ->
              cell_rule h w grid (fun c => isb (at2 ans w (fst c) (snd c))) c = partA c && partB c).
    { intros [y x] Hc. apply cells_in in Hc. destruct Hc as [Hy Hx].
      unfold cell_rule, partA, partB. fold white.
      rewrite (Hl (y, x) Hy Hx).
      rewrite (existsb_ext_in _ lit (akari_seen h w grid y x))
        by (intros c Hc; destruct (seen_in y x c Hc); apply Hl; assumption).
      destruct (white (y, x)); [reflexivity|]. rewrite andb_true_r. f_equal. f_equal. f_equal.
      unfold zcount. f_equal. apply count_ext_in. intros [y' x'] Hn.
      destruct (nbr4_in h w y x y' x' Hy Hx Hn). apply (Hl (y', x')); assumption. }
    rewrite (forallb_ext_in _ _ _ Hcell), forallb_and.
    unfold satisfies, bool_grid_state, akari_constraints. cbn [Program.cons].
    rewrite !forallb_app, !forallb_flat_map.
    rewrite (forallb_ext_in _ (fun x => runs_ok white lit false (column h x)) (seq 0 w))
      by (intros; apply run_constraints_holds).
    rewrite (forallb_ext_in _ (fun y => runs_ok white lit false (row w y)) (seq 0 h))
      by (intros; apply run_constraints_holds).
    rewrite cell_constraints_partA, andb_assoc, runs_partB. apply andb_comm.
  Qed.
End Core.

Theorem akari_exact h w grid st ans :
  solve_akari_model [[Z.of_nat h; Z.of_nat w]; grid] = Ok st ->
  ((exists en, model_of no_graph en st /\ reads st en (seq 0 (h * w)) = ans)
   <-> rules_akari [[Z.of_nat h; Z.of_nat w]; grid] ans = true).
Proof.
  unfold solve_akari_model. destruct (dims2a h w [grid]) as [-> ->].
  change (sec [[Z.of_nat h; Z.of_nat w]; grid] 1) with grid.
  intros H. inversion H; subst st; clear H.
  apply bool_grid_exact.
  - intros en. apply akari_core.
  - intros a Ha. rewrite rules_akari_unfold in Ha.
    repeat (apply andb_true_iff in Ha; destruct Ha as [Ha ?]).
    apply Nat.eqb_eq in Ha. split; assumption.
Qed.
