(* C11 Tier 1, native-operator route - composition with property C05 when config.use_graph_primitive is on
   (graph._division_connected reads THAT flag; config.use_graph_division_primitive plays no part in it):
   for every label k < num_regions the helper declares an indicator array region_k (n fresh Boolean variables),
   posts region_k[v] <-> (division[v] == k), ONE node GRAPH_ACTIVE_VERTICES_CONNECTED over region_k and the
   graph, and count_true(region_k) >= 1 unless allow_empty_group; then division[r] == i for the listed roots.
   No rank / is_root / spanning_forest variables.  The meaning of the native node is its specification
   (Graph/Division.v::division_gsem, trusted); C05's closed theorem for this route is division_primitive, used
   here through division_exact_models (Props/C05.v), which holds for both values of the flag.
   Contents:
     1. the state after post_division .. true: R * n Boolean variables, none of them an answer key, constraints
        that mention declared variables only (cons_closed is kept);
     2. division_grid_compose_prim (labels existential, a Boolean answer grid declared after the call: nurikabe),
        division_keys_compose_prim (the labels are the answer keys: compass) - the native-route twins of
        DivisionCompose.division_grid_compose and CompassProofs.division_keys_compose, same final states
        (division_final_state / division_keys_state), same right-hand sides;
     3. post_division_prim_defined: the call returns a state (one label per vertex, roots None or in-range
        ints) - also on a graph without vertices, where the auxiliary route raises ValueError. *)
From Coq Require Import ZArith List Bool Arith Lia.
From Cspuz Require Import Lib.PyErr Core.Expr Core.Program Core.Build Graph.GraphModel Graph.ReachProofs
     Graph.Division Graph.DivisionEval Graph.DivisionProofs Graph.DivisionMain Graph.DivisionPrim
     Puzzle.PuzzleBase Puzzle.SatAbs Puzzle.ModelBase Puzzle.ModelLemmas Puzzle.CreekProofs Puzzle.HeyawakeLemmas
     Puzzle.DivisionCompose Puzzle.CompassProofs.
Import ListNotations.
Local Open Scope nat_scope.

(* ------------------------------------------------------------------------ *)
(* 1. the state after the call                                                *)

Lemma flat_edges_le k g : Forall (le_id k) (flat_edges g).
Proof.
  unfold flat_edges. induction (edges g) as [|[a b] r IH]; simpl; [constructor|].
  constructor; [apply le_id_int|]. constructor; [apply le_id_int|exact IH].
Qed.

Lemma region_links_le k region labels n c links :
  Forall (le_id k) region -> Forall (le_id k) labels ->
  region_links region labels n c = Ok links -> Forall (le_id k) links.
Proof.
  intros Hr Hl H. unfold region_links in H. eapply mapM_Forall; [|exact H].
  intros j b _ Hb. cbv beta in Hb.
  destruct (nth_res region j) as [r|] eqn:E1; simpl in Hb; [|discriminate].
  destruct (nth_res labels j) as [d|] eqn:E2; simpl in Hb; [|discriminate].
  inversion Hb; subst b. apply le_id_bnode. constructor; [exact (nth_res_Forall _ _ _ _ Hr E1)|].
  constructor; [|constructor]. apply le_id_py_eq; [exact (nth_res_Forall _ _ _ _ Hl E2)|apply le_id_int].
Qed.

Lemma avc_primitive_node_le k g acts node :
  Forall (le_id k) acts -> avc_primitive_node g acts = Ok node -> le_id k node.
Proof.
  intros Ha H. unfold avc_primitive_node in H. destruct (Nat.eqb (length acts) (nv g)); [|discriminate].
  inversion H; subst node. apply le_id_bnode. simpl.
  constructor; [apply le_id_int|]. constructor; [apply le_id_int|].
  apply Forall_app. split; [exact Ha|apply flat_edges_le].
Qed.

Lemma prim_roots_le k labels : Forall (le_id k) labels ->
  forall rs c cs, prim_roots labels c rs = Ok cs -> Forall (le_id k) cs.
Proof.
  intros Hlab. induction rs as [|a rs IH]; intros c cs H; simpl in H.
  - inversion H; constructor.
  - destruct a as [|z|l]; [eapply IH; exact H| |discriminate].
    destruct (py_nth labels z) as [d|] eqn:E1; simpl in H; [|discriminate].
    destruct (prim_roots labels (S c) rs) as [rest|] eqn:E3; simpl in H; [|discriminate].
    inversion H; subst. constructor.
    + apply le_id_py_eq; [exact (py_nth_Forall (le_id k) labels z d Hlab E1)|apply le_id_int].
    + eapply IH; exact E3.
Qed.

Lemma bvars_le k b n : b + n <= k -> Forall (le_id k) (map (fun i => BVar (b + i)) (seq 0 n)).
Proof.
  intros H. rewrite Forall_map. apply Forall_forall. intros i Hi. apply in_seq in Hi. unfold le_id; simpl. lia.
Qed.

Lemma prim_regions_shape s g aeg : forall ks st st',
  prim_regions st s g aeg ks = Ok st' ->
  vars st' = vars st ++ repeat DBool (length ks * nv g) /\
  keys st' = keys st ++ repeat false (length ks * nv g) /\
  exists cs, cons st' = cons st ++ cs /\
             forall k, next_id st + length ks * nv g <= k -> Forall (le_id k) (seq_data s) -> Forall (le_id k) cs.
Proof.
  induction ks as [|c r IH]; intros st st' H.
  - simpl in H. inversion H; subst st'. simpl. rewrite !app_nil_r. split; [reflexivity|]. split; [reflexivity|].
    exists []. rewrite app_nil_r. split; [reflexivity|]. intros; constructor.
  - simpl in H. unfold bool_array in H. rewrite DivisionEval.bool_vars_spec in H.
    destruct (region_links _ _ _ _) as [links|] eqn:EL; simpl in H; [|discriminate].
    destruct (avc_primitive_node _ _) as [node|] eqn:EN; simpl in H; [|discriminate].
    set (region := map (fun i => BVar (next_id st + i)) (seq 0 (nv g))) in *.
    assert (Hreg : forall k, next_id st + nv g <= k -> Forall (le_id k) region)
      by (intros k Hk; apply bvars_le; exact Hk).
    assert (Hmul : length (c :: r) * nv g = nv g + length r * nv g) by (simpl; lia).
    rewrite Hmul, !repeat_app.
    destruct aeg.
    + simpl in H. apply IH in H. destruct H as [Hv [Hk [cs [Hc Hle]]]].
      unfold ensure, add_decls in Hv, Hk, Hc; simpl in Hv, Hk, Hc. rewrite repeat_length in Hk.
      split; [rewrite Hv, <- app_assoc; reflexivity|]. split; [rewrite Hk, <- app_assoc; reflexivity|].
      exists (links ++ [node] ++ cs). split; [rewrite Hc, <- !app_assoc; reflexivity|].
      intros k Hk' Hlab. apply Forall_app. split; [|apply Forall_app; split].
      * eapply region_links_le; [apply Hreg; lia|exact Hlab|exact EL].
      * constructor; [|constructor]. eapply avc_primitive_node_le; [apply Hreg; lia|exact EN].
      * apply Hle; [|exact Hlab]. unfold ensure, add_decls, next_id in *; simpl. rewrite app_length, repeat_length. lia.
    + destruct (count_true region) as [ct|] eqn:EC; simpl in H; [|discriminate].
      apply IH in H. destruct H as [Hv [Hk [cs [Hc Hle]]]].
      unfold ensure, add_decls in Hv, Hk, Hc; simpl in Hv, Hk, Hc. rewrite repeat_length in Hk.
      split; [rewrite Hv, <- app_assoc; reflexivity|]. split; [rewrite Hk, <- app_assoc; reflexivity|].
      exists (links ++ [node] ++ [i_ge ct (PyInt 1)] ++ cs). split; [rewrite Hc, <- !app_assoc; reflexivity|].
      intros k Hk' Hlab. apply Forall_app. split; [|apply Forall_app; split; [|apply Forall_app; split]].
      * eapply region_links_le; [apply Hreg; lia|exact Hlab|exact EL].
      * constructor; [|constructor]. eapply avc_primitive_node_le; [apply Hreg; lia|exact EN].
      * constructor; [|constructor]. apply le_id_bnode. constructor; [|constructor; [apply le_id_int|constructor]].
        eapply count_true_le; [exact EC|apply Hreg; lia].
      * apply Hle; [|exact Hlab]. unfold ensure, add_decls, next_id in *; simpl. rewrite app_length, repeat_length. lia.
Qed.

(* the state after _division_connected on the native route *)
Lemma post_division_prim_shape st s R g roots aeg st' :
  post_division st s R g roots aeg true = Ok st' ->
  vars st' = vars st ++ repeat DBool (R * nv g) /\
  keys st' = keys st ++ repeat false (R * nv g) /\
  (Forall (le_id (next_id st)) (seq_data s) -> cons_closed st -> cons_closed st').
Proof.
  unfold post_division. intros H.
  destruct (prim_regions st s g aeg (seq 0 R)) as [st1|] eqn:E; simpl in H; [|discriminate].
  destruct (opt_roots (prim_roots (seq_data s) 0) roots) as [rs|] eqn:Er; simpl in H; [|discriminate].
  inversion H; subst st'. clear H.
  destruct (prim_regions_shape s g aeg (seq 0 R) st st1 E) as [Hv [Hk [cs [Hc Hle]]]].
  rewrite seq_length in *. unfold ensure; simpl.
  split; [exact Hv|]. split; [exact Hk|].
  intros Hlab Hcl. unfold cons_closed, next_id; simpl. rewrite Hv, Hc, app_length, repeat_length.
  set (k := length (vars st) + R * nv g).
  assert (Hlabk : Forall (le_id k) (seq_data s)).
  { eapply Forall_impl; [|exact Hlab]. intros a Ha. unfold le_id, next_id, k in *. lia. }
  apply Forall_app. split; [apply Forall_app; split|].
  - eapply Forall_impl; [|exact Hcl]. intros a Ha. unfold next_id, k in *. simpl in Ha. lia.
  - apply (Hle k); [unfold k, next_id; lia|exact Hlabk].
  - destruct roots as [l|]; simpl in Er; [|inversion Er; constructor].
    exact (prim_roots_le k (seq_data s) Hlabk l 0 rs Er).
Qed.

Lemma post_division_prim_next st s R g roots aeg st' :
  post_division st s R g roots aeg true = Ok st' -> next_id st' = next_id st + R * nv g.
Proof.
  intros H. destruct (post_division_prim_shape _ _ _ _ _ _ _ H) as [Hv _].
  unfold next_id. rewrite Hv, app_length, repeat_length. reflexivity.
Qed.

(* ------------------------------------------------------------------------ *)
(* 2. composition                                                            *)

Section ComposePrim.
  Variables (h w : nat) (hi : Z) (R : nat) (rs : list grid_root) (aeg : bool).
  Variables (st0 : state) (data : list expr) (st1 : state).
  Hypothesis Hdecl : int_array empty_state (h * w) 0 hi = Ok (st0, data).
  Hypothesis Hcall :
    division_connected st0 (D2 h w data) R None (Some (map grid_root_arg rs)) aeg true = Ok st1.

  Let n := h * w.
  Let g := grid_graph h w.
  Let base := next_id st1.
  Let roots := Some (map (grid_root_vertex w) rs).

  Lemma pcompose_decl :
    st0 = add_decls empty_state (repeat (DInt 0 hi) n) /\ data = map (fun i => IVar i 0 hi) (seq 0 n).
  Proof.
    clear Hcall. unfold int_array in Hdecl. destruct (hi <? 0)%Z; [discriminate|].
    rewrite DivisionEval.int_vars_spec in Hdecl. inversion Hdecl. split; reflexivity.
  Qed.

  Lemma pcompose_next0 : next_id st0 = n.
  Proof. destruct pcompose_decl as [-> _]. unfold next_id, add_decls; simpl. apply repeat_length. Qed.

  Lemma pcompose_post : post_division st0 (SArr data) R g roots aeg true = Ok st1.
  Proof. unfold roots, g. rewrite <- division_grid_roots. exact Hcall. Qed.

  (* the answer grid of nurikabe starts here: n labels, then R indicator arrays of n variables each *)
  Lemma pcompose_base : base = n + R * n.
  Proof. unfold base. rewrite (post_division_prim_next _ _ _ _ _ _ _ pcompose_post), pcompose_next0. reflexivity. Qed.

  Lemma pcompose_vars : vars st1 = repeat (DInt 0 hi) n ++ repeat DBool (R * n).
  Proof.
    destruct (post_division_prim_shape _ _ _ _ _ _ _ pcompose_post) as [Hv _]. rewrite Hv.
    destruct pcompose_decl as [-> _]. reflexivity.
  Qed.

  Lemma pcompose_keys1 : keys st1 = repeat false (n + R * n).
  Proof.
    destruct (post_division_prim_shape _ _ _ _ _ _ _ pcompose_post) as [_ [Hk _]]. rewrite Hk.
    destruct pcompose_decl as [-> _]. unfold add_decls; simpl. rewrite repeat_length, <- repeat_app. reflexivity.
  Qed.

  Lemma pcompose_data_len : length data = n.
  Proof. destruct pcompose_decl as [_ ->]. rewrite map_length, seq_length. reflexivity. Qed.

  Lemma pcompose_labels_ok : labels_ok division_gsem (next_id st0) data.
  Proof.
    rewrite pcompose_next0. destruct pcompose_decl as [_ ->]. apply labels_ok_vars.
    intros i Hi. apply in_seq in Hi. lia.
  Qed.

  Lemma pcompose_label_of en v : v < n -> label_of division_gsem en data v = ei en v.
  Proof.
    intros Hv. destruct pcompose_decl as [_ ->]. unfold label_of.
    rewrite (nth_indep _ (PyInt 0) (IVar 0 0 hi)) by (rewrite map_length, seq_length; exact Hv).
    rewrite (map_nth (fun i => IVar i 0 hi)), seq_nth by exact Hv. reflexivity.
  Qed.

  Lemma pcompose_model0 en : (forall v, v < n -> (0 <= ei en v <= hi)%Z) -> model_of division_gsem en st0.
  Proof.
    intros Hb. destruct pcompose_decl as [-> _]. split; [|reflexivity].
    unfold in_bounds, add_decls; simpl. apply in_bounds_repeat_int. intros v Hv. simpl. apply Hb. exact Hv.
  Qed.

  Lemma pcompose_closed0 : cons_closed st0.
  Proof. destruct pcompose_decl as [-> _]. constructor. Qed.

  Lemma pcompose_closed1 : cons_closed st1.
  Proof.
    destruct (post_division_prim_shape _ _ _ _ _ _ _ pcompose_post) as [_ [_ Hcl]].
    apply Hcl; [|exact pcompose_closed0].
    rewrite pcompose_next0. simpl. destruct pcompose_decl as [_ ->]. rewrite Forall_map. apply Forall_forall.
    intros i Hi. apply in_seq in Hi. unfold le_id; simpl. lia.
  Qed.

  Lemma pcompose_bounds en : model_of division_gsem en st1 -> forall v, v < n -> (0 <= ei en v <= hi)%Z.
  Proof.
    intros [Hb _]. unfold in_bounds in Hb. rewrite pcompose_vars in Hb.
    rewrite in_bounds_from_app in Hb. apply andb_true_iff in Hb. destruct Hb as [Hb _].
    intros v Hv. apply (proj1 (in_bounds_repeat_int en 0%Z hi n 0) Hb v Hv).
  Qed.

  (* ---- a Boolean answer grid declared after the call; the labels are existential (nurikabe) *)
  Section Grid.
    Variable extra : list expr.
    Variable local : (nat -> Z) -> (nat -> bool) -> bool.
    Hypothesis Hloc : forall en,
      forallb (holds division_gsem en) extra = local (ei en) (fun v => eb en (next_id st1 + v)).
    Hypothesis Hlocal_ext : forall d d' b b',
      (forall v, v < h * w -> d v = d' v) -> (forall v, v < h * w -> b v = b' v) -> local d b = local d' b'.

    Lemma pcompose_keys : key_ids (division_final_state h w st1 extra) = seq base n.
    Proof.
      unfold division_final_state. rewrite pcompose_keys1, key_ids_suffix, pcompose_base. reflexivity.
    Qed.

    Theorem division_grid_compose_prim ans :
      (exists en, model_of division_gsem en (division_final_state h w st1 extra) /\
                  reads (division_final_state h w st1 extra) en (key_ids (division_final_state h w st1 extra)) = ans)
      <-> (length ans = n /\ forallb is01 ans = true /\
           exists d, (forall v, v < n -> (0 <= d v <= hi)%Z) /\
                     spec_division g R d roots aeg /\
                     local d (fun v => isb (getz ans v)) = true).
    Proof.
      rewrite pcompose_keys.
      pose proof (division_exact_models st0 (SArr data) R g roots aeg true st1) as EX.
      assert (Hwf : wf_graph g = true) by apply grid_wf.
      assert (Hlen : length (seq_data (SArr data)) = nv g) by (simpl; apply pcompose_data_len).
      split.
      - intros [en [Hm Hr]]. unfold base in Hr. rewrite compose_reads in Hr. subst ans.
        apply compose_split in Hm. destruct Hm as [Hm1 Hex].
        split; [rewrite map_length, seq_length; reflexivity|].
        split; [rewrite forallb_map; apply forallb_forall; intros; apply is01_b2z|].
        pose proof (pcompose_bounds en Hm1) as Hb.
        exists (ei en). split; [exact Hb|]. split.
        + apply (spec_division_ext_below g R (label_of division_gsem en data));
            [exact Hwf|intros v Hv; apply pcompose_label_of; exact Hv|].
          apply (EX en Hwf Hlen pcompose_labels_ok pcompose_closed0 (pcompose_model0 en Hb) pcompose_post).
          exists en. split; [apply agree_below_refl|exact Hm1].
        + rewrite Hloc in Hex. rewrite <- Hex. apply Hlocal_ext; [reflexivity|].
          intros v Hv. rewrite getz_map_seq by exact Hv. apply b2z_isb.
      - intros [Hl [H01 [d [Hb [Hspec Hlc]]]]].
        set (en0 := {| eb := fun _ => false; ei := d |}).
        assert (Hm0 : model_of division_gsem en0 st0) by (apply pcompose_model0; exact Hb).
        assert (Hspec0 : spec_division g R (label_of division_gsem en0 (seq_data (SArr data))) roots aeg).
        { apply (spec_division_ext_below g R d); [exact Hwf| |exact Hspec].
          intros v Hv. simpl. rewrite pcompose_label_of by exact Hv. reflexivity. }
        apply (EX en0 Hwf Hlen pcompose_labels_ok pcompose_closed0 Hm0 pcompose_post) in Hspec0.
        destruct Hspec0 as [en1 [Hag Hm1]]. rewrite pcompose_next0 in Hag.
        set (en2 := {| eb := fun i => if Nat.ltb i base then eb en1 i else isb (getz ans (i - base)); ei := ei en1 |}).
        assert (Hag2 : agree_below base en1 en2).
        { intros i Hi. unfold en2; simpl. destruct (Nat.ltb_spec i base); [|lia]. split; reflexivity. }
        assert (Hm2 : model_of division_gsem en2 st1).
        { destruct Hm1 as [Hb1 Hs1]. split.
          - unfold in_bounds in *. rewrite <- (in_bounds_from_agree en1 en2); [exact Hb1|]. intros; reflexivity.
          - unfold satisfies in *. rewrite forallb_forall in *. intros c Hc. specialize (Hs1 c Hc).
            pose proof pcompose_closed1 as Hcl. unfold cons_closed in Hcl. rewrite Forall_forall in Hcl.
            unfold holds in *. rewrite <- (eval_agree division_gsem base en1 en2 c Hag2 (Hcl c Hc)). exact Hs1. }
        assert (Hw2 : forall v, eb en2 (base + v) = isb (getz ans v)).
        { intros v. unfold en2; simpl. destruct (Nat.ltb_spec (base + v) base); [lia|]. f_equal. f_equal. lia. }
        exists en2. split.
        + apply compose_split. split; [exact Hm2|]. rewrite Hloc. rewrite <- Hlc. apply Hlocal_ext.
          * intros v Hv. simpl. destruct (Hag v Hv) as [_ E]. simpl in E. symmetry. exact E.
          * intros v Hv. apply Hw2.
        + unfold base. rewrite compose_reads. fold base.
          transitivity (map (getz ans) (seq 0 (length ans))); [|apply map_getz_seq]. rewrite Hl. apply map_ext_in.
          intros v Hv. apply in_seq in Hv. rewrite Hw2. apply isb_is01.
          rewrite forallb_forall in H01. apply H01. unfold getz. apply nth_In. lia.
    Qed.
  End Grid.

  (* ---- the labels themselves are the answer keys, flagged after the call (compass) *)
  Section Keys.
    Variable extra : list expr.
    Variable local : (nat -> Z) -> bool.
    Hypothesis Hloc : forall en, forallb (holds division_gsem en) extra = local (ei en).
    Hypothesis Hlocal_ext : forall d d', (forall v, v < h * w -> d v = d' v) -> local d = local d'.

    Lemma pdk_keys : key_ids (division_keys_state h w st1 extra) = seq 0 n.
    Proof.
      unfold division_keys_state. rewrite pcompose_keys1. fold n. rewrite cp_skipn_repeat. apply key_ids_prefix.
    Qed.

    Lemma pdk_reads en : reads (division_keys_state h w st1 extra) en (seq 0 n) = map (ei en) (seq 0 n).
    Proof.
      unfold reads. apply map_ext_in. intros v Hv. apply in_seq in Hv.
      unfold read_var, division_keys_state; simpl. rewrite pcompose_vars.
      rewrite nth_error_app1 by (rewrite repeat_length; lia).
      rewrite (nth_error_nth' _ (DInt 0 hi)) by (rewrite repeat_length; lia). rewrite nth_repeat. reflexivity.
    Qed.

    Lemma pdk_split en :
      model_of division_gsem en (division_keys_state h w st1 extra) <->
      (model_of division_gsem en st1 /\ forallb (holds division_gsem en) extra = true).
    Proof.
      unfold model_of, in_bounds, satisfies, division_keys_state; simpl.
      rewrite forallb_app, andb_true_iff. tauto.
    Qed.

    Theorem division_keys_compose_prim ans :
      (exists en, model_of division_gsem en (division_keys_state h w st1 extra) /\
                  reads (division_keys_state h w st1 extra) en (key_ids (division_keys_state h w st1 extra)) = ans)
      <-> (length ans = n /\ (forall v, v < n -> (0 <= getz ans v <= hi)%Z) /\
           spec_division g R (getz ans) roots aeg /\ local (getz ans) = true).
    Proof.
      rewrite pdk_keys.
      pose proof (division_exact_models st0 (SArr data) R g roots aeg true st1) as EX.
      assert (Hwf : wf_graph g = true) by apply grid_wf.
      assert (Hlen : length (seq_data (SArr data)) = nv g) by (simpl; apply pcompose_data_len).
      split.
      - intros [en [Hm Hr]]. rewrite pdk_reads in Hr. subst ans.
        apply pdk_split in Hm. destruct Hm as [Hm1 Hex].
        pose proof (pcompose_bounds en Hm1) as Hb.
        split; [rewrite map_length, seq_length; reflexivity|].
        split; [intros v Hv; rewrite getz_map_seq by exact Hv; apply Hb; exact Hv|].
        split.
        + apply (spec_division_ext_below g R (label_of division_gsem en data)); [exact Hwf| |].
          * intros v Hv. rewrite (pcompose_label_of en v Hv). symmetry. apply getz_map_seq. exact Hv.
          * apply (EX en Hwf Hlen pcompose_labels_ok pcompose_closed0 (pcompose_model0 en Hb) pcompose_post).
            exists en. split; [apply agree_below_refl|exact Hm1].
        + rewrite Hloc in Hex. rewrite <- Hex. apply Hlocal_ext.
          intros v Hv. apply getz_map_seq. exact Hv.
      - intros [Hl [Hb [Hspec Hlc]]].
        set (en0 := {| eb := fun _ => false; ei := getz ans |}).
        assert (Hm0 : model_of division_gsem en0 st0) by (apply pcompose_model0; exact Hb).
        assert (Hspec0 : spec_division g R (label_of division_gsem en0 (seq_data (SArr data))) roots aeg).
        { apply (spec_division_ext_below g R (getz ans)); [exact Hwf| |exact Hspec].
          intros v Hv. simpl. rewrite (pcompose_label_of en0 v Hv). reflexivity. }
        apply (EX en0 Hwf Hlen pcompose_labels_ok pcompose_closed0 Hm0 pcompose_post) in Hspec0.
        destruct Hspec0 as [en1 [Hag Hm1]]. rewrite pcompose_next0 in Hag.
        exists en1. split.
        + apply pdk_split. split; [exact Hm1|]. rewrite Hloc, <- Hlc. apply Hlocal_ext.
          intros v Hv. destruct (Hag v Hv) as [_ E]. simpl in E. symmetry. exact E.
        + rewrite pdk_reads. transitivity (map (getz ans) (seq 0 (length ans))); [|apply map_getz_seq].
          rewrite Hl. apply map_ext_in. intros v Hv. apply in_seq in Hv.
          destruct (Hag v ltac:(fold n; lia)) as [_ E]. simpl in E. symmetry. exact E.
    Qed.
  End Keys.
End ComposePrim.

(* ------------------------------------------------------------------------ *)
(* 3. the call succeeds: one label per vertex, roots None or in-range ints (no condition on the number of      *)
(*    vertices: the auxiliary route raises ValueError on a graph without vertices, this one does not)           *)

Lemma prim_roots_defined labels rs :
  Forall (root_in_range (length labels)) rs -> forall k, exists cs, prim_roots labels k rs = Ok cs.
Proof.
  induction 1 as [|a rs Ha _ IH]; intros k; simpl; [eexists; reflexivity|].
  destruct a as [|z|t]; [apply IH| |destruct Ha].
  simpl in Ha. destruct (py_nth_in_range labels z Ha) as [d ->]. simpl.
  destruct (IH (S k)) as [rest ->]. simpl. eexists; reflexivity.
Qed.

Lemma prim_regions_defined s g aeg : length (seq_data s) = nv g ->
  forall ks st, exists st', prim_regions st s g aeg ks = Ok st'.
Proof.
  intros Hlen. induction ks as [|k r IH]; intros st; simpl; [eexists; reflexivity|].
  unfold bool_array. rewrite DivisionEval.bool_vars_spec.
  set (region := map (fun i => BVar (next_id st + i)) (seq 0 (nv g))).
  destruct (mapM_ok_all (fun j => let* r0 := nth_res region j in
                                  let* d := nth_res (seq_data s) j in
                                  Ok (BNode IFF [r0; py_eq d (PyInt (Z.of_nat k))])) (fun _ _ => True) (seq 0 (nv g)))
    as [links [Hlinks _]].
  { intros j Hj. apply in_seq in Hj. unfold region.
    rewrite (nth_res_map_seq (fun i => BVar (next_id st + i)) (nv g) j) by lia. simpl.
    rewrite (nth_res_nth (seq_data s) j (PyInt 0)) by lia. simpl. eexists. split; [reflexivity|exact I]. }
  unfold region_links. rewrite Hlinks. simpl.
  unfold avc_primitive_node. unfold region at 1. rewrite map_length, seq_length, Nat.eqb_refl. simpl.
  destruct aeg; [apply IH|].
  destruct (count_true_map division_gsem {| eb := fun _ => false; ei := fun _ => 0%Z |}
              (fun v => BVar (next_id st + v)) (fun _ => false) (seq 0 (nv g))) as [ct [Hct _]].
  { intros v _. split; reflexivity. }
  fold region in Hct. rewrite Hct. simpl. apply IH.
Qed.

Theorem post_division_prim_defined st s R g rs aeg :
  length (seq_data s) = nv g -> Forall (root_in_range (nv g)) rs ->
  exists st', post_division st s R g (Some rs) aeg true = Ok st'.
Proof.
  intros Hlen Hrs. unfold post_division.
  destruct (prim_regions_defined s g aeg Hlen (seq 0 R) st) as [st1 ->]. simpl.
  rewrite <- Hlen in Hrs. destruct (prim_roots_defined (seq_data s) rs Hrs 0) as [cs ->]. simpl.
  eexists; reflexivity.
Qed.
