(* C11 Tier 1 - model of cspuz/puzzle/doppelblock.py::solve_doppelblock, every n:
       answer = solver.int_array((n, n), 0, n - 2); solver.add_answer_key(answer)     # ValueError for n < 2
       def occurrence_constraint(cells):
           ensure(count_true(cells == 0) == 2)
           for i in range(1, n - 1): ensure(count_true(cells == i) == 1)
       def sequence_constraint(cells, v):
           s = 0
           for i in range(n): s += (fold_or(cells[:i] == 0) & fold_or(cells[i + 1:] == 0)).cond(cells[i], 0)
           return s == v
       for i: occurrence_constraint(row i); occurrence_constraint(column i)
              if clue_row[i] >= 0: ensure(sequence_constraint(row i, clue_row[i])); the same for the column
   fold_or of an empty slice is the BOOL_CONSTANT false node.  A clue list shorter than n raises IndexError.
   The problem uses the encoding of Rules_doppelblock.v ([[n]; row clues; column clues]).  No proofs here. *)
From Coq Require Import ZArith List Bool Arith.
From Cspuz Require Import Lib.PyErr Core.Expr Core.Program Puzzle.PuzzleBase Puzzle.ModelBase Puzzle.Building.
Import ListNotations.
Local Open Scope nat_scope.

Definition dvar (n k : nat) : expr := IVar k 0 (Z.of_nat n - 2).
Definition cell_is (n : nat) (v : Z) (k : nat) : expr := BNode EQ [dvar n k; PyInt v].

(* count_true(cells == v) *)
Definition ct_is (n : nat) (ids : list nat) (v : Z) : expr :=
  match ids with
  | [] => INode INT_CONSTANT [PyInt 0]
  | _ => INode ADD (map (fun k => INode IF [cell_is n v k; PyInt 1; PyInt 0]) ids)
  end.
Definition occurrence (n : nat) (ids : list nat) : list expr :=
  BNode EQ [ct_is n ids 0; PyInt 2] ::
  map (fun i => BNode EQ [ct_is n ids (Z.of_nat i); PyInt 1]) (seq 1 (n - 2)).

(* fold_or(slice == 0) *)
Definition any_zero (n : nat) (ids : list nat) : expr :=
  match ids with
  | [] => BNode BOOL_CONSTANT [PyBool false]
  | _ => BNode OR (map (cell_is n 0) ids)
  end.
Fixpoint seq_go (n : nat) (before : list nat) (acc : expr) (rest : list nat) : expr :=
  match rest with
  | [] => acc
  | v :: r => seq_go n (before ++ [v])
                     (INode ADD [acc; INode IF [BNode AND [any_zero n before; any_zero n r]; dvar n v; PyInt 0]]) r
  end.
Definition sequence (n : nat) (ids : list nat) (c : Z) : list expr :=
  if (0 <=? c)%Z then [BNode EQ [seq_go n [] (PyInt 0) ids; PyInt c]] else [].

Definition doppelblock_constraints (n : nat) (rows cols : list Z) : list expr :=
  flat_map (fun i => occurrence n (row_ids n i) ++ occurrence n (col_ids n i) ++
                     sequence n (row_ids n i) (getz rows i) ++ sequence n (col_ids n i) (getz cols i)) (seq 0 n).

Definition solve_doppelblock_model (pb : problem) : res state :=
  let n := dim pb 0 in
  if Nat.ltb n 2 then Err ValueError
  else if Nat.ltb (length (sec pb 1)) n || Nat.ltb (length (sec pb 2)) n then Err IndexError
  else Ok (int_grid_state (n * n) 0 (Z.of_nat n - 2) (doppelblock_constraints n (sec pb 1) (sec pb 2))).
