"""C11 plug-in: simpleloop (solve_simpleloop(height, width, blocked, pivot))."""
import c11lib as L

NAME = "simpleloop"
MODULE = "cspuz.puzzle.simpleloop"
FUNC = "solve_simpleloop"
LOOP = True


def call(mod, pb):
    return mod.solve_simpleloop(pb["h"], pb["w"], pb["grid"], tuple(pb["pivot"]))


def ncand(pb):
    return 2 ** L.n_loop_edges(pb['h'], pb['w'])


def encode(pb):
    return [[pb["h"], pb["w"], pb["pivot"][0], pb["pivot"][1]], L.flat(pb["grid"])]


def families(tier, rng):
    th = tier == "thorough"
    for (h, w) in [(1, 1), (1, 2), (2, 1), (2, 2), (1, 3), (2, 3), (3, 2)] + ([(3, 3)] if th else []):
        for g in L.all_grids(h, w, [0, 1]):
            for py in range(h):
                for px in range(w):
                    if th or h * w <= 4 or rng.random() < 0.3:
                        yield {"h": h, "w": w, "grid": g, "pivot": [py, px]}
    for (h, w) in [(3, 3), (2, 4), (4, 2), (2, 5)] + ([(3, 4), (4, 3)] if th else []):
        for _ in range(150 if th else 25):
            yield {"h": h, "w": w, "grid": L.random_grid(rng, h, w, [0, 1], 0.8),
                   "pivot": [rng.randrange(h), rng.randrange(w)]}


def tier2(tier, rng):
    th = tier == "thorough"
    for (h, w) in [(1, 1), (1, 2), (2, 2)]:
        for g in L.all_grids(h, w, [0, 1]):
            yield {"h": h, "w": w, "grid": g, "pivot": [0, 0]}
            if th:
                yield {"h": h, "w": w, "grid": g, "pivot": [h - 1, w - 1]}
