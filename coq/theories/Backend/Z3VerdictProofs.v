(* C01, part 4: with a solver that may answer "unknown", find_answer through the
   z3 backend never reports a wrong verdict: whenever it returns (no exception)
   the verdict is right and the sol values are a model; when the solver always
   answers on bounded queries it always returns.  Proved by replacing the
   unknown answers with the brute-force oracle's and reusing find_answer_correct. *)
From Coq Require Import ZArith List Bool Lia.
From Cspuz Require Import Lib.PyErr Core.Expr Core.Program Backend.Z3Call Gen.Z3Table Backend.Z3
  Backend.Z3Check Gen.Z3SolveTable Backend.Z3Verdict Backend.Z3Oracle Backend.Z3Proofs
  Backend.Z3ConstsProofs Backend.Z3SolveProofs Backend.Z3OracleProofs.
Import ListNotations.
Open Scope Z_scope.

(* what is assumed of the solver: a sat answer comes with a model of the asserted
   terms that assigns every integer constant occurring in them; an unsat answer
   on a bounded query is right; nothing about unknown *)
Definition verdict_sound_on (o3 : list zterm -> verdict) : Prop :=
  forall ts,
    match o3 ts with
    | VSat m => forallb (ztrue (complete m)) ts = true /\
                (forall i, existsb (int_occurs i) ts = true -> zi m i <> None)
    | VUnsat => boundedb ts = true -> forall en, forallb (ztrue en) ts = false
    | VUnknown => True
    end.

Definition answers_bounded (o3 : list zterm -> verdict) : Prop :=
  forall ts, boundedb ts = true -> o3 ts <> VUnknown.

(* the verdict test of Z3Backend.solve, as read from the source on this run, returns
   False on unsat and on nothing else *)
Lemma solve_table_exact : forall c,
  solve_returns_false_on c = match c with CUnsat => true | CSat | CUnknown => false end.
Proof. intros c; destruct c; reflexivity. Qed.

Definition collapse (o3 : list zterm -> verdict) (ts : list zterm) : option zmodel :=
  match o3 ts with VSat m => Some m | VUnsat => None | VUnknown => bf_oracle ts end.

Lemma collapse_sound o3 : verdict_sound_on o3 -> oracle_sound_on (collapse o3).
Proof.
  intros S ts m E. unfold collapse in E. specialize (S ts).
  destruct (o3 ts) as [m'| |].
  - injection E as <-. exact S.
  - discriminate.
  - exact (bf_oracle_sound ts m E).
Qed.

Lemma collapse_complete o3 : verdict_sound_on o3 -> oracle_complete_on (collapse o3).
Proof.
  intros S ts B E en. unfold collapse in E. specialize (S ts).
  destruct (o3 ts) as [m'| |].
  - discriminate.
  - exact (S B en).
  - exact (bf_oracle_complete ts B E en).
Qed.

(* a returned result is the result of the two-valued run *)
Lemma find3_collapse o3 st r : find_answer3 o3 st = Ok r -> find_answer (collapse o3) st = Ok r.
Proof.
  unfold find_answer3, find_answer, z3_solve3, z3_solve.
  destruct (z3_add_list (vars st) [] (cons st)) as [b|e]; simpl; [|intros H; discriminate].
  destruct (mapM top_cast b) as [ts|e]; simpl; [|intros H; discriminate].
  unfold collapse. rewrite solve_table_exact.
  destruct (o3 (bound_terms (vars st) ++ ts)) as [m| |]; simpl; intros H; try exact H; discriminate.
Qed.

Lemma find3_eq o3 st : answers_bounded o3 -> wf_state st ->
  find_answer3 o3 st = find_answer (collapse o3) st.
Proof.
  intros A W.
  destruct (conv_constraints (vars st) (cons st) W) as [rs [ts [E1 [E2 _]]]].
  pose proof (queries_are_bounded_lemma (vars st) (cons st) rs ts W E1 E2) as B.
  unfold find_answer3, find_answer, z3_add_list, z3_solve3, z3_solve.
  rewrite E1; simpl. rewrite E2; simpl.
  unfold collapse. rewrite solve_table_exact.
  specialize (A _ B).
  destruct (o3 (bound_terms (vars st) ++ ts)) as [m| |]; simpl; try reflexivity.
  contradiction A; reflexivity.
Qed.

Theorem find_answer3_never_wrong o3 : verdict_sound_on o3 ->
  forall st, wf_state st -> forall r, find_answer3 o3 st = Ok r ->
    (r <> None <-> satisfiable no_graph st) /\
    (forall s, r = Some s -> model_of no_graph (env_of_sol s) st /\ sol_typed (vars st) s).
Proof.
  intros S st W r E. apply find3_collapse in E.
  destruct (find_answer_correct (collapse o3) (collapse_sound o3 S) (collapse_complete o3 S) st W)
    as [r' [E' H]].
  rewrite E in E'; injection E' as <-. exact H.
Qed.

Theorem find_answer3_decides o3 : verdict_sound_on o3 -> answers_bounded o3 ->
  forall st, wf_state st ->
  exists r, find_answer3 o3 st = Ok r /\
    (r <> None <-> satisfiable no_graph st) /\
    (forall s, r = Some s -> model_of no_graph (env_of_sol s) st /\ sol_typed (vars st) s).
Proof.
  intros S A st W. rewrite (find3_eq o3 st A W).
  exact (find_answer_correct (collapse o3) (collapse_sound o3 S) (collapse_complete o3 S) st W).
Qed.

(* the hypotheses are satisfiable: the brute-force oracle, lifted, meets both; a
   solver that gives up on every query meets the soundness hypothesis *)
Lemma lift_bf_sound : verdict_sound_on (lift_oracle bf_oracle).
Proof.
  intros ts. unfold lift_oracle. destruct (bf_oracle ts) as [m|] eqn:E.
  - exact (bf_oracle_sound ts m E).
  - intros B en. exact (bf_oracle_complete ts B E en).
Qed.

Lemma lift_bf_answers : answers_bounded (lift_oracle bf_oracle).
Proof. intros ts _. unfold lift_oracle. destruct (bf_oracle ts); discriminate. Qed.

Lemma gives_up_sound : verdict_sound_on gives_up.
Proof. intros ts; exact I. Qed.
