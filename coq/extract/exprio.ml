(* S-expression I/O for the extracted expr / state types (shared by drivers).
   tokens:  T F N  #<int>  b<id>  i<id>:<lo>:<hi>  ( B|I OPNAME args... )  *)
open Model
open Zutil

let op_names = [
  (VAR, "VAR"); (BOOL_CONSTANT, "BOOL_CONSTANT"); (INT_CONSTANT, "INT_CONSTANT"); (NEG, "NEG");
  (ADD, "ADD"); (SUB, "SUB"); (EQ, "EQ"); (NE, "NE"); (LE, "LE"); (LT, "LT"); (GE, "GE"); (GT, "GT");
  (NOT, "NOT"); (AND, "AND"); (OR, "OR"); (IFF, "IFF"); (XOR, "XOR"); (IMP, "IMP"); (IF, "IF");
  (ALLDIFF, "ALLDIFF"); (G_AVC, "GRAPH_ACTIVE_VERTICES_CONNECTED"); (G_DIV, "GRAPH_DIVISION") ]

let op_of_name s = fst (List.find (fun (_, n) -> n = s) op_names)
let name_of_op o = List.assoc o op_names

let rec show_expr (e : expr) : string =
  match e with
  | PyBool true -> "T" | PyBool false -> "F" | PyNone -> "N"
  | PyInt z -> "#" ^ string_of_int (int_of_z z)
  | BVar i -> "b" ^ string_of_int (int_of_nat i)
  | IVar (i, lo, hi) -> Printf.sprintf "i%d:%d:%d" (int_of_nat i) (int_of_z lo) (int_of_z hi)
  | BNode (o, args) -> "( B " ^ name_of_op o ^ String.concat "" (List.map (fun a -> " " ^ show_expr a) args) ^ " )"
  | INode (o, args) -> "( I " ^ name_of_op o ^ String.concat "" (List.map (fun a -> " " ^ show_expr a) args) ^ " )"

(* parse one expr from a token list, return (expr, rest) *)
let rec parse_expr (toks : string list) : expr * string list =
  match toks with
  | "T" :: r -> (PyBool true, r)
  | "F" :: r -> (PyBool false, r)
  | "N" :: r -> (PyNone, r)
  | "(" :: k :: o :: r ->
      let (args, r') = parse_args r in
      let o = op_of_name o in
      ((if k = "B" then BNode (o, args) else INode (o, args)), r')
  | t :: r when String.length t > 1 && t.[0] = '#' ->
      (PyInt (z_of_int (int_of_string (String.sub t 1 (String.length t - 1)))), r)
  | t :: r when String.length t > 1 && t.[0] = 'b' ->
      (BVar (nat_of_int (int_of_string (String.sub t 1 (String.length t - 1)))), r)
  | t :: r when String.length t > 1 && t.[0] = 'i' ->
      (match String.split_on_char ':' (String.sub t 1 (String.length t - 1)) with
       | [i; lo; hi] -> (IVar (nat_of_int (int_of_string i), z_of_int (int_of_string lo), z_of_int (int_of_string hi)), r)
       | _ -> failwith "ivar")
  | _ -> failwith "parse_expr"
and parse_args toks =
  match toks with
  | ")" :: r -> ([], r)
  | _ -> let (e, r) = parse_expr toks in let (es, r') = parse_args r in (e :: es, r')

(* a list of exprs delimited by [ ... ] *)
let parse_expr_list toks =
  match toks with
  | "[" :: r ->
      let rec go acc r = match r with
        | "]" :: r' -> (List.rev acc, r')
        | _ -> let (e, r') = parse_expr r in go (e :: acc) r' in
      go [] r
  | _ -> failwith "expr list"

let show_expr_list l = "[" ^ String.concat "" (List.map (fun e -> " " ^ show_expr e) l) ^ " ]"

let show_decl = function DBool -> "b" | DInt (lo, hi) -> Printf.sprintf "i:%d:%d" (int_of_z lo) (int_of_z hi)
let parse_decl t =
  if t = "b" then DBool else
  match String.split_on_char ':' t with
  | ["i"; lo; hi] -> DInt (z_of_int (int_of_string lo), z_of_int (int_of_string hi))
  | _ -> failwith "decl"

(* state:  V [ decls ] K [ 0/1 ... ] C [ exprs ]  *)
let parse_state toks =
  let take_list toks = match toks with
    | "[" :: r -> let rec go acc r = match r with
        | "]" :: r' -> (List.rev acc, r') | t :: r' -> go (t :: acc) r' | [] -> failwith "list" in go [] r
    | _ -> failwith "list" in
  match toks with
  | "V" :: r ->
      let (ds, r) = take_list r in
      (match r with
       | "K" :: r -> let (ks, r) = take_list r in
           (match r with
            | "C" :: r -> let (cs, r) = parse_expr_list r in
                ({ vars = List.map parse_decl ds; keys = List.map (fun k -> k = "1") ks; cons = cs }, r)
            | _ -> failwith "state C")
       | _ -> failwith "state K")
  | _ -> failwith "state V"

let show_state st =
  "V [" ^ String.concat "" (List.map (fun d -> " " ^ show_decl d) st.vars) ^ " ] K [" ^
  String.concat "" (List.map (fun k -> if k then " 1" else " 0") st.keys) ^ " ] C " ^ show_expr_list st.cons
