(* C11 Tier 1 - model of cspuz/puzzle/slalom.py::solve_slalom(height, width, origin, is_black, gates), the
   reference_sol_loop=None form, all board shapes:
       loop = BoolGridFrame(solver, height - 1, width - 1); loop_dir = BoolGridFrame(solver, height - 1, width - 1)
       solver.add_answer_key(loop.all_edges())
       graph.active_edges_single_cycle(solver, loop)                     # the returned array is not used
       gate_ord = solver.int_array((height, width), 0, len(gates)); passed = solver.bool_array((height, width))
       for y, x, d, l, n in gates:
           gate_cells = [(y, x + i) for i in range(l)] if d == 0 else [(y + i, x) for i in range(l)]   # d == 1
           for y2, x2 in gate_cells: gate_id[y2][x2] = n
           ensure(count_true([passed[c] for c in gate_cells]) == 1)
       ensure(passed[origin])
       for y, x (row-major):   neighbors = up, down, left, right (those on the board)
           ensure(count_true([loop[e] & (loop_dir[e] != (nb < (y, x))) for nb in neighbors]) == passed[y, x].cond(1, 0))
           ensure(count_true([loop[e] & (loop_dir[e] == (nb < (y, x))) for nb in neighbors]) == passed[y, x].cond(1, 0))
           if is_black[y][x]: ensure(~passed[y, x]); continue
           if (y, x) == origin: continue
           if gate_id[y][x] is None:
               for nb: ensure((loop[e] & (loop_dir[e] != (nb < (y, x)))).then(gate_ord[nb] == gate_ord[y, x]))
           else:
               for nb: ensure((loop[e] & (loop_dir[e] != (nb < (y, x)))).then(gate_ord[nb] == gate_ord[y, x] - 1))
               if gate_id[y][x] >= 1: ensure(passed[y, x].then(gate_ord[y, x] == gate_id[y][x]))
       for c0 < c1 (row-major pairs) both with gate_id not None:
           ensure((passed[c0] & passed[c1]).then(gate_ord[c0] != gate_ord[c1]))
   where e = the segment between (y, x) and nb, and nb < (y, x) is a Python bool (True for the upper and the left
   neighbour).  The frame's points are the cells of the board (frame of height - 1 x width - 1 cells).  The call into
   cspuz.graph is the model of property C06 (Graph/Cycle.v::active_edges_single_cycle on the frame `loop`,
   auxiliary-variable route), on the state with both frames declared and the first one the answer key.

   The problem uses the encoding of Rules_slalom.v ([[h; w]; [oy; ox]; black; gates], 5 integers y; x; d; l; n per
   gate; black: non-zero = black).  gate_id[y][x] is the number n of the LAST listed gate through the cell.
   Malformed inputs: height <= 0 or width <= 0 is rejected with ValueError (Array2D.__init__ for the frame of
   height - 1 = -1 / width - 1 = -1 rows / columns, and whenever exactly one of height, width is <= 0; both <= -1
   is outside the scope of the model and of the plug-in's problems); a gate cell, or the origin, beyond the last
   row / column and a black list shorter than height * width are rejected with IndexError (the Python raises
   IndexError at gate_id[y2][x2] / passed[origin] / is_black[y][x]; the plug-in's malformed problems only drop
   trailing cells / rows of is_black).  Outside the documented alphabet, never produced by the plug-in and rejected
   by the model with ValueError: a gate direction other than 0 / 1 (the Python fails with UnboundLocalError or
   silently reuses the previous gate's cells) and negative gate / origin coordinates (Python's negative indices
   wrap around).  A negative gate length is an empty gate, as in Python (range(l) is empty).  No proofs here. *)
From Coq Require Import ZArith List Bool Arith.
From Cspuz Require Import Lib.PyErr Core.Expr Core.Program Graph.GraphModel Graph.Cycle
     Puzzle.PuzzleBase Puzzle.ModelBase Puzzle.CycleFrameBase Puzzle.Rules_slalom.
Import ListNotations.
Local Open Scope nat_scope.

(* both frames declared, the first one is the answer key *)
Definition sl_state0 (fh fw : nat) : state :=
  {| vars := repeat DBool (frame_n fh fw + frame_n fh fw);
     keys := repeat true (frame_n fh fw) ++ repeat false (frame_n fh fw);
     cons := [] |}.
Definition sl_cycle (fh fw : nat) : res (state * passed_result) :=
  active_edges_single_cycle (sl_state0 fh fw) (AFrame fh fw (frame_hor fh fw) (frame_ver fh fw)) None false.

(* constraints.count_true over BoolExprs *)
Definition ct_exprs (es : list expr) : expr :=
  match es with
  | [] => INode INT_CONSTANT [PyInt 0]
  | _ => INode ADD (map (fun e => INode IF [e; PyInt 1; PyInt 0]) es)
  end.

(* the directions (0 up, 1 down, 2 left, 3 right) of the neighbours of (y, x), in the order of `neighbors` *)
Definition sl_dirs (h w y x : nat) : list nat :=
  (if Nat.ltb 0 y then [0] else []) ++ (if Nat.ltb (S y) h then [1] else []) ++
  (if Nat.ltb 0 x then [2] else []) ++ (if Nat.ltb (S x) w then [3] else []).
(* id of loop[y + y2, x + x2] for the neighbour (y2, x2) in direction d *)
Definition sl_edge (fh fw y x d : nat) : nat :=
  match d with
  | 0 => frame_vid fh fw (y - 1) x
  | 1 => frame_vid fh fw y x
  | 2 => frame_hid fh fw y (x - 1)
  | _ => frame_hid fh fw y x
  end.
(* (y2, x2) < (y, x) *)
Definition sl_flag (d : nat) : bool := match d with 0 | 2 => true | _ => false end.
(* loop[e] & (loop_dir[e] != flag): the segment is travelled towards (y, x);  & (loop_dir[e] == flag): away from it *)
Definition sl_in (fh fw y x d : nat) : expr :=
  let e := sl_edge fh fw y x d in
  BNode AND [BVar e; BNode XOR [BVar (frame_n fh fw + e); PyBool (sl_flag d)]].
Definition sl_out (fh fw y x d : nat) : expr :=
  let e := sl_edge fh fw y x d in
  BNode AND [BVar e; BNode IFF [BVar (frame_n fh fw + e); PyBool (sl_flag d)]].

(* gate_id[y][x]: None, or the number of the last listed gate through the cell *)
Definition sl_gate_id (gs : list Z) (c : nat * nat) : option Z :=
  fold_left (fun acc k => if cell_in c (gate_cells gs k) then Some (gate_field gs k 4) else acc)
            (seq 0 (n_gates gs)) None.

Section Cons.
  Variables (h w : nat) (G : nat) (base : nat).          (* base = id of gate_ord[0, 0] *)
  Let fh := h - 1.
  Let fw := w - 1.
  Definition sl_ord (c : nat * nat) : expr := IVar (base + cidx w c) 0 (Z.of_nat G).
  Definition sl_pid (c : nat * nat) : nat := base + h * w + cidx w c.

  Definition sl_gate_count (gs : list Z) (k : nat) : expr :=
    BNode EQ [ct_vars (map sl_pid (gate_cells gs k)); PyInt 1].

  Definition sl_cell (oy ox : nat) (black gs : list Z) (c : nat * nat) : list expr :=
    let '(y, x) := c in
    let ds := sl_dirs h w y x in
    let pc := INode IF [BVar (sl_pid c); PyInt 1; PyInt 0] in
    [BNode EQ [ct_exprs (map (sl_in fh fw y x) ds); pc];
     BNode EQ [ct_exprs (map (sl_out fh fw y x) ds); pc]] ++
    (if negb (at2 black w y x =? 0)%Z then [BNode NOT [BVar (sl_pid c)]]
     else if Nat.eqb y oy && Nat.eqb x ox then []
     else match sl_gate_id gs c with
          | None =>
              map (fun d => BNode IMP [sl_in fh fw y x d; BNode EQ [sl_ord (step_dir y x d); sl_ord c]]) ds
          | Some n =>
              map (fun d => BNode IMP [sl_in fh fw y x d;
                                       BNode EQ [sl_ord (step_dir y x d); INode SUB [sl_ord c; PyInt 1]]]) ds ++
              (if (1 <=? n)%Z then [BNode IMP [BVar (sl_pid c); BNode EQ [sl_ord c; PyInt n]]] else [])
          end).

  Definition sl_is_gate (gs : list Z) (c : nat * nat) : bool :=
    match sl_gate_id gs c with Some _ => true | None => false end.

  Definition sl_aux (gs : list Z) : list expr :=
    flat_map (fun c0 =>
      flat_map (fun c1 =>
        if Nat.ltb (cidx w c0) (cidx w c1) && sl_is_gate gs c0 && sl_is_gate gs c1
        then [BNode IMP [BNode AND [BVar (sl_pid c0); BVar (sl_pid c1)]; BNode NE [sl_ord c0; sl_ord c1]]]
        else []) (cells h w)) (cells h w).

  Definition sl_constraints (oy ox : nat) (black gs : list Z) : list expr :=
    map (sl_gate_count gs) (seq 0 G) ++
    [BVar (sl_pid (oy, ox))] ++
    flat_map (sl_cell oy ox black gs) (cells h w) ++
    sl_aux gs.
End Cons.

(* inputs the model rejects with ValueError although the Python does something else (never produced by the plug-in) *)
Definition sl_outside (pb : problem) : bool :=
  let gs := sec pb 3 in
  ((getz (sec pb 1) 0 <? 0) || (getz (sec pb 1) 1 <? 0))%Z ||
  existsb (fun k => ((gate_field gs k 0 <? 0) || (gate_field gs k 1 <? 0) ||
                     negb ((gate_field gs k 2 =? 0) || (gate_field gs k 2 =? 1)))%Z) (seq 0 (n_gates gs)).

Definition solve_slalom_model (pb : problem) : res state :=
  let h := dim pb 0 in let w := dim pb 1 in
  let oy := zn (getz (sec pb 1) 0) in let ox := zn (getz (sec pb 1) 1) in
  let black := sec pb 2 in let gs := sec pb 3 in
  let G := n_gates gs in
  if ((getz (sec pb 0) 0 <? 1) || (getz (sec pb 0) 1 <? 1))%Z then Err ValueError
  else if sl_outside pb then Err ValueError
  else
  match sl_cycle (h - 1) (w - 1) with
  | Ok (st1, _) =>
      let base := next_id st1 in
      match int_array st1 (h * w) 0 (Z.of_nat G) with
      | Ok (st2, _) =>
          let '(st3, _) := bool_array st2 (h * w) in
          if existsb (fun k => existsb (fun c => negb (Nat.ltb (fst c) h && Nat.ltb (snd c) w)) (gate_cells gs k))
                     (seq 0 G)
             || negb (Nat.ltb oy h && Nat.ltb ox w)
             || Nat.ltb (length black) (h * w)
          then Err IndexError
          else Ok (ensure st3 (sl_constraints h w G base oy ox black gs))
      | Err e => Err e
      end
  | Err e => Err e
  end.
