(* C11: the program of solve_masyu is well formed on every board; composition with C02 (solve_reports). *)
From Coq Require Import ZArith List Bool Arith Lia.
From Cspuz Require Import Lib.PyErr Core.Expr Core.Program Graph.GraphModel Graph.Cycle
     Backend.Z3 Backend.Z3Oracle Backend.Z3SolveProofs Backend.SolveLoop Backend.SolveZ3Proofs
     Puzzle.PuzzleBase Puzzle.ModelBase Puzzle.ModelLemmas Puzzle.SatAbs Puzzle.SolveCompose Puzzle.WfLemmas
     Puzzle.CycleFrameBase Puzzle.Rules_masyu Puzzle.Masyu Puzzle.MasyuProofs.
Import ListNotations.
Local Open Scope nat_scope.

Section M.
  (* h, w: dimensions of the frame (height - 1, width - 1) *)
  Variables h w : nat.
  Let vs := repeat DBool (frame_n h w).

  Lemma ok_masyu_and a b : ok vs true a = true -> ok vs true b = true -> ok vs true (py_and a b) = true.
  Proof.
    intros Ha Hb.
    assert (G : ok vs true (BNode AND [a; b]) = true) by (autorewrite with okdb; rewrite Ha, Hb; reflexivity).
    destruct a; try exact G; destruct b; try exact G; apply ok_pybool.
  Qed.
  Lemma ok_masyu_or a b : ok vs true a = true -> ok vs true b = true -> ok vs true (py_or a b) = true.
  Proof.
    intros Ha Hb.
    assert (G : ok vs true (BNode OR [a; b]) = true) by (autorewrite with okdb; rewrite Ha, Hb; reflexivity).
    destruct a; try exact G; destruct b; try exact G; apply ok_pybool.
  Qed.

  (* get_edge is only called on positions with one even and one odd coordinate (the segments) *)
  Lemma ok_masyu_edge (y x : Z) neg : ((y + x) mod 2 = 1)%Z ->
    ok vs true (masyu_get_edge (S h) (S w) y x neg) = true.
  Proof.
    intros Hp. unfold masyu_get_edge.
    destruct (_ && _)%bool eqn:E; [|reflexivity].
    apply andb_true_iff in E. destruct E as [E Ex2]. apply andb_true_iff in E. destruct E as [E Ex1].
    apply andb_true_iff in E. destruct E as [Ey1 Ey2].
    apply Z.leb_le in Ey1, Ey2, Ex1, Ex2.
    replace (S h - 1) with h by lia. replace (S w - 1) with w by lia.
    assert (Hr : ok vs true (if Z.even y then BVar (frame_hid h w (Z.to_nat (y / 2)) (Z.to_nat (x / 2)))
                             else BVar (frame_vid h w (Z.to_nat (y / 2)) (Z.to_nat (x / 2)))) = true).
    { destruct (Z.even y) eqn:Ev; rewrite Zeven_mod in Ev.
      - apply Zeq_bool_eq in Ev. apply ok_bvar_repeat. unfold frame_hid, frame_n.
        assert (Ha : (Z.to_nat (y / 2) <= h)) by (apply Nat2Z.inj_le; rewrite Z2Nat.id by (Z.div_mod_to_equations; lia); Z.div_mod_to_equations; lia).
        assert (Hb : (Z.to_nat (x / 2) < w)) by (apply Nat2Z.inj_lt; rewrite Z2Nat.id by (Z.div_mod_to_equations; lia); Z.div_mod_to_equations; lia).
        nia.
      - apply Zeq_bool_neq in Ev. apply ok_bvar_repeat. unfold frame_vid, frame_n.
        assert (Ha : (Z.to_nat (y / 2) < h)) by (apply Nat2Z.inj_lt; rewrite Z2Nat.id by (Z.div_mod_to_equations; lia); Z.div_mod_to_equations; lia).
        assert (Hb : (Z.to_nat (x / 2) <= w)) by (apply Nat2Z.inj_le; rewrite Z2Nat.id by (Z.div_mod_to_equations; lia); Z.div_mod_to_equations; lia).
        nia. }
    destruct neg; [rewrite ok_not|]; exact Hr.
  Qed.

  Lemma ok_masyu_white y x : ok vs true (masyu_white (S h) (S w) y x) = true.
  Proof.
    unfold masyu_white. cbv zeta.
    repeat first [apply ok_masyu_or | apply ok_masyu_and];
      apply ok_masyu_edge; Z.div_mod_to_equations; lia.
  Qed.
  Lemma ok_masyu_black y x : ok vs true (masyu_black (S h) (S w) y x) = true.
  Proof.
    unfold masyu_black. cbv zeta.
    repeat first [apply ok_masyu_or | apply ok_masyu_and];
      apply ok_masyu_edge; Z.div_mod_to_equations; lia.
  Qed.

  Lemma masyu_constraints_ok circ : forallb (ok vs true) (masyu_constraints (S h) (S w) circ) = true.
  Proof.
    unfold masyu_constraints. rewrite forallb_flat_map. apply forallb_cells. intros y x Hy Hx.
    unfold masyu_clue. cbv zeta.
    destruct (_ =? 1)%Z; [cbn [forallb]; rewrite ok_masyu_white; reflexivity|].
    destruct (_ =? 2)%Z; [cbn [forallb]; rewrite ok_masyu_black; reflexivity|reflexivity].
  Qed.
End M.

Lemma masyu_model_shape pb st : solve_masyu_model pb = Ok st ->
  (wf_state st /\ wf_keys st) /\ exists r, keys st = repeat true (frame_n (dim pb 0 - 1) (dim pb 1 - 1)) ++ r.
Proof.
  unfold solve_masyu_model. cbv zeta.
  assert (D0 : dim pb 0 = Z.to_nat (getz (sec pb 0) 0)) by reflexivity.
  assert (D1 : dim pb 1 = Z.to_nat (getz (sec pb 0) 1)) by reflexivity.
  destruct (_ || _)%bool eqn:Eg; [discriminate|].
  apply orb_false_iff in Eg. destruct Eg as [G0 G1]. apply Z.ltb_ge in G0, G1.
  destruct (dim pb 0) as [|h] eqn:Eh; [lia|]. destruct (dim pb 1) as [|w] eqn:Ew; [lia|].
  replace (S h - 1) with h by lia. replace (S w - 1) with w by lia.
  destruct (frame_cycle h w) as [[st1 res]|] eqn:E; [|discriminate].
  destruct (Nat.ltb _ _); [discriminate|].
  intros H. inversion H; subst st; clear H.
  destruct (frame_cycle_wf _ _ _ _ E) as [WK [[more Hv] [[r Hk] _]]].
  split.
  - eapply wf_ensure_prefix; [exact WK|exact Hv|]. apply masyu_constraints_ok.
  - exists r. exact Hk.
Qed.

Lemma masyu_model_wf pb st : solve_masyu_model pb = Ok st -> wf_state st /\ wf_keys st.
Proof. intros H. exact (proj1 (masyu_model_shape pb st H)). Qed.

Theorem masyu_solve_reports : forall oracle, oracle_sound_on oracle -> oracle_complete_on oracle ->
  forall h w circles st,
  solve_masyu_model [[Z.of_nat h; Z.of_nat w]; circles] = Ok st ->
  solve_reports oracle st (seq 0 (n_lattice_edges h w)) (rules_masyu [[Z.of_nat h; Z.of_nat w]; circles]).
Proof.
  intros oracle Os Oc h w circles st Hst.
  apply (solve_reports_intro oracle no_graph); try assumption.
  - exact (masyu_model_wf _ _ Hst).
  - destruct (masyu_model_shape _ _ Hst) as [_ [r Hk]]. rewrite dim2_0, dim2_1 in Hk. rewrite Hk.
    assert (En : n_lattice_edges h w = frame_n (h - 1) (w - 1)).
    { unfold solve_masyu_model in Hst. cbv zeta in Hst.
      change (getz (sec [[Z.of_nat h; Z.of_nat w]; circles] 0) 0) with (Z.of_nat h) in Hst.
      change (getz (sec [[Z.of_nat h; Z.of_nat w]; circles] 0) 1) with (Z.of_nat w) in Hst.
      destruct (_ || _)%bool eqn:Eg; [discriminate|].
      apply orb_false_iff in Eg. destruct Eg as [G0 G1]. apply Z.ltb_ge in G0, G1.
      destruct h as [|h]; [lia|]. destruct w as [|w]; [lia|].
      rewrite masyu_n_lattice_frame. replace (S h - 1) with h by lia. replace (S w - 1) with w by lia. reflexivity. }
    rewrite En. intros i. apply keys_prefix.
  - intros ans. exact (masyu_exact h w circles st ans Hst).
Qed.
