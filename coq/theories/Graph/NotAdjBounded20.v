(* C08, thorough tier only (not in the closure of Props/C08.v): the bounded
   equivalence up to h * w <= 20 (about six minutes of vm_compute). *)
From Coq Require Import List Bool Arith.
From Cspuz Require Import Graph.GraphModel Graph.NotAdj Graph.NotAdjBounded Graph.NotAdjBoundedIndep.
Local Open Scope nat_scope.

Lemma diag_equiv_check_20 : diag_equiv_check_indep 20 = true.
Proof. vm_compute. reflexivity. Qed.

Theorem diag_equiv_20 : forall h w act, 2 <= h -> 2 <= w -> h * w <= 20 ->
  independent (grid_graph h w) act ->
  (spec_diag h w act <-> connected (grid_graph h w) (inactive act)).
Proof. exact (diag_equiv_from_check_indep 20 diag_equiv_check_20). Qed.
Print Assumptions diag_equiv_20.
