(* C11: the program of solve_fivecells is well formed on every board; composition with C02 (solve_reports). *)
From Coq Require Import ZArith List Bool Arith Lia.
From Cspuz Require Import Lib.PyErr Core.Expr Core.Program Core.Build Graph.GraphModel
     Graph.VarGroups Graph.VarGroupsEval Graph.VarGroupsMain Graph.VarGroupsSized
     Backend.Z3 Backend.Z3Oracle Backend.Z3SolveProofs Backend.SolveLoop Backend.SolveZ3Proofs
     Puzzle.PuzzleBase Puzzle.ModelBase Puzzle.ModelLemmas Puzzle.SatAbs Puzzle.SolveCompose Puzzle.WfLemmas
     Puzzle.VarGroupsWf Puzzle.DivisionCompose Puzzle.GroupsCompose
     Puzzle.Rules_fivecells Puzzle.Fivecells Puzzle.FivecellsProofs.
Import ListNotations.
Local Open Scope nat_scope.

Section F.
  Variables (h w : nat) (grid : list Z).
  Let g := fc_graph h w grid.
  Let gid := main_gid empty_state g.
  Variable vs : list vdecl.
  Hypothesis Hgid : forallb (ok vs false) gid = true.

  Lemma ok_fc_gid u : u < h * w -> fc_usable grid u = true -> ok vs false (at_ gid (fc_vid grid u)) = true.
  Proof.
    intros Hu Uu. apply at_ok; [exact Hgid|].
    unfold gid, main_gid, ivars. rewrite map_length, seq_length. change (nv g) with (fc_vid grid (h * w)).
    apply vid_lt; assumption.
  Qed.

  Lemma fc_clues_ok : forallb (ok vs true) (fc_clues h w grid gid) = true.
  Proof.
    unfold fc_clues. rewrite VarGroupsMain.forallb_flat_map. apply forallb_cells. intros y x Hy Hx.
    unfold fc_clue. cbv zeta. destruct (0 <=? getz grid (y * w + x))%Z eqn:E; [|reflexivity].
    assert (Uc : fc_usable grid (y * w + x) = true).
    { unfold fc_usable. apply Z.leb_le in E. apply Z.leb_le. lia. }
    assert (Lc : y * w + x < h * w) by nia.
    cbn [forallb]. unfold i_eq. rewrite ok_eq, ok_pyint, !andb_true_r. apply ok_count_true_nodes.
    rewrite forallb_map'. apply forallb_In. intros u Hu. apply (nbrs_spec4 h w grid y x u) in Hu.
    unfold i_ne. rewrite ok_ne, (ok_fc_gid _ Lc Uc). cbn [andb].
    destruct Hu as [[H0 [Uu ->]]|[[H0 [Uu ->]]|[[H0 [Uu ->]]|[H0 [Uu ->]]]]]; apply ok_fc_gid; try exact Uu; nia.
  Qed.
End F.

Lemma fivecells_model_wf pb st : solve_fivecells_model pb = Ok st -> wf_state st /\ wf_keys st.
Proof.
  unfold solve_fivecells_model. cbv zeta. set (h := dim pb 0). set (w := dim pb 1). set (grid := sec pb 1).
  destruct (Nat.ltb _ _); [discriminate|].
  set (g := fc_graph h w grid).
  destruct (division_connected_variable_groups empty_state (Some g) None (GScalar (PyInt 5))) as [[st1 r]|] eqn:E;
    [|discriminate].
  pose proof (sg_wf h w grid) as Hwf. fold g in Hwf.
  pose proof (fc_clues_ok h w grid) as Hcl. fold g in Hcl.
  clearbody g.
  destruct (vargroups_graph_wf _ _ _ _ _ E Hwf) as [[W1 K1] [V1 [Ky1 Er]]];
    [reflexivity|reflexivity|reflexivity|].
  subst r. intros H. inversion H; subst st; clear H.
  change (vg_more g (to_gs1_graph (GScalar (PyInt 5)))) with (sized_decls g) in V1, Ky1.
  cbn [vars keys empty_state app] in V1, Ky1.
  set (m := length (edges g)) in *.
  assert (Hgid : forallb (ok (vars st1) false) (main_gid empty_state g) = true).
  { rewrite V1. unfold main_gid, main_decls. apply ok_ivars_nth. intros i Hi.
    change (next_id empty_state) with 0. nth_block. }
  split.
  - unfold wf_state. cbn [vars Program.cons ensure]. apply wf_cons_app; [apply wf_cons_app|].
    + apply wf_cons_more. exact W1.
    + apply forallb_ok_more. apply Hcl. exact Hgid.
    + apply (c_borders_ok _ g Hwf).
      * apply forallb_ok_more. exact Hgid.
      * unfold main_gid, ivars. rewrite map_length, seq_length. reflexivity.
      * change (map (fun i => BVar (next_id (ensure st1 (fc_clues h w grid (main_gid empty_state g))) + i)) (seq 0 m))
          with (bvars (length (vars st1)) m).
        rewrite <- (app_nil_r (repeat DBool m)). apply ok_bvars.
      * rewrite map_length, seq_length. reflexivity.
  - unfold wf_keys in *. cbn [vars keys ensure]. rewrite !app_length, !repeat_length, K1. reflexivity.
Qed.

Theorem fivecells_solve_reports : forall oracle, oracle_sound_on oracle -> oracle_complete_on oracle ->
  forall h w grid st,
  solve_fivecells_model [[Z.of_nat h; Z.of_nat w]; grid] = Ok st ->
  solve_reports oracle st (key_ids st) (rules_fivecells [[Z.of_nat h; Z.of_nat w]; grid]).
Proof.
  intros oracle Os Oc h w grid st Hst.
  apply (solve_reports_intro oracle no_graph); try assumption.
  - exact (fivecells_model_wf _ _ Hst).
  - intros i. apply key_ids_keys.
  - intros ans. exact (fivecells_exact no_graph h w grid st ans Hst).
Qed.
