(* C19 tie T: the functions translated from cspuz/generator/deterministic_random.py on every run (Gen/PyIntRandom.v:
   XorShift.__init__, XorShift.next, the prelude and the acceptance test of randint) are the model's (Generator/XorShift.v),
   for all integers; randint as a whole is the rejection loop over the translated pieces. *)
From Coq Require Import ZArith Bool List Lia.
From Cspuz Require Import Lib.PyErr Generator.XorShift Gen.PyIntRandom.
Open Scope Z_scope.

Definition fields (s : xs) : Z * Z * Z * Z := (sx s, sy s, sz s, sw s).

Lemma xorshift_init_py_eq : forall seed, snd (xorshift_init_py seed) = fields (seed_state seed).
Proof. intros seed. reflexivity. Qed.

Lemma xorshift_next_py_eq : forall s,
  xorshift_next_py (sx s) (sy s) (sz s) (sw s) = (fst (next s), fields (snd (next s))).
Proof. intros [x y z w]. reflexivity. Qed.

Lemma randint_prelude_py_eq : forall a b,
  randint_prelude_py a b =
  if b <? a then Err ValueError
  else if M32 <? b - a + 1 then Err ValueError
  else Ok (b - a + 1, M32 - M32 mod (b - a + 1)).
Proof. intros a b. reflexivity. Qed.

Lemma randint_accept_py_eq : forall a w limit x,
  randint_accept_py a w limit x = if x <? limit then Some (a + x mod w) else None.
Proof. intros. reflexivity. Qed.

(* the rejection loop `while True: x = _rng.next(); if <accept>: return <value>` over an arbitrary acceptance function *)
Fixpoint draw_loop (fuel : nat) (acc : Z -> option Z) (s : xs) : out Z :=
  match fuel with
  | O => Diverge
  | S f => let '(x, s') := next s in
           match acc x with
           | Some v => Done v s'
           | None => draw_loop f acc s'
           end
  end.

Lemma draw_loop_below : forall fuel a w limit s,
  draw_loop fuel (randint_accept_py a w limit) s =
  match draw_below fuel limit s with
  | Done x s' => Done (a + x mod w) s'
  | Raise e => Raise e
  | Diverge => Diverge
  end.
Proof.
  induction fuel as [|f IH]; intros a w limit s; cbn [draw_loop draw_below]; [reflexivity|].
  destruct (next s) as [x s'] eqn:En.
  rewrite randint_accept_py_eq. destruct (x <? limit); [reflexivity|]. apply IH.
Qed.

(* the model's randint is exactly: translated prelude, then the loop over the translated acceptance test *)
Theorem randint_from_source : forall a b s,
  randint a b s =
  match randint_prelude_py a b with
  | Err e => Raise e
  | Ok (w, limit) => draw_loop RANDINT_FUEL (randint_accept_py a w limit) s
  end.
Proof.
  intros a b s. rewrite randint_prelude_py_eq. unfold randint.
  destruct (b <? a); [reflexivity|].
  destruct (M32 <? b - a + 1); [reflexivity|].
  rewrite draw_loop_below. reflexivity.
Qed.
