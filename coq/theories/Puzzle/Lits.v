(* C11 Tier 1 - model of cspuz/puzzle/lits.py::solve_lits(height, width, blocks), all board shapes and room layouts:
       is_black = solver.bool_array((height, width)); solver.add_answer_key(is_black)
       graph.active_vertices_connected(solver, is_black)
       ensure(~(is_black[1:, 1:] & is_black[1:, :-1] & is_black[:-1, 1:] & is_black[:-1, :-1]))
       num_straight = solver.int_array(len(blocks), 0, 2); has_t = solver.bool_array(len(blocks))
       for every block i:
           ensure(count_true(is_black[block]) == 4)
           for every cell (y, x) of the block, nsb = its orthogonal neighbours (up, down, left, right) in the block:
               ensure(is_black[y, x].then(fold_or(is_black[nsb])))
               one operand is_black[y, x] & is_black[y2, x2] of "adjacent_pairs" for the lower and the right neighbour in nsb
               if the cells above and below (left and right) are in the block: fold_and of the three cells;
                   the fold_or of these (if any) is an operand of "is_straight"
               if len(nsb) >= 3: count_true(is_black[nsb]) >= 3 is an operand of "is_t"
           ensure(count_true(adjacent_pairs) == 3)
           ensure(num_straight[i] == count_true(is_straight)); ensure(has_t[i] == fold_or(is_t))
       for every pair of orthogonally adjacent cells in different blocks i, j (the lower neighbour, then the right one):
           ensure((is_black[c] & is_black[c']).then((num_straight[i] != num_straight[j]) | (has_t[i] != has_t[j])))
   The call into cspuz.graph is the model of property C04 (Graph/Avc.v::post_avc on the grid graph, auxiliary-variable
   encoding); on a board without cells it raises ValueError.  num_straight / has_t are declared after the variables of
   the connectivity encoding: ids 3*h*w .. 3*h*w + 2*k - 1 for k blocks.
   The problem uses the encoding of Rules_lits.v ([[h; w]; region ids]); block i is the list of the cells with region id i
   in row-major order, the number of blocks is the largest id + 1 (an id in between that no cell carries is an empty
   block: the Python accepts it and posts 0 == 4).  Outside the documented input (every cell belongs to exactly one
   block): a negative region id (a cell of no block - the Python would index num_straight[-1]) or a region list with
   fewer than h*w entries; the model rejects these with ValueError, the plug-in never generates them.
   No proofs here. *)
From Coq Require Import ZArith List Bool Arith.
From Cspuz Require Import Lib.PyErr Core.Expr Core.Program Graph.GraphModel Graph.Avc
     Puzzle.PuzzleBase Puzzle.ModelBase Puzzle.Rules_norinori Puzzle.Norinori Puzzle.Nurimisaki.
Import ListNotations.
Local Open Scope nat_scope.

Definition lv (w : nat) (c : nat * nat) : expr := BVar (cidx w c).

(* constraints.count_true over BoolExprs: each contributes e.cond(1, 0); no operand at all gives the constant node *)
Definition ct_exprs (es : list expr) : expr :=
  match es with
  | [] => INode INT_CONSTANT [PyInt 0]
  | _ => INode ADD (map (fun e => INode IF [e; PyInt 1; PyInt 0]) es)
  end.

(* ~(a[1:, 1:] & a[1:, :-1] & a[:-1, 1:] & a[:-1, :-1]) at (y, x) *)
Definition lits_block2 (w y x : nat) : expr :=
  BNode NOT [BNode AND [BNode AND [BNode AND [lv w (S y, S x); lv w (S y, x)]; lv w (y, S x)]; lv w (y, x)]].

Definition in_block (region : list Z) (w i : nat) (c : nat * nat) : bool :=
  (at2 region w (fst c) (snd c) =? Z.of_nat i)%Z.

(* the neighbours of a cell in block i, in the order of four_neighbor_indices (up, down, left, right) *)
Definition lits_nsb (h w : nat) (region : list Z) (i : nat) (c : nat * nat) : list (nat * nat) :=
  filter (in_block region w i) (nbr4 h w (fst c) (snd c)).
(* the lower and the right neighbour (those with (y, x) < (y2, x2)) *)
Definition lits_dr (h w : nat) (c : nat * nat) : list (nat * nat) :=
  (if Nat.ltb (S (fst c)) h then [(S (fst c), snd c)] else []) ++
  (if Nat.ltb (S (snd c)) w then [(fst c, S (snd c))] else []).

Definition lits_pairs (h w : nat) (region : list Z) (i : nat) (c : nat * nat) : list expr :=
  map (fun c' => BNode AND [lv w c; lv w c']) (filter (in_block region w i) (lits_dr h w c)).

Definition lits_straight (h w : nat) (region : list Z) (i : nat) (c : nat * nat) : list expr :=
  let '(y, x) := c in
  let tmp :=
    (if Nat.ltb 0 y && Nat.ltb (S y) h && in_block region w i (y - 1, x) && in_block region w i (S y, x)
     then [BNode AND [lv w (y - 1, x); lv w (y, x); lv w (S y, x)]] else []) ++
    (if Nat.ltb 0 x && Nat.ltb (S x) w && in_block region w i (y, x - 1) && in_block region w i (y, S x)
     then [BNode AND [lv w (y, x - 1); lv w (y, x); lv w (y, S x)]] else []) in
  match tmp with [] => [] | _ => [BNode OR tmp] end.

Definition lits_t (h w : nat) (region : list Z) (i : nat) (c : nat * nat) : list expr :=
  let nsb := lits_nsb h w region i c in
  if Nat.leb 3 (length nsb) then [BNode GE [ct_vars (map (cidx w) nsb); PyInt 3]] else [].

(* num_straight[i], has_t[i] *)
Definition lits_ns (base i : nat) : expr := IVar (base + i) 0 2.
Definition lits_ht (base k i : nat) : expr := BVar (base + k + i).

Definition lits_block (h w : nat) (region : list Z) (k base i : nat) : list expr :=
  let R := region_cells h w region i in
  BNode EQ [ct_vars (map (cidx w) R); PyInt 4] ::
  map (fun c => BNode IMP [lv w c; fold_or_nodes (map (lv w) (lits_nsb h w region i c))]) R ++
  [BNode EQ [ct_exprs (flat_map (lits_pairs h w region i) R); PyInt 3];
   BNode EQ [lits_ns base i; ct_exprs (flat_map (lits_straight h w region i) R)];
   BNode IFF [lits_ht base k i; fold_or_nodes (flat_map (lits_t h w region i) R)]].

Definition lits_differ (base k i j : nat) : expr :=
  BNode OR [BNode NE [lits_ns base i; lits_ns base j]; BNode XOR [lits_ht base k i; lits_ht base k j]].

Definition lits_border (h w : nat) (region : list Z) (k base : nat) (c : nat * nat) : list expr :=
  let '(y, x) := c in
  let r := at2 region w y x in
  (if Nat.ltb (S y) h && negb (r =? at2 region w (S y) x)%Z
   then [BNode IMP [BNode AND [lv w (y, x); lv w (S y, x)]; lits_differ base k (zn r) (zn (at2 region w (S y) x))]]
   else []) ++
  (if Nat.ltb (S x) w && negb (r =? at2 region w y (S x))%Z
   then [BNode IMP [BNode AND [lv w (y, x); lv w (y, S x)]; lits_differ base k (zn r) (zn (at2 region w y (S x)))]]
   else []).

Definition lits_constraints (h w : nat) (region : list Z) (k base : nat) : list expr :=
  map (fun '(y, x) => lits_block2 w y x) (cells (h - 1) (w - 1)) ++
  flat_map (lits_block h w region k base) (seq 0 k) ++
  flat_map (lits_border h w region k base) (cells h w).

Definition solve_lits_model (pb : problem) : res state :=
  let h := dim pb 0 in let w := dim pb 1 in let region := sec pb 1 in
  if negb (forallb (fun z => (0 <=? z)%Z) region) || Nat.ltb (length region) (h * w) then Err ValueError
  else
  match post_avc (bool_grid_state (h * w) []) (map BVar (seq 0 (h * w))) (grid_graph h w) false false with
  | Ok st1 =>
      let k := n_regions region in
      Ok {| vars := vars st1 ++ repeat (DInt 0 2) k ++ repeat DBool k;
            keys := keys st1 ++ repeat false (k + k);
            cons := cons st1 ++ lits_constraints h w region k (next_id st1) |}
  | Err e => Err e
  end.
