(* Model of the legacy URL helpers (definitions only, no proofs):
     cspuz/puzzle/util.py   _encode_int_or_str, encode_array, encode_grid_segmentation, blocks_to_block_id
     cspuz/puzzle/compass.py     to_puzz_link_url, parse_puzz_link_url
     cspuz/puzzle/star_battle.py problem_to_pzv_url
     cspuz/puzzle/aquarium.py    problem_to_url
     cspuz/puzzle/heyawake.py    convert_from_rectangular_repr
   Values, text, int() and hex() are those of Codec/Comb.v. *)
From Coq Require Import ZArith List Ascii Bool NArith.
From Cspuz Require Import Lib.PyErr Codec.Comb.
Import ListNotations.
Local Open Scope Z_scope.
Local Open Scope res_scope.


Definition BASE36 : str := ["0"; "1"; "2"; "3"; "4"; "5"; "6"; "7"; "8"; "9"; "a"; "b"; "c"; "d"; "e"; "f"; "g"; "h"; "i"; "j"; "k"; "l"; "m"; "n"; "o"; "p"; "q"; "r"; "s"; "t"; "u"; "v"; "w"; "x"; "y"; "z"]%char.

(* range(n) *)
Definition zrange (n : Z) : list Z := map Z.of_nat (seq 0 (Z.to_nat n)).

(* ------------------------------------------------------------------ util._encode_int_or_str *)
Definition encode_int_or_str (v : pv) : res str :=
  match v with
  | VStr s => Ok s
  | VInt z =>
      if z <=? 15 then Ok (to_base16 z)
      else if z <=? 255 then Ok ("-"%char :: to_base16 z)
      else if z <=? 4095 then Ok ("+"%char :: to_base16 z)
      else Err ValueError                                   (* too large value *)
  | _ => Err TypeError                                      (* v <= 15 on None / list / tuple *)
  end.

(* _BASE36.index(marker): least i with _BASE36[i:] starting with marker *)
Fixpoint str_find (p s : str) (i : Z) : res Z :=
  if is_prefix p s then Ok i
  else match s with
       | [] => Err ValueError
       | _ :: t => str_find p t (i + 1)
       end.

(* sum(array, []) *)
Fixpoint py_sum_lists (l : list pv) : res (list pv) :=
  match l with
  | [] => Ok []
  | VList r :: t => let* rest := py_sum_lists t in Ok (r ++ rest)
  | _ :: _ => Err TypeError
  end.

Definition is_list (v : pv) : bool := match v with VList _ => true | _ => false end.

(* res.append(_BASE36[contiguous_empty_cells - 1 + single_empty_index]) when the counter is positive *)
Definition ea_flush (sei cnt : Z) : res str :=
  if 0 <? cnt then let* c := py_index BASE36 (cnt - 1 + sei) in Ok [c] else Ok [].

(* what one non-empty element appends *)
Definition ea_item (v : pv) : res str :=
  match v with
  | VStr _ | VInt _ => encode_int_or_str v
  | VList ws | VTup ws => let* ss := mapM encode_int_or_str ws in Ok (concat ss)
  | VNone => Err TypeError                                  (* unsupported type for serialization *)
  end.

(* the main loop of encode_array; cnt = contiguous_empty_cells; returns what is appended from here on *)
Fixpoint ea_loop (sei : Z) (empty : pv) (l : list pv) (cnt : Z) : res str :=
  match l with
  | [] => ea_flush sei cnt
  | v :: t =>
      if pv_eqb v empty then
        if 36 <=? cnt + 1 - 1 + sei then
          let* rest := ea_loop sei empty t 1 in Ok ("z"%char :: rest)
        else ea_loop sei empty t (cnt + 1)
      else
        let* f := ea_flush sei cnt in
        let* s := ea_item v in
        let* rest := ea_loop sei empty t 0 in
        Ok (f ++ s ++ rest)
  end.

(* encode_array(array, single_empty_marker, empty, dim) *)
Definition encode_array (array : list pv) (marker : str) (empty : pv) (dim : option Z) : res str :=
  let* sei := str_find marker BASE36 0 in
  let* d := match dim with
            | None => Ok (if forallb is_list array then 2 else 1)
            | Some d => if (d =? 1) || (d =? 2) then Ok d else Err ValueError
            end in
  let* flat := (if d =? 2 then py_sum_lists array else Ok array) in
  ea_loop sei empty flat 0.

Definition marker_g : str := ["g"%char].

(* ------------------------------------------------------------------ util.encode_grid_segmentation *)
Definition bit5 (l : list Z) (j : nat) : Z :=
  match nth_error l j with
  | Some b => if b =? 1 then 2 ^ (4 - Z.of_nat j) else 0
  | None => 0
  end.

Definition val5 (l : list Z) : Z := bit5 l 0 + bit5 l 1 + bit5 l 2 + bit5 l 3 + bit5 l 4.

(* convert_binary_seq: one character per group of five flags, the last group zero-padded *)
Fixpoint convert_binary_seq (fuel : nat) (s : list Z) : res str :=
  match fuel with
  | O => Ok []
  | S f =>
      match s with
      | [] => Ok []
      | _ =>
          let* c := py_index BASE36 (val5 (firstn 5 s)) in
          let* rest := convert_binary_seq f (skipn 5 s) in
          Ok (c :: rest)
      end
  end.

Definition ne_flag (a b : Z) : Z := if a =? b then 0 else 1.

Definition zget (g : list (list Z)) (y x : Z) : res Z :=
  let* row := py_index g y in py_index row x.

(* for y in range(height): for x in range(width - 1): block_id[y][x] != block_id[y][x + 1] *)
Definition seg_vertical (h w : Z) (b : list (list Z)) : res (list Z) :=
  mapM (fun yx : Z * Z => let* a := zget b (fst yx) (snd yx) in
                          let* c := zget b (fst yx) (snd yx + 1) in Ok (ne_flag a c))
       (flat_map (fun y => map (fun x => (y, x)) (zrange (w - 1))) (zrange h)).

(* for y in range(height - 1): for x in range(width): block_id[y][x] != block_id[y + 1][x] *)
Definition seg_horizontal (h w : Z) (b : list (list Z)) : res (list Z) :=
  mapM (fun yx : Z * Z => let* a := zget b (fst yx) (snd yx) in
                          let* c := zget b (fst yx + 1) (snd yx) in Ok (ne_flag a c))
       (flat_map (fun y => map (fun x => (y, x)) (zrange w)) (zrange (h - 1))).

Definition encode_grid_segmentation (h w : Z) (b : list (list Z)) : res str :=
  let* s1 := seg_vertical h w b in
  let* r1 := convert_binary_seq (length s1) s1 in
  let* s2 := seg_horizontal h w b in
  let* r2 := convert_binary_seq (length s2) s2 in
  Ok (r1 ++ r2).

(* ------------------------------------------------------------------ util.blocks_to_block_id *)
(* ret[y][x] = v  (negative indices wrap, as in Python) *)
Definition zset (g : list (list Z)) (y x v : Z) : res (list (list Z)) :=
  let* iy := wrap_index g y in
  let* row := nth_res g iy in
  let* ix := wrap_index row x in
  Ok (set_nth g iy (set_nth row ix v)).

Fixpoint assign_block (g : list (list Z)) (i : Z) (cells : list (Z * Z)) : res (list (list Z)) :=
  match cells with
  | [] => Ok g
  | (y, x) :: t => let* g' := zset g y x i in assign_block g' i t
  end.

Fixpoint assign_blocks (g : list (list Z)) (i : Z) (blocks : list (list (Z * Z))) : res (list (list Z)) :=
  match blocks with
  | [] => Ok g
  | b :: t => let* g' := assign_block g i b in assign_blocks g' (i + 1) t
  end.

Definition blocks_to_block_id (h w : Z) (blocks : list (list (Z * Z))) : res (list (list Z)) :=
  assign_blocks (neg_grid h w) 0 blocks.

(* ------------------------------------------------------------------ compass *)
(* one clue: (y, x, up, left, down, right), -1 = blank *)
Definition clue := (Z * Z * (Z * Z * Z * Z))%type.

Definition clue_num (v : Z) : pv := if v =? -1 then VStr ["."%char] else VInt v.

Definition pset (g : list (list pv)) (y x : Z) (v : pv) : res (list (list pv)) :=
  let* iy := wrap_index g y in
  let* row := nth_res g iy in
  let* ix := wrap_index row x in
  Ok (set_nth g iy (set_nth row ix v)).

(* problem[y][x] = tuple(map(..., (u, d, l, r))) for y, x, u, l, d, r in pos *)
Fixpoint compass_place (g : list (list pv)) (pos : list clue) : res (list (list pv)) :=
  match pos with
  | [] => Ok g
  | (y, x, (u, l, d, r)) :: t =>
      let* g' := pset g y x (VTup [clue_num u; clue_num d; clue_num l; clue_num r]) in
      compass_place g' t
  end.

Definition none_grid (h w : Z) : list (list pv) := repeat (repeat VNone (Z.to_nat w)) (Z.to_nat h).

Definition compass_body (h w : Z) (pos : list clue) : res str :=
  let* g := compass_place (none_grid h w) pos in
  encode_array (map VList g) marker_g VNone None.

Definition compass_prefix : str := ["h"; "t"; "t"; "p"; "s"; ":"; "/"; "/"; "p"; "u"; "z"; "z"; "."; "l"; "i"; "n"; "k"; "/"; "p"; "?"; "c"; "o"; "m"; "p"; "a"; "s"; "s"; "/"]%char.

Definition to_puzz_link_url (h w : Z) (pos : list clue) : res str :=
  let* body := compass_body h w pos in
  Ok (compass_prefix ++ py_str_int w ++ slash ++ py_str_int h ++ slash ++ body).

(* url.split("?", 1)[-1]: the text after the first question mark (the whole text if there is none) *)
Fixpoint after_first (c0 : ascii) (s : str) : option str :=
  match s with
  | [] => None
  | c :: t => if ascii_eqb c c0 then Some t else after_first c0 t
  end.

Definition after_question (s : str) : str :=
  match after_first "?"%char s with Some t => t | None => s end.

(* one step of .split("/", n): the field before the first slash and the rest after it *)
Fixpoint cut_slash (s : str) : option (str * str) :=
  match s with
  | [] => None
  | c :: t =>
      if is_slash c then Some ([], t)
      else match cut_slash t with
           | Some (a, b) => Some (c :: a, b)
           | None => None
           end
  end.

(* one of the four numbers of a clue: (value, rest of the text) *)
Definition compass_num_raw (s : str) : res (Z * str) :=
  match s with
  | [] => Err ValueError                                    (* truncated clue *)
  | c :: t =>
      if ascii_eqb c "-"%char then
        let* v := py_int (firstn 2 t) 16 in Ok (v, skipn 2 t)
      else if ascii_eqb c "+"%char then
        let* v := py_int (firstn 3 t) 16 in Ok (v, skipn 3 t)
      else if ascii_eqb c "."%char then Ok (-1, t)
      else let* v := py_int [c] 16 in Ok (v, t)
  end.

Definition compass_num (s : str) : res (Z * str) :=
  let* '(v, t) := compass_num_raw s in
  if v <? -1 then Err ValueError else Ok (v, t).            (* negative clue number *)

Definition ord_f : Z := 102.
Definition ord_g : Z := 103.

(* the while loop of parse_puzz_link_url; s = body[i:] *)
Fixpoint compass_parse_loop (fuel : nat) (height width : Z) (s : str) (pos : Z) : res (list clue) :=
  match fuel with
  | O => Err OtherError
  | S f =>
      match s with
      | [] => Ok []
      | c :: t =>
          if ord_g <=? ord c then compass_parse_loop f height width t (pos + (ord c - ord_f))
          else
            let* '(n0, s0) := compass_num s in
            let* '(n1, s1) := compass_num s0 in
            let* '(n2, s2) := compass_num s1 in
            let* '(n3, s3) := compass_num s2 in
            if (width <=? 0) || (height * width <=? pos) then Err ValueError   (* clue outside the board *)
            else
              let* rest := compass_parse_loop f height width s3 (pos + 1) in
              Ok ((pos / width, pos mod width, (n0, n2, n1, n3)) :: rest)
      end
  end.

(* parse_puzz_link_url(url): (height, width, clues) *)
Definition parse_puzz_link_url (url : str) : res (Z * Z * list clue) :=
  (* width, height, body = url.split("?", 1)[-1].split("/", 3)[1:] *)
  match cut_slash (after_question url) with
  | Some (_, r1) =>
      match cut_slash r1 with
      | Some (ws, r2) =>
          match cut_slash r2 with
          | Some (hs, body) =>
              let* height := py_int hs 10 in
              let* width := py_int ws 10 in
              let* clues := compass_parse_loop (S (length body)) height width body 0 in
              Ok (height, width, clues)
          | None => Err ValueError                          (* not enough values to unpack *)
          end
      | None => Err ValueError
      end
  | None => Err ValueError
  end.

(* ------------------------------------------------------------------ star battle *)
Definition starbattle_prefix : str := ["h"; "t"; "t"; "p"; ":"; "/"; "/"; "p"; "z"; "v"; "."; "j"; "p"; "/"; "p"; "."; "h"; "t"; "m"; "l"; "?"; "s"; "t"; "a"; "r"; "b"; "a"; "t"; "t"; "l"; "e"; "/"]%char.

Definition starbattle_url (n k : Z) (blocks : list (list Z)) : res str :=
  let* seg := encode_grid_segmentation n n blocks in
  Ok (starbattle_prefix ++ py_str_int n ++ slash ++ py_str_int n ++ slash ++ py_str_int k ++ slash ++ seg).

(* ------------------------------------------------------------------ aquarium *)
Definition aquarium_prefix : str := ["h"; "t"; "t"; "p"; "s"; ":"; "/"; "/"; "p"; "u"; "z"; "z"; "."; "l"; "i"; "n"; "k"; "/"; "p"; "?"; "a"; "q"; "u"; "a"; "r"; "i"; "u"; "m"; "/"]%char.

Definition aquarium_url (h w : Z) (blocks : list (list (Z * Z))) (clue_row clue_col : list Z) : res str :=
  let* bid := blocks_to_block_id h w blocks in
  let* seg := encode_grid_segmentation h w bid in
  let* clues := encode_array (map VInt (clue_col ++ clue_row)) marker_g (VInt (-1)) None in
  Ok (aquarium_prefix ++ py_str_int w ++ slash ++ py_str_int h ++ slash ++ seg ++ slash ++ clues).

(* ------------------------------------------------------------------ heyawake.convert_from_rectangular_repr *)
Definition zrange2 (a b : Z) : list Z := map (fun k => a + k) (zrange (b - a)).

Definition rect_room (y0 x0 y1 x1 : Z) : pv :=
  VList (flat_map (fun y => map (fun x => VTup [VInt y; VInt x]) (zrange2 x0 x1)) (zrange2 y0 y1)).

(* (rooms, clues) *)
Definition convert_from_rectangular_repr (problem : list (Z * Z * Z * Z * Z)) : pv :=
  VTup [VList (map (fun r => match r with (y0, x0, y1, x1, _) => rect_room y0 x0 y1 x1 end) problem);
        VList (map (fun r => match r with (_, _, _, _, n) => VInt n end) problem)].
