"""C11 plug-in: heyawake (solve_heyawake(height, width, rooms, clues))."""
import c11lib as L

NAME = "heyawake"
MODULE = "cspuz.puzzle.heyawake"
FUNC = "solve_heyawake"
TIER1 = ("Heyawake", "solve_heyawake_model")
TIER1_PRIM = ("HeyawakePrim", "solve_heyawake_model_prim")


def call(mod, pb):
    rooms = [[tuple(c) for c in b] for b in pb["rooms"]]
    return mod.solve_heyawake(pb["h"], pb["w"], rooms, pb["clues"])


def ncand(pb):
    return 2 ** (pb['h'] * pb['w'])


def encode(pb):
    return [[pb["h"], pb["w"]], L.flat(L.region_ids(pb["h"], pb["w"], pb["rooms"])), pb["clues"]]


def _with_clues(rng, h, w, rooms, k):
    yield {"h": h, "w": w, "rooms": rooms, "clues": [-1] * len(rooms)}
    for _ in range(k):
        yield {"h": h, "w": w, "rooms": rooms,
               "clues": [rng.choice([-1, -1, 0, 1, 2, min(3, len(r))]) for r in rooms]}


def _max_clue_boards(rng, shapes):
    """a T-, plus- or zigzag-shaped room whose clue is the largest number of pairwise non-adjacent cells it can hold (more
    than half of its cells for these shapes), the rest of the board in one or two unclued rooms"""
    shapes_ = [
        ([(0, 1), (1, 0), (1, 1), (1, 2)], 3),                       # T: the three arms
        ([(0, 1), (1, 0), (1, 1), (1, 2), (2, 1)], 4),               # plus: the four arms
        ([(0, 0), (0, 1), (1, 1), (1, 2), (2, 2)], 3),               # staircase: every other cell
        ([(0, 0), (1, 0), (1, 1), (2, 1), (2, 2), (3, 2)], 3),
    ]
    for (h, w) in shapes:
        for (cells, k) in shapes_:
            hh = max(y for y, _ in cells) + 1
            ww = max(x for _, x in cells) + 1
            if hh > h or ww > w:
                continue
            dy, dx = rng.randrange(h - hh + 1), rng.randrange(w - ww + 1)
            room = sorted([y + dy, x + dx] for (y, x) in cells)
            inroom = {tuple(c) for c in room}
            rest = [[y, x] for y in range(h) for x in range(w) if (y, x) not in inroom]
            rooms = [room] + ([rest] if rest else [])
            rooms.sort(key=lambda r: r[0])
            clues = [k if r is room else -1 for r in rooms]
            yield {"h": h, "w": w, "rooms": rooms, "clues": clues}
            yield {"h": h, "w": w, "rooms": rooms, "clues": [(k + 1) if r is room else -1 for r in rooms]}


def families(tier, rng):
    th = tier == "thorough"
    yield from _max_clue_boards(rng, [(3, 3), (3, 4), (4, 3), (4, 4)] if th else [(3, 4)])   # 4x4 and larger: tier1_problems (glue tie)
    for (h, w) in [(1, 1), (1, 2), (2, 1), (1, 3), (3, 1), (2, 2), (1, 4), (4, 1), (2, 3), (3, 2), (1, 5), (5, 1)]:
        parts = list(L.region_partitions(h, w))
        for rooms in (parts if th else L.sample(rng, parts, 12)):
            yield from _with_clues(rng, h, w, rooms, 3 if th else 1)
    for (h, w) in [(3, 3), (2, 4), (4, 2), (3, 4)]:
        for rooms in L.sample(rng, L.region_partitions(h, w, max_size=6), 60 if th else 8):
            yield from _with_clues(rng, h, w, rooms, 2 if th else 1)


def tier2(tier, rng):
    th = tier == "thorough"
    for (h, w) in [(1, 1), (1, 2), (2, 2), (1, 3), (3, 1)]:
        parts = list(L.region_partitions(h, w))
        for rooms in (parts if th else L.sample(rng, parts, 3)):
            yield from _with_clues(rng, h, w, rooms, 1)


def big(tier, rng):
    """2 x N boards with a two-digit room clue (one room, or a big room and a small one): black cells on every
    other cell of the top row; 5x5 / 4x6 boards with 3-4 rooms (only the grids the solver admits are checked)"""
    th = tier == "thorough"
    for n in (L.LONG if th else L.sample(rng, L.LONG, 3) + [21]):
        evens = list(range(0, n, 2))
        k = rng.randint(10, len(evens))
        chosen = set(rng.sample(evens, k))
        black = [1 if (y == 0 and x in chosen) else 0 for y in range(2) for x in range(n)]
        rooms = [[[y, x] for y in range(2) for x in range(n)]]
        yield {"h": 2, "w": n, "rooms": rooms, "clues": [k], "planted": [black]}
        cut = n - 2
        left = [[y, x] for y in range(2) for x in range(cut)]
        right = [[y, x] for y in range(2) for x in range(cut, n)]
        kl = sum(1 for x in chosen if x < cut)
        yield {"h": 2, "w": n, "rooms": [left, right], "clues": [kl, -1], "planted": [black]}
    for (h, w) in [(5, 5), (4, 6), (6, 4)]:
        for _ in range(12 if th else 3):
            rooms = L.random_rooms(rng, h, w, rng.choice([3, 4]))
            yield {"h": h, "w": w, "rooms": rooms, "clues": [rng.choice([-1, -1, 1, 2, 3]) for _ in rooms]}


def tier1_problems(tier, rng):
    """program-capture tie: every room layout of the tiniest boards, random layouts with many small rooms (several
    borders per line) on small, non-square and larger boards, long thin boards, boards without cells"""
    th = tier == "thorough"
    for (h, w) in [(1, 1), (1, 2), (2, 1), (1, 3), (3, 1), (2, 2), (1, 4), (4, 1), (2, 3), (3, 2)]:
        parts = list(L.region_partitions(h, w))
        for rooms in (parts if th else L.sample(rng, parts, 10)):
            yield from _with_clues(rng, h, w, rooms, 1)
    for (h, w) in [(1, 5), (5, 1), (3, 3), (2, 5), (5, 2), (4, 4), (3, 6), (6, 5), (1, 9), (9, 1), (8, 8), (2, 21)]:
        for _ in range(8 if th else 3):
            k = rng.randint(2, max(2, h * w // 2))
            yield from _with_clues(rng, h, w, L.random_rooms(rng, h, w, k), 1)
    yield from _max_clue_boards(rng, [(3, 3), (4, 4), (4, 5), (5, 4), (5, 6), (7, 7)])
    for (h, w) in [(0, 0), (0, 2), (2, 0)]:
        yield {"h": h, "w": w, "rooms": [], "clues": []}
