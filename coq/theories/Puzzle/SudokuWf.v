(* C11: the program of solve_sudoku is well formed for every n; composition with C02 (solve_reports). *)
From Coq Require Import ZArith List Bool Arith Lia.
From Cspuz Require Import Lib.PyErr Core.Expr Core.Program Backend.Z3 Backend.Z3Oracle Backend.Z3SolveProofs
     Backend.SolveLoop Backend.SolveZ3Proofs
     Puzzle.PuzzleBase Puzzle.ModelBase Puzzle.ModelLemmas Puzzle.SatAbs Puzzle.SolveCompose Puzzle.WfLemmas
     Puzzle.Rules_sudoku Puzzle.Sudoku Puzzle.SudokuProofs.
Import ListNotations.
Local Open Scope nat_scope.

Lemma ok_sudoku_cell size y x : y < size -> x < size ->
  ok (repeat (DInt 1 (Z.of_nat size)) (size * size)) false (sudoku_cell size y x) = true.
Proof. intros Hy Hx. unfold sudoku_cell. apply ok_ivar_repeat. nia. Qed.

Lemma sudoku_constraints_ok n clues :
  forallb (ok (repeat (DInt 1 (Z.of_nat (n * n))) ((n * n) * (n * n))) true) (sudoku_constraints n clues) = true.
Proof.
  unfold sudoku_constraints. cbv zeta. set (size := n * n).
  rewrite !forallb_app, !forallb_map, !forallb_flat_map.
  repeat (apply andb_true_intro; split).
  - apply forallb_seq. intros i Hi. autorewrite with okdb. rewrite !forallb_map.
    rewrite !forallb_seq; [reflexivity| |]; intros j Hj; apply ok_sudoku_cell; lia.
  - apply forallb_cells. intros y x Hy Hx. autorewrite with okdb. rewrite forallb_map.
    apply forallb_cells. intros dy dx Hdy Hdx. apply ok_sudoku_cell; unfold size; nia.
  - apply forallb_seq. intros i Hi. destruct (1 <=? getz clues i)%Z; [|reflexivity].
    autorewrite with okdb. apply ok_ivar_repeat. lia.
Qed.

Lemma sudoku_model_wf pb st : solve_sudoku_model pb = Ok st -> wf_state st /\ wf_keys st.
Proof.
  unfold solve_sudoku_model. destruct (Nat.eqb _ 0); [discriminate|].
  intros H. inversion H; subst st; clear H. split.
  - apply sudoku_constraints_ok.
  - unfold wf_keys; simpl. rewrite !repeat_length. reflexivity.
Qed.

Theorem sudoku_solve_reports : forall oracle, oracle_sound_on oracle -> oracle_complete_on oracle ->
  forall n clues st,
  solve_sudoku_model [[Z.of_nat n]; clues] = Ok st ->
  solve_reports oracle st (seq 0 ((n * n) * (n * n))) (rules_sudoku [[Z.of_nat n]; clues]).
Proof.
  intros oracle Os Oc n clues st Hst.
  apply (solve_reports_intro oracle no_graph); try assumption.
  - exact (sudoku_model_wf _ _ Hst).
  - unfold solve_sudoku_model in Hst. rewrite dim1_0 in Hst. destruct (Nat.eqb _ 0); [discriminate|].
    inversion Hst; subst st. simpl. apply repeat_keys.
  - intros ans. exact (sudoku_exact n clues st ans Hst).
Qed.
